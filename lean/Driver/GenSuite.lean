/-
Driver.GenSuite — suite `gen` (C08, C09): parses the case lines of harness/src/suites/gen.rs,
prints the model's observation (`genLine`) and evaluates the property predicates on the
implementation's observation (`genPred`).  Driver glue: `partial` is fine here.
-/
import Driver.Sx
import VarlinkVerif.Model.Gen
import VarlinkVerif.Model.GenEmit
import VarlinkVerif.Pred.Gen

namespace VV
open Gen

namespace GenDrv

partial def parseTy : Sx → Option Ty
  | .atom "bool" => some .bool
  | .atom "int" => some .int
  | .atom "float" => some .float
  | .atom "string" => some .string
  | .atom "object" => some .object
  | .list [.atom "ref", n] => (Sx.asStr n).map .ref
  | .list (.atom "st" :: fs) => (fs.mapM parseField).map .struct
  | .list (.atom "en" :: vs) => (vs.mapM Sx.asStr).map .enum
  | .list [.atom "arr", t] => (parseTy t).map .arr
  | .list [.atom "map", t] => (parseTy t).map .map
  | .list [.atom "opt", t] => (parseTy t).map .opt
  | _ => none
where
  parseField : Sx → Option (String × Ty)
    | .list [n, t] => do
      let n ← Sx.asStr n
      let t ← parseTy t
      pure (n, t)
    | _ => none

def parseFields : Sx → Option (List (String × Ty))
  | .list (.atom "F" :: fs) => fs.mapM fun f => match f with
    | .list [n, t] => do
      let n ← Sx.asStr n
      let t ← parseTy t
      pure (n, t)
    | _ => none
  | _ => none

def parseIdl : Sx → Option IDL
  | .list [.atom "idl", n, .list (.atom "T" :: ts), .list (.atom "M" :: ms), .list (.atom "E" :: es)] => do
    let n ← Sx.asStr n
    let ts ← ts.mapM fun t => match t with
      | .list [tn, d] => do
        let tn ← Sx.asStr tn
        let d ← parseTy d
        pure (tn, d)
      | _ => none
    let ms ← ms.mapM fun m => match m with
      | .list [mn, i, o] => do
        let mn ← Sx.asStr mn
        let i ← parseFields i
        let o ← parseFields o
        pure ({ name := mn, input := i, output := o } : Method)
      | _ => none
    let es ← es.mapM fun e => match e with
      | .list [en, p] => do
        let en ← Sx.asStr en
        let p ← parseFields p
        pure ({ name := en, parm := p } : ErrorDef)
      | _ => none
    pure { name := n, types := ts, methods := ms, errors := es }
  | _ => none

/-- `(src x<text> P)`: `some (some idl)` accepted, `some none` rejected (with kind), `none` malformed -/
def parseSrc : Sx → Option (Option IDL × String)
  | .list [.atom "src", _, .list [.atom "rej", .atom k]] => some (none, k)
  | .list [.atom "src", _, p] => (parseIdl p).map fun i => (some i, "")
  | _ => none

partial def parseVal : Sx → Option Val
  | .list [.atom "b", .atom "t"] => some (.bool true)
  | .list [.atom "b", .atom "f"] => some (.bool false)
  | .list [.atom "i", v] => (Sx.asInt v).map .int
  | .list [.atom "f", v] => (Sx.asNat v).map .flt
  | .list [.atom "s", v] => (Sx.asStr v).map .str
  | .list [.atom "j", v] => (Sx.toJson v).map .json
  | .list [.atom "none"] => some .none
  | .list [.atom "some", v] => (parseVal v).map .some
  | .list (.atom "arr" :: vs) => (vs.mapM parseVal).map .arr
  | .list (.atom "map" :: kvs) => (kvs.mapM parseKV).map .map
  | .list (.atom "rec" :: kvs) => (kvs.mapM parseKV).map .record
  | .list (.atom "set" :: ks) => (ks.mapM Sx.asStr).map .set
  | .list [.atom "en", v] => (Sx.asStr v).map .enum
  | _ => none
where
  parseKV : Sx → Option (String × Val)
    | .list [k, v] => do
      let k ← Sx.asStr k
      let v ← parseVal v
      pure (k, v)
    | _ => none

def parseAction : Sx → Option Action
  | .list [.atom "reply", c, v] => do
    let v ← parseVal v
    pure (.reply (c matches .atom "t") v)
  | .list [.atom "error", e, v] => do
    let e ← Sx.asStr e
    let v ← parseVal v
    pure (.error e v)
  | _ => none

def parseMode : Sx → Option Mode
  | .atom "call" => some .call
  | .atom "more" => some .more
  | .atom "oneway" => some .oneway
  | _ => none

/-! canonical JSON: keys sorted (UTF-8 byte order = code point order) -/
partial def canon : Json → Json
  | .arr l => .arr (l.map canon)
  | .obj l => .obj ((l.map fun (k, v) => (k, canon v)).mergeSort fun a b => a.1 ≤ b.1)
  | j => j

def jx (j : Json) : Sx := Sx.ofJson (canon j)

def tagged (t : String) (l : List Sx) : Sx := .list (.atom t :: l)

/-! resolving the emitted type a probe case names: root + field path -/
def stripToAnon : Ty → Option Ty
  | .struct fs => some (.struct fs)
  | .enum vs => some (.enum vs)
  | .arr t => stripToAnon t
  | .opt t => stripToAnon t
  | .map t => match t with
    | .struct [] => none
    | _ => stripToAnon t
  | _ => none

def walkPath : Ty → List String → Option Ty
  | t, [] => some t
  | .struct fs, f :: rest =>
    match lookupTy f fs with
    | some ft => (stripToAnon ft).bind fun a => walkPath a rest
    | none => none
  | _, _ => none

/-- (type, is a top-level Args/Reply/error-args struct) -/
def probeType (i : IDL) (root : Sx) (path : List String) : Option (Ty × Bool) :=
  let start : Option (Ty × Bool) := match root with
    | .list [.atom "t", n] => (Sx.asStr n).bind fun n => (lookupTy n i.types).map fun d => (d, false)
    | .list [.atom "in", n] => (Sx.asStr n).bind fun n => (i.methods.find? (·.name == n)).map fun m => (Ty.struct m.input, true)
    | .list [.atom "out", n] => (Sx.asStr n).bind fun n => (i.methods.find? (·.name == n)).map fun m => (Ty.struct m.output, true)
    | .list [.atom "err", n] => (Sx.asStr n).bind fun n => (i.errors.find? (·.name == n)).map fun e => (Ty.struct e.parm, true)
    | _ => none
  start.bind fun (t, top) => (walkPath t path).map fun t' => (t', top && path.isEmpty)

def probeModel (i : IDL) (t : Ty) (top : Bool) (j : Json) : Option Json :=
  (decode i.env t j).map fun v => if top then encodeTop v else encode v

/-! model observations -/

def sortStrs (l : List String) : List String := l.mergeSort fun a b => a ≤ b

def compileLine (src : Option IDL × String) : Sx :=
  match src with
  | (none, k) => tagged "compile" [tagged "rej" [.atom k]]
  | (some i, _) =>
    match verdict i with
    | .panic => tagged "compile" [.atom "panic"]
    | v =>
      let e := emit i
      let items := e.items.mergeSort fun a b => a.2 < b.2 || (a.2 == b.2 && a.1 ≤ b.1)
      let traits := e.traitFns.mergeSort fun a b => a.1 ≤ b.1
      tagged "compile" [
        .atom "ok",
        tagged "rustc" [match v with
          | .rustcFail c => tagged "fail" [.atom c]
          | _ => .atom "ok"],
        tagged "items" (items.map fun (k, n) => .list [.atom k, Sx.strAtom n]),
        tagged "fns" (traits.map fun (t, fs) => .list (Sx.strAtom t :: (sortStrs fs).map Sx.strAtom))]

def clientSx : ClientObs → Sx
  | .ok eq j => tagged "ok" [Sx.ofBool eq, jx j]
  | .err e eq => tagged "err" [Sx.strAtom e, Sx.ofBool eq]
  | .verr k => tagged "verr" [.atom k]
  | .okOneway => .atom "ok-oneway"

def callObsSx (o : CallObs) : Sx :=
  tagged "call" [
    tagged "req" (o.req.map jx),
    tagged "seen" (o.seen.map Sx.ofBool),
    tagged "wire" (o.wire.map jx),
    tagged "client" (o.client.map clientSx),
    tagged "srv" [.atom (if o.srvOk then "ok" else "err")]]

def lastDot (s : String) : Option (String × String) :=
  let cs := s.toList
  let suffix := (cs.reverse.takeWhile (· != '.')).reverse
  if suffix.length = cs.length then none
  else some (String.ofList (cs.take (cs.length - suffix.length - 1)), String.ofList suffix)

def optBoolOk : Option Json → Bool
  | none => true
  | some .null => true
  | some (.bool _) => true
  | _ => false

/-- `VarlinkService::handle` on one raw request with the recording implementation's fallback
    (`reply_method_not_implemented`) -/
def rawModel (i : IDL) (req : Json) : RawObs :=
  match req with
  | .obj _ =>
    if !(optBoolOk (req.get? "more") && optBoolOk (req.get? "oneway") && optBoolOk (req.get? "upgrade")) then
      { seen := [], wire := [], srvOk := false }
    else
    match req.get? "method" with
    | some (.str full) =>
      let oneway := (req.get? "oneway") matches some (.bool true)
      let out (l : List Json) := if oneway then [] else l
      match lastDot full with
      | none => { seen := [], wire := out [.obj [("error", .str "org.varlink.service.InterfaceNotFound"), ("parameters", .obj [("interface", .str full)])]], srvOk := true }
      | some (iface, _) =>
        if iface != i.name then
          { seen := [], wire := out [.obj [("error", .str "org.varlink.service.InterfaceNotFound"), ("parameters", .obj [("interface", .str iface)])]], srvOk := true }
        else
        match dispatch i full (nonNull (req.get? "parameters")) with
        | .methodNotFound m => { seen := [], wire := out [errMethodNotFound m], srvOk := true }
        | .invalidParameter p closes => { seen := [], wire := out [errInvalidParameter p], srvOk := !closes }
        | .invoke m args => { seen := [(m.name, encodeTop args)], wire := out [errMethodNotImplemented m.name], srvOk := true }
    | _ => { seen := [], wire := [], srvOk := false }
  | _ => { seen := [], wire := [], srvOk := false }

def rawObsSx (o : RawObs) : Sx :=
  tagged "raw" [
    tagged "seen" (o.seen.map fun (m, j) => .list [Sx.strAtom m, jx j]),
    tagged "wire" (o.wire.map jx),
    tagged "srv" [.atom (if o.srvOk then "ok" else "err")]]

def frontLine (which : String) (src : Option IDL × String) : Sx :=
  match src with
  | (none, k) => tagged "front" [tagged "rej" [.atom k], .atom "err", .atom "f", .atom "-"]
  | (some i, _) =>
    match verdict i with
    | .panic => tagged "front" [.atom "ok", .atom "panic", .atom "f", .atom "-"]
    | .rustcFail _ =>
      if which == "derive" then tagged "front" [.atom "ok", .atom "rustc-fail", .atom "t", .atom "-"]
      else tagged "front" [.atom "ok", .atom "ok", .atom "t", .atom "t"]
    | .ok => tagged "front" [.atom "ok", .atom "ok", .atom "t", .atom (if which == "derive" then "-" else "t")]

/-- `cargo_build_many` on a list of files: file by file, the first failure ends the process (the output file
    of the failing definition has been created empty, later files are not touched) -/
def frontManyLine (srcs : List (Option IDL × String)) : Sx :=
  let rec go (l : List (Option IDL × String)) (failed : Option String) (acc : List Sx) : Option String × List Sx :=
    match l with
    | [] => (failed, acc.reverse)
    | (i?, _) :: rest =>
      let good : Bool := match i? with
        | some i => verdict i != .panic
        | none => false
      match failed with
      | some f => go rest (some f) (Sx.list [.atom "f", .atom (if good then "f" else "-")] :: acc)
      | none =>
        if good then go rest none (Sx.list [.atom "t", .atom "t"] :: acc)
        else go rest (some (if i?.isSome then "panic" else "err")) (Sx.list [.atom "f", .atom "-"] :: acc)
  let (failed, outs) := go srcs none []
  tagged "frontmany" (.atom (failed.getD "ok") :: outs)

/-! sessions -/

def parseStep : Sx → Option SStep
  | .list [.atom "g", i, m, .atom mode, args, .list (.atom "script" :: script)] => do
    let i ← Sx.asNat i
    let m ← Sx.asStr m
    let args ← parseVal args
    let script ← script.mapM parseAction
    pure (.gen i m mode args script)
  | .list [.atom "r", j] => (Sx.toJson j).map .raw
  | _ => none

/-- a raw request to a service with several generated interfaces (the recorders' fallback replies
    `MethodNotImplemented`) -/
def rawModelMulti (idls : List IDL) (req : Json) : RawObs :=
  match req.get? "method" with
  | some (.str full) =>
    (match lastDot full with
     | none => rawModel (idls.headD default) req
     | some (iface, _) =>
       match idls.find? (·.name == iface) with
       | some i => rawModel i req
       | none => rawModel { (idls.headD default) with name := "\u0000no-such-interface" } req)
  | _ => rawModel (idls.headD default) req

structure SessAcc where
  req : List Json := []
  seen : List Sx := []
  wire : List Json := []
  client : List Sx := []
  srvOk : Bool := true
  busy : Bool := false
  closed : Bool := false

def sessStep (idls : List IDL) (a : SessAcc) (s : SStep) : SessAcc :=
  match s with
  | .gen i mn mode args script =>
    if a.busy then { a with client := a.client ++ [tagged "g" [clientSx (.verr "busy")]] }
    else
    match idls[i]? with
    | none => { a with client := a.client ++ [.atom "no-such-interface"] }
    | some idl =>
      match idl.methods.find? (·.name == mn) with
      | none => { a with client := a.client ++ [.atom "no-such-method"] }
      | some m =>
        let ab := abandonCount mode
        let md : Mode := if mode == "oneway" then .oneway else if mode == "more" || ab.isSome then .more else .call
        let o := predictCall idl m md args script
        let outs := match ab with
          | some n => o.client.take n
          | none => o.client
        let busy' := match ab with
          | some n => decide (n < o.client.length) && o.seen != []
          | none => false
        { a with req := a.req ++ o.req, seen := a.seen ++ o.seen.map Sx.ofBool, wire := a.wire ++ o.wire,
                 client := a.client ++ [tagged "g" (outs.map clientSx)], srvOk := a.srvOk && o.srvOk, busy := busy',
                 closed := a.closed || !o.srvOk }
  | .raw req =>
    if a.busy then { a with client := a.client ++ [tagged "r" [.atom "busy"]] }
    else
      let o := rawModelMulti idls req
      { a with req := a.req ++ [req], seen := a.seen ++ o.seen.map (fun (m, j) => Sx.list [Sx.strAtom m, jx j]),
               wire := a.wire ++ o.wire,
               client := a.client ++ [tagged "r" (match o.wire with
                 | [] => [.atom "closed"]
                 | w => w.map jx)],
               srvOk := a.srvOk && o.srvOk, closed := a.closed || !o.srvOk }

def sessionLine (idls : List IDL) (steps : List SStep) : Sx :=
  if idls.any (fun i => verdict i != .ok) then tagged "session" [.atom "nobuild"] else
  let a := steps.foldl (sessStep idls) {}
  tagged "session" [tagged "call" [
    tagged "req" (a.req.map jx), tagged "seen" a.seen, tagged "wire" (a.wire.map jx), tagged "client" a.client,
    tagged "srv" [.atom (if a.srvOk then "ok" else "err")]]]

def parseSession (c : Sx) : Option (List IDL × List SStep) :=
  match c with
  | .list [.atom "session", .list (.atom "ifaces" :: srcs), .list (.atom "steps" :: steps)] => do
    let ps ← srcs.mapM parseSrc
    let idls ← ps.mapM (·.1)
    let steps ← steps.mapM parseStep
    pure (idls, steps)
  | _ => none

def parseSObs : Sx → Option SObs
  | .list (.atom "g" :: outs) => (outs.mapM parseClientObsFwd).map .g
  | .list [.atom "r", .atom t] => some (.r none t)
  | .list [.atom "r", j] => (Sx.toJson j).map fun j => .r (some j) ""
  | _ => none
where
  parseClientObsFwd : Sx → Option ClientObs
    | .list [.atom "ok", eq, j] => (Sx.toJson j).map fun j => .ok (eq matches .atom "t") j
    | .list [.atom "err", e, eq] => (Sx.asStr e).map fun e => .err e (eq matches .atom "t")
    | .list [.atom "verr", .atom k] => some (.verr k)
    | .atom "ok-oneway" => some .okOneway
    | _ => none

/-- the first client's request reaches the implementation, the reply cannot be written (peer gone, `handle` fails);
    the second connection is served as if the first had never been -/
def sendcloseLine (idl : IDL) (steps : List SStep) : Sx :=
  if verdict idl != .ok then tagged "sendclose" [.atom "nobuild"] else
  match steps with
  | [.gen _ m1 _ a1 s1, .gen _ m2 mode2 a2 s2] =>
    (match idl.methods.find? (·.name == m1), idl.methods.find? (·.name == m2) with
     | some me1, some me2 =>
       let o1 := predictCall idl me1 .more a1 s1
       let md : Mode := if mode2 == "more" then .more else .call
       let o2 := predictCall idl me2 md a2 s2
       tagged "sendclose" [
         tagged "first" [],
         tagged "srv1" [.atom (if o1.wire.isEmpty then "ok" else "err")],
         tagged "second" (o2.client.map clientSx),
         tagged "seen" ((o1.seen ++ o2.seen).map Sx.ofBool),
         tagged "wire" (o2.wire.map jx),
         tagged "srv2" [.atom (if o2.srvOk then "ok" else "err")]]
     | _, _ => tagged "sendclose" [.atom "bad-case"])
  | _ => tagged "sendclose" [.atom "bad-case"]

def modelLine (c : Sx) : Option Sx :=
  match c with
  | .list [.atom "sendclose", ifaces, steps] =>
    (parseSession (.list [.atom "session", ifaces, steps])).bind fun (idls, st) => idls.head?.map fun i => sendcloseLine i st
  | .list (.atom "session" :: _) => (parseSession c).map fun (idls, steps) => sessionLine idls steps
  | .list [.atom "helper-batch"] => some (tagged "helper-batch" [.atom "ok"])
  | .list [.atom "tosource2", _, _, s1, s2] =>
    -- two helper calls in one process: the first failure ends the process
    (match parseSrc s1, parseSrc s2 with
     | some p1, some p2 =>
       let good (p : Option IDL × String) : Bool := match p.1 with
         | some i => verdict i != .panic
         | none => false
       let st (p : Option IDL × String) : String := if p.1.isSome then "panic" else "err"
       if !(good p1) then some (tagged "tosource2" [.atom (st p1), .atom "f", .atom "f"])
       else if !(good p2) then some (tagged "tosource2" [.atom (st p2), .atom "t", .atom "f"])
       else some (tagged "tosource2" [.atom "ok", .atom "t", .atom "t"])
     | _, _ => none)
  | .list [.atom "regen", .atom which, _, src2] =>
    -- generating again replaces the earlier output: only the second text counts
    (parseSrc src2).map fun p => match frontLine (if which == "tosource" || which == "tosource-older" then "tosource" else "build") p with
      | .list (.atom _ :: rest) => tagged "regen" rest
      | x => x
  | .list [.atom "desc", src] =>
    -- `get_description()` of the generated proxy is the definition text, verbatim
    (parseSrc src).bind fun p => match p with
      | (some i, _) => some (tagged "desc" [.atom (if verdict i == .ok then "t" else "nobuild")])
      | (none, _) => some (tagged "desc" [.atom "nobuild"])
  | .list [.atom "frontpath", .atom which, _, src] =>
    -- the path of the input only decides WHERE the output goes (checked by the harness against the documented place)
    (parseSrc src).map fun p => match frontLine (if which == "tosource" then "tosource" else "build") p with
      | .list (.atom _ :: rest) => tagged "frontpath" rest
      | x => x
  | .list [.atom "options", src, _, _] =>
    -- a preamble of fresh items and the tosource header change nothing about the verdict
    (parseSrc src).map fun p => match p with
      | (none, k) => tagged "options" [tagged "rej" [.atom k]]
      | (some i, _) => match verdict i with
        | .panic => tagged "options" [.atom "panic"]
        | .rustcFail c => tagged "options" [.atom "ok", tagged "rustc" [tagged "fail" [.atom c]]]
        | .ok => tagged "options" [.atom "ok", tagged "rustc" [.atom "ok"]]
  | .list (.atom "frontmany" :: srcs) => (srcs.mapM parseSrc).map frontManyLine
  | .list [.atom "compile", src] => (parseSrc src).map compileLine
  | .list [.atom "front", .atom which, src] => (parseSrc src).map (frontLine which)
  | .list [.atom "probe", src, root, .list (.atom "path" :: path), j] => do
    let (i?, _) ← parseSrc src
    let i ← i?
    let path ← path.mapM Sx.asStr
    let j ← Sx.toJson j
    if verdict i != .ok then pure (tagged "probe" [.atom "nobuild"]) else
    match probeType i root path with
    | none => pure (tagged "probe" [.atom "no-such-type"])
    | some (t, top) =>
      match probeModel i t top j with
      | some j' => pure (tagged "probe" [tagged "ok" [jx j']])
      | none => pure (tagged "probe" [.atom "err"])
  | .list [.atom "call", src, m, mode, args, .list (.atom "script" :: script)] => do
    let (i?, _) ← parseSrc src
    let i ← i?
    let mn ← Sx.asStr m
    let mode ← parseMode mode
    let args ← parseVal args
    let script ← script.mapM parseAction
    if verdict i != .ok then pure (tagged "call" [.atom "nobuild"]) else
    let m ← i.methods.find? (·.name == mn)
    pure (callObsSx (predictCall i m mode args script))
  | .list [.atom "raw", src, req] => do
    let (i?, _) ← parseSrc src
    let i ← i?
    let req ← Sx.toJson req
    if verdict i != .ok then pure (tagged "raw" [.atom "nobuild"]) else
    pure (rawObsSx (rawModel i req))
  | _ => none

/-! parsing implementation observations for the predicates -/

def parseClientObs : Sx → Option ClientObs
  | .list [.atom "ok", eq, j] => (Sx.toJson j).map fun j => .ok (eq matches .atom "t") j
  | .list [.atom "err", e, eq] => (Sx.asStr e).map fun e => .err e (eq matches .atom "t")
  | .list [.atom "verr", .atom k] => some (.verr k)
  | .atom "ok-oneway" => some .okOneway
  | _ => none

def parseCallObs : Sx → Option CallObs
  | .list [.atom "call", .list (.atom "req" :: req), .list (.atom "seen" :: seen), .list (.atom "wire" :: wire),
           .list (.atom "client" :: client), .list [.atom "srv", .atom srv]] => do
    let req ← req.mapM Sx.toJson
    let wire ← wire.mapM Sx.toJson
    let client ← client.mapM parseClientObs
    pure { req, seen := seen.map (· matches .atom "t"), wire, client, srvOk := srv == "ok" }
  | _ => none

def parseRawObs : Sx → Option RawObs
  | .list [.atom "raw", .list (.atom "seen" :: seen), .list (.atom "wire" :: wire), .list [.atom "srv", .atom srv]] => do
    let seen ← seen.mapM fun s => match s with
      | .list [m, j] => do
        let m ← Sx.asStr m
        let j ← Sx.toJson j
        pure (m, j)
      | _ => none
    let wire ← wire.mapM Sx.toJson
    pure { seen, wire, srvOk := srv == "ok" }
  | _ => none

def verdictOf : Option String → String
  | none => "ok"
  | some r => "fail " ++ r

def predC08 (c o : Sx) : String :=
  match c with
  | .list [.atom "probe", src, root, .list (.atom "path" :: path), j] =>
    match parseSrc src, path.mapM Sx.asStr, Sx.toJson j with
    | some (some i, _), some path, some j =>
      (match probeType i root path, o with
       | some (t, _), .list [.atom "probe", .list [.atom "ok", j']] =>
         (match Sx.toJson j' with
          | some j' => verdictOf (P_C08_probe i.env t j (some j'))
          | none => "fail unparsable-observation")
       | some (t, _), .list [.atom "probe", .atom "err"] => verdictOf (P_C08_probe i.env t j none)
       | _, .list [.atom "probe", .atom "nobuild"] => "ok"
       | _, _ => "fail unexpected-probe-observation")
    | _, _, _ => "fail unparsable-case"
  | .list [.atom "call", src, m, mode, args, .list (.atom "script" :: script)] =>
    match parseSrc src, Sx.asStr m, parseMode mode, parseVal args, script.mapM parseAction with
    | some (some i, _), some mn, some mode, some args, some script =>
      (match o with
       | .list [.atom "call", .atom "nobuild"] => "ok"
       | .list (.atom "call" :: .list (.atom "req" :: .atom "unterminated" :: _) :: _) =>
         "fail request-on-the-wire-not-terminated-by-NUL"
       | .list (.atom "call" :: .list (.atom "req" :: .atom "bad-json" :: _) :: _) =>
         "fail request-on-the-wire-is-not-json"
       | _ =>
         match i.methods.find? (·.name == mn), parseCallObs o with
         | some m, some obs => verdictOf (P_C08_call i m mode args script obs)
         | _, _ => "fail unexpected-call-observation")
    | _, _, _, _, _ => "fail unparsable-case"
  | .list [.atom "raw", src, req] =>
    match parseSrc src, Sx.toJson req with
    | some (some i, _), some req =>
      (match o with
       | .list [.atom "raw", .atom "nobuild"] => "ok"
       | .list [.atom "panic", _] => "fail server-panicked-on-request"
       | _ =>
         match parseRawObs o with
         | some obs => verdictOf (P_C08_raw i req obs)
         | none => "fail unexpected-raw-observation")
    | _, _ => "fail unparsable-case"
  | .list [.atom "sendclose", ifaces, steps] =>
    (match parseSession (.list [.atom "session", ifaces, steps]), o with
     | some _, .list [.atom "sendclose", .atom "nobuild"] => "ok"
     | some ([idl], [.gen _ _ _ _ _, .gen _ m2 _ a2 s2]), .list [.atom "sendclose", _, _, .list (.atom "second" :: outs), .list (.atom "seen" :: seen), _, _] =>
       (match idl.methods.find? (·.name == m2), outs.mapM (fun x => match parseSObs (.list [.atom "g", x]) with
                                                               | some (.g [c]) => some c
                                                               | _ => none) with
        | some me2, some couts =>
          if !(wellTyped idl.env (.struct me2.input) a2 && s2.all (actionWellTyped idl me2)) then "ok"
          else (match checkClient s2 couts with
            | some r => "fail second-connection-after-a-client-that-left: " ++ r
            | none => if seen.any (· matches .atom "f") then "fail second-connection-after-a-client-that-left: server-saw-different-arguments" else "ok")
        | _, _ => "fail unexpected-sendclose-observation")
     | _, _ => "fail unexpected-sendclose-observation")
  | .list (.atom "session" :: _) =>
    (match parseSession c, o with
     | some _, .list [.atom "session", .atom "nobuild"] => "ok"
     | some (idls, steps), .list [.atom "session", .list [.atom "call", _, .list (.atom "seen" :: seen), _,
                                  .list (.atom "client" :: client), _]] =>
       (match client.mapM parseSObs with
        | some obs =>
          let flags := seen.filterMap fun x => match x with
            | .atom "t" => some true
            | .atom "f" => some false
            | _ => none
          verdictOf (P_C08_session idls steps obs flags)
        | none => "fail unexpected-session-observation")
     | _, _ => "fail unexpected-session-observation")
  | .list (.atom "compile" :: _) => "ok"
  | .list (.atom "front" :: _) => "ok"
  | .list (.atom "frontmany" :: _) => "ok"
  | .list [.atom "helper-batch"] => "ok"
  | .list (.atom "frontpath" :: _) => "ok"
  | .list (.atom "options" :: _) => "ok"
  | .list [.atom "regen", .atom which, _, src2] =>
    -- bindings that were not regenerated do not belong to the definition any more
    (match parseSrc src2, o with
     | some (some i, _), .list [.atom "regen", _, .atom status, .atom emitted, .atom same] =>
       if wellFormedB i && safeRawIdent i && status == "ok" && emitted == "t" && same == "f"
       then "fail bindings-do-not-belong-to-the-current-definition entry=" ++ which
       else "ok"
     | _, _ => "ok")
  | .list (.atom "tosource2" :: _) => "ok"
  | .list (.atom "desc" :: _) => "ok"
  | _ => "fail unparsable-case"

def predC09 (c o : Sx) : String :=
  match c with
  | .list [.atom "compile", src] =>
    match parseSrc src with
    | some (none, k) =>
      -- the generator is total: a text the parser does not accept yields a diagnostic, never a panic
      if k == "panic" then "fail generator-panicked-on-rejected-input"
      else (match o with
       | .list [.atom "compile", .list [.atom "rej", _]] => "ok"
       | .list [.atom "compile", .atom "panic"] => "fail generator-panicked-on-rejected-input"
       | _ => "fail rejected-text-but-generator-did-not-fail")
    | some (some i, _) =>
      (match o with
       | .list [.atom "compile", .atom "panic"] => verdictOf (P_C09_compile i false true none)
       | .list [.atom "compile", .list [.atom "rej", _]] => verdictOf (P_C09_compile i false false none)
       | .list (.atom "compile" :: .atom "ok" :: .list [.atom "rustc", r] :: _) =>
         (match r with
          | .atom "ok" => verdictOf (P_C09_compile i true false none)
          | .list [.atom "fail", .atom cat] => verdictOf (P_C09_compile i true false (some cat))
          | .atom other => "fail " ++ other
          | _ => "fail unexpected-rustc-observation")
       | _ => "fail unexpected-compile-observation")
    | none => "fail unparsable-case"
  | .list [.atom "front", .atom which, src] =>
    match parseSrc src, o with
    | some (i?, _), .list [.atom "front", _, .atom status, .atom emitted, .atom same] =>
      (match P_C09_front i? status (emitted == "t") (if same == "-" then none else some (same == "t")) with
       | none => "ok"
       | some r => if r.endsWith "class=none" then "fail " ++ r ++ " front=" ++ which else "fail " ++ r)
    | _, _ => "fail unexpected-front-observation"
  | .list (.atom "frontmany" :: srcs) =>
    (match srcs.mapM parseSrc, o with
     | some ps, .list (.atom "frontmany" :: .atom status :: outs) =>
       verdictOf (P_C09_frontmany (ps.map (·.1)) status
         (outs.map fun x => match x with
           | .list [.atom e, .atom s] => (e == "t", if s == "-" then none else some (s == "t"))
           | _ => (false, none)))
     | _, _ => "fail unexpected-frontmany-observation")
  | .list [.atom "tosource2", r1, r2, s1, s2] =>
    (match parseSrc s1, parseSrc s2, o with
     | some (some i1, _), some (some i2, _), .list [.atom "tosource2", .atom status, .atom e1, .atom e2] =>
       if !(wellFormedB i1 && wellFormedB i2 && safeRawIdent i1 && safeRawIdent i2) then "ok"
       else if status != "ok" || e1 != "t" || e2 != "t" then
         "fail front-end-tosource-helper-failed-on-second-call-in-one-process status=" ++ status ++ " emitted=" ++ e1 ++ e2 ++
           " paths=" ++ ((Sx.asStr r1).getD "?") ++ "," ++ ((Sx.asStr r2).getD "?")
       else "ok"
     | some _, some _, .list (.atom "tosource2" :: _) => "ok"
     | _, _, _ => "fail unexpected-tosource2-observation")
  | .list [.atom "regen", .atom which, _, src2] =>
    (match parseSrc src2, o with
     | some (i?, _), .list [.atom "regen", _, .atom status, .atom emitted, .atom same] =>
       (match P_C09_front i? status (emitted == "t") (if same == "-" then none else some (same == "t")) with
        | none => "ok"
        | some r => if r.endsWith "class=none" || !((r.splitOn " class=").length == 2)
                    then "fail " ++ r ++ " after-regenerating-into-the-same-place entry=" ++ which
                    else "fail " ++ r)
     | _, _ => "fail unexpected-regen-observation")
  | .list [.atom "desc", _] =>
    (match o with
     | .list [.atom "desc", .atom "t"] => "ok"
     | .list [.atom "desc", .atom "nobuild"] => "ok"
     | .list [.atom "desc", .atom "f"] => "fail emitted-description-differs-from-definition-text"
     | _ => "fail unexpected-desc-observation")
  | .list [.atom "frontpath", .atom which, rel, src] =>
    (match parseSrc src, o with
     | some (i?, _), .list [.atom "frontpath", _, .atom status, .atom emitted, .atom same] =>
       (match P_C09_front i? status (emitted == "t") (if same == "-" then none else some (same == "t")) with
        | none => "ok"
        | some r => if r.endsWith "class=none" || !((r.splitOn " class=").length == 2)
                    then "fail " ++ r ++ " entry=" ++ which ++ " path=" ++ ((Sx.asStr rel).getD "?")
                    else "fail " ++ r)
     | _, _ => "fail unexpected-frontpath-observation")
  | .list [.atom "options", src, .atom ts, .atom pre] =>
    (match parseSrc src with
     | some (none, k) =>
       if k == "panic" then "fail generator-panicked-on-rejected-input"
       else (match o with
         | .list [.atom "options", .list [.atom "rej", _]] => "ok"
         | .list [.atom "options", .atom "panic"] => "fail generator-panicked-on-rejected-input"
         | _ => "fail rejected-text-but-generator-did-not-fail")
     | some (some i, _) =>
       let r := match o with
         | .list [.atom "options", .atom "panic"] => P_C09_compile i false true none
         | .list [.atom "options", .list [.atom "rej", _]] => P_C09_compile i false false none
         | .list [.atom "options", .atom "ok", .list [.atom "rustc", .atom "ok"]] => P_C09_compile i true false none
         | .list [.atom "options", .atom "ok", .list [.atom "rustc", .list [.atom "fail", .atom cat]]] => P_C09_compile i true false (some cat)
         | .list [.atom "options", .atom "ok", .list [.atom "rustc", .atom other]] => some other
         | _ => some "unexpected-options-observation"
       (match r with
        | none => "ok"
        -- a failure of a recorded class keeps the recorded reason; anything else names the cell of the matrix
        | some r => if r.endsWith "class=none" || !((r.splitOn " class=").length == 2)
                    then "fail options-" ++ r ++ " tosource=" ++ ts ++ " preamble=" ++ pre
                    else "fail " ++ r)
     | none => "fail unparsable-case")
  | .list [.atom "helper-batch"] =>
    -- the batch is not a replayable input: a failure here shows as a disagreement with the model; the
    -- `frontmany` cases carry the concrete file lists
    "ok"
  | .list (.atom "probe" :: _) => "ok"
  | .list (.atom "call" :: _) => "ok"
  | .list (.atom "raw" :: _) => "ok"
  | .list (.atom "session" :: _) => "ok"
  | .list (.atom "sendclose" :: _) => "ok"
  | _ => "fail unparsable-case"

end GenDrv

def genLine (line : String) : String :=
  match Sx.parse line with
  | none => "(unparsable)"
  | some c =>
    match GenDrv.modelLine c with
    | some s => Sx.render s
    | none => "(bad-case)"

def genPred (prop caseLine obsLine : String) : String :=
  match Sx.parse caseLine, Sx.parse obsLine with
  | some c, some o =>
    if prop == "C08" then GenDrv.predC08 c o
    else if prop == "C09" then GenDrv.predC09 c o
    else "fail unknown-property"
  | _, _ => "fail unparsable"

end VV
