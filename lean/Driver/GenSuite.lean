/-
Driver.GenSuite — suite `gen` (stub: replaced by the owner of the suite).
Must define `genLine : String → String` (case line ↦ model observation line) and
`genPred : String → String → String → String` (property id, case line, implementation
observation line ↦ "ok" | "fail <reason>").
-/
import Driver.Sx

namespace VV

def genLine (_line : String) : String := "(stub)"

def genPred (_prop _caseLine _obsLine : String) : String := "fail stub-suite"

end VV
