/-
Driver.SerdeSuite — suite `serde` (stub: replaced by the owner of the suite).
Must define `serdeLine : String → String` (case line ↦ model observation line) and
`serdePred : String → String → String → String` (property id, case line, implementation
observation line ↦ "ok" | "fail <reason>").
-/
import Driver.Sx

namespace VV

def serdeLine (_line : String) : String := "(stub)"

def serdePred (_prop _caseLine _obsLine : String) : String := "fail stub-suite"

end VV
