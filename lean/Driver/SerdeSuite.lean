/-
Driver.SerdeSuite — suite `serde` (C17): parse a case, run Model.Serde, print the
observation in the same canonical form as harness/src/suites/serde.rs; evaluate
`P_C17` on the implementation's observation.
-/
import Driver.SerdeInst
import VarlinkVerif.Pred.Serde

namespace VV
open Sx

def resEnc (orig : TVal) : Option TVal → Sx
  | none => .atom "err"
  | some v => .list [.atom "ok", sxOfTVal v, ofBool (v == orig)]

def resDec (t : Ty) : Option TVal → Sx
  | none => .atom "err"
  | some v => .list [.atom "ok", sxOfTVal v, ofJson (toValue t v)]

def parseTbl : Sx → Option (List (Nat × Nat))
  | .list (.atom "fl" :: es) => es.mapM fun e => match e with
    | Sx.list [a, b] => do
      let a ← asNat a
      let b ← asNat b
      pure (a, b)
    | _ => none
  | _ => none

/-- model observation of `(enc ty v fl)`.  The text layer is `tblLayer fl` (a
    parameter of the model, measured by the harness); `to_string` and `to_vec`
    write the same tree, `to_value` its normal form. -/
def runEnc (t : Ty) (v : TVal) (tbl : List (Nat × Nat)) : Sx :=
  let L := tblLayer tbl
  let e := encode t v
  let ev := toValue t v
  let back (j : Json) : Sx := match L.parse (L.print j) with
    | some j' => ofJson j'.norm
    | none => .atom "err"
  let encs : Sx := .list [.atom "encs", back e, back e, ofJson ev]
  -- per encoding: the text, and the `Value` handed to from_value
  let texts : List (Json × Option Json) :=
    [(L.print e, (L.parse (L.print e)).map Json.norm), (L.print e, (L.parse (L.print e)).map Json.norm),
     (L.print ev, some ev)]
  let rt := texts.flatMap fun (txt, val) =>
    [resEnc v (fromText cvtF64 L t txt), resEnc v (fromText cvtF64 L t txt),
     resEnc v (val.bind (fromValue cvtF64 t))]
  let rtSx : Sx := match rt with
    | r0 :: rest => if rest.all (fun r => render r == render r0) then .list [.atom "rt9", r0] else .list (.atom "rt" :: rt)
    | [] => .list [.atom "rt"]
  .list [.atom "obs", encs, .atom "t", rtSx]

def runDec (t : Ty) (raw : Json) (tbl : List (Nat × Nat)) : Sx :=
  let L := tblLayer tbl
  let a := resDec t (fromText cvtF64 L t (L.print raw))
  let c := resDec t (fromTextViaValue cvtF64 L t (L.print raw))
  .list [.atom "obs", a, a, c]

def serdeLine (line : String) : String :=
  match parse line with
  | some (.list [.atom "enc", .atom ty, v, fl]) =>
    match serdeTy ty, tvalOfSx v, parseTbl fl with
    | some t, some v, some tbl => render (runEnc t v tbl)
    | _, _, _ => "(model-case-error)"
  | some (.list [.atom "dec", .atom ty, raw, fl]) =>
    match serdeTy ty, toJson raw, parseTbl fl with
    | some t, some raw, some tbl => render (runDec t raw tbl)
    | _, _, _ => "(model-case-error)"
  | _ => "(model-parse-error)"

/-! ### predicate glue -/

def parseResEnc : Sx → Option (Option (TVal × Bool))
  | .atom "err" => some none
  | .list [.atom "ok", v, .atom "t"] => (tvalOfSx v).map fun v => some (v, true)
  | .list [.atom "ok", v, .atom "f"] => (tvalOfSx v).map fun v => some (v, false)
  | _ => none

def parseResDec : Sx → Option (Option (TVal × Json))
  | .atom "err" => some none
  | .atom "text-err" => some none
  | .list [.atom "ok", v, j] => do
    let v ← tvalOfSx v
    let j ← toJson j
    pure (some (v, j))
  | _ => none

def parseJsonOrErr : Sx → Option Json
  | .atom "err" => none
  | x => toJson x

def serdePred (prop : String) (caseLine obsLine : String) : String :=
  if prop != "C17" then "fail unknown-property" else
  match parse caseLine, parse obsLine with
  | some (.list [.atom "enc", .atom ty, v, fl]), some obs =>
    match serdeTy ty, tvalOfSx v, parseTbl fl, obs with
    | some t, some v, some tbl, .list [.atom "obs", .list [.atom "encs", a, b, c], same, rtSx] =>
      let rtl : Option (List Sx) := match rtSx with
        | .list [.atom "rt9", r] => some (List.replicate 9 r)
        | .list (.atom "rt" :: rt) => some rt
        | _ => none
      match rtl.bind (·.mapM parseResEnc) with
      | some rt =>
        let o : EncObs := { encs := [parseJsonOrErr a, parseJsonOrErr b, parseJsonOrErr c],
                            sameBytes := same matches .atom "t", rt := rt }
        match P_C17_enc t v tbl o with
        | none => "ok"
        | some r => "fail " ++ r
      | none => "fail unparsable-observation"
    | some _, some _, some _, .list (.atom "panic" :: _) => "fail panic"
    | _, _, _, _ => "fail unparsable-case-or-observation"
  | some (.list [.atom "dec", .atom ty, raw, fl]), some obs =>
    match serdeTy ty, toJson raw, parseTbl fl, obs with
    | some t, some raw, some tbl, .list [.atom "obs", a, b, c] =>
      match parseResDec a, parseResDec b, parseResDec c with
      | some a, some b, some c =>
        match P_C17_dec t (optionalMembers t) (knownMembers t) (raw.mapFlt (tblFn tbl))
            { str := a, slice := b, value := c } with
        | none => "ok"
        | some r => "fail " ++ r
      | _, _, _ => "fail unparsable-observation"
    | some _, some _, some _, .list (.atom "panic" :: _) => "fail panic"
    | _, _, _, _ => "fail unparsable-case-or-observation"
  | _, _ => "fail unparsable-line"

end VV
