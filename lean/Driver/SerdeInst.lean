/-
Driver.SerdeInst — driver glue shared by the suites `serde` and `cert`: the
line-protocol form of typed values, the table of concrete Rust types the harness
instantiates, and the `i64/u64 as f64` conversion the models take as a parameter.
-/
import VarlinkVerif.Model.Serde
import Driver.Sx

namespace VV
open Sx

/-- `i as f64` (round to nearest even), by Lean's `Float` -/
def cvtF64 (i : Int) : Nat := (Float.ofInt i).toBits.toNat

partial def tvalOfSx : Sx → Option TVal
  | .atom "t" => some (.bool true)
  | .atom "f" => some (.bool false)
  | .atom "-" => some .none
  | .list [.atom "i", v] => (asInt v).map .int
  | .list [.atom "d", v] => (asNat v).map .float
  | .list [.atom "j", v] => (toJson v).map .value
  | .list [.atom "some", v] => (tvalOfSx v).map .some
  | .list [.atom "e", v] => (asStr v).map .enum
  | .list (.atom "l" :: vs) => (vs.mapM tvalOfSx).map .vec
  | .list (.atom "r" :: vs) => (vs.mapM tvalOfSx).map .struct
  | .list (.atom "S" :: vs) => (vs.mapM asStr).map .set
  | .list (.atom "m" :: kvs) =>
    (kvs.mapM fun (kv : Sx) => match kv with
      | Sx.list [k, v] => do
        let k ← asStr k
        let v ← tvalOfSx v
        pure (k, v)
      | _ => none).map TVal.map
  | x => (asStr x).map .str

partial def sxOfTVal : TVal → Sx
  | .bool b => ofBool b
  | .int i => .list [.atom "i", .atom (toString i)]
  | .float b => .list [.atom "d", .atom (toString b)]
  | .str s => strAtom s
  | .value j => .list [.atom "j", ofJson j]
  | .none => .atom "-"
  | .some v => .list [.atom "some", sxOfTVal v]
  | .vec l => .list (.atom "l" :: l.map sxOfTVal)
  | .map l => .list (.atom "m" :: l.map fun (k, v) => .list [strAtom k, sxOfTVal v])
  | .set l => .list (.atom "S" :: l.map strAtom)
  | .enum n => .list [.atom "e", strAtom n]
  | .struct l => .list (.atom "r" :: l.map sxOfTVal)

def serdeTy : String → Option Ty
  | "req" => some tyRequest
  | "reply" => some tyReply
  | "info" => some tyServiceInfo
  | "desc" => some tyDescReply
  | "descargs" => some tyDescArgs
  | "set" => some .set
  | "mapstr" => some (.map .str)
  | "mapint" => some (.map .int)
  | "mapoptstr" => some (.map (.opt .str))
  | "mapval" => some (.map .value)
  | "mapmapstr" => some (.map (.map .str))
  | "mapset" => some (.map .set)
  | _ => none

/-- members that are `Option` with `skip_serializing_if` (the "optional members" of C17) -/
def optionalMembers : Ty → List String
  | .struct fs => (fs.filter fun f => f.2.2.isOpt).map (·.1)
  | _ => []

def knownMembers : Ty → List String
  | .struct fs => fs.map (·.1)
  | _ => []

end VV
