/-
Driver.Sx — the line protocol between the Rust harness and the Lean models.

One case per line.  A line is an S-expression over atoms that contain no
spaces or parentheses.  Conventions for atoms:
  x<hex>   UTF-8 string, hex encoded          b<hex>   raw bytes, hex encoded
  -        absent (Option::None)              t / f    booleans
  decimal integers as is
JSON values:  n | t | f | (i <int>) | (d <f64 bits, decimal>) | (s x<hex>) |
              (a v*) | (o (x<hexkey> v)*)        keys sorted
This file is driver glue (not part of any model): `partial` is fine here.
-/
import VarlinkVerif.Model.Json

namespace VV

inductive Sx where
  | atom (s : String)
  | list (l : List Sx)
deriving Inhabited, Repr

namespace Sx

def tokenize (s : String) : List String := Id.run do
  let mut toks : Array String := #[]
  let mut cur : String := ""
  for c in s.toList do
    if c = '(' || c = ')' then
      if cur ≠ "" then toks := toks.push cur; cur := ""
      toks := toks.push (String.singleton c)
    else if c = ' ' || c = '\n' || c = '\r' || c = '\t' then
      if cur ≠ "" then toks := toks.push cur; cur := ""
    else cur := cur.push c
  if cur ≠ "" then toks := toks.push cur
  return toks.toList

mutual
  partial def parseOne : List String → Option (Sx × List String)
    | [] => none
    | "(" :: rest => parseMany rest []
    | ")" :: _ => none
    | a :: rest => some (.atom a, rest)
  partial def parseMany : List String → List Sx → Option (Sx × List String)
    | [], _ => none
    | ")" :: rest, acc => some (.list acc.reverse, rest)
    | toks, acc =>
      match parseOne toks with
      | some (x, rest) => parseMany rest (x :: acc)
      | none => none
end

def parse (line : String) : Option Sx :=
  match parseOne (tokenize line) with
  | some (x, []) => some x
  | _ => none

partial def render : Sx → String
  | .atom s => s
  | .list l => "(" ++ " ".intercalate (l.map render) ++ ")"

def hexDigit (n : Nat) : Char :=
  if n < 10 then Char.ofNat (48 + n) else Char.ofNat (87 + n)

def hexOfBytes (bs : List UInt8) : String :=
  String.ofList (bs.flatMap fun b => [hexDigit (b.toNat / 16), hexDigit (b.toNat % 16)])

def hexVal (c : Char) : Option Nat :=
  if '0' ≤ c ∧ c ≤ '9' then some (c.toNat - 48)
  else if 'a' ≤ c ∧ c ≤ 'f' then some (c.toNat - 87)
  else if 'A' ≤ c ∧ c ≤ 'F' then some (c.toNat - 55)
  else none

def hexValByte (b : UInt8) : Option Nat :=
  if 48 ≤ b ∧ b ≤ 57 then some (b.toNat - 48)
  else if 97 ≤ b ∧ b ≤ 102 then some (b.toNat - 87)
  else if 65 ≤ b ∧ b ≤ 70 then some (b.toNat - 55)
  else none

/-- hex decoding as a loop (messages of several megabytes occur in the thorough tier) -/
def bytesOfHex (s : String) : Option (List UInt8) := Id.run do
  let b := s.toUTF8
  if b.size % 2 != 0 then return none
  let mut out : Array UInt8 := Array.mkEmpty (b.size / 2)
  let mut i := 0
  while i + 1 < b.size do
    match hexValByte b[i]!, hexValByte b[i+1]! with
    | some x, some y => out := out.push (UInt8.ofNat (x * 16 + y))
    | _, _ => return none
    i := i + 2
  return some out.toList

def utf8OfBytes (bs : List UInt8) : String :=
  match String.fromUTF8? (ByteArray.mk bs.toArray) with
  | some s => s
  | none => "�"

def strAtom (s : String) : Sx := .atom ("x" ++ hexOfBytes s.toUTF8.toList)
def bytesAtom (b : List UInt8) : Sx := .atom ("b" ++ hexOfBytes b)

def asStr : Sx → Option String
  | .atom a => if a.startsWith "x" then (bytesOfHex (a.drop 1).toString).map utf8OfBytes else none
  | _ => none

def asBytes : Sx → Option (List UInt8)
  | .atom a => if a.startsWith "b" then bytesOfHex (a.drop 1).toString else none
  | _ => none

def asNat : Sx → Option Nat
  | .atom a => a.toNat?
  | _ => none

def asInt : Sx → Option Int
  | .atom a => a.toInt?
  | _ => none

def asOptBool : Sx → Option (Option Bool)
  | .atom "-" => some none
  | .atom "t" => some (some true)
  | .atom "f" => some (some false)
  | _ => none

def ofOptBool : Option Bool → Sx
  | none => .atom "-"
  | some true => .atom "t"
  | some false => .atom "f"

def asBool : Sx → Option Bool
  | .atom "t" => some true
  | .atom "f" => some false
  | _ => none

def ofBool (b : Bool) : Sx := .atom (if b then "t" else "f")

def asOptStr : Sx → Option (Option String)
  | .atom "-" => some none
  | x => (asStr x).map some

def ofOptStr : Option String → Sx
  | none => .atom "-"
  | some s => strAtom s

partial def toJson : Sx → Option Json
  | .atom "n" => some .null
  | .atom "t" => some (.bool true)
  | .atom "f" => some (.bool false)
  | .list [.atom "i", v] => (asInt v).map .int
  | .list [.atom "d", v] => (asNat v).map .flt
  | .list [.atom "s", v] => (asStr v).map .str
  | .list (.atom "a" :: vs) => (vs.mapM toJson).map .arr
  | .list (.atom "o" :: kvs) =>
    (kvs.mapM fun (kv : Sx) => match kv with
      | Sx.list [k, v] => do
        let k ← asStr k
        let v ← toJson v
        pure (k, v)
      | _ => none).map Json.obj
  | _ => none

partial def ofJson : Json → Sx
  | .null => .atom "n"
  | .bool true => .atom "t"
  | .bool false => .atom "f"
  | .int i => .list [.atom "i", .atom (toString i)]
  | .flt b => .list [.atom "d", .atom (toString b)]
  | .str s => .list [.atom "s", strAtom s]
  | .arr l => .list (.atom "a" :: l.map ofJson)
  | .obj l => .list (.atom "o" :: l.map fun (k, v) => .list [strAtom k, ofJson v])

def asOptJson : Sx → Option (Option Json)
  | .atom "-" => some none
  | x => (toJson x).map some

def ofOptJson : Option Json → Sx
  | none => .atom "-"
  | some j => ofJson j

end Sx
end VV
