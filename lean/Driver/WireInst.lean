/-
Driver.WireInst — Lean mirrors of the *test fixtures* of the harness
(harness/src/suites/wire.rs): the scripted interface and the implementation of
the generated `org.example.vtest` interface, plus (de)serialisation of wire
cases.  These are instantiations of `Iface.script`; the theorems in
Props/ quantify over all scripts and do not depend on this file.
-/
import VarlinkVerif.Model.Wire
import Driver.Sx

namespace VV

def jStr? : Option Json → Option String
  | some (.str s) => some s
  | _ => none

def jBool? : Option Json → Option Bool
  | some (.bool b) => some b
  | _ => none

/-- `ScriptIface::call` action decoding -/
def parseAct (a : Json) : Option Act :=
  match (jStr? (a.get? "op")).getD "" with
  | "cont" => some (.setContinues ((jBool? (a.get? "v")).getD false))
  | "reply" => some (.reply (Reply.params (a.get? "p")))
  | "replytry" => some (.replyTry (Reply.params (a.get? "p")))
  | "err" => some (.reply (Reply.err ((jStr? (a.get? "name")).getD "") (a.get? "p")))
  | "errtry" => some (.replyTry (Reply.err ((jStr? (a.get? "name")).getD "") (a.get? "p")))
  | "upgrade" => some .toUpgraded
  | "fail" => some .fail
  | _ => none

def lastSegment (m : String) : String :=
  String.ofList ((m.toList.reverse.takeWhile (· ≠ '.')).reverse)

def scriptOf (r : Request) : List Act :=
  if (lastSegment r.method).startsWith "Nx" then [.reply (errMethodNotFound r.method)]
  else
    match r.parameters with
    | some p =>
      match p.get? "script" with
      | some (.arr l) => l.filterMap parseAct
      | _ => []
    | none => []

def scriptIface (name desc : String) : Iface := { name, desc, script := scriptOf }

/-! #### serde derive semantics for the argument structs of org.example.vtest -/

def i64? : Json → Option Int
  | .int i => if -9223372036854775808 ≤ i ∧ i ≤ 9223372036854775807 then some i else none
  | _ => none

def str? : Json → Option String
  | .str s => some s
  | _ => none

/-- struct fields from an object (unknown members ignored) or from an array of
    exactly the right length -/
def field (j : Json) (idx : Nat) (name : String) : Option (Option Json) :=
  match j with
  | .obj l => some (Json.lookup name l)
  | .arr l => some l[idx]?
  | _ => none

def arityOk (j : Json) (n : Nat) : Bool :=
  match j with
  | .obj _ => true
  | .arr l => l.length == n
  | _ => false

structure Rec where
  a : Int
  b : Option String

def decRec (j : Json) : Option Rec :=
  if !arityOk j 2 then none else
  match field j 0 "a", field j 1 "b" with
  | some (some ja), some jb =>
    match i64? ja with
    | none => none
    | some a =>
      match jb with
      | none => some { a, b := none }
      | some .null => some { a, b := none }
      | some (.str s) => some { a, b := some s }
      | _ => none
  | _, _ => none

def encRec (r : Rec) : Json :=
  .obj [("a", .int r.a), ("b", match r.b with | some s => .str s | none => .null)]

def decTokN (j : Json) : Option (String × Int) :=
  if !arityOk j 2 then none else
  match field j 0 "token", field j 1 "n" with
  | some (some jt), some (some jn) =>
    match str? jt, i64? jn with
    | some t, some n => some (t, n)
    | _, _ => none
  | _, _ => none

def decTok (j : Json) : Option String :=
  if !arityOk j 1 then none else
  match field j 0 "token" with
  | some (some jt) => str? jt
  | _ => none

def decTokOptRec (j : Json) : Option (String × Option Rec) :=
  if !arityOk j 2 then none else
  match field j 0 "token", field j 1 "r" with
  | some (some jt), some jr =>
    match str? jt with
    | none => none
    | some t =>
      match jr with
      | none => some (t, none)
      | some .null => some (t, none)
      | some r => (decRec r).map fun x => (t, some x)
  | _, _ => none

/-- generated dispatch arm for a method with a non-empty input struct -/
def genArm {α} (dec : Json → Option α) (impl : Request → α → List Act) (r : Request) : List Act :=
  match r.parameters with
  | none => [.reply (errInvalidParameter "parameters")]
  | some args =>
    match dec args with
    | none => [.replyTry (errInvalidParameter "*"), .fail]
    | some a => impl r a

def vtestName := "org.example.vtest"

def vtestMethods : List (String × (Request → List Act)) :=
  [ ("org.example.vtest.Echo", genArm decTokN fun _ (t, n) =>
      [.reply (Reply.params (some (.obj [("n", .int n), ("token", .str t)])))]),
    ("org.example.vtest.Stream", genArm decTokN fun r (t, n) =>
      if wantsMore r then
        [.setContinues true] ++
        (List.range n.toNat).map (fun (i : Nat) => Act.reply (Reply.params (some (.obj [("i", .int (Int.ofNat i)), ("token", .str t)])))) ++
        [.setContinues false, .reply (Reply.params (some (.obj [("i", .int n), ("token", .str t)])))]
      else [.reply (Reply.params (some (.obj [("i", .int n), ("token", .str t)])))]),
    ("org.example.vtest.Fail", genArm decTok fun _ t =>
      [.reply (Reply.err "org.example.vtest.Boom" (some (.obj [("token", .str t)])))]),
    ("org.example.vtest.Opt", genArm decTokOptRec fun _ (t, r) =>
      [.reply (Reply.params (some (.obj (
        (match r with | some x => [("r", encRec x)] | none => []) ++ [("token", .str t)]))))]),
    ("org.example.vtest.NoArgs", fun _ => [.reply (Reply.params none)]) ]

def vtestIface (desc : String) : Iface := genIface vtestName desc vtestMethods

def crlfName := "org.example.crlf"

def crlfIface (desc : String) : Iface :=
  genIface crlfName desc
    [("org.example.crlf.Ping", genArm decTok fun _ t =>
        [.reply (Reply.params (some (.obj [("token", .str t)])))])]

end VV
