/-
Driver.AddrSuite — suite `addr` (C16): parse a case, run Model.Addr / Model.Wire,
print the observation in the canonical form of harness/src/suites/addr.rs;
evaluate `P_C16` on the implementation's observation.
-/
import Driver.WorldInst
import VarlinkVerif.Model.Addr
import VarlinkVerif.Pred.Addr

namespace VV
open Sx
open Addr

def tgtSx : Target → Sx
  | .tcp a => .list [.atom "ok", .atom "tcp", strAtom (String.ofList a)]
  | .abstract a => .list [.atom "ok", .atom "abstract", strAtom (String.ofList a)]
  | .path a => .list [.atom "ok", .atom "path", strAtom (String.ofList a)]

def parseTargets (l : List Sx) : List Target :=
  l.filterMap fun e => match e with
    | Sx.list [Sx.atom "tcp", t] => (asStr t).map fun s => Target.tcp s.toList
    | Sx.list [Sx.atom "abstract", t] => (asStr t).map fun s => Target.abstract s.toList
    | Sx.list [Sx.atom "path", t] => (asStr t).map fun s => Target.path s.toList
    | _ => none

def nameChar (c : Char) : Bool := c.isAlphanum || c == '.' || c == '_' || c == '-'

/-- what can be bound in the environment a `parse`/`actenv` case runs in (see addr.rs) -/
def bindable (tcpOk : List Target) : Target → Bool
  | .abstract _ => true
  | .path p =>
    match Addr.stripPrefix ['%', 'D', '/'] p with
    | some name => !name.isEmpty && name.all nameChar
    | none => false
  | .tcp a => tcpOk.contains (.tcp a)

def addrParseLine (address : String) (live tcpOk : List Target) : Sx :=
  let s := address.toList
  let client : Sx := match clientParse s with
    | none => .atom "invalid"
    | some t => if live.contains t then tgtSx t else .atom "io"
  let server : Sx := match serverListen [] 0 s with
    | .invalid => .atom "invalid"
    | .bind t => if bindable tcpOk t then tgtSx t else .atom "io"
    | _ => .atom "unexpected-activation"
  .list [.atom "parse", .list [.atom "client", client], .list [.atom "server", server]]

def modelPid : Nat := 987654321

def parsePidSpec : Sx → Option AddrPred.PidSpec
  | .atom "-" => some .absent
  | .list [.atom "lit", v] => (asStr v).map .lit
  | .list [.atom "self", p, s] => do
    let p ← asStr p
    let s ← asStr s
    pure (.self p s)
  | _ => none

def envOf (fds : Option String) (pid : AddrPred.PidSpec) (names : Option String) : Env :=
  (match fds with | some v => [(kListenFds, v.toList)] | none => []) ++
  (match pid with
   | .absent => []
   | .lit v => [(kListenPid, v.toList)]
   | .self p s => [(kListenPid, p.toList ++ decimal modelPid ++ s.toList)]) ++
  (match names with | some v => [(kListenFdnames, v.toList)] | none => [])

def actenvLine (fds : Option String) (pid : AddrPred.PidSpec) (names : Option String) (passed : Nat)
    (address : String) : Sx :=
  let inheritedName (fd : Nat) : String :=
    if 3 ≤ fd ∧ fd - 3 < passed then "%D/fd" ++ toString fd ++ ".sock" else "?"
  let r : Sx := match serverListen (envOf fds pid names) modelPid address.toList with
    | .invalid => .atom "invalid"
    | .adoptUnix fd => .list [.atom "ok", .atom "unix", .atom "t", .atom (toString fd), strAtom (inheritedName fd)]
    | .adoptTcp fd => .list [.atom "ok", .atom "tcp", .atom "t", .atom (toString fd), strAtom "?"]
    | .bind t =>
      if bindable [.tcp "127.0.0.1:0".toList] t then
        match t with
        | .tcp _ => .list [.atom "ok", .atom "tcp", .atom "f", .atom "-", strAtom "*"]
        | .abstract a => .list [.atom "ok", .atom "unix", .atom "f", .atom "-", strAtom ("@" ++ String.ofList a)]
        | .path a => .list [.atom "ok", .atom "unix", .atom "f", .atom "-", strAtom (String.ofList a)]
      else .atom "io"
  .list [.atom "listener", r]

def xportLine (w : WorldSpec) (chunks : List Bytes) (dec : List (Bytes × Frame)) : Sx :=
  let total := chunks.flatten
  let reads := chunks.filter (· ≠ [])
  -- the byte-level model under this very read schedule; C16_transport_independent says the
  -- schedule does not matter
  let h := handle consts w.service (decOf dec) reads
  let out : Sx := .list (.atom "out" :: h.groups.flatten.map ofReply)
  let o := serve consts w.service ((frames total).1.map (decOf dec))
  let out' : Sx := .list (.atom "out" :: o.groups.flatten.map ofReply)
  let act : Sx := .list [.atom "act", strAtom "1", strAtom "varlink", .atom "t", .atom "t", .atom "t", .atom "t"]
  .list [.atom "xport", .list [.atom "unix", out], .list [.atom "unixmode", out'], .list [.atom "abstract", out],
         .list [.atom "tcp", out'], .list [.atom "activate", out], .list [.atom "bridge", out'],
         .list [.atom "bridgecli", out], act]

def asOptStrField : Sx → Option (Option String) := asOptStr

def addrLine (line : String) : String :=
  match parse line with
  | none => "(model-parse-error)"
  | some (.list [.atom "parse", a, .list (.atom "live" :: live), .list (.atom "bindable" :: b)]) =>
    match asStr a with
    | some a => render (addrParseLine a (parseTargets live) (parseTargets b))
    | none => "(model-case-error)"
  | some (.list [.atom "actenv", fds, pid, names, passed, a]) =>
    match asOptStr fds, parsePidSpec pid, asOptStr names, asNat passed, asStr a with
    | some fds, some pid, some names, some passed, some a => render (actenvLine fds pid names passed a)
    | _, _, _, _, _ => "(model-case-error)"
  | some (.list [.atom "actenv2", .list [f1, p1, n1, a1], .list [f2, p2, n2, a2], passed]) =>
    -- two listeners in one process: `activationListener` is a function of the environment at the
    -- moment of the call, nothing is remembered from the first one
    let one (f p n a : Sx) (passed : Nat) : Option Sx :=
      match asOptStr f, parsePidSpec p, asOptStr n, asStr a with
      | some f, some p, some n, some a =>
        (match actenvLine f p n passed a with
         | .list [_, r] => some r
         | _ => none)
      | _, _, _, _ => none
    match asNat passed with
    | some passed =>
      (match one f1 p1 n1 a1 passed, one f2 p2 n2 a2 passed with
       | some r1, some r2 => render (.list [.atom "listener2", r1, r2, .list [.atom "fds", .atom "ok"]])
       | _, _ => "(model-case-error)")
    | none => "(model-case-error)"
  | some (.list [.atom "cliact"]) =>
    -- two requests, two replies, whatever is between client and service (C16_transport_independent;
    -- the pump hands the end of the client's stream on and forwards until the service closes)
    "(cliact (activate 2) (bridge 2))"
  | some (.list [.atom "errend"]) =>
    -- `From<&io::Error> for ErrorKind`: BrokenPipe, ConnectionAborted, ConnectionReset and a plain end of
    -- stream all are `ConnectionClosed`, on every transport
    render (.list [.atom "errend", .list [.atom "unix", strAtom "ConnectionClosed"],
                   .list [.atom "abstract", strAtom "ConnectionClosed"], .list [.atom "tcp", strAtom "ConnectionClosed"]])
  | some (.list [.atom "actlisten", _, _, rounds]) =>
    -- every round: the activated service adopts the supervisor's socket (C16_spawn_recipe /
    -- activationListener: one descriptor, own pid) and answers GetInfo; the socket's path is the supervisor's
    let svc : Service := { vendor := "v0", product := "prod \"q\" ü", version := "0.1", url := "http://example.org/", ifaces := [] }
    let o := serve consts svc [.req { method := "org.varlink.service.GetInfo" }]
    let r : Sx := .list [.atom "round", .list (.atom "out" :: o.groups.flatten.map ofReply), .atom "t"]
    render (.list (.atom "actlisten" :: List.replicate ((asNat rounds).getD 1) r))
  | some (.list (.atom "act3" :: w :: rest)) =>
    match parseWorld w with
    | some w =>
      -- the caller's descriptor table: 0,1,2 unless closed, nothing from 3 up.  The listener of
      -- varlink_exec gets the lowest free descriptor; `Command::spawn` then creates its close-on-exec
      -- status channel on the next two free descriptors (the child closes the read end before
      -- `pre_exec`, the parent's `spawn` returns when every copy of the write end is closed); then the
      -- spawn recipe of Model.Addr.  The call works iff the child's descriptor 3 is the listener and
      -- no copy of the status channel's write end survives the exec.
      let closed : List Nat := match rest with
        | [c] => ((asStr c).getD "").splitOn "," |>.filterMap String.toNat?
        | _ => []
      let stdio : FdTable := ([0, 1, 2].filter fun fd => !closed.contains fd).map fun fd => (fd, ⟨100 + fd, false⟩)
      let free (t : FdTable) : Nat := ((List.range 8).find? fun fd => (fdGet fd t).isNone).getD 8
      let lfd := free stdio
      let t1 : FdTable := stdio ++ [(lfd, ⟨7, true⟩)]
      let inFd := free t1
      let t2 : FdTable := t1 ++ [(inFd, ⟨200, true⟩)]
      let outFd := free t2
      let t3 : FdTable := fdRemove inFd (t2 ++ [(outFd, ⟨201, true⟩)])
      let ok : Bool := match runRecipe (execRecipe [] [] lfd) [] t3 modelPid with
        | some c => decide (fdGet 3 c.fds = some { obj := 7, cloexec := false }) && !c.fds.any (fun e => e.2.obj == 201)
        | none => false
      -- where the service's stdout points: the caller's stderr (object 102), its stdout (101), or nowhere
      let banner : String := match runRecipe (execRecipe [] [] lfd) [] t3 modelPid with
        | some c => match fdGet 1 c.fds with
          | some e => if e.obj == 102 then "stderr" else if e.obj == 101 then "stdout" else "none"
          | none => "none"
        | none => "none"
      if ok then
        render (.list [.atom "act3", .list [.atom "reply", strAtom w.svc.vendor],
          .list [.atom "act", strAtom "1", strAtom "varlink", .atom "t", .atom "t", .atom "t", .atom "t"],
          .list [.atom "banner", .atom banner]])
      else
        -- the service never gets the socket (or `spawn` only returns when the service has given up):
        -- the connect that follows is refused
        render (.list [.atom "act3", .list [.atom "fail", strAtom "Io(ConnectionRefused)"], .list [.atom "noact"],
          .list [.atom "banner", .atom banner]])
    | none => "(model-case-error)"
  | some (.list [.atom "xport", w, .list (.atom "reads" :: cs), dec]) =>
    match parseWorld w, cs.mapM asBytes, parseDec dec with
    | some w, some cs, some dec => render (xportLine w cs dec)
    | _, _, _ => "(model-case-error)"
  | some _ => "(model-case-error)"

/-! ### predicate -/

def parseRes : Sx → AddrPred.Res
  | .atom "invalid" => .invalid
  | .atom "io" => .io
  | .list [.atom "ok", .atom sch, t] =>
    match asStr t with
    | some t => .ok sch t
    | none => .other "garbled"
  | .atom a => .other a
  | _ => .other "garbled"

def parseLRes : Sx → AddrPred.LRes
  | .atom "invalid" => .invalid
  | .atom "io" => .io
  | .list [.atom "ok", .atom kind, act, fd, name] =>
    match asOptBool act, asStr name with
    | some (some a), some n => .ok kind a (asNat fd) n
    | _, _ => .other "garbled"
  | .atom a => .other a
  | _ => .other "garbled"

def parseXRes : Sx → AddrPred.XRes
  | .list (.atom "out" :: rs) => .out (rs.map render)
  | .list (.atom tag :: _) => .bad tag
  | _ => .bad "garbled"

def parseActFacts : Sx → Option AddrPred.ActFacts
  | .list [.atom "act", f, n, p, a, l, c] => do
    let f ← asStr f
    let n ← asStr n
    let p ← asOptBool p
    let a ← asOptBool a
    let l ← asOptBool l
    let c ← asOptBool c
    pure { listenFds := f, fdnames := n, pidOk := p == some true, addressIsFd3 := a == some true,
           fd3Listening := l == some true, connAddress := c == some true }
  | _ => none

def verdictStr : Option String → String
  | none => "ok"
  | some r => "fail " ++ r

def addrPred (prop caseLine obsLine : String) : String :=
  if prop != "C16" then "fail unknown-property" else
  match parse caseLine, parse obsLine with
  | some cs, some os =>
    match cs, os with
    | .list (.atom "parse" :: a :: _), .list [.atom "parse", .list [.atom "client", c], .list [.atom "server", s]] =>
      match asStr a with
      | some a => verdictStr (AddrPred.P_parse a (parseRes c) (parseRes s))
      | none => "fail unparsable-case"
    | .list [.atom "actenv", fds, pid, names, _, a], .list [.atom "listener", r] =>
      match asOptStr fds, parsePidSpec pid, asOptStr names, asStr a with
      | some fds, some pid, some names, some a => verdictStr (AddrPred.P_actenv fds pid names a (parseLRes r))
      | _, _, _, _ => "fail unparsable-case"
    | .list [.atom "actenv2", .list [f1, p1, n1, a1], .list [f2, p2, n2, a2], _],
      .list [.atom "listener2", r1, r2, .list [.atom "fds", .atom fds]] =>
      let one (f p n a r : Sx) : Option (Option String) :=
        match asOptStr f, parsePidSpec p, asOptStr n, asStr a with
        | some f, some p, some n, some a => some (AddrPred.P_actenv f p n a (parseLRes r))
        | _, _, _, _ => none
      match one f1 p1 n1 a1 r1, one f2 p2 n2 a2 r2 with
      | some (some r), _ => "fail " ++ r
      | some none, some (some r) => "fail second-listener-" ++ r
      | some none, some none =>
        -- adopting one descriptor leaves the others alone (they may be somebody else's by the second call)
        if fds == "ok" then "ok" else "fail listener-creation-touches-foreign-descriptors-" ++ fds
      | _, _ => "fail unparsable-case"
    | .list [.atom "cliact"], .list [.atom "cliact", .list [_, a], .list [_, b]] =>
      if render a != "2" then "fail replies-lost-behind-cli-activate-on-input-end"
      else if render b != "2" then "fail replies-lost-behind-cli-bridge-command-on-input-end"
      else "ok"
    | .list [.atom "errend"], .list [.atom "errend", .list [_, u], .list [_, a], .list [_, t]] =>
      match asStr u, asStr a, asStr t with
      | some u, some a, some t =>
        if u != t || a != t then "fail transports-disagree-on-how-the-connection-ended"
        else if t != "ConnectionClosed" then "fail connection-end-not-reported-as-closed"
        else "ok"
      | _, _, _ => "fail unparsable-case-or-observation"
    | .list [.atom "actlisten", nb, idle, _], .list (.atom "actlisten" :: rs) =>
      let suffix := "-nonblock-" ++ render nb ++ "-idle-" ++ render idle
      let bad := rs.findSome? fun r => match r with
        | Sx.list [Sx.atom "round", Sx.list (Sx.atom "out" :: reps), Sx.atom ex] =>
          if reps.isEmpty then some ("activated-service-does-not-answer" ++ suffix)
          else if ex != "t" then some ("activated-service-removes-the-supervisors-socket" ++ suffix)
          else none
        | _ => some ("activated-service-does-not-answer" ++ suffix)
      (match bad with | some r => "fail " ++ r | none => "ok")
    | .list (.atom "act3" :: _ :: rest), .list [.atom "act3", .list (.atom "reply" :: _), act, .list [.atom "banner", .atom banner]] =>
      -- six identical runs stand for "the call was answered"; the activation facts are the point
      let runs := ["a", "b", "c", "d", "e", "f", "g"].map fun n => (n, AddrPred.XRes.out [])
      let where_ := match rest with | [c] => (asStr c).getD "" | _ => ""
      -- the service's stdout belongs on the caller's stderr whenever the caller has one
      let stderrOpen := !(where_.splitOn ",").contains "2"
      match AddrPred.P_xport runs (parseActFacts act) with
      | none =>
        if stderrOpen && banner != "stderr" then
          "fail activated-service-stdout-not-on-caller-stderr" ++ (if where_ == "" then "" else "-with-closed-" ++ where_)
        else "ok"
      | some r => "fail " ++ r ++ (if where_ == "" then "" else "-with-closed-" ++ where_)
    | .list (.atom "act3" :: _ :: rest), .list (.atom "act3" :: _) =>
      match rest with
      | [c] => "fail with-activate-fails-with-closed-" ++ (asStr c).getD ""
      | _ => "fail activation-from-descriptor-3-failed"
    | .list (.atom "xport" :: _), .list (.atom "xport" :: rest) =>
      let runs := rest.filterMap fun e => match e with
        | Sx.list [Sx.atom n, r] => if n == "act" || n == "noact" then none else some (n, parseXRes r)
        | _ => none
      let act := rest.findSome? parseActFacts
      verdictStr (AddrPred.P_xport runs act)
    | _, .list (.atom "panic" :: _) => "fail panic"
    | _, _ => "fail unparsable-case-or-observation"
  | _, _ => "fail unparsable-line"

end VV
