/-
Driver.AddrSuite — suite `addr` (stub: replaced by the owner of the suite).
Must define `addrLine : String → String` (case line ↦ model observation line) and
`addrPred : String → String → String → String` (property id, case line, implementation
observation line ↦ "ok" | "fail <reason>").
-/
import Driver.Sx

namespace VV

def addrLine (_line : String) : String := "(stub)"

def addrPred (_prop _caseLine _obsLine : String) : String := "fail stub-suite"

end VV
