/-
Driver.JsonTextSuite — suite `jsontext` (C17, C06): run Model.JsonText (the concrete
model of serde_json's printer and parser) on a case and print the observation in the
same canonical form as harness/src/suites/jsontext.rs.

  (parse x<text> (ft (x<token> <bits>|-)*))  →  (obs <res> <req>)
        res = err | (ok <json>)                      from_str::<Value>
        req = - | err | (ok <tval of Request>)       from_slice::<varlink::Request>, reported when the
                                                     text is a JSON document whose value is an object
  (print <json> (ft (<bits> x<text>)*))      →  x<text>                to_string(&Value)

The float table is measured by the harness (Rust std's `str::parse::<f64>` for
tokens, `serde_json::to_string` for float texts); the driver does no float
arithmetic.
-/
import Driver.SerdeInst
import VarlinkVerif.Model.JsonText

namespace VV
open Sx JsonText

def jtParseTbl : Sx → Option (List (String × Option Nat))
  | .list (.atom "ft" :: es) => es.mapM fun e => match e with
    | Sx.list [a, .atom "-"] => do
      let a ← asStr a
      pure (a, none)
    | Sx.list [a, b] => do
      let a ← asStr a
      let b ← asNat b
      pure (a, some b)
    | _ => none
  | _ => none

def jtPrintTbl : Sx → Option (List (Nat × String))
  | .list (.atom "ft" :: es) => es.mapM fun e => match e with
    | Sx.list [a, b] => do
      let a ← asNat a
      let b ← asStr b
      pure (a, b)
    | _ => none
  | _ => none

def jtLayer (pt : List (String × Option Nat)) (qt : List (Nat × String)) : FloatLayer :=
  { fprint := fun b => match qt.find? (fun e => e.1 == b) with
      | some e => e.2.toList
      | none => ['?']
    fparse := fun tok => match pt.find? (fun e => e.1 == String.ofList tok) with
      | some e => e.2
      | none => none }

def reqOf (j : Json) : Sx :=
  match decodeRequest cvtF64 j with
  | some r => .list [.atom "ok", sxOfTVal r.toT]
  | none => .atom "err"

def jtRunParse (text : String) (tbl : List (String × Option Nat)) : Sx :=
  let F := jtLayer tbl []
  let s := text.toList
  let res : Sx := match JsonText.parse F s with
    | some j => .list [.atom "ok", ofJson j]
    | none => .atom "err"
  let req : Sx := match JsonText.parseRaw F s with
    | some (.obj l) => reqOf (.obj l)
    | some (.arr l) => reqOf (.arr l)
    | _ => .atom "-"
  .list [.atom "obs", res, req]

def jsontextLine (line : String) : String :=
  match Sx.parse line with
  | some (.list [.atom "parse", t, ft]) =>
    match asStr t, jtParseTbl ft with
    | some t, some tbl => render (jtRunParse t tbl)
    | _, _ => "(model-case-error)"
  | some (.list [.atom "print", j, ft]) =>
    match toJson j, jtPrintTbl ft with
    | some j, some tbl => render (strAtom (String.ofList (JsonText.print (jtLayer [] tbl) j)))
    | _, _ => "(model-case-error)"
  | _ => "(model-parse-error)"

/-- predicate on the implementation's observation, independent of the model: a
    printed document contains neither NUL (the frame delimiter) nor any other raw
    control character -/
def jsontextPred (prop : String) (caseLine obsLine : String) : String :=
  if prop != "C17" && prop != "C06" then "fail unknown-property" else
  match Sx.parse caseLine, Sx.parse obsLine with
  | some (.list (.atom "print" :: _)), some obs =>
    match obs with
    | .list (.atom "panic" :: _) => "fail panic"
    | o =>
      match asStr o with
      | some t => if t.toList.all (fun c => c.toNat ≥ 32) then "ok" else "fail control-character-in-printed-text"
      | none => "fail unparsable-observation"
  | some (.list (.atom "parse" :: _)), some obs =>
    match obs with
    | .list (.atom "panic" :: _) => "fail panic"
    | _ => "ok"
  | _, _ => "fail unparsable-line"

end VV
