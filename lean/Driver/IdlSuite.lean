/-
Driver.IdlSuite — suite `idl` (stub: replaced by the owner of the suite).
Must define `idlLine : String → String` (case line ↦ model observation line) and
`idlPred : String → String → String → String` (property id, case line, implementation
observation line ↦ "ok" | "fail <reason>").
-/
import Driver.Sx

namespace VV

def idlLine (_line : String) : String := "(stub)"

def idlPred (_prop _caseLine _obsLine : String) : String := "fail stub-suite"

end VV
