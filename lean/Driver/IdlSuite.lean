/-
Driver.IdlSuite — suite `idl`: run Model.Idl on a case and print the observation in
the canonical form of harness/src/suites/idl.rs.
-/
import Driver.Sx
import VarlinkVerif.Model.Idl
import VarlinkVerif.Pred.Idl

namespace VV
open Sx Idl

def strSx (s : Str) : Sx := strAtom (String.ofList s)

mutual
partial def tySx : Ty → Sx
  | .bool => .atom "bool"
  | .int => .atom "int"
  | .float => .atom "float"
  | .string => .atom "string"
  | .object => .atom "object"
  | .typename n => .list [.atom "n", strSx n]
  | .struct f => structSx f
  | .enum e => enumSx e
  | .array t => .list [.atom "a", tySx t]
  | .dict t => .list [.atom "d", tySx t]
  | .option t => .list [.atom "o", tySx t]
partial def structSx (f : Fields) : Sx :=
  .list (.atom "s" :: f.toList.map fun (n, t) => .list [strSx n, tySx t])
partial def enumSx (e : List Str) : Sx := .list (.atom "e" :: e.map strSx)
end

def memberSx (m : Member) : Sx :=
  match m.body with
  | .typeStruct f => .list [strSx m.name, strSx m.doc, structSx f]
  | .typeEnum e => .list [strSx m.name, strSx m.doc, enumSx e]
  | .method i o => .list [strSx m.name, strSx m.doc, structSx i, structSx o]
  | .error f => .list [strSx m.name, strSx m.doc, structSx f]

def idlSx (i : IDL) : Sx :=
  let look (keys : List Str) (m : List (Str × Member)) : List Sx :=
    keys.map fun k => match lookupMap k m with
      | some v => memberSx v
      | none => .atom "missing"
  .list [.atom "ok", strSx i.name, strSx i.doc, .atom "t",
    .list (.atom "tk" :: i.typedefKeys.map strSx),
    .list (.atom "mk" :: i.methodKeys.map strSx),
    .list (.atom "ek" :: i.errorKeys.map strSx),
    .list (.atom "t" :: look i.typedefKeys i.typedefs),
    .list (.atom "m" :: look i.methodKeys i.methods),
    .list (.atom "e" :: look i.errorKeys i.errors)]

def outcomeSx : Outcome → Sx
  | .ok i => idlSx i
  | .parseError (some line) col =>
    .list [.atom "parse-error", .atom (toString col), strSx line, strSx (displayParse line col)]
  | .parseError none _ => .list [.atom "panic", strAtom "called `Option::unwrap()` on a `None` value"]
  | .idlError msg => .list [.atom "idl-error", strSx msg, strSx (displayIdl msg)]

def idlCaseText (line : String) : Option Str :=
  match parse line with
  | some (.list [.atom "idl", t]) => (asStr t).map String.toList
  | some (.list [.atom "idl-deep", _, t]) => (asStr t).map String.toList
  | some (.list [.atom "idl-lim", t]) => (asStr t).map String.toList
  | some (.list [.atom "idl-rep", _, t]) => (asStr t).map String.toList
  | _ => none

def idlLine (line : String) : String :=
  match idlCaseText line with
  | some t => render (outcomeSx (tryFrom t))
  | none => "(model-case-error)"

def idlPred (prop caseLine obsLine : String) : String :=
  match idlCaseText caseLine, parse obsLine with
  | some t, some obs =>
    let v : Option String :=
      match prop with
      | "C11" => P_C11 t obs
      | "C12" => P_C12 t obs
      | _ => some "unknown-property"
    match v with
    | none => "ok"
    | some r => "fail " ++ r
  | _, _ => "fail unparsable-line"

end VV
