/-
Driver.CliSuite — suite `cli`: parse a case, run Model.Cli, print the
observation in the canonical form of harness/src/suites/cli.rs; evaluate `P_C20`.
-/
import Driver.Sx
import Driver.ClientSuite
import VarlinkVerif.Model.Cli
import VarlinkVerif.Pred.Cli

namespace VV
open Sx
open Client

namespace CliDrv

structure Parsed where
  form : String
  listen : String
  url : String
  args : Option (Option Json)     -- none: absent; some none: not JSON; some (some j)
  more : Bool
  frames : List Msg
  hold : Bool := false            -- the service keeps the connection open after the frames
  closeAfter : Option Nat := none -- the reader of the tool's stdout goes away after that many documents
  debug : Bool := false           -- the global --debug flag
  hosts : Bool := false           -- `multihost` resolves to both loopback addresses; the service listens on one
  color : String := "off"         -- on | off | auto | absent
  outTty : Bool := false          -- the tool's stdout is a terminal

def parseArgs : Sx → Option (Option (Option Json))
  | .atom "-" => some none
  | .list [.atom "args", _, .atom "bad"] => some (some none)
  | .list [.atom "args", _, j] => (toJson j).map fun j => some (some j)
  | _ => none

def parseCase : Sx → Option Parsed
  | .list (.atom "cli" :: .atom form :: listen :: url :: args :: .atom more :: .atom color :: .list (.atom "frames" :: fs) :: opts) => do
    let listen ← asStr listen
    let url ← asStr url
    let args ← parseArgs args
    let isHold : Sx → Bool := fun f => match f with | .atom "hold" => true | _ => false
    let hold := fs.any isHold
    let isCuts : Sx → Bool := fun f => match f with | .list (.atom "cuts" :: _) => true | _ => false
    let fs ← (fs.filter fun f => !isHold f && !isCuts f).mapM ClientDrv.parseFrame
    let outTty := opts.any fun o => match o with | .list [.atom "tty", .atom "t", _] => true | _ => false
    let has : String → Bool := fun tag => opts.any fun o => match o with | .list (.atom t :: _) => t == tag | _ => false
    pure { form, listen, url, args, more := more == "t", frames := fs.flatten, hold, color, outTty,
           debug := has "debug", hosts := has "hosts",
           closeAfter := opts.findSome? fun o => match o with | .list [.atom "close-stdout", n] => asNat n | _ => none }
  | _ => none

/-- `varlink_connect` drops `;parameters` of unix addresses -/
def connAddr (a : String) : String :=
  if a.startsWith "unix:" then ((a.splitOn ";").head?).getD a else a

/-- with the private hosts file `tcp:multihost:P` reaches a service on `tcp:127.0.0.1:P` as well as on
    `tcp:[::1]:P`: `TcpStream::connect(name)` tries every address the name resolves to -/
def reaches (hosts : Bool) (a listen : String) : Bool :=
  connAddr a == listen ||
    (hosts && a.startsWith "tcp:multihost:" &&
      ((a.splitOn ":").getLast?) == ((listen.splitOn ":").getLast?))

def ofReport : Option Cli.Report → Sx
  | none => .atom "-"
  | some (.std s p) => .list [.atom "std", strAtom s, strAtom p]
  | some (.named n ps) => .list [.atom "named", strAtom n, ofOptJson ps]
  | some .failed => .atom "failed"

/-- does the coloured rendering of a value contain an escape sequence?  Keys and scalars are painted,
    brackets are not (the `Styler` of main.rs 262-275) -/
partial def painted : Json → Bool
  | .arr l => l.any painted
  | .obj l => l.any fun kv => kv.1 != "" || painted kv.2
  | .str s => s != ""          -- painting the empty text emits nothing
  | _ => true

def obs (conns : Nat) (resolver : Option String) (log : List Request) (out : List Json) (exit : Sx) (report : Sx)
    (colour : Bool := false) : Sx :=
  .list [.atom "cli-obs", .list [.atom "conns", .atom (toString conns)],
    .list [.atom "decoy", .atom "0"],
    .list [.atom "resolver", ofOptStr resolver],
    .list (.atom "log" :: log.map ClientDrv.ofReq),
    .list (.atom "stdout" :: out.map ofJson), .atom "t", ofBool (colour && out.any painted), exit, report]


def msg (c : String) : Sx := .list [.atom "msg", .atom c]

/-- with --debug the message is printed in another form: only its presence is compared -/
def dbg (debug : Bool) (quiet : Bool) (report : Sx) : Sx :=
  -- (close-stdout n) cases: the wording on stderr is not compared at all
  if quiet then .atom "-" else
  if debug then (match report with | .atom "-" => report | _ => msg "debug") else report

def runCase (c : Parsed) : Sx :=
  let peer : Peer := fun log _ => if log.isEmpty then (c.frames, !c.hold) else ([], false)
  let call (method : String) (resolver : Option String) : Sx :=
    match c.args with
    | some none => obs 1 resolver [] [] (.atom "1") (dbg c.debug c.closeAfter.isSome (msg "parse-args"))
    | args =>
      let a : Option Json := match args with | some (some j) => some j | _ => none
      let o := Cli.runCall peer {} method a c.more
      -- main.rs 608-613: `on`, `off`, otherwise "is stdout a terminal"
      let colour := c.color == "on" || (c.color != "off" && c.outTty)
      match c.closeAfter with
      | some n =>
        -- stdout takes n documents and is then gone: a further successful reply cannot be delivered, which is a
        -- failure of the call as far as the exit status goes (how the tool says so is not compared)
        let undelivered := o.stdout.length > n
        obs 1 resolver o.wire.log (o.stdout.take n) (.atom (if undelivered || o.exit != 0 || o.hang then "1" else "0")) (.atom "-") colour
      | none =>
      obs 1 resolver o.wire.log o.stdout (if o.hang then .atom "hung" else .atom (toString o.exit)) (dbg c.debug c.closeAfter.isSome (ofReport o.report)) colour
  -- `--bridge CMD`: the whole argument is the method, the command's stdio is the connection
  if c.form == "bridge" then call c.url none else
  match Cli.split c.url with
  | .invalid => obs 0 none [] [] (.atom "1") (dbg c.debug c.closeAfter.isSome (msg "invalid-address"))
  | .direct a m =>
    if c.form != "nolisten" && c.form != "resolver" && reaches c.hosts a c.listen then call m none
    else obs 0 none [] [] (.atom "1") (dbg c.debug c.closeAfter.isSome (msg "connect"))
  | .resolve i m =>
    if c.form == "resolver" then call m (some i)
    else obs 0 none [] [] (.atom "1") (dbg c.debug c.closeAfter.isSome (msg "connect-resolver"))

def parseReport : Sx → Option (Option Cli.Report × Bool)
  | .atom "-" => some (none, false)
  | .atom "failed" => some (some .failed, false)
  | .list [.atom "std", s, p] => do
    let s ← asStr s
    let p ← asStr p
    pure (some (.std s p), false)
  | .list [.atom "named", n, ps] => do
    let n ← asStr n
    let ps ← asOptJson ps
    pure (some (.named n ps), false)
  | .list [.atom "msg", _] => some (none, true)
  | _ => none

def pred (cs os : Sx) : Cli.Verdict :=
  match parseCase cs, os with
  | some c, .list [.atom "cli-obs", .list [.atom "conns", n], .list [.atom "decoy", dn], _, .list (.atom "log" :: log),
                   .list (.atom "stdout" :: docs), clean, esc, exit, report] =>
    match asNat n, docs.mapM toJson, parseReport report with
    | some n, some docs, some (rep, other) =>
      if asNat dn != some 0 then some "call-went-to-a-neighbouring-service (argument not split at the last slash)" else
      -- stdout that is not a terminal (and no --color on) must carry plain JSON, whatever stderr is
      if render esc == "t" && c.color != "on" && !c.outTty then
        some "stdout-is-not-plain-json (colour escapes although stdout is not a terminal and --color is not on)" else
      if render esc == "t" && c.color == "off" then some "colour-escapes-on-stdout-with---color-off" else
      let (lg, raw) := ClientDrv.parseLog log
      match c.args with
      | some none => if docs.isEmpty && asNat exit != some 0 then none else some "output-or-exit-0-with-unparsable-arguments"
      | args =>
        Cli.P_C20 { url := c.url, args := (match args with | some (some j) => some j | _ => none), more := c.more, frames := c.frames,
                    listening := c.form == "path" || c.form == "abstract" || c.form == "tcp",
                    listen := if c.hosts then "tcp:multihost:@PORT@" else c.listen,
                    hold := c.hold, debug := c.debug, hosts := c.hosts, closeAfter := c.closeAfter, bridge := c.form == "bridge" }
          { conns := n, log := lg, rawLog := raw, stdout := docs,
            clean := (match clean with | .atom "t" => true | _ => false),
            exit := asNat exit, report := rep, otherMsg := other }
    | _, _, _ => some "unparsable-observation"
  | _, .list (.atom "panic" :: _) => some "panic"
  | _, _ => some "unparsable-case-or-observation"

end CliDrv

def cliLine (line : String) : String :=
  match parse line with
  | none => "(model-parse-error)"
  | some sx =>
    match CliDrv.parseCase sx with
    | none => "(model-case-error)"
    | some c => render (CliDrv.runCase c)

def cliPred (prop caseLine obsLine : String) : String :=
  match parse caseLine, parse obsLine with
  | some cs, some os =>
    if prop == "C20" then
      match CliDrv.pred cs os with
      | none => "ok"
      | some r => "fail " ++ r
    else "fail unknown-property"
  | _, _ => "fail unparsable-line"

end VV
