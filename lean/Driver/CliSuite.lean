/-
Driver.CliSuite — suite `cli` (stub: replaced by the owner of the suite).
Must define `cliLine : String → String` (case line ↦ model observation line) and
`cliPred : String → String → String → String` (property id, case line, implementation
observation line ↦ "ok" | "fail <reason>").
-/
import Driver.Sx

namespace VV

def cliLine (_line : String) : String := "(stub)"

def cliPred (_prop _caseLine _obsLine : String) : String := "fail stub-suite"

end VV
