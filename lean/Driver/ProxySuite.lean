/-
Driver.ProxySuite — suite `proxy` (stub: replaced by the owner of the suite).
Must define `proxyLine : String → String` (case line ↦ model observation line) and
`proxyPred : String → String → String → String` (property id, case line, implementation
observation line ↦ "ok" | "fail <reason>").
-/
import Driver.Sx

namespace VV

def proxyLine (_line : String) : String := "(stub)"

def proxyPred (_prop _caseLine _obsLine : String) : String := "fail stub-suite"

end VV
