/-
Driver.ProxySuite — suite `proxy` (C18): parse a case, run Model.Proxy (bridged)
and Model.Wire (`serve`, the direct connections), print the observation in the
canonical form of harness/src/suites/proxy.rs; evaluate `P_C18`.
-/
import Driver.WorldInst
import VarlinkVerif.Model.Proxy
import VarlinkVerif.Pred.Proxy

namespace VV
open Sx

structure PCase where
  mode : String
  modeArg : Option Sx
  worlds : List WorldSpec
  table : ResolverTable
  client : String
  frames : List Bytes
  payload : Option (List Bytes)
  tail : Bytes := []
  dec : List (Bytes × Frame)

def svcAddr (k : Nat) : String := "unix:%D/s" ++ toString k ++ ".sock"
def resolverAddrStr : String := "unix:%D/resolver.sock"
def sentinelIface := "zz.sentinel"

def resolverWorld (t : ResolverTable) : WorldSpec :=
  { svc := { vendor := "R", product := "resolver", version := "1", url := "http://r/", ifaces := [] },
    resolver := some t, up := false }

def parsePCase : Sx → Option PCase
  | .list [.atom "proxy", mode, .list (.atom "services" :: ws), .list (.atom "rtable" :: rt), .atom client,
           .list (.atom "session" :: items), dec] => do
    let (m, arg) ← match mode with
      | .atom m => some (m, none)
      | .list [.atom m, a] => some (m, some a)
      | _ => none
    let ws ← ws.mapM parseWorld
    let rt ← rt.mapM fun e => match e with
      | Sx.list (i :: as) => do
        let i ← asStr i
        let as ← as.mapM asStr
        pure (i, as)
      | _ => none
    let frames := items.filterMap fun it => match it with
      | Sx.list [Sx.atom "rq", b] => asBytes b
      | _ => none
    let payload := items.findSome? fun it => match it with
      | Sx.list (Sx.atom "payload" :: cs) => cs.mapM asBytes
      | _ => none
    let tail := (items.findSome? fun it => match it with
      | Sx.list [Sx.atom "tail", b] => asBytes b
      | _ => none).getD []
    let dec ← parseDec dec
    pure { mode := m, modeArg := arg, worlds := ws, table := rt, client, frames, payload, tail, dec }
  | _ => none

def PCase.fs (c : PCase) : List Frame := c.frames.map (decOf c.dec)

def PCase.svcOf (c : PCase) (t : Nat) : Service :=
  if t < c.worlds.length then (c.worlds[t]!).service else (resolverWorld c.table).service

def PCase.addrs (c : PCase) : List String := (List.range c.worlds.length).map svcAddr

def PCase.world (c : PCase) : Proxy.World :=
  { consts := consts,
    resolverAddr := resolverAddrStr,
    resolve := fun k i => resolveAt c.table k i,
    svcAt := fun a =>
      match c.addrs.findIdx? (· == a) with
      | some k => some (c.svcOf k)
      | none => if a == resolverAddrStr then some (c.svcOf c.worlds.length) else none }

/-- the target of the direct modes -/
def PCase.fixedTarget (c : PCase) : Nat :=
  match c.mode, c.modeArg with
  | "connect", some a =>
    match asStr a with
    | some s =>
      if s.contains ':' then (c.addrs.findIdx? (· == s)).getD 0
      else match c.table.find? (fun e => e.1 == s) with
        | some (_, a0 :: _) => (c.addrs.findIdx? (· == a0)).getD 0
        | _ => 0
    | none => 0
  | _, some a => (asNat a).getD 0
  | _, none => 0

def PCase.directMode (c : PCase) : Bool := c.mode == "connect" || c.mode == "activate" || c.mode == "bridgecmd"

def PCase.routed (c : PCase) : List ProxyPred.Routed :=
  if c.directMode then ProxyPred.fixedRoute c.fixedTarget c.fs
  else ProxyPred.refRoute c.table c.addrs 0 c.fs

/-- names of the interfaces of a world whose calls the harness logs (scripted ones, not the sentinel) -/
def loggedNames (w : WorldSpec) : List String :=
  w.scripts.filter (· != sentinelIface)

def isLogged (c : PCase) (t : Nat) (r : Request) : Bool :=
  if t < c.worlds.length then
    match ifaceOf r.method with
    | some i => i != svcName && (loggedNames (c.worlds[t]!)).contains i
    | none => false
  else false

def payloadBytes (c : PCase) : Bytes := (c.payload.getD []).flatten

/-- what the upgraded echo service writes before it reads (parameters of the last, upgrading call) -/
def PCase.greeting (c : PCase) : Bytes :=
  match c.fs.getLast? with
  | some (.req r) => if r.method == "org.example.up.Start" then upGreeting r else []
  | _ => []

/-- per service, the logged calls as a sorted multiset: a oneway call travels on its own
    connection and may be executed after the call that follows it -/
def logSx (entries : List (Nat × List Request)) : List Sx :=
  (entries.filter (fun e => !e.2.isEmpty)).map fun e =>
    let rendered := (e.2.map fun r => render (ofRequest r)).mergeSort (fun a b => a ≤ b)
    .list (.atom (toString e.1) :: rendered.map Sx.atom)

def proxyObs (c : PCase) : Sx :=
  let fs := c.fs
  let nsvc := c.worlds.length
  let routed := c.routed
  let endsUpgraded := match routed.getLast? with | some r => r.upgrade | none => false
  -- the direct runs
  let targets := (List.range (nsvc + 1)).filter fun t => routed.any (·.target == t)
  let directRuns := targets.map fun t =>
    let mine := (routed.filter (·.target == t)).map (·.frame)
    let o := serve consts (c.svcOf t) mine
    let getsPayload := endsUpgraded && (routed.getLast?.map (·.target) == some t)
    let upgradedHere := match o.status with | .upgraded i => i == upName | _ => false
    let allAnswered := o.consumed == mine.length
    let raw : Bytes := if getsPayload && upgradedHere && allAnswered then c.greeting ++ (payloadBytes c).map upTransform else []
    let seen : Bytes := if getsPayload && upgradedHere && allAnswered then payloadBytes c else []
    let calls := (mine.take o.consumed).filterMap fun f => match f with
      | .req r => if isLogged c t r then some r else none
      | .bad => none
    (t, o, raw, seen, calls)
  let directSx : Sx := .list (.atom "direct" :: directRuns.map fun (t, o, raw, _, _) =>
    let ending := match o.status with | .err => "closed" | _ => "open"
    .list [.atom (toString t), .list (.atom "out" :: o.groups.flatten.map ofReply), bytesAtom raw, .atom ending])
  let directLog := directRuns.map fun (t, _, _, _, calls) => (t, calls)
  let upDirect : Bytes := (directRuns.map fun (_, _, _, seen, _) => seen).flatten
  if c.directMode then
    -- byte pump in front of service `fixedTarget`
    let t := c.fixedTarget
    let o := serve consts (c.svcOf t) fs
    let early := c.client == "closeearly"
    -- closeearly: the pump forwards the pending input, passes the end of the client's stream on as a
    -- half-close (aebf686) and forwards what the service still answers
    let out := o.groups.flatten
    let upgradedHere := match o.status with | .upgraded i => i == upName | _ => false
    let raw : Bytes := if !early && upgradedHere && endsUpgraded then c.greeting ++ (payloadBytes c).map upTransform else []
    let ending := if early then "closed" else match o.status with
      | .eof => "open"
      | .err => "closed"
      | .upgraded _ => "open"
    let bridgedSx : Sx := .list [.atom "bridged", .list (.atom "out" :: out.map ofReply), bytesAtom raw, .atom ending]
    -- when the service closes the connection the pump stops by itself; its exit status is 0 (end of
    -- stream) or 1 (reset, the service left input unread) depending on a race the harness folds into
    -- one token
    let svcClosed := match o.status with | .err => true | _ => false
    .list [.atom "obs", bridgedSx,
           .list [.atom "exit", .atom (if svcClosed then "closed-by-service" else "0")], directSx, .atom "-",
           .list [.atom "upseen", .atom "-", .atom "-"]]
  else
    let w := c.world
    let early := c.client == "closeearly"
    let dropAll := early && c.mode == "bridge2"     -- the outer pump drops input that is pending when the client closes
    -- byte level: `Proxy.bridge` on the stream the client writes; by C18_bridge_chunking_invariance the
    -- segmentation does not matter, so the whole stream is handed over in one read
    let stream : Bytes := (c.frames.map fun f => f ++ [0]).flatten ++ (if early then c.tail else [])
    let bo := Proxy.bridge w (decOf c.dec) (if dropAll || stream.isEmpty then [] else [stream])
    let o : Proxy.Out := { groups := bo.groups, sent := bo.sent, status := bo.status, consumed := 0 }
    let pipelinedPayload := c.client == "pipelined"
    -- a service may speak first: its greeting comes in one write with the reply to the upgrading call
    let greet := c.greeting
    let pump : Option Proxy.Pumped := match bo.status with
      | .upgraded _ (some i) =>
        if i == upName then
          some (if pipelinedPayload then Proxy.upgradedPump (fun b => greet ++ b.map upTransform) (payloadBytes c) []
                else Proxy.upgradedPump (fun b => greet ++ b.map upTransform) [] (c.payload.getD []))
        else none
      | _ => none
    let raw : Bytes := match pump with | some p => p.toClient | none => []
    let upB : Bytes := match pump with | some p => p.toService | none => []
    let ending := match o.status with
      | .eof => if early then "closed" else "open"
      | .error => "closed"
      | .hang => "timeout"
      | .upgraded _ _ => if early then "closed" else "open"
    -- bridge2: the outer pump's status.  When the inner bridge stops by itself (error) the pump ends with 0
    -- or, if it was still writing pipelined requests into the inner bridge's stdin, with a broken pipe (1):
    -- a race the harness folds into one token, as in the pump modes
    let innerStopped := match o.status with | .error => !early | _ => false
    let exit := if c.mode == "bridge2" then (if innerStopped then "closed-by-service" else "0") else match o.status with
      | .eof => "0"
      | .error => "1"
      | .hang => "timeout"
      | .upgraded _ _ => "0"
    let bridgedLog := (List.range nsvc).map fun t =>
      (t, o.sent.filterMap fun (a, r) => if a == svcAddr t && isLogged c t r then some r else none)
    .list [.atom "obs",
           .list [.atom "bridged", .list (.atom "out" :: o.groups.flatten.map ofReply), bytesAtom raw, .atom ending],
           .list [.atom "exit", .atom exit], directSx,
           .list [.atom "log", .list (.atom "bridged" :: logSx bridgedLog), .list (.atom "direct" :: logSx directLog)],
           .list [.atom "upseen", bytesAtom upB, bytesAtom upDirect]]

def proxyLine (line : String) : String :=
  match parse line with
  | none => "(model-parse-error)"
  | some (.list [.atom "raceprobe", _]) => "(raceprobe kept)"     -- fixed by ac1225d
  | some (.list [.atom "closeprobe", _]) => "(closeprobe complete)"   -- fixed by aebf686 (half-close)
  -- resolver-mode sessions in special worlds.  `long`: `Proxy.run` has no resource that a call could use
  -- up, 150 routed calls are 150 groups; `downup`: `route` keeps (lastIface, address) when connecting
  -- fails, the same interface is connected to again at the same address; `reset`: a read error from the
  -- service is `End.error` (exit status 1)
  | some (.list [.atom "sessprobe", .atom "long"]) => "(sessprobe (answered 150) (exit 0))"
  | some (.list [.atom "sessprobe", .atom "downup"]) => "(sessprobe (replies notfound ok) (exit 0))"
  | some (.list [.atom "sessprobe", .atom "reset"]) => "(sessprobe (stops t) (exit 1))"
  | some (.list [.atom "goneprobe", _]) => "(goneprobe stopped)"   -- termination clause: a client that is gone ends the bridge
  | some sx =>
    match parsePCase sx with
    | some c => render (proxyObs c)
    | none => "(model-case-error)"

/-! ### predicate -/

def parsePReps (l : List Sx) : List ProxyPred.PRep :=
  l.map fun x =>
    let cont := match x with
      | .list (.atom "r" :: .atom "t" :: _) => true
      | _ => false
    { text := render x, continues := cont }

def parseBridged : Sx → Option (Option ProxyPred.Bridged)
  | .list [.atom "bridged", .atom "panicked"] => some none
  | .list [.atom "bridged", .list [.atom "prefix", .atom p], .atom e] =>
    some (some { out := [], raw := [], ending := e, prefixOnly := some (p == "t") })
  | .list [.atom "bridged", .list (.atom "out" :: rs), raw, .atom e] => do
    let raw ← asBytes raw
    pure (some { out := parsePReps rs, raw, ending := e })
  | _ => none

def parseDirect (l : List Sx) : List (Nat × List ProxyPred.PRep × List UInt8) :=
  l.filterMap fun e => match e with
    | Sx.list [t, Sx.list (Sx.atom "out" :: rs), raw, _] => do
      let t ← asNat t
      let raw ← asBytes raw
      pure (t, parsePReps rs, raw)
    | Sx.list [t, Sx.list (Sx.atom "fail" :: _), _, _] => (asNat t).map fun t => (t, [], [])
    | _ => none

/-- the services whose direct connection was closed by the service -/
def parseDirectClosed (l : List Sx) : List Nat :=
  l.filterMap fun e => match e with
    | Sx.list [t, _, _, Sx.atom "closed"] => asNat t
    | _ => none

def proxyPred (prop caseLine obsLine : String) : String :=
  if prop != "C18" then "fail unknown-property" else
  match parse caseLine, parse obsLine with
  | some (.list [.atom "raceprobe", _]), some (.list [.atom "raceprobe", .atom r]) =>
    if r == "kept" then "ok" else "fail reply-before-close-lost"
  | some (.list [.atom "closeprobe", _]), some (.list [.atom "closeprobe", .atom r]) =>
    if r == "complete" then "ok" else "fail replies-cut-on-client-close"
  | some (.list [.atom "sessprobe", .atom v]), some o =>
    let want := match v with
      | "long" => "(sessprobe (answered 150) (exit 0))"
      | "downup" => "(sessprobe (replies notfound ok) (exit 0))"
      | _ => "(sessprobe (stops t) (exit 1))"
    if render o == want then "ok"
    else if v == "long" then "fail long-session-not-answered-completely"
    else if v == "downup" then "fail interface-not-found-after-its-service-came-up"
    else "fail service-reset-not-reported-as-error"
  | some (.list [.atom "goneprobe", .atom v]), some (.list [.atom "goneprobe", .atom r]) =>
    if r == "stopped" then "ok"
    else if r == "running" then "fail bridge-does-not-stop-when-client-closes-" ++ v
    else "fail goneprobe-" ++ r
  | some cs, some (.list [.atom "obs", b, .list [.atom "exit", .atom ex], .list (.atom "direct" :: ds), log,
                          .list [.atom "upseen", ub, ud]]) =>
    match parsePCase cs, parseBridged b with
    | some c, some bridged =>
      let logsEqual : Option Bool := match log with
        | .list [.atom "log", .list (.atom "bridged" :: bl), .list (.atom "direct" :: dl)] =>
          some (bl.map render == dl.map render)
        | _ => none
      let o : ProxyPred.Obs :=
        { bridged, exit := ex, direct := parseDirect ds, directClosed := parseDirectClosed ds, logsEqual,
          upBridged := asBytes ub, upDirect := asBytes ud }
      let pipelinedPayload := c.payload.isSome && c.client == "pipelined" && !c.directMode
      if !c.tail.isEmpty then "ok" else   -- an unterminated last message is not a call: model tie only
      let nf : String → ProxyPred.PRep := fun i => { text := render (ofReply (errInterfaceNotFound i)), continues := false }
      match ProxyPred.P_C18 nf c.mode c.client c.payload.isSome pipelinedPayload c.routed o c.greeting with
      | none => "ok"
      | some r => "fail " ++ r
    | _, _ => "fail unparsable-case-or-observation"
  | _, some (.list (.atom "panic" :: _)) => "fail harness-panic"
  | _, _ => "fail unparsable-line"

end VV
