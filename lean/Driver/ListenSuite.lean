/-
Driver.ListenSuite — suite `listen`: concurrency mode through Model.ListenWorker,
timing mode through Model.Listen driven by a timeline simulation (driver glue).
-/
import Driver.WireSuite
import VarlinkVerif.Model.ListenWorker
import VarlinkVerif.Model.Listen
import VarlinkVerif.Pred.Listen

namespace VV
open Sx

/-! ### concurrency mode -/

structure ConcClient where
  kind : String
  chunks : List Bytes
  dec : List (Bytes × Frame)

structure ConcCase where
  svc : Service
  svcSx : Sx
  clients : List ConcClient

def parseConcClient : Sx → Option ConcClient
  | .list [.atom "client", .atom kind, _, .list (.atom "chunks" :: cs), dec] => do
    let cs ← cs.mapM asBytes
    let dec ← parseDec dec
    pure { kind, chunks := cs, dec }
  | _ => none

def parseConcCase : Sx → Option ConcCase
  | .list (.atom "listen-conc" :: _ :: _ :: svc :: .list (.atom "clients" :: cl) :: _) => do
    let s ← parseSvc svc
    let cl ← cl.mapM parseConcClient
    pure { svc := s, svcSx := svc, clients := cl }
  | _ => none

/-- bytes in pieces of `n`: an arbitrary segmentation for the upgraded-phase model (its result does not depend
    on it: C02_upgraded_records_segmentation) -/
partial def piecesOf (n : Nat) (b : Bytes) : List Bytes :=
  if b.isEmpty || n == 0 then [] else b.take n :: piecesOf n (b.drop n)

def upProcessed (r : ConnResult) : Bytes :=
  -- line-wise fixtures (`up.line` reads to the end, `up.segline` returns after every complete record and hands
  -- the unfinished one back): the worker's upgraded-mode loop with the record-wise policy
  if r.upgraded == some "up.line" || r.upgraded == some "up.segline" then
    (ListenWorker.upgradedPhase linePolicy [] (piecesOf 7 r.handedOver)).1.flatten
  else r.handedOver

def upEcho (r : ConnResult) : Bytes :=
  -- the fixture's upgraded handler is only invoked when there is something to read
  if r.upgraded.isSome && !r.handedOver.isEmpty then upProcessed r else []

def concClientObs (svc : Service) (cl : ConcClient) : Sx :=
  let total := cl.chunks.flatten
  let r := ListenWorker.run consts svc (decOf cl.dec) (if total.isEmpty then [] else [total])
  let refStatus := match r.upgraded, r.closedByError with
    | some _, _ => "up"
    | none, true => "err"
    | none, false => "eof"
  let ref : Sx := .list [.atom "ref", .atom refStatus, .list (.atom "out" :: r.out.map ofReply),
    bytesAtom (if r.upgraded.isSome then upProcessed r else [])]
  -- a peer that hangs up without reading observes nothing (its reference line still says what it was owed)
  if cl.kind == "sendclose" then .list [.atom "c", .atom "t", .list [.atom "out"], bytesAtom [], .atom "f", ref] else
  .list [.atom "c", .atom "t", .list (.atom "out" :: r.out.map ofReply), bytesAtom (upEcho r), .atom "f", ref]

def concLine (c : ConcCase) : Sx :=
  -- after the stop flag `listen` returns Ok (C15_stop); a panic in a worker would resurface in its join
  .list (.atom "obs" :: c.clients.map (concClientObs c.svc) ++ [.list [.atom "server", .atom "ok"]])

/-! ### timing mode: a timeline simulation that feeds Model.Listen -/

def parseTimingCase : Sx → Option TimingCase
  | .list [.atom "listen-timing", idle, stop, initial, max, conns, .list [.atom "horizon", h]] => do
    let c ← parseTimingCase (.list [.atom "listen-timing", idle, stop, initial, max, conns])
    let h ← asNat h
    pure { c with horizon := some h }
  -- environment options that do not change the model's prediction: a stale entry at the socket path, a second
  -- listener on another address sharing the stop flag
  | .list [.atom "listen-timing", idle, stop, initial, max, conns, .list [.atom "stale"]] =>
    parseTimingCase (.list [.atom "listen-timing", idle, stop, initial, max, conns])
  | .list [.atom "listen-timing", idle, stop, initial, max, conns, .list [.atom "twin"]] =>
    parseTimingCase (.list [.atom "listen-timing", idle, stop, initial, max, conns])
  | .list [.atom "listen-timing", idle, stop, initial, max, conns, .list [.atom "signal", _]] =>
    parseTimingCase (.list [.atom "listen-timing", idle, stop, initial, max, conns])
  | .list [.atom "listen-timing", idle, stop, initial, max, .list (.atom "conns" :: cs)] => do
    let idle ← asNat idle
    let stopAt := asNat stop
    let initial ← asNat initial
    let max ← asNat max
    let cs ← cs.mapM fun c => match c with
      | Sx.list [Sx.atom "conn", a, h] => do
        let a ← asNat a
        let h ← asNat h
        pure (a, h)
      | _ => none
    pure { idle, stopAt, initial, max, conns := cs }
  | _ => none

structure Sim where
  t : Nat := 0
  st : ListenSt
  pending : List (Nat × Nat)     -- (arrival, hold) sorted by arrival
  ends : List Nat := []          -- service end times of accepted connections
  ambiguous : Bool := false

def stopSetAt (c : TimingCase) (t : Nat) : Bool :=
  match c.stopAt with
  | some s => s ≤ t
  | none => false

/-- when does the connection accepted at `t` with client deadline `dl` end?  With all `max`
    workers occupied it waits for the earliest one to finish. -/
def serviceEnd (max : Nat) (ends : List Nat) (t dl : Nat) : Nat :=
  let active := ends.filter (· > t)
  if active.length ≥ max then
    let sorted := active.mergeSort (· ≤ ·)
    let free := sorted.getD (active.length - max) t
    Nat.max dl free
  else Nat.max dl t

def simLoop (c : TimingCase) (cfg : ListenCfg) : Nat → Sim → Sim
  | 0, s => s
  | fuel + 1, s =>
    if s.st.result != .running then s else
    let w := waitTime cfg
    match s.pending with
    | (a, hold) :: rest =>
      let ta := Nat.max a s.t
      if w = 0 || ta < s.t + w then
        let e := serviceEnd c.max s.ends ta (a + hold)
        let amb := s.ambiguous || (w ≠ 0 && s.t + w - ta < 120)
        let st' := Listen.step cfg s.st (.conn (stopSetAt c ta))
        simLoop c cfg fuel { s with t := ta, st := st', pending := rest, ends := e :: s.ends, ambiguous := amb }
      else
        let tt := s.t + w
        let busy := (s.ends.filter (· > tt)).length
        let amb := s.ambiguous || s.ends.any (fun e => (e + 150 > tt && e < tt + 150)) ||
          (match c.stopAt with | some sa => sa + 40 > tt && sa < tt + 40 | none => false)
        let st' := Listen.step cfg s.st (.timeout (stopSetAt c tt) busy)
        simLoop c cfg fuel { s with t := tt, st := st', ambiguous := amb }
    | [] =>
      if w = 0 then s   -- blocks in accept forever
      else
        let tt := s.t + w
        let busy := (s.ends.filter (· > tt)).length
        let amb := s.ambiguous || s.ends.any (fun e => (e + 150 > tt && e < tt + 150)) ||
          (match c.stopAt with | some sa => sa + 40 > tt && sa < tt + 40 | none => false)
        let st' := Listen.step cfg s.st (.timeout (stopSetAt c tt) busy)
        simLoop c cfg fuel { s with t := tt, st := st', ambiguous := amb }

structure TimingPrediction where
  result : String
  ret : Nat
  ambiguous : Bool

def predictTiming (c : TimingCase) : TimingPrediction :=
  let cfg : ListenCfg := { idle := c.idle, hasStop := c.stopAt.isSome }
  let pend := c.conns.mergeSort (fun a b => a.1 ≤ b.1)
  let s := simLoop c cfg 2000 { st := Listen.init cfg (stopSetAt c 0), pending := pend }
  let drainEnd := s.ends.foldl Nat.max s.t
  match s.st.result with
  | .okStopped => { result := "ok", ret := drainEnd, ambiguous := s.ambiguous }
  | .errTimeout => { result := "timeout", ret := drainEnd, ambiguous := s.ambiguous }
  | .running => { result := "running", ret := s.t, ambiguous := s.ambiguous }

def timingLine (c : TimingCase) : Sx :=
  let p := predictTiming c
  let p := match c.horizon with
    | some h => if p.result == "running" || p.ret > h then { p with result := "running", ret := h } else p
    | none => p
  .list [.atom "tpred", .atom p.result, .atom (toString p.ret), ofBool p.ambiguous]

/-! ### bound mode (C14 at the level of `listen`): long-lived peers against a worker limit -/

structure BoundCase where
  max : Nat
  n : Nat
  hold : Nat
  stagger : Nat

def parseBoundCase : Sx → Option BoundCase
  | .list (.atom "listen-bound" :: _ :: _ :: max :: n :: hold :: stagger :: _) => do
    let max ← asNat max
    let n ← asNat n
    let hold ← asNat hold
    let stagger ← asNat stagger
    pure { max, n, hold, stagger }
  | _ => none

/-- when each peer gets its first reply: on arrival while fewer than `max` connections are in service
    (C14_no_stranding), otherwise when enough of them have ended (C14_bound) -/
def boundPrediction (c : BoundCase) : List Nat :=
  let rec go (i : Nat) (fuel : Nat) (ends : List Nat) (acc : List Nat) : List Nat :=
    match fuel with
    | 0 => acc.reverse
    | fuel + 1 =>
      let a := i * c.stagger
      let active := (ends.filter (· > a)).mergeSort (· ≤ ·)
      let first := if active.length < c.max then a else active.getD (active.length - c.max) a
      go (i + 1) fuel ((first + c.hold) :: ends) (first :: acc)
  go 0 c.n [] []

def boundLine (c : BoundCase) : Sx :=
  .list (.atom "bpred" :: (boundPrediction c).map fun t => .atom (toString t))

def boundTolerance : Nat := 300

def boundPred (c : BoundCase) (obs : Sx) : Verdict :=
  match obs with
  | .list (.atom "bobs" :: items) =>
    let conns : List (Option Nat × Nat) := items.filterMap fun k => match k with
      | .list [.atom "c", f, e] => (asNat e).map fun e => (asNat f, e)
      | _ => none
    if conns.length != c.n then some "bound-observation-incomplete"
    else if conns.any (fun k => k.1.isNone) then some "accepted-connection-never-served"
    else
      let served : List (Nat × Nat) := conns.filterMap fun k => k.1.map fun f => (f, k.2)
      -- the limit: connections whose service interval covers the moment another one got its first reply
      let over := served.any fun k => (served.filter fun j => j.1 ≤ k.1 && j.2 > k.1 + 40).length > c.max
      if over then some "more-connections-in-service-than-the-worker-limit"
      else
        let pred := boundPrediction c
        -- the harness measured how slow the machine is right now (a trivial round trip); a verdict "late" needs
        -- more than that, and it needs a cause: the first reply coincides with the end or the arrival of another
        -- connection (what a stranded connection waits for)
        let slack : Nat := (items.findSome? fun k => match k with
          | .list [.atom "slack", n] => asNat n
          | _ => none).getD 0
        let events : List Nat := served.flatMap fun j => [j.1, j.2]
        let late := (served.zip pred).any fun (k, p) =>
          k.1 > p + boundTolerance + slack &&
            events.any fun e => e > p + boundTolerance / 2 && e != k.1 && e ≤ k.1 && k.1 ≤ e + 200
        let early := (served.zip pred).any fun (k, p) => k.1 + boundTolerance < p
        if late then some "accepted-connection-served-later-than-the-worker-limit-explains"
        else if early then some "model-disagrees:connection-served-earlier-than-predicted"
        else none
  | _ => some "unparsable-observation"

def listenLine (line : String) : String :=
  match parse line with
  | none => "(model-parse-error)"
  | some (.list [.atom "listen-activated", .atom "0", _]) =>
    -- no idle timeout and no stop flag: the service stays (C15_runs_forever_by_default), whatever flags the
    -- inherited socket carries
    render (.list [.atom "aobs", .atom "t", .atom "f", .atom "t"])
  | some (.list (.atom "listen-activated" :: _)) =>
    -- the service is reached through the inherited socket, leaves through its idle timeout, and
    -- `Listener::drop` does not unlink a path it did not create (C15_unlink)
    render (.list [.atom "aobs", .atom "t", .atom "t", ofBool (!unlinksOnDrop (.unixPath false))])
  | some sx =>
    match parseBoundCase sx with
    | some b => render (boundLine b)
    | none =>
    match parseConcCase sx with
    | some c => render (concLine c)
    | none =>
      match parseTimingCase sx with
      | some c => render (timingLine c)
      | none => "(model-case-error)"

/-! ### predicates -/

def parseConnObs : Sx → Option ConnObs
  | .list [.atom "c", closed, .list (.atom "out" :: out), up, late,
           .list [.atom "ref", .atom rst, .list (.atom "out" :: rout), rup]] => do
    let closed ← asOptBool closed
    let late ← asOptBool late
    let (o, raw) := parseReplies out
    let up ← asBytes up
    let (ro, _) := parseReplies rout
    let rup ← asBytes rup
    pure { closed := closed.getD false, out := o, rawOut := raw, up, late := late.getD false, refStatus := rst, refOut := ro, refUp := rup }
  | _ => none

def clientTokens (cl : ConcClient) : List String :=
  let fs := (frames cl.chunks.flatten).1.map (decOf cl.dec)
  fs.filterMap fun f => match f with
    | .req r => tokenOfJson r.parameters
    | .bad => none

/-- a peer whose requests are all well formed and answered by the library itself (built-in interface, unknown
    interface, no dot) gets exactly one reply per non-oneway request — judged without the implementation's own
    in-memory reference run, which a change in `handle()` moves along -/
def libraryOnlyCount (svc : Service) (cl : ConcClient) : Option Nat :=
  let fs := (frames cl.chunks.flatten).1.map (decOf cl.dec)
  let complete := cl.chunks.flatten.getLast? == some 0
  let ok := fs.all fun f => match f with
    | .req r =>
      !illTypedBuiltin r &&
      (match ifaceOf r.method with
       | none => true
       | some i => i == svcName || (svc.lookup i).isNone)
    | .bad => false
  if ok && complete && (cl.kind == "half" || cl.kind == "slow") then
    some (fs.filter fun f => match f with | .req r => !isOneway r | .bad => false).length
  else none

def concPred (c : ConcCase) (obs : List Sx) : Verdict :=
  let toks := c.clients.map clientTokens
  let idx := List.range c.clients.length
  firstSome <| idx.map fun i =>
    match c.clients[i]?, obs[i]? with
    | some cl, some o =>
      match parseConnObs o with
      | none => some "unparsable-connection-observation"
      | some co =>
        let others := (idx.filter (· != i)).flatMap fun j => toks.getD j []
        match libraryOnlyCount c.svc cl with
        | some n =>
          if co.out.length != n then some "peer-did-not-get-one-reply-per-request-the-library-answers-itself"
          else P_C13_conn cl.kind others co
        | none => P_C13_conn cl.kind others co
    | _, _ => some "missing-connection-observation"

def parseTimingObs : Sx → Option TimingObs
  | .list (.atom "tobs" :: .atom res :: ret :: removed :: conns) => do
    let ret ← asNat ret
    let removed ← asOptBool removed
    let flagKept := !(conns.any fun k => match k with | Sx.list [Sx.atom "flag", Sx.atom "f"] => true | _ => false)
    let twin := conns.findSome? fun k => match k with
      | Sx.list [Sx.atom "twin", Sx.atom r, t] => (asNat t).map fun t => (r, t)
      | _ => none
    let conns := conns.filter fun k => match k with | Sx.list (Sx.atom "c" :: _) => true | _ => false
    let conns ← conns.mapM fun k => match k with
      | Sx.list [Sx.atom "c", a, f, cpl, e] => do
        let a ← asNat a
        let f ← asOptBool f
        let cpl ← asOptBool cpl
        let e ← asNat e
        pure ({ accepted := a, gotFirst := f.getD false, complete := cpl.getD false, closed := e } : TimingConn)
      | _ => none
    pure { result := res, ret, removed := removed.getD false, conns, flagKept, twin }
  | _ => none

def timingTolerance : Nat := 350

def timingPred (c : TimingCase) (o : TimingObs) : Verdict :=
  -- cases with an observation horizon: the model says whether `listen` is still running then (C15_timeout_not_early)
  if let some h := c.horizon then
    let p := predictTiming c
    if p.result == "running" || p.ret > h + timingTolerance then
      (if o.result == "running" then none else some "listen-returned-long-before-the-idle-timeout-had-elapsed")
    else if o.result == "running" then some "model-disagrees:listen-still-running-at-the-horizon"
    else P_C15_timing c o
  else
  match P_C15_timing c o with
  | some r => some r
  | none =>
    -- model agreement (with tolerance); skipped when an event falls close to a decision point
    let p := predictTiming c
    if p.ambiguous then none
    else if p.result != o.result then some ("model-disagrees:result-" ++ p.result ++ "-vs-" ++ o.result)
    else if o.ret + timingTolerance < p.ret || p.ret + timingTolerance < o.ret then
      some ("model-disagrees:return-time-" ++ toString p.ret ++ "-vs-" ++ toString o.ret)
    else none

def listenPred (prop : String) (caseLine obsLine : String) : String :=
  let v : Verdict :=
    match parse caseLine, parse obsLine with
    | some cs, some os =>
      match os with
      | .list (.atom "panic" :: _) => some "panic"
      | _ =>
        match parseBoundCase cs with
        | some b => if prop == "C14" || prop == "C13" then boundPred b os else some "bound-case-for-another-property"
        | none =>
        match parseConcCase cs with
        | some c =>
          match os with
          | .list (.atom "obs" :: items) =>
            if items.any (fun x => match x with | .list [.atom "server-did-not-stop"] => true | _ => false) then
              some "server-did-not-stop-after-all-peers-had-gone"
            else if items.any (fun x => match x with | .list [.atom "server", .atom "panic"] => true | _ => false) then
              some "a-server-thread-panicked"
            else if items.any (fun x => match x with | .list [.atom "server", .atom "err"] => true | _ => false) then
              some "listen-returned-an-error-after-the-stop-flag"
            else concPred c (items.filter fun x => match x with | .list (.atom "c" :: _) => true | _ => false)
          | _ => some "unparsable-observation"
        | none =>
          match cs, os with
          | .list [.atom "listen-activated", .atom "0", _], .list [.atom "aobs", served, exited, exists_] =>
            let isT : Sx → Bool := fun x => match x with | .atom "t" => true | _ => false
            if isT exited then some "activated-service-without-idle-timeout-or-stop-flag-returned"
            else if !isT served then some "activated-service-did-not-serve-the-inherited-socket"
            else if !isT exists_ then some "socket-path-not-created-by-the-service-was-removed"
            else none
          | .list (.atom "listen-activated" :: _), .list [.atom "aobs", served, exited, exists_] =>
            let isT : Sx → Bool := fun x => match x with | .atom "t" => true | _ => false
            if !isT served then some "activated-service-did-not-serve-the-inherited-socket"
            else if !isT exited then some "activated-service-did-not-leave-through-its-idle-timeout"
            else if !isT exists_ then some "socket-path-not-created-by-the-service-was-removed"
            else none
          | _, _ =>
          match parseTimingCase cs, parseTimingObs os with
          | some c, some o => if prop == "C15" then timingPred c o else some "timing-case-for-another-property"
          | _, _ => some "unparsable-case-or-observation"
    | _, _ => some "unparsable-line"
  match v with
  | none => "ok"
  | some r => "fail " ++ r

end VV
