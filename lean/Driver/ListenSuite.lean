/-
Driver.ListenSuite — suite `listen` (stub: replaced by the owner of the suite).
Must define `listenLine : String → String` (case line ↦ model observation line) and
`listenPred : String → String → String → String` (property id, case line, implementation
observation line ↦ "ok" | "fail <reason>").
-/
import Driver.Sx

namespace VV

def listenLine (_line : String) : String := "(stub)"

def listenPred (_prop _caseLine _obsLine : String) : String := "fail stub-suite"

end VV
