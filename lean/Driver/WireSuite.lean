/-
Driver.WireSuite — suite `wire`: parse a case, run Model.Wire, print the
observation in the same canonical form as harness/src/suites/wire.rs.
-/
import Driver.WireInst
import VarlinkVerif.Pred.Wire

namespace VV
open Sx

/-- the text of `VarlinkService::get_description` is delivered by the harness?
    No: it is a constant of the implementation; the driver carries a copy that
    the correspondence run compares with the real one on every GetInterfaceDescription
    of `org.varlink.service`. -/
def serviceDescText : String :=
"# The Varlink Service Interface is provided by every varlink service. It
# describes the service and the interfaces it implements.
interface org.varlink.service

# Get a list of all the interfaces a service provides and information
# about the implementation.
method GetInfo() -> (
  vendor: string,
  product: string,
  version: string,
  url: string,
  interfaces: []string
)

# Get the description of an interface that is implemented by this service.
method GetInterfaceDescription(interface: string) -> (description: string)

# The requested interface was not found.
error InterfaceNotFound (interface: string)

# The requested method was not found
error MethodNotFound (method: string)

# The interface defines the requested method, but the service does not
# implement it.
error MethodNotImplemented (method: string)

# One of the passed parameters is invalid.
error InvalidParameter (parameter: string)
"

def consts : Consts := { serviceDesc := serviceDescText }

def parseIface : Sx → Option Iface
  | .list [.atom "script", n, d] => do
    let n ← asStr n
    let d ← asStr d
    pure (scriptIface n d)
  | .list [.atom "script-avail", n, d] => do
    -- same interface; its upgraded handler returns after every available segment (socket suites)
    let n ← asStr n
    let d ← asStr d
    pure (scriptIface n d)
  | .list [.atom "gen", n, d] => do
    let n ← asStr n
    let d ← asStr d
    if n == vtestName then pure (vtestIface d)
    else if n == crlfName then pure (crlfIface d)
    else none
  | _ => none

def parseSvc : Sx → Option Service
  | .list [.atom "svc", v, p, ver, u, .list (.atom "ifaces" :: is)] => do
    let v ← asStr v
    let p ← asStr p
    let ver ← asStr ver
    let u ← asStr u
    let is ← is.mapM parseIface
    pure { vendor := v, product := p, version := ver, url := u, ifaces := is }
  | _ => none

def parseReq : Sx → Option Frame
  | .atom "bad" => some .bad
  | .list [.atom "req", m, o, u, meth, p] => do
    let m ← asOptBool m
    let o ← asOptBool o
    let u ← asOptBool u
    let meth ← asStr meth
    let p ← asOptJson p
    pure (.req { more := m, oneway := o, upgrade := u, method := meth, parameters := p })
  | _ => none

def parseDec : Sx → Option (List (Bytes × Frame))
  | .list (.atom "dec" :: es) =>
    es.mapM fun e => match e with
      | Sx.list [b, d] => do
        let b ← asBytes b
        let d ← parseReq d
        pure (b, d)
      | Sx.list [b, d, _] => do
        let b ← asBytes b
        let d ← parseReq d
        pure (b, d)
      | _ => none
  | _ => none

/-- the frames the harness's own envelope check rejects (third element of a `dec` entry) -/
def parseEnvelopeBad : Sx → List Bytes
  | .list (.atom "dec" :: es) =>
    es.filterMap fun e => match e with
      | Sx.list [b, _, .atom "envelope-bad"] => asBytes b
      | _ => none
  | _ => []

def decOf (tbl : List (Bytes × Frame)) (msg : Bytes) : Frame :=
  match tbl.find? (fun e => e.1 == msg) with
  | some e => e.2
  | none => .bad

def sortTail : List Json → List Json
  | [] => []
  | h :: t =>
    let strs := t.filterMap fun j => match j with | .str s => some s | _ => none
    if strs.length == t.length then h :: (strs.mergeSort (fun a b => a ≤ b)).map .str else h :: t

/-- canonicalisation shared with the harness: GetInfo's interface list is
    sorted after its head -/
def canonParams : Option Json → Option Json
  | some (.obj l) => some (.obj (l.map fun (k, v) =>
      if k == "interfaces" then
        match v with
        | .arr a => (k, .arr (sortTail a))
        | _ => (k, v)
      else (k, v)))
  | p => p

def ofReply (r : Reply) : Sx :=
  .list [.atom "r", ofOptBool r.continues, ofOptStr r.error, ofOptJson (canonParams r.parameters)]

def ofStatus : Status → Sx
  | .eof => .atom "eof"
  | .err => .atom "err"
  | .upgraded i => .list [.atom "up", strAtom i]

def ofRequest (r : Request) : Sx :=
  .list [.atom "req", ofOptBool r.more, ofOptBool r.oneway, ofOptBool r.upgrade, strAtom r.method,
         ofOptJson r.parameters]

def obsSx (st : Status) (out : List Reply) (tail rest seen : Bytes)
    (calls : List (String × String × Request)) (ref : Sx) : Sx :=
  .list [.atom "obs", ofStatus st, .list (.atom "out" :: out.map ofReply),
         bytesAtom tail, bytesAtom rest, bytesAtom seen,
         .list (.atom "calls" :: calls.map fun (n, d, r) => .list [strAtom n, strAtom d, ofRequest r,
            .list [.atom "api", ofBool (wantsMore r), ofBool (isOneway r)]]),
         ref]

def bufCap : Nat := 8192

structure WireCase where
  mode : String
  svc : Service
  chunks : List Bytes
  dec : List (Bytes × Frame)

def parseWireCase : Sx → Option WireCase
  | .list [.atom "wire", .atom mode, svc, .list (.atom "reads" :: cs), dec] => do
    let svc ← parseSvc svc
    let cs ← cs.mapM asBytes
    let dec ← parseDec dec
    pure { mode, svc, chunks := cs, dec }
  | _ => none

/-- calls that reach a *scripted* interface (the generated one records nothing) -/
def modelCalls (svc : Service) (fs : List Frame) (n : Nat) : List (String × String × Request) :=
  (fs.take n).filterMap fun f => match f with
    | .req r =>
      match ifaceOf r.method with
      | some i =>
        if i == svcName then none
        else match svc.lookup i with
          | some ifc => if ifc.name == vtestName || ifc.name == crlfName then none else some (ifc.name, ifc.desc, r)
          | none => none
      | none => none
    | .bad => none

def runWire (c : WireCase) : Sx :=
  let total := c.chunks.flatten
  let dec := decOf c.dec
  let fs := (frames total).1.map dec
  let o := serve consts c.svc fs
  let calls := modelCalls c.svc fs o.groups.length
  let rh := handle consts c.svc dec (chop bufCap total)
  let ref : Sx := .list [.atom "ref", ofStatus rh.status, .list (.atom "out" :: rh.groups.flatten.map ofReply),
    bytesAtom rh.tail, bytesAtom rh.rest.flatten]
  if c.mode == "whole" then
    let reads := c.chunks.flatMap (chop bufCap)
    let h := handle consts c.svc dec reads
    obsSx h.status h.groups.flatten h.tail h.rest.flatten [] calls ref
  else
    let st := feed consts c.svc dec bufCap c.chunks
    obsSx st.status st.out st.tail st.dropped st.seen calls ref

/-! ### predicates on the implementation's observation -/

def parseStatus : Sx → Option Status
  | .atom "eof" => some .eof
  | .atom "err" => some .err
  | .list [.atom "up", i] => (asStr i).map .upgraded
  | _ => none

def parseReplies (l : List Sx) : List Reply × Bool :=
  l.foldr (fun x (acc : List Reply × Bool) =>
    match x with
    | .list [.atom "r", c, e, p] =>
      match asOptBool c, asOptStr e, asOptJson p with
      | some c, some e, some p => ({ continues := c, error := e, parameters := p } :: acc.1, acc.2)
      | _, _, _ => (acc.1, true)
    | _ => (acc.1, true)) ([], false)

def parseCall : Sx → Option ((String × String × Request) × (Bool × Bool))
  | .list [n, d, r, .list [.atom "api", m, ow]] => do
    let n ← asStr n
    let d ← asStr d
    let m ← asBool m
    let ow ← asBool ow
    match ← parseReq r with
    | .req r => pure ((n, d, r), (m, ow))
    | .bad => none
  | _ => none

def parseObs : Sx → Option WireObs
  | .list (.atom "panic" :: _) => some { panicked := true }
  | .list [.atom "obs", st, .list (.atom "out" :: out), tail, rest, seen, .list (.atom "calls" :: calls),
           .list [.atom "ref", rst, .list (.atom "out" :: rout), rtail, rrest]] => do
    let st ← parseStatus st
    let (o, raw) := parseReplies out
    let tail ← asBytes tail
    let rest ← asBytes rest
    let seen ← asBytes seen
    let calls ← calls.mapM parseCall
    let rst ← parseStatus rst
    let (ro, _) := parseReplies rout
    let rtail ← asBytes rtail
    let rrest ← asBytes rrest
    pure { status := st, out := o, rawOut := raw, tail, rest, seen, calls := calls.map (·.1), callApi := calls.map (·.2),
           refStatus := rst, refOut := ro, refTail := rtail, refRest := rrest }
  | _ => none

def cfgOfSx : Sx → Option WireCfg
  | .list [.atom "svc", v, p, ver, u, .list (.atom "ifaces" :: is)] => do
    let v ← asStr v
    let p ← asStr p
    let ver ← asStr ver
    let u ← asStr u
    let is ← is.mapM fun i => match i with
      | Sx.list [Sx.atom "script", n, d] => do
        let n ← asStr n
        let d ← asStr d
        pure ("script", n, d)
      | Sx.list [Sx.atom "script-avail", n, d] => do
        let n ← asStr n
        let d ← asStr d
        pure ("script", n, d)
      | Sx.list [Sx.atom "gen", n, d] => do
        let n ← asStr n
        let d ← asStr d
        pure ("gen", n, d)
      | _ => none
    pure { vendor := v, product := p, version := ver, url := u, ifaces := is }
  | _ => none

def wirePred (prop : String) (caseLine obsLine : String) : String :=
  match parse caseLine, parse obsLine with
  | some cs, some os =>
    match cs with
    | .list [.atom "wire", .atom mode, svcSx, .list (.atom "reads" :: chunks), decSx] =>
      match cfgOfSx svcSx, chunks.mapM asBytes, parseDec decSx, parseObs os with
      | some cfg, some chunks, some dec, some obs =>
        let total := chunks.flatten
        let fs := (frames total).1.map (decOf dec)
        let v : Verdict :=
          match prop with
          | "C01" => P_C01 cfg fs obs
          | "C02" => P_C02 cfg fs (mode == "feed") total obs
          | "C03" => P_C03 cfg fs obs
          | "C04" => P_C04 cfg fs obs
          | "C05" => P_C05 cfg fs obs
          | "C06" => P_C06 cfg fs total (parseEnvelopeBad decSx) obs
          | _ => some "unknown-property"
        match v with
        | none => "ok"
        | some r => "fail " ++ r
      | _, _, _, _ => "fail unparsable-case-or-observation"
    | _ => "fail unparsable-case"
  | _, _ => "fail unparsable-line"

def wireLine (line : String) : String :=
  match parse line with
  | none => "(model-parse-error)"
  | some sx =>
    match parseWireCase sx with
    | none => "(model-case-error)"
    | some c => render (runWire c)

end VV
