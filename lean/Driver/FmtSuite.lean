/-
Driver.FmtSuite — suite `fmt`: run Model.IdlFormat on a case and print the observation in the
canonical form of harness/src/suites/fmt.rs.
-/
import Driver.IdlSuite
import VarlinkVerif.Model.IdlFormat
import VarlinkVerif.Pred.IdlFmt

namespace VV
open Sx Idl

partial def fmtCase (sx : Sx) : Sx :=
  match sx with
  | .list [.atom "fmt", w, t] =>
    match asNat w, (asStr t).map String.toList with
    | some w, some t =>
      match tryFrom t with
      | .ok i =>
        let plain := Fmt.multiline i 0 w
        let colored := Fmt.multilineC i 0 w
        let (re, second) : Sx × Bool :=
          match tryFrom plain with
          | .ok i2 => (idlSx i2, Fmt.multiline i2 0 w == plain)
          | o => (outcomeSx o, false)
        .list [.atom "fmt", idlSx i, strSx plain, strSx colored, re, ofBool second]
      | _ => .list [.atom "unparsable"]
    | _, _ => .atom "model-case-error"
  | .list [.atom "fmt1", t] =>
    match (asStr t).map String.toList with
    | some t =>
      match tryFrom t with
      | .ok i => .list [.atom "fmt1", strSx (Fmt.oneline i), strSx (Fmt.onelineC i), strSx (Fmt.display i)]
      | _ => .list [.atom "unparsable"]
    | none => .atom "model-case-error"
  | .list [.atom "cli", w, c, t, _via] => fmtCase (.list [.atom "cli", w, c, t])
  | .list [.atom "cli", w, c, t] =>
    -- `-` for the width: no `-c` option, the tool's default of 80 columns
    match asOptBool c, (asStr t).map String.toList with
    | some (some color), some t =>
      let w := (asNat w).getD 80
      match tryFrom t with
      | .ok i =>
        let lib := if color then Fmt.multilineC i 0 w else Fmt.multiline i 0 w
        .list [.atom "cli", .atom "0", strSx (lib ++ ['\n']), strSx lib]
      | _ => .list [.atom "cli", .atom "1", strSx [], .atom "-"]
    | _, _ => .atom "model-case-error"
  | .list (.atom "conc" :: _ :: jobs) =>
    -- formatting is a function of (definition, width): the concurrent expectation is the sequential value
    let rs := jobs.map fun j =>
      match j with
      | .list [w, t] =>
        match asNat w, (asStr t).map String.toList with
        | some w, some t =>
          match tryFrom t with
          | .ok i => some (Sx.list [strSx (Fmt.multiline i 0 w), strSx (Fmt.multilineC i 0 w), .atom "0", .atom "0", .atom "0", .atom "-"])
          | _ => none
        | _, _ => none
      | _ => none
    if rs.all Option.isSome then .list (.atom "conc" :: rs.filterMap id) else .list [.atom "unparsable"]
  | _ => .atom "model-case-error"

def fmtLine (line : String) : String :=
  match parse line with
  | some sx => render (fmtCase sx)
  | none => "(model-parse-error)"

def fmtPred (prop caseLine obsLine : String) : String :=
  match parse caseLine, parse obsLine with
  | some c, some o =>
    match (if prop = "C10" then P_C10 c o else some "unknown-property") with
    | none => "ok"
    | some r => "fail " ++ r
  | _, _ => "fail unparsable-line"

end VV
