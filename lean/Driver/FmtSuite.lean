/-
Driver.FmtSuite — suite `fmt` (stub: replaced by the owner of the suite).
Must define `fmtLine : String → String` (case line ↦ model observation line) and
`fmtPred : String → String → String → String` (property id, case line, implementation
observation line ↦ "ok" | "fail <reason>").
-/
import Driver.Sx

namespace VV

def fmtLine (_line : String) : String := "(stub)"

def fmtPred (_prop _caseLine _obsLine : String) : String := "fail stub-suite"

end VV
