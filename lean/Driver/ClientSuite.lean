/-
Driver.ClientSuite — suite `client` (stub: replaced by the owner of the suite).
Must define `clientLine : String → String` (case line ↦ model observation line) and
`clientPred : String → String → String → String` (property id, case line, implementation
observation line ↦ "ok" | "fail <reason>").
-/
import Driver.Sx

namespace VV

def clientLine (_line : String) : String := "(stub)"

def clientPred (_prop _caseLine _obsLine : String) : String := "fail stub-suite"

end VV
