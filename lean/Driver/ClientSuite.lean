/-
Driver.ClientSuite — suite `client`: parse a case, run Model.Client, print the
observation in the same canonical form as harness/src/suites/client.rs; and
evaluate `P_C07` on the implementation's observation.
-/
import Driver.Sx
import VarlinkVerif.Model.Client
import VarlinkVerif.Pred.Client

namespace VV
open Sx
open Client

namespace ClientDrv

def parseReply : Sx → Option Reply
  | .list [.atom "r", c, e, p] => do
    let c ← asOptBool c
    let e ← asOptStr e
    let p ← asOptJson p
    pure { continues := c, error := e, parameters := p }
  | _ => none

def ofKind : EKind → Sx
  | .io => .atom "io"
  | .connectionClosed => .atom "closed"
  | .badJson => .atom "badjson"
  | .interfaceNotFound s => .list [.atom "inf", strAtom s]
  | .invalidParameter s => .list [.atom "ip", strAtom s]
  | .methodNotFound s => .list [.atom "mnf", strAtom s]
  | .methodNotImplemented s => .list [.atom "mni", strAtom s]
  | .errorReply r => .list [.atom "reply", ofOptBool r.continues, ofOptStr r.error, ofOptJson r.parameters]
  | .methodCalledAlready => .atom "called"
  | .connectionBusy => .atom "busy"
  | .iteratorOldReply => .atom "old"

def parseKind : Sx → Option EKind
  | .atom "io" => some .io
  | .atom "closed" => some .connectionClosed
  | .atom "badjson" => some .badJson
  | .list [.atom "inf", s] => (asStr s).map .interfaceNotFound
  | .list [.atom "ip", s] => (asStr s).map .invalidParameter
  | .list [.atom "mnf", s] => (asStr s).map .methodNotFound
  | .list [.atom "mni", s] => (asStr s).map .methodNotImplemented
  | .list [.atom "reply", c, e, p] => do
    let c ← asOptBool c
    let e ← asOptStr e
    let p ← asOptJson p
    pure (.errorReply { continues := c, error := e, parameters := p })
  | .atom "called" => some .methodCalledAlready
  | .atom "busy" => some .connectionBusy
  | .atom "old" => some .iteratorOldReply
  | _ => none

def ofRes : Res → Sx
  | .ok p => .list [.atom "ok", ofJson p]
  | .unit => .atom "unit"
  | .none => .atom "none"
  | .noobj => .atom "noobj"
  | .err k => .list [.atom "err", ofKind k]

def parseRes : Sx → Option Res
  | .list [.atom "ok", p] => (toJson p).map .ok
  | .atom "unit" => some .unit
  | .atom "none" => some .none
  | .atom "noobj" => some .noobj
  | .list [.atom "err", k] => (parseKind k).map .err
  | _ => none

def ofReq (r : Request) : Sx :=
  .list [.atom "req", ofOptBool r.more, ofOptBool r.oneway, ofOptBool r.upgrade, strAtom r.method, ofOptJson r.parameters]

def parseReq : Sx → Option Request
  | .list [.atom "req", m, o, u, meth, p] => do
    let m ← asOptBool m
    let o ← asOptBool o
    let u ← asOptBool u
    let meth ← asStr meth
    let p ← asOptJson p
    pure { more := m, oneway := o, upgrade := u, method := meth, parameters := p }
  | _ => none

def parseOp : Sx → Option Op
  | .list [.atom k, i] => do
    let i ← asNat i
    match k with
    | "call" => some (.call i)
    | "upgrade" => some (.upgrade i)
    | "oneway" => some (.oneway i)
    | "more" => some (.more i)
    | "next" => some (.next i)
    | "recv" => some (.recv i)
    | _ => none
  | _ => none

/-- objects whose request does not serialize: `(x<method> unser)` -/
def unserObjs : Sx → List Nat
  | .list (.atom "objs" :: os) =>
    (os.zipIdx.filterMap fun (o, i) => match o with
      | Sx.list [_, Sx.atom "unser"] => some i
      | _ => none)
  | _ => []

def parseObjs : Sx → Option (List (String × Json))
  | .list (.atom "objs" :: os) => os.mapM fun o => match o with
    | Sx.list [m, Sx.atom "unser"] => (asStr m).map fun m => (m, Json.null)
    -- a call made through the typed service client: for the model an ordinary fresh call object
    | Sx.list [m, p, Sx.atom "svc"] => do
      let m ← asStr m
      let p ← toJson p
      pure (m, p)
    | Sx.list [m, p] => do
      let m ← asStr m
      let p ← toJson p
      pure (m, p)
    | _ => none
  | _ => none

def parseOps (tag : String) : Sx → Option (List Op)
  | .list (.atom t :: os) => if t == tag then os.mapM parseOp else none
  | _ => none

/-- a frame of the script; `(part b.. dec)` with no bytes is nothing at all -/
def parseFrame : Sx → Option (List Msg)
  | .list [.atom "f", _, .atom "bad"] => some [Msg.garbage]
  | .list [.atom "f", _, d] => (parseReply d).map fun r => [Msg.reply r]
  | .list [.atom "part", b, d] => do
    let b ← asBytes b
    if b.isEmpty then pure [] else
    match d with
    | .atom "bad" => pure [Msg.garbage]
    | d => (parseReply d).map fun r => [Msg.reply r]
  -- bytes of a reply that arrive before the read fails are lost with the failed read
  | .list [.atom "ioerr", .atom "t", _] => some [Msg.ioerr true]
  | .list [.atom "ioerr", .atom "f", _] => some [Msg.ioerr false]
  | .list [.atom "ioerr", .atom "t"] => some [Msg.ioerr true]
  | .list [.atom "ioerr", .atom "f"] => some [Msg.ioerr false]
  | _ => none

/-- the typed view of a frame, when the harness delivers one: (parameters-or-{} , typed value or none) -/
def typedOfFrame : Sx → Option (Json × Option Json)
  | .list [.atom "f", _, d, ty] | .list [.atom "part", _, d, ty] =>
    match parseReply d with
    | some r => some (r.parameters.getD (.obj []), match ty with | .atom "-" => none | x => toJson x)
    | none => none
  | _ => none

def stripTyped : Sx → Sx
  | .list [.atom "f", b, d, _] => .list [.atom "f", b, d]
  | .list [.atom "part", b, d, _] => .list [.atom "part", b, d]
  | x => x

/-- the decoder of a case: `MReply = Value`, or the table the real serde produced for the typed reply -/
def decoderOf (rtype : Sx) (groups : Sx) : Decoder :=
  match rtype with
  | .list [.atom "rtype", .atom "typed"] =>
    let frames : List Sx := match groups with
      | .list (.atom "groups" :: gs) => gs.flatMap fun g => match g with
        | Sx.list (Sx.atom "g" :: _ :: fs) => fs
        | _ => []
      | _ => []
    let table := frames.filterMap typedOfFrame
    fun j => match table.find? (fun e => e.1 == j) with
      | some e => e.2
      | none => none
  | _ => decValue

def parseGroups : Sx → Option (List (Bool × List Msg))
  | .list (.atom "groups" :: gs) => gs.mapM fun g => match g with
    | Sx.list (Sx.atom "g" :: Sx.atom c :: fs) => do
      -- `(cuts n*)`: in which pieces the peer writes the group — of no concern to the model
      let fs := fs.filter fun f => match f with | Sx.list (Sx.atom "cuts" :: _) => false | _ => true
      let fs ← (fs.map stripTyped).mapM parseFrame
      pure (c == "t", fs.flatten)
    | _ => none
  | _ => none

def scriptPeer (groups : List (Bool × List Msg)) : Peer := fun log _ =>
  match groups[log.length + 1]? with
  | some (c, fs) => (fs, c)
  | none => ([], false)

/-- mirror of `echo_frames` of the harness -/
def echoPeer : Peer := fun _ rq =>
  if isOneway rq then ([], false) else
  let p := rq.parameters.getD .null
  let tok := (p.get? "token").getD .null
  let k : Nat := if wantsMore rq then (match p.get? "k" with | some (.int n) => n.toNat | _ => 0) else 0
  let conts := (List.range k).map fun i =>
    Msg.reply { continues := some true, parameters := some (.obj [("i", .int (Int.ofNat i)), ("token", tok)]) }
  let fin : Reply := match p.get? "err" with
    | some (.str name) => { error := some name, parameters := some (.obj [("i", .int (Int.ofNat k)), ("token", tok)]) }
    | _ => { parameters := some (.obj [("i", .int (Int.ofNat k)), ("token", tok)]) }
  (conts ++ [Msg.reply fin], false)

def obsSx (trace : List (Nat × Res)) (log : List Request) (slots : Option Conn) (blocked : Bool) : Sx :=
  .list [.atom "obs",
    .list (.atom "res" :: trace.map fun (t, r) => .list [.atom (toString t), ofRes r]),
    .list (.atom "log" :: log.map ofReq),
    (match slots with
     | some c => .list [.atom "slots", ofBool c.reader, ofBool c.writer]
     | none => .list [.atom "slots", .atom "-", .atom "-"]),
    ofBool blocked]

def mkObjs (objs : List (String × Json)) : List MCall := objs.map fun (m, p) => MCall.new m p

def runSeqCase (dec : Decoder) (objs : List (String × Json)) (ops : List Op) (groups : List (Bool × List Msg)) (wb : Option Nat)
    (unser : List Nat := []) : Sx :=
  let g0 : GState := {
    wire := { queue := ((groups[0]?).getD (false, [])).2, closed := ((groups[0]?).getD (false, [])).1, wbudget := wb },
    objs := (mkObjs objs).zipIdx.map (fun (m, i) => if unser.contains i then { m with unser := true } else m),
    progs := [ops] }
  let g := runSeq (scriptPeer groups) dec (2 * ops.length + 2) g0
  let blocked := (g.progs[0]?).getD [] != []
  obsSx g.trace g.wire.log (if blocked then none else some g.conn) blocked

def parseProgs : Sx → Option (List (List Op))
  | .list (.atom "progs" :: ps) => ps.mapM (parseOps "p")
  | _ => none

def runGatedCase (objs : List (String × Json)) (progs : List (List Op)) (sched : List Nat) : Sx :=
  let g0 : GState := { objs := mkObjs objs, progs := progs }
  let g := runSched echoPeer decValue g0 sched
  obsSx g.trace g.wire.log (some g.conn) false

def threadOfReq' (r : Request) : Option Nat := threadOfReq r

/-- free mode: any complete schedule gives the same per-thread view; the driver uses "one thread after the other" -/
def runFreeCase (objs : List (String × Json)) (progs : List (List Op)) : Sx :=
  let g0 : GState := { objs := mkObjs objs, progs := progs }
  let sched := (List.range progs.length).flatMap fun t => List.replicate (2 * ((progs[t]?).getD []).length + 2) t
  let g := runSched echoPeer decValue g0 sched
  let threads := (List.range progs.length).map fun t =>
    Sx.list ((g.trace.filter (·.1 == t)).map fun (_, r) => ofRes r)
  let logs := (List.range progs.length).map fun t =>
    Sx.list ((g.wire.log.filter fun r => threadOfReq r == some t).map ofReq)
  .list [.atom "free-obs", .list (.atom "threads" :: threads), .list (.atom "logs" :: logs),
         .list [.atom "slots", ofBool g.conn.reader, ofBool g.conn.writer], strAtom ""]

/-- mirror of the harness' `timed` scenario: A sends, B tries while A waits, A receives -/
def timedObjs (withhold : Nat) : List (String × Json) :=
  [("org.example.client.Slow", .obj [("delay", .int withhold), ("thread", .int 0), ("token", .str "A")]),
   ("org.example.client.Echo", .obj [("thread", .int 1), ("token", .str "B")])]

def runTimedCase (withhold : Nat) : Sx :=
  let g0 : GState := { objs := mkObjs (timedObjs withhold), progs := [[.call 0], [.call 1]] }
  let g := runSched echoPeer decValue g0 [0, 1, 0]
  let resOf (t : Nat) : Sx := match g.trace.find? (·.1 == t) with | some (_, r) => ofRes r | none => .atom "blocked"
  .list [.atom "timed-obs", .list [.atom "a", resOf 0], .list [.atom "b", resOf 1, .atom "fast"],
         .list (.atom "log" :: g.wire.log.map ofReq),
         .list [.atom "slots", ofBool g.conn.reader, ofBool g.conn.writer]]

partial def runCase : Sx → Option Sx
  | .list [.atom "kind", r] => do
    let r ← parseReply r
    pure (.list [.atom "kind-obs", ofKind (kindOf r)])
  | .list [.atom "seq", objsSx, ops, groups, wb] => do
    let objs ← parseObjs objsSx
    let ops ← parseOps "ops" ops
    let groups ← parseGroups groups
    let wb := asNat wb
    pure (runSeqCase decValue objs ops groups wb (unserObjs objsSx))
  | .list [.atom "seq", objsSx, ops, groupsSx, wb, rtype] => do
    let objs ← parseObjs objsSx
    let ops ← parseOps "ops" ops
    let groups ← parseGroups groupsSx
    let wb := asNat wb
    pure (runSeqCase (decoderOf rtype groupsSx) objs ops groups wb (unserObjs objsSx))
  | .list [.atom "seq2", a, b] => do
    let oa ← runCase a
    let ob ← runCase b
    pure (.list [.atom "obs2", oa, ob])
  | .list [.atom "gated", objs, progs, .list (.atom "sched" :: ts)] => do
    let objs ← parseObjs objs
    let progs ← parseProgs progs
    let ts ← ts.mapM asNat
    pure (runGatedCase objs progs ts)
  | .list [.atom "free", objs, progs, _] => do
    let objs ← parseObjs objs
    let progs ← parseProgs progs
    pure (runFreeCase objs progs)
  | .list [.atom "timed", w, _] => (asNat w).map runTimedCase
  | _ => none

/-! ### predicate glue -/

def parseTrace (l : List Sx) : Option (List (Nat × Res)) :=
  l.mapM fun e => match e with
    | Sx.list [t, r] => do
      let t ← asNat t
      let r ← parseRes r
      pure (t, r)
    | _ => none

def parseLog (l : List Sx) : List Request × Bool :=
  l.foldr (fun x (acc : List Request × Bool) =>
    match parseReq x with
    | some r => (r :: acc.1, acc.2)
    | none => (acc.1, true)) ([], false)

def parseSlots : Sx → Option (Bool × Bool)
  | .list [.atom "slots", .atom r, .atom w] =>
    if r == "-" || w == "-" then none else some (r == "t", w == "t")
  | _ => none

/-- has every stream that was started been read to its final reply? (thread cases, echo server) -/
def streamsDone (objs : List (String × Json)) (progs : List (List Op)) (per : List (List Res)) : Bool :=
  (List.range progs.length).all fun t =>
    let prog := (progs[t]?).getD []
    let rs := (per[t]?).getD []
    rs.length == prog.length &&
    ((prog.zip rs).all fun (op, r) =>
      match op, r with
      | .more i, .unit =>
        let k : Int := match (objs[i]?).bind (fun o => o.2.get? "k") with | some (.int n) => n | _ => 0
        (prog.zip rs).any fun (op', r') =>
          (op' == .next i || op' == .recv i) &&
          (match resPayload r' with | some p => idxOf p == some k | none => false)
      | _, _ => true)

partial def predCase (cs os : Sx) : Verdict :=
  match cs, os with
  | .list [.atom "seq2", a, b], .list [.atom "obs2", oa, ob] =>
    (match predCase a oa with
     | some r => some ("first-connection: " ++ r)
     | none => (predCase b ob).map fun r => "second-connection-after-a-failed-read-on-another-one: " ++ r)
  | .list [.atom "kind", r], .list [.atom "kind-obs", k] =>
    match parseReply r, parseKind k with
    | some r, some k =>
      (match expectedOutcome decValue r, r.error with
       | .err want, some _ => if k == want then none else some "error-kind-does-not-follow-from-the-error-name"
       | _, none => if k == .errorReply r then none else some "reply-without-error-not-kept-whole"
       | _, _ => some "internal")
    | _, _ => some "unparsable-kind-case"
  | .list (.atom "seq" :: objsSx :: ops :: groupsSx :: wb :: rt),
    .list [.atom "obs", .list (.atom "res" :: res), .list (.atom "log" :: log), slots, blocked] =>
    match parseObjs objsSx, parseOps "ops" ops, parseGroups groupsSx, parseTrace res with
    | some objs, some ops, some groups, some tr =>
      let (lg, raw) := parseLog log
      let dec : Decoder := match rt with | [r] => decoderOf r groupsSx | _ => decValue
      P_C07_seq { objs, ops, groups, wbudget := asNat wb, dec := dec, unser := unserObjs objsSx }
        { results := tr.map (·.2), log := lg, rawLog := raw, slots := parseSlots slots,
          blocked := (match blocked with | .atom "t" => true | _ => false) }
    | _, _, _, _ => some "unparsable-seq-case-or-observation"
  | .list [.atom "gated", objs, progs, _],
    .list [.atom "obs", .list (.atom "res" :: res), .list (.atom "log" :: log), slots, _] =>
    if res.any (fun r => match r with | .list [.atom "anomaly", a] => asStr a == some "stuck-in-operation" | _ => false) then
      some "call-on-a-busy-connection-blocked-instead-of-failing-with-busy (a thread's operation neither returned nor reached its read)"
    else if res.any (fun r => match r with | .list (.atom "anomaly" :: _) => true | _ => false) then
      some "a-thread-did-not-return-from-reading-its-reply"
    else
    match parseObjs objs, parseProgs progs, parseTrace res with
    | some objs, some progs, some tr =>
      let (lg, raw) := parseLog log
      let per := (List.range progs.length).map fun t => (tr.filter (·.1 == t)).map (·.2)
      P_C07_threads { objs, progs } false per lg raw (parseSlots slots) (streamsDone objs progs per)
    | _, _, _ => some "unparsable-gated-case-or-observation (anomaly?)"
  | .list [.atom "free", objs, progs, _],
    .list [.atom "free-obs", .list (.atom "threads" :: ths), .list (.atom "logs" :: logs), slots, anomaly] =>
    match parseObjs objs, parseProgs progs, ths.mapM (fun t => match t with | Sx.list l => l.mapM parseRes | _ => none) with
    | some objs, some progs, some per =>
      if (asStr anomaly).getD "?" != "" then some ("anomaly-" ++ (asStr anomaly).getD "?") else
      let parsed := logs.map fun l => match l with | Sx.list l => parseLog l | _ => ([], true)
      let lg := (parsed.map (·.1)).flatten
      let raw := parsed.any (·.2)
      P_C07_threads { objs, progs } true per lg raw (parseSlots slots) true
    | _, _, _ => some "unparsable-free-case-or-observation"
  | .list [.atom "timed", _, _], .list [.atom "timed-obs", .list [.atom "a", ra], .list [.atom "b", rb, speed], .list (.atom "log" :: log), slots] =>
    -- B calls while A's reply is withheld: B must be refused at once and must not have written anything
    let (lg, raw) := parseLog log
    if raw then some "server-received-bytes-that-are-not-a-request" else
    match parseRes rb with
    | some (.err .connectionBusy) =>
      if render speed != "fast" then some "call-on-a-busy-connection-blocked-instead-of-failing-with-busy"
      else if lg.length != 1 then some "busy-call-wrote-a-request"
      else (match parseRes ra with
        | some (.ok p) => if tokenOf p == some "A" then
            (match parseSlots slots with | some (true, true) => none | _ => some "connection-not-reusable-after-the-final-reply")
            else some "reply-delivered-to-a-call-that-did-not-request-it"
        | _ => some "outstanding-call-did-not-get-its-reply")
    | some _ =>
      if render speed != "fast" then some "call-on-a-busy-connection-blocked-instead-of-failing-with-busy"
      else some "call-on-a-busy-connection-did-not-fail-with-busy"
    | none => some "call-on-a-busy-connection-blocked-instead-of-failing-with-busy"
  | _, .list [.atom "timeout", _] => some "case-did-not-finish-within-the-deadline (an operation blocked instead of returning)"
  | _, .list (.atom "panic" :: _) => some "panic"
  | _, _ => some "unparsable-case-or-observation"

end ClientDrv

def clientLine (line : String) : String :=
  match parse line with
  | none => "(model-parse-error)"
  | some sx =>
    match ClientDrv.runCase sx with
    | none => "(model-case-error)"
    | some o => render o

def clientPred (prop caseLine obsLine : String) : String :=
  match parse caseLine, parse obsLine with
  | some cs, some os =>
    if prop == "C07" || prop == "C04" || prop == "C05" then
      if (obsLine.splitOn "(other ").length > 1 then
        "fail operation-panicked-or-failed-with-an-error-kind-outside-the-client-model"
      else
      match ClientDrv.predCase cs os with
      | none => "ok"
      | some r => "fail " ++ r
    else "fail unknown-property"
  | _, _ => "fail unparsable-line"

end VV
