/-
Driver.PoolSuite — suite `pool`: replay a schedule through Model.Pool and print
the same observation as harness/src/suites/pool.rs.
-/
import Driver.Sx
import VarlinkVerif.Model.Pool
import VarlinkVerif.Pred.Pool

namespace VV
open Sx

def parsePStep : Sx → Option PStep
  | .atom "E" => some .enq
  | .atom "G" => some .grow
  | .atom "D" => some .deq
  | .atom "P" => some .drop
  | .list [.atom "S", j] => (asNat j).map .start
  | .list [.atom "F", j] => (asNat j).map .finish
  | .list [.atom "X", j] => (asNat j).map .dec
  | .list [.atom "W", _] => some .idleGap
  | _ => none

structure PoolCase where
  initial : Nat
  max : Nat
  steps : List PStep

def parsePoolCase : Sx → Option PoolCase
  | .list [.atom "pool", i, m, .list (.atom "steps" :: ss)] => do
    let i ← asNat i
    let m ← asNat m
    let ss ← ss.mapM parsePStep
    pure { initial := i, max := m, steps := ss }
  | _ => none

def poolObsLine (c : PoolCase) : Sx :=
  let rec go (s : PoolSt) : List PStep → List Sx → PoolSt × List Sx
    | [], acc => (s, acc.reverse)
    | st :: rest, acc =>
      let en := Pool.enabled s st
      let s' := Pool.step s st
      go s' rest (.list [.atom "o", ofBool en, .atom (toString s'.busy), .atom (toString s'.workers.length),
                         .atom (toString (Pool.serving s'))] :: acc)
  let (s, obs) := go (Pool.init c.initial c.max) c.steps []
  -- after the schedule the harness lets everything run to completion and drops the pool:
  -- every enqueued job finishes and every worker is joined (C15_drain)
  .list (.atom "obs" :: obs ++ [.list [.atom "end", .atom (toString s.nextJob), .atom (toString s.nextJob), .atom "t"]])

def poolLine (line : String) : String :=
  match parse line with
  | none => "(model-parse-error)"
  | some sx =>
    match parsePoolCase sx with
    | none => "(model-case-error)"
    | some c => render (poolObsLine c)

def parsePoolObs : Sx → Option PoolObs
  | .list (.atom "obs" :: items) =>
    let step (acc : PoolObs) (x : Sx) : PoolObs :=
      match x with
      | .list [.atom "o", e, b, w, r] =>
        match asOptBool e, asNat b, asNat w, asNat r with
        | some (some e), some b, some w, some r =>
          { acc with steps := acc.steps ++ [{ enabled := e, busy := b, workers := w, running := r }] }
        | _, _, _, _ => { acc with timedOut := true }
      | .list [.atom "timeout"] => { acc with timedOut := true }
      | .list [.atom "end", f, n, j] =>
        match asNat f, asNat n, asOptBool j with
        | some f, some n, some (some j) => { acc with finished := f, enqueued := n, joined := j }
        | _, _, _ => { acc with timedOut := true }
      | _ => { acc with timedOut := true }
    some (items.foldl step { steps := [] })
  | .list (.atom "panic" :: _) => some { steps := [], timedOut := true }
  | _ => none

def poolPred (prop : String) (caseLine obsLine : String) : String :=
  match parse caseLine, parse obsLine with
  | some cs, some os =>
    match parsePoolCase cs, parsePoolObs os with
    | some c, some o =>
      let v : PVerdict :=
        match prop with
        | "C14" => P_C14 c.initial c.max c.steps o
        | "C15" => P_C15_drain o
        | _ => some "unknown-property"
      match v with
      | none => "ok"
      | some r => "fail " ++ r
    | _, _ => "fail unparsable-case-or-observation"
  | _, _ => "fail unparsable-line"

end VV
