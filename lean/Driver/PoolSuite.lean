/-
Driver.PoolSuite — suite `pool`: replay a schedule through Model.Pool and print
the same observation as harness/src/suites/pool.rs.
-/
import Driver.Sx
import VarlinkVerif.Model.Pool
import VarlinkVerif.Pred.Pool

namespace VV
open Sx

def parsePStep : Sx → Option PStep
  | .atom "E" => some .enq
  | .atom "G" => some .grow
  | .atom "D" => some .deq
  | .atom "P" => some .drop
  | .list [.atom "S", j] => (asNat j).map .start
  | .list [.atom "F", j] => (asNat j).map .finish
  | .list [.atom "X", j] => (asNat j).map .dec
  | .list [.atom "W", _] => some .idleGap
  | _ => none

structure PoolCase where
  initial : Nat
  max : Nat
  steps : List PStep

def parsePoolCase : Sx → Option PoolCase
  | .list [.atom "pool", i, m, .list (.atom "steps" :: ss)] => do
    let i ← asNat i
    let m ← asNat m
    let ss ← ss.mapM parsePStep
    pure { initial := i, max := m, steps := ss }
  | _ => none

def poolObsLine (c : PoolCase) : Sx :=
  let rec go (s : PoolSt) : List PStep → List Sx → PoolSt × List Sx
    | [], acc => (s, acc.reverse)
    | st :: rest, acc =>
      let en := Pool.enabled s st
      let s' := Pool.step s st
      go s' rest (.list [.atom "o", ofBool en, .atom (toString s'.busy), .atom (toString s'.workers.length),
                         .atom (toString (Pool.serving s'))] :: acc)
  let (s, obs) := go (Pool.init c.initial c.max) c.steps []
  -- after the schedule the harness lets everything run to completion and drops the pool:
  -- every enqueued job finishes and every worker is joined (C15_drain)
  .list (.atom "obs" :: obs ++ [.list [.atom "end", .atom (toString s.nextJob), .atom (toString s.nextJob), .atom "t"]])

/-- free-running bursts (`(pool-storm initial max k rounds)`): k ≤ max long-lived connections arrive back to
    back with nobody holding the threads at probe points; the model's answer is what the schedule
    `(E G)^k D^k (S 0) … (S k-1)` gives, round after round from the state in which all have finished -/
def stormModel (initial max k rounds : Nat) : Sx :=
  let burst : List PStep := (List.replicate k [PStep.enq, PStep.grow]).flatten ++ List.replicate k PStep.deq
  let rec round (s : PoolSt) : Nat → Nat → Sx
    | 0, _ => .list [.atom "storm", .atom "ok"]
    | n + 1, i =>
      let base := s.nextJob
      let ids := (List.range k).map (· + base)
      let s1 := (burst ++ ids.map PStep.start).foldl Pool.step s
      if Pool.serving s1 != k then .list [.atom "storm", .atom "stranded", .atom (toString i), .atom (toString (Pool.serving s1)), .atom (toString k)]
      else round ((ids.map PStep.finish ++ ids.map PStep.dec).foldl Pool.step s1) n (i + 1)
  round (Pool.init initial max) rounds 0

def poolLine (line : String) : String :=
  match parse line with
  | none => "(model-parse-error)"
  | some sx =>
    match sx with
    | .list [.atom "pool-storm", i, m, k, r] =>
      (match asNat i, asNat m, asNat k, asNat r with
       | some i, some m, some k, some r => render (stormModel i m k r)
       | _, _, _, _ => "(model-case-error)")
    | _ =>
    match parsePoolCase sx with
    | none => "(model-case-error)"
    | some c => render (poolObsLine c)

def parsePoolObs : Sx → Option PoolObs
  | .list (.atom "obs" :: items) =>
    let step (acc : PoolObs) (x : Sx) : PoolObs :=
      match x with
      | .list [.atom "o", e, b, w, r] =>
        match asOptBool e, asNat b, asNat w, asNat r with
        | some (some e), some b, some w, some r =>
          { acc with steps := acc.steps ++ [{ enabled := e, busy := b, workers := w, running := r }] }
        | _, _, _, _ => { acc with timedOut := true }
      | .list [.atom "timeout"] => { acc with timedOut := true }
      | .list [.atom "end", f, n, j] =>
        match asNat f, asNat n, asOptBool j with
        | some f, some n, some (some j) => { acc with finished := f, enqueued := n, joined := j }
        | _, _, _ => { acc with timedOut := true }
      | _ => { acc with timedOut := true }
    some (items.foldl step { steps := [] })
  | .list (.atom "panic" :: _) => some { steps := [], timedOut := true }
  | _ => none

def poolPred (prop : String) (caseLine obsLine : String) : String :=
  match parse caseLine, parse obsLine with
  | some (.list (.atom "pool-storm" :: _)), some os =>
    (match os with
     | .list [.atom "storm", .atom "ok"] => "ok"
     | .list (.atom "storm" :: .atom "stranded" :: _) =>
       if prop == "C14" then "fail accepted-connection-not-served-although-fewer-than-max-are-in-service (free-running burst)"
       else "ok"
     | _ => "fail unparsable-case-or-observation")
  | some cs, some os =>
    match parsePoolCase cs, parsePoolObs os with
    | some c, some o =>
      let v : PVerdict :=
        match prop with
        | "C14" => P_C14 c.initial c.max c.steps o
        | "C15" => P_C15_drain o
        | _ => some "unknown-property"
      match v with
      | none => "ok"
      | some r => "fail " ++ r
    | _, _ => "fail unparsable-case-or-observation"
  | _, _ => "fail unparsable-line"

end VV
