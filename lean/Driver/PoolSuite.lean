/-
Driver.PoolSuite — suite `pool` (stub: replaced by the owner of the suite).
Must define `poolLine : String → String` (case line ↦ model observation line) and
`poolPred : String → String → String → String` (property id, case line, implementation
observation line ↦ "ok" | "fail <reason>").
-/
import Driver.Sx

namespace VV

def poolLine (_line : String) : String := "(stub)"

def poolPred (_prop _caseLine _obsLine : String) : String := "fail stub-suite"

end VV
