import VarlinkVerif.Model.Json
import VarlinkVerif.Model.Wire
