import Driver.WireSuite

open VV

partial def loop (h : IO.FS.Stream) (f : String → String) : IO Unit := do
  let line ← h.getLine
  if line.isEmpty then return ()
  IO.println (f line)
  loop h f

def predFiles (f : String → String → String) (casesPath obsPath : String) : IO Unit := do
  let cases ← IO.FS.lines casesPath
  let obs ← IO.FS.lines obsPath
  for i in [0:cases.size] do
    IO.println (f cases[i]! (obs[i]?.getD ""))

def main (args : List String) : IO UInt32 := do
  let stdin ← IO.getStdin
  match args with
  | ["run", "wire"] => loop stdin wireLine; return 0
  | ["pred", "wire", prop, casesPath, obsPath] => predFiles (wirePred prop) casesPath obsPath; return 0
  | _ =>
    IO.eprintln "usage: vmodel run <suite> < cases | vmodel pred <suite> <Cxx> <cases-file> <obs-file>"
    return 2
