import Driver.WireSuite
import Driver.ClientSuite
import Driver.IdlSuite
import Driver.FmtSuite
import Driver.GenSuite
import Driver.SerdeSuite
import Driver.PoolSuite
import Driver.ListenSuite
import Driver.AddrSuite
import Driver.ProxySuite
import Driver.CertSuite
import Driver.CliSuite
import Driver.JsonTextSuite

open VV

partial def loop (h : IO.FS.Stream) (f : String → String) : IO Unit := do
  let line ← h.getLine
  if line.isEmpty then return ()
  IO.println (f line)
  loop h f

def predFiles (f : String → String → String) (casesPath obsPath : String) : IO Unit := do
  let cases ← IO.FS.lines casesPath
  let obs ← IO.FS.lines obsPath
  for i in [0:cases.size] do
    IO.println (f cases[i]! (obs[i]?.getD ""))

def lineFn : String → Option (String → String)
  | "wire" => some wireLine
  | "client" => some clientLine
  | "idl" => some idlLine
  | "fmt" => some fmtLine
  | "gen" => some genLine
  | "serde" => some serdeLine
  | "pool" => some poolLine
  | "listen" => some listenLine
  | "addr" => some addrLine
  | "proxy" => some proxyLine
  | "cert" => some certLine
  | "cli" => some cliLine
  | "jsontext" => some jsontextLine
  | _ => none

def predFn : String → Option (String → String → String → String)
  | "wire" => some wirePred
  | "client" => some clientPred
  | "idl" => some idlPred
  | "fmt" => some fmtPred
  | "gen" => some genPred
  | "serde" => some serdePred
  | "pool" => some poolPred
  | "listen" => some listenPred
  | "addr" => some addrPred
  | "proxy" => some proxyPred
  | "cert" => some certPred
  | "cli" => some cliPred
  | "jsontext" => some jsontextPred
  | _ => none

def main (args : List String) : IO UInt32 := do
  let stdin ← IO.getStdin
  match args with
  | ["run", suite] =>
    match lineFn suite with
    | some f => loop stdin f; return 0
    | none => IO.eprintln s!"unknown suite {suite}"; return 2
  | ["pred", suite, prop, casesPath, obsPath] =>
    match predFn suite with
    | some f => predFiles (f prop) casesPath obsPath; return 0
    | none => IO.eprintln s!"unknown suite {suite}"; return 2
  | _ =>
    IO.eprintln "usage: vmodel run <suite> < cases | vmodel pred <suite> <Cxx> <cases-file> <obs-file>"
    return 2
