import Driver.WireSuite

open VV

partial def loop (h : IO.FS.Stream) (f : String → String) : IO Unit := do
  let line ← h.getLine
  if line.isEmpty then return ()
  IO.println (f line)
  loop h f

def main (args : List String) : IO UInt32 := do
  let stdin ← IO.getStdin
  match args with
  | ["run", "wire"] => loop stdin wireLine; return 0
  | _ =>
    IO.eprintln "usage: vmodel run <suite> | vmodel pred <Cxx>   (cases on stdin, one per line)"
    return 2
