def hello := "world"
