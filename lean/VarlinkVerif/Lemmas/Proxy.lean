/-
Lemmas.Proxy — the specification side of C18 (`idealRun`: what a client observes
when it talks to the services directly) and the invariants of the bridge's
routing state used by Props/C18.
-/
import VarlinkVerif.Model.Proxy
import VarlinkVerif.Props.C04

namespace VV
namespace Proxy

/-- **Specification**: the reply groups a client observes when it talks to the
    services *directly* — one connection per service address, each request sent to
    the service its interface resolves to at that moment (`k` counts the lookups),
    `GetInfo` sent to the configured resolver — and unknown interfaces / methods
    without a dot answered with the standard `InterfaceNotFound` while the session
    goes on.  `dead` lists the addresses whose direct connection has been closed
    by the service or upgraded. -/
def idealRun (w : World) (resolverAddr : String) : Nat → List String → List Request → List (List Reply)
  | _, _, [] => []
  | k, dead, r0 :: rs =>
    let r := rewrite r0
    match selectIface r with
    | .noDot => localReply r (errInterfaceNotFound r.method) :: idealRun w resolverAddr k dead rs
    | .badArgs =>
      (if r.parameters.isNone then localReply r (errInvalidParameter "parameters") else []) ::
        idealRun w resolverAddr k dead rs
    | .iface i =>
      match (resolveAddr w resolverAddr k i).bind (fun a => (w.svcAt a).map fun s => (a, s)) with
      | none => localReply r (errInterfaceNotFound i) :: idealRun w resolverAddr (k + 1) dead rs
      | some (a, svc) =>
        if dead.contains a then [] :: idealRun w resolverAddr (k + 1) dead rs
        else
          let res := callOne w.consts svc r
          res.out :: idealRun w resolverAddr (k + 1)
            (if !res.ok || res.upgraded.isSome then a :: dead else dead) rs

/-- the resolver's answers do not change while the bridge runs -/
def StaticResolver (w : World) : Prop := ∀ k k' i, w.resolve k i = w.resolve k' i

/-- the service answers with `continues`-marked replies followed by exactly one final reply -/
def Final (out : List Reply) : Prop := forwardReplies out = (out, true)

/-- the hypotheses of `C18_transparent_partial` for one request -/
def Good (w : World) (r0 : Request) : Prop :=
  ∃ i a svc, selectIface (rewrite r0) = .iface i ∧ i ≠ "" ∧
    resolveAddr w fixedResolverAddr 0 i = some a ∧ w.svcAt a = some svc ∧
    (rewrite r0).upgrade ≠ some true ∧
    (callOne w.consts svc (rewrite r0)).ok = true ∧
    (callOne w.consts svc (rewrite r0)).upgraded = none ∧
    (isOneway (rewrite r0) = true ∨ Final (callOne w.consts svc (rewrite r0)).out)

/-- address of the service a request is for -/
def addrOf (w : World) (r0 : Request) : Option String :=
  (target w fixedResolverAddr 0 r0).map (·.1)

/-- the reply group of the direct call -/
def expectedGroup (w : World) (r0 : Request) : List Reply :=
  match target w fixedResolverAddr 0 r0 with
  | some (_, s) => (callOne w.consts s (rewrite r0)).out
  | none => []

/-- the cache is coherent: it holds the address the cached interface resolves to -/
def Coherent (w : World) (st : St) : Prop :=
  st.lastIface = "" ∨ resolveAddr w fixedResolverAddr 0 st.lastIface = some st.address

theorem resolveAddr_static (w : World) (hs : StaticResolver w) (ra : String) (k : Nat) (i : String) :
    resolveAddr w ra k i = resolveAddr w ra 0 i := by
  unfold resolveAddr
  split
  · rfl
  · exact hs k 0 i

theorem target_of_good {w : World} {r0 : Request} {i a : String} {svc : Service}
    (h1 : selectIface (rewrite r0) = .iface i) (h2 : resolveAddr w fixedResolverAddr 0 i = some a)
    (h3 : w.svcAt a = some svc) : target w fixedResolverAddr 0 r0 = some (a, svc) := by
  simp [target, h1, h2, h3]

/-- one loop iteration under the hypotheses: the request is forwarded to the
    service it resolves to, exactly the service's replies come back, the loop
    goes on and the cache stays coherent -/
theorem step_good (w : World) (hs : StaticResolver w) (st : St) (hc : Coherent w st) (r0 : Request)
    (hg : Good w r0) :
    ∃ st' a svc, target w fixedResolverAddr 0 r0 = some (a, svc) ∧
      step w st r0 = .next (callOne w.consts svc (rewrite r0)).out st' [(a, rewrite r0)] ∧ Coherent w st' := by
  obtain ⟨i, a, svc, hsel, hne, hres, hsvc, hup, hok, hnu, hfin⟩ := hg
  -- routing
  have hroute : ∃ st', route w st i = some (a, st') ∧ Coherent w st' := by
    unfold route
    by_cases h1 : (i == st.lastIface) = true
    · have e : i = st.lastIface := by simpa using h1
      rw [if_pos h1]
      refine ⟨st, ?_, hc⟩
      rcases hc with h0 | h0
      · exact absurd (e.trans h0) hne
      · rw [← e, hres] at h0
        simp only [Option.some.injEq] at h0
        rw [h0]
    · rw [if_neg h1]
      by_cases h2 : (i == resolverIfaceName) = true
      · rw [if_pos h2]
        have ha : a = fixedResolverAddr := by
          unfold resolveAddr at hres
          rw [if_pos h2] at hres
          exact (Option.some.inj hres).symm
        refine ⟨_, by rw [ha], Or.inr ?_⟩
        show resolveAddr w fixedResolverAddr 0 i = some fixedResolverAddr
        rw [hres, ha]
      · rw [if_neg h2]
        have hr : w.resolve st.nResolve i = some a := by
          have := hres
          unfold resolveAddr at this
          rw [if_neg h2] at this
          rw [hs st.nResolve 0 i]; exact this
        rw [hr]
        exact ⟨_, rfl, Or.inr hres⟩
  obtain ⟨st', hr, hc'⟩ := hroute
  refine ⟨st', a, svc, target_of_good hsel hres hsvc, ?_, hc'⟩
  unfold step
  simp only [hsel, hr, hsvc]
  by_cases how : isOneway (rewrite r0) = true
  · rw [if_pos how, C04_no_reply_for_oneway w.consts svc (rewrite r0) how]
  · rw [if_neg how]
    have hfin' : Final (callOne w.consts svc (rewrite r0)).out := by
      rcases hfin with h | h
      · exact absurd h how
      · exact h
    have h1 : (!(callOne w.consts svc (rewrite r0)).ok && (callOne w.consts svc (rewrite r0)).out != [] &&
        w.hupWins (rewrite r0)) = false := by simp [hok]
    rw [h1]
    have h2 : ((rewrite r0).upgrade == some true) = false := by
      cases hu : (rewrite r0).upgrade with
      | none => rfl
      | some b => cases b with
        | false => rfl
        | true => exact absurd hu hup
    simp only [Bool.false_eq_true, if_false, h2]
    unfold Final at hfin'
    rw [hfin']
    simp

theorem run_good (w : World) (hs : StaticResolver w) :
    ∀ (rs : List Request) (st : St), Coherent w st → (∀ r ∈ rs, Good w r) →
      (run w st (rs.map .req)).status = .eof ∧
      (run w st (rs.map .req)).consumed = rs.length ∧
      (run w st (rs.map .req)).groups = rs.map (expectedGroup w) ∧
      (run w st (rs.map .req)).sent = rs.filterMap (fun r => (addrOf w r).map fun a => (a, rewrite r)) := by
  intro rs
  induction rs with
  | nil => intro st _ _; simp [run]
  | cons r rs ih =>
    intro st hc hg
    obtain ⟨st', a, svc, ht, hstep, hc'⟩ := step_good w hs st hc r (hg r (by simp))
    have := ih st' hc' (fun x hx => hg x (by simp [hx]))
    obtain ⟨i1, i2, i3, i4⟩ := this
    simp only [List.map_cons, run, hstep]
    refine ⟨i1, by simp [i2], ?_, ?_⟩
    · simp [i3, expectedGroup, ht]
    · simp [i4, addrOf, ht]

/-- a direct connection on which every call returns `Ok` without upgrading answers every request -/
theorem serve_all_ok (c : Consts) (svc : Service) :
    ∀ rs : List Request, (∀ r ∈ rs, (callOne c svc r).ok = true ∧ (callOne c svc r).upgraded = none) →
      (serve c svc (rs.map .req)).status = .eof ∧
      (serve c svc (rs.map .req)).groups = rs.map (fun r => (callOne c svc r).out) := by
  intro rs
  induction rs with
  | nil => intro _; simp [serve]
  | cons r rs ih =>
    intro h
    have hr := h r (by simp)
    have := ih (fun x hx => h x (by simp [hx]))
    simp only [List.map_cons, serve, hr.1, hr.2]
    simp [this.1, this.2]

/-- under the hypotheses nothing ever dies, so the specification is the list of direct groups -/
theorem idealRun_good (w : World) (hs : StaticResolver w) :
    ∀ (rs : List Request) (k : Nat), (∀ r ∈ rs, Good w r) →
      idealRun w fixedResolverAddr k [] rs = rs.map (expectedGroup w) := by
  intro rs
  induction rs with
  | nil => intro _ _; rfl
  | cons r rs ih =>
    intro k hg
    obtain ⟨i, a, svc, hsel, _, hres, hsvc, _, hok, hnu, _⟩ := hg r (by simp)
    have ht := target_of_good hsel hres hsvc
    have hrk : resolveAddr w fixedResolverAddr k i = some a := by
      rw [resolveAddr_static w hs]; exact hres
    simp only [idealRun, hsel, hrk, Option.bind_some, hsvc, Option.map_some, List.map_cons]
    simp only [List.contains_nil, Bool.false_eq_true, if_false, hok, hnu]
    simp only [Bool.not_true, Option.isSome_none, Bool.or_self, Bool.false_eq_true, if_false]
    rw [ih (k + 1) (fun x hx => hg x (by simp [hx]))]
    simp [expectedGroup, ht]

theorem copyLoop_eq_flatten (l : List Bytes) : copyLoop l = l.flatten := by
  induction l with
  | nil => rfl
  | cons c cs ih => simp [copyLoop, ih]

end Proxy
end VV
