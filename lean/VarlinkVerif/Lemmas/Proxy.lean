/-
Lemmas.Proxy — the specification side of C18 (`idealRun`: what a client observes
when it talks to the services directly), the invariants of the bridge's routing
state used by Props/C18, and the refinement of the frame-level router by the
byte-level loop.
-/
import VarlinkVerif.Model.Proxy
import VarlinkVerif.Props.C04

namespace VV
namespace Proxy

/-- **Specification**: the reply groups a client observes when it talks to the
    services *directly* — one connection per service address, each request sent to
    the service its interface resolves to at that moment (`k` counts the lookups),
    `GetInfo` sent to the configured resolver — and unknown interfaces / methods
    without a dot answered with the standard `InterfaceNotFound` while the session
    goes on.  `dead` lists the addresses whose direct connection has been closed
    by the service or upgraded. -/
def idealRun (w : World) : Nat → List String → List Request → List (List Reply)
  | _, _, [] => []
  | k, dead, r0 :: rs =>
    let r := rewrite r0
    match selectIface r with
    | .noDot => localReply r (errInterfaceNotFound r.method) :: idealRun w k dead rs
    | .badArgs =>
      (if r.parameters.isNone then localReply r (errInvalidParameter "parameters") else []) ::
        idealRun w k dead rs
    | .iface i =>
      match (resolveAddr w k i).bind (fun a => (w.svcAt a).map fun s => (a, s)) with
      | none => localReply r (errInterfaceNotFound i) :: idealRun w (k + 1) dead rs
      | some (a, svc) =>
        if dead.contains a then [] :: idealRun w (k + 1) dead rs
        else
          let res := callOne w.consts svc r
          res.out :: idealRun w (k + 1)
            (if !res.ok || res.upgraded.isSome then a :: dead else dead) rs

/-- the resolver's answers do not change while the bridge runs -/
def StaticResolver (w : World) : Prop := ∀ k k' i, w.resolve k i = w.resolve k' i

/-- the service answers with `continues`-marked replies followed by exactly one final reply -/
def Final (out : List Reply) : Prop := forwardReplies out = (out, true)

/-- the hypotheses of `C18_transparent_partial` for one request: nothing about dots,
    resolution, reachability or the resolver's address — only that a
    `GetInterfaceDescription` is well typed when it has parameters, that the
    interface name is not empty, and that a service that *is* reached gets no
    `upgrade` flag, answers properly and keeps the connection -/
def Good (w : World) (r0 : Request) : Prop :=
  match selectIface (rewrite r0) with
  | .noDot => True
  | .badArgs => (rewrite r0).parameters = none
  | .iface i =>
    i ≠ "" ∧
    ∀ a svc, resolveAddr w 0 i = some a → w.svcAt a = some svc →
      (rewrite r0).upgrade ≠ some true ∧
      (callOne w.consts svc (rewrite r0)).ok = true ∧
      (callOne w.consts svc (rewrite r0)).upgraded = none ∧
      (isOneway (rewrite r0) = true ∨ Final (callOne w.consts svc (rewrite r0)).out)

/-- address of the service a request is for (if it can be routed at all) -/
def addrOf (w : World) (r0 : Request) : Option String := (target w 0 r0).map (·.1)

/-- what the bridge forwards for a request: the rewritten request to the resolved address, or nothing -/
def sentOf (w : World) (r0 : Request) : List (String × Request) :=
  match target w 0 r0 with
  | some (a, _) => [(a, rewrite r0)]
  | none => []

/-- the reply group of one request when no connection has died -/
def expectedGroup (w : World) (r0 : Request) : List Reply :=
  match selectIface (rewrite r0) with
  | .noDot => localReply (rewrite r0) (errInterfaceNotFound (rewrite r0).method)
  | .badArgs =>
    if (rewrite r0).parameters.isNone then localReply (rewrite r0) (errInvalidParameter "parameters") else []
  | .iface i =>
    match target w 0 r0 with
    | some (_, s) => (callOne w.consts s (rewrite r0)).out
    | none => localReply (rewrite r0) (errInterfaceNotFound i)

/-- the cache is coherent: it holds the address the cached interface resolves to -/
def Coherent (w : World) (st : St) : Prop :=
  st.lastIface = "" ∨ resolveAddr w 0 st.lastIface = some st.address

theorem resolveAddr_static (w : World) (hs : StaticResolver w) (k : Nat) (i : String) :
    resolveAddr w k i = resolveAddr w 0 i := by
  unfold resolveAddr
  split
  · rfl
  · exact hs k 0 i

theorem route_spec (w : World) (hs : StaticResolver w) (st : St)
    (hc : Coherent w st) (i : String) (hne : i ≠ "") :
    (route w st i).1 = resolveAddr w 0 i ∧ Coherent w (route w st i).2 := by
  unfold route
  by_cases h1 : (i == st.lastIface) = true
  · have e : i = st.lastIface := by simpa using h1
    rw [if_pos h1]
    rcases hc with h0 | h0
    · exact absurd (e.trans h0) hne
    · exact ⟨by rw [e, h0], Or.inr h0⟩
  · rw [if_neg h1]
    by_cases h2 : (i == resolverIfaceName) = true
    · rw [if_pos h2]
      have hr : resolveAddr w 0 i = some w.resolverAddr := by unfold resolveAddr; rw [if_pos h2]
      exact ⟨hr.symm, Or.inr hr⟩
    · rw [if_neg h2]
      have hr : resolveAddr w 0 i = w.resolve st.nResolve i := by
        unfold resolveAddr; rw [if_neg h2]; exact hs 0 st.nResolve i
      cases hres : w.resolve st.nResolve i with
      | none =>
        refine ⟨by rw [hr, hres], ?_⟩
        rcases hc with h0 | h0
        · exact Or.inl h0
        · exact Or.inr h0
      | some a =>
        refine ⟨by rw [hr, hres], Or.inr ?_⟩
        show resolveAddr w 0 i = some a
        rw [hr, hres]

/-- one request through the loop is one step of the specification: the loop goes on, the
    request is forwarded (unchanged but for the `GetInfo` redirection) exactly when it can be
    routed, the replies are the expected group, the cache stays coherent -/
theorem step_good (w : World) (hs : StaticResolver w) (st : St)
    (hc : Coherent w st) (r0 : Request) (hg : Good w r0) (k : Nat) (rs : List Request) :
    ∃ st', step w st r0 = .next (expectedGroup w r0) st' (sentOf w r0) ∧ Coherent w st' ∧
      ∃ k', idealRun w k [] (r0 :: rs) = expectedGroup w r0 :: idealRun w k' [] rs := by
  unfold Good at hg
  unfold step expectedGroup sentOf target
  cases hsel : selectIface (rewrite r0) with
  | noDot =>
    refine ⟨st, ?_, hc, k, ?_⟩
    · simp only [hsel]
    · simp [idealRun, hsel]
  | badArgs =>
    rw [hsel] at hg
    simp only at hg
    refine ⟨st, ?_, hc, k, ?_⟩
    · simp [hsel, hg]
    · simp [idealRun, hsel, hg]
  | iface i =>
    rw [hsel] at hg
    obtain ⟨hne, hsvc⟩ := hg
    obtain ⟨hr1, hr2⟩ := route_spec w hs st hc i hne
    have hk : resolveAddr w k i = resolveAddr w 0 i := resolveAddr_static w hs k i
    cases hrf : route w st i with
    | mk oa st' =>
      rw [hrf] at hr1 hr2
      simp only at hr1 hr2
      cases oa with
      | none =>
        refine ⟨st', ?_, hr2, k + 1, ?_⟩
        · simp only [hsel, hrf, ← hr1, Option.bind_none]
        · simp [idealRun, hsel, hk, ← hr1]
      | some a =>
        cases hs' : w.svcAt a with
        | none =>
          refine ⟨st', ?_, hr2, k + 1, ?_⟩
          · simp only [hsel, hrf, hs', ← hr1, Option.bind_some, Option.map_none]
          · simp [idealRun, hsel, hk, ← hr1, hs']
        | some svc =>
          obtain ⟨hup, hok, hnu, hfin⟩ := hsvc a svc hr1.symm hs'
          have hideal : idealRun w k [] (r0 :: rs) =
              (callOne w.consts svc (rewrite r0)).out :: idealRun w (k + 1) [] rs := by
            simp [idealRun, hsel, hk, ← hr1, hs', hok, hnu]
          refine ⟨st', ?_, hr2, k + 1, ?_⟩
          · simp only [hsel, hrf, hs', ← hr1, Option.bind_some, Option.map_some]
            by_cases how : isOneway (rewrite r0) = true
            · simp only [how, if_true]
              rw [C04_no_reply_for_oneway w.consts svc (rewrite r0) how]
            · have hfin' : forwardReplies (callOne w.consts svc (rewrite r0)).out =
                  ((callOne w.consts svc (rewrite r0)).out, true) := by
                rcases hfin with h | h
                · exact absurd h how
                · exact h
              have h2 : ((rewrite r0).upgrade == some true) = false := by
                cases hu : (rewrite r0).upgrade with
                | none => rfl
                | some b => cases b with
                  | false => rfl
                  | true => exact absurd hu hup
              simp [how, h2, hfin']
          · simp only [hsel, ← hr1, hs', Option.bind_some, Option.map_some]
            exact hideal

theorem run_good (w : World) (hs : StaticResolver w) :
    ∀ (rs : List Request) (st : St) (k : Nat), Coherent w st → (∀ r ∈ rs, Good w r) →
      (run w st (rs.map .req)).status = .eof ∧
      (run w st (rs.map .req)).consumed = rs.length ∧
      (run w st (rs.map .req)).groups = rs.map (expectedGroup w) ∧
      (run w st (rs.map .req)).groups = idealRun w k [] rs ∧
      (run w st (rs.map .req)).sent = (rs.map (sentOf w)).flatten := by
  intro rs
  induction rs with
  | nil => intro st k _ _; simp [run, idealRun]
  | cons r rs ih =>
    intro st k hc hg
    obtain ⟨st', hstep, hc', k', hideal⟩ := step_good w hs st hc r (hg r (by simp)) k rs
    have := ih st' k' hc' (fun x hx => hg x (by simp [hx]))
    obtain ⟨i1, i2, i3, i4, i5⟩ := this
    simp only [List.map_cons, run, hstep]
    refine ⟨i1, by simp [i2], by simp [i3], by rw [hideal, ← i4], by simp [i5]⟩

/-- a direct connection on which every call returns `Ok` without upgrading answers every request -/
theorem serve_all_ok (c : Consts) (svc : Service) :
    ∀ rs : List Request, (∀ r ∈ rs, (callOne c svc r).ok = true ∧ (callOne c svc r).upgraded = none) →
      (serve c svc (rs.map .req)).status = .eof ∧
      (serve c svc (rs.map .req)).groups = rs.map (fun r => (callOne c svc r).out) := by
  intro rs
  induction rs with
  | nil => intro _; simp [serve]
  | cons r rs ih =>
    intro h
    have hr := h r (by simp)
    have := ih (fun x hx => h x (by simp [hx]))
    simp only [List.map_cons, serve, hr.1, hr.2]
    simp [this.1, this.2]

/-- a request that is routed to `a` reaches the service there, which keeps its connection -/
theorem good_routed (w : World) (r0 : Request) (hg : Good w r0) (a : String) (svc : Service)
    (ha : addrOf w r0 = some a) (hsvc : w.svcAt a = some svc) :
    (callOne w.consts svc (rewrite r0)).ok = true ∧ (callOne w.consts svc (rewrite r0)).upgraded = none ∧
    expectedGroup w r0 = (callOne w.consts svc (rewrite r0)).out := by
  unfold Good at hg
  unfold addrOf target at ha
  unfold expectedGroup target
  cases hsel : selectIface (rewrite r0) with
  | noDot => simp [hsel] at ha
  | badArgs => simp [hsel] at ha
  | iface i =>
    rw [hsel] at hg ha
    simp only at ha
    cases hr : resolveAddr w 0 i with
    | none => simp [hr] at ha
    | some a' =>
      cases hs' : w.svcAt a' with
      | none => simp [hr, hs'] at ha
      | some svc' =>
        have : a' = a := by simpa [hr, hs'] using ha
        subst this
        rw [hsvc] at hs'
        cases hs'
        obtain ⟨_, h⟩ := hg
        obtain ⟨_, hok, hnu, _⟩ := h a' svc hr hsvc
        simp [hr, hsvc, hok, hnu]

theorem copyLoop_eq_flatten (l : List Bytes) : copyLoop l = l.flatten := by
  induction l with
  | nil => rfl
  | cons c cs ih => simp [copyLoop, ih]

/-! ### the byte-level loop refines `run` on the frames of the stream -/

theorem clientFrames_eq (dec : Bytes → Frame) (total : Bytes) :
    clientFrames dec total =
      match splitNul total with
      | none => if total = [] then [] else [dec total.dropLast]
      | some (pre, post) => dec pre :: clientFrames dec post := by
  unfold clientFrames
  rw [frames_eq]
  cases splitNul total with
  | none => simp
  | some pq => simp

theorem bridgeLoop_spec (w : World) (dec : Bytes → Frame) :
    ∀ (fuel : Nat) (st : St) (rd : Rd), NoEmpty rd.reads →
      (rd.buf ++ rd.reads.flatten).length < fuel →
      let total := rd.buf ++ rd.reads.flatten
      let o := run w st (clientFrames dec total)
      let b := bridgeLoop w dec fuel st rd
      b.groups = o.groups ∧ b.sent = o.sent ∧ b.status = o.status ∧
      (∀ a i, o.status = .upgraded a i → b.buffered ++ b.rest.flatten = afterFrames o.consumed total) := by
  intro fuel
  induction fuel with
  | zero => intro st rd _ hlt; simp at hlt
  | succ fuel ih =>
    intro st rd hne hlt
    have hsp := readUntil_spec rd.reads hne rd.buf []
    simp only
    rw [clientFrames_eq]
    unfold bridgeLoop
    cases hs : splitNul (rd.buf ++ rd.reads.flatten) with
    | none =>
      rw [hs] at hsp
      simp only at hsp
      rw [hsp]
      simp only [List.nil_append]
      by_cases he : rd.buf ++ rd.reads.flatten = []
      · simp [he, run]
      · simp only [he, if_false]
        cases hd : dec (rd.buf ++ rd.reads.flatten).dropLast with
        | bad => simp [run]
        | req r =>
          cases hst : step w st r with
          | stop out status sent =>
            simp only [run, hst]
            refine ⟨by simp, by simp, by simp, ?_⟩
            intro a i hu
            simp [afterFrames, hs]
          | next out st' sent =>
            simp only [run, hst]
            refine ⟨by simp, by simp, by simp, ?_⟩
            intro a i hu
            cases hu
    | some pq =>
      obtain ⟨pre, post⟩ := pq
      rw [hs] at hsp
      obtain ⟨rd', e1, e2, e3⟩ := hsp
      rw [e1]
      simp only [List.nil_append]
      have hlen := splitNul_length hs
      cases hd : dec pre with
      | bad => simp [run]
      | req r =>
        cases hst : step w st r with
        | stop out status sent =>
          simp only [run, hst]
          refine ⟨by simp, by simp, by simp, ?_⟩
          intro a i _
          simp [afterFrames, hs, e2]
        | next out st' sent =>
          have hlt' : (rd'.buf ++ rd'.reads.flatten).length < fuel := by
            rw [e2]; omega
          have := ih st' rd' e3 hlt'
          simp only [e2] at this
          obtain ⟨g, sn, stt, t3⟩ := this
          simp only [run, hst]
          refine ⟨by simp [g], by simp [sn], by simp [stt], ?_⟩
          intro a i he
          have := t3 a i he
          simp only [afterFrames, hs]
          simpa using this

theorem bridge_spec (w : World) (dec : Bytes → Frame) (reads : List Bytes) (hne : NoEmpty reads) :
    let total := reads.flatten
    let o := run w {} (clientFrames dec total)
    let b := bridge w dec reads
    b.groups = o.groups ∧ b.sent = o.sent ∧ b.status = o.status ∧
    (∀ a i, o.status = .upgraded a i → b.buffered ++ b.rest.flatten = afterFrames o.consumed total) := by
  have := bridgeLoop_spec w dec (totalLen reads + 1) {} { buf := [], reads := reads } hne (by simp [totalLen])
  simpa [bridge] using this

end Proxy
end VV
