/-
Lemmas.Proxy — the specification side of C18 (`idealRun`: what a client observes
when it talks to the services directly) and the invariants of the bridge's
routing state used by Props/C18.
-/
import VarlinkVerif.Model.Proxy
import VarlinkVerif.Model.ProxyFixed
import VarlinkVerif.Props.C04

namespace VV
namespace Proxy

/-- **Specification**: the reply groups a client observes when it talks to the
    services *directly* — one connection per service address, each request sent to
    the service its interface resolves to at that moment (`k` counts the lookups),
    `GetInfo` sent to the configured resolver — and unknown interfaces / methods
    without a dot answered with the standard `InterfaceNotFound` while the session
    goes on.  `dead` lists the addresses whose direct connection has been closed
    by the service or upgraded. -/
def idealRun (w : World) (resolverAddr : String) : Nat → List String → List Request → List (List Reply)
  | _, _, [] => []
  | k, dead, r0 :: rs =>
    let r := rewrite r0
    match selectIface r with
    | .noDot => localReply r (errInterfaceNotFound r.method) :: idealRun w resolverAddr k dead rs
    | .badArgs =>
      (if r.parameters.isNone then localReply r (errInvalidParameter "parameters") else []) ::
        idealRun w resolverAddr k dead rs
    | .iface i =>
      match (resolveAddr w resolverAddr k i).bind (fun a => (w.svcAt a).map fun s => (a, s)) with
      | none => localReply r (errInterfaceNotFound i) :: idealRun w resolverAddr (k + 1) dead rs
      | some (a, svc) =>
        if dead.contains a then [] :: idealRun w resolverAddr (k + 1) dead rs
        else
          let res := callOne w.consts svc r
          res.out :: idealRun w resolverAddr (k + 1)
            (if !res.ok || res.upgraded.isSome then a :: dead else dead) rs

/-- the resolver's answers do not change while the bridge runs -/
def StaticResolver (w : World) : Prop := ∀ k k' i, w.resolve k i = w.resolve k' i

/-- the service answers with `continues`-marked replies followed by exactly one final reply -/
def Final (out : List Reply) : Prop := forwardReplies out = (out, true)

/-- the hypotheses of `C18_transparent_partial` for one request -/
def Good (w : World) (r0 : Request) : Prop :=
  ∃ i a svc, selectIface (rewrite r0) = .iface i ∧ i ≠ "" ∧
    resolveAddr w fixedResolverAddr 0 i = some a ∧ w.svcAt a = some svc ∧
    (rewrite r0).upgrade ≠ some true ∧
    (callOne w.consts svc (rewrite r0)).ok = true ∧
    (callOne w.consts svc (rewrite r0)).upgraded = none ∧
    (isOneway (rewrite r0) = true ∨ Final (callOne w.consts svc (rewrite r0)).out)

/-- address of the service a request is for -/
def addrOf (w : World) (r0 : Request) : Option String :=
  (target w fixedResolverAddr 0 r0).map (·.1)

/-- the reply group of the direct call -/
def expectedGroup (w : World) (r0 : Request) : List Reply :=
  match target w fixedResolverAddr 0 r0 with
  | some (_, s) => (callOne w.consts s (rewrite r0)).out
  | none => []

/-- the cache is coherent: it holds the address the cached interface resolves to -/
def Coherent (w : World) (st : St) : Prop :=
  st.lastIface = "" ∨ resolveAddr w fixedResolverAddr 0 st.lastIface = some st.address

theorem resolveAddr_static (w : World) (hs : StaticResolver w) (ra : String) (k : Nat) (i : String) :
    resolveAddr w ra k i = resolveAddr w ra 0 i := by
  unfold resolveAddr
  split
  · rfl
  · exact hs k 0 i

theorem target_of_good {w : World} {r0 : Request} {i a : String} {svc : Service}
    (h1 : selectIface (rewrite r0) = .iface i) (h2 : resolveAddr w fixedResolverAddr 0 i = some a)
    (h3 : w.svcAt a = some svc) : target w fixedResolverAddr 0 r0 = some (a, svc) := by
  simp [target, h1, h2, h3]

/-- one loop iteration under the hypotheses: the request is forwarded to the
    service it resolves to, exactly the service's replies come back, the loop
    goes on and the cache stays coherent -/
theorem step_good (w : World) (hs : StaticResolver w) (st : St) (hc : Coherent w st) (r0 : Request)
    (hg : Good w r0) :
    ∃ st' a svc, target w fixedResolverAddr 0 r0 = some (a, svc) ∧
      step w st r0 = .next (callOne w.consts svc (rewrite r0)).out st' [(a, rewrite r0)] ∧ Coherent w st' := by
  obtain ⟨i, a, svc, hsel, hne, hres, hsvc, hup, hok, hnu, hfin⟩ := hg
  -- routing
  have hroute : ∃ st', route w st i = some (a, st') ∧ Coherent w st' := by
    unfold route
    by_cases h1 : (i == st.lastIface) = true
    · have e : i = st.lastIface := by simpa using h1
      rw [if_pos h1]
      refine ⟨st, ?_, hc⟩
      rcases hc with h0 | h0
      · exact absurd (e.trans h0) hne
      · rw [← e, hres] at h0
        simp only [Option.some.injEq] at h0
        rw [h0]
    · rw [if_neg h1]
      by_cases h2 : (i == resolverIfaceName) = true
      · rw [if_pos h2]
        have ha : a = fixedResolverAddr := by
          unfold resolveAddr at hres
          rw [if_pos h2] at hres
          exact (Option.some.inj hres).symm
        refine ⟨_, by rw [ha], Or.inr ?_⟩
        show resolveAddr w fixedResolverAddr 0 i = some fixedResolverAddr
        rw [hres, ha]
      · rw [if_neg h2]
        have hr : w.resolve st.nResolve i = some a := by
          have := hres
          unfold resolveAddr at this
          rw [if_neg h2] at this
          rw [hs st.nResolve 0 i]; exact this
        rw [hr]
        exact ⟨_, rfl, Or.inr hres⟩
  obtain ⟨st', hr, hc'⟩ := hroute
  refine ⟨st', a, svc, target_of_good hsel hres hsvc, ?_, hc'⟩
  unfold step
  simp only [hsel, hr, hsvc]
  by_cases how : isOneway (rewrite r0) = true
  · rw [if_pos how, C04_no_reply_for_oneway w.consts svc (rewrite r0) how]
  · rw [if_neg how]
    have hfin' : Final (callOne w.consts svc (rewrite r0)).out := by
      rcases hfin with h | h
      · exact absurd h how
      · exact h
    have h1 : (!(callOne w.consts svc (rewrite r0)).ok && (callOne w.consts svc (rewrite r0)).out != [] &&
        w.hupWins (rewrite r0)) = false := by simp [hok]
    rw [h1]
    have h2 : ((rewrite r0).upgrade == some true) = false := by
      cases hu : (rewrite r0).upgrade with
      | none => rfl
      | some b => cases b with
        | false => rfl
        | true => exact absurd hu hup
    simp only [Bool.false_eq_true, if_false, h2]
    unfold Final at hfin'
    rw [hfin']
    simp

theorem run_good (w : World) (hs : StaticResolver w) :
    ∀ (rs : List Request) (st : St), Coherent w st → (∀ r ∈ rs, Good w r) →
      (run w st (rs.map .req)).status = .eof ∧
      (run w st (rs.map .req)).consumed = rs.length ∧
      (run w st (rs.map .req)).groups = rs.map (expectedGroup w) ∧
      (run w st (rs.map .req)).sent = rs.filterMap (fun r => (addrOf w r).map fun a => (a, rewrite r)) := by
  intro rs
  induction rs with
  | nil => intro st _ _; simp [run]
  | cons r rs ih =>
    intro st hc hg
    obtain ⟨st', a, svc, ht, hstep, hc'⟩ := step_good w hs st hc r (hg r (by simp))
    have := ih st' hc' (fun x hx => hg x (by simp [hx]))
    obtain ⟨i1, i2, i3, i4⟩ := this
    simp only [List.map_cons, run, hstep]
    refine ⟨i1, by simp [i2], ?_, ?_⟩
    · simp [i3, expectedGroup, ht]
    · simp [i4, addrOf, ht]

/-- a direct connection on which every call returns `Ok` without upgrading answers every request -/
theorem serve_all_ok (c : Consts) (svc : Service) :
    ∀ rs : List Request, (∀ r ∈ rs, (callOne c svc r).ok = true ∧ (callOne c svc r).upgraded = none) →
      (serve c svc (rs.map .req)).status = .eof ∧
      (serve c svc (rs.map .req)).groups = rs.map (fun r => (callOne c svc r).out) := by
  intro rs
  induction rs with
  | nil => intro _; simp [serve]
  | cons r rs ih =>
    intro h
    have hr := h r (by simp)
    have := ih (fun x hx => h x (by simp [hx]))
    simp only [List.map_cons, serve, hr.1, hr.2]
    simp [this.1, this.2]

/-- under the hypotheses nothing ever dies, so the specification is the list of direct groups -/
theorem idealRun_good (w : World) (hs : StaticResolver w) :
    ∀ (rs : List Request) (k : Nat), (∀ r ∈ rs, Good w r) →
      idealRun w fixedResolverAddr k [] rs = rs.map (expectedGroup w) := by
  intro rs
  induction rs with
  | nil => intro _ _; rfl
  | cons r rs ih =>
    intro k hg
    obtain ⟨i, a, svc, hsel, _, hres, hsvc, _, hok, hnu, _⟩ := hg r (by simp)
    have ht := target_of_good hsel hres hsvc
    have hrk : resolveAddr w fixedResolverAddr k i = some a := by
      rw [resolveAddr_static w hs]; exact hres
    simp only [idealRun, hsel, hrk, Option.bind_some, hsvc, Option.map_some, List.map_cons]
    simp only [List.contains_nil, Bool.false_eq_true, if_false, hok, hnu]
    simp only [Bool.not_true, Option.isSome_none, Bool.or_self, Bool.false_eq_true, if_false]
    rw [ih (k + 1) (fun x hx => hg x (by simp [hx]))]
    simp [expectedGroup, ht]

theorem copyLoop_eq_flatten (l : List Bytes) : copyLoop l = l.flatten := by
  induction l with
  | nil => rfl
  | cons c cs ih => simp [copyLoop, ih]

end Proxy
end VV

/-! ### the patched router (Model.ProxyFixed) -/

namespace VV
namespace Proxy

/-- hypotheses of `C18_transparent_after_patches` for one request: nothing about dots,
    resolution or reachability any more — only that a `GetInterfaceDescription` is
    well typed when it has parameters, that the interface name is not empty, and
    that a service that *is* reached answers properly and keeps the connection -/
def GoodFixed (w : World) (ra : String) (r0 : Request) : Prop :=
  match selectIface (rewrite r0) with
  | .noDot => True
  | .badArgs => (rewrite r0).parameters = none
  | .iface i =>
    i ≠ "" ∧
    ∀ a svc, resolveAddr w ra 0 i = some a → w.svcAt a = some svc →
      (rewrite r0).upgrade ≠ some true ∧
      (callOne w.consts svc (rewrite r0)).ok = true ∧
      (callOne w.consts svc (rewrite r0)).upgraded = none ∧
      (isOneway (rewrite r0) = true ∨ Final (callOne w.consts svc (rewrite r0)).out)

def CoherentFixed (w : World) (ra : String) (st : St) : Prop :=
  st.lastIface = "" ∨ resolveAddr w ra 0 st.lastIface = some st.address

theorem routeFixed_spec (w : World) (hs : StaticResolver w) (ra : String) (st : St)
    (hc : CoherentFixed w ra st) (i : String) (hne : i ≠ "") :
    (routeFixed w ra st i).1 = resolveAddr w ra 0 i ∧ CoherentFixed w ra (routeFixed w ra st i).2 := by
  unfold routeFixed
  by_cases h1 : (i == st.lastIface) = true
  · have e : i = st.lastIface := by simpa using h1
    rw [if_pos h1]
    rcases hc with h0 | h0
    · exact absurd (e.trans h0) hne
    · exact ⟨by rw [e, h0], Or.inr h0⟩
  · rw [if_neg h1]
    by_cases h2 : (i == resolverIfaceName) = true
    · rw [if_pos h2]
      have hr : resolveAddr w ra 0 i = some ra := by unfold resolveAddr; rw [if_pos h2]
      exact ⟨hr.symm, Or.inr hr⟩
    · rw [if_neg h2]
      have hr : resolveAddr w ra 0 i = w.resolve st.nResolve i := by
        unfold resolveAddr; rw [if_neg h2]; exact hs 0 st.nResolve i
      cases hres : w.resolve st.nResolve i with
      | none =>
        refine ⟨by rw [hr, hres], ?_⟩
        rcases hc with h0 | h0
        · exact Or.inl h0
        · exact Or.inr h0
      | some a =>
        refine ⟨by rw [hr, hres], Or.inr ?_⟩
        show resolveAddr w ra 0 i = some a
        rw [hr, hres]

/-- one request through the patched loop is one step of the specification -/
theorem stepFixed_good (w : World) (hs : StaticResolver w) (ra : String) (st : St)
    (hc : CoherentFixed w ra st) (r0 : Request) (hg : GoodFixed w ra r0) (k : Nat) (rs : List Request) :
    ∃ out st' sent, stepFixed w ra st r0 = .next out st' sent ∧ CoherentFixed w ra st' ∧
      ∃ k', idealRun w ra k [] (r0 :: rs) = out :: idealRun w ra k' [] rs := by
  unfold GoodFixed at hg
  unfold stepFixed
  cases hsel : selectIface (rewrite r0) with
  | noDot =>
    refine ⟨localReply (rewrite r0) (errInterfaceNotFound (rewrite r0).method), st, [], ?_, hc, k, ?_⟩
    · simp only [hsel]
    · simp [idealRun, hsel]
  | badArgs =>
    rw [hsel] at hg
    simp only at hg
    refine ⟨localReply (rewrite r0) (errInvalidParameter "parameters"), st, [], ?_, hc, k, ?_⟩
    · simp [hsel, hg]
    · simp [idealRun, hsel, hg]
  | iface i =>
    rw [hsel] at hg
    obtain ⟨hne, hsvc⟩ := hg
    obtain ⟨hr1, hr2⟩ := routeFixed_spec w hs ra st hc i hne
    have hk : resolveAddr w ra k i = resolveAddr w ra 0 i := resolveAddr_static w hs ra k i
    cases hrf : routeFixed w ra st i with
    | mk oa st' =>
      rw [hrf] at hr1 hr2
      simp only at hr1 hr2
      cases oa with
      | none =>
        refine ⟨localReply (rewrite r0) (errInterfaceNotFound i), st', [], ?_, hr2, k + 1, ?_⟩
        · simp only [hsel, hrf]
        · simp [idealRun, hsel, hk, ← hr1]
      | some a =>
        cases hs' : w.svcAt a with
        | none =>
          refine ⟨localReply (rewrite r0) (errInterfaceNotFound i), st', [], ?_, hr2, k + 1, ?_⟩
          · simp only [hsel, hrf, hs']
          · simp [idealRun, hsel, hk, ← hr1, hs']
        | some svc =>
          obtain ⟨hup, hok, hnu, hfin⟩ := hsvc a svc hr1.symm hs'
          have hideal : idealRun w ra k [] (r0 :: rs) =
              (callOne w.consts svc (rewrite r0)).out :: idealRun w ra (k + 1) [] rs := by
            simp [idealRun, hsel, hk, ← hr1, hs', hok, hnu]
          by_cases how : isOneway (rewrite r0) = true
          · refine ⟨[], st', [(a, rewrite r0)], ?_, hr2, k + 1, ?_⟩
            · simp only [hsel, hrf, hs', how, if_true]
            · rw [hideal, C04_no_reply_for_oneway w.consts svc (rewrite r0) how]
          · have hfin' : forwardReplies (callOne w.consts svc (rewrite r0)).out =
                ((callOne w.consts svc (rewrite r0)).out, true) := by
              rcases hfin with h | h
              · exact absurd h how
              · exact h
            have h2 : ((rewrite r0).upgrade == some true) = false := by
              cases hu : (rewrite r0).upgrade with
              | none => rfl
              | some b => cases b with
                | false => rfl
                | true => exact absurd hu hup
            refine ⟨(callOne w.consts svc (rewrite r0)).out, st', [(a, rewrite r0)], ?_, hr2, k + 1, hideal⟩
            simp only [hsel, hrf, hs']
            simp [how, hok, h2, hfin']

theorem runFixed_good (w : World) (hs : StaticResolver w) (ra : String) :
    ∀ (rs : List Request) (st : St) (k : Nat), CoherentFixed w ra st → (∀ r ∈ rs, GoodFixed w ra r) →
      (runFixed w ra st (rs.map .req)).status = .eof ∧
      (runFixed w ra st (rs.map .req)).groups = idealRun w ra k [] rs := by
  intro rs
  induction rs with
  | nil => intro st k _ _; simp [runFixed, idealRun]
  | cons r rs ih =>
    intro st k hc hg
    obtain ⟨out, st', sent, hstep, hc', k', hideal⟩ :=
      stepFixed_good w hs ra st hc r (hg r (by simp)) k rs
    have := ih st' k' hc' (fun x hx => hg x (by simp [hx]))
    simp only [List.map_cons, runFixed, hstep]
    exact ⟨this.1, by rw [hideal, this.2]⟩

end Proxy
end VV

/-! ### the byte-level loop refines `run` on the frames of the stream -/

namespace VV
namespace Proxy

theorem clientFrames_eq (dec : Bytes → Frame) (total : Bytes) :
    clientFrames dec total =
      match splitNul total with
      | none => if total = [] then [] else [dec total.dropLast]
      | some (pre, post) => dec pre :: clientFrames dec post := by
  unfold clientFrames
  rw [frames_eq]
  cases splitNul total with
  | none => simp
  | some pq => simp

theorem run_single_next (w : World) (st st' : St) (r : Request) (out : List Reply) (sent : List (String × Request))
    (h : step w st r = .next out st' sent) :
    (run w st [.req r]).groups = [out] ∧ (run w st [.req r]).sent = sent ∧ (run w st [.req r]).status = .eof := by
  simp [run, h]

theorem bridgeLoop_spec (w : World) (dec : Bytes → Frame) :
    ∀ (fuel : Nat) (st : St) (rd : Rd), NoEmpty rd.reads →
      (rd.buf ++ rd.reads.flatten).length < fuel →
      let total := rd.buf ++ rd.reads.flatten
      let o := run w st (clientFrames dec total)
      let b := bridgeLoop w dec fuel st rd
      b.groups = o.groups ∧ b.sent = o.sent ∧ b.status = o.status ∧
      (∀ a i, o.status = .upgraded a i → b.buffered ++ b.rest.flatten = afterFrames o.consumed total) := by
  intro fuel
  induction fuel with
  | zero => intro st rd _ hlt; simp at hlt
  | succ fuel ih =>
    intro st rd hne hlt
    have hsp := readUntil_spec rd.reads hne rd.buf []
    simp only
    rw [clientFrames_eq]
    unfold bridgeLoop
    cases hs : splitNul (rd.buf ++ rd.reads.flatten) with
    | none =>
      rw [hs] at hsp
      simp only at hsp
      rw [hsp]
      simp only [List.nil_append]
      by_cases he : rd.buf ++ rd.reads.flatten = []
      · simp [he, run]
      · simp only [he, if_false]
        cases hd : dec (rd.buf ++ rd.reads.flatten).dropLast with
        | bad => simp [run]
        | req r =>
          cases hst : step w st r with
          | stop out status sent =>
            simp only [run, hst]
            refine ⟨by simp, by simp, by simp, ?_⟩
            intro a i hu
            simp [afterFrames, hs]
          | next out st' sent =>
            simp only [run, hst]
            refine ⟨by simp, by simp, by simp, ?_⟩
            intro a i hu
            cases hu
    | some pq =>
      obtain ⟨pre, post⟩ := pq
      rw [hs] at hsp
      obtain ⟨rd', e1, e2, e3⟩ := hsp
      rw [e1]
      simp only [List.nil_append]
      have hlen := splitNul_length hs
      cases hd : dec pre with
      | bad => simp [run]
      | req r =>
        cases hst : step w st r with
        | stop out status sent =>
          simp only [run, hst]
          refine ⟨by simp, by simp, by simp, ?_⟩
          intro a i _
          simp [afterFrames, hs, e2]
        | next out st' sent =>
          have hlt' : (rd'.buf ++ rd'.reads.flatten).length < fuel := by
            rw [e2]; omega
          have := ih st' rd' e3 hlt'
          simp only [e2] at this
          obtain ⟨g, sn, stt, t3⟩ := this
          simp only [run, hst]
          refine ⟨by simp [g], by simp [sn], by simp [stt], ?_⟩
          intro a i he
          have := t3 a i he
          simp only [afterFrames, hs]
          simpa using this

theorem bridge_spec (w : World) (dec : Bytes → Frame) (reads : List Bytes) (hne : NoEmpty reads) :
    let total := reads.flatten
    let o := run w {} (clientFrames dec total)
    let b := bridge w dec reads
    b.groups = o.groups ∧ b.sent = o.sent ∧ b.status = o.status ∧
    (∀ a i, o.status = .upgraded a i → b.buffered ++ b.rest.flatten = afterFrames o.consumed total) := by
  have := bridgeLoop_spec w dec (totalLen reads + 1) {} { buf := [], reads := reads } hne (by simp [totalLen])
  simpa [bridge] using this

end Proxy
end VV
