/-
Lemmas.GenPred — the independent shape checker of Pred/Gen.lean (`shapeMatch`, `shapeTop`)
accepts what the model's `encode` produces for every well-typed value: the wire text of the model
IS the value in the IDL's JSON shape, and P_C08 is not stricter than the model.
-/
import VarlinkVerif.Pred.Gen
import VarlinkVerif.Lemmas.Gen

namespace VV
namespace Gen

theorem sameKeys_refl (l : List String) : sameKeys l l = true := by
  simp [sameKeys]

theorem encodeKV_lookup : ∀ (kvs : List (String × Val)), keysNodup kvs = true →
    ∀ k v, (k, v) ∈ kvs → jlookup k (encodeKV kvs) = some (encode v)
  | [], _, _, _, hm => by simp at hm
  | (k0, x) :: xs, hn, k, v, hm => by
    obtain ⟨hnotin, hn'⟩ := keysNodup_cons hn
    rcases List.mem_cons.mp hm with heq | hin
    · cases heq; simp [jlookup, encodeKV, Json.lookup]
    · have hne : k0 ≠ k := fun e => hnotin (k, v) hin e.symm
      have := encodeKV_lookup xs hn' k v hin
      simp only [jlookup] at this ⊢
      simp [encodeKV, Json.lookup, hne, this]

theorem keysNodup_of_names {α β} : ∀ {fs : List (String × α)} {kvs : List (String × β)},
    kvs.map (·.1) = fs.map (·.1) → keysNodup fs = true → keysNodup kvs = true
  | [], [], _, _ => rfl
  | [], _ :: _, h, _ => by simp at h
  | _ :: _, [], h, _ => by simp at h
  | (f, a) :: fs, (k, b) :: kvs, h, hn => by
    simp only [List.map_cons, List.cons.injEq] at h
    obtain ⟨hk, hrest⟩ := h
    obtain ⟨hnotin, hn'⟩ := keysNodup_cons hn
    simp only [keysNodup, Bool.and_eq_true, Bool.not_eq_true', List.any_eq_false, beq_iff_eq]
    refine ⟨?_, keysNodup_of_names hrest hn'⟩
    intro p hp hpe
    have : p.1 ∈ fs.map (·.1) := by rw [← hrest]; exact List.mem_map.mpr ⟨p, hp, rfl⟩
    obtain ⟨q, hq, hqe⟩ := List.mem_map.mp this
    exact hnotin q hq (by rw [hqe, hpe, hk])

theorem wtFields_elems {env : Env} : ∀ {fs : List (String × Ty)} {kvs : List (String × Val)},
    wtFields env fs kvs = true → ∀ k v, (k, v) ∈ kvs → ∃ ft, wtElem env ft v = true
  | [], [], _, _, _, hm => by simp at hm
  | [], _ :: _, h, _, _, _ => by simp [wtFields] at h
  | _ :: _, [], h, _, _, _ => by simp [wtFields] at h
  | (f, ft) :: fs, (k0, x) :: xs, h, k, v, hm => by
    rw [wtFields_cons] at h
    simp only [Bool.and_eq_true] at h
    rcases List.mem_cons.mp hm with heq | hin
    · cases heq; exact ⟨ft, h.1.2⟩
    · exact wtFields_elems h.2 k v hin

theorem wtMap_elems {env : Env} {te : Ty} : ∀ {kvs : List (String × Val)},
    wtMap env te kvs = true → ∀ k v, (k, v) ∈ kvs → wtElem env te v = true
  | [], _, _, _, hm => by simp at hm
  | (k0, x) :: xs, h, k, v, hm => by
    rw [wtMap_cons] at h
    simp only [Bool.and_eq_true] at h
    rcases List.mem_cons.mp hm with heq | hin
    · cases heq; exact h.1
    · exact wtMap_elems h.2 k v hin

mutual
  /-- for every environment, type and well-typed value: the serialised value has the IDL's shape of
      exactly that value -/
  theorem shape_val (env : Env) : ∀ (v : Val),
      (∀ t, wtCore env t v = true → shapeMatch v (encode v) = true) ∧
      (∀ te, wtElem env te v = true → shapeMatch v (encode v) = true)
    | .bool b => ⟨fun _ _ => by simp [shapeMatch, encode], fun _ _ => by simp [shapeMatch, encode]⟩
    | .int i => ⟨fun _ _ => by simp [shapeMatch, encode], fun _ _ => by simp [shapeMatch, encode]⟩
    | .str s => ⟨fun _ _ => by simp [shapeMatch, encode], fun _ _ => by simp [shapeMatch, encode]⟩
    | .enum s => ⟨fun _ _ => by simp [shapeMatch, encode], fun _ _ => by simp [shapeMatch, encode]⟩
    | .json j => ⟨fun _ _ => by simp [shapeMatch, encode], fun _ _ => by simp [shapeMatch, encode]⟩
    | .none => ⟨fun _ _ => by simp [shapeMatch, encode], fun _ _ => by simp [shapeMatch, encode]⟩
    | .flt b => by
      have core : ∀ t, wtCore env t (.flt b) = true → shapeMatch (.flt b) (encode (.flt b)) = true := by
        intro t h; simp [shapeMatch, encode, (wtCore_flt h).2]
      refine ⟨core, fun te h => ?_⟩
      cases te <;> first
        | exact core _ (by simpa [wtElem] using h)
        | simp [wtElem] at h
    | .some y => by
      refine ⟨fun t h => (wtCore_some h).elim, fun te h => ?_⟩
      cases te with
      | opt t' =>
        simp only [wtElem, Bool.and_eq_true] at h
        simpa [shapeMatch, encode] using (shape_val env y).1 t' h.1
      | _ => exact (wtCore_some (by simpa [wtElem] using h)).elim
    | .set ks => by
      have core : shapeMatch (.set ks) (encode (.set ks)) = true := by
        simp [shapeMatch, encode, List.map_map, Function.comp_def, sameKeys_refl, isEmptyObj]
      exact ⟨fun _ _ => core, fun _ _ => core⟩
    | .arr l => by
      have core : ∀ t, wtCore env t (.arr l) = true → shapeMatch (.arr l) (encode (.arr l)) = true := by
        intro t h; obtain ⟨te, _, hl⟩ := wtCore_arr h
        simpa [shapeMatch, encode] using shape_list env l te hl
      refine ⟨core, fun te h => ?_⟩
      cases te <;> first
        | exact core _ (by simpa [wtElem] using h)
        | simp [wtElem] at h
    | .map kvs => by
      have core : ∀ t, wtCore env t (.map kvs) = true → shapeMatch (.map kvs) (encode (.map kvs)) = true := by
        intro t h; obtain ⟨te, _, _, hn, hm⟩ := wtCore_map h
        have := shape_kv env kvs (encodeKV kvs) (fun k v hkv => encodeKV_lookup kvs hn k v hkv)
          (fun k v hkv => ⟨te, wtMap_elems hm k v hkv⟩)
        simp [shapeMatch, encode, encodeKV_keys, sameKeys_refl, this]
      refine ⟨core, fun te h => ?_⟩
      cases te <;> first
        | exact core _ (by simpa [wtElem] using h)
        | simp [wtElem] at h
    | .record kvs => by
      have core : ∀ t, wtCore env t (.record kvs) = true → shapeMatch (.record kvs) (encode (.record kvs)) = true := by
        intro t h; obtain ⟨fs, _, hn, hf⟩ := wtCore_record h
        have hnk : keysNodup kvs = true := keysNodup_of_names (wtFields_names hf) hn
        have := shape_kv env kvs (encodeKV kvs) (fun k v hkv => encodeKV_lookup kvs hnk k v hkv)
          (fun k v hkv => wtFields_elems hf k v hkv)
        simp [shapeMatch, encode, encodeKV_keys, sameKeys_refl, this]
      refine ⟨core, fun te h => ?_⟩
      cases te <;> first
        | exact core _ (by simpa [wtElem] using h)
        | simp [wtElem] at h
  theorem shape_list (env : Env) : ∀ (l : List Val) (te : Ty), wtList env te l = true →
      shapeList l (encodeList l) = true
    | [], _, _ => by simp [shapeList, encodeList]
    | x :: xs, te, h => by
      rw [wtList_cons] at h
      simp only [Bool.and_eq_true] at h
      simp [shapeList, encodeList, (shape_val env x).2 te h.1, shape_list env xs te h.2]
  theorem shape_kv (env : Env) : ∀ (sub : List (String × Val)) (os : List (String × Json)),
      (∀ k v, (k, v) ∈ sub → jlookup k os = some (encode v)) →
      (∀ k v, (k, v) ∈ sub → ∃ te, wtElem env te v = true) →
      shapeKV sub os = true
    | [], _, _, _ => by simp [shapeKV]
    | (k, x) :: xs, os, hl, hw => by
      obtain ⟨te, hte⟩ := hw k x (List.mem_cons_self ..)
      have e1 := (shape_val env x).2 te hte
      have e2 := shape_kv env xs os (fun k v hm => hl k v (List.mem_cons_of_mem _ hm))
        (fun k v hm => hw k v (List.mem_cons_of_mem _ hm))
      simp [shapeKV, hl k x (List.mem_cons_self ..), e1, e2]
end

end Gen
end VV

namespace VV
namespace Gen

theorem keysNodup_filter {α} (p : String × α → Bool) : ∀ {l : List (String × α)},
    keysNodup l = true → keysNodup (l.filter p) = true
  | [], _ => rfl
  | (k, a) :: l, h => by
    obtain ⟨hnotin, hn'⟩ := keysNodup_cons h
    have ih := keysNodup_filter p hn'
    by_cases hp : p (k, a) = true
    · simp only [List.filter_cons, hp, if_true, keysNodup, Bool.and_eq_true, Bool.not_eq_true',
        List.any_eq_false, beq_iff_eq]
      exact ⟨fun q hq => hnotin q (List.mem_filter.mp hq).1, ih⟩
    · simp only [Bool.not_eq_true] at hp
      simpa [List.filter_cons, hp] using ih

/-- top level: the omitted members are exactly the `None` ones, the rest has the value's shape -/
theorem shape_top (env : Env) (fs : List (String × Ty)) (kvs : List (String × Val))
    (hn : keysNodup fs = true) (hf : wtFields env fs kvs = true) :
    shapeTop kvs (encodeTopKV kvs) = true := by
  have hnk : keysNodup kvs = true := keysNodup_of_names (wtFields_names hf) hn
  have hnd : keysNodup (dropNone kvs) = true := keysNodup_filter _ hnk
  have hkv := shape_kv env (dropNone kvs) (encodeKV (dropNone kvs))
    (fun k v hkv => encodeKV_lookup _ hnd k v hkv)
    (fun k v hkv => wtFields_elems hf k v (List.mem_filter.mp hkv).1)
  have hd : (kvs.filter fun kv => !(isNone kv.2)) = dropNone kvs := rfl
  simp [shapeTop, encodeTopKV_eq, hd, encodeKV_keys, sameKeys_refl, hkv]

end Gen
end VV

namespace VV
namespace Gen

/-! ### definitely ill-typed parameters are rejected by the model's decoder -/

theorem decodeCore_none_of_mismatch (env : Env) (t : Ty) (x : Json) (h : baseKindMismatch env t x = true) :
    decodeCore env t x = none := by
  unfold baseKindMismatch at h
  unfold decodeCore
  split at h <;> simp_all

theorem decodeMembers_none_of_bad (env : Env) (fs : List (String × Ty)) (f : String) (ft : Ty) (x : Json)
    (hl : lookupTy f fs = some ft) (hbad : optWrap ft x (fun t => decodeCore env t x) = none) :
    ∀ (kvs : List (String × Json)), jlookup f kvs = some x → decodeMembers env fs kvs = none
  | [], h => by simp [jlookup, Json.lookup] at h
  | (k, y) :: rest, h => by
    simp only [jlookup, Json.lookup] at h
    by_cases hk : k = f
    · simp only [hk, if_true, Option.some.injEq] at h
      subst h; subst hk
      simp [decodeMembers, hl, hbad]
    · simp only [hk, if_false] at h
      have ih := decodeMembers_none_of_bad env fs f ft x hl hbad rest h
      simp only [decodeMembers, ih]
      split
      · rfl
      · split <;> simp_all

theorem lookupTy_of_mem : ∀ {fs : List (String × Ty)} {f : String} {ft : Ty},
    keysNodup fs = true → (f, ft) ∈ fs → lookupTy f fs = some ft
  | [], _, _, _, h => by simp at h
  | (g, gt) :: rest, f, ft, hn, h => by
    obtain ⟨hnotin, hn'⟩ := keysNodup_cons hn
    rcases List.mem_cons.mp h with heq | hin
    · cases heq; simp [lookupTy]
    · have : g ≠ f := fun e => hnotin (f, ft) hin e.symm
      simp [lookupTy, this, lookupTy_of_mem hn' hin]

end Gen
end VV

namespace VV
namespace Gen

theorem lookup_none_notin (f : String) : ∀ (kvs : List (String × Json)), jlookup f kvs = none → ∀ p ∈ kvs, p.1 ≠ f
  | [], _, p, hp => by simp at hp
  | (k, y) :: rest, h, p, hp => by
    simp only [jlookup, Json.lookup] at h
    by_cases hk : k = f
    · simp [hk] at h
    · simp only [hk, if_false] at h
      rcases List.mem_cons.mp hp with rfl | hp'
      · exact hk
      · exact lookup_none_notin f rest h p hp'


end Gen
end VV
