/-
Lemmas.Addr — facts about the string helpers of Model.Addr:
`stripPrefix` is exactly "is a prefix", `beforeSemi` cuts at the first `;`,
`parseUsize (decimal n) = n` below 2^64, descriptor-table algebra.
-/
import VarlinkVerif.Model.Addr

namespace VV
namespace Addr

theorem stripPrefix_eq_some_iff (p s r : Str) : stripPrefix p s = some r ↔ s = p ++ r := by
  induction p generalizing s with
  | nil => simp [stripPrefix, eq_comm]
  | cons c cs ih =>
    cases s with
    | nil => simp [stripPrefix]
    | cons d ds =>
      simp only [stripPrefix]
      by_cases h : c = d
      · subst h; simp [ih]
      · simp [h]; intro h'; exact absurd h'.symm h

theorem stripPrefix_eq_none_iff (p s : Str) : stripPrefix p s = none ↔ ¬ ∃ r, s = p ++ r := by
  constructor
  · intro h ⟨r, hr⟩
    have := (stripPrefix_eq_some_iff p s r).2 hr
    rw [h] at this; cases this
  · intro h
    cases hs : stripPrefix p s with
    | none => rfl
    | some r => exact absurd ⟨r, (stripPrefix_eq_some_iff p s r).1 hs⟩ h

theorem startsWith_iff (p s : Str) : startsWith p s = true ↔ ∃ r, s = p ++ r := by
  unfold startsWith
  cases hs : stripPrefix p s with
  | none =>
    simp
    exact (stripPrefix_eq_none_iff p s).1 hs |> fun h r hr => h ⟨r, hr⟩
  | some r => simp; exact ⟨r, (stripPrefix_eq_some_iff p s r).1 hs⟩

/-- a string with the prefix `unix:@` also has the prefix `unix:` -/
theorem unixAt_imp_unix (s : Str) (h : startsWith pUnixAt s = true) : startsWith pUnix s = true := by
  rw [startsWith_iff] at h ⊢
  obtain ⟨r, hr⟩ := h
  exact ⟨'@' :: r, by rw [hr]; rfl⟩

theorem tcp_not_unix (s : Str) (h : startsWith pTcp s = true) : startsWith pUnix s = false := by
  rw [startsWith_iff] at h
  obtain ⟨r, hr⟩ := h
  subst hr
  rfl

theorem tcp_not_unix_rev (s : Str) (h : startsWith pUnix s = true) : startsWith pTcp s = false := by
  rw [startsWith_iff] at h
  obtain ⟨r, hr⟩ := h
  subst hr
  rfl

/-! ### `beforeSemi` -/

theorem beforeSemi_no_semi (a : Str) : ';' ∉ beforeSemi a := by
  induction a with
  | nil => simp [beforeSemi]
  | cons c cs ih =>
    simp only [beforeSemi]
    by_cases h : c = ';'
    · simp [h]
    · simp [h]; exact ⟨fun e => h e.symm, ih⟩

/-- `beforeSemi a` is a prefix of `a`, and what follows is empty or starts with `;` -/
theorem beforeSemi_prefix (a : Str) :
    ∃ rest, a = beforeSemi a ++ rest ∧ (rest = [] ∨ ∃ t, rest = ';' :: t) := by
  induction a with
  | nil => exact ⟨[], by simp [beforeSemi]⟩
  | cons c cs ih =>
    simp only [beforeSemi]
    by_cases h : c = ';'
    · subst h; exact ⟨';' :: cs, by simp⟩
    · obtain ⟨rest, h1, h2⟩ := ih
      refine ⟨rest, ?_, h2⟩
      simp [h]
      exact h1

theorem beforeSemi_of_no_semi (a : Str) (h : ';' ∉ a) : beforeSemi a = a := by
  induction a with
  | nil => rfl
  | cons c cs ih =>
    simp only [List.mem_cons, not_or] at h
    have hc : ¬ c = ';' := fun e => h.1 e.symm
    simp [beforeSemi, hc, ih h.2]

theorem beforeSemi_append_semi (a t : Str) (h : ';' ∉ a) : beforeSemi (a ++ ';' :: t) = a := by
  induction a with
  | nil => simp [beforeSemi]
  | cons c cs ih =>
    simp only [List.mem_cons, not_or] at h
    have hc : ¬ c = ';' := fun e => h.1 e.symm
    simp [beforeSemi, hc, ih h.2]

/-! ### decimal text and `parseUsize` -/

theorem digitVal_digitChar (d : Nat) (h : d < 10) : digitVal (digitChar d) = some d := by
  have : d = 0 ∨ d = 1 ∨ d = 2 ∨ d = 3 ∨ d = 4 ∨ d = 5 ∨ d = 6 ∨ d = 7 ∨ d = 8 ∨ d = 9 := by omega
  rcases this with h | h | h | h | h | h | h | h | h | h <;> subst h <;> decide

theorem digitChar_ne_plus (d : Nat) (h : d < 10) : digitChar d ≠ '+' := by
  have : d = 0 ∨ d = 1 ∨ d = 2 ∨ d = 3 ∨ d = 4 ∨ d = 5 ∨ d = 6 ∨ d = 7 ∨ d = 8 ∨ d = 9 := by omega
  rcases this with h | h | h | h | h | h | h | h | h | h <;> subst h <;> decide

theorem parseDigits_append (a b : Str) (acc : Nat) :
    parseDigits (a ++ b) acc = (parseDigits a acc).bind (parseDigits b) := by
  induction a generalizing acc with
  | nil => simp [parseDigits]
  | cons c cs ih =>
    simp only [List.cons_append, parseDigits]
    cases digitVal c with
    | none => simp
    | some d => simp [ih]

theorem parseDigits_decimal (n acc : Nat) : parseDigits (decimal n) acc = some (acc * 10 ^ (decimal n).length + n) := by
  induction n using Nat.strongRecOn generalizing acc with
  | _ n ih =>
    rw [decimal]
    by_cases h : n < 10
    · simp [h, parseDigits, digitVal_digitChar n h]
    · simp only [h, dite_false]
      rw [parseDigits_append, ih (n / 10) (by omega)]
      simp only [Option.bind_some, parseDigits, digitVal_digitChar (n % 10) (by omega)]
      simp only [List.length_append, List.length_cons, List.length_nil, Nat.pow_succ]
      congr 1
      have := Nat.div_add_mod n 10
      rw [Nat.add_mul, Nat.mul_assoc]
      omega

theorem decimal_ne_nil (n : Nat) : decimal n ≠ [] := by
  rw [decimal]
  by_cases h : n < 10
  · simp [h]
  · simp [h]

theorem decimal_head (n : Nat) : ∃ d r, d < 10 ∧ decimal n = digitChar d :: r := by
  induction n using Nat.strongRecOn with
  | _ n ih =>
    rw [decimal]
    by_cases h : n < 10
    · exact ⟨n, [], h, by simp [h]⟩
    · obtain ⟨d, r, hd, hr⟩ := ih (n / 10) (by omega)
      exact ⟨d, r ++ [digitChar (n % 10)], hd, by simp [h, hr]⟩

/-- the shell's `$$` text parses back to the pid -/
theorem parseUsize_decimal (n : Nat) (h : n < usizeBound) : parseUsize (decimal n) = some n := by
  obtain ⟨d, r, hd, hr⟩ := decimal_head n
  have hp := parseDigits_decimal n 0
  unfold parseUsize
  have hne : digitChar d ≠ '+' := digitChar_ne_plus d hd
  have hbody : stripPlus (decimal n) = decimal n := by
    rw [hr]
    unfold stripPlus
    split
    · rename_i heq
      simp only [List.cons.injEq] at heq
      exact absurd heq.1 hne
    · rfl
  simp only [hbody]
  rw [hp]
  simp [decimal_ne_nil, h]

/-! ### descriptor tables -/

theorem fdGet_fdSet_same (fd : Nat) (e : FdEntry) (t : FdTable) : fdGet fd (fdSet fd e t) = some e := by
  simp [fdSet, fdGet]

theorem fdGet_fdRemove_ne (a b : Nat) (t : FdTable) (h : a ≠ b) : fdGet a (fdRemove b t) = fdGet a t := by
  induction t with
  | nil => rfl
  | cons x xs ih =>
    obtain ⟨k, e⟩ := x
    unfold fdRemove at ih ⊢
    by_cases hk : k = b
    · subst hk
      simp [List.filter, fdGet, ih, Ne.symm h]
    · have : ((k, e).1 != b) = true := by simp [hk]
      simp only [List.filter, this, fdGet, ih]

theorem fdGet_fdSet_ne (a b : Nat) (e : FdEntry) (t : FdTable) (h : a ≠ b) :
    fdGet a (fdSet b e t) = fdGet a t := by
  simp [fdSet, fdGet, Ne.symm h, fdGet_fdRemove_ne a b t h]

theorem fdGet_execFds (fd : Nat) (t : FdTable) (e : FdEntry) (h : fdGet fd t = some e)
    (hc : e.cloexec = false) : fdGet fd (execFds t) = some e := by
  induction t with
  | nil => simp [fdGet] at h
  | cons x xs ih =>
    obtain ⟨k, e'⟩ := x
    unfold execFds at ih ⊢
    simp only [fdGet] at h
    by_cases hk : k = fd
    · simp only [hk, if_true, Option.some.injEq] at h
      subst h
      simp [List.filter, hc, fdGet, hk]
    · simp only [hk, if_false] at h
      cases hcl : e'.cloexec
      · simp [List.filter, hcl, fdGet, hk]; exact ih h
      · simp [List.filter, hcl]; exact ih h

theorem fdGet_dup2_other (t : FdTable) (s d x : Nat) (hx : x ≠ d) :
    fdGet x (applyFdAct t (.dup2 s d)) = fdGet x t := by
  simp only [applyFdAct]
  cases fdGet s t with
  | none => rfl
  | some e =>
    by_cases h : s = d
    · simp [h]
    · simp only [h, if_false]; exact fdGet_fdSet_ne x d _ t hx

theorem fdGet_dup2_dst (t : FdTable) (s d : Nat) (e : FdEntry) (hs : fdGet s t = some e) (hne : s ≠ d) :
    fdGet d (applyFdAct t (.dup2 s d)) = some { e with cloexec := false } := by
  simp only [applyFdAct, hs, hne, if_false, fdGet_fdSet_same]

theorem fdGet_close_other (t : FdTable) (fd x : Nat) (hx : x ≠ fd) :
    fdGet x (applyFdAct t (.close fd)) = fdGet x t := by
  simp only [applyFdAct]; exact fdGet_fdRemove_ne x fd t hx

theorem fdGet_dup2IfInheritable_other (t : FdTable) (s d x : Nat) (hx : x ≠ d) :
    fdGet x (applyFdAct t (.dup2IfInheritable s d)) = fdGet x t := by
  simp only [applyFdAct]
  cases fdGet s t with
  | none => rfl
  | some e =>
    by_cases h : (e.cloexec || decide (s = d)) = true
    · simp [h]
    · simp only [h]; exact fdGet_fdSet_ne x d _ t hx

theorem fdGet_clearCloexec (t : FdTable) (fd : Nat) (e : FdEntry) (h : fdGet fd t = some e) :
    fdGet fd (applyFdAct t (.clearCloexec fd)) = some { e with cloexec := false } := by
  simp only [applyFdAct, h, fdGet_fdSet_same]

end Addr
end VV
