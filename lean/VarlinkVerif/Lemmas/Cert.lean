/-
Lemmas.Cert — helper lemmas about Model.Cert (and the `PartialEq` part of
Model.Serde) used by Props/C19.
-/
import VarlinkVerif.Model.Cert
import VarlinkVerif.Lemmas.Serde

namespace VV

/-! ### `==` on typed values is equality when one side has only plain floats -/

/-- not NaN and not ±0: the floats for which `f64 == f64` is equality of bit patterns -/
def f64Plain (b : Nat) : Bool := !f64NaN b && !f64Zero b

theorem feq_eq {a b : Nat} (h : feq a b = true) (hp : f64Plain a = true) : a = b := by
  simp only [feq, f64Plain, Bool.and_eq_true, Bool.not_eq_true', Bool.or_eq_true] at h hp
  cases h.2 with
  | inl h => simpa using h
  | inr h => rw [h.1] at hp; simp at hp

theorem feq_refl {a : Nat} (hp : f64NaN a = false) : feq a a = true := by
  simp [feq, hp]

namespace Json
mutual
  def plain : Json → Bool
    | .flt b => f64Plain b
    | .arr l => plainList l
    | .obj l => plainObj l
    | _ => true
  def plainList : List Json → Bool
    | [] => true
    | x :: xs => plain x && plainList xs
  def plainObj : List (String × Json) → Bool
    | [] => true
    | (_, v) :: rest => plain v && plainObj rest
end
end Json

mutual
  theorem veq_eq : ∀ a b : Json, Json.veq a b = true → a.plain = true → a = b
    | .null, b, h, _ => by cases b <;> simp_all [Json.veq]
    | .bool _, b, h, _ => by cases b <;> simp_all [Json.veq]
    | .int _, b, h, _ => by cases b <;> simp_all [Json.veq]
    | .str _, b, h, _ => by cases b <;> simp_all [Json.veq]
    | .flt x, b, h, hp => by
      cases b with
      | flt y => simp only [Json.veq] at h; simp only [Json.plain] at hp; rw [feq_eq h hp]
      | _ => simp [Json.veq] at h
    | .arr x, b, h, hp => by
      cases b with
      | arr y => simp only [Json.veq] at h; simp only [Json.plain] at hp; rw [veqList_eq x y h hp]
      | _ => simp [Json.veq] at h
    | .obj x, b, h, hp => by
      cases b with
      | obj y => simp only [Json.veq] at h; simp only [Json.plain] at hp; rw [veqObj_eq x y h hp]
      | _ => simp [Json.veq] at h
  theorem veqList_eq : ∀ a b : List Json, Json.veqList a b = true → Json.plainList a = true → a = b
    | [], b, h, _ => by cases b <;> simp_all [Json.veqList]
    | x :: xs, b, h, hp => by
      cases b with
      | nil => simp [Json.veqList] at h
      | cons y ys =>
        simp only [Json.veqList, Bool.and_eq_true] at h
        simp only [Json.plainList, Bool.and_eq_true] at hp
        rw [veq_eq x y h.1 hp.1, veqList_eq xs ys h.2 hp.2]
  theorem veqObj_eq : ∀ a b : List (String × Json), Json.veqObj a b = true → Json.plainObj a = true → a = b
    | [], b, h, _ => by cases b <;> simp_all [Json.veqObj]
    | (k, x) :: xs, b, h, hp => by
      cases b with
      | nil => simp [Json.veqObj] at h
      | cons y ys =>
        obtain ⟨l, y⟩ := y
        simp only [Json.veqObj, Bool.and_eq_true, beq_iff_eq] at h
        simp only [Json.plainObj, Bool.and_eq_true] at hp
        rw [h.1.1, veq_eq x y h.1.2 hp.1, veqObj_eq xs ys h.2 hp.2]
end

mutual
  theorem veq_refl : ∀ a : Json, a.plain = true → Json.veq a a = true
    | .null, _ => rfl
    | .bool _, _ => by simp [Json.veq]
    | .int _, _ => by simp [Json.veq]
    | .str _, _ => by simp [Json.veq]
    | .flt x, hp => by
      simp only [Json.plain, f64Plain, Bool.and_eq_true, Bool.not_eq_true'] at hp
      simp [Json.veq, feq_refl hp.1]
    | .arr x, hp => by simp only [Json.plain] at hp; simp [Json.veq, veqList_refl x hp]
    | .obj x, hp => by simp only [Json.plain] at hp; simp [Json.veq, veqObj_refl x hp]
  theorem veqList_refl : ∀ a : List Json, Json.plainList a = true → Json.veqList a a = true
    | [], _ => rfl
    | x :: xs, hp => by
      simp only [Json.plainList, Bool.and_eq_true] at hp
      simp [Json.veqList, veq_refl x hp.1, veqList_refl xs hp.2]
  theorem veqObj_refl : ∀ a : List (String × Json), Json.plainObj a = true → Json.veqObj a a = true
    | [], _ => rfl
    | (k, x) :: xs, hp => by
      simp only [Json.plainObj, Bool.and_eq_true] at hp
      simp [Json.veqObj, veq_refl x hp.1, veqObj_refl xs hp.2]
end

namespace TVal
mutual
  def plain : TVal → Bool
    | .float b => f64Plain b
    | .value j => j.plain
    | .some v => plain v
    | .vec l => plainList l
    | .map l => plainMap l
    | .struct l => plainList l
    | _ => true
  def plainList : List TVal → Bool
    | [] => true
    | x :: xs => plain x && plainList xs
  def plainMap : List (String × TVal) → Bool
    | [] => true
    | (_, v) :: rest => plain v && plainMap rest
end
end TVal

mutual
  theorem teq_eq : ∀ a b : TVal, TVal.teq a b = true → a.plain = true → a = b
    | .bool _, b, h, _ => by cases b <;> simp_all [TVal.teq]
    | .int _, b, h, _ => by cases b <;> simp_all [TVal.teq]
    | .str _, b, h, _ => by cases b <;> simp_all [TVal.teq]
    | .set _, b, h, _ => by cases b <;> simp_all [TVal.teq]
    | .enum _, b, h, _ => by cases b <;> simp_all [TVal.teq]
    | .none, b, h, _ => by cases b <;> simp_all [TVal.teq]
    | .float x, b, h, hp => by
      cases b with
      | float y => simp only [TVal.teq] at h; simp only [TVal.plain] at hp; rw [feq_eq h hp]
      | _ => simp [TVal.teq] at h
    | .value x, b, h, hp => by
      cases b with
      | value y => simp only [TVal.teq] at h; simp only [TVal.plain] at hp; rw [veq_eq x y h hp]
      | _ => simp [TVal.teq] at h
    | .some x, b, h, hp => by
      cases b with
      | some y => simp only [TVal.teq] at h; simp only [TVal.plain] at hp; rw [teq_eq x y h hp]
      | _ => simp [TVal.teq] at h
    | .vec x, b, h, hp => by
      cases b with
      | vec y => simp only [TVal.teq] at h; simp only [TVal.plain] at hp; rw [teqList_eq x y h hp]
      | _ => simp [TVal.teq] at h
    | .struct x, b, h, hp => by
      cases b with
      | struct y => simp only [TVal.teq] at h; simp only [TVal.plain] at hp; rw [teqList_eq x y h hp]
      | _ => simp [TVal.teq] at h
    | .map x, b, h, hp => by
      cases b with
      | map y => simp only [TVal.teq] at h; simp only [TVal.plain] at hp; rw [teqMap_eq x y h hp]
      | _ => simp [TVal.teq] at h
  theorem teqList_eq : ∀ a b : List TVal, TVal.teqList a b = true → TVal.plainList a = true → a = b
    | [], b, h, _ => by cases b <;> simp_all [TVal.teqList]
    | x :: xs, b, h, hp => by
      cases b with
      | nil => simp [TVal.teqList] at h
      | cons y ys =>
        simp only [TVal.teqList, Bool.and_eq_true] at h
        simp only [TVal.plainList, Bool.and_eq_true] at hp
        rw [teq_eq x y h.1 hp.1, teqList_eq xs ys h.2 hp.2]
  theorem teqMap_eq : ∀ a b : List (String × TVal), TVal.teqMap a b = true → TVal.plainMap a = true → a = b
    | [], b, h, _ => by cases b <;> simp_all [TVal.teqMap]
    | (k, x) :: xs, b, h, hp => by
      cases b with
      | nil => simp [TVal.teqMap] at h
      | cons y ys =>
        obtain ⟨l, y⟩ := y
        simp only [TVal.teqMap, Bool.and_eq_true, beq_iff_eq] at h
        simp only [TVal.plainMap, Bool.and_eq_true] at hp
        rw [h.1.1, teq_eq x y h.1.2 hp.1, teqMap_eq xs ys h.2 hp.2]
end

mutual
  theorem teq_refl : ∀ a : TVal, a.plain = true → TVal.teq a a = true
    | .bool _, _ => by simp [TVal.teq]
    | .int _, _ => by simp [TVal.teq]
    | .str _, _ => by simp [TVal.teq]
    | .set _, _ => by simp [TVal.teq]
    | .enum _, _ => by simp [TVal.teq]
    | .none, _ => rfl
    | .float x, hp => by
      simp only [TVal.plain, f64Plain, Bool.and_eq_true, Bool.not_eq_true'] at hp
      simp [TVal.teq, feq_refl hp.1]
    | .value x, hp => by simp only [TVal.plain] at hp; simp [TVal.teq, veq_refl x hp]
    | .some x, hp => by simp only [TVal.plain] at hp; simp [TVal.teq, teq_refl x hp]
    | .vec x, hp => by simp only [TVal.plain] at hp; simp [TVal.teq, teqList_refl x hp]
    | .struct x, hp => by simp only [TVal.plain] at hp; simp [TVal.teq, teqList_refl x hp]
    | .map x, hp => by simp only [TVal.plain] at hp; simp [TVal.teq, teqMap_refl x hp]
  theorem teqList_refl : ∀ a : List TVal, TVal.plainList a = true → TVal.teqList a a = true
    | [], _ => rfl
    | x :: xs, hp => by
      simp only [TVal.plainList, Bool.and_eq_true] at hp
      simp [TVal.teqList, teq_refl x hp.1, teqList_refl xs hp.2]
  theorem teqMap_refl : ∀ a : List (String × TVal), TVal.plainMap a = true → TVal.teqMap a a = true
    | [], _ => rfl
    | (k, x) :: xs, hp => by
      simp only [TVal.plainMap, Bool.and_eq_true] at hp
      simp [TVal.teqMap, teq_refl x hp.1, teqMap_refl xs hp.2]
end

/-! ### the step table -/

theorem myTypeVal_plain : myTypeVal.plain = true := by decide

theorem wants_plain (k : Step) (cid : String) : (k.wants cid).plain = true := by
  cases k <;> first
    | rfl
    | (simp only [Step.wants, TVal.plain, TVal.plainList, Bool.true_and, Bool.and_true]; decide)

theorem argsTy_wf (k : Step) : k.argsTy.wf = true := by
  cases k <;> decide

theorem myTypeVal_hasTy : hasTy tyMyType myTypeVal = true := by decide
theorem myTypeVal_clean : clean tyMyType myTypeVal = true := by decide

theorem wants_hasTy (k : Step) (cid : String) : hasTy k.argsTy (k.wants cid) = true := by
  cases k <;> first
    | (simp only [Step.argsTy, Step.wants, fld, hasTy, hasTyFields, Bool.true_and, Bool.and_true]; done)
    | (simp only [Step.argsTy, Step.wants, fld, hasTy, hasTyFields, Bool.true_and, Bool.and_true]; decide)

theorem wants_clean (k : Step) (cid : String) : clean k.argsTy (k.wants cid) = true := by
  cases k <;> first
    | (simp only [Step.argsTy, Step.wants, fld, clean, cleanFields, Bool.true_and, Bool.and_true]; done)
    | (simp only [Step.argsTy, Step.wants, fld, clean, cleanFields, Bool.true_and, Bool.and_true]; decide)

/-- the canonical parameters, sent as the `Value` of the canonical typed value,
    decode to exactly that typed value -/
theorem decode_canon_params (cvt : Int → Nat) (k : Step) (cid : String) :
    decode cvt k.argsTy (toValue k.argsTy (k.wants cid)) = some (k.wants cid) :=
  (roundtrip cvt k.argsTy (k.wants cid) (argsTy_wf k) (wants_hasTy k cid) (wants_clean k cid)).2

theorem clientIdOf_wants (k : Step) (cid : String) : clientIdOf (k.wants cid) = some cid := by
  cases k <;> rfl

theorem stepOfMethod_method (k : Step) : stepOfMethod k.method = some k := by
  cases k <;> decide

theorem stepOfMethod_some {m : String} {k : Step} (h : stepOfMethod m = some k) : m = k.method := by
  unfold stepOfMethod at h
  have := List.find?_some h
  have h2 : k.method = m := by simpa using this
  exact h2.symm

theorem method_ne_start (k : Step) : k.method ≠ startMethod := by
  cases k <;> decide

/-! ### the state -/

theorem get_set_same (st : CertState) (id : String) (k : Step) : (st.set id k).get id = some k := by
  simp [CertState.set, CertState.get]

theorem get_set_ne (st : CertState) (id x : String) (k : Step) (h : id ≠ x) :
    (st.set id k).get x = st.get x := by
  simp [CertState.set, CertState.get, h]

theorem checkClientId_some {st st' : CertState} {id : String} {k : Step}
    (h : checkClientId st id k = some st') : st.get id = some k ∧ st' = st.set id k.next := by
  unfold checkClientId at h
  cases hg : st.get id with
  | none => simp [hg] at h
  | some s =>
    simp only [hg] at h
    by_cases hs : s = k
    · subst hs; simp at h; exact ⟨rfl, h.symm⟩
    · simp [hs] at h

theorem checkClientId_of_get {st : CertState} {id : String} {k : Step} (h : st.get id = some k) :
    checkClientId st id k = some (st.set id k.next) := by
  simp [checkClientId, h]

/-! ### replies written by error branches carry an error name -/

theorem runActs_reply_err (req : Request) (name : String) (p : Option Json) (r : Reply)
    (h : r ∈ (runActs req [.reply (Reply.err name p)] {}).1.out) : r.error = some name := by
  simp only [runActs, replyStruct] at h
  by_cases ho : isOneway req = true
  · simp [ho] at h
  · simp [ho, Reply.err] at h
    rw [h]

theorem runActs_replyTry_fail_err (req : Request) (name : String) (p : Option Json) (r : Reply)
    (h : r ∈ (runActs req [.replyTry (Reply.err name p), .fail] {}).1.out) : r.error = some name := by
  simp only [runActs, replyStruct] at h
  by_cases ho : isOneway req = true
  · simp [ho] at h
  · simp [ho, Reply.err] at h
    rw [h]

/-! ### the canonical requests -/

theorem canonStepReq_method (k : Step) (cid : String) : (canonStepReq k cid).method = k.method := by
  cases k <;> rfl

theorem canonStepReq_params (k : Step) (cid : String) :
    (canonStepReq k cid).parameters = some (toValue k.argsTy (k.wants cid)) := by
  cases k <;> rfl

theorem canonStepReq_mode (k : Step) (cid : String) : modeOk k.mode (canonStepReq k cid) = true := by
  cases k <;> rfl

/-- one canonical step of a client that is at step `k`: the success actions, and
    the client moves to the next step; nobody else's entry changes -/
theorem certHandle_canon_step (cvt : Int → Nat) (st : CertState) (fresh : String) (k : Step)
    (cid : String) (h : st.get cid = some k) :
    certHandle cvt st fresh (canonStepReq k cid) = (st.set cid k.next, k.successActs) := by
  unfold certHandle
  rw [canonStepReq_method, if_neg (method_ne_start k), stepOfMethod_method]
  simp only [canonStepReq_params, decode_canon_params, clientIdOf_wants, checkClientId_of_get h,
    canonStepReq_mode, teq_refl _ (wants_plain k cid), Bool.and_self, if_true]

theorem certHandle_canon_start (cvt : Int → Nat) (st : CertState) (fresh : String) :
    certHandle cvt st fresh canonStartReq = (st.set fresh .t01, [.reply (startReply fresh)]) := by
  unfold certHandle
  have h1 : canonStartReq.method = startMethod := rfl
  have h2 : startOk canonStartReq = true := by decide
  simp [h1, h2]

theorem step_methods_route (k : Step) : ifaceOf k.method = some certName := by
  cases k <;> decide

theorem start_method_routes : ifaceOf startMethod = some certName := by decide

/-- the invariant behind `C19_canonical_succeeds`: a client that is at step `k` has its id
    registered at step `k`; it is kept by every scheduled request, whoever sends it -/
theorem runSched_all_success (cvt : Int → Nat) (idOf : Nat → String)
    (hinj : ∀ a b, idOf a = idOf b → a = b) :
    ∀ (sched : List Nat) (st : CertState) (pos : Nat → Prog),
      (∀ c k, pos c = .at k → st.get (idOf c) = some k) →
      ∀ e ∈ runSched cvt idOf st pos sched, e.2.2 = e.2.1.successReplies (idOf e.1) := by
  intro sched
  induction sched with
  | nil => intro st pos _ e he; simp [runSched] at he
  | cons c rest ih =>
    intro st pos hinv e he
    unfold runSched at he
    by_cases hd : pos c = .done
    · simp only [hd, if_true] at he
      exact ih st pos hinv e he
    · simp only [hd, if_false] at he
      rw [List.mem_cons] at he
      cases hp : pos c with
      | done => exact absurd hp hd
      | start =>
        have hh := certHandle_canon_start cvt st (idOf c)
        cases he with
        | inl he =>
          rw [he]
          simp only [hp, Prog.req, Prog.successReplies, certReplies, hh]
          rfl
        | inr he =>
          simp only [hp, Prog.req, hh] at he
          refine ih _ _ ?_ e he
          intro c' k' hc'
          unfold bump at hc'
          by_cases hcc : c' = c
          · subst hcc
            simp only [if_true, hp, Prog.adv] at hc'
            cases hc'
            exact get_set_same _ _ _
          · simp only [hcc, if_false] at hc'
            rw [get_set_ne _ _ _ _ (fun e => hcc (hinj _ _ e).symm)]
            exact hinv c' k' hc'
      | «at» k =>
        have hg := hinv c k hp
        have hh := certHandle_canon_step cvt st (idOf c) k (idOf c) hg
        cases he with
        | inl he =>
          rw [he]
          simp only [hp, Prog.req, Prog.successReplies, certReplies, hh]
        | inr he =>
          simp only [hp, Prog.req, hh] at he
          refine ih _ _ ?_ e he
          intro c' k' hc'
          unfold bump at hc'
          by_cases hcc : c' = c
          · subst hcc
            simp only [if_true, hp] at hc'
            have : k' = k.next := by
              cases k <;> simp [Prog.adv, Step.next] at hc' ⊢ <;> exact hc'.symm
            rw [this]
            exact get_set_same _ _ _
          · simp only [hcc, if_false] at hc'
            rw [get_set_ne _ _ _ _ (fun e => hcc (hinj _ _ e).symm)]
            exact hinv c' k' hc'

/-! ### steps only move forward -/

def Step.rank : Step → Nat
  | .t01 => 1 | .t02 => 2 | .t03 => 3 | .t04 => 4 | .t05 => 5 | .t06 => 6 | .t07 => 7
  | .t08 => 8 | .t09 => 9 | .t10 => 10 | .t11 => 11 | .fin => 12

/-- how far the client `cid` has come (0 = not registered) -/
def rankOf (st : CertState) (cid : String) : Nat :=
  match st.get cid with
  | some k => k.rank
  | none => 0

theorem rank_next_ge (k : Step) : k.rank ≤ k.next.rank := by cases k <;> decide

theorem rank_next_gt (k : Step) (h : k ≠ .fin) : k.rank < k.next.rank := by
  cases k <;> first | decide | exact absurd rfl h

/-- what one call can do to the table: nothing, register the fresh id at `Test01`,
    or move a registered id from its step to the next one -/
theorem certHandle_state_cases (cvt : Int → Nat) (st : CertState) (fresh : String) (req : Request) :
    (certHandle cvt st fresh req).1 = st ∨ (certHandle cvt st fresh req).1 = st.set fresh .t01 ∨
    ∃ cid k, st.get cid = some k ∧ (certHandle cvt st fresh req).1 = st.set cid k.next := by
  unfold certHandle
  by_cases hs : req.method = startMethod
  · by_cases ho : startOk req = true
    · rw [if_pos hs, if_pos ho]; exact Or.inr (Or.inl rfl)
    · rw [if_pos hs, if_neg ho]; exact Or.inl rfl
  · rw [if_neg hs]
    cases hk : stepOfMethod req.method with
    | none => exact Or.inl rfl
    | some k =>
      dsimp only
      cases hp : req.parameters with
      | none => exact Or.inl rfl
      | some p =>
        dsimp only
        cases hd : decode cvt k.argsTy p with
        | none => exact Or.inl rfl
        | some args =>
          dsimp only
          cases hc : clientIdOf args with
          | none => exact Or.inl rfl
          | some cid =>
            dsimp only
            cases hcc : checkClientId st cid k with
            | none => exact Or.inl rfl
            | some st' =>
              dsimp only
              have h := checkClientId_some hcc
              refine Or.inr (Or.inr ⟨cid, k, h.1, ?_⟩)
              by_cases hm : (modeOk k.mode req && TVal.teq (k.wants cid) args) = true
              · simp only [hm, if_true]; exact h.2
              · simp only [hm]; exact h.2

theorem rankOf_set_same (st : CertState) (id : String) (k : Step) : rankOf (st.set id k) id = k.rank := by
  simp [rankOf, get_set_same]

theorem rankOf_set_ne (st : CertState) (id x : String) (k : Step) (h : id ≠ x) :
    rankOf (st.set id k) x = rankOf st x := by
  simp [rankOf, get_set_ne _ _ _ _ h]

/-- no call moves a client backwards, as long as its id is not handed out again -/
theorem rankOf_mono (cvt : Int → Nat) (st : CertState) (fresh : String) (req : Request) (cid : String)
    (hf : fresh ≠ cid) : rankOf st cid ≤ rankOf (certHandle cvt st fresh req).1 cid := by
  rcases certHandle_state_cases cvt st fresh req with h | h | ⟨c, k, hg, h⟩
  · rw [h]; exact Nat.le_refl _
  · rw [h, rankOf_set_ne _ _ _ _ hf]; exact Nat.le_refl _
  · rw [h]
    by_cases hc : c = cid
    · subst hc
      rw [rankOf_set_same]
      simp only [rankOf, hg]
      exact rank_next_ge k
    · rw [rankOf_set_ne _ _ _ _ hc]; exact Nat.le_refl _

/-- the states a sequential history of calls goes through: (state before, request) per call -/
def statesBefore (cvt : Int → Nat) : CertState → List (String × Request) → List (CertState × Request)
  | _, [] => []
  | st, (fresh, req) :: rest => (st, req) :: statesBefore cvt (certHandle cvt st fresh req).1 rest

theorem rankOf_mono_hist (cvt : Int → Nat) (cid : String) :
    ∀ (hist : List (String × Request)) (st : CertState), (∀ e ∈ hist, e.1 ≠ cid) →
      ∀ sr ∈ statesBefore cvt st hist, rankOf st cid ≤ rankOf sr.1 cid := by
  intro hist
  induction hist with
  | nil => intro st _ sr h; simp [statesBefore] at h
  | cons e rest ih =>
    obtain ⟨fresh, req⟩ := e
    intro st hf sr h
    simp only [statesBefore, List.mem_cons] at h
    cases h with
    | inl h => rw [h]; exact Nat.le_refl _
    | inr h =>
      have h1 := rankOf_mono cvt st fresh req cid (hf (fresh, req) List.mem_cons_self)
      have h2 := ih _ (fun e he => hf e (List.mem_cons_of_mem _ he)) sr h
      exact Nat.le_trans h1 h2

end VV
