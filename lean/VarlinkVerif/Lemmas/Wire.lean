/-
Lemmas.Wire — helper lemmas about NUL framing, the buffered reader and the
`handle` loop.  The property theorems are in Props/C0x.lean.
-/
import VarlinkVerif.Model.Wire

namespace VV

/-! ### splitNul / frames -/

theorem splitNul_append (a b : Bytes) :
    splitNul (a ++ b) =
      match splitNul a with
      | some (p, q) => some (p, q ++ b)
      | none => (splitNul b).map (fun pq => (a ++ pq.1, pq.2)) := by
  induction a with
  | nil => cases h : splitNul b <;> simp [splitNul, h]
  | cons x xs ih =>
    simp only [List.cons_append, splitNul]
    by_cases hx : x = 0
    · simp [hx]
    · simp only [hx, if_false, ih]
      cases h : splitNul xs with
      | some pq => simp
      | none => cases h2 : splitNul b <;> simp

theorem splitNul_some_eq {bs pre post : Bytes} (h : splitNul bs = some (pre, post)) :
    bs = pre ++ 0 :: post ∧ (0 : UInt8) ∉ pre := by
  induction bs generalizing pre post with
  | nil => simp [splitNul] at h
  | cons x xs ih =>
    simp only [splitNul] at h
    by_cases hx : x = 0
    · simp [hx] at h; obtain ⟨rfl, rfl⟩ := h; simp [hx]
    · simp only [hx, if_false] at h
      cases h2 : splitNul xs with
      | none => simp [h2] at h
      | some pq =>
        obtain ⟨p, q⟩ := pq
        simp [h2] at h
        obtain ⟨rfl, rfl⟩ := h
        obtain ⟨e, hn⟩ := ih h2
        constructor
        · simp [e]
        · simp [hn]; exact fun h => hx h.symm

theorem splitNul_none_iff {bs : Bytes} : splitNul bs = none ↔ (0 : UInt8) ∉ bs := by
  induction bs with
  | nil => simp [splitNul]
  | cons x xs ih =>
    simp only [splitNul]
    by_cases hx : x = 0
    · simp [hx]
    · simp only [hx, if_false]
      cases h2 : splitNul xs with
      | none =>
        simp
        exact ⟨fun h => hx h.symm, ih.mp h2⟩
      | some pq =>
        simp
        intro _
        have := (splitNul_some_eq h2).1
        rw [this]; simp

theorem splitNul_length {bs pre post : Bytes} (h : splitNul bs = some (pre, post)) :
    bs.length = pre.length + 1 + post.length := by
  have := (splitNul_some_eq h).1
  rw [this]; simp; omega

/-- `frames` unfolds along `splitNul` -/
theorem frames_eq (bs : Bytes) :
    frames bs =
      match splitNul bs with
      | none => ([], bs)
      | some (pre, post) => (pre :: (frames post).1, (frames post).2) := by
  induction bs with
  | nil => simp [frames, splitNul]
  | cons x xs ih =>
    simp only [frames, splitNul]
    by_cases hx : x = 0
    · simp [hx]
    · simp only [hx, if_false]
      rw [ih]
      cases h : splitNul xs with
      | none => simp
      | some pq => simp

theorem frames_no_nul {bs : Bytes} (h : (0 : UInt8) ∉ bs) : frames bs = ([], bs) := by
  rw [frames_eq, splitNul_none_iff.mpr h]

theorem frames_tail_no_nul (bs : Bytes) : (0 : UInt8) ∉ (frames bs).2 := by
  induction bs with
  | nil => simp [frames]
  | cons x xs ih =>
    simp only [frames]
    by_cases hx : x = 0
    · simp [hx]; exact ih
    · simp only [hx, if_false]
      cases h : (frames xs).1 with
      | nil =>
        simp
        rw [h] at *
        exact ⟨fun h => hx h.symm, ih⟩
      | cons m ms => simpa using ih

/-- the bytes of a stream are its frames, each followed by a NUL, then the tail -/
def unframes (ms : List Bytes) (t : Bytes) : Bytes :=
  (ms.flatMap fun m => m ++ [0]) ++ t

theorem unframes_frames (bs : Bytes) : unframes (frames bs).1 (frames bs).2 = bs := by
  induction bs with
  | nil => simp [frames, unframes]
  | cons x xs ih =>
    simp only [frames]
    by_cases hx : x = 0
    · simp [hx, unframes] at *; exact ih
    · simp only [hx, if_false]
      cases h : (frames xs).1 with
      | nil => rw [h] at ih; simp [unframes] at *; exact ih
      | cons m ms => rw [h] at ih; simp [unframes] at *; exact ih

/-- framing a stream that continues after an unfinished tail -/
theorem frames_append (a b : Bytes) :
    frames (a ++ b) =
      ((frames a).1 ++ (frames ((frames a).2 ++ b)).1, (frames ((frames a).2 ++ b)).2) := by
  induction a with
  | nil => simp [frames]
  | cons x xs ih =>
    by_cases hx : x = 0
    · subst hx
      have e1 : frames (0 :: xs) = ([] :: (frames xs).1, (frames xs).2) := by simp [frames]
      have e2 : frames (0 :: (xs ++ b)) = ([] :: (frames (xs ++ b)).1, (frames (xs ++ b)).2) := by
        simp [frames]
      rw [List.cons_append, e2, ih, e1]
      simp
    · cases h : (frames xs).1 with
      | nil =>
        have e1 : frames (x :: xs) = ([], x :: (frames xs).2) := by
          simp only [frames, hx, if_false]; rw [h]
        rw [List.cons_append, e1]
        simp only [List.nil_append, List.cons_append]
        have e2 : frames (x :: (xs ++ b)) = frames (x :: ((frames xs).2 ++ b)) := by
          simp only [frames, hx, if_false]
          rw [ih, h]
          simp
        rw [e2]
      | cons m ms =>
        have e1 : frames (x :: xs) = ((x :: m) :: ms, (frames xs).2) := by
          simp only [frames, hx, if_false]; rw [h]
        rw [List.cons_append, e1]
        simp only [frames, hx, if_false]
        rw [ih, h]
        simp

end VV
