/-
Lemmas.Wire — helper lemmas about NUL framing, the buffered reader and the
`handle` loop.  The property theorems are in Props/C0x.lean.
-/
import VarlinkVerif.Model.Wire

namespace VV

/-! ### splitNul / frames -/

theorem splitNul_append (a b : Bytes) :
    splitNul (a ++ b) =
      match splitNul a with
      | some (p, q) => some (p, q ++ b)
      | none => (splitNul b).map (fun pq => (a ++ pq.1, pq.2)) := by
  induction a with
  | nil => cases h : splitNul b <;> simp [splitNul, h]
  | cons x xs ih =>
    simp only [List.cons_append, splitNul]
    by_cases hx : x = 0
    · simp [hx]
    · simp only [hx, if_false, ih]
      cases h : splitNul xs with
      | some pq => simp
      | none => cases h2 : splitNul b <;> simp

theorem splitNul_some_eq {bs pre post : Bytes} (h : splitNul bs = some (pre, post)) :
    bs = pre ++ 0 :: post ∧ (0 : UInt8) ∉ pre := by
  induction bs generalizing pre post with
  | nil => simp [splitNul] at h
  | cons x xs ih =>
    simp only [splitNul] at h
    by_cases hx : x = 0
    · simp [hx] at h; obtain ⟨rfl, rfl⟩ := h; simp [hx]
    · simp only [hx, if_false] at h
      cases h2 : splitNul xs with
      | none => simp [h2] at h
      | some pq =>
        obtain ⟨p, q⟩ := pq
        simp [h2] at h
        obtain ⟨rfl, rfl⟩ := h
        obtain ⟨e, hn⟩ := ih h2
        constructor
        · simp [e]
        · simp [hn]; exact fun h => hx h.symm

theorem splitNul_none_iff {bs : Bytes} : splitNul bs = none ↔ (0 : UInt8) ∉ bs := by
  induction bs with
  | nil => simp [splitNul]
  | cons x xs ih =>
    simp only [splitNul]
    by_cases hx : x = 0
    · simp [hx]
    · simp only [hx, if_false]
      cases h2 : splitNul xs with
      | none =>
        simp
        exact ⟨fun h => hx h.symm, ih.mp h2⟩
      | some pq =>
        simp
        intro _
        have := (splitNul_some_eq h2).1
        rw [this]; simp

theorem splitNul_length {bs pre post : Bytes} (h : splitNul bs = some (pre, post)) :
    bs.length = pre.length + 1 + post.length := by
  have := (splitNul_some_eq h).1
  rw [this]; simp; omega

/-- `frames` unfolds along `splitNul` -/
theorem frames_eq (bs : Bytes) :
    frames bs =
      match splitNul bs with
      | none => ([], bs)
      | some (pre, post) => (pre :: (frames post).1, (frames post).2) := by
  induction bs with
  | nil => simp [frames, splitNul]
  | cons x xs ih =>
    simp only [frames, splitNul]
    by_cases hx : x = 0
    · simp [hx]
    · simp only [hx, if_false]
      rw [ih]
      cases h : splitNul xs with
      | none => simp
      | some pq => simp

theorem frames_no_nul {bs : Bytes} (h : (0 : UInt8) ∉ bs) : frames bs = ([], bs) := by
  rw [frames_eq, splitNul_none_iff.mpr h]

theorem frames_tail_no_nul (bs : Bytes) : (0 : UInt8) ∉ (frames bs).2 := by
  induction bs with
  | nil => simp [frames]
  | cons x xs ih =>
    simp only [frames]
    by_cases hx : x = 0
    · simp [hx]; exact ih
    · simp only [hx, if_false]
      cases h : (frames xs).1 with
      | nil =>
        simp
        rw [h] at *
        exact ⟨fun h => hx h.symm, ih⟩
      | cons m ms => simpa using ih

/-- the bytes of a stream are its frames, each followed by a NUL, then the tail -/
def unframes (ms : List Bytes) (t : Bytes) : Bytes :=
  (ms.flatMap fun m => m ++ [0]) ++ t

theorem unframes_frames (bs : Bytes) : unframes (frames bs).1 (frames bs).2 = bs := by
  induction bs with
  | nil => simp [frames, unframes]
  | cons x xs ih =>
    simp only [frames]
    by_cases hx : x = 0
    · simp [hx, unframes] at *; exact ih
    · simp only [hx, if_false]
      cases h : (frames xs).1 with
      | nil => rw [h] at ih; simp [unframes] at *; exact ih
      | cons m ms => rw [h] at ih; simp [unframes] at *; exact ih

/-- framing a stream that continues after an unfinished tail -/
theorem frames_append (a b : Bytes) :
    frames (a ++ b) =
      ((frames a).1 ++ (frames ((frames a).2 ++ b)).1, (frames ((frames a).2 ++ b)).2) := by
  induction a with
  | nil => simp [frames]
  | cons x xs ih =>
    by_cases hx : x = 0
    · subst hx
      have e1 : frames (0 :: xs) = ([] :: (frames xs).1, (frames xs).2) := by simp [frames]
      have e2 : frames (0 :: (xs ++ b)) = ([] :: (frames (xs ++ b)).1, (frames (xs ++ b)).2) := by
        simp [frames]
      rw [List.cons_append, e2, ih, e1]
      simp
    · cases h : (frames xs).1 with
      | nil =>
        have e1 : frames (x :: xs) = ([], x :: (frames xs).2) := by
          simp only [frames, hx, if_false]; rw [h]
        rw [List.cons_append, e1]
        simp only [List.nil_append, List.cons_append]
        have e2 : frames (x :: (xs ++ b)) = frames (x :: ((frames xs).2 ++ b)) := by
          simp only [frames, hx, if_false]
          rw [ih, h]
          simp
        rw [e2]
      | cons m ms =>
        have e1 : frames (x :: xs) = ((x :: m) :: ms, (frames xs).2) := by
          simp only [frames, hx, if_false]; rw [h]
        rw [List.cons_append, e1]
        simp only [frames, hx, if_false]
        rw [ih, h]
        simp

/-! ### the buffered reader -/

/-- a read schedule in which no delivery is empty (an empty delivery is EOF) -/
def NoEmpty (reads : List Bytes) : Prop := ∀ c ∈ reads, c ≠ []

theorem readUntil_spec (reads : List Bytes) (hne : NoEmpty reads) (buf acc : Bytes) :
    match splitNul (buf ++ reads.flatten) with
    | some (pre, post) =>
      ∃ rd', readUntil buf reads acc = (acc ++ pre, true, rd') ∧
        rd'.buf ++ rd'.reads.flatten = post ∧ NoEmpty rd'.reads
    | none => readUntil buf reads acc = (acc ++ (buf ++ reads.flatten), false, { buf := [], reads := [] }) := by
  induction reads generalizing buf acc with
  | nil =>
    simp only [List.flatten_nil, List.append_nil]
    unfold readUntil
    cases h : splitNul buf with
    | none => simp
    | some pq =>
      obtain ⟨p, q⟩ := pq
      exact ⟨{ buf := q, reads := [] }, by simp, by simp, by simp [NoEmpty]⟩
  | cons c cs ih =>
    have hc : c ≠ [] := hne c (by simp)
    have hcs : NoEmpty cs := fun x hx => hne x (by simp [hx])
    unfold readUntil
    cases h : splitNul buf with
    | some pq =>
      obtain ⟨p, q⟩ := pq
      rw [splitNul_append, h]
      exact ⟨{ buf := q, reads := c :: cs }, by simp, by simp, hne⟩
    | none =>
      simp only [hc, if_false]
      have e : splitNul (buf ++ (c :: cs).flatten) =
          (splitNul (c ++ cs.flatten)).map (fun pq => (buf ++ pq.1, pq.2)) := by
        rw [splitNul_append, h]; simp
      rw [e]
      have := ih hcs c (acc ++ buf)
      cases h2 : splitNul (c ++ cs.flatten) with
      | none =>
        rw [h2] at this
        simp only [Option.map_none]
        rw [this]; simp
      | some pq =>
        obtain ⟨p, q⟩ := pq
        rw [h2] at this
        obtain ⟨rd', e1, e2, e3⟩ := this
        simp only [Option.map_some]
        exact ⟨rd', by rw [e1]; simp, e2, e3⟩

/-- the stream after its first `n` complete messages -/
def afterFrames : Nat → Bytes → Bytes
  | 0, bs => bs
  | n + 1, bs =>
    match splitNul bs with
    | some (_, post) => afterFrames n post
    | none => []

/-! ### `handle` refines `serve` on the frames of the stream -/

theorem handleLoop_spec (c : Consts) (svc : Service) (dec : Bytes → Frame) :
    ∀ (fuel : Nat) (rd : Rd), NoEmpty rd.reads →
      (rd.buf ++ rd.reads.flatten).length < fuel →
      let total := rd.buf ++ rd.reads.flatten
      let o := serve c svc ((frames total).1.map dec)
      let h := handleLoop c svc dec fuel rd
      h.groups = o.groups ∧ h.status = o.status ∧
      (o.status = .eof → h.tail = (frames total).2 ∧ h.rest = []) ∧
      (o.status = .err → h.tail = []) ∧
      (∀ i, o.status = .upgraded i → h.tail ++ h.rest.flatten = afterFrames o.consumed total) := by
  intro fuel
  induction fuel with
  | zero => intro rd _ hlt; simp at hlt
  | succ fuel ih =>
    intro rd hne hlt
    have hsp := readUntil_spec rd.reads hne rd.buf []
    simp only
    rw [frames_eq]
    unfold handleLoop
    cases hs : splitNul (rd.buf ++ rd.reads.flatten) with
    | none =>
      rw [hs] at hsp
      simp only at hsp
      rw [hsp]
      simp [serve]
    | some pq =>
      obtain ⟨pre, post⟩ := pq
      rw [hs] at hsp
      obtain ⟨rd', e1, e2, e3⟩ := hsp
      rw [e1]
      simp only [List.nil_append, List.map_cons]
      have hlen := splitNul_length hs
      cases hd : dec pre with
      | bad => simp [serve]
      | req r =>
        simp only [serve]
        by_cases hok : (callOne c svc r).ok = true
        · simp only [hok, Bool.not_true, Bool.false_eq_true, if_false]
          cases hup : (callOne c svc r).upgraded with
          | some i =>
            simp [afterFrames, hs, e2]
          | none =>
            have hlt' : (rd'.buf ++ rd'.reads.flatten).length < fuel := by
              rw [e2]; omega
            have := ih rd' e3 hlt'
            simp only [e2] at this
            obtain ⟨g, st, t1, t2, t3⟩ := this
            refine ⟨by simp [g], by simp [st], ?_, ?_, ?_⟩
            · intro he; simpa using t1 he
            · intro he; simpa using t2 he
            · intro i he
              have := t3 i he
              simp only [afterFrames, hs]
              simpa using this
        · simp [hok]

theorem handle_spec (c : Consts) (svc : Service) (dec : Bytes → Frame) (reads : List Bytes)
    (hne : NoEmpty reads) :
    let total := reads.flatten
    let o := serve c svc ((frames total).1.map dec)
    let h := handle c svc dec reads
    h.groups = o.groups ∧ h.status = o.status ∧
    (o.status = .eof → h.tail = (frames total).2 ∧ h.rest = []) ∧
    (o.status = .err → h.tail = []) ∧
    (∀ i, o.status = .upgraded i → h.tail ++ h.rest.flatten = afterFrames o.consumed total) := by
  have := handleLoop_spec c svc dec (totalLen reads + 1) { buf := [], reads := reads } hne
    (by simp [totalLen])
  simpa [handle] using this

/-! ### `serve` over concatenated frame lists -/

theorem serve_consumed_le (c : Consts) (svc : Service) (fs : List Frame) :
    (serve c svc fs).consumed ≤ fs.length := by
  induction fs with
  | nil => simp [serve]
  | cons f fs ih =>
    cases f with
    | bad => simp [serve]
    | req r =>
      simp only [serve]
      split
      · simp
      · split <;> simp <;> omega

theorem serve_eof_consumed (c : Consts) (svc : Service) (fs : List Frame)
    (h : (serve c svc fs).status = .eof) : (serve c svc fs).consumed = fs.length := by
  induction fs with
  | nil => simp [serve]
  | cons f fs ih =>
    cases f with
    | bad => simp [serve] at h
    | req r =>
      simp only [serve] at h ⊢
      split at h
      · simp at h
      · split at h
        · simp at h
        · rename_i hok _ hup
          simp only [hok] 
          simp at h ⊢
          exact ih h

theorem serve_append_eof (c : Consts) (svc : Service) (fs1 fs2 : List Frame)
    (h : (serve c svc fs1).status = .eof) :
    serve c svc (fs1 ++ fs2) =
      { groups := (serve c svc fs1).groups ++ (serve c svc fs2).groups,
        status := (serve c svc fs2).status,
        consumed := fs1.length + (serve c svc fs2).consumed } := by
  induction fs1 with
  | nil => simp [serve]
  | cons f fs ih =>
    cases f with
    | bad => simp [serve] at h
    | req r =>
      simp only [serve, List.cons_append] at h ⊢
      split at h
      · simp at h
      · split at h
        · simp at h
        · rename_i hok _ hup
          simp only [hok]
          simp at h
          rw [ih h]
          simp; omega

theorem serve_append_stop (c : Consts) (svc : Service) (fs1 fs2 : List Frame)
    (h : (serve c svc fs1).status ≠ .eof) :
    serve c svc (fs1 ++ fs2) = serve c svc fs1 := by
  induction fs1 with
  | nil => simp [serve] at h
  | cons f fs ih =>
    cases f with
    | bad => simp [serve]
    | req r =>
      simp only [serve, List.cons_append] at h ⊢
      split
      · rfl
      · split
        · rfl
        · rename_i hok _ hup
          simp only [hok, hup] at h
          simp at h
          rw [ih h]

/-! ### afterFrames -/

theorem afterFrames_frames (k : Nat) (b : Bytes) :
    ∀ (n : Nat) (a : Bytes), a.length = n →
      afterFrames ((frames a).1.length + k) (a ++ b) = afterFrames k ((frames a).2 ++ b) := by
  intro n
  induction n using Nat.strongRecOn with
  | _ n ih =>
    intro a ha
    rw [frames_eq]
    cases hs : splitNul a with
    | none => simp
    | some pq =>
      obtain ⟨pre, post⟩ := pq
      have hlen := splitNul_length hs
      simp only [List.length_cons]
      have e : (frames post).1.length + 1 + k = ((frames post).1.length + k) + 1 := by omega
      rw [e]
      simp only [afterFrames]
      rw [splitNul_append, hs]
      simp only
      exact ih post.length (by omega) post rfl

theorem afterFrames_append (b : Bytes) :
    ∀ (n : Nat) (a : Bytes), n ≤ (frames a).1.length →
      afterFrames n (a ++ b) = afterFrames n a ++ b := by
  intro n
  induction n with
  | zero => intro a _; simp [afterFrames]
  | succ n ih =>
    intro a hle
    rw [frames_eq] at hle
    simp only [afterFrames]
    cases hs : splitNul a with
    | none => rw [hs] at hle; simp at hle
    | some pq =>
      obtain ⟨pre, post⟩ := pq
      rw [hs] at hle
      simp only [List.length_cons] at hle
      rw [splitNul_append, hs]
      simp only
      exact ih post (by omega)

/-! ### chop -/

theorem chopFuel_flatten (cap : Nat) : ∀ (f : Nat) (l : Bytes), l.length ≤ f → 0 < cap →
    (chopFuel cap f l).flatten = l := by
  intro f
  induction f with
  | zero => intro l h _; simp at h; simp [chopFuel, h]
  | succ f ih =>
    intro l h hc
    simp only [chopFuel]
    by_cases hl : l = []
    · simp [hl]
    · simp only [hl, if_false]
      have hc0 : cap ≠ 0 := by omega
      simp only [hc0, if_false, List.flatten_cons]
      rw [ih (l.drop cap) (by simp; omega) hc]
      simp

theorem chopFuel_noEmpty (cap : Nat) : ∀ (f : Nat) (l : Bytes), 0 < cap →
    NoEmpty (chopFuel cap f l) := by
  intro f
  induction f with
  | zero => intro l _; simp [chopFuel, NoEmpty]
  | succ f ih =>
    intro l hc
    simp only [chopFuel]
    by_cases hl : l = []
    · simp [hl, NoEmpty]
    · simp only [hl, if_false]
      have hc0 : cap ≠ 0 := by omega
      simp only [hc0, if_false]
      intro x hx
      simp at hx
      cases hx with
      | inl h => 
        rw [h]
        intro e
        have := congrArg List.length e
        simp at this
        cases this with
        | inl h => omega
        | inr h => exact hl h
      | inr h => exact ih (l.drop cap) hc x h

theorem chop_flatten (cap : Nat) (l : Bytes) (hc : 0 < cap) : (chop cap l).flatten = l :=
  chopFuel_flatten cap l.length l (Nat.le_refl _) hc

theorem chop_noEmpty (cap : Nat) (l : Bytes) (hc : 0 < cap) : NoEmpty (chop cap l) :=
  chopFuel_noEmpty cap l.length l hc

/-! ### the re-feeding loop refines `serve` on the frames of the whole stream -/

def FeedInv (c : Consts) (svc : Service) (dec : Bytes → Frame) (total : Bytes) (st : FeedSt) : Prop :=
  let o := serve c svc ((frames total).1.map dec)
  st.out = o.groups.flatten ∧
  match o.status with
  | .eof => st.status = .eof ∧ st.tail = (frames total).2 ∧ st.iface = none ∧
      st.stopped = false ∧ st.seen = [] ∧ st.dropped = []
  | .err => st.status = .err ∧ st.stopped = true
  | .upgraded i => st.status = .upgraded i ∧ st.iface = some i ∧ st.stopped = false ∧
      (st.dropped = [] → st.seen ++ st.tail = afterFrames o.consumed total)

theorem feedStep_inv (c : Consts) (svc : Service) (dec : Bytes → Frame) (cap : Nat) (hc : 0 < cap)
    (total chunk : Bytes) (st : FeedSt) (h : FeedInv c svc dec total st) :
    FeedInv c svc dec (total ++ chunk) (feedStep c svc dec cap st chunk) := by
  unfold FeedInv at h ⊢
  obtain ⟨hout, hst⟩ := h
  simp only at hout hst ⊢
  have hfr := frames_append total chunk
  have hmap : (frames (total ++ chunk)).1.map dec =
      (frames total).1.map dec ++ (frames ((frames total).2 ++ chunk)).1.map dec := by
    rw [hfr]; simp
  cases hs : (serve c svc ((frames total).1.map dec)).status with
  | err =>
    rw [hs] at hst
    obtain ⟨h1, h2⟩ := hst
    have hstop := serve_append_stop c svc ((frames total).1.map dec)
      ((frames ((frames total).2 ++ chunk)).1.map dec) (by rw [hs]; simp)
    rw [hmap, hstop, hs]
    simp [feedStep, h2, hout, h1]
  | upgraded i =>
    rw [hs] at hst
    obtain ⟨h1, h2, h3, h4⟩ := hst
    have hstop := serve_append_stop c svc ((frames total).1.map dec)
      ((frames ((frames total).2 ++ chunk)).1.map dec) (by rw [hs]; simp)
    rw [hmap, hstop, hs]
    have hle : (serve c svc ((frames total).1.map dec)).consumed ≤ (frames total).1.length := by
      have := serve_consumed_le c svc ((frames total).1.map dec)
      simpa using this
    simp only [feedStep, h3, h2]
    refine ⟨hout, rfl, rfl, rfl, ?_⟩
    intro hd
    rw [afterFrames_append chunk _ total hle, ← h4 hd]
    simp
  | eof =>
    rw [hs] at hst
    obtain ⟨h1, h2, h3, h4, h5, h6⟩ := hst
    have happ := serve_append_eof c svc ((frames total).1.map dec)
      ((frames ((frames total).2 ++ chunk)).1.map dec) hs
    rw [hmap, happ]
    simp only [feedStep, h4, h3, h2]
    have hsp := handle_spec c svc dec (chop cap ((frames total).2 ++ chunk))
      (chop_noEmpty cap _ hc)
    simp only [chop_flatten cap _ hc] at hsp
    obtain ⟨g, s, t1, t2, t3⟩ := hsp
    simp only [Bool.false_eq_true, if_false]
    cases hs2 : (serve c svc ((frames ((frames total).2 ++ chunk)).1.map dec)).status with
    | err =>
      rw [hs2] at s
      simp only [s]
      simp [hout, g]
    | eof =>
      rw [hs2] at s
      simp only [s]
      have := t1 hs2
      simp [hout, g, this.1, hfr, h5, h6]
    | upgraded i =>
      rw [hs2] at s
      simp only [s]
      have := t3 i hs2
      refine ⟨by simp [hout, g], trivial, trivial, trivial, ?_⟩
      intro hd
      simp only [h6, List.nil_append] at hd
      simp only [h5, List.nil_append]
      rw [hd, List.append_nil] at this
      rw [this]
      have e := afterFrames_frames
        (serve c svc ((frames ((frames total).2 ++ chunk)).1.map dec)).consumed chunk
        total.length total rfl
      simp only [List.length_map]
      rw [e]

theorem feed_inv_from (c : Consts) (svc : Service) (dec : Bytes → Frame) (cap : Nat) (hc : 0 < cap)
    (chunks : List Bytes) : ∀ (total : Bytes) (st : FeedSt), FeedInv c svc dec total st →
      FeedInv c svc dec (total ++ chunks.flatten) (chunks.foldl (feedStep c svc dec cap) st) := by
  induction chunks with
  | nil => intro total st h; simpa using h
  | cons ch chs ih =>
    intro total st h
    have := ih (total ++ ch) _ (feedStep_inv c svc dec cap hc total ch st h)
    simpa [List.foldl] using this

theorem feed_inv (c : Consts) (svc : Service) (dec : Bytes → Frame) (cap : Nat) (hc : 0 < cap)
    (chunks : List Bytes) : FeedInv c svc dec chunks.flatten (feed c svc dec cap chunks) := by
  have h0 : FeedInv c svc dec [] ({} : FeedSt) := by
    simp [FeedInv, frames, serve]
  have := feed_inv_from c svc dec cap hc chunks [] {} h0
  simpa [feed] using this

/-! ### nothing is left in the caller's reader when the input fits into one read -/

theorem readUntil_reads_nil (buf acc : Bytes) : (readUntil buf [] acc).2.2.reads = [] := by
  unfold readUntil
  cases splitNul buf with
  | none => simp
  | some pq => simp

theorem handleLoop_rest_nil (c : Consts) (svc : Service) (dec : Bytes → Frame) :
    ∀ (fuel : Nat) (rd : Rd), rd.reads = [] → (handleLoop c svc dec fuel rd).rest = [] := by
  intro fuel
  induction fuel with
  | zero => intro rd h; simp [handleLoop, h]
  | succ fuel ih =>
    intro rd h
    unfold handleLoop
    have hr := readUntil_reads_nil rd.buf []
    rw [h]
    generalize hq : readUntil rd.buf [] [] = q at hr
    obtain ⟨msg, found, rd'⟩ := q
    simp only at hr
    cases found with
    | false => simp [hr]
    | true =>
      simp only
      cases dec msg with
      | bad => simp [hr]
      | req r =>
        simp only
        split
        · simp [hr]
        · split
          · simp [hr]
          · simp only
            exact ih rd' hr

theorem handle_single_rest_nil (c : Consts) (svc : Service) (dec : Bytes → Frame) (inp : Bytes) :
    (handle c svc dec [inp]).rest = [] := by
  unfold handle
  generalize hf : totalLen [inp] = fuel
  clear hf
  show (handleLoop c svc dec (fuel + 1) { buf := [], reads := [inp] }).rest = []
  · unfold handleLoop
    by_cases hi : inp = []
    · subst hi
      simp [readUntil, splitNul]
    · have e : readUntil [] [inp] [] = readUntil inp [] [] := by
        conv => lhs; unfold readUntil
        simp [splitNul, hi]
      simp only
      rw [e]
      have hr := readUntil_reads_nil inp []
      generalize hq : readUntil inp [] [] = q at hr
      obtain ⟨msg, found, rd'⟩ := q
      simp only at hr
      cases found with
      | false => simp [hr]
      | true =>
        simp only
        cases dec msg with
        | bad => simp [hr]
        | req r =>
          simp only
          split
          · simp [hr]
          · split
            · simp [hr]
            · simp only
              exact handleLoop_rest_nil c svc dec fuel rd' hr

theorem chop_fits (cap : Nat) (inp : Bytes) (hc : 0 < cap) (hl : inp.length ≤ cap) :
    chop cap inp = if inp = [] then [] else [inp] := by
  unfold chop
  cases h : inp.length with
  | zero =>
    have : inp = [] := List.eq_nil_of_length_eq_zero h
    simp [this, chopFuel]
  | succ n =>
    have hne : inp ≠ [] := by intro e; simp [e] at h
    have hc0 : cap ≠ 0 := by omega
    simp only [chopFuel, hne, if_false, hc0]
    have ht : inp.take cap = inp := List.take_of_length_le hl
    have hd : inp.drop cap = [] := List.drop_of_length_le hl
    rw [ht, hd]
    cases n <;> simp [chopFuel]

theorem handle_chop_fits_rest_nil (c : Consts) (svc : Service) (dec : Bytes → Frame) (cap : Nat)
    (inp : Bytes) (hc : 0 < cap) (hl : inp.length ≤ cap) :
    (handle c svc dec (chop cap inp)).rest = [] := by
  rw [chop_fits cap inp hc hl]
  by_cases hi : inp = []
  · simp [hi, handle, totalLen, handleLoop, readUntil, splitNul]
  · simp only [hi, if_false]
    exact handle_single_rest_nil c svc dec inp

theorem frames_snd_length_le (bs : Bytes) : (frames bs).2.length ≤ bs.length := by
  have := unframes_frames bs
  have hl := congrArg List.length this
  simp only [unframes, List.length_append] at hl
  omega

theorem afterFrames_length_le : ∀ (n : Nat) (bs : Bytes), (afterFrames n bs).length ≤ bs.length := by
  intro n
  induction n with
  | zero => intro bs; simp [afterFrames]
  | succ n ih =>
    intro bs
    simp only [afterFrames]
    cases h : splitNul bs with
    | none => simp
    | some pq =>
      obtain ⟨pre, post⟩ := pq
      have := splitNul_length h
      have := ih post
      simp only
      omega

theorem feedStep_fields (c : Consts) (svc : Service) (dec : Bytes → Frame) (cap : Nat)
    (st : FeedSt) (ch : Bytes) (hns : st.stopped = false) (hif : st.iface = none) :
    (feedStep c svc dec cap st ch).dropped =
      (match (handle c svc dec (chop cap (st.tail ++ ch))).status with
       | .upgraded _ => st.dropped ++ (handle c svc dec (chop cap (st.tail ++ ch))).rest.flatten
       | _ => st.dropped) ∧
    (feedStep c svc dec cap st ch).tail =
      (match (handle c svc dec (chop cap (st.tail ++ ch))).status with
       | .err => []
       | _ => (handle c svc dec (chop cap (st.tail ++ ch))).tail) := by
  simp only [feedStep, hns, hif, Bool.false_eq_true, if_false]
  cases (handle c svc dec (chop cap (st.tail ++ ch))).status <;> simp

/-- the documented loop loses nothing as long as every input of a `handle` call fits into the
    internal buffer (here: the whole stream does) -/
theorem feed_nothing_dropped (c : Consts) (svc : Service) (dec : Bytes → Frame) (cap : Nat) (hc : 0 < cap)
    (chunks : List Bytes) :
    ∀ (st : FeedSt) (used : Nat), st.dropped = [] → st.tail.length ≤ used →
      used + chunks.flatten.length ≤ cap →
      (chunks.foldl (feedStep c svc dec cap) st).dropped = [] := by
  induction chunks with
  | nil => intro st used h _ _; simpa using h
  | cons ch chs ih =>
    intro st used hd ht hcap
    simp only [List.foldl]
    simp only [List.flatten_cons, List.length_append] at hcap
    have hfit : (st.tail ++ ch).length ≤ cap := by simp; omega
    have key : (feedStep c svc dec cap st ch).dropped = [] ∧
        (feedStep c svc dec cap st ch).tail.length ≤ used + ch.length := by
      by_cases hs : st.stopped = true
      · simp [feedStep, hs, hd]; omega
      · have hns : st.stopped = false := by simpa using hs
        cases hif : st.iface with
        | some i => simp [feedStep, hns, hif, hd]
        | none =>
          obtain ⟨e1, e2⟩ := feedStep_fields c svc dec cap st ch hns hif
          have hsp := handle_spec c svc dec (chop cap (st.tail ++ ch)) (chop_noEmpty cap _ hc)
          simp only [chop_flatten cap _ hc] at hsp
          obtain ⟨_, s, t1, _, t3⟩ := hsp
          have hr := handle_chop_fits_rest_nil c svc dec cap (st.tail ++ ch) hc hfit
          rw [e1, e2]
          cases hst : (handle c svc dec (chop cap (st.tail ++ ch))).status with
          | err => simp [hd]
          | eof =>
            rw [s] at hst
            have := (t1 hst).1
            have hl := frames_snd_length_le (st.tail ++ ch)
            simp only [hd, this, true_and]
            simp at hl ⊢; omega
          | upgraded i =>
            rw [s] at hst
            have := t3 i hst
            rw [hr] at this
            simp only [List.flatten_nil, List.append_nil] at this
            have hl := afterFrames_length_le
              (serve c svc ((frames (st.tail ++ ch)).1.map dec)).consumed (st.tail ++ ch)
            simp only [hd, hr, this, List.flatten_nil, List.append_nil, true_and]
            simp at hl ⊢; omega
    exact ih (feedStep c svc dec cap st ch) (used + ch.length) key.1 key.2 (by omega)

end VV
