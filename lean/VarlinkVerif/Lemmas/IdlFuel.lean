/-
Lemmas.IdlFuel — no rule result depends on the fuel once the fuel exceeds the length
of the input (the termination argument of the grammar: every iteration of every
starred expression and every recursive descent into `type_` consumes input).
-/
import VarlinkVerif.Lemmas.IdlPeg

namespace VV.Idl

/-- a rule with a value whose remaining input is not longer than its input -/
def NoGrow {α : Type} (p : Input → Option (α × Input)) : Prop :=
  ∀ s a r, p s = some (a, r) → r.length ≤ s.length

theorem Shrinks.noGrow {α} {p : Input → Option (α × Input)} (h : Shrinks p) : NoGrow p :=
  fun s a r hp => Nat.le_of_lt (h s a r hp)

theorem chr_eq {x : Char} {s r : Input} (h : chr x s = some r) : s = x :: r := by
  cases s with
  | nil => simp [chr] at h
  | cons c s =>
    simp only [chr] at h
    split at h
    · rename_i hc; simp only [Option.some.injEq] at h; subst h; rw [hc]
    · simp at h

theorem chr_cons (x c : Char) (s : Input) : chr x (c :: s) = if c = x then some s else none := rfl

theorem lit_eq : ∀ {l : Str} {s r : Input}, lit l s = some r → s = l ++ r
  | [], s, r, h => by simp [lit] at h; simp [h]
  | c :: l, [], r, h => by simp [lit] at h
  | c :: l, d :: s, r, h => by
    simp only [lit] at h
    split at h
    · rename_i hc
      have := lit_eq h
      simp [hc, this]
    · simp at h

theorem lit_append (l : Str) (r : Input) : lit l (l ++ r) = some r := by
  induction l with
  | nil => simp [lit]
  | cons c l ih => simp [lit, ih]

theorem lit_le {l : Str} {s r : Input} (h : lit l s = some r) : r.length ≤ s.length := by
  rw [lit_eq h, List.length_append]; omega

theorem wceStarF_split (n s) : s = (wceStarF n s).1 ++ (wceStarF n s).2 := manyF_split good_wce n s
theorem wceStarF_le (n s) : (wceStarF n s).2.length ≤ s.length := manyF_length_le good_wce n s
theorem wceStarF_fuel (n m s) (hn : s.length ≤ n) (hm : s.length ≤ m) : wceStarF n s = wceStarF m s :=
  manyF_fuel good_wce n m s hn hm

theorem wcePlusF_fuel (n m s) (hn : s.length ≤ n) (hm : s.length ≤ m) : wcePlusF n s = wcePlusF m s := by
  simp only [wcePlusF]
  split
  · rename_i t r h
    have := good_wce.shrinks _ _ _ h
    rw [wceStarF_fuel n m r (by omega) (by omega)]
  · rfl

theorem wcePlusF_split {n s t r} (h : wcePlusF n s = some (t, r)) : s = t ++ r ∧ t ≠ [] := by
  simp only [wcePlusF] at h
  split at h
  · rename_i t0 r0 h0
    simp only [Option.some.injEq, Prod.mk.injEq] at h
    obtain ⟨rfl, rfl⟩ := h
    obtain ⟨hs, hne⟩ := good_wce _ _ _ h0
    refine ⟨?_, by simp [hne]⟩
    rw [List.append_assoc, ← wceStarF_split]; exact hs
  · simp at h

theorem fieldNameF_fuel (n m s) (hn : s.length ≤ n) (hm : s.length ≤ m) : fieldNameF n s = fieldNameF m s := by
  cases s with
  | nil => rfl
  | cons c s =>
    simp only [fieldNameF]
    simp only [List.length_cons] at hn hm
    rw [manyF_fuel good_fieldNameStep n m s (by omega) (by omega)]

theorem dotLabelF_fuel (n m s) (hn : s.length ≤ n) (hm : s.length ≤ m) : dotLabelF n s = dotLabelF m s := by
  match s with
  | [] => rfl
  | [_] => rfl
  | c :: d :: s =>
    simp only [dotLabelF]
    simp only [List.length_cons] at hn hm
    rw [manyF_fuel good_labelStep n m s (by omega) (by omega)]

/-- `manyF` over a fuel-indexed family of rules -/
theorem manyF_fuel₂ {p q : Input → Option (Str × Input)} (hp : Good p) (hq : Good q) :
    ∀ n m s, s.length ≤ n → s.length ≤ m → (∀ x, x.length ≤ s.length → p x = q x) →
      manyF p n s = manyF q m s := by
  intro n
  induction n with
  | zero =>
    intro m s hn hm hpq
    have : s = [] := List.eq_nil_of_length_eq_zero (by omega)
    subst this
    rw [manyF_fuel hq m 0 [] (by simp) (by simp)]
    rfl
  | succ n ih =>
    intro m s hn hm hpq
    cases m with
    | zero =>
      have : s = [] := List.eq_nil_of_length_eq_zero (by omega)
      subst this
      rw [manyF_fuel hp (n + 1) 0 [] (by simp) (by simp)]
      rfl
    | succ m =>
      simp only [manyF]
      rw [← hpq s (Nat.le_refl _)]
      split
      · rename_i t r h
        have hsh := hp.shrinks _ _ _ h
        rw [ih m r (by omega) (by omega) (fun x hx => hpq x (by omega))]
      · rfl

theorem interfaceNameF_fuel (n m s) (hn : s.length ≤ n) (hm : s.length ≤ m) :
    interfaceNameF n s = interfaceNameF m s := by
  cases s with
  | nil => rfl
  | cons c s =>
    simp only [interfaceNameF]
    simp only [List.length_cons] at hn hm
    rw [manyF_fuel good_labelStep n m s (by omega) (by omega)]
    have hle := manyF_length_le good_labelStep m s
    rw [dotLabelF_fuel n m _ (by omega) (by omega)]
    split
    · split
      · rename_i t1 r1 h1
        have hsh := (good_dotLabelF m).shrinks _ _ _ h1
        rw [manyF_fuel₂ (good_dotLabelF n) (good_dotLabelF m) n m r1 (by omega) (by omega)
          (fun x hx => dotLabelF_fuel n m x (by omega) (by omega))]
      · rfl
    · rfl

/-! ### separated lists -/

/-- a separator that consumes input -/
def SepShrinks (sep : Input → Option Input) : Prop := ∀ s r, sep s = some r → r.length < s.length

theorem sepTailF_le {α} {p : Input → Option (α × Input)} {sep} (hp : NoGrow p) (hs : SepShrinks sep) :
    ∀ n s, (sepTailF p sep n s).2.length ≤ s.length := by
  intro n
  induction n with
  | zero => intro s; simp [sepTailF]
  | succ n ih =>
    intro s
    simp only [sepTailF]
    split
    · simp
    · rename_i s1 h1
      split
      · simp
      · rename_i a s2 h2
        have := hs _ _ h1
        have := hp _ _ _ h2
        have := ih s2
        simp only
        omega

theorem sepByF_le {α} {p : Input → Option (α × Input)} {sep} (hp : NoGrow p) (hs : SepShrinks sep)
    (n s) : (sepByF p sep n s).2.length ≤ s.length := by
  simp only [sepByF]
  split
  · simp
  · rename_i a s1 h1
    have := hp _ _ _ h1
    have := sepTailF_le hp hs n s1
    simp only
    omega

theorem sepTailF_congr {α} {p1 p2 : Input → Option (α × Input)} {sep1 sep2 : Input → Option Input}
    (hp : NoGrow p1) (hs : SepShrinks sep1) :
    ∀ n m s, s.length ≤ n → s.length ≤ m →
      (∀ x, x.length ≤ s.length → sep1 x = sep2 x) → (∀ x, x.length < s.length → p1 x = p2 x) →
      sepTailF p1 sep1 n s = sepTailF p2 sep2 m s := by
  intro n
  induction n with
  | zero =>
    intro m s hn hm hsep hpp
    have : s = [] := List.eq_nil_of_length_eq_zero (by omega)
    subst this
    cases m with
    | zero => rfl
    | succ m =>
      simp only [sepTailF]
      rw [← hsep [] (by simp)]
      cases h : sep1 [] with
      | none => rfl
      | some r => have := hs _ _ h; simp at this
  | succ n ih =>
    intro m s hn hm hsep hpp
    cases m with
    | zero =>
      have : s = [] := List.eq_nil_of_length_eq_zero (by omega)
      subst this
      simp only [sepTailF]
      cases h : sep1 [] with
      | none => rfl
      | some r => have := hs _ _ h; simp at this
    | succ m =>
      simp only [sepTailF]
      rw [← hsep s (Nat.le_refl _)]
      split
      · rfl
      · rename_i s1 h1
        have hl1 := hs _ _ h1
        rw [← hpp s1 hl1]
        split
        · rfl
        · rename_i a s2 h2
          have hl2 := hp _ _ _ h2
          rw [ih m s2 (by omega) (by omega) (fun x hx => hsep x (by omega)) (fun x hx => hpp x (by omega))]

theorem sepByF_congr {α} {p1 p2 : Input → Option (α × Input)} {sep1 sep2 : Input → Option Input}
    (hp : NoGrow p1) (hs : SepShrinks sep1) (n m s) (hn : s.length ≤ n) (hm : s.length ≤ m)
    (hsep : ∀ x, x.length ≤ s.length → sep1 x = sep2 x) (hpp : ∀ x, x.length ≤ s.length → p1 x = p2 x) :
    sepByF p1 sep1 n s = sepByF p2 sep2 m s := by
  simp only [sepByF]
  rw [← hpp s (Nat.le_refl _)]
  split
  · rfl
  · rename_i a s1 h1
    have := hp _ _ _ h1
    rw [sepTailF_congr hp hs n m s1 (by omega) (by omega) (fun x hx => hsep x (by omega))
      (fun x hx => hpp x (by omega))]

theorem sepShrinks_chr (x : Char) : SepShrinks (chr x) := by
  intro s r h
  rw [chr_eq h]; simp


/-! ### structs, enums, types -/

theorem sepShrinks_enumSep (n : Nat) : SepShrinks (enumSep n) := by
  intro s r h
  simp only [enumSep, Option.map_eq_some_iff] at h
  obtain ⟨y, hy, rfl⟩ := h
  have := wceStarF_le n y
  rw [chr_eq hy]; simp; omega

theorem enumSep_fuel (n m x) (hn : x.length ≤ n) (hm : x.length ≤ m) : enumSep n x = enumSep m x := by
  simp only [enumSep]
  cases h : chr ',' x with
  | none => rfl
  | some y =>
    have := chr_eq h
    subst this
    simp only [List.length_cons] at hn hm
    simp only [Option.map_some]
    rw [wceStarF_fuel n m y (by omega) (by omega)]

theorem noGrow_fieldNameF (n : Nat) : NoGrow (fieldNameF n) := (good_fieldNameF n).shrinks.noGrow

theorem venumF_shrinks (n : Nat) : Shrinks (venumF n) := by
  intro s a r h
  simp only [venumF] at h
  split at h
  · simp at h
  · rename_i s1 h1
    have e1 := chr_eq h1
    split at h
    · rename_i r' h2
      simp only [Option.some.injEq, Prod.mk.injEq] at h
      obtain ⟨_, rfl⟩ := h
      have e2 := chr_eq h2
      have l1 := wceStarF_le n s1
      have l2 := sepByF_le (noGrow_fieldNameF n) (sepShrinks_enumSep n) n (wceStarF n s1).2
      have l3 := wceStarF_le n (sepByF (fieldNameF n) (enumSep n) n (wceStarF n s1).2).2
      have l4 := congrArg List.length e2
      simp only [List.length_cons] at l4
      subst e1
      simp only [List.length_cons]
      omega
    · simp at h

theorem venumF_fuel (n m s) (hn : s.length ≤ n) (hm : s.length ≤ m) : venumF n s = venumF m s := by
  simp only [venumF]
  split
  · rfl
  · rename_i s1 h1
    have e1 := chr_eq h1
    subst e1
    simp only [List.length_cons] at hn hm
    have l1 := wceStarF_le m s1
    rw [wceStarF_fuel n m s1 (by omega) (by omega)]
    have := sepByF_congr (p1 := fieldNameF n) (p2 := fieldNameF m) (sep1 := enumSep n) (sep2 := enumSep m)
      (noGrow_fieldNameF n) (sepShrinks_enumSep n) n m (wceStarF m s1).2 (by omega) (by omega)
      (fun x hx => enumSep_fuel n m x (by omega) (by omega))
      (fun x hx => fieldNameF_fuel n m x (by omega) (by omega))
    rw [this]
    have l2 := sepByF_le (noGrow_fieldNameF m) (sepShrinks_enumSep m) m (wceStarF m s1).2
    rw [wceStarF_fuel n m _ (by omega) (by omega)]

theorem objectFieldF_shrinks (n : Nat) {ty : Input → Option (Ty × Input)} (hty : NoGrow ty) :
    Shrinks (objectFieldF n ty) := by
  intro s a r h
  simp only [objectFieldF] at h
  split at h
  · simp at h
  · rename_i f s1 h1
    split at h
    · simp at h
    · rename_i s2 h2
      split at h
      · simp at h
      · rename_i t r' h3
        simp only [Option.some.injEq, Prod.mk.injEq] at h
        obtain ⟨_, rfl⟩ := h
        have l0 := wceStarF_le n s
        have l1 := (good_fieldNameF n).shrinks _ _ _ h1
        have l2 := wceStarF_le n s1
        have e2 := congrArg List.length (chr_eq h2)
        simp only [List.length_cons] at e2
        have l3 := wceStarF_le n s2
        have l4 := hty _ _ _ h3
        omega

theorem objectFieldF_congr (n m : Nat) {ty1 ty2 : Input → Option (Ty × Input)} (s : Input)
    (hn : s.length ≤ n) (hm : s.length ≤ m) (hty : ∀ y, y.length < s.length → ty1 y = ty2 y) :
    objectFieldF n ty1 s = objectFieldF m ty2 s := by
  simp only [objectFieldF]
  have l0 := wceStarF_le m s
  rw [wceStarF_fuel n m s hn hm, fieldNameF_fuel n m _ (by omega) (by omega)]
  split
  · rfl
  · rename_i f s1 h1
    have l1 := (good_fieldNameF m).shrinks _ _ _ h1
    have l2 := wceStarF_le m s1
    rw [wceStarF_fuel n m s1 (by omega) (by omega)]
    split
    · rfl
    · rename_i s2 h2
      have e2 := congrArg List.length (chr_eq h2)
      simp only [List.length_cons] at e2
      have l3 := wceStarF_le m s2
      rw [wceStarF_fuel n m s2 (by omega) (by omega), hty _ (by omega)]

theorem vstructF_shrinks (n : Nat) {ty : Input → Option (Ty × Input)} (hty : NoGrow ty) :
    Shrinks (vstructF n ty) := by
  intro s a r h
  simp only [vstructF] at h
  split at h
  · simp at h
  · rename_i s1 h1
    have e1 := chr_eq h1
    split at h
    · rename_i r' h2
      simp only [Option.some.injEq, Prod.mk.injEq] at h
      obtain ⟨_, rfl⟩ := h
      have e2 := congrArg List.length (chr_eq h2)
      simp only [List.length_cons] at e2
      have l1 := wceStarF_le n s1
      have l2 := sepByF_le (objectFieldF_shrinks n hty).noGrow (sepShrinks_chr ',') n (wceStarF n s1).2
      have l3 := wceStarF_le n (sepByF (objectFieldF n ty) (chr ',') n (wceStarF n s1).2).2
      subst e1
      simp only [List.length_cons]
      omega
    · simp at h

theorem vstructF_congr (n m : Nat) {ty1 ty2 : Input → Option (Ty × Input)} (hty1 : NoGrow ty1) (s : Input)
    (hn : s.length ≤ n) (hm : s.length ≤ m) (hty : ∀ y, y.length < s.length → ty1 y = ty2 y) :
    vstructF n ty1 s = vstructF m ty2 s := by
  simp only [vstructF]
  split
  · rfl
  · rename_i s1 h1
    have e1 := chr_eq h1
    subst e1
    simp only [List.length_cons] at hn hm hty
    have l1 := wceStarF_le m s1
    rw [wceStarF_fuel n m s1 (by omega) (by omega)]
    rw [sepByF_congr (p1 := objectFieldF n ty1) (p2 := objectFieldF m ty2) (sep1 := chr ',') (sep2 := chr ',')
      (objectFieldF_shrinks n hty1).noGrow (sepShrinks_chr ',') n m (wceStarF m s1).2 (by omega) (by omega)
      (fun _ _ => rfl)
      (fun x hx => objectFieldF_congr n m x (by omega) (by omega) (fun y hy => hty y (by omega)))]
    have hty2 : NoGrow ty2 → True := fun _ => trivial
    have l2 : (sepByF (objectFieldF m ty2) (chr ',') m (wceStarF m s1).2).2.length ≤ (wceStarF m s1).2.length := by
      rw [← sepByF_congr (p1 := objectFieldF n ty1) (p2 := objectFieldF m ty2) (sep1 := chr ',') (sep2 := chr ',')
        (objectFieldF_shrinks n hty1).noGrow (sepShrinks_chr ',') n m (wceStarF m s1).2 (by omega) (by omega)
        (fun _ _ => rfl)
        (fun x hx => objectFieldF_congr n m x (by omega) (by omega) (fun y hy => hty y (by omega)))]
      exact sepByF_le (objectFieldF_shrinks n hty1).noGrow (sepShrinks_chr ',') n _
    rw [wceStarF_fuel n m _ (by omega) (by omega)]

theorem lit_shrinks {l : Str} (hl : l ≠ []) {s r : Input} (h : lit l s = some r) : r.length < s.length := by
  rw [lit_eq h]
  cases l with
  | nil => exact absurd rfl hl
  | cons c l => simp; omega

theorem btypeF_shrinks (n : Nat) {ty : Input → Option (Ty × Input)} (hty : NoGrow ty) :
    Shrinks (btypeF n ty) := by
  intro s a r h
  simp only [btypeF] at h
  split at h
  · rename_i r' h'; simp only [Option.some.injEq, Prod.mk.injEq] at h; obtain ⟨_, rfl⟩ := h
    exact lit_shrinks (by decide) h'
  split at h
  · rename_i r' h'; simp only [Option.some.injEq, Prod.mk.injEq] at h; obtain ⟨_, rfl⟩ := h
    exact lit_shrinks (by decide) h'
  split at h
  · rename_i r' h'; simp only [Option.some.injEq, Prod.mk.injEq] at h; obtain ⟨_, rfl⟩ := h
    exact lit_shrinks (by decide) h'
  split at h
  · rename_i r' h'; simp only [Option.some.injEq, Prod.mk.injEq] at h; obtain ⟨_, rfl⟩ := h
    exact lit_shrinks (by decide) h'
  split at h
  · rename_i r' h'; simp only [Option.some.injEq, Prod.mk.injEq] at h; obtain ⟨_, rfl⟩ := h
    exact lit_shrinks (by decide) h'
  split at h
  · rename_i t r' h'; simp only [Option.some.injEq, Prod.mk.injEq] at h; obtain ⟨_, rfl⟩ := h
    exact good_name.shrinks _ _ _ h'
  split at h
  · rename_i f r' h'; simp only [Option.some.injEq, Prod.mk.injEq] at h; obtain ⟨_, rfl⟩ := h
    exact vstructF_shrinks n hty _ _ _ h'
  split at h
  · rename_i e r' h'; simp only [Option.some.injEq, Prod.mk.injEq] at h; obtain ⟨_, rfl⟩ := h
    exact venumF_shrinks n _ _ _ h'
  · simp at h

theorem btypeF_congr (n m : Nat) {ty1 ty2 : Input → Option (Ty × Input)} (hty1 : NoGrow ty1) (s : Input)
    (hn : s.length ≤ n) (hm : s.length ≤ m) (hty : ∀ y, y.length < s.length → ty1 y = ty2 y) :
    btypeF n ty1 s = btypeF m ty2 s := by
  simp only [btypeF]
  rw [vstructF_congr n m hty1 s hn hm hty, venumF_fuel n m s hn hm]

theorem typeF_shrinks : ∀ n, Shrinks (typeF n) := by
  intro n
  induction n with
  | zero => intro s a r h; simp [typeF] at h
  | succ n ih =>
    intro s a r h
    have hb := btypeF_shrinks n ih.noGrow
    simp only [typeF] at h
    split at h
    · rename_i x hx; simp only [Option.some.injEq] at h; subst h; exact hb _ _ _ hx
    split at h
    · rename_i t r' h'
      simp only [Option.some.injEq, Prod.mk.injEq] at h; obtain ⟨_, rfl⟩ := h
      simp only [Option.bind_eq_some_iff] at h'
      obtain ⟨s1, h1, h2⟩ := h'
      have := lit_shrinks (by decide) h1
      have := ih _ _ _ h2
      omega
    split at h
    · rename_i t r' h'
      simp only [Option.some.injEq, Prod.mk.injEq] at h; obtain ⟨_, rfl⟩ := h
      simp only [Option.bind_eq_some_iff] at h'
      obtain ⟨s1, h1, h2⟩ := h'
      have := lit_shrinks (by decide) h1
      have := ih _ _ _ h2
      omega
    split at h
    · rename_i t r' h'
      simp only [Option.some.injEq, Prod.mk.injEq] at h; obtain ⟨_, rfl⟩ := h
      simp only [Option.bind_eq_some_iff] at h'
      obtain ⟨s1, h1, h2⟩ := h'
      have := lit_shrinks (by decide) h1
      have := hb _ _ _ h2
      omega
    split at h
    · rename_i t r' h'
      simp only [Option.some.injEq, Prod.mk.injEq] at h; obtain ⟨_, rfl⟩ := h
      simp only [Option.bind_eq_some_iff] at h'
      obtain ⟨s2, ⟨s1, h1, h1'⟩, h2⟩ := h'
      have := lit_shrinks (by decide) h1
      have := lit_shrinks (by decide) h1'
      have := ih _ _ _ h2
      omega
    split at h
    · rename_i t r' h'
      simp only [Option.some.injEq, Prod.mk.injEq] at h; obtain ⟨_, rfl⟩ := h
      simp only [Option.bind_eq_some_iff] at h'
      obtain ⟨s2, ⟨s1, h1, h1'⟩, h2⟩ := h'
      have := lit_shrinks (by decide) h1
      have := lit_shrinks (by decide) h1'
      have := ih _ _ _ h2
      omega
    · simp at h

/-- **fuel independence of `type_`** -/
theorem typeF_fuel : ∀ n m s, s.length < n → s.length < m → typeF n s = typeF m s := by
  intro n
  induction n with
  | zero => intro m s hn; omega
  | succ n ih =>
    intro m s hn hm
    cases m with
    | zero => omega
    | succ m =>
      have hb : ∀ x, x.length ≤ s.length → btypeF n (typeF n) x = btypeF m (typeF m) x := fun x hx =>
        btypeF_congr n m (typeF_shrinks n).noGrow x (by omega) (by omega) (fun y hy => ih m y (by omega) (by omega))
      have ht : ∀ x, x.length < s.length → typeF n x = typeF m x := fun x hx => ih m x (by omega) (by omega)
      have e1 : ∀ l : Str, l ≠ [] → (lit l s).bind (typeF n) = (lit l s).bind (typeF m) := by
        intro l hl
        cases h : lit l s with
        | none => rfl
        | some r => simp only [Option.bind_some]; exact ht r (lit_shrinks hl h)
      have e2 : (lit ['?'] s).bind (btypeF n (typeF n)) = (lit ['?'] s).bind (btypeF m (typeF m)) := by
        cases h : lit ['?'] s with
        | none => rfl
        | some r =>
          simp only [Option.bind_some]
          exact hb r (Nat.le_of_lt (lit_shrinks (by decide) h))
      have e3 : ∀ l : Str, ((lit ['?'] s).bind (lit l)).bind (typeF n) = ((lit ['?'] s).bind (lit l)).bind (typeF m) := by
        intro l
        cases h : lit ['?'] s with
        | none => rfl
        | some r =>
          simp only [Option.bind_some]
          cases h' : lit l r with
          | none => rfl
          | some r' =>
            simp only [Option.bind_some]
            have := lit_shrinks (by decide) h
            have : r'.length ≤ r.length := by rw [lit_eq h']; simp
            exact ht r' (by omega)
      simp only [typeF]
      rw [hb s (Nat.le_refl _), e1 _ (by decide), e1 _ (by decide), e2, e3, e3]


/-! ### members and the file -/

theorem vstructT_fuel (n m x) (hn : x.length ≤ n) (hm : x.length ≤ m) :
    vstructF n (typeF n) x = vstructF m (typeF m) x :=
  vstructF_congr n m (typeF_shrinks n).noGrow x hn hm (fun y hy => typeF_fuel n m y (by omega) (by omega))

theorem vstructT_shrinks (n : Nat) : Shrinks (vstructF n (typeF n)) :=
  vstructF_shrinks n (typeF_shrinks n).noGrow

theorem memberHeadF_fuel (n m kw s) (hn : s.length ≤ n) (hm : s.length ≤ m) :
    memberHeadF n kw s = memberHeadF m kw s := by
  simp only [memberHeadF]
  have l0 := wceStarF_le m s
  rw [wceStarF_fuel n m s hn hm]
  split
  · rfl
  · rename_i s1 h1
    have l1 : s1.length ≤ (wceStarF m s).2.length := lit_le h1
    rw [wcePlusF_fuel n m s1 (by omega) (by omega)]
    split
    · rfl
    · rename_i t s2 h2
      have l2 : s2.length ≤ s1.length := by rw [(wcePlusF_split h2).1]; simp
      split
      · rfl
      · rename_i nm s3 h3
        have l3 := good_name.shrinks _ _ _ h3
        rw [wceStarF_fuel n m s3 (by omega) (by omega)]

theorem memberHeadF_shrinks (n : Nat) (kw : Str) {s a r} (h : memberHeadF n kw s = some (a, r)) :
    r.length < s.length := by
  simp only [memberHeadF] at h
  split at h
  · simp at h
  · rename_i s1 h1
    split at h
    · simp at h
    · rename_i t s2 h2
      split at h
      · simp at h
      · rename_i nm s3 h3
        simp only [Option.some.injEq, Prod.mk.injEq] at h
        obtain ⟨_, rfl⟩ := h
        have l0 := wceStarF_le n s
        have l1 : s1.length ≤ (wceStarF n s).2.length := lit_le h1
        have l2 : s2.length ≤ s1.length := by rw [(wcePlusF_split h2).1]; simp
        have l3 := good_name.shrinks _ _ _ h3
        have l4 := wceStarF_le n s3
        omega

theorem vtypedefF_fuel (n m s) (hn : s.length ≤ n) (hm : s.length ≤ m) : vtypedefF n s = vtypedefF m s := by
  simp only [vtypedefF]
  rw [memberHeadF_fuel n m _ s hn hm]
  cases h : memberHeadF m ['t', 'y', 'p', 'e'] s with
  | none => rfl
  | some x =>
    obtain ⟨a, s1⟩ := x
    have := memberHeadF_shrinks m _ h
    simp only [Option.bind_some]
    rw [vstructT_fuel n m s1 (by omega) (by omega), venumF_fuel n m s1 (by omega) (by omega)]

theorem errorF_fuel (n m s) (hn : s.length ≤ n) (hm : s.length ≤ m) : errorF n s = errorF m s := by
  simp only [errorF]
  rw [memberHeadF_fuel n m _ s hn hm]
  cases h : memberHeadF m ['e', 'r', 'r', 'o', 'r'] s with
  | none => rfl
  | some x =>
    obtain ⟨a, s1⟩ := x
    have := memberHeadF_shrinks m _ h
    simp only [Option.bind_some]
    rw [vstructT_fuel n m s1 (by omega) (by omega)]

theorem methodF_fuel (n m s) (hn : s.length ≤ n) (hm : s.length ≤ m) : methodF n s = methodF m s := by
  simp only [methodF]
  rw [memberHeadF_fuel n m _ s hn hm]
  cases h : memberHeadF m ['m', 'e', 't', 'h', 'o', 'd'] s with
  | none => rfl
  | some x =>
    obtain ⟨a, s1⟩ := x
    have := memberHeadF_shrinks m _ h
    simp only [Option.bind_some]
    rw [vstructT_fuel n m s1 (by omega) (by omega)]
    cases h2 : vstructF m (typeF m) s1 with
    | none => rfl
    | some y =>
      obtain ⟨i, s2⟩ := y
      have := vstructT_shrinks m _ _ _ h2
      simp only [Option.bind_some]
      have l2 := wceStarF_le m s2
      rw [wceStarF_fuel n m s2 (by omega) (by omega)]
      cases h3 : lit ['-', '>'] (wceStarF m s2).2 with
      | none => rfl
      | some s3 =>
        have l3 : s3.length ≤ (wceStarF m s2).2.length := lit_le h3
        simp only [Option.bind_some]
        have l4 := wceStarF_le m s3
        rw [wceStarF_fuel n m s3 (by omega) (by omega), vstructT_fuel n m _ (by omega) (by omega)]

theorem memberF_fuel (n m s) (hn : s.length ≤ n) (hm : s.length ≤ m) : memberF n s = memberF m s := by
  simp only [memberF]
  rw [methodF_fuel n m s hn hm, vtypedefF_fuel n m s hn hm, errorF_fuel n m s hn hm]

theorem memberF_shrinks (n : Nat) : Shrinks (memberF n) := by
  intro s a r h
  simp only [memberF] at h
  have key : ∀ kw x y, memberHeadF n kw s = some (x, y) →
      ∀ f r', vstructF n (typeF n) y = some (f, r') → r'.length < s.length := by
    intro kw x y hh f r' hv
    have := memberHeadF_shrinks n kw hh
    have := vstructT_shrinks n _ _ _ hv
    omega
  split at h
  · rename_i x hx
    simp only [Option.some.injEq] at h; subst h
    simp only [methodF, Option.bind_eq_some_iff, Option.map_eq_some_iff] at hx
    obtain ⟨⟨hd, s1⟩, hh, ⟨i, s2⟩, hi, s3, h3, ⟨o, r'⟩, ho, he⟩ := hx
    simp only [Prod.mk.injEq] at he
    obtain ⟨_, rfl⟩ := he
    have := key _ _ _ hh _ _ hi
    have l2 := wceStarF_le n s2
    have l3 : s3.length ≤ (wceStarF n s2).2.length := lit_le h3
    have l4 := wceStarF_le n s3
    have := vstructT_shrinks n _ _ _ ho
    omega
  · split at h
    · rename_i x hx
      simp only [Option.some.injEq] at h; subst h
      simp only [vtypedefF] at hx
      split at hx
      · rename_i y hy
        simp only [Option.some.injEq] at hx; subst hx
        simp only [Option.bind_eq_some_iff, Option.map_eq_some_iff] at hy
        obtain ⟨⟨hd, s1⟩, hh, ⟨v, r'⟩, hv, he⟩ := hy
        simp only [Prod.mk.injEq] at he
        obtain ⟨_, rfl⟩ := he
        exact key _ _ _ hh _ _ hv
      · simp only [Option.bind_eq_some_iff, Option.map_eq_some_iff] at hx
        obtain ⟨⟨hd, s1⟩, hh, ⟨v, r'⟩, hv, he⟩ := hx
        simp only [Prod.mk.injEq] at he
        obtain ⟨_, rfl⟩ := he
        have := memberHeadF_shrinks n _ hh
        have := venumF_shrinks n _ _ _ hv
        simp only at this
        omega
    · simp only [errorF, Option.bind_eq_some_iff, Option.map_eq_some_iff] at h
      obtain ⟨⟨hd, s1⟩, hh, ⟨v, r'⟩, hv, he⟩ := h
      simp only [Prod.mk.injEq] at he
      obtain ⟨_, rfl⟩ := he
      exact key _ _ _ hh _ _ hv

theorem sepShrinks_eolSep : SepShrinks eolSep := by
  intro s r h
  simp only [eolSep, Option.map_eq_some_iff] at h
  obtain ⟨⟨t, r'⟩, ht, rfl⟩ := h
  exact good_eol.shrinks _ _ _ ht

/-- **fuel independence of the whole grammar** -/
theorem parseInterfaceF_fuel (n m s) (hn : s.length ≤ n) (hm : s.length ≤ m) :
    parseInterfaceF n s = parseInterfaceF m s := by
  simp only [parseInterfaceF]
  have l0 := wceStarF_le m s
  rw [wceStarF_fuel n m s hn hm]
  split
  · rfl
  · rename_i s1 h1
    have l1 : s1.length ≤ (wceStarF m s).2.length := lit_le h1
    rw [wcePlusF_fuel n m s1 (by omega) (by omega)]
    split
    · rfl
    · rename_i t s2 h2
      have l2 : s2.length ≤ s1.length := by rw [(wcePlusF_split h2).1]; simp
      rw [interfaceNameF_fuel n m s2 (by omega) (by omega)]
      split
      · rfl
      · rename_i nm s3 h3
        have l3 := (good_interfaceNameF m).shrinks _ _ _ h3
        split
        · rfl
        · rename_i e s4 h4
          have l4 := good_eol.shrinks _ _ _ h4
          rw [sepByF_congr (p1 := memberF n) (p2 := memberF m) (sep1 := eolSep) (sep2 := eolSep)
            (memberF_shrinks n).noGrow sepShrinks_eolSep n m s4 (by omega) (by omega) (fun _ _ => rfl)
            (fun x hx => memberF_fuel n m x (by omega) (by omega))]
          have l5 := sepByF_le (memberF_shrinks m).noGrow sepShrinks_eolSep m s4
          rw [wceStarF_fuel n m _ (by omega) (by omega)]

end VV.Idl
