/-
Lemmas.IdlPeg — structural facts about the PEG model: every lexical rule returns a
non-empty prefix of its input (`Good`), every rule returns a suffix, and no result
depends on the fuel once the fuel exceeds the input length.
-/
import VarlinkVerif.Model.Idl.Peg

namespace VV.Idl

/-- a lexical rule: what it returns is a split of the input with a non-empty first part -/
def Good (p : Input → Option (Str × Input)) : Prop :=
  ∀ s t r, p s = some (t, r) → s = t ++ r ∧ t ≠ []

/-- a rule with a value: the remaining input is strictly shorter -/
def Shrinks {α : Type} (p : Input → Option (α × Input)) : Prop :=
  ∀ s a r, p s = some (a, r) → r.length < s.length

theorem Good.shrinks {p} (h : Good p) : Shrinks p := by
  intro s t r hp
  obtain ⟨rfl, hne⟩ := h s t r hp
  cases t with
  | nil => exact absurd rfl hne
  | cons a t => simp; omega

theorem good_whitespace : Good whitespace := by
  intro s t r h
  cases s with
  | nil => simp [whitespace] at h
  | cons c s =>
    simp only [whitespace] at h
    split at h
    · simp only [Option.some.injEq, Prod.mk.injEq] at h
      obtain ⟨rfl, rfl⟩ := h
      simp
    · simp at h

theorem good_eolR : Good eolR := by
  intro s t r h
  cases s with
  | nil => simp [eolR] at h
  | cons c s =>
    simp only [eolR] at h
    split at h
    · simp only [Option.some.injEq, Prod.mk.injEq] at h
      obtain ⟨rfl, rfl⟩ := h; simp
    · split at h
      · split at h
        · split at h
          · simp only [Option.some.injEq, Prod.mk.injEq] at h
            obtain ⟨rfl, rfl⟩ := h; simp
          · simp only [Option.some.injEq, Prod.mk.injEq] at h
            obtain ⟨rfl, rfl⟩ := h; simp
        · simp only [Option.some.injEq, Prod.mk.injEq] at h
          obtain ⟨rfl, rfl⟩ := h; simp
      · split at h
        · simp only [Option.some.injEq, Prod.mk.injEq] at h
          obtain ⟨rfl, rfl⟩ := h; simp
        · split at h
          · simp only [Option.some.injEq, Prod.mk.injEq] at h
            obtain ⟨rfl, rfl⟩ := h; simp
          · simp at h

theorem good_comment : Good comment := by
  intro s t r h
  cases s with
  | nil => simp [comment] at h
  | cons c s =>
    simp only [comment] at h
    split at h
    · split at h
      · rename_i e r' he
        simp only [Option.some.injEq, Prod.mk.injEq] at h
        obtain ⟨rfl, rfl⟩ := h
        obtain ⟨hd, _⟩ := good_eolR _ _ _ he
        refine ⟨?_, by simp⟩
        simp only [List.cons_append, List.append_assoc, List.cons.injEq, true_and]
        rw [← hd, List.takeWhile_append_dropWhile]
      · simp at h
    · simp at h

theorem good_wce : Good wce := by
  intro s t r h
  simp only [wce] at h
  split at h
  · rename_i x hx
    simp only [Option.some.injEq] at h; subst h
    exact good_whitespace _ _ _ hx
  · split at h
    · rename_i x hx
      simp only [Option.some.injEq] at h; subst h
      exact good_comment _ _ _ hx
    · exact good_eolR _ _ _ h

theorem good_eol : Good eol := by
  intro s t r h
  simp only [eol] at h
  split at h
  · rename_i e r' he
    simp only [Option.some.injEq, Prod.mk.injEq] at h
    obtain ⟨rfl, rfl⟩ := h
    obtain ⟨hd, hne⟩ := good_eolR _ _ _ he
    refine ⟨?_, by simp [hne]⟩
    rw [List.append_assoc, ← hd, List.takeWhile_append_dropWhile]
  · exact good_comment _ _ _ h

theorem good_fieldNameStep : Good fieldNameStep := by
  intro s t r h
  cases s with
  | nil => simp [fieldNameStep] at h
  | cons c s =>
    simp only [fieldNameStep] at h
    split at h
    · split at h
      · split at h
        · simp only [Option.some.injEq, Prod.mk.injEq] at h
          obtain ⟨rfl, rfl⟩ := h; simp
        · simp at h
      · simp at h
    · split at h
      · simp only [Option.some.injEq, Prod.mk.injEq] at h
        obtain ⟨rfl, rfl⟩ := h; simp
      · simp at h

theorem good_labelStep : Good labelStep := by
  intro s t r h
  simp only [labelStep] at h
  split at h
  · rename_i d r' hd
    split at h
    · simp only [Option.some.injEq, Prod.mk.injEq] at h
      obtain ⟨rfl, rfl⟩ := h
      refine ⟨?_, by simp⟩
      rw [List.append_assoc, List.singleton_append, ← hd, List.takeWhile_append_dropWhile]
    · simp at h
  · simp at h

/-! ### possessive repetition -/

theorem manyF_split {p} (hp : Good p) : ∀ n s, s = (manyF p n s).1 ++ (manyF p n s).2 := by
  intro n
  induction n with
  | zero => intro s; simp [manyF]
  | succ n ih =>
    intro s
    simp only [manyF]
    split
    · rename_i t r h
      obtain ⟨hs, _⟩ := hp _ _ _ h
      simp only [List.append_assoc]
      rw [← ih r]; exact hs
    · simp

theorem manyF_length_le {p} (hp : Good p) (n s) : (manyF p n s).2.length ≤ s.length := by
  have := congrArg List.length (manyF_split hp n s)
  simp only [List.length_append] at this
  omega

/-- the fuel does not matter once it reaches the length of the input -/
theorem manyF_fuel {p} (hp : Good p) : ∀ n m s, s.length ≤ n → s.length ≤ m → manyF p n s = manyF p m s := by
  intro n
  induction n with
  | zero =>
    intro m s hn _
    have : s = [] := List.eq_nil_of_length_eq_zero (by omega)
    subst this
    cases m with
    | zero => rfl
    | succ m =>
      simp only [manyF]
      split
      · rename_i t r h
        have := (hp _ _ _ h)
        obtain ⟨h1, h2⟩ := this
        have : t = [] := by
          have := congrArg List.length h1
          simp at this
          exact List.eq_nil_of_length_eq_zero (by omega)
        exact absurd this h2
      · rfl
  | succ n ih =>
    intro m s hn hm
    cases m with
    | zero =>
      have : s = [] := List.eq_nil_of_length_eq_zero (by omega)
      subst this
      simp only [manyF]
      split
      · rename_i t r h
        obtain ⟨h1, h2⟩ := hp _ _ _ h
        have : t = [] := by
          have := congrArg List.length h1
          simp at this
          exact List.eq_nil_of_length_eq_zero (by omega)
        exact absurd this h2
      · rfl
    | succ m =>
      simp only [manyF]
      split
      · rename_i t r h
        have hsh := hp.shrinks _ _ _ h
        rw [ih m r (by omega) (by omega)]
      · rfl

theorem good_dotLabelF (n : Nat) : Good (dotLabelF n) := by
  intro s t r h
  match s, h with
  | c :: d :: s, h =>
    simp only [dotLabelF] at h
    split at h
    · simp only [Option.some.injEq, Prod.mk.injEq] at h
      obtain ⟨rfl, rfl⟩ := h
      refine ⟨?_, by simp⟩
      simp only [List.cons_append, List.cons.injEq, true_and]
      exact manyF_split good_labelStep n s
    · simp at h
  | [], h => simp [dotLabelF] at h
  | [_], h => simp [dotLabelF] at h

theorem good_fieldNameF (n : Nat) : Good (fieldNameF n) := by
  intro s t r h
  cases s with
  | nil => simp [fieldNameF] at h
  | cons c s =>
    simp only [fieldNameF] at h
    split at h
    · simp only [Option.some.injEq, Prod.mk.injEq] at h
      obtain ⟨rfl, rfl⟩ := h
      refine ⟨?_, by simp⟩
      simp only [List.cons_append, List.cons.injEq, true_and]
      exact manyF_split good_fieldNameStep n s
    · simp at h

theorem good_name : Good name := by
  intro s t r h
  cases s with
  | nil => simp [name] at h
  | cons c s =>
    simp only [name] at h
    split at h
    · simp only [Option.some.injEq, Prod.mk.injEq] at h
      obtain ⟨rfl, rfl⟩ := h
      simp
    · simp at h

theorem good_interfaceNameF (n : Nat) : Good (interfaceNameF n) := by
  intro s t r h
  cases s with
  | nil => simp [interfaceNameF] at h
  | cons c s =>
    simp only [interfaceNameF] at h
    split at h
    · split at h
      · rename_i t1 r1 h1
        simp only [Option.some.injEq, Prod.mk.injEq] at h
        obtain ⟨rfl, rfl⟩ := h
        refine ⟨?_, by simp⟩
        obtain ⟨hd, _⟩ := good_dotLabelF n _ _ _ h1
        have h0 := manyF_split good_labelStep n s
        have h2 := manyF_split (good_dotLabelF n) n r1
        simp only [List.cons_append, List.append_assoc, List.cons.injEq, true_and]
        rw [← h2, ← hd, ← h0]
      · simp at h
    · simp at h

end VV.Idl
