/-
Lemmas.IdlFmtSeg — every colored layout routine of format.rs is, piece by piece, its plain
twin plus SGR sequences (`Seg`), for all trees whose names contain no ESC character
(documentation may contain anything).
-/
import VarlinkVerif.Lemmas.IdlFmtColor

namespace VV.Idl.Fmt
open VV.Idl

mutual
def TyNoEsc : Ty → Prop
  | .typename n => NoEsc n
  | .struct fs => FieldsNoEsc fs
  | .enum es => ∀ e ∈ es, NoEsc e
  | .array t => TyNoEsc t
  | .dict t => TyNoEsc t
  | .option t => TyNoEsc t
  | _ => True
def FieldsNoEsc : Fields → Prop
  | .nil => True
  | .cons n t r => NoEsc n ∧ TyNoEsc t ∧ FieldsNoEsc r
end

theorem noEsc_append {a b : Str} (ha : NoEsc a) (hb : NoEsc b) : NoEsc (a ++ b) := by
  intro c hc
  simp only [List.mem_append] at hc
  rcases hc with h | h
  · exact ha c h
  · exact hb c h

theorem noEsc_cons {c : Char} {a : Str} (hc : c ≠ ESC) (ha : NoEsc a) : NoEsc (c :: a) := by
  intro x hx
  simp only [List.mem_cons] at hx
  rcases hx with rfl | h
  · exact hc
  · exact ha x h

theorem noEsc_pad (n : Nat) : NoEsc (pad n) := by
  intro c hc
  have := (List.mem_replicate.mp hc).2
  subst this
  decide

theorem noEsc_commaSep : ∀ (l : List Str), (∀ e ∈ l, NoEsc e) → NoEsc (commaSep l)
  | [], _ => by intro c hc; simp [commaSep] at hc
  | [x], h => by simpa [commaSep] using h x (by simp)
  | x :: y :: r, h => by
    simp only [commaSep]
    exact noEsc_append (h x (by simp)) (noEsc_cons (by decide) (noEsc_cons (by decide)
      (noEsc_commaSep (y :: r) (fun e he => h e (by simp [he])))))

theorem noEsc_commaNl : ∀ (l : List Str), (∀ e ∈ l, NoEsc e) → NoEsc (commaNl l)
  | [], _ => by intro c hc; simp [commaNl] at hc
  | [x], h => by simpa [commaNl] using h x (by simp)
  | x :: y :: r, h => by
    simp only [commaNl]
    exact noEsc_append (h x (by simp)) (noEsc_cons (by decide) (noEsc_cons (by decide)
      (noEsc_commaNl (y :: r) (fun e he => h e (by simp [he])))))

theorem seg_cyan {x : Str} (h : NoEsc x) : Seg (cyan x) x := seg_paint_noEsc _ params36 h
theorem seg_purple {x : Str} (h : NoEsc x) : Seg (purple x) x := seg_paint_noEsc _ params35 h
theorem seg_green {x : Str} (h : NoEsc x) : Seg (green x) x := seg_paint_noEsc _ params32 h

theorem seg_enumOneline {es : List Str} (h : ∀ e ∈ es, NoEsc e) : Seg (enumOneline es) (enumOneline es) :=
  Seg.of_noEsc (noEsc_cons (by decide) (noEsc_append (noEsc_commaSep es h) (noEsc_cons (by decide) (by intro c hc; simp at hc))))

theorem seg_enumMultiline {es : List Str} (h : ∀ e ∈ es, NoEsc e) (ind : Nat) :
    Seg (enumMultiline es ind) (enumMultiline es ind) := by
  apply Seg.of_noEsc
  simp only [enumMultiline, List.cons_append, List.append_assoc]
  refine noEsc_cons (by decide) (noEsc_cons (by decide) (noEsc_append (noEsc_commaNl _ ?_)
    (noEsc_cons (by decide) (noEsc_append (noEsc_pad _) (noEsc_cons (by decide) (by intro c hc; simp at hc))))))
  intro e he
  simp only [List.mem_map] at he
  obtain ⟨x, hx, rfl⟩ := he
  exact noEsc_append (noEsc_pad _) (h x hx)

theorem dict_eq (x : Str) : ['[', 's', 't', 'r', 'i', 'n', 'g', ']'] ++ x = '[' :: (['s', 't', 'r', 'i', 'n', 'g'] ++ ']' :: x) := by
  show ['[', 's', 't', 'r', 'i', 'n', 'g', ']'] ++ x = '[' :: (['s', 't', 'r', 'i', 'n', 'g'] ++ ']' :: x)
  rfl

mutual
theorem seg_tyOneline : ∀ (t : Ty), TyNoEsc t → Seg (tyOnelineC t) (tyOneline t)
  | .bool, _ => seg_cyan (by decide)
  | .int, _ => seg_cyan (by decide)
  | .float, _ => seg_cyan (by decide)
  | .string, _ => seg_cyan (by decide)
  | .object, _ => seg_cyan (by decide)
  | .typename n, h => by simp only [tyOnelineC, tyOneline]; exact seg_cyan (by simpa [TyNoEsc] using h)
  | .struct fs, h => by
    simp only [tyOnelineC, tyOneline]
    exact Seg.cons _ (by decide) (Seg.append (seg_fieldsOneline fs (by simpa [TyNoEsc] using h))
      (Seg.of_noEsc (noEsc_cons (by decide) (by intro c hc; simp at hc))))
  | .enum es, h => by
    simp only [tyOnelineC, tyOneline]
    exact seg_enumOneline (by simpa [TyNoEsc] using h)
  | .array t, h => by
    simp only [tyOnelineC, tyOneline]
    exact Seg.cons _ (by decide) (Seg.cons _ (by decide) (seg_tyOneline t (by simpa [TyNoEsc] using h)))
  | .dict t, h => by
    simp only [tyOnelineC, tyOneline]
    rw [dict_eq]
    exact Seg.cons _ (by decide) (Seg.append (seg_cyan (by decide))
      (Seg.cons _ (by decide) (seg_tyOneline t (by simpa [TyNoEsc] using h))))
  | .option t, h => by
    simp only [tyOnelineC, tyOneline]
    exact Seg.cons _ (by decide) (seg_tyOneline t (by simpa [TyNoEsc] using h))
theorem seg_fieldsOneline : ∀ (fs : Fields), FieldsNoEsc fs →
    Seg (commaSep (fieldsOnelineC fs)) (commaSep (fieldsOneline fs))
  | .nil, _ => Seg.nil
  | .cons n t .nil, h => by
    simp only [FieldsNoEsc] at h
    simp only [fieldsOnelineC, fieldsOneline, commaSep]
    exact Seg.append (Seg.of_noEsc h.1) (Seg.cons _ (by decide) (Seg.cons _ (by decide) (seg_tyOneline t h.2.1)))
  | .cons n t (.cons n' t' r), h => by
    have h' := h
    simp only [FieldsNoEsc] at h
    have ih := seg_fieldsOneline (.cons n' t' r) (by simp only [FieldsNoEsc]; exact h.2.2)
    simp only [fieldsOnelineC, fieldsOneline, commaSep] at ih ⊢
    exact Seg.append (Seg.append (Seg.of_noEsc h.1)
      (Seg.cons _ (by decide) (Seg.cons _ (by decide) (seg_tyOneline t h.2.1))))
      (Seg.cons _ (by decide) (Seg.cons _ (by decide) ih))
end

theorem seg_structOneline (fs : Fields) (h : FieldsNoEsc fs) : Seg (structOnelineC fs) (structOneline fs) := by
  simp only [structOnelineC, structOneline]
  exact Seg.cons _ (by decide) (Seg.append (seg_fieldsOneline fs h)
    (Seg.of_noEsc (noEsc_cons (by decide) (by intro c hc; simp at hc))))

theorem seg_close (ind : Nat) : Seg ('\n' :: (pad ind ++ [')'])) ('\n' :: (pad ind ++ [')'])) :=
  Seg.of_noEsc (noEsc_cons (by decide) (noEsc_append (noEsc_pad _) (noEsc_cons (by decide) (by intro c hc; simp at hc))))

mutual
theorem seg_tyMultiline : ∀ (t : Ty), TyNoEsc t → ∀ (ind max : Nat),
    Seg (tyMultilineC t ind max) (tyMultiline t ind max)
  | .bool, _, _, _ => seg_cyan (by decide)
  | .int, _, _, _ => seg_cyan (by decide)
  | .float, _, _, _ => seg_cyan (by decide)
  | .string, _, _, _ => seg_cyan (by decide)
  | .object, _, _, _ => seg_cyan (by decide)
  | .typename n, h, _, _ => by simp only [tyMultilineC, tyMultiline]; exact seg_cyan (by simpa [TyNoEsc] using h)
  | .struct fs, h, ind, max => by
    simp only [tyMultilineC, tyMultiline, List.cons_append, List.append_assoc]
    exact Seg.cons _ (by decide) (Seg.cons _ (by decide)
      (Seg.append (seg_fieldsMultiline fs (by simpa [TyNoEsc] using h) (ind + 2) max) (seg_close ind)))
  | .enum es, h, ind, _ => by
    simp only [tyMultilineC, tyMultiline]
    exact seg_enumMultiline (by simpa [TyNoEsc] using h) ind
  | .array t, h, ind, max => by
    simp only [tyMultilineC, tyMultiline]
    exact Seg.cons _ (by decide) (Seg.cons _ (by decide) (seg_tyMultiline t (by simpa [TyNoEsc] using h) ind max))
  | .dict t, h, ind, max => by
    simp only [tyMultilineC, tyMultiline]
    rw [dict_eq]
    exact Seg.cons _ (by decide) (Seg.append (seg_cyan (by decide))
      (Seg.cons _ (by decide) (seg_tyMultiline t (by simpa [TyNoEsc] using h) ind max)))
  | .option t, h, ind, max => by
    simp only [tyMultilineC, tyMultiline]
    exact Seg.cons _ (by decide) (seg_tyMultiline t (by simpa [TyNoEsc] using h) ind max)
theorem seg_fieldsMultiline : ∀ (fs : Fields), FieldsNoEsc fs → ∀ (ind max : Nat),
    Seg (commaNl (fieldsMultilineC fs ind max)) (commaNl (fieldsMultiline fs ind max))
  | .nil, _, _, _ => Seg.nil
  | .cons n t .nil, h, ind, max => by
    simp only [FieldsNoEsc] at h
    simp only [fieldsMultilineC, fieldsMultiline, commaNl]
    split
    · exact Seg.append (Seg.of_noEsc (noEsc_pad _)) (Seg.append (Seg.of_noEsc h.1)
        (Seg.cons _ (by decide) (Seg.cons _ (by decide) (seg_tyOneline t h.2.1))))
    · exact Seg.append (Seg.of_noEsc (noEsc_pad _)) (Seg.append (Seg.of_noEsc h.1)
        (Seg.cons _ (by decide) (Seg.cons _ (by decide) (seg_tyMultiline t h.2.1 ind max))))
  | .cons n t (.cons n' t' r), h, ind, max => by
    simp only [FieldsNoEsc] at h
    have ih := seg_fieldsMultiline (.cons n' t' r) (by simp only [FieldsNoEsc]; exact h.2.2) ind max
    simp only [fieldsMultilineC, fieldsMultiline, commaNl] at ih ⊢
    refine Seg.append ?_ (Seg.cons _ (by decide) (Seg.cons _ (by decide) ih))
    split
    · exact Seg.append (Seg.of_noEsc (noEsc_pad _)) (Seg.append (Seg.of_noEsc h.1)
        (Seg.cons _ (by decide) (Seg.cons _ (by decide) (seg_tyOneline t h.2.1))))
    · exact Seg.append (Seg.of_noEsc (noEsc_pad _)) (Seg.append (Seg.of_noEsc h.1)
        (Seg.cons _ (by decide) (Seg.cons _ (by decide) (seg_tyMultiline t h.2.1 ind max))))
end

theorem seg_structMultiline (fs : Fields) (h : FieldsNoEsc fs) (ind max : Nat) :
    Seg (structMultilineC fs ind max) (structMultiline fs ind max) := by
  simp only [structMultilineC, structMultiline, List.cons_append, List.append_assoc]
  exact Seg.cons _ (by decide) (Seg.cons _ (by decide)
    (Seg.append (seg_fieldsMultiline fs h (ind + 2) max) (seg_close ind)))


/-! ### documentation blocks -/

theorem splitNl_ne_nil : ∀ (s : Str), splitNl s ≠ []
  | [] => by simp [splitNl]
  | c :: r => by
    simp only [splitNl]
    split
    · simp
    · split <;> simp

theorem joinNl_splitNl : ∀ (s : Str), joinNl (splitNl s) = s
  | [] => by simp [splitNl, joinNl]
  | c :: r => by
    have ih := joinNl_splitNl r
    by_cases hc : c = '\n'
    · subst hc
      simp only [splitNl, if_true]
      cases hs : splitNl r with
      | nil => exact absurd hs (splitNl_ne_nil r)
      | cons y ys => rw [hs] at ih; simp [joinNl, ih]
    · simp only [splitNl, if_neg hc]
      cases hs : splitNl r with
      | nil => exact absurd hs (splitNl_ne_nil r)
      | cons y ys =>
        rw [hs] at ih
        cases ys with
        | nil => simpa [joinNl] using ih
        | cons z zs => simpa [joinNl] using ih

theorem joinNl_map_nl (f : Str → Str) : ∀ (ls : List Str), ls ≠ [] →
    joinNl (ls.map f) ++ ['\n'] = (ls.map fun l => f l ++ ['\n']).flatten
  | [], h => absurd rfl h
  | [x], _ => by simp [joinNl]
  | x :: y :: r, _ => by
    have ih := joinNl_map_nl f (y :: r) (by simp)
    simp only [List.map_cons, joinNl, List.flatten_cons, List.append_assoc, List.cons_append] at ih ⊢
    rw [ih]
    simp

theorem seg_docLines (ind : Nat) (doc : Str) : Seg (docLinesC ind doc) (docLines ind doc) := by
  simp only [docLinesC, docLines]
  split
  · exact Seg.nil
  · rw [joinNl_map_nl _ _ (splitNl_ne_nil doc), joinNl_map_nl _ _ (splitNl_ne_nil doc)]
    apply Seg.flatten_map
    intro l _
    simp only [List.append_assoc]
    exact Seg.append (Seg.of_noEsc (noEsc_pad _)) (seg_paint_break _ params34 breaks_nl l)

theorem pad_zero : pad 0 = [] := rfl

theorem docPlain_zero (doc : Str) : docPlain 0 doc = docLines 0 doc := by
  simp only [docPlain, docLines, pad_zero, List.nil_append]
  split
  · rfl
  · have : (splitNl doc).map (fun s => s) = splitNl doc := by simp
    rw [this, joinNl_splitNl]

/-! ### members -/

def BodyNoEsc : Body → Prop
  | .typeStruct f => FieldsNoEsc f
  | .typeEnum es => ∀ e ∈ es, NoEsc e
  | .method i o => FieldsNoEsc i ∧ FieldsNoEsc o
  | .error f => FieldsNoEsc f

def MemberNoEsc (m : Member) : Prop := NoEsc m.name ∧ BodyNoEsc m.body

theorem seg_eltOneline : ∀ (b : Body), BodyNoEsc b → Seg (eltOnelineC b) (eltOneline b)
  | .typeStruct f, h => seg_structOneline f h
  | .typeEnum es, h => seg_enumOneline h
  | .method i _, h => seg_structOneline i h.1
  | .error f, h => seg_structOneline f h

theorem seg_eltMultiline : ∀ (b : Body), BodyNoEsc b → ∀ (ind max : Nat),
    Seg (eltMultilineC b ind max) (eltMultiline b ind max)
  | .typeStruct f, h, ind, max => seg_structMultiline f h ind max
  | .typeEnum es, h, ind, _ => seg_enumMultiline h ind
  | .method i _, h, ind, max => seg_structMultiline i h.1 ind max
  | .error f, h, ind, max => seg_structMultiline f h ind max

theorem seg_nl : Seg ['\n'] ['\n'] := Seg.of_noEsc (by decide)

theorem seg_typedef (t : Member) (h : MemberNoEsc t) (max : Nat) :
    Seg (typedefMultilineC t 0 max) (typedefMultiline t 0 max) := by
  simp only [typedefMultilineC, typedefMultiline, docPlain_zero]
  refine Seg.cons _ (by decide) (Seg.append (seg_docLines 0 t.doc) ?_)
  split
  · show Seg (pad 0 ++ purple ['t', 'y', 'p', 'e'] ++ ' ' :: cyan t.name ++ ' ' :: eltOnelineC t.body ++ ['\n'])
      (((pad 0 ++ ['t', 'y', 'p', 'e']) ++ ' ' :: t.name) ++ ' ' :: eltOneline t.body ++ ['\n'])
    exact Seg.append (Seg.append (Seg.append (Seg.append (Seg.of_noEsc (noEsc_pad _)) (seg_purple (by decide)))
      (Seg.cons _ (by decide) (seg_cyan h.1))) (Seg.cons _ (by decide) (seg_eltOneline t.body h.2))) seg_nl
  · show Seg (pad 0 ++ purple ['t', 'y', 'p', 'e'] ++ ' ' :: cyan t.name ++ ' ' :: eltMultilineC t.body 0 max ++ ['\n'])
      (((pad 0 ++ ['t', 'y', 'p', 'e']) ++ ' ' :: t.name) ++ ' ' :: eltMultiline t.body 0 max ++ ['\n'])
    exact Seg.append (Seg.append (Seg.append (Seg.append (Seg.of_noEsc (noEsc_pad _)) (seg_purple (by decide)))
      (Seg.cons _ (by decide) (seg_cyan h.1))) (Seg.cons _ (by decide) (seg_eltMultiline t.body h.2 0 max))) seg_nl

theorem seg_error (t : Member) (h : MemberNoEsc t) (max : Nat) :
    Seg (errorMultilineC t 0 max) (errorMultiline t 0 max) := by
  simp only [errorMultilineC, errorMultiline]
  refine Seg.cons _ (by decide) (Seg.append (seg_docLines 0 t.doc) ?_)
  have hlen : (pad 0 ++ ['e', 'r', 'r', 'o', 'r', ' '] ++ t.name ++ [' ']).length =
      (['e', 'r', 'r', 'o', 'r', ' '] ++ t.name ++ [' ']).length := by simp [pad]
  by_cases hc : (['e', 'r', 'r', 'o', 'r', ' '] ++ t.name ++ [' ']).length + (eltOneline t.body).length ≤ max
  · rw [if_pos hc, if_pos (by rw [hlen]; exact hc)]
    show Seg (pad 0 ++ purple ['e', 'r', 'r', 'o', 'r'] ++ ' ' :: cyan t.name ++ ' ' :: eltOnelineC t.body ++ ['\n'])
      (((pad 0 ++ ['e', 'r', 'r', 'o', 'r']) ++ ' ' :: t.name) ++ ' ' :: eltOneline t.body ++ ['\n'])
    exact Seg.append (Seg.append (Seg.append (Seg.append (Seg.of_noEsc (noEsc_pad _)) (seg_purple (by decide)))
      (Seg.cons _ (by decide) (seg_cyan h.1))) (Seg.cons _ (by decide) (seg_eltOneline t.body h.2))) seg_nl
  · rw [if_neg hc, if_neg (by rw [hlen]; exact hc)]
    show Seg (pad 0 ++ purple ['e', 'r', 'r', 'o', 'r'] ++ ' ' :: cyan t.name ++ ' ' :: eltMultilineC t.body 0 max ++ ['\n'])
      (((pad 0 ++ ['e', 'r', 'r', 'o', 'r']) ++ ' ' :: t.name) ++ ' ' :: eltMultiline t.body 0 max ++ ['\n'])
    exact Seg.append (Seg.append (Seg.append (Seg.append (Seg.of_noEsc (noEsc_pad _)) (seg_purple (by decide)))
      (Seg.cons _ (by decide) (seg_cyan h.1))) (Seg.cons _ (by decide) (seg_eltMultiline t.body h.2 0 max))) seg_nl

theorem methodIO_noEsc : ∀ (b : Body), BodyNoEsc b → FieldsNoEsc (methodIO b).1 ∧ FieldsNoEsc (methodIO b).2
  | .typeStruct f, h => ⟨h, by simp [methodIO, FieldsNoEsc]⟩
  | .typeEnum _, _ => ⟨by simp [methodIO, bodyStruct, FieldsNoEsc], by simp [methodIO, FieldsNoEsc]⟩
  | .method _ _, h => h
  | .error f, h => ⟨h, by simp [methodIO, FieldsNoEsc]⟩

theorem seg_arrow : Seg (' ' :: purple ['-', '>'] ++ [' ']) [' ', '-', '>', ' '] := by
  show Seg ([' '] ++ purple ['-', '>'] ++ [' ']) ([' '] ++ ['-', '>'] ++ [' '])
  exact Seg.append (Seg.append (Seg.of_noEsc (by decide)) (seg_purple (by decide))) (Seg.of_noEsc (by decide))

theorem seg_method (m : Member) (h : MemberNoEsc m) (max : Nat) :
    Seg (methodMultilineC m 0 max) (methodMultiline m 0 max) := by
  obtain ⟨hi, ho⟩ := methodIO_noEsc m.body h.2
  have hhead : Seg (pad 0 ++ purple ['m', 'e', 't', 'h', 'o', 'd'] ++ ' ' :: green m.name)
      (pad 0 ++ ['m', 'e', 't', 'h', 'o', 'd', ' '] ++ m.name) := by
    show Seg (pad 0 ++ purple ['m', 'e', 't', 'h', 'o', 'd'] ++ ' ' :: green m.name)
      (pad 0 ++ ['m', 'e', 't', 'h', 'o', 'd'] ++ ' ' :: m.name)
    exact Seg.append (Seg.append (Seg.of_noEsc (noEsc_pad _)) (seg_purple (by decide)))
      (Seg.cons _ (by decide) (seg_green h.1))
  simp only [methodMultilineC, methodMultiline]
  refine Seg.cons _ (by decide) (Seg.append (seg_docLines 0 m.doc) ?_)
  split
  · exact Seg.append (Seg.append (Seg.append (Seg.append hhead (seg_structOneline _ hi)) seg_arrow)
      (seg_structOneline _ ho)) seg_nl
  · split
    · exact Seg.append (Seg.append (Seg.append (Seg.append hhead (seg_structOneline _ hi)) seg_arrow)
        (seg_structMultiline _ ho 0 max)) seg_nl
    · split
      · exact Seg.append (Seg.append (Seg.append (Seg.append hhead (seg_structMultiline _ hi 0 max)) seg_arrow)
          (seg_structOneline _ ho)) seg_nl
      · exact Seg.append (Seg.append (Seg.append (Seg.append hhead (seg_structMultiline _ hi 0 max)) seg_arrow)
          (seg_structMultiline _ ho 0 max)) seg_nl

/-- names of the definition contain no ESC character (always true for a parsed definition:
    names are ASCII letters, digits, '_', '.', '-') -/
def IdlNoEsc (i : IDL) : Prop :=
  NoEsc i.name ∧ (∀ m ∈ membersOf i.typedefKeys i.typedefs, MemberNoEsc m) ∧
  (∀ m ∈ membersOf i.methodKeys i.methods, MemberNoEsc m) ∧
  (∀ m ∈ membersOf i.errorKeys i.errors, MemberNoEsc m)

theorem seg_multiline (i : IDL) (h : IdlNoEsc i) (max : Nat) : Seg (multilineC i 0 max) (multiline i 0 max) := by
  obtain ⟨hn, ht, hm, he⟩ := h
  simp only [multilineC, multiline]
  refine Seg.append (Seg.append (Seg.append ?_ (Seg.flatten_map _ _ _ (fun t ht' => seg_typedef t (ht t ht') max)))
    (Seg.flatten_map _ _ _ (fun m hm' => seg_method m (hm m hm') max)))
    (Seg.flatten_map _ _ _ (fun t ht' => seg_error t (he t ht') max))
  have e1 : docLines 0 i.doc ++ pad 0 ++ ['i', 'n', 't', 'e', 'r', 'f', 'a', 'c', 'e', ' '] ++ i.name ++ ['\n'] =
      docLines 0 i.doc ++ (pad 0 ++ (['i', 'n', 't', 'e', 'r', 'f', 'a', 'c', 'e'] ++ (' ' :: (i.name ++ ['\n'])))) := by
    simp
  have e2 : docLinesC 0 i.doc ++ pad 0 ++ purple ['i', 'n', 't', 'e', 'r', 'f', 'a', 'c', 'e'] ++ ' ' :: i.name ++ ['\n'] =
      docLinesC 0 i.doc ++ (pad 0 ++ (purple ['i', 'n', 't', 'e', 'r', 'f', 'a', 'c', 'e'] ++ (' ' :: (i.name ++ ['\n'])))) := by
    simp
  rw [e1, e2]
  exact Seg.append (seg_docLines 0 i.doc) (Seg.append (Seg.of_noEsc (noEsc_pad _))
    (Seg.append (seg_purple (by decide)) (Seg.cons _ (by decide) (Seg.append (Seg.of_noEsc hn) seg_nl))))

end VV.Idl.Fmt
