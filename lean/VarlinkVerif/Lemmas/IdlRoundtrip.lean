/-
Lemmas.IdlRoundtrip — formatting a well-formed definition and parsing the text again gives
the same definition (regrouped by kind), for every width; formatting that again gives the
same text.
-/
import VarlinkVerif.Lemmas.IdlLayoutFile
import VarlinkVerif.Lemmas.IdlCompleteFile
import VarlinkVerif.Lemmas.IdlDup
import VarlinkVerif.Model.Idl

namespace VV.Idl
open Gram Fmt

def tList (i : IDL) : List Member := membersOf i.typedefKeys i.typedefs
def mList (i : IDL) : List Member := membersOf i.methodKeys i.methods
def eList (i : IDL) : List Member := membersOf i.errorKeys i.errors

/-- the member list in the order the formatter prints it -/
def regroup (i : IDL) : Parsed := ⟨i.name, i.doc, tList i ++ mList i ++ eList i⟩

/-- a definition as `try_from` returns it -/
structure WFIdl (i : IDL) : Prop where
  name : Spec.isInterfaceName i.name = true
  doc : IsDoc i.doc
  tkind : ∀ m ∈ tList i, m.kind = .typedef ∧ WFMember m
  mkind : ∀ m ∈ mList i, m.kind = .method ∧ WFMember m
  ekind : ∀ m ∈ eList i, m.kind = .error ∧ WFMember m
  ne : tList i ++ mList i ++ eList i ≠ []
  nodup : ((tList i ++ mList i ++ eList i).map (·.name)).Nodup

theorem multiline_blocks (i : IDL) (h : WFIdl i) (max : Nat) :
    multiline i 0 max = docLines 0 i.doc ++ ['i', 'n', 't', 'e', 'r', 'f', 'a', 'c', 'e'] ++ [' '] ++ i.name ++
      ('\n' :: ((tList i ++ mList i ++ eList i).map fun m => blockOf m max).flatten) := by
  have ht : (tList i).map (fun t => typedefMultiline t 0 max) = (tList i).map fun m => blockOf m max := by
    apply List.map_congr_left
    intro m hm
    simp [blockOf, (h.tkind m hm).1]
  have hm : (mList i).map (fun t => methodMultiline t 0 max) = (mList i).map fun m => blockOf m max := by
    apply List.map_congr_left
    intro m hm
    simp [blockOf, (h.mkind m hm).1]
  have he : (eList i).map (fun t => errorMultiline t 0 max) = (eList i).map fun m => blockOf m max := by
    apply List.map_congr_left
    intro m hm
    simp [blockOf, (h.ekind m hm).1]
  simp only [tList, mList, eList] at ht hm he
  simp only [multiline, ht, hm, he, pad_zero, tList, mList, eList]
  simp

/-- **layout**: the formatter's output is a text of the grammar for the regrouped definition -/
theorem file_layout (i : IDL) (h : WFIdl i) (max : Nat) : FileText (regroup i) (multiline i 0 max) := by
  obtain ⟨hd1, hd2⟩ := ifaceDoc_layout h.doc
  have hall : ∀ m ∈ tList i ++ mList i ++ eList i, WFMember m := by
    intro m hm
    simp only [List.mem_append] at hm
    rcases hm with (hm | hm) | hm
    · exact (h.tkind m hm).2
    · exact (h.mkind m hm).2
    · exact (h.ekind m hm).2
  obtain ⟨w, hw, hms⟩ := membersText_blocks max _ h.ne hall
  rw [multiline_blocks i h max, hw]
  exact ⟨docLines 0 i.doc, [' '], w, ['\n'], by simp [regroup], hd1, hd2, trivia_space, by simp, h.name, hms,
    Trivia.newline (by decide) Trivia.nil⟩

theorem parse_multiline (i : IDL) (h : WFIdl i) (max : Nat) : parse (multiline i 0 max) = some (regroup i) :=
  parse_complete (file_layout i h max)

/-! ### `from_token` of the regrouped list gives the same three lists -/

theorem membersOf_of_nodup (k : Kind) (keys : List Str) (map : List (Str × Member)) (L : List Member)
    (hkeys : keys = namesOf k L) (hmap : ∀ n, lookupMap n map = lastOf k n L)
    (hnd : (L.map (·.name)).Nodup) : membersOf keys map = L.filter (·.kind = k) := by
  subst hkeys
  simp only [membersOf, namesOf, List.filterMap_map]
  have : ∀ (l : List Member), (∀ m ∈ l, m ∈ L ∧ m.kind = k) →
      l.filterMap ((fun key => lookupMap key map) ∘ fun m => m.name) = l := by
    intro l
    induction l with
    | nil => intro _; rfl
    | cons m l ih =>
      intro hl
      obtain ⟨hmL, hmk⟩ := hl m (by simp)
      have h1 : lookupMap m.name map = some m := by
        rw [hmap, ← hmk]; exact lastOf_of_nodup hnd hmL
      simp only [List.filterMap_cons, Function.comp, h1]
      rw [ih (fun x hx => hl x (by simp [hx]))]
  apply this
  intro m hm
  simp only [List.mem_filter, decide_eq_true_eq] at hm
  exact hm

theorem filter_kind_regroup (i : IDL) (h : WFIdl i) :
    (tList i ++ mList i ++ eList i).filter (·.kind = .typedef) = tList i ∧
    (tList i ++ mList i ++ eList i).filter (·.kind = .method) = mList i ∧
    (tList i ++ mList i ++ eList i).filter (·.kind = .error) = eList i := by
  have keep : ∀ (l : List Member) (k : Kind), (∀ m ∈ l, m.kind = k) → l.filter (·.kind = k) = l := by
    intro l k hl
    rw [List.filter_eq_self]
    intro m hm; simp [hl m hm]
  have drop : ∀ (l : List Member) (k k' : Kind), k ≠ k' → (∀ m ∈ l, m.kind = k) → l.filter (·.kind = k') = [] := by
    intro l k k' hne hl
    rw [List.filter_eq_nil_iff]
    intro m hm; simp [hl m hm, hne]
  have ht := fun m hm => (h.tkind m hm).1
  have hm := fun m hm => (h.mkind m hm).1
  have he := fun m hm => (h.ekind m hm).1
  simp only [List.filter_append]
  refine ⟨?_, ?_, ?_⟩
  · rw [keep _ _ ht, drop _ _ _ (by decide) hm, drop _ _ _ (by decide) he]; simp
  · rw [drop _ _ _ (by decide) ht, keep _ _ hm, drop _ _ _ (by decide) he]; simp
  · rw [drop _ _ _ (by decide) ht, drop _ _ _ (by decide) hm, keep _ _ he]; simp

theorem fromToken_regroup (i : IDL) (h : WFIdl i) :
    let i' := fromToken (regroup i)
    i'.name = i.name ∧ i'.doc = i.doc ∧ tList i' = tList i ∧ mList i' = mList i ∧ eList i' = eList i ∧ i'.error = [] := by
  have inv := foldInv_fromToken (regroup i)
  obtain ⟨f1, f2, f3⟩ := filter_kind_regroup i h
  have hnd : ((regroup i).members.map (·.name)).Nodup := h.nodup
  refine ⟨inv.name, fromToken_doc _, ?_, ?_, ?_, ?_⟩
  · rw [tList, membersOf_of_nodup .typedef _ _ _ inv.tkeys inv.tmap hnd]; exact f1
  · rw [mList, membersOf_of_nodup .method _ _ _ inv.mkeys inv.mmap hnd]; exact f2
  · rw [eList, membersOf_of_nodup .error _ _ _ inv.ekeys inv.emap hnd]; exact f3
  · cases he : (fromToken (regroup i)).error with
    | nil => rfl
    | cons msg r =>
      obtain ⟨n, hn, _⟩ := inv.sound msg (by rw [he]; simp)
      exact absurd hnd ((isDup_iff_not_nodup _).mp ⟨n, hn⟩)

/-- the rendering depends only on name, documentation and the three member lists -/
theorem multiline_congr (i i' : IDL) (h1 : i'.name = i.name) (h2 : i'.doc = i.doc) (h3 : tList i' = tList i)
    (h4 : mList i' = mList i) (h5 : eList i' = eList i) (indent max : Nat) :
    multiline i' indent max = multiline i indent max := by
  simp only [tList, mList, eList] at h3 h4 h5
  simp only [multiline, h1, h2, h3, h4, h5]

/-- **round trip and idempotence** for well-formed definitions, every width -/
theorem roundtrip (i : IDL) (h : WFIdl i) (max : Nat) :
    tryFrom (multiline i 0 max) = .ok (fromToken (regroup i)) ∧
    multiline (fromToken (regroup i)) 0 max = multiline i 0 max := by
  obtain ⟨h1, h2, h3, h4, h5, h6⟩ := fromToken_regroup i h
  refine ⟨?_, multiline_congr i _ h1 h2 h3 h4 h5 0 max⟩
  simp only [tryFrom, parse_multiline i h max]
  simp [h6]

end VV.Idl
