/-
Lemmas.IdlCompleteFile — completeness of the PEG for members and whole files:
`FileText p s → parse s = some p`.
-/
import VarlinkVerif.Lemmas.IdlCompleteStruct
import VarlinkVerif.Lemmas.IdlIfaceName

namespace VV.Idl
open Gram

/-! ### structs as member bodies -/

theorem vstruct_complete {f : Fields} {b : Str} (h : StructText f b) (r : Input) (n : Nat)
    (hn : (b ++ r).length ≤ n) : vstructF n (typeF n) (b ++ r) = some (f, r) := by
  simp only [StructText, TypeText] at h
  obtain ⟨body, t1, rfl, hf, ht1⟩ := h
  have e1 : ('(' :: body ++ t1 ++ [')']) ++ r = '(' :: (body ++ (t1 ++ ')' :: r)) := by simp
  rw [e1] at hn ⊢
  exact fields_complete f body hf t1 r n ht1 hn

theorem structText_head {f : Fields} {b : Str} (h : StructText f b) : ∃ b', b = '(' :: b' := by
  simp only [StructText, TypeText] at h
  obtain ⟨body, t1, rfl, _, _⟩ := h
  exact ⟨body ++ t1 ++ [')'], rfl⟩

theorem enumText_head {es : List Str} {b : Str} (h : EnumText es b) : ∃ b', b = '(' :: b' := by
  obtain ⟨t0, body, t1, rfl, _, _, _⟩ := h
  exact ⟨t0 ++ body ++ t1 ++ [')'], rfl⟩

/-! ### member heads -/

/-- `doc KEYWORD trivia+ Name trivia` in front of a '(' -/
theorem memberHead_complete {n : Nat} {d kw t1 nm t2 : Str} {x : Input} (hd : Trivia d)
    (hkw : HeadIs (fun c => Spec.isLetter c = true) kw) (ht1 : Trivia t1) (hne : t1 ≠ []) (hnm : Spec.isTypeName nm = true)
    (ht2 : Trivia t2) (hn : (d ++ kw ++ t1 ++ nm ++ t2 ++ '(' :: x).length ≤ n) :
    memberHeadF n kw (d ++ kw ++ t1 ++ nm ++ t2 ++ '(' :: x) = some ((Spec.trim d, nm), '(' :: x) := by
  have e1 : d ++ kw ++ t1 ++ nm ++ t2 ++ '(' :: x = d ++ (kw ++ (t1 ++ (nm ++ (t2 ++ '(' :: x)))) := by simp
  rw [e1] at hn ⊢
  simp only [List.length_append, List.length_cons] at hn
  have hk : HeadIs TokStart (kw ++ (t1 ++ (nm ++ (t2 ++ '(' :: x)))) :=
    hkw.append _ |> fun ⟨c, s', h1, h2⟩ => ⟨c, s', h1, tokStart_of_letter h2⟩
  have hw0 := wceStar_complete' (n := n) hd (noTriviaAhead_of_head hk)
    (by simp only [List.length_append, List.length_cons]; omega)
  have hnmh : HeadIs TokStart (nm ++ (t2 ++ '(' :: x)) :=
    (isTypeName_head hnm).append _ |> fun ⟨c, s', h1, h2⟩ => ⟨c, s', h1, tokStart_of_letter (letter_of_upper h2)⟩
  have hw1 := wcePlus_complete (n := n) ht1 hne (noTriviaAhead_of_head hnmh)
    (by simp only [List.length_append, List.length_cons]; omega)
  have hafter : HeadIs WordEnd (t2 ++ '(' :: x) :=
    head_trivia_append ht2 ⟨'(', x, rfl, wordEnd_lparen⟩ (fun c hc => wordEnd_of_trivia_char hc)
  have hname := name_complete hnm (noAlnumAhead_of_head (Or.inr hafter))
  have hw2 := wceStar_complete' (n := n) ht2 (noTriviaAhead_cons (r := x) tokStart_lparen)
    (by simp only [List.length_append, List.length_cons]; omega)
  simp only [memberHeadF, hw0, lit_append, hw1, hname, hw2, trimDoc_eq]

/-- a member head with another keyword fails -/
theorem memberHead_none {n : Nat} {d kw kw' : Str} {x : Input} (hd : Trivia d)
    (hkw : HeadIs (fun c => Spec.isLetter c = true) kw) (hlit : lit kw' (kw ++ x) = none)
    (hn : (d ++ kw ++ x).length ≤ n) : memberHeadF n kw' (d ++ kw ++ x) = none := by
  have e1 : d ++ kw ++ x = d ++ (kw ++ x) := by simp
  rw [e1] at hn ⊢
  have hk : HeadIs TokStart (kw ++ x) :=
    hkw.append _ |> fun ⟨c, s', h1, h2⟩ => ⟨c, s', h1, tokStart_of_letter h2⟩
  have hw0 := wceStar_complete' (n := n) hd (noTriviaAhead_of_head hk) hn
  simp only [memberHeadF, hw0, hlit]

theorem kwType_head : HeadIs (fun c => Spec.isLetter c = true) ['t', 'y', 'p', 'e'] := ⟨'t', _, rfl, by decide⟩
theorem kwMethod_head : HeadIs (fun c => Spec.isLetter c = true) ['m', 'e', 't', 'h', 'o', 'd'] := ⟨'m', _, rfl, by decide⟩
theorem kwError_head : HeadIs (fun c => Spec.isLetter c = true) ['e', 'r', 'r', 'o', 'r'] := ⟨'e', _, rfl, by decide⟩

/-! ### members -/

/-- **completeness of rule `member`** -/
theorem member_complete {m : Member} {w : Str} (h : MemberText m w) (r : Input) (n : Nat)
    (hn : (w ++ r).length ≤ n) : memberF n (w ++ r) = some (m, r) := by
  obtain ⟨d, t1, t2, hd, hdoc, ht1, hne, ht2, hnm, hbody⟩ := h
  obtain ⟨name, doc, body⟩ := m
  simp only at hdoc hnm hbody
  subst hdoc
  cases body with
  | typeStruct f =>
    simp only at hbody
    obtain ⟨b, rfl, hb⟩ := hbody
    obtain ⟨b', rfl⟩ := structText_head hb
    have e1 : d ++ ['t', 'y', 'p', 'e'] ++ t1 ++ name ++ t2 ++ '(' :: b' ++ r =
        d ++ ['t', 'y', 'p', 'e'] ++ t1 ++ name ++ t2 ++ '(' :: (b' ++ r) := by simp
    have e2 : d ++ ['t', 'y', 'p', 'e'] ++ t1 ++ name ++ t2 ++ '(' :: (b' ++ r) =
        d ++ ['t', 'y', 'p', 'e'] ++ (t1 ++ name ++ t2 ++ '(' :: (b' ++ r)) := by simp
    rw [e1] at hn ⊢
    have hlen : ('(' :: b' ++ r).length ≤ n := by
      simp only [List.length_append, List.length_cons] at hn ⊢; omega
    have hm : memberHeadF n ['m', 'e', 't', 'h', 'o', 'd'] (d ++ ['t', 'y', 'p', 'e'] ++ t1 ++ name ++ t2 ++ '(' :: (b' ++ r)) = none := by
      rw [e2]
      exact memberHead_none hd kwType_head (by simp [lit]) (by rw [← e2]; exact hn)
    have hh := memberHead_complete (n := n) (x := b' ++ r) hd kwType_head ht1 hne hnm ht2 hn
    have hv := vstruct_complete hb r n hlen
    simp only [List.cons_append] at hv
    simp only [memberF, methodF, hm, Option.bind_none, vtypedefF, hh, Option.bind_some, hv, Option.map_some]
  | typeEnum es =>
    simp only at hbody
    obtain ⟨b, rfl, hb⟩ := hbody
    obtain ⟨b', rfl⟩ := enumText_head hb
    have e1 : d ++ ['t', 'y', 'p', 'e'] ++ t1 ++ name ++ t2 ++ '(' :: b' ++ r =
        d ++ ['t', 'y', 'p', 'e'] ++ t1 ++ name ++ t2 ++ '(' :: (b' ++ r) := by simp
    have e2 : d ++ ['t', 'y', 'p', 'e'] ++ t1 ++ name ++ t2 ++ '(' :: (b' ++ r) =
        d ++ ['t', 'y', 'p', 'e'] ++ (t1 ++ name ++ t2 ++ '(' :: (b' ++ r)) := by simp
    rw [e1] at hn ⊢
    have hlen : ('(' :: b' ++ r).length ≤ n := by
      simp only [List.length_append, List.length_cons] at hn ⊢; omega
    have hm : memberHeadF n ['m', 'e', 't', 'h', 'o', 'd'] (d ++ ['t', 'y', 'p', 'e'] ++ t1 ++ name ++ t2 ++ '(' :: (b' ++ r)) = none := by
      rw [e2]
      exact memberHead_none hd kwType_head (by simp [lit]) (by rw [← e2]; exact hn)
    have hh := memberHead_complete (n := n) (x := b' ++ r) hd kwType_head ht1 hne hnm ht2 hn
    have hv := vstructF_none_of_enum hb (typeF n) r n hlen
    have he := venumF_complete hb r n hlen
    simp only [List.cons_append] at hv he
    simp only [memberF, methodF, hm, Option.bind_none, vtypedefF, hh, Option.bind_some, hv, Option.map_none, he,
      Option.map_some]
  | error f =>
    simp only at hbody
    obtain ⟨b, rfl, hb⟩ := hbody
    obtain ⟨b', rfl⟩ := structText_head hb
    have e1 : d ++ ['e', 'r', 'r', 'o', 'r'] ++ t1 ++ name ++ t2 ++ '(' :: b' ++ r =
        d ++ ['e', 'r', 'r', 'o', 'r'] ++ t1 ++ name ++ t2 ++ '(' :: (b' ++ r) := by simp
    have e2 : d ++ ['e', 'r', 'r', 'o', 'r'] ++ t1 ++ name ++ t2 ++ '(' :: (b' ++ r) =
        d ++ ['e', 'r', 'r', 'o', 'r'] ++ (t1 ++ name ++ t2 ++ '(' :: (b' ++ r)) := by simp
    rw [e1] at hn ⊢
    have hlen : ('(' :: b' ++ r).length ≤ n := by
      simp only [List.length_append, List.length_cons] at hn ⊢; omega
    have hm : memberHeadF n ['m', 'e', 't', 'h', 'o', 'd'] (d ++ ['e', 'r', 'r', 'o', 'r'] ++ t1 ++ name ++ t2 ++ '(' :: (b' ++ r)) = none := by
      rw [e2]
      exact memberHead_none hd kwError_head (by simp [lit]) (by rw [← e2]; exact hn)
    have ht : memberHeadF n ['t', 'y', 'p', 'e'] (d ++ ['e', 'r', 'r', 'o', 'r'] ++ t1 ++ name ++ t2 ++ '(' :: (b' ++ r)) = none := by
      rw [e2]
      exact memberHead_none hd kwError_head (by simp [lit]) (by rw [← e2]; exact hn)
    have hh := memberHead_complete (n := n) (x := b' ++ r) hd kwError_head ht1 hne hnm ht2 hn
    have hv := vstruct_complete hb r n hlen
    simp only [List.cons_append] at hv
    simp only [memberF, methodF, hm, Option.bind_none, vtypedefF, ht, errorF, hh, Option.bind_some, hv, Option.map_some]
  | method i o =>
    simp only at hbody
    obtain ⟨b1, t3, t4, b2, rfl, hb1, ht3, ht4, hb2⟩ := hbody
    obtain ⟨b1', rfl⟩ := structText_head hb1
    obtain ⟨b2', rfl⟩ := structText_head hb2
    have e1 : d ++ ['m', 'e', 't', 'h', 'o', 'd'] ++ t1 ++ name ++ t2 ++ '(' :: b1' ++ t3 ++ ['-', '>'] ++ t4 ++ '(' :: b2' ++ r =
        d ++ ['m', 'e', 't', 'h', 'o', 'd'] ++ t1 ++ name ++ t2 ++ '(' :: (b1' ++ (t3 ++ ('-' :: '>' :: (t4 ++ ('(' :: (b2' ++ r)))))) := by
      simp
    rw [e1] at hn ⊢
    have hn' := hn
    simp only [List.length_append, List.length_cons] at hn'
    have hh := memberHead_complete (n := n) (x := b1' ++ (t3 ++ ('-' :: '>' :: (t4 ++ ('(' :: (b2' ++ r)))))) hd kwMethod_head ht1 hne hnm ht2 hn
    have hv1 := vstruct_complete hb1 (t3 ++ ('-' :: '>' :: (t4 ++ ('(' :: (b2' ++ r))))) n
      (by simp only [List.length_append, List.length_cons]; omega)
    simp only [List.cons_append] at hv1
    have hw3 := wceStar_complete' (n := n) ht3 (noTriviaAhead_cons (r := '>' :: (t4 ++ ('(' :: (b2' ++ r)))) tokStart_dash)
      (by simp only [List.length_append, List.length_cons]; omega)
    have hl : lit ['-', '>'] ('-' :: '>' :: (t4 ++ ('(' :: (b2' ++ r)))) = some (t4 ++ ('(' :: (b2' ++ r))) := by simp [lit]
    have hw4 := wceStar_complete' (n := n) ht4 (noTriviaAhead_cons (r := b2' ++ r) tokStart_lparen)
      (by simp only [List.length_append, List.length_cons]; omega)
    have hv2 := vstruct_complete hb2 r n (by simp only [List.length_append, List.length_cons]; omega)
    simp only [List.cons_append] at hv2
    simp only [memberF, methodF, hh, Option.bind_some, hv1, hw3, hl, hw4, hv2, Option.map_some]


/-! ### `eol` -/

theorem eolR_of_lineTerm {nl rest : Str} (h : IsLineTerm nl rest) : eolR (nl ++ rest) = some (nl, rest) := by
  rcases h with rfl | rfl | ⟨rfl, hne⟩ | rfl | rfl
  · simp [eolR]
  · simp [eolR]
  · cases rest with
    | nil => simp [eolR]
    | cons c r =>
      have : c ≠ '\n' := by intro e; subst e; simp at hne
      simp [eolR, this]
  · simp [eolR]
  · simp [eolR]

theorem lineTerm_head {nl rest : Str} (h : IsLineTerm nl rest) :
    ∃ c nl', nl = c :: nl' ∧ Spec.isNewline c = true := by
  rcases h with rfl | rfl | ⟨rfl, _⟩ | rfl | rfl
  · exact ⟨_, _, rfl, by decide⟩
  · exact ⟨_, _, rfl, by decide⟩
  · exact ⟨_, _, rfl, by decide⟩
  · exact ⟨_, _, rfl, by decide⟩
  · exact ⟨_, _, rfl, by decide⟩

/-- **completeness of rule `eol`** -/
theorem eol_complete {e rest : Str} (h : IsEol e rest) : eol (e ++ rest) = some (e, rest) := by
  rcases h with ⟨ws, nl, rfl, hws, hnl⟩ | ⟨body, nl, rfl, hbody, hnl⟩
  · obtain ⟨c, nl', rfl, hc⟩ := lineTerm_head hnl
    have hstop : ∀ c' r', (c :: nl') ++ rest = c' :: r' → isWs c' = false := by
      intro c' r' e
      simp only [List.cons_append, List.cons.injEq] at e
      rw [← e.1, isWs_eq]; exact newline_not_space hc
    have := takeWhile_append_all isWs ws ((c :: nl') ++ rest) (fun x hx => by rw [isWs_eq]; exact hws x hx) hstop
    have e1 : ws ++ c :: nl' ++ rest = ws ++ ((c :: nl') ++ rest) := by simp
    rw [e1]
    simp only [eol, this.1, this.2, eolR_of_lineTerm hnl]
  · obtain ⟨c, nl', rfl, hc⟩ := lineTerm_head hnl
    have hws : isWs '#' = false := by decide
    have h1 : eolR (('#' :: body ++ c :: nl' ++ rest).dropWhile isWs) = none := by
      simp [List.dropWhile, hws, eolR]
    have hstop : ∀ c' r', (c :: nl') ++ rest = c' :: r' → (fun x => !isEolChar x) c' = false := by
      intro c' r' e
      simp only [List.cons_append, List.cons.injEq] at e
      rw [← e.1]
      simp [isEolChar_eq, hc]
    have := takeWhile_append_all (fun x => !isEolChar x) body ((c :: nl') ++ rest)
      (fun x hx => by simp [isEolChar_eq, hbody x hx]) hstop
    have e1 : '#' :: body ++ c :: nl' ++ rest = '#' :: (body ++ ((c :: nl') ++ rest)) := by simp
    simp only [eol, h1]
    rw [e1]
    simp only [comment, if_true, this.1, this.2, eolR_of_lineTerm hnl]

theorem isEol_append {e rest : Str} (h : IsEol e rest) (hne : rest ≠ []) (x : Str) : IsEol e (rest ++ x) := by
  have key : ∀ nl, IsLineTerm nl rest → IsLineTerm nl (rest ++ x) := by
    intro nl hnl
    rcases hnl with h | h | ⟨h, hh⟩ | h | h
    · exact Or.inl h
    · exact Or.inr (Or.inl h)
    · refine Or.inr (Or.inr (Or.inl ⟨h, ?_⟩))
      cases rest with
      | nil => exact absurd rfl hne
      | cons c r => simpa using hh
    · exact Or.inr (Or.inr (Or.inr (Or.inl h)))
    · exact Or.inr (Or.inr (Or.inr (Or.inr h)))
  rcases h with ⟨ws, nl, rfl, hws, hnl⟩ | ⟨body, nl, rfl, hbody, hnl⟩
  · exact Or.inl ⟨ws, nl, rfl, hws, key nl hnl⟩
  · exact Or.inr ⟨body, nl, rfl, hbody, key nl hnl⟩

/-- the first character of an `eol` is a trivia character -/
theorem isEol_head {e rest : Str} (h : IsEol e rest) (x : Str) :
    HeadIs (fun c => Spec.isSpace c = true ∨ Spec.isNewline c = true ∨ c = '#') (e ++ x) := by
  rcases h with ⟨ws, nl, rfl, hws, hnl⟩ | ⟨body, nl, rfl, _, _⟩
  · obtain ⟨c, nl', rfl, hc⟩ := lineTerm_head hnl
    cases ws with
    | nil => exact ⟨c, nl' ++ x, by simp, Or.inr (Or.inl hc)⟩
    | cons w ws' => exact ⟨w, ws' ++ c :: nl' ++ x, by simp, Or.inl (hws w (by simp))⟩
  · exact ⟨'#', body ++ nl ++ x, by simp, Or.inr (Or.inr rfl)⟩

/-! ### what remains of trailing trivia after an `eol` is trivia, and no member starts there -/

theorem trivia_after_eolR_ws : ∀ {t : Str}, Trivia t → ∀ {nl s1 : Str},
    eolR (t.dropWhile isWs) = some (nl, s1) → Trivia s1 := by
  intro t ht
  induction ht with
  | nil => intro nl s1 h; simp [eolR] at h
  | @space c t' hc _ ih =>
    intro nl s1 h
    have : isWs c = true := by rw [isWs_eq]; exact hc
    simp only [List.dropWhile, this] at h
    exact ih h
  | @newline c t' hc ht' _ =>
    intro nl s1 h
    have hw : isWs c = false := by rw [isWs_eq]; exact newline_not_space hc
    simp only [List.dropWhile, hw] at h
    obtain ⟨nl', t'', h1, h2, h3, _⟩ := eolR_on_trivia (r := []) hc ht' (by intro c r' e; cases e)
    simp only [List.append_nil] at h1
    rw [h1] at h
    simp only [Option.some.injEq, Prod.mk.injEq] at h
    rw [← h.2]; exact h3
  | @comment body e t' _ _ _ _ =>
    intro nl s1 h
    have hw : isWs '#' = false := by decide
    simp [List.dropWhile, hw, eolR] at h

theorem trivia_after_eol {t e s1 : Str} (ht : Trivia t) (h : eol t = some (e, s1)) : Trivia s1 := by
  simp only [eol] at h
  split at h
  · rename_i nl r' hr
    simp only [Option.some.injEq, Prod.mk.injEq] at h
    rw [← h.2]
    exact trivia_after_eolR_ws ht hr
  · cases ht with
    | nil => simp [comment] at h
    | @space c t' hc _ =>
      have : c ≠ '#' := by intro e; subst e; revert hc; decide
      simp [comment, this] at h
    | @newline c t' hc _ =>
      have : c ≠ '#' := by intro e; subst e; revert hc; decide
      simp [comment, this] at h
    | @comment body e' t' hb he ht' =>
      have hbody : ∀ x ∈ body, (fun x => !isEolChar x) x = true := by
        intro x hx; simp [isEolChar_eq, hb x hx]
      have hstop : ∀ c r', e' :: t' = c :: r' → (fun x => !isEolChar x) c = false := by
        intro c r' h
        simp only [List.cons.injEq] at h
        rw [← h.1]; simp [isEolChar_eq, he]
      have hsplit := takeWhile_append_all (fun x => !isEolChar x) body (e' :: t') hbody hstop
      obtain ⟨nl', t'', h1, _, h3, _⟩ := eolR_on_trivia (r := []) he ht' (by intro c r' e; cases e)
      simp only [List.append_nil] at h1
      have e2 : '#' :: body ++ e' :: t' = '#' :: (body ++ e' :: t') := by simp
      rw [e2] at h
      simp only [comment, if_true, hsplit.2, h1, Option.some.injEq, Prod.mk.injEq] at h
      rw [← h.2]; exact h3

theorem memberHead_none_of_trivia {n : Nat} {kw x : Str} (hx : Trivia x) (hkw : kw ≠ []) (hn : x.length ≤ n) :
    memberHeadF n kw x = none := by
  have hw := wceStar_complete' (n := n) (r := []) hx (by intro c r' e; cases e) (by simpa using hn)
  simp only [List.append_nil] at hw
  cases kw with
  | nil => exact absurd rfl hkw
  | cons c l => simp [memberHeadF, hw, lit]

theorem memberF_none_of_trivia {n : Nat} {x : Str} (hx : Trivia x) (hn : x.length ≤ n) : memberF n x = none := by
  have h1 := memberHead_none_of_trivia (kw := ['m', 'e', 't', 'h', 'o', 'd']) hx (by simp) hn
  have h2 := memberHead_none_of_trivia (kw := ['t', 'y', 'p', 'e']) hx (by simp) hn
  have h3 := memberHead_none_of_trivia (kw := ['e', 'r', 'r', 'o', 'r']) hx (by simp) hn
  simp only [memberF, methodF, vtypedefF, errorF, h1, h2, h3, Option.bind_none]

/-! ### member lists and the file -/

theorem memberText_ne_nil {m : Member} {w : Str} (h : MemberText m w) : w ≠ [] := by
  obtain ⟨d, t1, t2, _, _, _, _, _, _, hbody⟩ := h
  cases hb : m.body <;> rw [hb] at hbody <;> simp only at hbody
  · obtain ⟨b, rfl, _⟩ := hbody; simp
  · obtain ⟨b, rfl, _⟩ := hbody; simp
  · obtain ⟨b1, t3, t4, b2, rfl, _⟩ := hbody; simp
  · obtain ⟨b, rfl, _⟩ := hbody; simp

/-- `(eol member)*` followed by the trailing trivia of the file -/
theorem membersTail_complete : ∀ (ms : List Member) (w : Str), ((ms = [] ∧ w = []) ∨ MembersText ms w) →
    ∀ (tend : Str) (n k : Nat), Trivia tend → (w ++ tend).length ≤ n → (w ++ tend).length ≤ k →
    sepTailF (memberF n) eolSep k (w ++ tend) = (ms, tend)
  | [], w, h => by
    intro tend n k htend hn hk
    rcases h with ⟨_, rfl⟩ | h
    · simp only [List.nil_append] at hn hk ⊢
      cases k with
      | zero => rfl
      | succ k =>
        simp only [sepTailF, eolSep]
        cases he : eol tend with
        | none => rfl
        | some x =>
          obtain ⟨e, s1⟩ := x
          have hs1 := trivia_after_eol htend he
          have hlen : s1.length ≤ n := by
            have := good_eol.shrinks _ _ _ he
            omega
          simp [memberF_none_of_trivia hs1 hlen]
    · simp [MembersText] at h
  | [m], w, h => by
    intro tend n k htend hn hk
    rcases h with ⟨h, _⟩ | h
    · cases h
    · simp only [MembersText] at h
      obtain ⟨e, mw, rfl, he, hm⟩ := h
      cases k with
      | zero =>
        have := memberText_ne_nil hm
        cases mw with
        | nil => exact absurd rfl this
        | cons c r => simp at hk
      | succ k =>
        have he' := eol_complete (isEol_append he (memberText_ne_nil hm) tend)
        have e1 : e ++ mw ++ tend = e ++ (mw ++ tend) := by simp
        rw [e1] at hn hk ⊢
        simp only [List.length_append] at hn hk
        have hmem := member_complete hm tend n (by simp only [List.length_append]; omega)
        have ih := membersTail_complete [] [] (Or.inl ⟨rfl, rfl⟩) tend n k htend
          (by simp only [List.nil_append]; omega) (by
            simp only [List.nil_append]
            have := memberText_ne_nil hm
            cases mw with
            | nil => exact absurd rfl this
            | cons c r => simp only [List.length_cons] at hk; omega)
        simp only [List.nil_append] at ih
        simp only [sepTailF, eolSep, he', Option.map_some, hmem, ih]
  | m :: m' :: r, w, h => by
    intro tend n k htend hn hk
    rcases h with ⟨h, _⟩ | h
    · cases h
    · simp only [MembersText] at h
      obtain ⟨e, mw, w', rfl, he, hm, hrest⟩ := h
      cases k with
      | zero =>
        have := memberText_ne_nil hm
        cases mw with
        | nil => exact absurd rfl this
        | cons c r => simp at hk
      | succ k =>
        have hne : mw ++ w' ≠ [] := by
          have := memberText_ne_nil hm
          cases mw with
          | nil => exact absurd rfl this
          | cons c r => simp
        have he' := eol_complete (isEol_append he hne tend)
        have e1 : e ++ mw ++ w' ++ tend = e ++ (mw ++ w' ++ tend) := by simp
        have e2 : mw ++ w' ++ tend = mw ++ (w' ++ tend) := by simp
        rw [e1] at hn hk ⊢
        rw [e2] at he' hn hk ⊢
        simp only [List.length_append] at hn hk
        have hmem := member_complete hm (w' ++ tend) n (by simp only [List.length_append]; omega)
        have ih := membersTail_complete (m' :: r) w' (Or.inr hrest) tend n k htend
          (by simp only [List.length_append]; omega) (by
            have := memberText_ne_nil hm
            cases mw with
            | nil => exact absurd rfl this
            | cons c r => simp only [List.length_append, List.length_cons] at hk ⊢; omega)
        simp only [sepTailF, eolSep, he', Option.map_some, hmem, ih]

theorem noNameAhead_of_triviaChar {s : Str}
    (h : HeadIs (fun c => Spec.isSpace c = true ∨ Spec.isNewline c = true ∨ c = '#') s) : NoNameAhead s := by
  obtain ⟨c, s', rfl, hc⟩ := h
  intro c' r' e
  simp only [List.cons.injEq] at e
  rw [← e.1]
  have hw := wordEnd_of_trivia_char hc
  refine ⟨?_, ?_⟩
  · simp only [isLabelChar, hw.1, Bool.false_or]
    rw [Bool.eq_false_iff]
    intro h
    have : c = '-' := by simpa using h
    subst this
    rcases hc with h | h | h
    · revert h; decide
    · revert h; decide
    · revert h; decide
  · intro e; subst e
    rcases hc with h | h | h
    · revert h; decide
    · revert h; decide
    · revert h; decide

/-- **C11 completeness of the whole grammar**: every text the declarative grammar derives for a
    definition is parsed by the PEG to exactly that definition -/
theorem parse_complete {p : Parsed} {s : Str} (h : FileText p s) : parse s = some p := by
  obtain ⟨d, t1, ms, tend, rfl, hd, hdoc, ht1, hne, hname, hms, htend⟩ := h
  obtain ⟨name, doc, members⟩ := p
  simp only at hdoc hname hms
  subst hdoc
  cases members with
  | nil => simp [MembersText] at hms
  | cons m rest =>
    -- split off the first `eol member`
    have hsplit : ∃ e mw w', ms = e ++ mw ++ w' ∧ IsEol e (mw ++ w') ∧ MemberText m mw ∧
        ((rest = [] ∧ w' = []) ∨ MembersText rest w') := by
      cases rest with
      | nil =>
        simp only [MembersText] at hms
        obtain ⟨e, mw, rfl, he, hm⟩ := hms
        exact ⟨e, mw, [], by simp, by simpa using he, hm, Or.inl ⟨rfl, rfl⟩⟩
      | cons m' r =>
        simp only [MembersText] at hms
        obtain ⟨e, mw, w', rfl, he, hm, hr⟩ := hms
        exact ⟨e, mw, w', rfl, he, hm, Or.inr hr⟩
    obtain ⟨e, mw, w', rfl, he, hm, hrest⟩ := hsplit
    have hmne := memberText_ne_nil hm
    have hne2 : mw ++ w' ≠ [] := by
      cases mw with
      | nil => exact absurd rfl hmne
      | cons c r => simp
    let N := (d ++ ['i', 'n', 't', 'e', 'r', 'f', 'a', 'c', 'e'] ++ t1 ++ name ++ (e ++ mw ++ w') ++ tend).length + 1
    have e1 : d ++ ['i', 'n', 't', 'e', 'r', 'f', 'a', 'c', 'e'] ++ t1 ++ name ++ (e ++ mw ++ w') ++ tend =
        d ++ (['i', 'n', 't', 'e', 'r', 'f', 'a', 'c', 'e'] ++ (t1 ++ (name ++ (e ++ (mw ++ (w' ++ tend)))))) := by simp
    have hN : (d ++ (['i', 'n', 't', 'e', 'r', 'f', 'a', 'c', 'e'] ++ (t1 ++ (name ++ (e ++ (mw ++ (w' ++ tend))))))).length + 1 = N := by
      simp only [N, e1]
    have hNlen := hN
    simp only [List.length_append, List.length_cons, List.length_nil] at hNlen
    have hk : HeadIs TokStart (['i', 'n', 't', 'e', 'r', 'f', 'a', 'c', 'e'] ++ (t1 ++ (name ++ (e ++ (mw ++ (w' ++ tend)))))) :=
      ⟨'i', _, rfl, tokStart_of_letter (by decide)⟩
    have hw0 := wceStar_complete' (n := N) hd (noTriviaAhead_of_head hk)
      (by simp only [List.length_append, List.length_cons, List.length_nil]; omega)
    have hnameHead : HeadIs TokStart (name ++ (e ++ (mw ++ (w' ++ tend)))) := by
      have : HeadIs (fun c => Spec.isLetter c = true) name := by
        simp only [Spec.isInterfaceName, Bool.and_eq_true] at hname
        cases name with
        | nil => simp at hname
        | cons c r => exact ⟨c, r, rfl, hname.2⟩
      obtain ⟨c, s', h1, h2⟩ := this.append (e ++ (mw ++ (w' ++ tend)))
      exact ⟨c, s', h1, tokStart_of_letter h2⟩
    have hw1 := wcePlus_complete (n := N) ht1 hne (noTriviaAhead_of_head hnameHead)
      (by simp only [List.length_append, List.length_cons, List.length_nil]; omega)
    have hiface := interfaceNameF_complete (n := N) (r := e ++ (mw ++ (w' ++ tend)))
      (by simp only [List.length_append, List.length_cons, List.length_nil]; omega) hname
      (noNameAhead_of_triviaChar (isEol_head he _))
    have he' : eol (e ++ (mw ++ (w' ++ tend))) = some (e, mw ++ (w' ++ tend)) := by
      have := eol_complete (isEol_append he hne2 tend)
      simpa using this
    have hmem := member_complete hm (w' ++ tend) N (by simp only [List.length_append]; omega)
    have htl := membersTail_complete rest w' hrest tend N N htend (by simp only [List.length_append]; omega)
      (by simp only [List.length_append]; omega)
    have hw2 : wceStarF N tend = (tend, []) := by
      have := wceStar_complete' (n := N) (r := []) htend (by intro c r' e; cases e) (by simp; omega)
      simpa using this
    simp only [parse]
    rw [e1, hN]
    simp only [parseInterfaceF, hw0, lit_append, hw1, hiface, he', sepByF, hmem, htl, hw2, trimDoc_eq]

end VV.Idl
