/-
Lemmas.Gen — helper lemmas for C08 (serde round trip of the emitted types).
-/
import VarlinkVerif.Model.Gen

namespace VV
namespace Gen

/-! ### the `Option` wrapper -/

theorem optWrap_opt_null (t' : Ty) (rec : Ty → Option Val) :
    optWrap (.opt t') .null rec = some Val.none := rfl

theorem optWrap_opt_ne (t' : Ty) (x : Json) (rec : Ty → Option Val) (h : x ≠ .null) :
    optWrap (.opt t') x rec = (rec t').map Val.some := by
  cases x <;> simp_all [optWrap]

theorem optWrap_nonopt (t : Ty) (x : Json) (rec : Ty → Option Val) (h : isOpt t = false) :
    optWrap t x rec = rec t := by
  cases t <;> simp_all [optWrap, isOpt]

/-! ### unfolding the list helpers through `wtElem` -/

theorem wtList_cons (env : Env) (te : Ty) (x : Val) (xs : List Val) :
    wtList env te (x :: xs) = (wtElem env te x && wtList env te xs) := by
  cases te <;> cases x <;> simp [wtList, wtElem]

theorem wtMap_cons (env : Env) (te : Ty) (k : String) (x : Val) (xs : List (String × Val)) :
    wtMap env te ((k, x) :: xs) = (wtElem env te x && wtMap env te xs) := by
  cases te <;> cases x <;> simp [wtMap, wtElem]

theorem wtFields_cons (env : Env) (f : String) (ft : Ty) (fs : List (String × Ty)) (k : String) (x : Val)
    (xs : List (String × Val)) :
    wtFields env ((f, ft) :: fs) ((k, x) :: xs) = (f == k && wtElem env ft x && wtFields env fs xs) := by
  cases ft <;> cases x <;> simp [wtFields, wtElem]

end Gen
end VV

namespace VV
namespace Gen

/-! ### inversion of `wtCore` -/

theorem wtCore_bool {env : Env} {t : Ty} {b : Bool} (h : wtCore env t (.bool b) = true) :
    resolve env t = .bool := by
  unfold wtCore at h; split at h <;> simp_all

theorem wtCore_int {env : Env} {t : Ty} {i : Int} (h : wtCore env t (.int i) = true) :
    resolve env t = .int ∧ inI64 i = true := by
  unfold wtCore at h; split at h <;> simp_all

theorem wtCore_flt {env : Env} {t : Ty} {b : Nat} (h : wtCore env t (.flt b) = true) :
    resolve env t = .float ∧ finiteBits b = true := by
  unfold wtCore at h; split at h <;> simp_all

theorem wtCore_str {env : Env} {t : Ty} {s : String} (h : wtCore env t (.str s) = true) :
    resolve env t = .string := by
  unfold wtCore at h; split at h <;> simp_all

theorem wtCore_json {env : Env} {t : Ty} {j : Json} (h : wtCore env t (.json j) = true) :
    resolve env t = .object := by
  unfold wtCore at h; split at h <;> simp_all

theorem wtCore_none {env : Env} {t : Ty} (h : wtCore env t .none = true) : False := by
  unfold wtCore at h; split at h <;> simp_all

theorem wtCore_some {env : Env} {t : Ty} {y : Val} (h : wtCore env t (.some y) = true) : False := by
  unfold wtCore at h; split at h <;> simp_all

theorem wtCore_enum {env : Env} {t : Ty} {s : String} (h : wtCore env t (.enum s) = true) :
    ∃ vs, resolve env t = .enum vs ∧ vs.contains s = true := by
  unfold wtCore at h; split at h <;> simp_all

theorem wtCore_arr {env : Env} {t : Ty} {l : List Val} (h : wtCore env t (.arr l) = true) :
    ∃ te, resolve env t = .arr te ∧ wtList env te l = true := by
  unfold wtCore at h; split at h <;> simp_all

theorem wtCore_set {env : Env} {t : Ty} {ks : List String} (h : wtCore env t (.set ks) = true) :
    resolve env t = .map (.struct []) ∧ strNodup ks = true := by
  unfold wtCore at h; split at h <;> simp_all

theorem wtCore_map {env : Env} {t : Ty} {kvs : List (String × Val)} (h : wtCore env t (.map kvs) = true) :
    ∃ te, resolve env t = .map te ∧ te ≠ .struct [] ∧ keysNodup kvs = true ∧ wtMap env te kvs = true := by
  unfold wtCore at h; split at h <;> simp_all

theorem wtCore_record {env : Env} {t : Ty} {kvs : List (String × Val)} (h : wtCore env t (.record kvs) = true) :
    ∃ fs, resolve env t = .struct fs ∧ keysNodup fs = true ∧ wtFields env fs kvs = true := by
  unfold wtCore at h; split at h <;> simp_all

/-- a well-typed non-`Option` value that is not `Value::Null` never serialises to `null` -/
theorem encode_ne_null {env : Env} {t : Ty} {y : Val} (h : wtCore env t y = true)
    (hn : isNullJsonVal y = false) : encode y ≠ .null := by
  cases y with
  | flt b => have := (wtCore_flt h).2; simp [encode, this]
  | json j => cases j <;> simp_all [encode, isNullJsonVal]
  | none => exact (wtCore_none h).elim
  | some y => exact (wtCore_some h).elim
  | _ => simp [encode]

theorem decodeSet_keys (ks : List String) :
    decodeSet (ks.map fun k => (k, Json.obj [])) = some ks := by
  induction ks with
  | nil => rfl
  | cons k ks ih => simp [decodeSet, isEmptyStructJson, ih]

/-! ### struct members -/

theorem wtFields_names {env : Env} : ∀ {fs : List (String × Ty)} {kvs : List (String × Val)},
    wtFields env fs kvs = true → kvs.map (·.1) = fs.map (·.1)
  | [], [], _ => rfl
  | [], _ :: _, h => by simp [wtFields] at h
  | _ :: _, [], h => by simp [wtFields] at h
  | (f, ft) :: fs, (k, x) :: xs, h => by
    rw [wtFields_cons] at h
    simp only [Bool.and_eq_true, beq_iff_eq] at h
    simp [h.1.1, wtFields_names h.2]

theorem keysNodup_cons {α} {k : String} {a : α} {l : List (String × α)} (h : keysNodup ((k, a) :: l) = true) :
    (∀ p ∈ l, p.1 ≠ k) ∧ keysNodup l = true := by
  simp only [keysNodup, Bool.and_eq_true, Bool.not_eq_true', List.any_eq_false, beq_iff_eq] at h
  exact ⟨fun p hp => by simpa using h.1 p hp, h.2⟩

theorem lookupTy_cons_ne {k f : String} {ft : Ty} {fs : List (String × Ty)} (h : f ≠ k) :
    lookupTy k ((f, ft) :: fs) = lookupTy k fs := by
  simp [lookupTy, h]

/-- every member of a well-typed record finds its own field type by name -/
theorem lookupTy_of_wtFields {env : Env} : ∀ {fs : List (String × Ty)} {kvs : List (String × Val)},
    wtFields env fs kvs = true → keysNodup fs = true →
    ∀ k v, (k, v) ∈ kvs → ∃ ft, lookupTy k fs = some ft ∧ wtElem env ft v = true
  | [], [], _, _, _, _, hm => by simp at hm
  | [], _ :: _, h, _, _, _, _ => by simp [wtFields] at h
  | _ :: _, [], h, _, _, _, _ => by simp [wtFields] at h
  | (f, ft) :: fs, (k0, x) :: xs, h, hn, k, v, hm => by
    have hnames := wtFields_names h
    rw [wtFields_cons] at h
    simp only [Bool.and_eq_true, beq_iff_eq] at h
    obtain ⟨⟨hfk, hx⟩, hrest⟩ := h
    obtain ⟨hnotin, hn'⟩ := keysNodup_cons hn
    rcases List.mem_cons.mp hm with heq | hin
    · cases heq
      exact ⟨ft, by simp [lookupTy, hfk], hx⟩
    · obtain ⟨ft', hl, hw⟩ := lookupTy_of_wtFields hrest hn' k v hin
      refine ⟨ft', ?_, hw⟩
      have hk : k ∈ fs.map (·.1) := by
        have : k ∈ xs.map (·.1) := List.mem_map.mpr ⟨(k, v), hin, rfl⟩
        simp only [List.map_cons, List.cons.injEq] at hnames
        rw [hnames.2] at this; exact this
      obtain ⟨p, hp, hpk⟩ := List.mem_map.mp hk
      have : f ≠ k := fun e => hnotin p hp (by rw [hpk, e])
      rw [lookupTy_cons_ne this]; exact hl

/-- what `assemble` needs from the decoded member list -/
def AsmOk (dec : List (String × Val)) : List (String × Ty) → List (String × Val) → Prop
  | [], [] => True
  | (f, ft) :: fs, (k, v) :: kvs =>
    f = k ∧ (dec.lookup f = some v ∨ (dec.lookup f = none ∧ isOpt ft = true ∧ v = Val.none)) ∧ AsmOk dec fs kvs
  | _, _ => False

theorem assemble_of_ok {dec : List (String × Val)} : ∀ {fs : List (String × Ty)} {kvs : List (String × Val)},
    AsmOk dec fs kvs → assemble fs dec = some kvs
  | [], [], _ => rfl
  | [], _ :: _, h => by simp [AsmOk] at h
  | _ :: _, [], h => by simp [AsmOk] at h
  | (f, ft) :: fs, (k, v) :: kvs, h => by
    obtain ⟨hfk, hl, hrest⟩ := h
    have ih := assemble_of_ok hrest
    subst hfk
    rcases hl with hl | ⟨hl, ho, hv⟩
    · simp [assemble, hl, ih]
    · simp [assemble, hl, ho, ih, hv]

theorem AsmOk_cons_dec {k0 : String} {v0 : Val} {dec : List (String × Val)} :
    ∀ {fs : List (String × Ty)} {kvs : List (String × Val)},
    (∀ p ∈ fs, p.1 ≠ k0) → AsmOk dec fs kvs → AsmOk ((k0, v0) :: dec) fs kvs
  | [], [], _, _ => trivial
  | [], _ :: _, _, h => by simp [AsmOk] at h
  | _ :: _, [], _, h => by simp [AsmOk] at h
  | (f, ft) :: fs, (k, v) :: kvs, hne, h => by
    obtain ⟨hfk, hl, hrest⟩ := h
    have hf : f ≠ k0 := hne (f, ft) (List.mem_cons_self ..)
    have hlk : List.lookup f ((k0, v0) :: dec) = List.lookup f dec := by
      have : (f == k0) = false := by simp [hf]
      simp [List.lookup, this]
    refine ⟨hfk, ?_, AsmOk_cons_dec (fun p hp => hne p (List.mem_cons_of_mem _ hp)) hrest⟩
    rw [hlk]; exact hl

end Gen
end VV

namespace VV
namespace Gen

theorem lookup_none_of_notin {f : String} : ∀ {l : List (String × Val)}, (∀ p ∈ l, p.1 ≠ f) → l.lookup f = none
  | [], _ => rfl
  | (k, v) :: l, h => by
    have hk : k ≠ f := h (k, v) (List.mem_cons_self ..)
    have : (f == k) = false := by simp [Ne.symm hk]
    simp [List.lookup, this, lookup_none_of_notin (fun p hp => h p (List.mem_cons_of_mem _ hp))]

theorem wtElem_none_isOpt {env : Env} {ft : Ty} (h : wtElem env ft .none = true) : isOpt ft = true := by
  cases ft <;> simp_all [wtElem, isOpt] <;> exact (wtCore_none h).elim

theorem isNone_eq {v : Val} (h : isNone v = true) : v = .none := by
  cases v <;> simp_all [isNone]

/-- members that are serialised at the top level -/
def dropNone (kvs : List (String × Val)) : List (String × Val) := kvs.filter fun kv => !(isNone kv.2)

theorem encodeTopKV_eq (kvs : List (String × Val)) : encodeTopKV kvs = encodeKV (dropNone kvs) := by
  induction kvs with
  | nil => rfl
  | cons kv kvs ih =>
    obtain ⟨k, v⟩ := kv
    by_cases h : isNone v = true
    · simp [encodeTopKV, dropNone, h, ih]
    · simp only [Bool.not_eq_true] at h
      simp [encodeTopKV, dropNone, h, encodeKV, ih]

theorem keys_of_wtFields_notin {env : Env} {f : String} {fs : List (String × Ty)} {xs : List (String × Val)}
    (hrest : wtFields env fs xs = true) (hnotin : ∀ p ∈ fs, p.1 ≠ f) : ∀ p ∈ xs, p.1 ≠ f := by
  intro p hp
  have hnames := wtFields_names hrest
  have : p.1 ∈ fs.map (·.1) := by rw [← hnames]; exact List.mem_map.mpr ⟨p, hp, rfl⟩
  obtain ⟨q, hq, hqk⟩ := List.mem_map.mp this
  rw [← hqk]; exact hnotin q hq

theorem asmOk_self {env : Env} : ∀ {fs : List (String × Ty)} {kvs : List (String × Val)},
    wtFields env fs kvs = true → keysNodup fs = true → AsmOk kvs fs kvs
  | [], [], _, _ => trivial
  | [], _ :: _, h, _ => by simp [wtFields] at h
  | _ :: _, [], h, _ => by simp [wtFields] at h
  | (f, ft) :: fs, (k, x) :: xs, h, hn => by
    rw [wtFields_cons] at h
    simp only [Bool.and_eq_true, beq_iff_eq] at h
    obtain ⟨⟨hfk, _⟩, hrest⟩ := h
    obtain ⟨hnotin, hn'⟩ := keysNodup_cons hn
    subst hfk
    refine ⟨rfl, Or.inl (by simp [List.lookup]), ?_⟩
    exact AsmOk_cons_dec hnotin (asmOk_self hrest hn')

theorem asmOk_top {env : Env} : ∀ {fs : List (String × Ty)} {kvs : List (String × Val)},
    wtFields env fs kvs = true → keysNodup fs = true → AsmOk (dropNone kvs) fs kvs
  | [], [], _, _ => trivial
  | [], _ :: _, h, _ => by simp [wtFields] at h
  | _ :: _, [], h, _ => by simp [wtFields] at h
  | (f, ft) :: fs, (k, x) :: xs, h, hn => by
    rw [wtFields_cons] at h
    simp only [Bool.and_eq_true, beq_iff_eq] at h
    obtain ⟨⟨hfk, hx⟩, hrest⟩ := h
    obtain ⟨hnotin, hn'⟩ := keysNodup_cons hn
    subst hfk
    have ih := asmOk_top hrest hn'
    by_cases hnone : isNone x = true
    · have hxe := isNone_eq hnone
      subst hxe
      have hd : dropNone ((f, Val.none) :: xs) = dropNone xs := by simp [dropNone, isNone]
      rw [hd]
      refine ⟨rfl, Or.inr ⟨?_, wtElem_none_isOpt hx, rfl⟩, ih⟩
      apply lookup_none_of_notin
      intro p hp
      exact keys_of_wtFields_notin hrest hnotin p (List.mem_filter.mp hp).1
    · simp only [Bool.not_eq_true] at hnone
      have hd : dropNone ((f, x) :: xs) = (f, x) :: dropNone xs := by simp [dropNone, hnone]
      rw [hd]
      exact ⟨rfl, Or.inl (by simp [List.lookup]), AsmOk_cons_dec hnotin ih⟩

/-! ### the round trip, by structural recursion on the value (mutual with its lists) -/

/-- non-`Option` constructors: the element form follows from the core form -/
theorem elem_of_core {env : Env} {v : Val} (hs : ∀ y, v ≠ .some y) (hn : v ≠ .none)
    (core : ∀ t, wtCore env t v = true → decodeCore env t (encode v) = some v) :
    ∀ te, wtElem env te v = true → optWrap te (encode v) (fun t => decodeCore env t (encode v)) = some v := by
  intro te h
  by_cases ho : isOpt te = true
  · cases te <;> simp [isOpt] at ho
    cases v <;> simp_all [wtElem]
  · simp only [Bool.not_eq_true] at ho
    rw [optWrap_nonopt _ _ _ ho]
    apply core
    cases te <;> simp_all [wtElem, isOpt]

mutual
  theorem rt_val (env : Env) : ∀ (v : Val),
      (∀ t, wtCore env t v = true → decodeCore env t (encode v) = some v) ∧
      (∀ te, wtElem env te v = true → optWrap te (encode v) (fun t => decodeCore env t (encode v)) = some v)
    | .bool b => by
      have core : ∀ t, wtCore env t (.bool b) = true → decodeCore env t (encode (.bool b)) = some (.bool b) := by
        intro t h; have hr := wtCore_bool h; unfold decodeCore; simp [encode, hr]
      exact ⟨core, elem_of_core (by simp) (by simp) core⟩
    | .int i => by
      have core : ∀ t, wtCore env t (.int i) = true → decodeCore env t (encode (.int i)) = some (.int i) := by
        intro t h; have hr := wtCore_int h; unfold decodeCore; simp [encode, hr.1, hr.2]
      exact ⟨core, elem_of_core (by simp) (by simp) core⟩
    | .flt b => by
      have core : ∀ t, wtCore env t (.flt b) = true → decodeCore env t (encode (.flt b)) = some (.flt b) := by
        intro t h; have hr := wtCore_flt h; unfold decodeCore; simp [encode, hr.1, hr.2]
      exact ⟨core, elem_of_core (by simp) (by simp) core⟩
    | .str s => by
      have core : ∀ t, wtCore env t (.str s) = true → decodeCore env t (encode (.str s)) = some (.str s) := by
        intro t h; have hr := wtCore_str h; unfold decodeCore; simp [encode, hr]
      exact ⟨core, elem_of_core (by simp) (by simp) core⟩
    | .json j => by
      have core : ∀ t, wtCore env t (.json j) = true → decodeCore env t (encode (.json j)) = some (.json j) := by
        intro t h; have hr := wtCore_json h; unfold decodeCore; cases j <;> simp [encode, hr]
      exact ⟨core, elem_of_core (by simp) (by simp) core⟩
    | .enum s => by
      have core : ∀ t, wtCore env t (.enum s) = true → decodeCore env t (encode (.enum s)) = some (.enum s) := by
        intro t h; obtain ⟨vs, hr, hc⟩ := wtCore_enum h
        have hc' : s ∈ vs := by simpa using hc
        unfold decodeCore; simp [encode, hr, hc']
      exact ⟨core, elem_of_core (by simp) (by simp) core⟩
    | .set ks => by
      have core : ∀ t, wtCore env t (.set ks) = true → decodeCore env t (encode (.set ks)) = some (.set ks) := by
        intro t h; obtain ⟨hr, _⟩ := wtCore_set h; unfold decodeCore; simp [encode, hr, decodeSet_keys]
      exact ⟨core, elem_of_core (by simp) (by simp) core⟩
    | .none => by
      refine ⟨fun t h => (wtCore_none h).elim, ?_⟩
      intro te h
      cases te <;> first
        | (simp [encode, optWrap]; done)
        | exact (wtCore_none (by simpa [wtElem] using h)).elim
    | .some y => by
      refine ⟨fun t h => (wtCore_some h).elim, ?_⟩
      intro te h
      cases te with
      | opt t' =>
        simp only [wtElem, Bool.and_eq_true, Bool.not_eq_true'] at h
        have hne : encode (.some y) ≠ .null := by simpa [encode] using encode_ne_null h.1 h.2
        rw [optWrap_opt_ne _ _ _ hne]
        have := (rt_val env y).1 t' h.1
        simp [encode] at this ⊢
        exact this
      | _ => exact (wtCore_some (by simpa [wtElem] using h)).elim
    | .arr l => by
      have core : ∀ t, wtCore env t (.arr l) = true → decodeCore env t (encode (.arr l)) = some (.arr l) := by
        intro t h; obtain ⟨te, hr, hl⟩ := wtCore_arr h
        have ih := rt_list env l te hl
        unfold decodeCore; simp [encode, hr, ih]
      exact ⟨core, elem_of_core (by simp) (by simp) core⟩
    | .map kvs => by
      have core : ∀ t, wtCore env t (.map kvs) = true → decodeCore env t (encode (.map kvs)) = some (.map kvs) := by
        intro t h; obtain ⟨te, hr, hne, _, hm⟩ := wtCore_map h
        have ih := rt_map env kvs te hm
        unfold decodeCore
        simp only [encode, hr]
        simp [ih]
      exact ⟨core, elem_of_core (by simp) (by simp) core⟩
    | .record kvs => by
      have core : ∀ t, wtCore env t (.record kvs) = true → decodeCore env t (encode (.record kvs)) = some (.record kvs) := by
        intro t h; obtain ⟨fs, hr, hn, hf⟩ := wtCore_record h
        have ih := rt_members env kvs fs (lookupTy_of_wtFields hf hn)
        have ha := assemble_of_ok (asmOk_self hf hn)
        unfold decodeCore; simp [encode, hr, ih, ha]
      exact ⟨core, elem_of_core (by simp) (by simp) core⟩
  theorem rt_list (env : Env) : ∀ (l : List Val) (te : Ty), wtList env te l = true →
      decodeList env te (encodeList l) = some l
    | [], _, _ => by simp [encodeList, decodeList]
    | x :: xs, te, h => by
      rw [wtList_cons] at h
      simp only [Bool.and_eq_true] at h
      have e1 := (rt_val env x).2 te h.1
      have e2 := rt_list env xs te h.2
      simp [encodeList, decodeList, e1, e2]
  theorem rt_map (env : Env) : ∀ (kvs : List (String × Val)) (te : Ty), wtMap env te kvs = true →
      decodeMap env te (encodeKV kvs) = some kvs
    | [], _, _ => by simp [encodeKV, decodeMap]
    | (k, x) :: xs, te, h => by
      rw [wtMap_cons] at h
      simp only [Bool.and_eq_true] at h
      have e1 := (rt_val env x).2 te h.1
      have e2 := rt_map env xs te h.2
      simp [encodeKV, decodeMap, e1, e2]
  theorem rt_members (env : Env) : ∀ (kvs : List (String × Val)) (fs : List (String × Ty)),
      (∀ k v, (k, v) ∈ kvs → ∃ ft, lookupTy k fs = some ft ∧ wtElem env ft v = true) →
      decodeMembers env fs (encodeKV kvs) = some kvs
    | [], _, _ => by simp [encodeKV, decodeMembers]
    | (k, x) :: xs, fs, h => by
      obtain ⟨ft, hl, hw⟩ := h k x (List.mem_cons_self ..)
      have e1 := (rt_val env x).2 ft hw
      have e2 := rt_members env xs fs (fun k v hm => h k v (List.mem_cons_of_mem _ hm))
      simp [encodeKV, decodeMembers, hl, e1, e2]
end

end Gen
end VV

namespace VV
namespace Gen

/-! ### small facts used by Props/C08 -/

theorem encodeKV_keys (kvs : List (String × Val)) : (encodeKV kvs).map (·.1) = kvs.map (·.1) := by
  induction kvs with
  | nil => rfl
  | cons kv kvs ih => obtain ⟨k, v⟩ := kv; simp [encodeKV, ih]

theorem request_parameters (iface m : String) (args : Val) (mode : Mode) :
    (requestOf iface m args mode).get? "parameters" = some (encodeTop args) := by
  cases mode <;> simp [requestOf, Json.get?, Json.lookup]

theorem find_method_aux (iface : String) : ∀ (ms : List Method) (m : Method), m ∈ ms →
    (ms.map (·.name)).Nodup →
    ms.find? (fun x => methodName iface x.name == methodName iface m.name) = some m
  | [], _, hm, _ => by simp at hm
  | x :: xs, m, hm, hd => by
    simp only [List.map_cons, List.nodup_cons] at hd
    by_cases hx : x = m
    · subst hx; simp [List.find?]
    · have hmx : m ∈ xs := by
        rcases List.mem_cons.mp hm with h | h
        · exact absurd h.symm hx
        · exact h
      have hne : (methodName iface x.name == methodName iface m.name) = false := by
        have : x.name ≠ m.name := fun e => hd.1 (by rw [e]; exact List.mem_map.mpr ⟨m, hmx, rfl⟩)
        simp only [methodName, beq_eq_false_iff_ne, ne_eq]
        intro e
        exact this ((String.append_right_inj _).mp e)
      simp [List.find?, hne, find_method_aux iface xs m hmx hd.2]

theorem findMethod_of_mem (i : IDL) (m : Method) (hm : m ∈ i.methods)
    (hd : (i.methods.map (·.name)).Nodup) : findMethod i (methodName i.name m.name) = some m :=
  find_method_aux i.name i.methods m hm hd

theorem encodeTop_nonNull (kvs : List (String × Val)) :
    nonNull (some (encodeTop (.record kvs))) = some (encodeTop (.record kvs)) := rfl

def isServiceError (n : String) : Bool :=
  n == "org.varlink.service.InvalidParameter" || n == "org.varlink.service.MethodNotFound" ||
  n == "org.varlink.service.MethodNotImplemented" || n == "org.varlink.service.InterfaceNotFound"


end Gen
end VV
