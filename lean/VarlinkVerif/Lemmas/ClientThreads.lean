/-
Lemmas.ClientThreads — the inductive invariant behind `C07_exclusive`:
whatever the threads do and in whatever order, at most one call object holds
the reader, and every frame on its way back is read through the call object
whose request it answers.
-/
import VarlinkVerif.Lemmas.Client

namespace VV
namespace Client

/-- finals occur only in the last position -/
def OnlyLastFinal (q : List Msg) : Prop := ∀ a x b, q = a ++ x :: b → b ≠ [] → x.isFinal = false

/-- the peer obeys the protocol as far as exclusivity needs it: nothing comes
    back for a oneway request, and what comes back for any other request has
    its final reply (if any) at the end -/
def Obeys (p : Peer) : Prop :=
  ∀ log rq, (isOneway rq = true → (p log rq).1 = []) ∧ OnlyLastFinal (p log rq).1

theorem onlyLastFinal_nil : OnlyLastFinal [] := by
  intro a x b h; simp at h

theorem onlyLastFinal_tail (x : Msg) (q : List Msg) (h : OnlyLastFinal (x :: q)) : OnlyLastFinal q := by
  intro a y b e hb
  exact h (x :: a) y b (by simp [e]) hb

theorem onlyLastFinal_head_final (x : Msg) (q : List Msg) (h : OnlyLastFinal (x :: q)) (hx : x.isFinal = true) :
    q = [] := by
  cases q with
  | nil => rfl
  | cons y ys =>
    have := h [] x (y :: ys) rfl (by simp)
    rw [hx] at this; cases this

/-- the part of the global state the invariant talks about -/
structure Core where
  connR : Bool
  queue : List Msg
  objs : List MCall
  qown : List Nat
  deliv : List (Nat × Nat)

def GState.core (g : GState) : Core :=
  { connR := g.conn.reader, queue := g.wire.queue, objs := g.objs, qown := g.qown, deliv := g.deliv }

/-- call object `i` holds the reader -/
def holds (objs : List MCall) (i : Nat) : Prop := ∃ m, objs[i]? = some m ∧ m.reader = true

structure InvC (c : Core) : Prop where
  tags : c.qown.length = c.queue.length
  idle : c.connR = true → c.queue = [] ∧ ∀ i, ¬ holds c.objs i
  one : ∀ i j, holds c.objs i → holds c.objs j → i = j
  own : ∀ i, holds c.objs i → ∀ o ∈ c.qown, o = i
  shape : OnlyLastFinal c.queue
  deliv : ∀ d ∈ c.deliv, d.1 = d.2

theorem holds_set (objs : List MCall) (i : Nat) (m' : MCall) (hi : i < objs.length) (j : Nat) :
    holds (objs.set i m') j ↔ (if j = i then m'.reader = true else holds objs j) := by
  unfold holds
  by_cases hj : j = i
  · subst hj
    simp [hi]
  · have : i ≠ j := fun e => hj e.symm
    simp [hj, List.getElem?_set_ne this]

theorem lt_of_getElem? {α : Type} (l : List α) (i : Nat) (x : α) (h : l[i]? = some x) : i < l.length := by
  obtain ⟨h', _⟩ := List.getElem?_eq_some_iff.mp h
  exact h'

/-- an operation that changes neither who holds the reader nor the wire -/
theorem inv_keep (c : Core) (i : Nat) (m m' : MCall) (h : InvC c)
    (hm : c.objs[i]? = some m) (hr : m'.reader = m.reader) :
    InvC { c with objs := c.objs.set i m' } := by
  have hi := lt_of_getElem? _ _ _ hm
  have same : ∀ j, holds (c.objs.set i m') j ↔ holds c.objs j := by
    intro j
    rw [holds_set _ _ _ hi]
    by_cases hj : j = i
    · subst hj
      simp only [if_true]
      constructor
      · intro h'; exact ⟨m, hm, by rw [← hr]; exact h'⟩
      · rintro ⟨m0, hm0, hr0⟩
        rw [hm] at hm0; cases hm0
        rw [hr]; exact hr0
    · simp [hj]
  exact {
    tags := h.tags
    idle := fun hc => ⟨(h.idle hc).1, fun j hj => (h.idle hc).2 j ((same j).mp hj)⟩
    one := fun a b ha hb => h.one a b ((same a).mp ha) ((same b).mp hb)
    own := fun a ha => h.own a ((same a).mp ha)
    shape := h.shape
    deliv := h.deliv }

/-- a call object takes the stream out of the idle connection and the peer's answer is queued -/
theorem inv_acquire (c : Core) (i : Nat) (m m' : MCall) (fs : List Msg) (h : InvC c)
    (hm : c.objs[i]? = some m) (hc : c.connR = true) (hr : m'.reader = true) (hfs : OnlyLastFinal fs) :
    InvC { connR := false, queue := c.queue ++ fs, objs := c.objs.set i m',
           qown := c.qown ++ List.replicate fs.length i, deliv := c.deliv } := by
  have hi := lt_of_getElem? _ _ _ hm
  obtain ⟨hq, hnone⟩ := h.idle hc
  have hqown : c.qown = [] := by
    have := h.tags; rw [hq] at this; simpa using this
  have only : ∀ j, holds (c.objs.set i m') j ↔ j = i := by
    intro j
    rw [holds_set _ _ _ hi]
    by_cases hj : j = i
    · simp [hj, hr]
    · simp [hj]; exact hnone j
  exact {
    tags := by simp [h.tags]
    idle := fun hc' => by simp at hc'
    one := fun a b ha hb => by rw [(only a).mp ha, (only b).mp hb]
    own := fun a ha o ho => by
      rw [(only a).mp ha]
      simp [hqown] at ho
      exact ho.2
    shape := by simpa [hq] using hfs
    deliv := h.deliv }

/-- the holder reads a frame that does not end its call -/
theorem inv_consume_keep (c : Core) (i : Nat) (m m' : MCall) (x : Msg) (q : List Msg) (h : InvC c)
    (hm : c.objs[i]? = some m) (hmr : m.reader = true) (hr : m'.reader = true) (hq : c.queue = x :: q) :
    InvC { connR := c.connR, queue := q, objs := c.objs.set i m', qown := c.qown.tail,
           deliv := c.deliv ++ [(i, c.qown.headD i)] } := by
  have hi := lt_of_getElem? _ _ _ hm
  have hhold : holds c.objs i := ⟨m, hm, hmr⟩
  have hcr : c.connR = false := by
    cases hc : c.connR with
    | false => rfl
    | true => exact absurd hhold ((h.idle hc).2 i)
  have same : ∀ j, holds (c.objs.set i m') j ↔ holds c.objs j := by
    intro j
    rw [holds_set _ _ _ hi]
    by_cases hj : j = i
    · subst hj; simp [hr, hhold]
    · simp [hj]
  have htl : ∀ o ∈ c.qown.tail, o ∈ c.qown := fun o ho => List.mem_of_mem_tail ho
  exact {
    tags := by have := h.tags; rw [hq] at this; simp [List.length_tail, this]
    idle := fun hc' => by rw [hcr] at hc'; cases hc'
    one := fun a b ha hb => h.one a b ((same a).mp ha) ((same b).mp hb)
    own := fun a ha o ho => h.own a ((same a).mp ha) o (htl o ho)
    shape := by have := h.shape; rw [hq] at this; exact onlyLastFinal_tail x q this
    deliv := by
      intro d hd
      simp at hd
      rcases hd with hd | hd
      · exact h.deliv d hd
      · subst hd
        cases hqo : c.qown with
        | nil => simp
        | cons o os =>
          simp
          exact (h.own i hhold o (by simp [hqo])).symm }

/-- the holder's read fails: the reader is gone for good -/
theorem inv_consume_lose (c : Core) (i : Nat) (m m' : MCall) (x : Msg) (q : List Msg) (h : InvC c)
    (hm : c.objs[i]? = some m) (hmr : m.reader = true) (hr : m'.reader = false) (hq : c.queue = x :: q) :
    InvC { connR := c.connR, queue := q, objs := c.objs.set i m', qown := c.qown.tail,
           deliv := c.deliv ++ [(i, c.qown.headD i)] } := by
  have hi := lt_of_getElem? _ _ _ hm
  have hhold : holds c.objs i := ⟨m, hm, hmr⟩
  have hcr : c.connR = false := by
    cases hc : c.connR with
    | false => rfl
    | true => exact absurd hhold ((h.idle hc).2 i)
  have sub : ∀ j, holds (c.objs.set i m') j → holds c.objs j ∧ j ≠ i := by
    intro j
    rw [holds_set _ _ _ hi]
    by_cases hj : j = i
    · subst hj; simp [hr]
    · simp [hj]
  have htl : ∀ o ∈ c.qown.tail, o ∈ c.qown := fun o ho => List.mem_of_mem_tail ho
  exact {
    tags := by have := h.tags; rw [hq] at this; simp [List.length_tail, this]
    idle := fun hc' => by rw [hcr] at hc'; cases hc'
    one := fun a b ha hb => h.one a b (sub a ha).1 (sub b hb).1
    own := fun a ha o ho => h.own a (sub a ha).1 o (htl o ho)
    shape := by have := h.shape; rw [hq] at this; exact onlyLastFinal_tail x q this
    deliv := by
      intro d hd
      simp at hd
      rcases hd with hd | hd
      · exact h.deliv d hd
      · subst hd
        cases hqo : c.qown with
        | nil => simp
        | cons o os =>
          simp
          exact (h.own i hhold o (by simp [hqo])).symm }

/-- the holder reads its final reply: the stream goes back to the connection -/
theorem inv_consume_final (c : Core) (i : Nat) (m m' : MCall) (x : Msg) (q : List Msg) (h : InvC c)
    (hm : c.objs[i]? = some m) (hmr : m.reader = true) (hr : m'.reader = false) (hq : c.queue = x :: q)
    (hx : x.isFinal = true) :
    InvC { connR := true, queue := q, objs := c.objs.set i m', qown := c.qown.tail,
           deliv := c.deliv ++ [(i, c.qown.headD i)] } := by
  have base := inv_consume_lose c i m m' x q h hm hmr hr hq
  have hi := lt_of_getElem? _ _ _ hm
  have hhold : holds c.objs i := ⟨m, hm, hmr⟩
  have hq0 : q = [] := by
    have := h.shape; rw [hq] at this
    exact onlyLastFinal_head_final x q this hx
  have none' : ∀ j, ¬ holds (c.objs.set i m') j := by
    intro j hj
    rw [holds_set _ _ _ hi] at hj
    by_cases hji : j = i
    · subst hji; simp [hr] at hj
    · simp [hji] at hj
      exact hji (h.one j i hj hhold)
  exact {
    tags := base.tags
    idle := fun _ => ⟨hq0, none'⟩
    one := base.one
    own := base.own
    shape := base.shape
    deliv := base.deliv }

/-! ### the transitions of `stepThread` in terms of `Core` -/

@[simp] theorem core_setProg (g : GState) (t : Nat) (pr : List Op) : (g.setProg t pr).core = g.core := rfl
@[simp] theorem core_done (g : GState) (t : Nat) (r : Res) : (g.done t r).core = g.core := rfl

theorem core_put_tagNew (g : GState) (i : Nat) (s : CS) (before : Nat) :
    ((g.put i s).tagNew before i).core =
      { connR := s.conn.reader, queue := s.wire.queue, objs := g.objs.set i s.call,
        qown := g.qown ++ List.replicate (s.wire.queue.length - before) i, deliv := g.deliv } := rfl

theorem core_put_tagRecv_same (g : GState) (i : Nat) (s : CS) (before : Nat)
    (h : ¬ s.wire.queue.length < before) :
    ((g.put i s).tagRecv before i).core =
      { connR := s.conn.reader, queue := s.wire.queue, objs := g.objs.set i s.call,
        qown := g.qown, deliv := g.deliv } := by
  simp [GState.tagRecv, GState.put, h, GState.core]

theorem core_put_tagRecv_shorter (g : GState) (i : Nat) (s : CS) (before : Nat) (o : Nat) (os : List Nat)
    (hq : g.qown = o :: os) (h : s.wire.queue.length < before) :
    ((g.put i s).tagRecv before i).core =
      { connR := s.conn.reader, queue := s.wire.queue, objs := g.objs.set i s.call,
        qown := os, deliv := g.deliv ++ [(i, o)] } := by
  simp [GState.tagRecv, GState.put, h, GState.core, hq]

theorem core_doSend (p : Peer) (g : GState) (t i : Nat) (m : MCall) (ow mo up : Bool)
    (okProg : List Op) (okDone : Bool) (rest : List Op) :
    (g.doSend p t i m ow mo up okProg okDone rest).core =
      ((g.put i (send p ow mo up (g.cs m)).2).tagNew g.wire.queue.length i).core := by
  unfold GState.doSend
  rcases send p ow mo up (g.cs m) with ⟨r, s'⟩
  cases r with
  | none => cases okDone <;> simp
  | some e => simp

theorem core_doRecv (dec : Decoder) (g g' : GState) (t i : Nat) (m : MCall) (rest : List Op)
    (h : g.doRecv dec t i m rest = some g') :
    ∃ r s', recv dec (g.cs m) = some (r, s') ∧ g'.core = ((g.put i s').tagRecv g.wire.queue.length i).core := by
  unfold GState.doRecv at h
  cases hr : recv dec (g.cs m) with
  | none => rw [hr] at h; simp at h
  | some rs =>
    obtain ⟨r, s'⟩ := rs
    rw [hr] at h
    simp at h
    subst h
    exact ⟨r, s', rfl, by simp⟩

def Inv (g : GState) : Prop := InvC g.core

theorem inv_doSend (p : Peer) (hp : Obeys p) (g : GState) (t i : Nat) (m0 m : MCall) (ow mo up : Bool)
    (okProg : List Op) (okDone : Bool) (rest : List Op)
    (hm : g.objs[i]? = some m0) (hmr : m.reader = m0.reader)
    (h : Inv g) : Inv (g.doSend p t i m ow mo up okProg okDone rest) := by
  unfold Inv at *
  rw [core_doSend, core_put_tagNew]
  have keep : ∀ (cn : Conn) (w : Wire), cn.reader = g.conn.reader → w.queue = g.wire.queue →
      InvC { connR := cn.reader, queue := w.queue, objs := g.objs.set i m.spent,
             qown := g.qown ++ List.replicate (w.queue.length - g.wire.queue.length) i, deliv := g.deliv } := by
    intro cn w hc hq
    have := inv_keep g.core i m0 m.spent h hm (by simp [MCall.spent, hmr])
    simpa [GState.core, hc, hq] using this
  by_cases hf : m.method = none ∨ m.request = none
  · rw [send_spent p ow mo up (g.cs m) hf]
    exact keep g.conn g.wire rfl rfl
  · have hmeth : ∃ meth, m.method = some meth := by
      cases hx : m.method with
      | none => exact absurd (Or.inl hx) hf
      | some x => exact ⟨x, rfl⟩
    have hreq : ∃ params, m.request = some params := by
      cases hx : m.request with
      | none => exact absurd (Or.inr hx) hf
      | some x => exact ⟨x, rfl⟩
    obtain ⟨meth, hmeth⟩ := hmeth
    obtain ⟨params, hreq⟩ := hreq
    cases hu : m.unser with
    | true =>
      rw [send_unser p ow mo up (g.cs m) meth params hmeth hreq hu]
      exact keep g.conn g.wire rfl rfl
    | false =>
    cases hidle : g.conn.idle with
    | false =>
      rw [(send_not_idle p ow mo up (g.cs m) hidle).1]
      exact keep g.conn g.wire rfl rfl
    | true =>
      have hcr : g.conn.reader = true := by
        simp [Conn.idle] at hidle; exact hidle.1
      have acquire : ∀ (w : Wire) (fs : List Msg) (m' : MCall), w.queue = g.wire.queue ++ fs → OnlyLastFinal fs →
          m'.reader = true →
          InvC { connR := false, queue := w.queue, objs := g.objs.set i m',
                 qown := g.qown ++ List.replicate (w.queue.length - g.wire.queue.length) i, deliv := g.deliv } := by
        intro w fs m' hq hfs hr'
        have := inv_acquire g.core i m0 m' fs h hm hcr hr' hfs
        simpa [GState.core, hq] using this
      obtain ⟨hone, hshape⟩ := hp g.wire.log (mkRequest meth params ow mo up)
      cases hcw : g.wire.canWrite with
      | true =>
        rw [send_ok p ow mo up (g.cs m) meth params hmeth hreq hu hidle hcw]
        cases ow with
        | true =>
          have hfs : (p g.wire.log (mkRequest meth params true mo up)).1 = [] := by
            apply hone
            simp [mkRequest, isOneway]
          simp only [if_true]
          exact keep { reader := true, writer := true } _ (by simp [hcr])
            (by simp [Wire.accept, GState.cs, hfs])
        | false =>
          simp only [Bool.false_eq_true, if_false]
          cases hcl : g.wire.closed with
          | true =>
            exact acquire _ [] _ (by simp [Wire.accept, GState.cs, hcl]) onlyLastFinal_nil rfl
          | false =>
            exact acquire _ (p g.wire.log (mkRequest meth params false mo up)).1 _
              (by simp [Wire.accept, GState.cs, hcl]) hshape rfl
      | false =>
        rw [send_wfail p ow mo up (g.cs m) meth params hmeth hreq hu hidle hcw]
        cases ow with
        | true =>
          simp only [if_true]
          exact keep { reader := true, writer := false } g.wire (by simp [hcr]) rfl
        | false =>
          simp only [Bool.false_eq_true, if_false]
          exact acquire g.wire [] _ (by simp) onlyLastFinal_nil rfl

theorem inv_doRecv (dec : Decoder) (g g' : GState) (t i : Nat) (m : MCall) (rest : List Op)
    (hm : g.objs[i]? = some m) (h : Inv g) (hstep : g.doRecv dec t i m rest = some g') : Inv g' := by
  unfold Inv at *
  obtain ⟨r, s', hrecv, hcore⟩ := core_doRecv dec g g' t i m rest hstep
  rw [hcore]
  have hi := lt_of_getElem? _ _ _ hm
  have hset : g.objs.set i m = g.objs := by
    apply List.ext_getElem?
    intro j
    by_cases hj : i = j
    · subst hj; rw [List.getElem?_set_self hi, hm]
    · simp [List.getElem?_set_ne hj]
  obtain ⟨before, hbefore⟩ : ∃ b, b = g.wire.queue.length := ⟨_, rfl⟩
  rw [← hbefore]
  -- nothing consumed, nothing changed
  have unchanged : s' = g.cs m → InvC ((g.put i s').tagRecv before i).core := by
    intro e
    subst e
    rw [core_put_tagRecv_same _ _ _ _ (by simp [GState.cs, hbefore])]
    simp only [GState.cs, hset]
    exact h
  by_cases hrw : (m.reader && m.writer) = false
  · rw [recv_no_stream dec (g.cs m) hrw] at hrecv
    simp at hrecv
    exact unchanged hrecv.2.symm
  · have hr : m.reader = true := by
      cases hx : m.reader <;> simp_all
    have hw : m.writer = true := by
      cases hx : m.writer <;> simp_all
    cases hq : g.wire.queue with
    | nil =>
      simp only [recv, GState.cs, hr, hw, hq, Bool.not_true, Bool.or_self, Bool.false_eq_true, if_false] at hrecv
      cases hcl : g.wire.closed with
      | true =>
        simp [hcl] at hrecv
        exact unchanged (by rw [← hrecv.2]; rfl)
      | false => simp [hcl] at hrecv
    | cons x q =>
      -- a frame is consumed: the head of the tags goes with it
      obtain ⟨o, os, hqo⟩ : ∃ o os, g.qown = o :: os := by
        cases hqo : g.qown with
        | nil =>
          have := h.tags
          simp [GState.core, hqo, hq] at this
        | cons o os => exact ⟨o, os, rfl⟩
      have consumed : s'.wire.queue = q →
          ((g.put i s').tagRecv before i).core =
            { connR := s'.conn.reader, queue := q, objs := g.core.objs.set i s'.call, qown := g.core.qown.tail,
              deliv := g.core.deliv ++ [(i, g.core.qown.headD i)] } := by
        intro e
        rw [core_put_tagRecv_shorter _ _ _ _ o os hqo (by rw [e, hbefore, hq]; simp)]
        simp [GState.core, hqo, e]
      have hcq : g.core.queue = x :: q := by simp [GState.core, hq]
      cases x with
      | ioerr c =>
        simp only [recv, GState.cs, hr, hw, hq, Bool.not_true, Bool.or_self, Bool.false_eq_true, if_false] at hrecv
        simp at hrecv
        obtain ⟨_, rfl⟩ := hrecv
        rw [consumed rfl]
        exact inv_consume_lose g.core i m _ (.ioerr c) q h hm hr rfl hcq
      | garbage =>
        simp only [recv, GState.cs, hr, hw, hq, Bool.not_true, Bool.or_self, Bool.false_eq_true, if_false] at hrecv
        simp at hrecv
        obtain ⟨_, rfl⟩ := hrecv
        rw [consumed rfl]
        exact inv_consume_keep g.core i m m .garbage q h hm hr hr hcq
      | reply rp =>
        simp only [recv, GState.cs, hr, hw, hq, Bool.not_true, Bool.or_self, Bool.false_eq_true, if_false] at hrecv
        by_cases hc : rp.continues = some true
        · simp [hc] at hrecv
          obtain ⟨_, rfl⟩ := hrecv
          rw [consumed rfl]
          exact inv_consume_keep g.core i m _ (.reply rp) q h hm hr rfl hcq
        · simp [hc] at hrecv
          obtain ⟨_, rfl⟩ := hrecv
          rw [consumed rfl]
          exact inv_consume_final g.core i m _ (.reply rp) q h hm hr rfl hcq (by simp [Msg.isFinal, hc])

theorem inv_step (p : Peer) (dec : Decoder) (hp : Obeys p) (g g' : GState) (t : Nat) (h : Inv g)
    (hstep : stepThread p dec g t = some g') : Inv g' := by
  unfold stepThread at hstep
  split at hstep
  · cases hstep
  · cases hstep
  · rename_i op rest _
    split at hstep
    · simp at hstep; subst hstep; exact h
    · rename_i m hm
      cases op with
      | call i =>
        simp at hstep; subst hstep
        exact inv_doSend p hp g t i m m false false false _ _ _ hm rfl h
      | upgrade i =>
        simp at hstep; subst hstep
        exact inv_doSend p hp g t i m m false false true _ _ _ hm rfl h
      | oneway i =>
        simp at hstep; subst hstep
        exact inv_doSend p hp g t i m m true false false _ _ _ hm rfl h
      | more i =>
        simp at hstep; subst hstep
        exact inv_doSend p hp g t i m { m with continues := true } false true false _ _ _ hm rfl h
      | next i =>
        simp only at hstep
        split at hstep
        · simp at hstep; subst hstep; exact h
        · exact inv_doRecv dec g g' t i m rest hm h hstep
      | recv i =>
        exact inv_doRecv dec g g' t i m rest hm h hstep

theorem inv_runSched (p : Peer) (dec : Decoder) (hp : Obeys p) : ∀ (sched : List Nat) (g : GState), Inv g → Inv (runSched p dec g sched)
  | [], g, h => h
  | t :: ts, g, h => by
    unfold runSched
    split
    · rename_i g' e
      exact inv_runSched p dec hp ts g' (inv_step p dec hp g g' t h e)
    · exact inv_runSched p dec hp ts g h

/-- the starting point: both slots in the connection, nothing under way, no call object holds anything -/
theorem inv_init (conn : Conn) (w : Wire) (objs : List MCall) (progs : List (List Op))
    (hq : w.queue = []) (hobjs : ∀ m ∈ objs, m.reader = false) :
    Inv { conn := conn, wire := w, objs := objs, progs := progs } := by
  have nohold : ∀ i, ¬ holds objs i := by
    rintro i ⟨m, hm, hr⟩
    have := hobjs m (List.mem_of_getElem? hm)
    rw [this] at hr; cases hr
  exact {
    tags := by simp [GState.core, hq]
    idle := fun _ => ⟨by simp [GState.core, hq], nohold⟩
    one := fun i _ hi _ => absurd hi (nohold i)
    own := fun i hi => absurd hi (nohold i)
    shape := by simp [GState.core, hq]; exact onlyLastFinal_nil
    deliv := by simp [GState.core] }

/-- a peer that obeys: one final reply per request, none for oneway (non-vacuity of `Obeys`) -/
def politePeer : Peer := fun _ rq => if isOneway rq then ([], false) else ([.reply {}], false)

theorem politePeer_obeys : Obeys politePeer := by
  intro log rq
  unfold politePeer
  constructor
  · intro h; simp [h]
  · split
    · exact onlyLastFinal_nil
    · intro a x b e hb
      cases a with
      | nil => simp at e; exact absurd e.2 hb
      | cons y ys => simp at e

/-- a send on a connection whose stream is out: refused, nothing written -/
theorem doSend_busy (p : Peer) (g : GState) (t i : Nat) (m : MCall) (ow mo up : Bool)
    (okProg : List Op) (okDone : Bool) (rest : List Op)
    (hidle : g.conn.idle = false) (hf : m.fresh) :
    let g' := g.doSend p t i m ow mo up okProg okDone rest
    g'.wire = g.wire ∧ g'.conn = g.conn ∧ g'.trace = g.trace ++ [(t, .err .connectionBusy)] ∧
    g'.progs = g.progs.set t rest ∧ g'.objs = g.objs.set i m.spent := by
  obtain ⟨meth, params, hm, hq, hu⟩ := hf
  have e : send p ow mo up (g.cs m) = (some .connectionBusy, { g.cs m with call := m.spent }) := by
    unfold send
    have h' : (!g.conn.reader || !g.conn.writer) = true := by
      simp [Conn.idle] at hidle
      cases hr : g.conn.reader <;> cases hw : g.conn.writer <;> simp_all
    simp [GState.cs, hm, hq, hu, h', MCall.spent]
  simp only [GState.doSend, e]
  simp [GState.put, GState.tagNew, GState.setProg, GState.done, GState.cs]

/-- `call()` in the interleaving model is two steps of its thread — `send`, then
    `recv` — and when nothing else happens in between they amount to exactly
    `Client.call`: same result, same connection, same wire, same call object. -/
theorem call_two_steps (p : Peer) (dec : Decoder) (g : GState) (t i : Nat) (m : MCall) (rest : List Op)
    (hprog : g.progs[t]? = some (.call i :: rest)) (hm : g.objs[i]? = some m) :
    ∃ g1, stepThread p dec g t = some g1 ∧
      ((∃ e s1, send p false false false (g.cs m) = (some e, s1) ∧
          call p dec (g.cs m) = some (.err e, s1) ∧ g1.trace = g.trace ++ [(t, .err e)] ∧
          g1.conn = s1.conn ∧ g1.wire = s1.wire ∧ g1.objs = g.objs.set i s1.call ∧ g1.progs = g.progs.set t rest) ∨
       (∃ s1, send p false false false (g.cs m) = (none, s1) ∧ g1.trace = g.trace ∧
          (stepThread p dec g1 t).map (fun g2 => (g2.trace, g2.conn, g2.wire, g2.objs, g2.progs)) =
            (call p dec (g.cs m)).map (fun rs => (g.trace ++ [(t, rs.1)], rs.2.conn, rs.2.wire,
                                                   g.objs.set i rs.2.call, g.progs.set t rest)))) := by
  have hi := lt_of_getElem? _ _ _ hm
  have ht := lt_of_getElem? _ _ _ hprog
  have hobj : g.objs[(Op.call i).obj]? = some m := hm
  refine ⟨g.doSend p t i m false false false (.recv i :: rest) false rest, ?_, ?_⟩
  · unfold stepThread
    rw [hprog]
    simp only [hobj]
  · unfold GState.doSend
    rcases hs : send p false false false (g.cs m) with ⟨r, s1⟩
    cases r with
    | some e =>
      left
      refine ⟨e, s1, rfl, ?_, ?_⟩
      · simp [call, hs]
      · simp [GState.put, GState.tagNew, GState.setProg, GState.done]
    | none =>
      right
      refine ⟨s1, rfl, ?_, ?_⟩
      · simp [GState.put, GState.tagNew, GState.setProg]
      · -- the second step
        simp only [Bool.false_eq_true, if_false]
        have hp1 : (((g.put i s1).tagNew g.wire.queue.length i).setProg t (.recv i :: rest)).progs[t]? =
            some (.recv i :: rest) := by
          simp [GState.put, GState.tagNew, GState.setProg, ht]
        have ho1 : (((g.put i s1).tagNew g.wire.queue.length i).setProg t (.recv i :: rest)).objs[(Op.recv i).obj]? =
            some s1.call := by
          simp [GState.put, GState.tagNew, GState.setProg, Op.obj, hi]
        have hcs : (((g.put i s1).tagNew g.wire.queue.length i).setProg t (.recv i :: rest)).cs s1.call = s1 := by
          simp [GState.put, GState.tagNew, GState.setProg, GState.cs]
        unfold stepThread
        rw [hp1]
        simp only [ho1]
        unfold GState.doRecv
        rw [hcs]
        simp only [call, hs]
        cases hr : recv dec s1 with
        | none => rfl
        | some rs =>
          obtain ⟨r, s2⟩ := rs
          simp only [Option.map]
          congr 1
          simp [GState.put, GState.setProg, GState.done, GState.tagRecv, GState.tagNew]
          refine ⟨?_, ?_, ?_, ?_, ?_⟩ <;> (split <;> (try split) <;> simp)

/-- forget the ghost bookkeeping -/
def GState.erase (g : GState) : GState := { g with qown := [], deliv := [] }

theorem erase_tagRecv (g : GState) (b i : Nat) : (g.tagRecv b i).erase = g.erase := by
  unfold GState.tagRecv
  split
  · cases h : g.qown <;> simp [GState.erase]
  · rfl

end Client
end VV
