/-
Lemmas.WireExtracted — the hand-written reply gate of Model/Wire.lean IS the gate that
tools/extract.d/wire.py reads out of /repo/varlink/src/lib.rs on every run (DESIGN §4.2).

`Model/ExtractedWire.lean` is regenerated from the source text before every build.  The theorems
below are re-checked against it: when `reply_struct`, `reply_parameters`, `is_oneway`,
`wants_more`, the name of the built-in interface or one of the library's error names change in
the source, either the extraction fails (pattern no longer recognised) or one of these
equalities stops type-checking, and the properties whose files import this module are reported
as no longer shown.
-/
import VarlinkVerif.Model.Wire
import VarlinkVerif.Model.ExtractedWire

namespace VV
open ExtractedWire

/-- `reply_struct` as the source has it now: the extracted chain of early returns and the
    extracted `continues` mark, over the extracted flag tests -/
def replyStructE (req : Request) (st : CallSt) (r : Reply) : Option CallSt :=
  let w := wantsMoreE req.more req.oneway req.upgrade
  let o := isOnewayE req.more req.oneway req.upgrade
  match gate st.continues w o with
  | .refuse => none
  | .silent => some st
  | .write =>
    some { st with out := st.out ++ [if markContinues st.continues w o then { r with continues := some true } else r] }

/-- `reply_parameters` as the source has it now -/
def replyParametersE (req : Request) (st : CallSt) (p : Json) : CallSt :=
  let w := wantsMoreE req.more req.oneway req.upgrade
  let o := isOnewayE req.more req.oneway req.upgrade
  if paramsSilent st.continues w o then st else { st with out := st.out ++ [Reply.params (some p)] }

theorem wantsMore_is_source (req : Request) :
    wantsMore req = wantsMoreE req.more req.oneway req.upgrade := rfl

theorem isOneway_is_source (req : Request) :
    isOneway req = isOnewayE req.more req.oneway req.upgrade := rfl

theorem replyStruct_is_source (req : Request) (st : CallSt) (r : Reply) :
    replyStruct req st r = replyStructE req st r := by
  unfold replyStruct replyStructE wantsMore isOneway gate markContinues wantsMoreE isOnewayE
  cases st.continues <;> cases (req.more == some true) <;> cases (req.oneway == some true) <;> rfl

theorem replyParameters_is_source (req : Request) (st : CallSt) (p : Json) :
    replyParameters req st p = replyParametersE req st p := by
  unfold replyParameters replyParametersE isOneway paramsSilent isOnewayE
  cases (req.oneway == some true) <;> simp

theorem names_are_source :
    svcName = ExtractedWire.svcName ∧
    sInterfaceNotFound = ExtractedWire.sInterfaceNotFound ∧
    sMethodNotFound = ExtractedWire.sMethodNotFound ∧
    sMethodNotImplemented = ExtractedWire.sMethodNotImplemented ∧
    sInvalidParameter = ExtractedWire.sInvalidParameter := by
  refine ⟨rfl, rfl, rfl, rfl, rfl⟩

end VV
