/-
Lemmas.IdlWF — every definition the parser returns is well formed (`WFIdl`): names satisfy
the word predicates of the specification, documentation strings are trimmed trivia, enums
are non-empty, no option wraps an option, member names are unique.
-/
import VarlinkVerif.Lemmas.IdlRoundtrip

namespace VV.Idl
open Gram Fmt

/-! ### names (no fuel needed) -/

theorem fieldNameF_isFieldName {n : Nat} {s w r : Input} (h : fieldNameF n s = some (w, r)) :
    Spec.isFieldName w = true := by
  cases s with
  | nil => simp [fieldNameF] at h
  | cons c s =>
    simp only [fieldNameF] at h
    split at h
    · rename_i hc
      simp only [Option.some.injEq, Prod.mk.injEq] at h
      obtain ⟨rfl, _⟩ := h
      simp only [Spec.isFieldName, Bool.and_eq_true]
      exact ⟨by rw [← isAlpha_eq]; exact hc, manyF_fieldTail n s⟩
    · simp at h

theorem interfaceNameF_isInterfaceName {n : Nat} {s w r : Input} (h : interfaceNameF n s = some (w, r)) :
    Spec.isInterfaceName w = true := by
  cases s with
  | nil => simp [interfaceNameF] at h
  | cons c s =>
    simp only [interfaceNameF] at h
    split at h
    · rename_i hc
      split at h
      · rename_i t1 r1 h1
        simp only [Option.some.injEq, Prod.mk.injEq] at h
        obtain ⟨rfl, _⟩ := h
        obtain ⟨d, u, rfl, hd, hu⟩ := dotLabelF_shape h1
        have hL0 := manyF_labelStep_sound n s
        have hT := manyF_dotLabelF_sound n n r1
        have hdl : DotLabels ('.' :: d :: u ++ (manyF (dotLabelF n) n r1).1) := DotLabels.cons hd hu hT
        have halnum : isAlnum c = true := by simp [isAlnum, isAlpha] at hc ⊢; rcases hc with h | h <;> simp [h]
        have hdot : '.' ∉ c :: (manyF labelStep n s).1 := by
          intro hm
          simp only [List.mem_cons] at hm
          rcases hm with hm | hm
          · subst hm; exact absurd halnum (by decide)
          · exact dot_not_mem_label hL0 hm
        obtain ⟨es, h1', h2', h3'⟩ := splitOn_dotLabels hdl _ hdot
        have hes : es ≠ [] := h3' (by simp)
        simp only [Spec.isInterfaceName, Bool.and_eq_true, decide_eq_true_eq, List.all_eq_true]
        have e : c :: (manyF labelStep n s).1 ++ '.' :: d :: u ++ (manyF (dotLabelF n) n r1).1 =
            (c :: (manyF labelStep n s).1) ++ ('.' :: d :: u ++ (manyF (dotLabelF n) n r1).1) := by simp
        rw [e, h1']
        refine ⟨⟨?_, ?_⟩, ?_⟩
        · cases es with
          | nil => exact absurd rfl hes
          | cons a b => simp
        · intro x hx
          simp only [List.mem_cons] at hx
          rcases hx with rfl | hx
          · exact (okElement_iff _).mpr ⟨c, _, rfl, halnum, hL0⟩
          · exact h2' x hx
        · simp only [List.cons_append]
          rw [← isAlpha_eq]; exact hc
      · simp at h
    · simp at h

/-! ### trivia -/

theorem trivia_of_eolR {s e r : Input} (h : eolR s = some (e, r)) : Trivia e := by
  cases s with
  | nil => simp [eolR] at h
  | cons c s =>
    simp only [eolR] at h
    split at h
    · rename_i hc
      simp only [Option.some.injEq, Prod.mk.injEq] at h
      rw [← h.1, hc]; exact Trivia.newline (by decide) Trivia.nil
    · split at h
      · rename_i hc
        split at h
        · split at h
          · rename_i hd
            simp only [Option.some.injEq, Prod.mk.injEq] at h
            rw [← h.1, hc, hd]
            exact Trivia.newline (by decide) (Trivia.newline (by decide) Trivia.nil)
          · simp only [Option.some.injEq, Prod.mk.injEq] at h
            rw [← h.1, hc]; exact Trivia.newline (by decide) Trivia.nil
        · simp only [Option.some.injEq, Prod.mk.injEq] at h
          rw [← h.1, hc]; exact Trivia.newline (by decide) Trivia.nil
      · split at h
        · rename_i hc
          simp only [Option.some.injEq, Prod.mk.injEq] at h
          rw [← h.1, hc]; exact Trivia.newline (by decide) Trivia.nil
        · split at h
          · rename_i hc
            simp only [Option.some.injEq, Prod.mk.injEq] at h
            rw [← h.1, hc]; exact Trivia.newline (by decide) Trivia.nil
          · simp at h

theorem eolR_head_newline {s e r : Input} (h : eolR s = some (e, r)) :
    ∃ c e', e = c :: e' ∧ Spec.isNewline c = true ∧ Trivia e' := by
  have ht := trivia_of_eolR h
  obtain ⟨hs, hne⟩ := good_eolR _ _ _ h
  cases e with
  | nil => exact absurd rfl hne
  | cons c e' =>
    cases s with
    | nil => simp [eolR] at h
    | cons c' s' =>
      have hc : c = c' := by simp at hs; exact hs.1.symm
      have : isEolChar c' = true := by
        simp only [eolR] at h
        simp only [isEolChar, Bool.or_eq_true, beq_iff_eq]
        by_cases h1 : c' = '\n'
        · simp [h1]
        · by_cases h2 : c' = '\r'
          · simp [h2]
          · by_cases h3 : c' = '\u2028'
            · simp [h3]
            · by_cases h4 : c' = '\u2029'
              · simp [h4]
              · simp [h1, h2, h3, h4] at h
      refine ⟨c, e', rfl, by rw [hc, ← isEolChar_eq]; exact this, ?_⟩
      exact trivia_tail_of_newline (by rw [hc, ← isEolChar_eq]; exact this) ht

theorem trivia_of_wce {s t r : Input} (h : wce s = some (t, r)) : Trivia t := by
  simp only [wce] at h
  split at h
  · rename_i x hx
    simp only [Option.some.injEq] at h; subst h
    cases s with
    | nil => simp [whitespace] at hx
    | cons c s =>
      simp only [whitespace] at hx
      split at hx
      · rename_i hc
        simp only [Option.some.injEq, Prod.mk.injEq] at hx
        rw [← hx.1]
        exact Trivia.space (by rw [← isWs_eq]; exact hc) Trivia.nil
      · simp at hx
  · split at h
    · rename_i x hx
      simp only [Option.some.injEq] at h; subst h
      cases s with
      | nil => simp [comment] at hx
      | cons c s =>
        simp only [comment] at hx
        split at hx
        · rename_i hc
          split at hx
          · rename_i e r' he
            simp only [Option.some.injEq, Prod.mk.injEq] at hx
            rw [← hx.1, hc]
            obtain ⟨c', e', rfl, hc', he'⟩ := eolR_head_newline he
            have hb : ∀ x ∈ s.takeWhile (fun x => !isEolChar x), Spec.isNewline x = false := by
              intro x hx'
              have := mem_takeWhile_imp _ _ x hx'
              simpa [isEolChar_eq] using this
            have := Trivia.comment hb hc' he'
            simpa using this
          · simp at hx
        · simp at hx
    · exact trivia_of_eolR h

theorem trivia_of_manyF_wce : ∀ (n : Nat) (s : Input), Trivia (manyF wce n s).1 := by
  intro n
  induction n with
  | zero => intro s; exact Trivia.nil
  | succ n ih =>
    intro s
    simp only [manyF]
    split
    · rename_i t r h
      exact trivia_append (trivia_of_wce h) (ih r)
    · exact Trivia.nil

theorem trivia_of_wceStar (n : Nat) (s : Input) : Trivia (wceStarF n s).1 := trivia_of_manyF_wce n s

theorem isDoc_of_wceStar (n : Nat) (s : Input) : IsDoc (trimDoc (wceStarF n s).1) :=
  ⟨_, trivia_of_wceStar n s, trimDoc_eq _⟩


/-! ### types -/

theorem sepTailF_all {α} {P : α → Prop} {p : Input → Option (α × Input)} {sep : Input → Option Input}
    (hng : NoGrow p) (hsep : SepShrinks sep) : ∀ (n : Nat) (s : Input),
    (∀ x a r, x.length ≤ s.length → p x = some (a, r) → P a) → ∀ a ∈ (sepTailF p sep n s).1, P a := by
  intro n
  induction n with
  | zero => intro s _ a ha; simp [sepTailF] at ha
  | succ n ih =>
    intro s hp a ha
    simp only [sepTailF] at ha
    split at ha
    · simp at ha
    · rename_i s1 h1
      split at ha
      · simp at ha
      · rename_i a0 s2 h2
        have l1 := hsep _ _ h1
        have l2 := hng _ _ _ h2
        simp only [List.mem_cons] at ha
        rcases ha with rfl | ha
        · exact hp s1 _ s2 (by omega) h2
        · exact ih s2 (fun x a r hx => hp x a r (by omega)) a ha

theorem sepByF_all {α} {P : α → Prop} {p : Input → Option (α × Input)} {sep : Input → Option Input}
    (hng : NoGrow p) (hsep : SepShrinks sep) (n : Nat) (s : Input)
    (hp : ∀ x a r, x.length ≤ s.length → p x = some (a, r) → P a) : ∀ a ∈ (sepByF p sep n s).1, P a := by
  intro a ha
  simp only [sepByF] at ha
  split at ha
  · simp at ha
  · rename_i a0 s1 h1
    have l1 := hng _ _ _ h1
    simp only [List.mem_cons] at ha
    rcases ha with rfl | ha
    · exact hp s _ s1 (Nat.le_refl _) h1
    · exact sepTailF_all hng hsep n s1 (fun x a r hx => hp x a r (by omega)) a ha

/-- results of `ty` on inputs shorter than `b` are well formed -/
def TyResWF (ty : Input → Option (Ty × Input)) (b : Nat) : Prop :=
  ∀ s t r, s.length < b → ty s = some (t, r) → WFTy t

theorem objectFieldF_wf {n b : Nat} {ty : Input → Option (Ty × Input)} (hty : TyResWF ty b) {s : Input} {nm : Str}
    {t : Ty} {r : Input} (hs : s.length ≤ b) (h : objectFieldF n ty s = some ((nm, t), r)) :
    Spec.isFieldName nm = true ∧ WFTy t := by
  simp only [objectFieldF] at h
  split at h
  · simp at h
  · rename_i f s1 h1
    split at h
    · simp at h
    · rename_i s2 h2
      split at h
      · simp at h
      · rename_i t' r' h3
        simp only [Option.some.injEq, Prod.mk.injEq] at h
        obtain ⟨⟨rfl, rfl⟩, _⟩ := h
        have l0 := wceStarF_le n s
        have l1 := (good_fieldNameF n).shrinks _ _ _ h1
        have l2 := wceStarF_le n s1
        have e2 := congrArg List.length (chr_eq h2)
        simp only [List.length_cons] at e2
        have l3 := wceStarF_le n s2
        exact ⟨fieldNameF_isFieldName h1, hty _ _ _ (by omega) h3⟩

theorem wfFields_ofList : ∀ (l : List (Str × Ty)), (∀ x ∈ l, Spec.isFieldName x.1 = true ∧ WFTy x.2) →
    WFFields (Fields.ofList l)
  | [], _ => by simp [Fields.ofList, WFFields]
  | (n, t) :: r, h => by
    rw [Fields.ofList, WFFields]
    exact ⟨(h (n, t) (by simp)).1, (h (n, t) (by simp)).2, wfFields_ofList r (fun x hx => h x (by simp [hx]))⟩

theorem vstructF_wf {n b : Nat} {ty : Input → Option (Ty × Input)} (hty : TyResWF ty b) (hng : NoGrow ty) {s : Input}
    {f : Fields} {r : Input} (hs : s.length ≤ b) (h : vstructF n ty s = some (f, r)) : WFFields f := by
  simp only [vstructF] at h
  split at h
  · simp at h
  · rename_i s1 h1
    split at h
    · rename_i r' h2
      simp only [Option.some.injEq, Prod.mk.injEq] at h
      rw [← h.1]
      apply wfFields_ofList
      have e1 := congrArg List.length (chr_eq h1)
      simp only [List.length_cons] at e1
      have l1 := wceStarF_le n s1
      intro y hy
      exact sepByF_all (P := fun x : Str × Ty => Spec.isFieldName x.1 = true ∧ WFTy x.2)
        (objectFieldF_shrinks n hng).noGrow (sepShrinks_chr ',') n _
        (fun x a r'' hx hobj => by
          obtain ⟨nm, t⟩ := a
          exact objectFieldF_wf hty (by omega) hobj) y hy
    · simp at h

theorem venumF_names {n : Nat} {s : Input} {es : List Str} {r : Input} (h : venumF n s = some (es, r)) :
    ∀ e ∈ es, Spec.isFieldName e = true := by
  simp only [venumF] at h
  split at h
  · simp at h
  · rename_i s1 h1
    split at h
    · rename_i r' h2
      simp only [Option.some.injEq, Prod.mk.injEq] at h
      rw [← h.1]
      intro y hy
      exact sepByF_all (P := fun x : Str => Spec.isFieldName x = true)
        (noGrow_fieldNameF n) (sepShrinks_enumSep n) n _
        (fun x a r'' _ hf => fieldNameF_isFieldName hf) y hy
    · simp at h

/-- an enum the parser returns is never empty: `()` is a struct, and `vstruct` is tried first -/
theorem venum_nonempty {n : Nat} {ty : Input → Option (Ty × Input)} {s : Input} {es : List Str} {r : Input}
    (hn : s.length ≤ n) (hv : vstructF n ty s = none) (h : venumF n s = some (es, r)) : es ≠ [] := by
  intro he
  subst he
  simp only [venumF] at h
  split at h
  · simp at h
  · rename_i s1 h1
    split at h
    · rename_i r' h2
      simp only [Option.some.injEq, Prod.mk.injEq] at h
      obtain ⟨hnil, rfl⟩ := h
      have e1 := congrArg List.length (chr_eq h1)
      simp only [List.length_cons] at e1
      -- no item was parsed: `field_name` fails right after the leading trivia
      have hX : fieldNameF n (wceStarF n s1).2 = none ∧
          (sepByF (fieldNameF n) (enumSep n) n (wceStarF n s1).2).2 = (wceStarF n s1).2 := by
        simp only [sepByF] at hnil ⊢
        split at hnil
        · rename_i hf; exact ⟨hf, by simp [hf]⟩
        · simp at hnil
      have hstop : wce (wceStarF n s1).2 = none := manyF_stops good_wce n s1 (by omega)
      have hidem : wceStarF n (wceStarF n s1).2 = ([], (wceStarF n s1).2) := by
        simpa [wceStarF] using manyF_none (n := n) hstop
      rw [hX.2] at h2
      have hobj : objectFieldF n ty (wceStarF n s1).2 = none := by
        simp only [objectFieldF, hidem, hX.1]
      simp only [vstructF, h1, sepByF, hobj, h2] at hv
      cases hv
    · simp at h

theorem btypeF_wf {n b : Nat} {ty : Input → Option (Ty × Input)} (hty : TyResWF ty b) (hng : NoGrow ty) {s : Input}
    {t : Ty} {r : Input} (hs : s.length ≤ b) (hn : s.length ≤ n) (h : btypeF n ty s = some (t, r)) :
    WFTy t ∧ NotOption t := by
  simp only [btypeF] at h
  split at h
  · simp only [Option.some.injEq, Prod.mk.injEq] at h; rw [← h.1]; simp [WFTy, NotOption]
  split at h
  · simp only [Option.some.injEq, Prod.mk.injEq] at h; rw [← h.1]; simp [WFTy, NotOption]
  split at h
  · simp only [Option.some.injEq, Prod.mk.injEq] at h; rw [← h.1]; simp [WFTy, NotOption]
  split at h
  · simp only [Option.some.injEq, Prod.mk.injEq] at h; rw [← h.1]; simp [WFTy, NotOption]
  split at h
  · simp only [Option.some.injEq, Prod.mk.injEq] at h; rw [← h.1]; simp [WFTy, NotOption]
  split at h
  · rename_i w r' hname
    simp only [Option.some.injEq, Prod.mk.injEq] at h; rw [← h.1]
    exact ⟨by rw [WFTy]; exact (name_sound hname).2.1, by simp [NotOption]⟩
  split at h
  · rename_i f r' hv
    simp only [Option.some.injEq, Prod.mk.injEq] at h; rw [← h.1]
    exact ⟨by rw [WFTy]; exact vstructF_wf hty hng hs hv, by simp [NotOption]⟩
  split at h
  · rename_i hv _ e r' he
    simp only [Option.some.injEq, Prod.mk.injEq] at h; rw [← h.1]
    exact ⟨by rw [WFTy]; exact ⟨venum_nonempty hn hv he, venumF_names he⟩, by simp [NotOption]⟩
  · simp at h

/-- every type `type_` returns (with enough fuel) is well formed -/
theorem typeF_wf : ∀ (n : Nat), TyResWF (typeF n) n := by
  intro n
  induction n with
  | zero => intro s t r hs; omega
  | succ n ih =>
    intro s t r hs h
    have hle : s.length ≤ n := by omega
    have hng := (typeF_shrinks n).noGrow
    simp only [typeF] at h
    split at h
    · rename_i x hx
      simp only [Option.some.injEq] at h; subst h
      exact (btypeF_wf ih hng hle hle hx).1
    split at h
    · rename_i t' r' h'
      simp only [Option.some.injEq, Prod.mk.injEq] at h; rw [← h.1]
      simp only [Option.bind_eq_some_iff] at h'
      obtain ⟨s1, h1, h2⟩ := h'
      have := lit_shrinks (l := ['[', ']']) (by simp) h1
      rw [WFTy]; exact ih _ _ _ (by omega) h2
    split at h
    · rename_i t' r' h'
      simp only [Option.some.injEq, Prod.mk.injEq] at h; rw [← h.1]
      simp only [Option.bind_eq_some_iff] at h'
      obtain ⟨s1, h1, h2⟩ := h'
      have := lit_shrinks (l := ['[', 's', 't', 'r', 'i', 'n', 'g', ']']) (by simp) h1
      rw [WFTy]; exact ih _ _ _ (by omega) h2
    split at h
    · rename_i t' r' h'
      simp only [Option.some.injEq, Prod.mk.injEq] at h; rw [← h.1]
      simp only [Option.bind_eq_some_iff] at h'
      obtain ⟨s1, h1, h2⟩ := h'
      have := lit_shrinks (l := ['?']) (by simp) h1
      rw [WFTy]; exact btypeF_wf ih hng (by omega) (by omega) h2
    split at h
    · rename_i t' r' h'
      simp only [Option.some.injEq, Prod.mk.injEq] at h; rw [← h.1]
      simp only [Option.bind_eq_some_iff] at h'
      obtain ⟨s2, ⟨s1, h1, h1'⟩, h2⟩ := h'
      have := lit_shrinks (l := ['?']) (by simp) h1
      have := lit_shrinks (l := ['[', ']']) (by simp) h1'
      rw [WFTy, WFTy]; exact ⟨ih _ _ _ (by omega) h2, by simp [NotOption]⟩
    split at h
    · rename_i t' r' h'
      simp only [Option.some.injEq, Prod.mk.injEq] at h; rw [← h.1]
      simp only [Option.bind_eq_some_iff] at h'
      obtain ⟨s2, ⟨s1, h1, h1'⟩, h2⟩ := h'
      have := lit_shrinks (l := ['?']) (by simp) h1
      have := lit_shrinks (l := ['[', 's', 't', 'r', 'i', 'n', 'g', ']']) (by simp) h1'
      rw [WFTy, WFTy]; exact ⟨ih _ _ _ (by omega) h2, by simp [NotOption]⟩
    · simp at h

theorem vstructT_wf {n : Nat} {s : Input} {f : Fields} {r : Input} (hs : s.length ≤ n)
    (h : vstructF n (typeF n) s = some (f, r)) : WFFields f :=
  vstructF_wf (typeF_wf n) (typeF_shrinks n).noGrow hs h


/-! ### members -/

theorem memberHeadF_wf {n : Nat} {kw : Str} {s : Input} {doc nm : Str} {r : Input}
    (h : memberHeadF n kw s = some ((doc, nm), r)) : IsDoc doc ∧ Spec.isTypeName nm = true := by
  simp only [memberHeadF] at h
  split at h
  · simp at h
  · split at h
    · simp at h
    · split at h
      · simp at h
      · rename_i nm' s3 h3
        simp only [Option.some.injEq, Prod.mk.injEq] at h
        obtain ⟨⟨rfl, rfl⟩, _⟩ := h
        exact ⟨isDoc_of_wceStar n s, (name_sound h3).2.1⟩

theorem memberF_wf {n : Nat} {s : Input} {m : Member} {r : Input} (hs : s.length ≤ n)
    (h : memberF n s = some (m, r)) : WFMember m := by
  simp only [memberF] at h
  split at h
  · rename_i x hx
    simp only [Option.some.injEq] at h; subst h
    simp only [methodF, Option.bind_eq_some_iff, Option.map_eq_some_iff] at hx
    obtain ⟨⟨⟨doc, nm⟩, s1⟩, hh, ⟨i, s2⟩, hi, s3, h3, ⟨o, r'⟩, ho, he⟩ := hx
    simp only [Prod.mk.injEq] at he
    obtain ⟨rfl, _⟩ := he
    obtain ⟨hd, hn⟩ := memberHeadF_wf hh
    dsimp only at hi h3 ho
    have l1 := memberHeadF_shrinks n _ hh
    have l2 := vstructT_shrinks n _ _ _ hi
    have l3 := wceStarF_le n s2
    have l4 := lit_le h3
    have l5 := wceStarF_le n s3
    exact ⟨hn, hd, vstructT_wf (by omega) hi, vstructT_wf (by omega) ho⟩
  · split at h
    · rename_i hm x hx
      simp only [Option.some.injEq] at h; subst h
      simp only [vtypedefF] at hx
      split at hx
      · rename_i y hy
        simp only [Option.some.injEq] at hx; subst hx
        simp only [Option.bind_eq_some_iff, Option.map_eq_some_iff] at hy
        obtain ⟨⟨⟨doc, nm⟩, s1⟩, hh, ⟨v, r'⟩, hv, he⟩ := hy
        simp only [Prod.mk.injEq] at he
        obtain ⟨rfl, _⟩ := he
        obtain ⟨hd, hn⟩ := memberHeadF_wf hh
        dsimp only at hv
        have l1 := memberHeadF_shrinks n _ hh
        exact ⟨hn, hd, vstructT_wf (by omega) hv⟩
      · rename_i hnone
        simp only [Option.bind_eq_some_iff, Option.map_eq_some_iff] at hx
        obtain ⟨⟨⟨doc, nm⟩, s1⟩, hh, ⟨v, r'⟩, hv, he⟩ := hx
        simp only [Prod.mk.injEq] at he
        obtain ⟨rfl, _⟩ := he
        obtain ⟨hd, hn⟩ := memberHeadF_wf hh
        dsimp only at hv
        have l1 := memberHeadF_shrinks n _ hh
        have hvs : vstructF n (typeF n) s1 = none := by
          rw [hh] at hnone
          simp only [Option.bind_some] at hnone
          cases hq : vstructF n (typeF n) s1 with
          | none => rfl
          | some q => rw [hq] at hnone; simp at hnone
        exact ⟨hn, hd, venum_nonempty (by omega) hvs hv, venumF_names hv⟩
    · simp only [errorF, Option.bind_eq_some_iff, Option.map_eq_some_iff] at h
      obtain ⟨⟨⟨doc, nm⟩, s1⟩, hh, ⟨v, r'⟩, hv, he⟩ := h
      simp only [Prod.mk.injEq] at he
      obtain ⟨rfl, _⟩ := he
      obtain ⟨hd, hn⟩ := memberHeadF_wf hh
      dsimp only at hv
      have l1 := memberHeadF_shrinks n _ hh
      exact ⟨hn, hd, vstructT_wf (by omega) hv⟩

/-- **everything the grammar returns is well formed** -/
theorem parse_wf {s : Input} {p : Parsed} (h : parse s = some p) :
    Spec.isInterfaceName p.name = true ∧ IsDoc p.doc ∧ (∀ m ∈ p.members, WFMember m) ∧ p.members ≠ [] := by
  simp only [parse] at h
  split at h
  · rename_i p' hp
    simp only [Option.some.injEq] at h; subst h
    simp only [parseInterfaceF] at hp
    split at hp
    · simp at hp
    · rename_i s1 h1
      split at hp
      · simp at hp
      · rename_i t s2 h2
        split at hp
        · simp at hp
        · rename_i nm s3 h3
          split at hp
          · simp at hp
          · rename_i e s4 h4
            split at hp
            · simp at hp
            · rename_i m ms hq
              simp only [Option.some.injEq, Prod.mk.injEq] at hp
              obtain ⟨rfl, _⟩ := hp
              have l0 := wceStarF_le (s.length + 1) s
              have l1 := lit_le h1
              have l2 : s2.length ≤ s1.length := by rw [(wcePlusF_split h2).1]; simp
              have l3 := (good_interfaceNameF (s.length + 1)).shrinks _ _ _ h3
              have l4 := good_eol.shrinks _ _ _ h4
              refine ⟨interfaceNameF_isInterfaceName h3, isDoc_of_wceStar _ s, ?_, by simp⟩
              intro x hx
              rw [← hq] at hx
              exact sepByF_all (P := WFMember) (memberF_shrinks _).noGrow sepShrinks_eolSep _ s4
                (fun y a r hy hm => memberF_wf (by omega) hm) x hx
  · cases h

/-! ### the regrouped member list is a permutation -/

theorem regroup_perm : ∀ (L : List Member),
    (L.filter (·.kind = .typedef) ++ L.filter (·.kind = .method) ++ L.filter (·.kind = .error)).Perm L
  | [] => List.Perm.refl _
  | x :: L => by
    have ih := regroup_perm L
    cases hk : x.kind with
    | typedef =>
      simp only [List.filter_cons, hk, decide_true, if_true, reduceCtorEq, decide_false, Bool.false_eq_true, if_false,
        List.cons_append]
      exact List.Perm.cons x ih
    | method =>
      simp only [List.filter_cons, hk, decide_true, if_true, reduceCtorEq, decide_false, Bool.false_eq_true, if_false,
        List.append_assoc, List.cons_append]
      exact List.Perm.trans List.perm_middle (List.Perm.cons x (by simpa using ih))
    | error =>
      simp only [List.filter_cons, hk, decide_true, if_true, reduceCtorEq, decide_false, Bool.false_eq_true, if_false]
      exact List.Perm.trans List.perm_middle (List.Perm.cons x (by simpa using ih))

/-- **every definition `try_from` returns is well formed** -/
theorem wf_of_tryFrom {s : Input} {i : IDL} (h : tryFrom s = .ok i) : WFIdl i := by
  simp only [tryFrom] at h
  split at h
  · rename_i p hp
    split at h
    · rename_i herr
      simp only [Outcome.ok.injEq] at h
      subst h
      obtain ⟨hname, hdoc, hmem, hne⟩ := parse_wf hp
      have inv := foldInv_fromToken p
      have hnd : (p.members.map (·.name)).Nodup := by
        refine Classical.not_not.mp (fun hn => ?_)
        obtain ⟨n, hn'⟩ := (isDup_iff_not_nodup p.members).mpr hn
        obtain ⟨msg, hmsg, _⟩ := inv.complete n hn'
        simp only [List.isEmpty_iff] at herr
        rw [herr] at hmsg; simp at hmsg
      have et : tList (fromToken p) = p.members.filter (·.kind = .typedef) :=
        membersOf_of_nodup .typedef _ _ _ inv.tkeys inv.tmap hnd
      have em : mList (fromToken p) = p.members.filter (·.kind = .method) :=
        membersOf_of_nodup .method _ _ _ inv.mkeys inv.mmap hnd
      have ee : eList (fromToken p) = p.members.filter (·.kind = .error) :=
        membersOf_of_nodup .error _ _ _ inv.ekeys inv.emap hnd
      have hperm := regroup_perm p.members
      refine ⟨by rw [inv.name]; exact hname, by rw [fromToken_doc]; exact hdoc, ?_, ?_, ?_, ?_, ?_⟩
      · intro m hm
        rw [et] at hm
        simp only [List.mem_filter, decide_eq_true_eq] at hm
        exact ⟨hm.2, hmem m hm.1⟩
      · intro m hm
        rw [em] at hm
        simp only [List.mem_filter, decide_eq_true_eq] at hm
        exact ⟨hm.2, hmem m hm.1⟩
      · intro m hm
        rw [ee] at hm
        simp only [List.mem_filter, decide_eq_true_eq] at hm
        exact ⟨hm.2, hmem m hm.1⟩
      · rw [et, em, ee]
        intro he
        have := hperm.length_eq
        rw [he] at this
        cases hm : p.members with
        | nil => exact hne hm
        | cons a b => rw [hm] at this; simp at this
      · rw [et, em, ee]
        exact (List.Perm.nodup_iff (hperm.map _)).mpr hnd
    · cases h
  · cases h

end VV.Idl
