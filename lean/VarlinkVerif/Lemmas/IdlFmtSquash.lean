/-
Lemmas.IdlFmtSquash — the width only moves blanks: after deleting spaces and newlines every
multi-line layout equals the one-line layout.
-/
import VarlinkVerif.Model.IdlFormat

namespace VV.Idl.Fmt
open VV.Idl

/-- delete spaces and newlines -/
def squash (s : Str) : Str := s.filter fun c => c != ' ' && c != '\n'

@[simp] theorem squash_append (a b : Str) : squash (a ++ b) = squash a ++ squash b := by simp [squash]
@[simp] theorem squash_nil : squash [] = [] := rfl

@[simp] theorem squash_cons (c : Char) (a : Str) :
    squash (c :: a) = if c = ' ' ∨ c = '\n' then squash a else c :: squash a := by
  simp only [squash, List.filter_cons]
  by_cases h1 : c = ' ' <;> by_cases h2 : c = '\n' <;> simp [h1, h2]

@[simp] theorem squash_pad (n : Nat) : squash (pad n) = [] := by
  induction n with
  | zero => rfl
  | succ n ih => simp only [pad, List.replicate_succ] at ih ⊢; simp [ih]

theorem squash_commaNl_map_pad (ind : Nat) : ∀ (es : List Str),
    squash (commaNl (es.map fun e => pad ind ++ e)) = squash (commaSep es)
  | [] => rfl
  | [x] => by simp [commaNl, commaSep]
  | x :: y :: r => by
    have := squash_commaNl_map_pad ind (y :: r)
    simp only [List.map_cons] at this
    simp [commaNl, commaSep, this]

theorem squash_enumMultiline (es : List Str) (ind : Nat) : squash (enumMultiline es ind) = squash (enumOneline es) := by
  simp [enumMultiline, enumOneline, squash_commaNl_map_pad]

theorem commaNl_cons_ne (x : Str) : ∀ (l : List Str), l ≠ [] → commaNl (x :: l) = x ++ ',' :: '\n' :: commaNl l
  | [], h => absurd rfl h
  | _ :: _, _ => rfl

theorem commaSep_cons_ne (x : Str) : ∀ (l : List Str), l ≠ [] → commaSep (x :: l) = x ++ ',' :: ' ' :: commaSep l
  | [], h => absurd rfl h
  | _ :: _, _ => rfl

mutual
theorem squash_tyMultiline : ∀ (t : Ty) (ind max : Nat), squash (tyMultiline t ind max) = squash (tyOneline t)
  | .bool, _, _ => rfl
  | .int, _, _ => rfl
  | .float, _, _ => rfl
  | .string, _, _ => rfl
  | .object, _, _ => rfl
  | .typename _, _, _ => by simp only [tyMultiline, tyOneline]
  | .struct fs, ind, max => by
    have := squash_fieldsMultiline fs (ind + 2) max
    simp [tyMultiline, tyOneline, this]
  | .enum es, ind, _ => by simp only [tyMultiline, tyOneline]; exact squash_enumMultiline es ind
  | .array t, ind, max => by
    have := squash_tyMultiline t ind max
    simp [tyMultiline, tyOneline, this]
  | .dict t, ind, max => by
    have := squash_tyMultiline t ind max
    simp [tyMultiline, tyOneline, this]
  | .option t, ind, max => by
    have := squash_tyMultiline t ind max
    simp [tyMultiline, tyOneline, this]
theorem squash_fieldsMultiline : ∀ (fs : Fields) (ind max : Nat),
    squash (commaNl (fieldsMultiline fs ind max)) = squash (commaSep (fieldsOneline fs))
  | .nil, _, _ => rfl
  | .cons n t .nil, ind, max => by
    have := squash_tyMultiline t ind max
    simp only [fieldsMultiline, fieldsOneline, commaNl, commaSep]
    split <;> simp [this]
  | .cons n t (.cons n' t' r), ind, max => by
    have h1 := squash_tyMultiline t ind max
    have h2 := squash_fieldsMultiline (.cons n' t' r) ind max
    have hne1 : fieldsMultiline (.cons n' t' r) ind max ≠ [] := by simp [fieldsMultiline]
    have hne2 : fieldsOneline (.cons n' t' r) ≠ [] := by simp [fieldsOneline]
    show squash (commaNl ((if (n ++ ':' :: ' ' :: tyOneline t).length + ind < max
        then pad ind ++ (n ++ ':' :: ' ' :: tyOneline t)
        else pad ind ++ (n ++ ':' :: ' ' :: tyMultiline t ind max)) :: fieldsMultiline (.cons n' t' r) ind max)) =
      squash (commaSep ((n ++ ':' :: ' ' :: tyOneline t) :: fieldsOneline (.cons n' t' r)))
    rw [commaNl_cons_ne _ _ hne1, commaSep_cons_ne _ _ hne2]
    split <;> simp [h1, h2]
end

theorem squash_structMultiline (fs : Fields) (ind max : Nat) :
    squash (structMultiline fs ind max) = squash (structOneline fs) :=
  squash_tyMultiline (.struct fs) ind max

theorem squash_eltMultiline : ∀ (b : Body) (ind max : Nat), squash (eltMultiline b ind max) = squash (eltOneline b)
  | .typeStruct f, ind, max => squash_structMultiline f ind max
  | .typeEnum es, ind, _ => squash_enumMultiline es ind
  | .method i _, ind, max => squash_structMultiline i ind max
  | .error f, ind, max => squash_structMultiline f ind max

theorem splitNl_ne_nil' : ∀ (s : Str), splitNl s ≠ []
  | [] => by simp [splitNl]
  | c :: r => by
    simp only [splitNl]
    split
    · simp
    · split <;> simp

theorem squash_joinNl_pad (ind : Nat) : ∀ (ls : List Str),
    squash (joinNl (ls.map fun s => pad ind ++ s)) = squash (joinNl ls)
  | [] => rfl
  | [x] => by simp [joinNl]
  | x :: y :: r => by
    have := squash_joinNl_pad ind (y :: r)
    simp only [List.map_cons] at this
    simp [joinNl, this]

theorem squash_joinNl_splitNl : ∀ (s : Str), squash (joinNl (splitNl s)) = squash s
  | [] => rfl
  | c :: r => by
    have ih := squash_joinNl_splitNl r
    by_cases hc : c = '\n'
    · subst hc
      simp only [splitNl, if_true]
      cases hs : splitNl r with
      | nil => exact absurd hs (splitNl_ne_nil' r)
      | cons y ys => rw [hs] at ih; simp [joinNl, ih]
    · simp only [splitNl, if_neg hc]
      cases hs : splitNl r with
      | nil => exact absurd hs (splitNl_ne_nil' r)
      | cons y ys =>
        rw [hs] at ih
        have key : joinNl ((c :: y) :: ys) = c :: joinNl (y :: ys) := by
          cases ys with
          | nil => rfl
          | cons z zs => rfl
        rw [key, squash_cons, squash_cons, ih]

theorem squash_docLines (ind : Nat) (doc : Str) :
    squash (docLines ind doc) = squash (if doc.isEmpty then [] else doc ++ ['\n']) := by
  simp only [docLines]
  split
  · rfl
  · simp only [squash_append, squash_joinNl_pad, squash_joinNl_splitNl]

theorem squash_docPlain (ind : Nat) (doc : Str) :
    squash (docPlain ind doc) = squash (if doc.isEmpty then [] else doc ++ ['\n']) := by
  simp only [docPlain]
  split
  · rfl
  · simp

theorem squash_flatten_map {α} (f g : α → Str) : ∀ (l : List α), (∀ x ∈ l, squash (f x) = squash (g x)) →
    squash (l.map f).flatten = squash (l.map g).flatten
  | [], _ => rfl
  | x :: l, h => by
    simp only [List.map_cons, List.flatten_cons, squash_append]
    rw [h x (by simp), squash_flatten_map f g l (fun y hy => h y (by simp [hy]))]

theorem squash_typedef (t : Member) (indent max : Nat) :
    squash (typedefMultiline t indent max) =
      squash ('\n' :: (if t.doc.isEmpty then [] else t.doc ++ ['\n']) ++ ['t', 'y', 'p', 'e', ' '] ++ t.name ++
        ' ' :: eltOneline t.body ++ ['\n']) := by
  simp only [typedefMultiline]
  split <;> simp [squash_docPlain, squash_eltMultiline]

theorem squash_error (t : Member) (indent max : Nat) :
    squash (errorMultiline t indent max) =
      squash ('\n' :: (if t.doc.isEmpty then [] else t.doc ++ ['\n']) ++ ['e', 'r', 'r', 'o', 'r', ' '] ++ t.name ++
        ' ' :: eltOneline t.body ++ ['\n']) := by
  simp only [errorMultiline]
  split <;> simp [squash_docLines, squash_eltMultiline]

theorem squash_method (m : Member) (indent max : Nat) :
    squash (methodMultiline m indent max) =
      squash ('\n' :: (if m.doc.isEmpty then [] else m.doc ++ ['\n']) ++ ['m', 'e', 't', 'h', 'o', 'd', ' '] ++ m.name ++
        structOneline (methodIO m.body).1 ++ [' ', '-', '>', ' '] ++ structOneline (methodIO m.body).2 ++ ['\n']) := by
  simp only [methodMultiline]
  split
  · simp [squash_docLines]
  · split
    · simp [squash_docLines, squash_structMultiline]
    · split <;> simp [squash_docLines, squash_structMultiline]

/-- **the width only moves blanks** -/
theorem squash_multiline (i : IDL) (indent max : Nat) : squash (multiline i indent max) = squash (oneline i) := by
  simp only [multiline, oneline, squash_append]
  rw [squash_flatten_map _ _ _ (fun t _ => squash_typedef t indent max),
    squash_flatten_map _ _ _ (fun m _ => squash_method m indent max),
    squash_flatten_map _ _ _ (fun t _ => squash_error t indent max)]
  simp [squash_docLines]

end VV.Idl.Fmt
