/-
Lemmas.IdlIfaceName — rule `interface_name` against `Spec.isInterfaceName`
(dot-separated elements over `[A-Za-z0-9-]`, none empty, none starting or ending with a
hyphen, at least two, the first starting with a letter).
-/
import VarlinkVerif.Lemmas.IdlNames

namespace VV.Idl

def isLabelChar (c : Char) : Bool := isAlnum c || c == '-'

/-- the language `([-]*[A-Za-z0-9])*`: label characters, the last one (if any) not a hyphen -/
def labelTailB : Str → Bool
  | [] => true
  | [c] => isAlnum c
  | c :: d :: r => isLabelChar c && labelTailB (d :: r)

theorem isAlnum_hyphen : isAlnum '-' = false := by decide
theorem isLabelChar_dot : isLabelChar '.' = false := by decide

theorem alnum_ne_hyphen {c : Char} (h : isAlnum c = true) : c ≠ '-' := by
  intro e; subst e; simp [isAlnum_hyphen] at h

theorem labelTailB_cons {c : Char} {u : Str} (h : labelTailB (c :: u) = true) :
    isLabelChar c = true ∧ labelTailB u = true := by
  cases u with
  | nil => simp only [labelTailB] at h; simp [isLabelChar, h, labelTailB]
  | cons d r => simpa [labelTailB] using h

theorem labelTailB_mem {u : Str} (h : labelTailB u = true) : ∀ x ∈ u, isLabelChar x = true := by
  induction u with
  | nil => simp
  | cons c u ih =>
    intro x hx
    obtain ⟨h1, h2⟩ := labelTailB_cons h
    simp only [List.mem_cons] at hx
    rcases hx with rfl | hx
    · exact h1
    · exact ih h2 x hx

theorem labelTailB_getLast {u : Str} (h : labelTailB u = true) : ∀ l, u.getLast? = some l → isAlnum l = true := by
  induction u with
  | nil => simp
  | cons c u ih =>
    intro l hl
    cases u with
    | nil => simp only [labelTailB] at h; simp at hl; rw [← hl]; exact h
    | cons d r =>
      obtain ⟨_, h2⟩ := labelTailB_cons h
      rw [List.getLast?_cons_cons] at hl
      exact ih h2 l hl

theorem labelTailB_of {u : Str} (h1 : ∀ x ∈ u, isLabelChar x = true)
    (h2 : ∀ l, u.getLast? = some l → isAlnum l = true) : labelTailB u = true := by
  induction u with
  | nil => rfl
  | cons c u ih =>
    cases u with
    | nil => simp only [labelTailB]; exact h2 c (by simp)
    | cons d r =>
      simp only [labelTailB, Bool.and_eq_true]
      refine ⟨h1 c (by simp), ih (fun x hx => h1 x (by simp [hx])) ?_⟩
      intro l hl
      exact h2 l (by rw [List.getLast?_cons_cons]; exact hl)

/-- one more `[-]*[alnum]` chunk in front -/
theorem labelTailB_step (h : Str) (hh : ∀ x ∈ h, x = '-') (d : Char) (hd : isAlnum d = true) (t : Str)
    (ht : labelTailB t = true) : labelTailB (h ++ d :: t) = true := by
  induction h with
  | nil =>
    cases t with
    | nil => simpa [labelTailB] using hd
    | cons e r => simp [labelTailB, isLabelChar, hd, ht]
  | cons x h ih =>
    have hx : x = '-' := hh x (by simp)
    subst hx
    have := ih (fun y hy => hh y (by simp [hy]))
    show labelTailB ('-' :: (h ++ d :: t)) = true
    cases hq : h ++ d :: t with
    | nil => simp at hq
    | cons e r =>
      rw [hq] at this
      simp only [labelTailB, Bool.and_eq_true]
      exact ⟨by decide, this⟩

theorem labelStep_shape {s t r} (h : labelStep s = some (t, r)) :
    ∃ hy d, t = hy ++ [d] ∧ (∀ x ∈ hy, x = '-') ∧ isAlnum d = true := by
  simp only [labelStep] at h
  split at h
  · rename_i d r' hd
    split at h
    · rename_i ha
      simp only [Option.some.injEq, Prod.mk.injEq] at h
      refine ⟨_, d, h.1.symm, ?_, ha⟩
      intro x hx
      have := mem_takeWhile_imp _ _ x hx
      simpa using this
    · simp at h
  · simp at h

/-- soundness of the label loop -/
theorem manyF_labelStep_sound : ∀ n s, labelTailB (manyF labelStep n s).1 = true := by
  intro n
  induction n with
  | zero => intro s; rfl
  | succ n ih =>
    intro s
    simp only [manyF]
    split
    · rename_i t r h
      obtain ⟨hy, d, rfl, hh, hd⟩ := labelStep_shape h
      simp only [List.append_assoc, List.singleton_append]
      exact labelTailB_step hy hh d hd _ (ih r)
    · rfl

theorem labelStep_hyphens (h : Str) (hh : ∀ x ∈ h, x = '-') (c : Char) (hc : isAlnum c = true) (rest : Input) :
    labelStep (h ++ c :: rest) = some (h ++ [c], rest) := by
  have hne : ((fun x : Char => x == '-') c) = false := by simpa using alnum_ne_hyphen hc
  have := takeWhile_append_all (fun x : Char => x == '-') h (c :: rest) (fun x hx => by simp [hh x hx])
    (fun c' r' e => by simp only [List.cons.injEq] at e; rw [← e.1]; exact hne)
  simp only [labelStep, this.1, this.2, hc, if_true]

/-- the next character cannot continue a label -/
def NoLabelAhead (r : Input) : Prop := ∀ c r', r = c :: r' → isLabelChar c = false

theorem labelStep_none_of_noLabelAhead {r : Input} (hr : NoLabelAhead r) : labelStep r = none := by
  cases r with
  | nil => simp [labelStep]
  | cons c r' =>
    have hc := hr c r' rfl
    simp only [isLabelChar, Bool.or_eq_false_iff] at hc
    have h1 : (c == '-') = false := hc.2
    simp only [labelStep, List.dropWhile, h1, hc.1]
    simp

/-- completeness of the label loop (hyphens seen so far are carried in `h`) -/
theorem manyF_labelStep_complete : ∀ (u h : Str) (r : Input) (n : Nat), (∀ x ∈ h, x = '-') →
    labelTailB u = true → (h ≠ [] → u ≠ []) → NoLabelAhead r → (h ++ u ++ r).length ≤ n →
    manyF labelStep n (h ++ u ++ r) = (h ++ u, r) := by
  intro u
  induction u with
  | nil =>
    intro h r n _ _ hne hr _
    have : h = [] := by
      cases h with
      | nil => rfl
      | cons x h => exact absurd rfl (hne (by simp))
    subst this
    simpa using manyF_none (labelStep_none_of_noLabelAhead hr)
  | cons c u ih =>
    intro h r n hh hu _ hr hn
    obtain ⟨hc, hu'⟩ := labelTailB_cons hu
    by_cases ha : isAlnum c = true
    · cases n with
      | zero => simp at hn
      | succ n =>
        have hs := labelStep_hyphens h hh c ha (u ++ r)
        have e : h ++ c :: u ++ r = h ++ c :: (u ++ r) := by simp
        rw [e, manyF_step hs]
        have := ih [] r n (by simp) hu' (by simp) hr (by
          simp only [List.length_append, List.length_cons] at hn ⊢; simp; omega)
        simp only [List.nil_append] at this
        rw [this]
        simp
    · have hc' : c = '-' := by
        simp only [isLabelChar, Bool.or_eq_true] at hc
        rcases hc with hc | hc
        · exact absurd hc ha
        · simpa using hc
      subst hc'
      have hune : u ≠ [] := by
        intro e; subst e
        simp [labelTailB, isAlnum_hyphen] at hu
      have := ih (h ++ ['-']) r n (by
        intro x hx
        simp only [List.mem_append, List.mem_singleton] at hx
        rcases hx with hx | hx
        · exact hh x hx
        · exact hx) hu' (fun _ => hune) hr (by simpa using hn)
      simpa using this

/-! ### elements -/

theorem okElement_iff (e : Str) :
    Spec.okElement e = true ↔ ∃ d u, e = d :: u ∧ isAlnum d = true ∧ labelTailB u = true := by
  constructor
  · intro h
    simp only [Spec.okElement, Bool.and_eq_true, Bool.not_eq_true', List.all_eq_true, Bool.or_eq_true,
      bne_iff_ne, ne_eq] at h
    obtain ⟨⟨⟨hne, hall⟩, hhead⟩, hlast⟩ := h
    cases e with
    | nil => simp at hne
    | cons d u =>
      refine ⟨d, u, rfl, ?_, ?_⟩
      · have := hall d (by simp)
        rw [← isAlnum_eq] at this
        rcases this with h1 | h1
        · exact h1
        · simp only [beq_iff_eq] at h1; subst h1; simp at hhead
      · apply labelTailB_of
        · intro x hx
          have := hall x (by simp [hx])
          rw [← isAlnum_eq] at this
          simpa [isLabelChar] using this
        · intro l hl
          have hl' : (d :: u).getLast? = some l := by
            cases u with
            | nil => simp at hl
            | cons a b => rw [List.getLast?_cons_cons]; exact hl
          have hmem : l ∈ d :: u := List.mem_of_getLast? hl'
          have := hall l hmem
          rw [← isAlnum_eq] at this
          rcases this with h1 | h1
          · exact h1
          · simp only [beq_iff_eq] at h1; subst h1; rw [hl'] at hlast; simp at hlast
  · rintro ⟨d, u, rfl, hd, hu⟩
    simp only [Spec.okElement, Bool.and_eq_true, Bool.not_eq_true', List.all_eq_true, Bool.or_eq_true,
      bne_iff_ne, ne_eq]
    refine ⟨⟨⟨by simp, ?_⟩, ?_⟩, ?_⟩
    · intro x hx
      simp only [List.mem_cons] at hx
      rw [← isAlnum_eq]
      rcases hx with rfl | hx
      · exact Or.inl hd
      · have := labelTailB_mem hu x hx
        simpa [isLabelChar] using this
    · simp only [List.head?_cons, Option.some.injEq]
      exact alnum_ne_hyphen hd
    · intro hl
      cases u with
      | nil =>
        simp at hl
        exact alnum_ne_hyphen hd hl
      | cons a b =>
        rw [List.getLast?_cons_cons] at hl
        have := labelTailB_getLast hu '-' hl
        simp [isAlnum_hyphen] at this


/-! ### dot-separated elements -/

/-- the language `( '.' [alnum] ([-]*[alnum])* )*` -/
inductive DotLabels : Str → Prop
  | nil : DotLabels []
  | cons {d : Char} {u t : Str} : isAlnum d = true → labelTailB u = true → DotLabels t →
      DotLabels ('.' :: d :: u ++ t)

theorem dot_not_mem_label {u : Str} (h : labelTailB u = true) : '.' ∉ u := by
  intro hm
  have := labelTailB_mem h '.' hm
  simp [isLabelChar_dot] at this

theorem splitOn_no_sep (sep : Char) : ∀ (a : Str), sep ∉ a → Spec.splitOn sep a = [a]
  | [], _ => rfl
  | c :: a, h => by
    have hc : c ≠ sep := fun e => h (by simp [e])
    have := splitOn_no_sep sep a (fun hm => h (by simp [hm]))
    simp [Spec.splitOn, hc, this]

theorem splitOn_append_sep (sep : Char) : ∀ (a b : Str), sep ∉ a →
    Spec.splitOn sep (a ++ sep :: b) = a :: Spec.splitOn sep b
  | [], b, _ => by simp [Spec.splitOn]
  | c :: a, b, h => by
    have hc : c ≠ sep := fun e => h (by simp [e])
    have := splitOn_append_sep sep a b (fun hm => h (by simp [hm]))
    simp [Spec.splitOn, hc, this]

theorem splitOn_ne_nil (sep : Char) : ∀ s, Spec.splitOn sep s ≠ []
  | [] => by simp [Spec.splitOn]
  | c :: r => by
    simp only [Spec.splitOn]
    split
    · simp
    · split <;> simp

/-- elements joined by dots, each with a leading dot -/
def dotJoin : List Str → Str
  | [] => []
  | e :: es => '.' :: e ++ dotJoin es

/-- `splitOn '.'` is inverted by joining with dots, and no piece contains a dot -/
theorem splitOn_join : ∀ (s : Str), ∃ e es, Spec.splitOn '.' s = e :: es ∧ s = e ++ dotJoin es ∧
    ∀ x ∈ e :: es, '.' ∉ x
  | [] => ⟨[], [], rfl, rfl, by simp⟩
  | c :: r => by
    obtain ⟨e, es, h1, h2, h3⟩ := splitOn_join r
    by_cases hc : c = '.'
    · subst hc
      refine ⟨[], e :: es, by simp [Spec.splitOn, h1], by simp [dotJoin, ← h2], ?_⟩
      intro x hx
      simp only [List.mem_cons] at hx
      rcases hx with rfl | hx
      · simp
      · exact h3 x (by simpa using hx)
    · refine ⟨c :: e, es, by simp [Spec.splitOn, hc, h1], by simp [h2], ?_⟩
      intro x hx
      simp only [List.mem_cons] at hx
      rcases hx with rfl | hx
      · intro hm
        simp only [List.mem_cons] at hm
        rcases hm with hm | hm
        · exact hc hm.symm
        · exact h3 e (by simp) hm
      · exact h3 x (by simp [hx])

theorem dotLabels_dotJoin : ∀ (es : List Str), (∀ x ∈ es, Spec.okElement x = true) → DotLabels (dotJoin es)
  | [], _ => DotLabels.nil
  | e :: es, h => by
    obtain ⟨d, u, rfl, hd, hu⟩ := (okElement_iff e).mp (h e (by simp))
    have := dotLabels_dotJoin es (fun x hx => h x (by simp [hx]))
    simpa [dotJoin] using DotLabels.cons hd hu this

/-- splitting an element followed by dot labels -/
theorem splitOn_dotLabels {t : Str} (ht : DotLabels t) : ∀ (e : Str), '.' ∉ e →
    ∃ es, Spec.splitOn '.' (e ++ t) = e :: es ∧ (∀ x ∈ es, Spec.okElement x = true) ∧ (t ≠ [] → es ≠ []) := by
  induction ht with
  | nil =>
    intro e he
    exact ⟨[], by simpa using splitOn_no_sep '.' e he, by simp, by simp⟩
  | @cons d u t hd hu _ ih =>
    intro e he
    have hdu : '.' ∉ d :: u := by
      intro hm
      simp only [List.mem_cons] at hm
      rcases hm with hm | hm
      · subst hm; exact absurd hd (by decide)
      · exact dot_not_mem_label hu hm
    obtain ⟨es, h1, h2, _⟩ := ih (d :: u) hdu
    refine ⟨(d :: u) :: es, ?_, ?_, by simp⟩
    · have := splitOn_append_sep '.' e (d :: u ++ t) he
      simp only [List.cons_append] at this h1 ⊢
      rw [this, h1]
    · intro x hx
      simp only [List.mem_cons] at hx
      rcases hx with rfl | hx
      · exact (okElement_iff _).mpr ⟨d, u, rfl, hd, hu⟩
      · exact h2 x hx

/-! ### rule `interface_name` -/

theorem dotLabelF_shape {n s t r} (h : dotLabelF n s = some (t, r)) :
    ∃ d u, t = '.' :: d :: u ∧ isAlnum d = true ∧ labelTailB u = true := by
  match s, h with
  | c :: d :: s, h =>
    simp only [dotLabelF] at h
    split at h
    · rename_i hc
      simp only [Bool.and_eq_true, decide_eq_true_eq] at hc
      simp only [Option.some.injEq, Prod.mk.injEq] at h
      refine ⟨d, _, ?_, hc.2, manyF_labelStep_sound n s⟩
      rw [← h.1, hc.1]
    · simp at h
  | [], h => simp [dotLabelF] at h
  | [_], h => simp [dotLabelF] at h

theorem manyF_dotLabelF_sound (n : Nat) : ∀ m s, DotLabels (manyF (dotLabelF n) m s).1 := by
  intro m
  induction m with
  | zero => intro s; exact DotLabels.nil
  | succ m ih =>
    intro s
    simp only [manyF]
    split
    · rename_i t r h
      obtain ⟨d, u, rfl, hd, hu⟩ := dotLabelF_shape h
      exact DotLabels.cons hd hu (ih r)
    · exact DotLabels.nil

/-- nothing that could continue an interface name follows -/
def NoNameAhead (r : Input) : Prop := ∀ c r', r = c :: r' → isLabelChar c = false ∧ c ≠ '.'

theorem noLabelAhead_of_noNameAhead {r} (h : NoNameAhead r) : NoLabelAhead r :=
  fun c r' e => (h c r' e).1

theorem dotLabelF_none_of_noNameAhead {n r} (h : NoNameAhead r) : dotLabelF n r = none := by
  match r, h with
  | [], _ => rfl
  | [_], _ => rfl
  | c :: d :: r, h =>
    have := (h c (d :: r) rfl).2
    simp [dotLabelF, this]

theorem noLabelAhead_dotLabels_append {t : Str} (ht : DotLabels t) {r : Input} (hr : NoNameAhead r) :
    NoLabelAhead (t ++ r) := by
  cases ht with
  | nil => simpa using noLabelAhead_of_noNameAhead hr
  | cons hd hu ht' =>
    intro c r' e
    simp only [List.cons_append, List.cons.injEq] at e
    rw [← e.1]; exact isLabelChar_dot

theorem dotLabelF_complete {n : Nat} {d : Char} {u : Str} {rest : Input} (hd : isAlnum d = true)
    (hu : labelTailB u = true) (hrest : NoLabelAhead rest) (hn : (u ++ rest).length ≤ n) :
    dotLabelF n ('.' :: d :: (u ++ rest)) = some ('.' :: d :: u, rest) := by
  have := manyF_labelStep_complete u [] rest n (by simp) hu (by simp) hrest (by simpa using hn)
  simp only [List.nil_append] at this
  simp [dotLabelF, hd, this]

theorem manyF_dotLabelF_complete {n : Nat} {t : Str} (ht : DotLabels t) : ∀ {r : Input} (m : Nat),
    NoNameAhead r → (t ++ r).length ≤ m → (t ++ r).length ≤ n →
    manyF (dotLabelF n) m (t ++ r) = (t, r) := by
  induction ht with
  | nil =>
    intro r m hr _ _
    simpa using manyF_none (dotLabelF_none_of_noNameAhead hr)
  | @cons d u t hd hu ht' ih =>
    intro r m hr hm hn
    cases m with
    | zero => simp at hm
    | succ m =>
      simp only [List.cons_append, List.append_assoc, List.length_cons, List.length_append] at hm hn
      have hs := dotLabelF_complete (n := n) hd hu (noLabelAhead_dotLabels_append ht' hr)
        (by simp only [List.length_append]; omega)
      have e : '.' :: d :: u ++ t ++ r = '.' :: d :: (u ++ (t ++ r)) := by simp
      rw [e, manyF_step hs, ih m hr (by simp only [List.length_append]; omega)
        (by simp only [List.length_append]; omega)]

/-- **soundness and maximality of `interface_name`**: what the rule consumes is an interface name
    of the specification, and the rule stopped where neither another label chunk nor another
    dot-label can follow -/
theorem interfaceNameF_sound {n s w r} (hn : s.length ≤ n) (h : interfaceNameF n s = some (w, r)) :
    s = w ++ r ∧ Spec.isInterfaceName w = true ∧ dotLabelF n r = none := by
  refine ⟨(good_interfaceNameF n _ _ _ h).1, ?_⟩
  cases s with
  | nil => simp [interfaceNameF] at h
  | cons c s =>
    simp only [interfaceNameF] at h
    split at h
    · rename_i hc
      split at h
      · rename_i t1 r1 h1
        simp only [Option.some.injEq, Prod.mk.injEq] at h
        obtain ⟨rfl, rfl⟩ := h
        simp only [List.length_cons] at hn
        have l0 := manyF_length_le good_labelStep n s
        have l1 := (good_dotLabelF n).shrinks _ _ _ h1
        refine ⟨?_, manyF_stops (good_dotLabelF n) n r1 (by omega)⟩
        obtain ⟨d, u, rfl, hd, hu⟩ := dotLabelF_shape h1
        have hL0 := manyF_labelStep_sound n s
        have hT := manyF_dotLabelF_sound n n r1
        have hdl : DotLabels ('.' :: d :: u ++ (manyF (dotLabelF n) n r1).1) := DotLabels.cons hd hu hT
        have halnum : isAlnum c = true := by simp [isAlnum, isAlpha] at hc ⊢; rcases hc with h | h <;> simp [h]
        have hdot : '.' ∉ c :: (manyF labelStep n s).1 := by
          intro hm
          simp only [List.mem_cons] at hm
          rcases hm with hm | hm
          · subst hm; exact absurd halnum (by decide)
          · exact dot_not_mem_label hL0 hm
        obtain ⟨es, h1', h2', h3'⟩ := splitOn_dotLabels hdl _ hdot
        have hes : es ≠ [] := h3' (by simp)
        simp only [Spec.isInterfaceName, Bool.and_eq_true, decide_eq_true_eq, List.all_eq_true]
        have e : c :: (manyF labelStep n s).1 ++ '.' :: d :: u ++ (manyF (dotLabelF n) n r1).1 =
            (c :: (manyF labelStep n s).1) ++ ('.' :: d :: u ++ (manyF (dotLabelF n) n r1).1) := by simp
        rw [e, h1']
        refine ⟨⟨?_, ?_⟩, ?_⟩
        · cases es with
          | nil => exact absurd rfl hes
          | cons a b => simp
        · intro x hx
          simp only [List.mem_cons] at hx
          rcases hx with rfl | hx
          · exact (okElement_iff _).mpr ⟨c, _, rfl, halnum, hL0⟩
          · exact h2' x hx
        · simp only [List.cons_append]
          rw [← isAlpha_eq]; exact hc
      · simp at h
    · simp at h

/-- **completeness (maximal munch)**: an interface name of the specification that is not followed
    by a name character is consumed entirely -/
theorem interfaceNameF_complete {n w r} (hn : (w ++ r).length ≤ n) (hw : Spec.isInterfaceName w = true)
    (hr : NoNameAhead r) : interfaceNameF n (w ++ r) = some (w, r) := by
  simp only [Spec.isInterfaceName, Bool.and_eq_true, decide_eq_true_eq, List.all_eq_true] at hw
  obtain ⟨⟨hlen, hall⟩, hhead⟩ := hw
  obtain ⟨e, es, hsplit, hjoin, _⟩ := splitOn_join w
  rw [hsplit] at hlen hall
  obtain ⟨d0, u0, rfl, hd0, hu0⟩ := (okElement_iff e).mp (hall e (by simp))
  have hes : DotLabels (dotJoin es) := dotLabels_dotJoin es (fun x hx => hall x (by simp [hx]))
  cases es with
  | nil => simp at hlen
  | cons e1 es1 =>
    obtain ⟨d1, u1, rfl, hd1, hu1⟩ := (okElement_iff e1).mp (hall e1 (by simp))
    have hes1 : DotLabels (dotJoin es1) := dotLabels_dotJoin es1 (fun x hx => hall x (by simp [hx]))
    subst hjoin
    have hc : isAlpha d0 = true := by
      rw [isAlpha_eq]; simpa using hhead
    simp only [dotJoin, List.cons_append, List.append_assoc, List.length_cons, List.length_append] at hn ⊢
    have hfollow1 : NoLabelAhead ('.' :: d1 :: (u1 ++ (dotJoin es1 ++ r))) := by
      intro c r' e; simp only [List.cons.injEq] at e; rw [← e.1]; exact isLabelChar_dot
    have hL0 := manyF_labelStep_complete u0 [] ('.' :: d1 :: (u1 ++ (dotJoin es1 ++ r))) n (by simp) hu0
      (by simp) hfollow1 (by simp only [List.nil_append, List.length_append, List.length_cons]; omega)
    simp only [List.nil_append] at hL0
    have hD1 := dotLabelF_complete (n := n) hd1 hu1 (noLabelAhead_dotLabels_append hes1 hr)
      (by simp only [List.length_append]; omega)
    have hT := manyF_dotLabelF_complete (n := n) hes1 n hr
      (by simp only [List.length_append]; omega) (by simp only [List.length_append]; omega)
    simp only [interfaceNameF, hc, if_true, hL0, hD1, hT]
    simp

end VV.Idl
