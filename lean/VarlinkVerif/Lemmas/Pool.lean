/-
Lemmas.Pool — counting lemmas for the worker list of Model.Pool.
-/
import VarlinkVerif.Model.Pool

namespace VV

theorem replaceFirst_length (p : WPc → Bool) (new : WPc) (ws : List WPc) :
    (replaceFirst p new ws).length = ws.length := by
  induction ws with
  | nil => rfl
  | cons w ws ih => simp only [replaceFirst]; split <;> simp [ih]

/-- replacing the first worker that satisfies `p` by `new` changes a count of
    workers satisfying `q` by what that one worker contributes -/
theorem count_replaceFirst (q : WPc → Bool) (p : WPc → Bool) (new : WPc) (a : Bool)
    (hp : ∀ w, p w = true → q w = a) :
    ∀ ws : List WPc, ws.any p = true →
      (List.filter q (replaceFirst p new ws)).length + (if a then 1 else 0) =
      (List.filter q ws).length + (if q new then 1 else 0) := by
  intro ws
  induction ws with
  | nil => intro h; simp at h
  | cons w ws ih =>
    intro h
    simp only [replaceFirst]
    by_cases hw : p w = true
    · have hq := hp w hw
      simp only [hw, if_true, List.filter_cons, hq]
      cases a <;> cases hn : q new <;> simp
      all_goals omega
    · have hany : ws.any p = true := by
        simp only [List.any_cons] at h
        simp only [hw, Bool.false_or] at h
        simpa using h
      have := ih hany
      have hw' : p w = false := by simpa using hw
      simp only [hw', Bool.false_eq_true, if_false, List.filter_cons]
      cases hqw : q w <;> simp <;> omega

theorem replaceFirst_none (p : WPc → Bool) (new : WPc) :
    ∀ ws : List WPc, ws.any p = false → replaceFirst p new ws = ws := by
  intro ws
  induction ws with
  | nil => intro _; rfl
  | cons w ws ih =>
    intro h
    simp only [List.any_cons, Bool.or_eq_false_iff] at h
    simp [replaceFirst, h.1, ih h.2]

end VV
