/-
Lemmas.GenPaths — what class S6 (`path-dup`) consists of.

The generator names an anonymous type by joining the path that leads to it with `_`
(`format!("{}_{}", name, field)`), and derives `<X>_Args`, `<X>_Reply`, `Call_<M>` the same way.
Joining is injective on component lists whose components contain no `_`.  Hence: if no field name
contains `_` and no member of the interface is named `Call`, the derived names are pairwise
distinct (`safePaths_of_plain_names`) — S6 can only fail through an underscore in a field name or
a member named `Call`.
-/
import VarlinkVerif.Model.GenEmit
import VarlinkVerif.Lemmas.GenEmit

namespace VV
namespace Gen

/-! ### joining with `_` -/

/-- components joined with `_`, left to right, the way the generator nests `format!("{}_{}", …)` -/
def joinUS : List String → String
  | [] => ""
  | c :: cs => cs.foldl sub c

theorem joinUS_snoc : ∀ (p : List String), p ≠ [] → ∀ f, joinUS (p ++ [f]) = sub (joinUS p) f
  | [], h, _ => absurd rfl h
  | c :: cs, _, f => by simp [joinUS, List.foldl_append]

theorem sub_toList (a b : String) : (sub a b).toList = a.toList ++ '_' :: b.toList := by
  simp [sub, String.toList_append]

theorem foldl_sub_toList : ∀ (cs : List String) (acc : String),
    (cs.foldl sub acc).toList = acc.toList ++ cs.flatMap (fun x => '_' :: x.toList)
  | [], acc => by simp
  | c :: cs, acc => by
    simp only [List.foldl_cons, foldl_sub_toList cs (sub acc c), sub_toList, List.flatMap_cons,
      List.append_assoc, List.cons_append]

/-- the characters of a joined name -/
theorem joinUS_toList (c : String) (cs : List String) :
    (joinUS (c :: cs)).toList = c.toList ++ cs.flatMap (fun x => '_' :: x.toList) :=
  foldl_sub_toList cs c

/-- no `_` in the string -/
def plain (s : String) : Prop := '_' ∉ s.toList

/-- split at the first `_`: two `_`-free prefixes followed by nothing or by `_…` agree -/
theorem first_us_split : ∀ (a a' r r' : List Char), '_' ∉ a → '_' ∉ a' →
    (r = [] ∨ ∃ t, r = '_' :: t) → (r' = [] ∨ ∃ t, r' = '_' :: t) →
    a ++ r = a' ++ r' → a = a' ∧ r = r'
  | [], [], _, _, _, _, _, _, h => ⟨rfl, by simpa using h⟩
  | [], y :: a', r, r', _, hy, hr, _, h => by
    exfalso
    simp only [List.nil_append, List.cons_append] at h
    rcases hr with hr | ⟨t, hr⟩
    · rw [hr] at h; simp at h
    · rw [hr] at h
      have : '_' = y := (List.cons.inj h).1
      exact hy (by rw [this]; exact List.mem_cons_self ..)
  | x :: a, [], r, r', hx, _, _, hr', h => by
    exfalso
    simp only [List.nil_append, List.cons_append] at h
    rcases hr' with hr' | ⟨t, hr'⟩
    · rw [hr'] at h; simp at h
    · rw [hr'] at h
      have : x = '_' := (List.cons.inj h).1
      exact hx (by rw [this]; exact List.mem_cons_self ..)
  | x :: a, y :: a', r, r', hx, hy, hr, hr', h => by
    simp only [List.cons_append] at h
    obtain ⟨hxy, hrest⟩ := List.cons.inj h
    have := first_us_split a a' r r' (fun hm => hx (List.mem_cons_of_mem _ hm))
      (fun hm => hy (List.mem_cons_of_mem _ hm)) hr hr' hrest
    exact ⟨by rw [hxy, this.1], this.2⟩

theorem tail_shape (cs : List String) :
    (cs.flatMap (fun x => '_' :: x.toList)) = [] ∨ ∃ t, cs.flatMap (fun x => '_' :: x.toList) = '_' :: t := by
  cases cs with
  | nil => exact Or.inl rfl
  | cons c cs => exact Or.inr ⟨c.toList ++ cs.flatMap (fun x => '_' :: x.toList), by simp⟩

/-- joining is injective on non-empty lists of `_`-free components -/
theorem joinUS_inj : ∀ (c : String) (cs : List String) (c' : String) (cs' : List String),
    (∀ x ∈ c :: cs, plain x) → (∀ x ∈ c' :: cs', plain x) →
    joinUS (c :: cs) = joinUS (c' :: cs') → c :: cs = c' :: cs'
  | c, cs, c', cs', hp, hp', h => by
    have hl := congrArg String.toList h
    rw [joinUS_toList, joinUS_toList] at hl
    obtain ⟨hc, hr⟩ := first_us_split _ _ _ _ (hp c (List.mem_cons_self ..)) (hp' c' (List.mem_cons_self ..))
      (tail_shape cs) (tail_shape cs') hl
    have hcc : c = c' := String.toList_inj.mp hc
    subst hcc
    cases cs with
    | nil =>
      cases cs' with
      | nil => rfl
      | cons d' ds' => simp at hr
    | cons d ds =>
      cases cs' with
      | nil => simp at hr
      | cons d' ds' =>
        simp only [List.flatMap_cons, List.cons_append, List.cons.injEq, true_and] at hr
        have hj : joinUS (d :: ds) = joinUS (d' :: ds') := by
          apply String.toList_inj.mp
          rw [joinUS_toList, joinUS_toList]; exact hr
        have := joinUS_inj d ds d' ds' (fun x hx => hp x (List.mem_cons_of_mem _ hx))
          (fun x hx => hp' x (List.mem_cons_of_mem _ hx)) hj
        rw [this]
termination_by c cs => cs.length

end Gen
end VV

namespace VV
namespace Gen

/-! ### emitted names as component paths -/

mutual
  def tyPaths (p : List String) : Ty → List (List String)
    | .struct fs => fieldsPaths p fs ++ [p]
    | .enum _ => [p]
    | .arr t => tyPaths p t
    | .opt t => tyPaths p t
    | .map t => match t with
      | .struct [] => []
      | _ => tyPaths p t
    | _ => []
  def fieldsPaths (p : List String) : List (String × Ty) → List (List String)
    | [] => []
    | (f, t) :: rest => tyPaths (p ++ [f]) t ++ fieldsPaths p rest
end

mutual
  theorem tyItems_paths : ∀ (t : Ty) (p : List String), p ≠ [] →
      (tyItems (joinUS p) t).map (·.2) = (tyPaths p t).map joinUS
    | .struct fs, p, hp => by
      simp [tyItems, tyPaths, fieldsItems_paths fs p hp]
    | .enum _, p, _ => by simp [tyItems, tyPaths]
    | .arr t, p, hp => by simp only [tyItems, tyPaths]; exact tyItems_paths t p hp
    | .opt t, p, hp => by simp only [tyItems, tyPaths]; exact tyItems_paths t p hp
    | .map t, p, hp => by
      have ih := tyItems_paths t p hp
      simp only [tyItems, tyPaths]
      split <;> split <;> simp_all
    | .bool, _, _ => rfl
    | .int, _, _ => rfl
    | .float, _, _ => rfl
    | .string, _, _ => rfl
    | .object, _, _ => rfl
    | .ref _, _, _ => rfl
  theorem fieldsItems_paths : ∀ (fs : List (String × Ty)) (p : List String), p ≠ [] →
      (fieldsItems (joinUS p) fs).map (·.2) = (fieldsPaths p fs).map joinUS
    | [], _, _ => rfl
    | (f, t) :: rest, p, hp => by
      have h1 := tyItems_paths t (p ++ [f]) (by simp)
      rw [joinUS_snoc p hp f] at h1
      simp [fieldsItems, fieldsPaths, h1, fieldsItems_paths rest p hp]
end

mutual
  /-- every path below `p` extends `p` -/
  theorem tyPaths_prefix : ∀ (t : Ty) (p : List String), ∀ q ∈ tyPaths p t, p <+: q
    | .struct fs, p, q, h => by
      simp only [tyPaths, List.mem_append, List.mem_singleton] at h
      rcases h with h | h
      · obtain ⟨f, _, hf⟩ := fieldsPaths_prefix fs p q h
        exact (List.prefix_append p [f]).trans hf
      · rw [h]; exact List.prefix_refl p
    | .enum _, p, q, h => by
      simp only [tyPaths, List.mem_singleton] at h; rw [h]; exact List.prefix_refl p
    | .arr t, p, q, h => by simp only [tyPaths] at h; exact tyPaths_prefix t p q h
    | .opt t, p, q, h => by simp only [tyPaths] at h; exact tyPaths_prefix t p q h
    | .map t, p, q, h => by
      simp only [tyPaths] at h
      split at h
      · simp at h
      · exact tyPaths_prefix t p q h
    | .bool, _, _, h => by simp [tyPaths] at h
    | .int, _, _, h => by simp [tyPaths] at h
    | .float, _, _, h => by simp [tyPaths] at h
    | .string, _, _, h => by simp [tyPaths] at h
    | .object, _, _, h => by simp [tyPaths] at h
    | .ref _, _, _, h => by simp [tyPaths] at h
  /-- every path below the fields of `p` extends `p ++ [f]` for one of the fields -/
  theorem fieldsPaths_prefix : ∀ (fs : List (String × Ty)) (p : List String), ∀ q ∈ fieldsPaths p fs,
      ∃ f ∈ fs.map (·.1), (p ++ [f]) <+: q
    | [], _, _, h => by simp [fieldsPaths] at h
    | (f, t) :: rest, p, q, h => by
      simp only [fieldsPaths, List.mem_append] at h
      rcases h with h | h
      · exact ⟨f, by simp, tyPaths_prefix t (p ++ [f]) q h⟩
      · obtain ⟨g, hg, hq⟩ := fieldsPaths_prefix rest p q h
        exact ⟨g, by simp [hg], hq⟩
end

theorem prefix_eq_of_length {α} {a b q : List α} (ha : a <+: q) (hb : b <+: q) (hl : a.length = b.length) : a = b := by
  obtain ⟨ra, hra⟩ := ha
  obtain ⟨rb, hrb⟩ := hb
  have := hra.trans hrb.symm
  exact (List.append_inj this hl).1

mutual
  /-- sibling names distinct ⇒ the paths below a type are pairwise distinct -/
  theorem tyPaths_nodup : ∀ (t : Ty) (p : List String), (∀ l ∈ tySiblings t, l.Nodup) → (tyPaths p t).Nodup
    | .struct fs, p, hs => by
      simp only [tyPaths]
      rw [List.nodup_append]
      refine ⟨fieldsPaths_nodup fs p (hs _ (by simp [tySiblings])) (fun l hl => hs l (by simp [tySiblings, hl])),
        by simp, ?_⟩
      intro q hq r hr e
      simp only [List.mem_singleton] at hr
      obtain ⟨f, _, hf⟩ := fieldsPaths_prefix fs p q hq
      have hlen := hf.length_le
      rw [e, hr] at hlen
      simp at hlen
      omega
    | .enum _, p, _ => by simp [tyPaths]
    | .arr t, p, hs => by
      simp only [tyPaths]; exact tyPaths_nodup t p (fun l hl => hs l (by simpa [tySiblings] using hl))
    | .opt t, p, hs => by
      simp only [tyPaths]; exact tyPaths_nodup t p (fun l hl => hs l (by simpa [tySiblings] using hl))
    | .map t, p, hs => by
      simp only [tyPaths]
      split
      · simp
      · exact tyPaths_nodup t p (fun l hl => hs l (by simpa [tySiblings] using hl))
    | .bool, _, _ => by simp [tyPaths]
    | .int, _, _ => by simp [tyPaths]
    | .float, _, _ => by simp [tyPaths]
    | .string, _, _ => by simp [tyPaths]
    | .object, _, _ => by simp [tyPaths]
    | .ref _, _, _ => by simp [tyPaths]
  theorem fieldsPaths_nodup : ∀ (fs : List (String × Ty)) (p : List String), (fs.map (·.1)).Nodup →
      (∀ l ∈ fieldsSiblings fs, l.Nodup) → (fieldsPaths p fs).Nodup
    | [], _, _, _ => by simp [fieldsPaths]
    | (f, t) :: rest, p, hn, hs => by
      simp only [List.map_cons, List.nodup_cons] at hn
      simp only [fieldsPaths]
      rw [List.nodup_append]
      refine ⟨tyPaths_nodup t (p ++ [f]) (fun l hl => hs l (by simp [fieldsSiblings, hl])),
        fieldsPaths_nodup rest p hn.2 (fun l hl => hs l (by simp [fieldsSiblings, hl])), ?_⟩
      intro q hq r hr e
      have h1 := tyPaths_prefix t (p ++ [f]) q hq
      obtain ⟨g, hg, h2⟩ := fieldsPaths_prefix rest p r hr
      rw [← e] at h2
      have := prefix_eq_of_length h1 h2 (by simp)
      have hfg : f = g := by simpa using this
      exact hn.1 (hfg ▸ hg)
end

end Gen
end VV

namespace VV
namespace Gen

/-! ### the derived names of an interface definition as paths -/

def IDL.modulePaths (i : IDL) : List (List String) :=
  (i.types.flatMap fun (n, d) => tyPaths [n] d) ++
  (i.errors.map fun e => [e.name, "Args"]) ++
  (i.methods.flatMap fun m =>
    (fieldsPaths [m.name, "Args"] m.input ++ fieldsPaths [m.name, "Reply"] m.output) ++
    [[m.name, "Reply"], [m.name, "Args"], ["Call", m.name]])

theorem argsName_join (n : String) : argsName n = joinUS [n, "Args"] := by
  simp only [argsName, joinUS, List.foldl, sub, String.append_assoc]; rfl

theorem replyName_join (n : String) : replyName n = joinUS [n, "Reply"] := by
  simp only [replyName, joinUS, List.foldl, sub, String.append_assoc]; rfl

theorem callName_join (n : String) : callName n = joinUS ["Call", n] := by
  simp only [callName, joinUS, List.foldl, sub]; rfl

theorem moduleNames_paths (i : IDL) : i.moduleNames = i.modulePaths.map joinUS := by
  simp only [IDL.moduleNames, IDL.modulePaths, List.map_append, List.map_flatMap, List.map_map]
  congr 1
  · congr 1
    · congr 1; funext ⟨n, d⟩
      exact tyItems_paths d [n] (by simp)
    · congr 1; funext e; exact argsName_join e.name
  · congr 1; funext m
    have h1 := fieldsItems_paths m.input [m.name, "Args"] (by simp)
    have h2 := fieldsItems_paths m.output [m.name, "Reply"] (by simp)
    simp [h1, h2, argsName_join, replyName_join, callName_join]

end Gen
end VV

namespace VV
namespace Gen

/-! ### distinctness of the paths -/

/-- the member of the interface a path belongs to -/
def rootKey : List String → String
  | a :: b :: _ => if a = "Call" then b else a
  | [a] => a
  | [] => ""

theorem rootKey_of_prefix {n : String} (hn : n ≠ "Call") {q : List String} (h : [n] <+: q) : rootKey q = n := by
  obtain ⟨r, hr⟩ := h
  subst hr
  cases r <;> simp [rootKey, hn]

theorem nodup_flatMap_key {α} (f : α → List (List String)) (g : α → String) : ∀ (l : List α),
    (∀ a ∈ l, (f a).Nodup) → (∀ a ∈ l, ∀ q ∈ f a, rootKey q = g a) → (l.map g).Nodup → (l.flatMap f).Nodup
  | [], _, _, _ => by simp
  | a :: l, h1, h2, h3 => by
    simp only [List.map_cons, List.nodup_cons] at h3
    simp only [List.flatMap_cons]
    rw [List.nodup_append]
    refine ⟨h1 a (List.mem_cons_self ..), nodup_flatMap_key f g l (fun b hb => h1 b (List.mem_cons_of_mem _ hb))
      (fun b hb => h2 b (List.mem_cons_of_mem _ hb)) h3.2, ?_⟩
    intro q hq r hr e
    obtain ⟨b, hb, hrb⟩ := List.mem_flatMap.mp hr
    have k1 := h2 a (List.mem_cons_self ..) q hq
    have k2 := h2 b (List.mem_cons_of_mem _ hb) r hrb
    rw [e] at k1
    exact h3.1 (List.mem_map.mpr ⟨b, hb, by rw [← k2, k1]⟩)

theorem keys_flatMap {α} (f : α → List (List String)) (g : α → String) (l : List α)
    (h2 : ∀ a ∈ l, ∀ q ∈ f a, rootKey q = g a) : ∀ q ∈ l.flatMap f, rootKey q ∈ l.map g := by
  intro q hq
  obtain ⟨a, ha, hqa⟩ := List.mem_flatMap.mp hq
  exact List.mem_map.mpr ⟨a, ha, (h2 a ha q hqa).symm⟩

theorem nodup_append_keys {A B : List (List String)} {KA KB : List String} (hA : A.Nodup) (hB : B.Nodup)
    (kA : ∀ q ∈ A, rootKey q ∈ KA) (kB : ∀ q ∈ B, rootKey q ∈ KB) (hdis : ∀ x ∈ KA, x ∉ KB) : (A ++ B).Nodup := by
  rw [List.nodup_append]
  refine ⟨hA, hB, ?_⟩
  intro q hq r hr e
  exact hdis _ (kA q hq) (e ▸ kB r hr)

/-- the block of one method -/
def methodPaths (m : Method) : List (List String) :=
  (fieldsPaths [m.name, "Args"] m.input ++ fieldsPaths [m.name, "Reply"] m.output) ++
  [[m.name, "Reply"], [m.name, "Args"], ["Call", m.name]]

theorem methodPaths_key (m : Method) (hm : m.name ≠ "Call") : ∀ q ∈ methodPaths m, rootKey q = m.name := by
  intro q hq
  simp only [methodPaths, List.mem_append, List.mem_cons, List.not_mem_nil, or_false] at hq
  rcases hq with (hq | hq) | hq | hq | hq
  · obtain ⟨f, _, hf⟩ := fieldsPaths_prefix _ _ q hq
    exact rootKey_of_prefix hm ((show [m.name] <+: [m.name, "Args"] ++ [f] from ⟨["Args", f], rfl⟩).trans hf)
  · obtain ⟨f, _, hf⟩ := fieldsPaths_prefix _ _ q hq
    exact rootKey_of_prefix hm ((show [m.name] <+: [m.name, "Reply"] ++ [f] from ⟨["Reply", f], rfl⟩).trans hf)
  · rw [hq]; simp [rootKey, hm]
  · rw [hq]; simp [rootKey, hm]
  · rw [hq]; simp [rootKey]

theorem methodPaths_nodup (m : Method) (hm : m.name ≠ "Call")
    (hin : ∀ l ∈ tySiblings (.struct m.input), l.Nodup) (hout : ∀ l ∈ tySiblings (.struct m.output), l.Nodup) :
    (methodPaths m).Nodup := by
  have n1 := fieldsPaths_nodup m.input [m.name, "Args"] (hin _ (by simp [tySiblings]))
    (fun l hl => hin l (by simp [tySiblings, hl]))
  have n2 := fieldsPaths_nodup m.output [m.name, "Reply"] (hout _ (by simp [tySiblings]))
    (fun l hl => hout l (by simp [tySiblings, hl]))
  have len3 : ∀ (root : List String) (fs : List (String × Ty)), root.length = 2 → ∀ q ∈ fieldsPaths root fs, 3 ≤ q.length := by
    intro root fs hr q hq
    obtain ⟨f, _, hf⟩ := fieldsPaths_prefix fs root q hq
    have := hf.length_le
    simp [hr] at this
    exact this
  simp only [methodPaths]
  rw [List.nodup_append, List.nodup_append]
  refine ⟨⟨n1, n2, ?_⟩, ?_, ?_⟩
  · intro q hq r hr e
    obtain ⟨f, _, hf⟩ := fieldsPaths_prefix _ _ q hq
    obtain ⟨g, _, hg⟩ := fieldsPaths_prefix _ _ r hr
    rw [← e] at hg
    have := prefix_eq_of_length hf hg (by simp)
    simp at this
  · have hne : m.name ≠ "Call" := hm
    simp [hne, Ne.symm hne]
  · intro q hq r hr e
    have hl : 3 ≤ q.length := by
      rcases List.mem_append.mp hq with h | h
      · exact len3 _ _ rfl q h
      · exact len3 _ _ rfl q h
    simp only [List.mem_cons, List.not_mem_nil, or_false] at hr
    rcases hr with hr | hr | hr <;> (rw [e, hr] at hl; simp at hl)

/-- names distinct, siblings distinct, nobody named `Call` ⇒ the paths are pairwise distinct -/
theorem modulePaths_nodup (i : IDL) (hsib : siblingDistinctB i = true) (hcall : "Call" ∉ i.memberNames) :
    i.modulePaths.Nodup := by
  simp only [siblingDistinctB, Bool.and_eq_true, Bool.not_eq_true', List.all_eq_true] at hsib
  obtain ⟨hmem, hall⟩ := hsib
  have hmn : i.memberNames.Nodup := (hasDup_false_iff _).mp hmem
  have hsibs : ∀ l ∈ i.allSiblings, l.Nodup := fun l hl => (hasDup_false_iff l).mp (by simpa using hall l hl)
  simp only [IDL.memberNames] at hmn hcall
  have hT : (i.types.map (·.1)).Nodup := (List.nodup_append.mp (List.nodup_append.mp hmn).1).1
  have hM : (i.methods.map (·.name)).Nodup := (List.nodup_append.mp (List.nodup_append.mp hmn).1).2.1
  have hE : (i.errors.map (·.name)).Nodup := (List.nodup_append.mp hmn).2.1
  have hTM : ∀ x ∈ i.types.map (·.1), x ∉ i.methods.map (·.name) :=
    fun x hx hy => (List.nodup_append.mp (List.nodup_append.mp hmn).1).2.2 x hx x hy rfl
  have hTME : ∀ x ∈ i.types.map (·.1) ++ i.methods.map (·.name), x ∉ i.errors.map (·.name) :=
    fun x hx hy => (List.nodup_append.mp hmn).2.2 x hx x hy rfl
  have hcT : ∀ p ∈ i.types, p.1 ≠ "Call" := fun p hp e => hcall (by
    simp only [List.mem_append]; exact Or.inl (Or.inl (List.mem_map.mpr ⟨p, hp, e⟩)))
  have hcM : ∀ m ∈ i.methods, m.name ≠ "Call" := fun m hm e => hcall (by
    simp only [List.mem_append]; exact Or.inl (Or.inr (List.mem_map.mpr ⟨m, hm, e⟩)))
  have hcE : ∀ e ∈ i.errors, e.name ≠ "Call" := fun e he eq => hcall (by
    simp only [List.mem_append]; exact Or.inr (List.mem_map.mpr ⟨e, he, eq⟩))
  -- group 1: typedefs
  have k1 : ∀ p ∈ i.types, ∀ q ∈ tyPaths [p.1] p.2, rootKey q = p.1 :=
    fun p hp q hq => rootKey_of_prefix (hcT p hp) (tyPaths_prefix p.2 [p.1] q hq)
  have g1 : (i.types.flatMap fun p => tyPaths [p.1] p.2).Nodup :=
    nodup_flatMap_key _ (·.1) i.types
      (fun p hp => tyPaths_nodup p.2 [p.1] (fun l hl => hsibs l (by
        simp only [IDL.allSiblings, List.mem_append, List.mem_flatMap]; exact Or.inl ⟨p, hp, hl⟩)))
      k1 hT
  -- group 2: errors
  have k2 : ∀ e ∈ i.errors, ∀ q ∈ [[e.name, "Args"]], rootKey q = e.name := by
    intro e he q hq
    simp only [List.mem_singleton] at hq
    rw [hq]; simp [rootKey, hcE e he]
  have g2 : (i.errors.flatMap fun e => [[e.name, "Args"]]).Nodup :=
    nodup_flatMap_key _ (·.name) i.errors (fun _ _ => by simp) k2 hE
  -- group 3: methods
  have k3 : ∀ m ∈ i.methods, ∀ q ∈ methodPaths m, rootKey q = m.name := fun m hm => methodPaths_key m (hcM m hm)
  have g3 : (i.methods.flatMap methodPaths).Nodup :=
    nodup_flatMap_key _ (·.name) i.methods
      (fun m hm => methodPaths_nodup m (hcM m hm)
        (fun l hl => hsibs l (by
          simp only [IDL.allSiblings, IDL.allStructs, List.mem_append, List.mem_flatMap, List.mem_map]
          exact Or.inr ⟨m.input, Or.inr ⟨m, hm, by simp⟩, hl⟩))
        (fun l hl => hsibs l (by
          simp only [IDL.allSiblings, IDL.allStructs, List.mem_append, List.mem_flatMap, List.mem_map]
          exact Or.inr ⟨m.output, Or.inr ⟨m, hm, by simp⟩, hl⟩)))
      k3 hM
  have e2 : (i.errors.map fun e => [e.name, "Args"]) = i.errors.flatMap fun e => [[e.name, "Args"]] := by
    induction i.errors with
    | nil => rfl
    | cons e es ih => simp [ih]
  have e1 : (i.types.flatMap fun (n, d) => tyPaths [n] d) = i.types.flatMap fun p => tyPaths [p.1] p.2 := rfl
  simp only [IDL.modulePaths, e1, e2]
  have e3 : (i.methods.flatMap fun m =>
      (fieldsPaths [m.name, "Args"] m.input ++ fieldsPaths [m.name, "Reply"] m.output) ++
      [[m.name, "Reply"], [m.name, "Args"], ["Call", m.name]]) = i.methods.flatMap methodPaths := rfl
  rw [e3]
  have kk1 := keys_flatMap _ (·.1) i.types k1
  have kk2 := keys_flatMap _ (·.name) i.errors k2
  have kk3 := keys_flatMap _ (·.name) i.methods k3
  have g12 := nodup_append_keys g1 g2 kk1 kk2 (fun x hx => hTME x (List.mem_append_left _ hx))
  refine nodup_append_keys (KA := i.types.map (·.1) ++ i.errors.map (·.name)) (KB := i.methods.map (·.name)) g12 g3 ?_ kk3 ?_
  · intro q hq
    rcases List.mem_append.mp hq with h | h
    · exact List.mem_append_left _ (kk1 q h)
    · exact List.mem_append_right _ (kk2 q h)
  · intro x hx
    rcases List.mem_append.mp hx with h | h
    · exact hTM x h
    · intro hm; exact hTME x (List.mem_append_right _ hm) h

end Gen
end VV

namespace VV
namespace Gen

/-! ### components are `_`-free -/

theorem nameOk_plain {s : String} (h : nameOk s = true) : plain s := by
  unfold nameOk at h
  unfold plain
  cases hs : s.toList with
  | nil => simp
  | cons c cs =>
    rw [hs] at h
    simp only [Bool.and_eq_true, List.all_eq_true] at h
    intro hm
    rcases List.mem_cons.mp hm with hm | hm
    · rw [← hm] at h; exact absurd h.1 (by decide)
    · exact absurd (h.2 '_' hm) (by decide)

mutual
  theorem tyPaths_components : ∀ (t : Ty) (p : List String), ∀ q ∈ tyPaths p t, ∀ x ∈ q,
      x ∈ p ∨ ∃ l ∈ tySiblings t, x ∈ l
    | .struct fs, p, q, h, x, hx => by
      simp only [tyPaths, List.mem_append, List.mem_singleton] at h
      rcases h with h | h
      · rcases fieldsPaths_components fs p q h x hx with h' | h' | ⟨l, hl, hxl⟩
        · exact Or.inl h'
        · exact Or.inr ⟨fs.map (·.1), by simp [tySiblings], h'⟩
        · exact Or.inr ⟨l, by simp [tySiblings, hl], hxl⟩
      · rw [h] at hx; exact Or.inl hx
    | .enum _, p, q, h, x, hx => by
      simp only [tyPaths, List.mem_singleton] at h; rw [h] at hx; exact Or.inl hx
    | .arr t, p, q, h, x, hx => by
      simp only [tyPaths] at h
      rcases tyPaths_components t p q h x hx with h' | ⟨l, hl, hxl⟩
      · exact Or.inl h'
      · exact Or.inr ⟨l, by simpa [tySiblings] using hl, hxl⟩
    | .opt t, p, q, h, x, hx => by
      simp only [tyPaths] at h
      rcases tyPaths_components t p q h x hx with h' | ⟨l, hl, hxl⟩
      · exact Or.inl h'
      · exact Or.inr ⟨l, by simpa [tySiblings] using hl, hxl⟩
    | .map t, p, q, h, x, hx => by
      simp only [tyPaths] at h
      split at h
      · simp at h
      · rcases tyPaths_components t p q h x hx with h' | ⟨l, hl, hxl⟩
        · exact Or.inl h'
        · exact Or.inr ⟨l, by simpa [tySiblings] using hl, hxl⟩
    | .bool, _, _, h, _, _ => by simp [tyPaths] at h
    | .int, _, _, h, _, _ => by simp [tyPaths] at h
    | .float, _, _, h, _, _ => by simp [tyPaths] at h
    | .string, _, _, h, _, _ => by simp [tyPaths] at h
    | .object, _, _, h, _, _ => by simp [tyPaths] at h
    | .ref _, _, _, h, _, _ => by simp [tyPaths] at h
  theorem fieldsPaths_components : ∀ (fs : List (String × Ty)) (p : List String), ∀ q ∈ fieldsPaths p fs, ∀ x ∈ q,
      x ∈ p ∨ x ∈ fs.map (·.1) ∨ ∃ l ∈ fieldsSiblings fs, x ∈ l
    | [], _, _, h, _, _ => by simp [fieldsPaths] at h
    | (f, t) :: rest, p, q, h, x, hx => by
      simp only [fieldsPaths, List.mem_append] at h
      rcases h with h | h
      · rcases tyPaths_components t (p ++ [f]) q h x hx with h' | ⟨l, hl, hxl⟩
        · rcases List.mem_append.mp h' with h'' | h''
          · exact Or.inl h''
          · simp only [List.mem_singleton] at h''; exact Or.inr (Or.inl (by simp [h'']))
        · exact Or.inr (Or.inr ⟨l, by simp [fieldsSiblings, hl], hxl⟩)
      · rcases fieldsPaths_components rest p q h x hx with h' | h' | ⟨l, hl, hxl⟩
        · exact Or.inl h'
        · exact Or.inr (Or.inl (by simp at h' ⊢; exact Or.inr h'))
        · exact Or.inr (Or.inr ⟨l, by simp [fieldsSiblings, hl], hxl⟩)
end

theorem nodup_map_inj_on {α β} (f : α → β) : ∀ (l : List α),
    (∀ a ∈ l, ∀ b ∈ l, f a = f b → a = b) → l.Nodup → (l.map f).Nodup
  | [], _, _ => by simp
  | a :: l, hinj, hn => by
    simp only [List.nodup_cons] at hn
    simp only [List.map_cons, List.nodup_cons, List.mem_map, not_exists, not_and]
    refine ⟨fun b hb e => ?_, nodup_map_inj_on f l (fun x hx y hy => hinj x (List.mem_cons_of_mem _ hx) y (List.mem_cons_of_mem _ hy)) hn.2⟩
    have := hinj b (List.mem_cons_of_mem _ hb) a (List.mem_cons_self ..) e
    exact hn.1 (this ▸ hb)

theorem plain_lit : plain "Args" ∧ plain "Reply" ∧ plain "Call" := by
  unfold plain; decide

/-- every component of every derived path is `_`-free, every path is non-empty -/
theorem modulePaths_plain (i : IDL) (hwf : wfNamesB i = true) (hplain : ∀ f ∈ i.fieldNames, plain f) :
    ∀ q ∈ i.modulePaths, q ≠ [] ∧ ∀ x ∈ q, plain x := by
  simp only [wfNamesB, Bool.and_eq_true, List.all_eq_true] at hwf
  have hmem : ∀ n ∈ i.memberNames, plain n := fun n hn => nameOk_plain (hwf.1 n hn)
  have hT : ∀ p ∈ i.types, plain p.1 := fun p hp => hmem _ (by
    simp only [IDL.memberNames, List.mem_append]; exact Or.inl (Or.inl (List.mem_map.mpr ⟨p, hp, rfl⟩)))
  have hM : ∀ m ∈ i.methods, plain m.name := fun m hm => hmem _ (by
    simp only [IDL.memberNames, List.mem_append]; exact Or.inl (Or.inr (List.mem_map.mpr ⟨m, hm, rfl⟩)))
  have hE : ∀ e ∈ i.errors, plain e.name := fun e he => hmem _ (by
    simp only [IDL.memberNames, List.mem_append]; exact Or.inr (List.mem_map.mpr ⟨e, he, rfl⟩))
  have hsibT : ∀ p ∈ i.types, ∀ l ∈ tySiblings p.2, ∀ x ∈ l, plain x := fun p hp l hl x hx =>
    hplain x (mem_fieldNames (sib_of_type (n := p.1) (d := p.2) hp l hl) hx)
  have hsibS : ∀ fs ∈ i.allStructs, ∀ x, (x ∈ fs.map (·.1) ∨ ∃ l ∈ fieldsSiblings fs, x ∈ l) → plain x := by
    intro fs hfs x hx
    rcases hx with hx | ⟨l, hl, hx⟩
    · exact hplain x (mem_fieldNames (sib_of_struct hfs (fs.map (·.1)) (by simp [tySiblings])) hx)
    · exact hplain x (mem_fieldNames (sib_of_struct hfs l (by simp [tySiblings, hl])) hx)
  intro q hq
  simp only [IDL.modulePaths, List.mem_append, List.mem_flatMap, List.mem_map, List.mem_cons, List.not_mem_nil,
    or_false] at hq
  rcases hq with (⟨p, hp, hq⟩ | ⟨e, he, hq⟩) | ⟨m, hm, hq⟩
  · have hpre := tyPaths_prefix p.2 [p.1] q hq
    refine ⟨fun e => by rw [e] at hpre; simp at hpre, fun x hx => ?_⟩
    rcases tyPaths_components p.2 [p.1] q hq x hx with h' | ⟨l, hl, hxl⟩
    · simp only [List.mem_singleton] at h'; rw [h']; exact hT p hp
    · exact hsibT p hp l hl x hxl
  · rw [← hq]
    refine ⟨by simp, fun x hx => ?_⟩
    simp only [List.mem_cons, List.not_mem_nil, or_false] at hx
    rcases hx with hx | hx
    · rw [hx]; exact hE e he
    · rw [hx]; exact plain_lit.1
  · rcases hq with (hq | hq) | hq | hq | hq
    · obtain ⟨f, _, hf⟩ := fieldsPaths_prefix _ _ q hq
      refine ⟨fun e => by rw [e] at hf; simp at hf, fun x hx => ?_⟩
      rcases fieldsPaths_components _ _ q hq x hx with h' | h'
      · simp only [List.mem_cons, List.not_mem_nil, or_false] at h'
        rcases h' with h' | h'
        · rw [h']; exact hM m hm
        · rw [h']; exact plain_lit.1
      · exact hsibS m.input (struct_of_input hm) x h'
    · obtain ⟨f, _, hf⟩ := fieldsPaths_prefix _ _ q hq
      refine ⟨fun e => by rw [e] at hf; simp at hf, fun x hx => ?_⟩
      rcases fieldsPaths_components _ _ q hq x hx with h' | h'
      · simp only [List.mem_cons, List.not_mem_nil, or_false] at h'
        rcases h' with h' | h'
        · rw [h']; exact hM m hm
        · rw [h']; exact plain_lit.2.1
      · exact hsibS m.output (struct_of_output hm) x h'
    · rw [hq]; refine ⟨by simp, fun x hx => ?_⟩
      simp only [List.mem_cons, List.not_mem_nil, or_false] at hx
      rcases hx with hx | hx
      · rw [hx]; exact hM m hm
      · rw [hx]; exact plain_lit.2.1
    · rw [hq]; refine ⟨by simp, fun x hx => ?_⟩
      simp only [List.mem_cons, List.not_mem_nil, or_false] at hx
      rcases hx with hx | hx
      · rw [hx]; exact hM m hm
      · rw [hx]; exact plain_lit.1
    · rw [hq]; refine ⟨by simp, fun x hx => ?_⟩
      simp only [List.mem_cons, List.not_mem_nil, or_false] at hx
      rcases hx with hx | hx
      · rw [hx]; exact plain_lit.2.2
      · rw [hx]; exact hM m hm

/-- **What S6 consists of.**  With grammar-admitted member names, distinct sibling names, no member
    named `Call` and no field or variant name containing `_`, the derived names are pairwise distinct. -/
theorem safePaths_of_plain_names (i : IDL) (hwf : wfNamesB i = true) (hsib : siblingDistinctB i = true)
    (hcall : "Call" ∉ i.memberNames) (hplain : ∀ f ∈ i.fieldNames, plain f) : safePaths i = true := by
  simp only [safePaths, Bool.not_eq_true']
  rw [hasDup_false_iff, moduleNames_paths]
  have hpl := modulePaths_plain i hwf hplain
  refine nodup_map_inj_on joinUS _ ?_ (modulePaths_nodup i hsib hcall)
  intro a ha b hb e
  obtain ⟨hna, hpa⟩ := hpl a ha
  obtain ⟨hnb, hpb⟩ := hpl b hb
  cases a with
  | nil => exact absurd rfl hna
  | cons c cs =>
    cases b with
    | nil => exact absurd rfl hnb
    | cons c' cs' => exact joinUS_inj c cs c' cs' hpa hpb e

end Gen
end VV
