/-
Lemmas.IdlLayoutFile — what `IDL::get_multiline(0, max)` prints for a well-formed definition
is, for every width, a text the declarative grammar derives for the regrouped definition
(typedefs, then methods, then errors).
-/
import VarlinkVerif.Lemmas.IdlLayoutTypes
import VarlinkVerif.Lemmas.IdlLayoutDoc
import VarlinkVerif.Lemmas.IdlFmtSeg

namespace VV.Idl
open Gram Fmt

def WFBody : Body → Prop
  | .typeStruct f => WFFields f
  | .typeEnum es => es ≠ [] ∧ ∀ e ∈ es, Spec.isFieldName e = true
  | .method i o => WFFields i ∧ WFFields o
  | .error f => WFFields f

def WFMember (m : Member) : Prop := Spec.isTypeName m.name = true ∧ IsDoc m.doc ∧ WFBody m.body

theorem docLines_zero (doc : Str) : docLines 0 doc = if doc.isEmpty then [] else doc ++ ['\n'] := by
  simp only [docLines, pad_zero, List.nil_append]
  split
  · rfl
  · have : (splitNl doc).map (fun s => s) = splitNl doc := by simp
    rw [this, joinNl_splitNl]

/-- the documentation block in front of a member: trivia that trims to the documentation -/
theorem memberDoc_layout {doc : Str} (h : IsDoc doc) :
    Trivia ('\n' :: docLines 0 doc) ∧ doc = Spec.trim ('\n' :: docLines 0 doc) := by
  rw [docLines_zero]
  split
  · rename_i he
    have : doc = [] := by simpa using he
    subst this
    exact ⟨Trivia.newline (by decide) Trivia.nil, by decide⟩
  · rename_i he
    have hne : doc ≠ [] := by simpa using he
    obtain ⟨_, h2, _, h4⟩ := doc_lemma h hne
    exact ⟨by simpa using h2, by simpa using h4.symm⟩

/-- the documentation block of the interface -/
theorem ifaceDoc_layout {doc : Str} (h : IsDoc doc) :
    Trivia (docLines 0 doc) ∧ doc = Spec.trim (docLines 0 doc) := by
  rw [docLines_zero]
  split
  · rename_i he
    have : doc = [] := by simpa using he
    subst this
    exact ⟨Trivia.nil, by decide⟩
  · rename_i he
    have hne : doc ≠ [] := by simpa using he
    obtain ⟨h1, _, h3, _⟩ := doc_lemma h hne
    exact ⟨h1, h3.symm⟩

/-! ### one member -/

/-- the body text the formatter chose for a typedef / error -/
def eltText (b : Body) (max : Nat) (fits : Bool) : Str := if fits then eltOneline b else eltMultiline b 0 max

theorem typedef_layout (t : Member) (h : WFMember t) (hk : t.kind = .typedef) (max : Nat) :
    ∃ mw, typedefMultiline t 0 max = mw ++ ['\n'] ∧ MemberText t mw := by
  obtain ⟨hname, hdoc, hbody⟩ := h
  obtain ⟨hd1, hd2⟩ := memberDoc_layout hdoc
  -- the two possible body texts are both derivable
  have key : ∀ b : Str, (match t.body with
      | .typeStruct f => StructText f b
      | .typeEnum es => EnumText es b
      | _ => False) →
      MemberText t ('\n' :: docLines 0 t.doc ++ ['t', 'y', 'p', 'e'] ++ [' '] ++ t.name ++ [' '] ++ b) := by
    intro b hb
    refine ⟨'\n' :: docLines 0 t.doc, [' '], [' '], hd1, hd2, trivia_space, by simp, trivia_space, hname, ?_⟩
    cases hbd : t.body with
    | typeStruct f => rw [hbd] at hb; exact ⟨b, rfl, hb⟩
    | typeEnum es => rw [hbd] at hb; exact ⟨b, rfl, hb⟩
    | method i o => rw [hbd] at hb; exact absurd hb id
    | error f => rw [hbd] at hb; exact absurd hb id
  have hone : (match t.body with
      | .typeStruct f => StructText f (eltOneline t.body)
      | .typeEnum es => EnumText es (eltOneline t.body)
      | _ => False) := by
    cases hbd : t.body with
    | typeStruct f => rw [hbd] at hbody; exact structText_oneline hbody
    | typeEnum es => rw [hbd] at hbody; exact enumText_oneline hbody.1 hbody.2
    | method i o => simp [Member.kind, hbd] at hk
    | error f => simp [Member.kind, hbd] at hk
  have hmulti : (match t.body with
      | .typeStruct f => StructText f (eltMultiline t.body 0 max)
      | .typeEnum es => EnumText es (eltMultiline t.body 0 max)
      | _ => False) := by
    cases hbd : t.body with
    | typeStruct f => rw [hbd] at hbody; exact structText_multiline hbody 0 max
    | typeEnum es => rw [hbd] at hbody; exact enumText_multiline hbody.1 hbody.2 0
    | method i o => simp [Member.kind, hbd] at hk
    | error f => simp [Member.kind, hbd] at hk
  simp only [typedefMultiline, docPlain_zero]
  split
  · exact ⟨_, by simp [pad_zero], key _ hone⟩
  · exact ⟨_, by simp [pad_zero], key _ hmulti⟩

theorem error_layout (t : Member) (h : WFMember t) (hk : t.kind = .error) (max : Nat) :
    ∃ mw, errorMultiline t 0 max = mw ++ ['\n'] ∧ MemberText t mw := by
  obtain ⟨hname, hdoc, hbody⟩ := h
  obtain ⟨hd1, hd2⟩ := memberDoc_layout hdoc
  cases hbd : t.body with
  | typeStruct f => simp [Member.kind, hbd] at hk
  | typeEnum es => simp [Member.kind, hbd] at hk
  | method i o => simp [Member.kind, hbd] at hk
  | error f =>
    rw [hbd] at hbody
    have key : ∀ b : Str, StructText f b →
        MemberText t ('\n' :: docLines 0 t.doc ++ ['e', 'r', 'r', 'o', 'r'] ++ [' '] ++ t.name ++ [' '] ++ b) := by
      intro b hb
      refine ⟨'\n' :: docLines 0 t.doc, [' '], [' '], hd1, hd2, trivia_space, by simp, trivia_space, hname, ?_⟩
      rw [hbd]
      exact ⟨b, rfl, hb⟩
    simp only [errorMultiline, hbd, eltOneline, eltMultiline, bodyStruct]
    split
    · exact ⟨_, by simp [pad_zero], key _ (structText_oneline hbody)⟩
    · exact ⟨_, by simp [pad_zero], key _ (structText_multiline hbody 0 max)⟩

theorem method_layout (m : Member) (h : WFMember m) (hk : m.kind = .method) (max : Nat) :
    ∃ mw, methodMultiline m 0 max = mw ++ ['\n'] ∧ MemberText m mw := by
  obtain ⟨hname, hdoc, hbody⟩ := h
  obtain ⟨hd1, hd2⟩ := memberDoc_layout hdoc
  cases hbd : m.body with
  | typeStruct f => simp [Member.kind, hbd] at hk
  | typeEnum es => simp [Member.kind, hbd] at hk
  | error f => simp [Member.kind, hbd] at hk
  | method i o =>
    rw [hbd] at hbody
    have key : ∀ b1 b2 : Str, StructText i b1 → StructText o b2 →
        MemberText m ('\n' :: docLines 0 m.doc ++ ['m', 'e', 't', 'h', 'o', 'd'] ++ [' '] ++ m.name ++ [] ++ b1 ++ [' '] ++
          ['-', '>'] ++ [' '] ++ b2) := by
      intro b1 b2 h1 h2
      refine ⟨'\n' :: docLines 0 m.doc, [' '], [], hd1, hd2, trivia_space, by simp, Trivia.nil, hname, ?_⟩
      rw [hbd]
      exact ⟨b1, [' '], [' '], b2, rfl, h1, trivia_space, trivia_space, h2⟩
    simp only [methodMultiline, hbd, methodIO]
    split
    · exact ⟨_, by simp [pad_zero], key _ _ (structText_oneline hbody.1) (structText_oneline hbody.2)⟩
    · split
      · exact ⟨_, by simp [pad_zero], key _ _ (structText_oneline hbody.1) (structText_multiline hbody.2 0 max)⟩
      · split
        · exact ⟨_, by simp [pad_zero], key _ _ (structText_multiline hbody.1 0 max) (structText_oneline hbody.2)⟩
        · exact ⟨_, by simp [pad_zero], key _ _ (structText_multiline hbody.1 0 max) (structText_multiline hbody.2 0 max)⟩

/-! ### member lists -/

/-- the block `IDL::get_multiline` prints for a member of the given kind -/
def blockOf (m : Member) (max : Nat) : Str :=
  match m.kind with
  | .typedef => typedefMultiline m 0 max
  | .method => methodMultiline m 0 max
  | .error => errorMultiline m 0 max

theorem block_layout (m : Member) (h : WFMember m) (max : Nat) :
    ∃ mw, blockOf m max = mw ++ ['\n'] ∧ MemberText m mw := by
  cases hk : m.kind with
  | typedef => simp only [blockOf, hk]; exact typedef_layout m h hk max
  | method => simp only [blockOf, hk]; exact method_layout m h hk max
  | error => simp only [blockOf, hk]; exact error_layout m h hk max

theorem isEol_nl (rest : Str) : IsEol ['\n'] rest :=
  Or.inl ⟨[], ['\n'], rfl, by simp, Or.inl rfl⟩

/-- `"\n" block₁ block₂ …` (each block ending in its own newline) is `(eol member)+ "\n"` -/
theorem membersText_blocks (max : Nat) : ∀ (ms : List Member), ms ≠ [] → (∀ m ∈ ms, WFMember m) →
    ∃ w, '\n' :: (ms.map fun m => blockOf m max).flatten = w ++ ['\n'] ∧ MembersText ms w
  | [], h, _ => absurd rfl h
  | [m], _, h => by
    obtain ⟨mw, h1, h2⟩ := block_layout m (h m (by simp)) max
    refine ⟨'\n' :: mw, by simp [h1], ?_⟩
    simp only [MembersText]
    exact ⟨['\n'], mw, rfl, isEol_nl _, h2⟩
  | m :: m' :: r, _, h => by
    obtain ⟨mw, h1, h2⟩ := block_layout m (h m (by simp)) max
    obtain ⟨w', h3, h4⟩ := membersText_blocks max (m' :: r) (by simp) (fun x hx => h x (by simp [hx]))
    refine ⟨'\n' :: mw ++ w', ?_, ?_⟩
    · simp only [List.map_cons, List.flatten_cons] at h3 ⊢
      rw [h1]
      have : '\n' :: (mw ++ ['\n'] ++ (blockOf m' max ++ (List.map (fun m => blockOf m max) r).flatten)) =
          '\n' :: mw ++ ('\n' :: (blockOf m' max ++ (List.map (fun m => blockOf m max) r).flatten)) := by simp
      rw [this, h3]; simp
    · simp only [MembersText]
      exact ⟨['\n'], mw, w', by simp, isEol_nl _, h2, h4⟩

end VV.Idl
