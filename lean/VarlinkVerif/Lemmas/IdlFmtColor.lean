/-
Lemmas.IdlFmtColor — the colored rendering is the plain rendering plus SGR escape
sequences: segment by segment both texts drive the SGR scanner from its ground state back
to its ground state with the same emitted text.
-/
import VarlinkVerif.Model.IdlFormat

namespace VV.Idl.Fmt
open VV.Idl

/-- the scan as (emitted text, held candidate) -/
def feed : Str → Str → Str × Str
  | held, [] => ([], held)
  | held, c :: r => ((sgrStep held c).1 ++ (feed (sgrStep held c).2 r).1, (feed (sgrStep held c).2 r).2)

theorem stripAux_feed : ∀ (s h : Str), stripAux h s = (feed h s).1 ++ (feed h s).2
  | [], h => by simp [stripAux, feed]
  | c :: r, h => by simp [stripAux, feed, stripAux_feed r]

theorem feed_append : ∀ (a h b : Str),
    feed h (a ++ b) = ((feed h a).1 ++ (feed (feed h a).2 b).1, (feed (feed h a).2 b).2)
  | [], h, b => by simp [feed]
  | c :: a, h, b => by simp [feed, feed_append a]

def NoEsc (p : Str) : Prop := ∀ c ∈ p, c ≠ ESC

instance (p : Str) : Decidable (NoEsc p) := by unfold NoEsc; infer_instance

theorem feed_noEsc : ∀ (p : Str), NoEsc p → feed [] p = (p, [])
  | [], _ => rfl
  | c :: p, h => by
    have hc : c ≠ ESC := h c (by simp)
    have := feed_noEsc p (fun x hx => h x (by simp [hx]))
    simp [feed, sgrStep, hc, this]

/-- both texts take the scanner from ground to ground with the same output -/
def Seg (a b : Str) : Prop := ∃ o, feed [] a = (o, []) ∧ feed [] b = (o, [])

theorem Seg.append {a b c d : Str} (h1 : Seg a b) (h2 : Seg c d) : Seg (a ++ c) (b ++ d) := by
  obtain ⟨o1, ha, hb⟩ := h1
  obtain ⟨o2, hc, hd⟩ := h2
  exact ⟨o1 ++ o2, by simp [feed_append, ha, hc], by simp [feed_append, hb, hd]⟩

theorem Seg.of_noEsc {p : Str} (h : NoEsc p) : Seg p p := ⟨p, feed_noEsc p h, feed_noEsc p h⟩

theorem Seg.nil : Seg [] [] := ⟨[], rfl, rfl⟩

theorem Seg.cons {a b : Str} (c : Char) (hc : c ≠ ESC) (h : Seg a b) : Seg (c :: a) (c :: b) := by
  have : Seg ([c] ++ a) ([c] ++ b) := Seg.append (Seg.of_noEsc (by intro x hx; simp at hx; rw [hx]; exact hc)) h
  simpa using this

theorem Seg.strip {a b : Str} (h : Seg a b) : stripSGR a = stripSGR b := by
  obtain ⟨o, ha, hb⟩ := h
  simp [stripSGR, stripAux_feed, ha, hb]

theorem Seg.flatten_map {α} (f g : α → Str) : ∀ (l : List α), (∀ x ∈ l, Seg (f x) (g x)) →
    Seg (l.map f).flatten (l.map g).flatten
  | [], _ => Seg.nil
  | x :: l, h => by
    simp only [List.map_cons, List.flatten_cons]
    exact Seg.append (h x (by simp)) (Seg.flatten_map f g l (fun y hy => h y (by simp [hy])))

/-! ### SGR sequences -/

theorem isParam_ne_m {c : Char} (h : isParam c = true) : c ≠ 'm' := by
  intro e; subst e; revert h; decide

theorem isParam_ne_esc {c : Char} (h : isParam c = true) : c ≠ ESC := by
  intro e; subst e; revert h; decide

/-- inside a candidate sequence, parameters followed by 'm' complete it -/
theorem feed_params (code : Str) (hc : ∀ c ∈ code, isParam c = true) : ∀ (e f : Char) (acc : Str),
    feed (e :: f :: acc) (code ++ ['m']) = ([], []) := by
  induction code with
  | nil => intro e f acc; simp [feed, sgrStep]
  | cons c code ih =>
    intro e f acc
    have h1 := hc c (by simp)
    have h2 := isParam_ne_m h1
    have := ih (fun x hx => hc x (by simp [hx])) e f (acc ++ [c])
    simp only [List.cons_append, feed, sgrStep, h2, if_false, h1, if_true, List.nil_append]
    rw [this]

theorem feed_cons (h : Str) (c : Char) (r : Str) :
    feed h (c :: r) = ((sgrStep h c).1 ++ (feed (sgrStep h c).2 r).1, (feed (sgrStep h c).2 r).2) := rfl

theorem sgrStep_esc (h : Str) : sgrStep h ESC = (h, [ESC]) := by
  have e1 : ESC ≠ '[' := by decide
  have e2 : ESC ≠ 'm' := by decide
  have e3 : isParam ESC = false := by decide
  match h with
  | [] => simp [sgrStep]
  | [e] => simp [sgrStep, e1]
  | e :: f :: hs => simp [sgrStep, e2, e3]

theorem sgrStep_esc_bracket : sgrStep [ESC] '[' = ([], [ESC, '[']) := by simp [sgrStep]

/-- a complete SGR sequence flushes whatever was held and leaves the scanner in the ground state -/
theorem feed_style (code : Str) (hc : ∀ c ∈ code, isParam c = true) (h : Str) :
    feed h (style code) = (h, []) := by
  have key := feed_params code hc ESC '[' []
  simp only [style, List.cons_append]
  rw [feed_cons, sgrStep_esc, feed_cons, sgrStep_esc_bracket, key]
  simp

theorem reset_eq : reset = style ['0'] := rfl

theorem feed_reset (h : Str) : feed h reset = (h, []) := by
  rw [reset_eq]; exact feed_style _ (by decide) h

/-- a character that cannot continue a candidate sequence -/
def Breaks (d : Char) : Prop := d ≠ ESC ∧ d ≠ '[' ∧ d ≠ 'm' ∧ isParam d = false

theorem sgrStep_breaks {d : Char} (hd : Breaks d) (h : Str) : sgrStep h d = (h ++ [d], []) := by
  obtain ⟨h1, h2, h3, h4⟩ := hd
  match h with
  | [] => simp [sgrStep, h1]
  | [e] => simp [sgrStep, h1, h2]
  | e :: f :: hs => simp [sgrStep, h1, h3, h4]

theorem feed_breaks {d : Char} (hd : Breaks d) (h : Str) : feed h [d] = (h ++ [d], []) := by
  simp [feed, sgrStep_breaks hd]

/-- **the paint lemma**: for every text `x` (escape sequences, partial ones and resets included),
    from every scanner state, the painted text followed by a breaking character scans like the
    text itself followed by that character -/
theorem feed_escapeResets (code : Str) (hc : ∀ c ∈ code, isParam c = true) {d : Char} (hd : Breaks d) :
    ∀ (x h : Str), feed h (escapeResets (style code) x ++ (reset ++ [d])) = feed h (x ++ [d]) := by
  intro x
  induction x using escapeResets.induct with
  | case1 a b c e r hr ih =>
    intro h
    obtain ⟨rfl, rfl, rfl, rfl⟩ := hr
    have e1 : escapeResets (style code) (ESC :: '[' :: '0' :: 'm' :: r) =
        reset ++ style code ++ escapeResets (style code) r := by
      rw [escapeResets]; simp
    have e2 : ESC :: '[' :: '0' :: 'm' :: r ++ [d] = reset ++ (r ++ [d]) := by simp [reset]
    rw [e1, e2]
    simp only [List.append_assoc]
    rw [feed_append reset, feed_reset, feed_append (style code), feed_style code hc, ih [],
      feed_append reset, feed_reset]
    simp
  | case2 a b c e r hr ih =>
    intro h
    have e1 : escapeResets (style code) (a :: b :: c :: e :: r) =
        a :: escapeResets (style code) (b :: c :: e :: r) := by
      rw [escapeResets]; simp [hr]
    rw [e1]
    show feed h (a :: (escapeResets (style code) (b :: c :: e :: r) ++ (reset ++ [d]))) =
      feed h (a :: (b :: c :: e :: r ++ [d]))
    rw [feed_cons, feed_cons h a (b :: c :: e :: r ++ [d]), ih]
  | case3 l hl =>
    intro h
    have e1 : escapeResets (style code) l = l := by
      rw [escapeResets.eq_def]
      split
      · rename_i a b c e r; exact absurd rfl (hl a b c e r)
      · rfl
    rw [e1, feed_append l, feed_append reset, feed_reset, feed_breaks hd, feed_append l, feed_breaks hd]
    simp

theorem escapeResets_noEsc (st : Str) : ∀ (x : Str), NoEsc x → escapeResets st x = x := by
  intro x
  induction x using escapeResets.induct with
  | case1 a b c e r hr ih =>
    intro h
    exact absurd hr.1 (h a (by simp))
  | case2 a b c e r hr ih =>
    intro h
    rw [escapeResets]
    simp only [hr, if_false]
    rw [ih (fun x hx => h x (by simp [hx]))]
  | case3 l hl =>
    intro _
    rw [escapeResets.eq_def]
    split
    · exact absurd rfl (hl _ _ _ _ _)
    · rfl

theorem seg_paint_noEsc (code : Str) (hc : ∀ c ∈ code, isParam c = true) {x : Str} (hx : NoEsc x) :
    Seg (paint code x) x := by
  refine ⟨x, ?_, feed_noEsc x hx⟩
  simp only [paint, escapeResets_noEsc _ x hx, List.append_assoc]
  rw [feed_append (style code), feed_style code hc, feed_append x, feed_noEsc x hx, feed_reset]
  simp

theorem seg_paint_break (code : Str) (hc : ∀ c ∈ code, isParam c = true) {d : Char} (hd : Breaks d)
    (x : Str) : Seg (paint code x ++ [d]) (x ++ [d]) := by
  have h1 : feed [] (paint code x ++ [d]) = feed [] (x ++ [d]) := by
    simp only [paint, List.append_assoc]
    rw [feed_append (style code), feed_style code hc]
    simp only [List.nil_append]
    exact feed_escapeResets code hc hd x []
  have h2 : (feed [] (x ++ [d])).2 = [] := by rw [feed_append, feed_breaks hd]
  cases hf : feed [] (x ++ [d]) with
  | mk o hh =>
    rw [hf] at h1 h2
    simp only at h2
    subst h2
    exact ⟨o, h1, hf⟩

theorem breaks_nl : Breaks '\n' := ⟨by decide, by decide, by decide, by decide⟩
theorem params34 : ∀ c ∈ ['3', '4'], isParam c = true := by decide
theorem params35 : ∀ c ∈ ['3', '5'], isParam c = true := by decide
theorem params36 : ∀ c ∈ ['3', '6'], isParam c = true := by decide
theorem params32 : ∀ c ∈ ['3', '2'], isParam c = true := by decide

end VV.Idl.Fmt
