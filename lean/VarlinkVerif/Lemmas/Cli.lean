/-
Lemmas.Cli — lemmas behind Props/C20.lean: the split at the last occurrence of
a character, and the `more` loop of `varlink call` over a reply stream.
-/
import VarlinkVerif.Model.Cli
import VarlinkVerif.Lemmas.Client

namespace VV
open Client Cli

theorem splitAtLast_none (c : Char) : ∀ l : List Char, c ∉ l → splitAtLast c l = none
  | [], _ => rfl
  | x :: xs, h => by
    have hx : x ≠ c := fun e => h (by simp [e])
    have hxs : c ∉ xs := fun e => h (by simp [e])
    simp [splitAtLast, splitAtLast_none c xs hxs, hx]

theorem splitAtLast_append (c : Char) (b : List Char) (hb : c ∉ b) :
    ∀ a : List Char, splitAtLast c (a ++ c :: b) = some (a, b)
  | [] => by simp [splitAtLast, splitAtLast_none c b hb]
  | x :: xs => by simp [splitAtLast, splitAtLast_append c b hb xs]

/-! ### the loop -/

def shown (r : Reply) : Json := r.parameters.getD (.obj [])

/-- what the tool does with a stream `rs ++ [f]`: documents printed, exit status, report -/
def specIter : List Reply → Reply → List Json → List Json × Nat × Option Report
  | [], f, acc =>
    if f.error.isSome then (acc, 1, some (reportOf (kindOf f))) else (acc ++ [shown f], 0, none)
  | r :: rs, f, acc =>
    if r.error.isSome then (acc, 1, some (reportOf (kindOf r))) else specIter rs f (acc ++ [shown r])

theorem replyRes_ok (r : Reply) (h : r.error.isSome = false) : replyRes decValue r = .ok (shown r) := by
  unfold replyRes shown decValue
  simp [h]

theorem replyRes_err (r : Reply) (h : r.error.isSome = true) : replyRes decValue r = .err (kindOf r) := by
  unfold replyRes
  simp [h]

theorem iterate_stream (rs : List Reply) (f : Reply) (rest : List Msg) :
    ∀ (fuel : Nat) (s : CS) (acc : List Json), rs.length + 2 ≤ fuel →
      s.call.reader = true → s.call.writer = true → s.call.continues = true →
      s.wire.queue = rs.map Msg.reply ++ .reply f :: rest →
      (∀ r ∈ rs, r.continues = some true) → f.continues ≠ some true →
      let o := iterate fuel s acc
      (o.stdout, o.exit, o.report) = specIter rs f acc ∧ o.hang = false ∧ o.wire.log = s.wire.log := by
  induction rs with
  | nil =>
    intro fuel s acc hfuel hr hw hc hq _ hf
    have hq' : s.wire.queue = .reply f :: rest := by simpa using hq
    obtain ⟨fuel', rfl⟩ : ∃ n, fuel = n + 2 := ⟨fuel - 2, by simp at hfuel; omega⟩
    simp only [iterate, next, hc, Bool.not_true, Bool.false_eq_true, if_false]
    rw [recv_reply decValue s f _ hr hw hq']
    simp only [hf, if_false]
    cases he : f.error.isSome with
    | true => simp [replyRes_err f he, specIter, he]
    | false => simp [replyRes_ok f he, specIter, he]
  | cons r rs ih =>
    intro fuel s acc hfuel hr hw hc hq hall hf
    have hrc : r.continues = some true := hall r (by simp)
    have hq' : s.wire.queue = .reply r :: (rs.map Msg.reply ++ .reply f :: rest) := by simpa using hq
    obtain ⟨fuel', rfl⟩ : ∃ n, fuel = n + 1 := ⟨fuel - 1, by simp at hfuel; omega⟩
    simp only [iterate, next, hc, Bool.not_true, Bool.false_eq_true, if_false]
    rw [recv_reply decValue s r _ hr hw hq']
    simp only [hrc, if_true]
    cases he : r.error.isSome with
    | true => simp [replyRes_err r he, specIter, he]
    | false =>
      simp only [replyRes_ok r he, specIter, he, Bool.false_eq_true, if_false]
      exact ih fuel' { s with call := { s.call with continues := true },
                              wire := { s.wire with queue := rs.map Msg.reply ++ .reply f :: rest } }
        (acc ++ [shown r]) (by simp at hfuel; omega) hr hw rfl rfl (fun x hx => hall x (by simp [hx])) hf

/-! ### pure facts about `specIter` -/

def isOk (r : Reply) : Bool := r.error.isNone

theorem specIter_stdout : ∀ (rs : List Reply) (f : Reply) (acc : List Json),
    (specIter rs f acc).1 = acc ++ ((rs ++ [f]).takeWhile isOk).map shown
  | [], f, acc => by
    cases he : f.error <;> simp [specIter, isOk, he]
  | r :: rs, f, acc => by
    cases he : r.error with
    | some e => simp [specIter, isOk, he]
    | none =>
      simp [specIter, isOk, he]
      rw [specIter_stdout rs f]
      simp

theorem specIter_exit : ∀ (rs : List Reply) (f : Reply) (acc : List Json),
    ((specIter rs f acc).2.1 = 0 ↔ ∀ r ∈ rs ++ [f], r.error = none) ∧
    ((specIter rs f acc).2.1 = 0 ∨ (specIter rs f acc).2.1 = 1)
  | [], f, acc => by
    cases he : f.error <;> simp [specIter, he]
  | r :: rs, f, acc => by
    cases he : r.error with
    | some e => simp [specIter, he]
    | none =>
      have := specIter_exit rs f (acc ++ [shown r])
      simp [specIter, he]
      simpa using this

theorem specIter_report : ∀ (rs : List Reply) (f : Reply) (acc : List Json),
    (specIter rs f acc).2.2 = ((rs ++ [f]).find? (fun r => r.error.isSome)).map (fun e => reportOf (kindOf e))
  | [], f, acc => by
    cases he : f.error <;> simp [specIter, he]
  | r :: rs, f, acc => by
    cases he : r.error with
    | some e => simp [specIter, he]
    | none =>
      simp [specIter, he]
      rw [specIter_report rs f]
      simp

theorem takeWhile_all {α : Type} (q : α → Bool) : ∀ l : List α, (∀ x ∈ l, q x = true) → l.takeWhile q = l
  | [], _ => rfl
  | x :: xs, h => by
    simp [List.takeWhile, h x (by simp)]
    exact takeWhile_all q xs (fun y hy => h y (by simp [hy]))


/-- the situation of a `varlink call`: a fresh connection, the request goes
    through, and the service answers it with `rs ++ [f]` -/
structure Answered (p : Peer) (w : Wire) (method : String) (args : Option Json) (more : Bool)
    (rs : List Reply) (f : Reply) : Prop where
  canWrite : w.canWrite = true
  empty : w.queue = []
  opened : w.closed = false
  answer : (p w.log (mkRequest method (args.getD .null) false more false)).1 = rs.map Msg.reply ++ [.reply f]
  conts : ∀ r ∈ rs, r.continues = some true
  final : f.continues ≠ some true

theorem runCall_more (p : Peer) (w : Wire) (method : String) (args : Option Json) (rs : List Reply) (f : Reply)
    (h : Answered p w method args true rs f) :
    let o := runCall p w method args true
    (o.stdout, o.exit, o.report) = specIter rs f [] ∧ o.hang = false ∧
    o.wire.log = w.log ++ [mkRequest method (args.getD .null) false true false] := by
  have hsend := send_ok p false true false
    { conn := {}, call := { MCall.new method (args.getD .null) with continues := true }, wire := w }
    method (args.getD .null) rfl rfl rfl rfl h.canWrite
  simp only [Bool.false_eq_true, if_false] at hsend
  have hqueue : (w.accept p (mkRequest method (args.getD .null) false true false)).queue =
      rs.map Msg.reply ++ .reply f :: [] := by
    simp [Wire.accept, h.empty, h.opened, h.answer]
  simp only [runCall, Bool.not_true, Bool.false_eq_true, if_false, Client.more]
  rw [hsend]
  simp only
  have := iterate_stream rs f [] ((w.accept p (mkRequest method (args.getD .null) false true false)).queue.length + 2)
    { conn := { reader := false, writer := false },
      call := { ({ MCall.new method (args.getD .null) with continues := true } : MCall).spent with reader := true, writer := true },
      wire := w.accept p (mkRequest method (args.getD .null) false true false) } []
    (by rw [hqueue]; simp) rfl rfl rfl hqueue h.conts h.final
  obtain ⟨h1, h2, h3⟩ := this
  refine ⟨h1, h2, ?_⟩
  rw [h3]
  simp [Wire.accept]

theorem runCall_plain (p : Peer) (w : Wire) (method : String) (args : Option Json) (f : Reply) (rest : List Msg)
    (hcw : w.canWrite = true) (hempty : w.queue = []) (hopen : w.closed = false)
    (hans : (p w.log (mkRequest method (args.getD .null) false false false)).1 = .reply f :: rest) :
    let o := runCall p w method args false
    (o.stdout, o.exit, o.report) = specIter [] f [] ∧ o.hang = false ∧
    o.wire.log = w.log ++ [mkRequest method (args.getD .null) false false false] := by
  have hsend := send_ok p false false false
    { conn := {}, call := MCall.new method (args.getD .null), wire := w }
    method (args.getD .null) rfl rfl rfl rfl hcw
  simp only [Bool.false_eq_true, if_false] at hsend
  have hqueue : (w.accept p (mkRequest method (args.getD .null) false false false)).queue = .reply f :: rest := by
    simp [Wire.accept, hempty, hopen, hans]
  simp only [runCall, Bool.not_false, if_true, Client.call]
  rw [hsend]
  simp only
  rw [recv_reply decValue _ f rest rfl rfl hqueue]
  cases he : f.error.isSome with
  | true =>
    simp only [replyRes_err f he, specIter, he, if_true]
    split <;> simp [Wire.accept]
  | false =>
    simp only [replyRes_ok f he, specIter, he, Bool.false_eq_true, if_false]
    split <;> simp [Wire.accept]


end VV
