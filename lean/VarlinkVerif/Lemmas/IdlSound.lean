/-
Lemmas.IdlSound — soundness of the PEG for the declarative grammar: whatever a rule
returns, the consumed text is a text the grammar derives for the returned value.
-/
import VarlinkVerif.Lemmas.IdlWF

namespace VV.Idl
open Gram

/-! ### `eol` -/

theorem eolR_lineTerm {s nl r : Input} (h : eolR s = some (nl, r)) : s = nl ++ r ∧ IsLineTerm nl r := by
  refine ⟨(good_eolR _ _ _ h).1, ?_⟩
  cases s with
  | nil => simp [eolR] at h
  | cons c s =>
    simp only [eolR] at h
    split at h
    · rename_i hc
      simp only [Option.some.injEq, Prod.mk.injEq] at h
      rw [← h.1, hc]; exact Or.inl rfl
    · split at h
      · rename_i hc
        split at h
        · rename_i d r'
          split at h
          · rename_i hd
            simp only [Option.some.injEq, Prod.mk.injEq] at h
            rw [← h.1, hc, hd]; exact Or.inr (Or.inl rfl)
          · rename_i hd
            simp only [Option.some.injEq, Prod.mk.injEq] at h
            rw [← h.1, ← h.2, hc]
            exact Or.inr (Or.inr (Or.inl ⟨rfl, by simpa using hd⟩))
        · simp only [Option.some.injEq, Prod.mk.injEq] at h
          rw [← h.1, ← h.2, hc]
          exact Or.inr (Or.inr (Or.inl ⟨rfl, by simp⟩))
      · split at h
        · rename_i hc
          simp only [Option.some.injEq, Prod.mk.injEq] at h
          rw [← h.1, hc]; exact Or.inr (Or.inr (Or.inr (Or.inl rfl)))
        · split at h
          · rename_i hc
            simp only [Option.some.injEq, Prod.mk.injEq] at h
            rw [← h.1, hc]; exact Or.inr (Or.inr (Or.inr (Or.inr rfl)))
          · simp at h

/-- **soundness of rule `eol`** -/
theorem eol_sound {s e r : Input} (h : eol s = some (e, r)) : s = e ++ r ∧ IsEol e r := by
  refine ⟨(good_eol _ _ _ h).1, ?_⟩
  simp only [eol] at h
  split at h
  · rename_i nl r' hnl
    simp only [Option.some.injEq, Prod.mk.injEq] at h
    obtain ⟨rfl, rfl⟩ := h
    refine Or.inl ⟨s.takeWhile isWs, nl, rfl, ?_, (eolR_lineTerm hnl).2⟩
    intro c hc
    rw [← isWs_eq]; exact mem_takeWhile_imp _ _ c hc
  · cases s with
    | nil => simp [comment] at h
    | cons c s =>
      simp only [comment] at h
      split at h
      · rename_i hc
        split at h
        · rename_i nl r' hnl
          simp only [Option.some.injEq, Prod.mk.injEq] at h
          obtain ⟨rfl, rfl⟩ := h
          refine Or.inr ⟨s.takeWhile (fun x => !isEolChar x), nl, by rw [hc], ?_, (eolR_lineTerm hnl).2⟩
          intro x hx
          have := mem_takeWhile_imp _ _ x hx
          simpa [isEolChar_eq] using this
        · simp at h
      · simp at h

theorem isEol_of_append {e x y : Str} (h : IsEol e (x ++ y)) (hx : x ≠ []) : IsEol e x := by
  have key : ∀ nl, IsLineTerm nl (x ++ y) → IsLineTerm nl x := by
    intro nl hnl
    rcases hnl with h | h | ⟨h, hh⟩ | h | h
    · exact Or.inl h
    · exact Or.inr (Or.inl h)
    · refine Or.inr (Or.inr (Or.inl ⟨h, ?_⟩))
      cases x with
      | nil => exact absurd rfl hx
      | cons c r => simpa using hh
    · exact Or.inr (Or.inr (Or.inr (Or.inl h)))
    · exact Or.inr (Or.inr (Or.inr (Or.inr h)))
  rcases h with ⟨ws, nl, rfl, hws, hnl⟩ | ⟨body, nl, rfl, hbody, hnl⟩
  · exact Or.inl ⟨ws, nl, rfl, hws, key nl hnl⟩
  · exact Or.inr ⟨body, nl, rfl, hbody, key nl hnl⟩

/-! ### trivia -/

theorem wceStar_sound (n : Nat) (s : Input) : ∃ t x, wceStarF n s = (t, x) ∧ s = t ++ x ∧ Trivia t :=
  ⟨(wceStarF n s).1, (wceStarF n s).2, rfl, wceStarF_split n s, trivia_of_wceStar n s⟩

theorem wcePlus_sound {n : Nat} {s t r : Input} (h : wcePlusF n s = some (t, r)) :
    s = t ++ r ∧ t ≠ [] ∧ Trivia t := by
  obtain ⟨h1, h2⟩ := wcePlusF_split h
  refine ⟨h1, h2, ?_⟩
  simp only [wcePlusF] at h
  split at h
  · rename_i t0 r0 h0
    simp only [Option.some.injEq, Prod.mk.injEq] at h
    rw [← h.1]
    exact trivia_append (trivia_of_wce h0) (trivia_of_wceStar n r0)
  · simp at h

/-! ### enums -/

theorem enumItems_of_rest : ∀ (e : Str) (es : List Str) (w' : Str), Spec.isFieldName e = true → EnumRest es w' →
    EnumItems (e :: es) (e ++ w')
  | e, [], w', he, h => by
    simp only [EnumRest] at h; subst h
    simp only [EnumItems, List.append_nil]; exact ⟨trivial, he⟩
  | e, e' :: r, w', he, h => by
    obtain ⟨t, w'', rfl, ht, he', hr⟩ := h
    simp only [EnumItems]
    exact ⟨t, e' ++ w'', by simp, he, ht, enumItems_of_rest e' r w'' he' hr⟩

theorem enum_sepTail_sound (n : Nat) : ∀ (k : Nat) (s : Input) (es : List Str) (r : Input),
    sepTailF (fieldNameF n) (enumSep n) k s = (es, r) → ∃ w, s = w ++ r ∧ EnumRest es w := by
  intro k
  induction k with
  | zero =>
    intro s es r h
    simp only [sepTailF, Prod.mk.injEq] at h
    obtain ⟨rfl, rfl⟩ := h
    exact ⟨[], rfl, rfl⟩
  | succ k ih =>
    intro s es r h
    simp only [sepTailF] at h
    split at h
    · simp only [Prod.mk.injEq] at h
      obtain ⟨rfl, rfl⟩ := h
      exact ⟨[], rfl, rfl⟩
    · rename_i s1 h1
      split at h
      · simp only [Prod.mk.injEq] at h
        obtain ⟨rfl, rfl⟩ := h
        exact ⟨[], rfl, rfl⟩
      · rename_i e s2 h2
        simp only [Prod.mk.injEq] at h
        obtain ⟨rfl, hr⟩ := h
        obtain ⟨w', hw', hrest⟩ := ih s2 _ r (Prod.ext rfl hr)
        simp only [enumSep, Option.map_eq_some_iff] at h1
        obtain ⟨y, hy, rfl⟩ := h1
        obtain ⟨t, x, hwy, hy1, hy2⟩ := wceStar_sound n y
        rw [hwy] at h2
        simp only at h2
        obtain ⟨he1, _⟩ := good_fieldNameF n _ _ _ h2
        refine ⟨',' :: t ++ e ++ w', ?_, t, w', rfl, hy2, fieldNameF_isFieldName h2, hrest⟩
        rw [chr_eq hy, hy1, he1, hw']
        simp

theorem venumF_sound {n : Nat} {s : Input} {es : List Str} {r : Input} (h : venumF n s = some (es, r)) (hne : es ≠ []) :
    ∃ w, s = w ++ r ∧ EnumText es w := by
  simp only [venumF] at h
  split at h
  · simp at h
  · rename_i s1 h1
    obtain ⟨t0, X, hw0, hs1, ht0⟩ := wceStar_sound n s1
    rw [hw0] at h
    simp only [sepByF] at h
    cases hf : fieldNameF n X with
    | none =>
      rw [hf] at h
      simp only at h
      split at h
      · simp only [Option.some.injEq, Prod.mk.injEq] at h
        exact absurd h.1.symm hne
      · simp at h
    | some q =>
      obtain ⟨e, X1⟩ := q
      rw [hf] at h
      simp only at h
      obtain ⟨he1, _⟩ := good_fieldNameF n _ _ _ hf
      cases hq : sepTailF (fieldNameF n) (enumSep n) n X1 with
      | mk es' X2 =>
        rw [hq] at h
        simp only at h
        obtain ⟨w', hw', hrest⟩ := enum_sepTail_sound n n X1 es' X2 hq
        obtain ⟨t1, X3, hw1, hs3, ht1⟩ := wceStar_sound n X2
        rw [hw1] at h
        simp only at h
        split at h
        · rename_i r' h2
          simp only [Option.some.injEq, Prod.mk.injEq] at h
          obtain ⟨rfl, rfl⟩ := h
          refine ⟨'(' :: t0 ++ (e ++ w') ++ t1 ++ [')'], ?_,
            t0, e ++ w', t1, rfl, ht0, enumItems_of_rest e _ w' (fieldNameF_isFieldName hf) hrest, ht1⟩
          rw [chr_eq h1, hs1, he1, hw', hs3, chr_eq h2]
          simp
        · simp at h


/-! ### types -/

/-- results of `ty` on inputs shorter than `b` are denoted by the consumed text -/
def TySound (ty : Input → Option (Ty × Input)) (b : Nat) : Prop :=
  ∀ s t r, s.length < b → ty s = some (t, r) → ∃ w, s = w ++ r ∧ TypeText t w

theorem fieldText_prepend {T0 n : Str} {t : Ty} {w : Str} (hT : Trivia T0) (h : FieldText n t w) :
    FieldText n t (T0 ++ w) := by
  rw [FieldText] at h ⊢
  obtain ⟨t0, t1, t2, wt, rfl, ht0, hn, ht1, ht2, hty⟩ := h
  exact ⟨T0 ++ t0, t1, t2, wt, by simp, trivia_append hT ht0, hn, ht1, ht2, hty⟩

theorem objectField_sound {n b : Nat} {ty : Input → Option (Ty × Input)} (hty : TySound ty b) {s : Input} {nm : Str}
    {t : Ty} {r : Input} (hs : s.length ≤ b) (h : objectFieldF n ty s = some ((nm, t), r)) :
    ∃ w, s = w ++ r ∧ FieldText nm t w := by
  simp only [objectFieldF] at h
  obtain ⟨t0, x0, hw0, hs0, ht0⟩ := wceStar_sound n s
  rw [hw0] at h
  simp only at h
  split at h
  · simp at h
  · rename_i f s1 h1
    obtain ⟨t1, x1, hw1, hs1, ht1⟩ := wceStar_sound n s1
    rw [hw1] at h
    simp only at h
    split at h
    · simp at h
    · rename_i s2 h2
      obtain ⟨t2, x2, hw2, hs2, ht2⟩ := wceStar_sound n s2
      rw [hw2] at h
      simp only at h
      split at h
      · simp at h
      · rename_i t' r' h3
        simp only [Option.some.injEq, Prod.mk.injEq] at h
        obtain ⟨⟨rfl, rfl⟩, rfl⟩ := h
        obtain ⟨hf1, hf2⟩ := good_fieldNameF n _ _ _ h1
        have e2 := chr_eq h2
        have hlen : x2.length < b := by
          have a1 := congrArg List.length hs0
          have a2 := congrArg List.length hf1
          have a3 := congrArg List.length hs1
          have a4 := congrArg List.length e2
          have a5 := congrArg List.length hs2
          simp only [List.length_append, List.length_cons] at a1 a2 a3 a4 a5
          have : 0 < f.length := by
            cases f with
            | nil => exact absurd rfl hf2
            | cons c l => simp
          omega
        obtain ⟨wt, hwt, htt⟩ := hty _ _ _ hlen h3
        refine ⟨t0 ++ f ++ t1 ++ ':' :: t2 ++ wt, ?_, ?_⟩
        · rw [hs0, hf1, hs1, e2, hs2, hwt]; simp
        · rw [FieldText]
          exact ⟨t0, t1, t2, wt, rfl, ht0, fieldNameF_isFieldName h1, ht1, ht2, htt⟩

theorem fields_sepTail_sound {n b : Nat} {ty : Input → Option (Ty × Input)} (hty : TySound ty b) (hng : NoGrow ty) :
    ∀ (k : Nat) (s : Input) (l : List (Str × Ty)) (r : Input), s.length ≤ b →
    sepTailF (objectFieldF n ty) (chr ',') k s = (l, r) → ∃ w, s = w ++ r ∧ RestText (Fields.ofList l) w := by
  intro k
  induction k with
  | zero =>
    intro s l r _ h
    simp only [sepTailF, Prod.mk.injEq] at h
    obtain ⟨rfl, rfl⟩ := h
    exact ⟨[], rfl, by simp [Fields.ofList, RestText]⟩
  | succ k ih =>
    intro s l r hs h
    simp only [sepTailF] at h
    split at h
    · simp only [Prod.mk.injEq] at h
      obtain ⟨rfl, rfl⟩ := h
      exact ⟨[], rfl, by simp [Fields.ofList, RestText]⟩
    · rename_i s1 h1
      split at h
      · simp only [Prod.mk.injEq] at h
        obtain ⟨rfl, rfl⟩ := h
        exact ⟨[], rfl, by simp [Fields.ofList, RestText]⟩
      · rename_i a s2 h2
        obtain ⟨nm, t⟩ := a
        simp only [Prod.mk.injEq] at h
        obtain ⟨rfl, hr⟩ := h
        have e1 := chr_eq h1
        have l1 : s1.length < s.length := by rw [e1]; simp
        have l2 := (objectFieldF_shrinks n hng) _ _ _ h2
        obtain ⟨w1, hw1, hf⟩ := objectField_sound hty (by omega) h2
        obtain ⟨w2, hw2, hrest⟩ := ih s2 _ r (by omega) (Prod.ext rfl hr)
        refine ⟨',' :: w1 ++ w2, by rw [e1, hw1, hw2]; simp, ?_⟩
        rw [Fields.ofList, RestText]
        exact ⟨w1, w2, rfl, hf, hrest⟩

theorem vstructF_sound {n b : Nat} {ty : Input → Option (Ty × Input)} (hty : TySound ty b) (hng : NoGrow ty) {s : Input}
    {f : Fields} {r : Input} (hs : s.length ≤ b) (h : vstructF n ty s = some (f, r)) :
    ∃ w, s = w ++ r ∧ TypeText (.struct f) w := by
  simp only [vstructF] at h
  split at h
  · simp at h
  · rename_i s1 h1
    have e1 := chr_eq h1
    obtain ⟨T0, X, hw0, hs1, hT0⟩ := wceStar_sound n s1
    rw [hw0] at h
    simp only [sepByF] at h
    have lX : X.length < s.length := by
      have a1 := congrArg List.length hs1
      rw [e1]; simp only [List.length_append, List.length_cons] at a1 ⊢; omega
    cases hobj : objectFieldF n ty X with
    | none =>
      rw [hobj] at h
      simp only at h
      obtain ⟨T1, X3, hw1, hs3, hT1⟩ := wceStar_sound n X
      rw [hw1] at h
      simp only at h
      split at h
      · rename_i r' h2
        simp only [Option.some.injEq, Prod.mk.injEq] at h
        obtain ⟨rfl, rfl⟩ := h
        refine ⟨'(' :: T0 ++ T1 ++ [')'], by rw [e1, hs1, hs3, chr_eq h2]; simp, ?_⟩
        rw [Fields.ofList, TypeText]
        exact ⟨[], T0 ++ T1, by simp, by simp [FieldsText], trivia_append hT0 hT1⟩
      · simp at h
    | some q =>
      obtain ⟨⟨nm, t⟩, X1⟩ := q
      rw [hobj] at h
      simp only at h
      have lX1 := (objectFieldF_shrinks n hng) _ _ _ hobj
      obtain ⟨w1, hw1, hf⟩ := objectField_sound hty (by omega) hobj
      cases hq : sepTailF (objectFieldF n ty) (chr ',') n X1 with
      | mk l X2 =>
        rw [hq] at h
        simp only at h
        obtain ⟨w2, hw2, hrest⟩ := fields_sepTail_sound hty hng n X1 l X2 (by omega) hq
        obtain ⟨T1, X3, hwt, hs3, hT1⟩ := wceStar_sound n X2
        rw [hwt] at h
        simp only at h
        split at h
        · rename_i r' h2
          simp only [Option.some.injEq, Prod.mk.injEq] at h
          obtain ⟨rfl, rfl⟩ := h
          refine ⟨'(' :: (T0 ++ w1 ++ w2) ++ T1 ++ [')'], by rw [e1, hs1, hw1, hw2, hs3, chr_eq h2]; simp, ?_⟩
          rw [Fields.ofList, TypeText]
          refine ⟨T0 ++ w1 ++ w2, T1, rfl, ?_, hT1⟩
          rw [FieldsText]
          exact ⟨T0 ++ w1, w2, rfl, fieldText_prepend hT0 hf, hrest⟩
        · simp at h

theorem btypeF_sound {n b : Nat} {ty : Input → Option (Ty × Input)} (hty : TySound ty b) (hng : NoGrow ty) {s : Input}
    {t : Ty} {r : Input} (hs : s.length ≤ b) (hn : s.length ≤ n) (h : btypeF n ty s = some (t, r)) :
    ∃ w, s = w ++ r ∧ TypeText t w ∧ NotOption t := by
  simp only [btypeF] at h
  split at h
  · rename_i r' hl
    simp only [Option.some.injEq, Prod.mk.injEq] at h; obtain ⟨rfl, rfl⟩ := h
    exact ⟨_, lit_eq hl, by simp [TypeText], by simp [NotOption]⟩
  split at h
  · rename_i r' hl
    simp only [Option.some.injEq, Prod.mk.injEq] at h; obtain ⟨rfl, rfl⟩ := h
    exact ⟨_, lit_eq hl, by simp [TypeText], by simp [NotOption]⟩
  split at h
  · rename_i r' hl
    simp only [Option.some.injEq, Prod.mk.injEq] at h; obtain ⟨rfl, rfl⟩ := h
    exact ⟨_, lit_eq hl, by simp [TypeText], by simp [NotOption]⟩
  split at h
  · rename_i r' hl
    simp only [Option.some.injEq, Prod.mk.injEq] at h; obtain ⟨rfl, rfl⟩ := h
    exact ⟨_, lit_eq hl, by simp [TypeText], by simp [NotOption]⟩
  split at h
  · rename_i r' hl
    simp only [Option.some.injEq, Prod.mk.injEq] at h; obtain ⟨rfl, rfl⟩ := h
    exact ⟨_, lit_eq hl, by simp [TypeText], by simp [NotOption]⟩
  split at h
  · rename_i w r' hname
    simp only [Option.some.injEq, Prod.mk.injEq] at h; obtain ⟨rfl, rfl⟩ := h
    obtain ⟨h1, h2, _⟩ := name_sound hname
    exact ⟨w, h1, by rw [TypeText]; exact ⟨rfl, h2⟩, by simp [NotOption]⟩
  split at h
  · rename_i f r' hv
    simp only [Option.some.injEq, Prod.mk.injEq] at h; obtain ⟨rfl, rfl⟩ := h
    obtain ⟨w, h1, h2⟩ := vstructF_sound hty hng hs hv
    exact ⟨w, h1, h2, by simp [NotOption]⟩
  split at h
  · rename_i hv _ e r' he
    simp only [Option.some.injEq, Prod.mk.injEq] at h; obtain ⟨rfl, rfl⟩ := h
    obtain ⟨w, h1, h2⟩ := venumF_sound he (venum_nonempty hn hv he)
    exact ⟨w, h1, by rw [TypeText]; exact h2, by simp [NotOption]⟩
  · simp at h

/-- **soundness of `type_`** -/
theorem typeF_sound : ∀ (n : Nat), TySound (typeF n) n := by
  intro n
  induction n with
  | zero => intro s t r hs; omega
  | succ n ih =>
    intro s t r hs h
    have hle : s.length ≤ n := by omega
    have hng := (typeF_shrinks n).noGrow
    simp only [typeF] at h
    split at h
    · rename_i x hx
      simp only [Option.some.injEq] at h; subst h
      obtain ⟨w, h1, h2, _⟩ := btypeF_sound ih hng hle hle hx
      exact ⟨w, h1, h2⟩
    split at h
    · rename_i t' r' h'
      simp only [Option.some.injEq, Prod.mk.injEq] at h; obtain ⟨rfl, rfl⟩ := h
      simp only [Option.bind_eq_some_iff] at h'
      obtain ⟨s1, h1, h2⟩ := h'
      have := lit_shrinks (l := ['[', ']']) (by simp) h1
      obtain ⟨w, hw, htt⟩ := ih _ _ _ (by omega) h2
      exact ⟨'[' :: ']' :: w, by rw [lit_eq h1, hw]; rfl, by rw [TypeText]; exact ⟨w, rfl, htt⟩⟩
    split at h
    · rename_i t' r' h'
      simp only [Option.some.injEq, Prod.mk.injEq] at h; obtain ⟨rfl, rfl⟩ := h
      simp only [Option.bind_eq_some_iff] at h'
      obtain ⟨s1, h1, h2⟩ := h'
      have := lit_shrinks (l := ['[', 's', 't', 'r', 'i', 'n', 'g', ']']) (by simp) h1
      obtain ⟨w, hw, htt⟩ := ih _ _ _ (by omega) h2
      exact ⟨['[', 's', 't', 'r', 'i', 'n', 'g', ']'] ++ w, by rw [lit_eq h1, hw]; simp,
        by rw [TypeText]; exact ⟨w, rfl, htt⟩⟩
    split at h
    · rename_i t' r' h'
      simp only [Option.some.injEq, Prod.mk.injEq] at h; obtain ⟨rfl, rfl⟩ := h
      simp only [Option.bind_eq_some_iff] at h'
      obtain ⟨s1, h1, h2⟩ := h'
      have := lit_shrinks (l := ['?']) (by simp) h1
      obtain ⟨w, hw, htt, hno⟩ := btypeF_sound ih hng (by omega) (by omega) h2
      exact ⟨'?' :: w, by rw [lit_eq h1, hw]; rfl, by rw [TypeText]; exact ⟨w, rfl, htt, hno⟩⟩
    split at h
    · rename_i t' r' h'
      simp only [Option.some.injEq, Prod.mk.injEq] at h; obtain ⟨rfl, rfl⟩ := h
      simp only [Option.bind_eq_some_iff] at h'
      obtain ⟨s2, ⟨s1, h1, h1'⟩, h2⟩ := h'
      have := lit_shrinks (l := ['?']) (by simp) h1
      have := lit_shrinks (l := ['[', ']']) (by simp) h1'
      obtain ⟨w, hw, htt⟩ := ih _ _ _ (by omega) h2
      refine ⟨'?' :: '[' :: ']' :: w, by rw [lit_eq h1, lit_eq h1', hw]; rfl, ?_⟩
      rw [TypeText]
      exact ⟨'[' :: ']' :: w, rfl, by rw [TypeText]; exact ⟨w, rfl, htt⟩, by simp [NotOption]⟩
    split at h
    · rename_i t' r' h'
      simp only [Option.some.injEq, Prod.mk.injEq] at h; obtain ⟨rfl, rfl⟩ := h
      simp only [Option.bind_eq_some_iff] at h'
      obtain ⟨s2, ⟨s1, h1, h1'⟩, h2⟩ := h'
      have := lit_shrinks (l := ['?']) (by simp) h1
      have := lit_shrinks (l := ['[', 's', 't', 'r', 'i', 'n', 'g', ']']) (by simp) h1'
      obtain ⟨w, hw, htt⟩ := ih _ _ _ (by omega) h2
      refine ⟨'?' :: (['[', 's', 't', 'r', 'i', 'n', 'g', ']'] ++ w), by rw [lit_eq h1, lit_eq h1', hw]; simp, ?_⟩
      rw [TypeText]
      exact ⟨['[', 's', 't', 'r', 'i', 'n', 'g', ']'] ++ w, rfl, by rw [TypeText]; exact ⟨w, rfl, htt⟩, by simp [NotOption]⟩
    · simp at h

theorem vstructT_sound {n : Nat} {s : Input} {f : Fields} {r : Input} (hs : s.length ≤ n)
    (h : vstructF n (typeF n) s = some (f, r)) : ∃ w, s = w ++ r ∧ StructText f w :=
  vstructF_sound (typeF_sound n) (typeF_shrinks n).noGrow hs h


/-! ### members -/

theorem memberHead_sound {n : Nat} {kw : Str} {s : Input} {doc nm : Str} {r : Input}
    (h : memberHeadF n kw s = some ((doc, nm), r)) :
    ∃ d t1 t2, s = d ++ kw ++ t1 ++ nm ++ t2 ++ r ∧ Trivia d ∧ doc = Spec.trim d ∧ Trivia t1 ∧ t1 ≠ [] ∧ Trivia t2 ∧
      Spec.isTypeName nm = true := by
  simp only [memberHeadF] at h
  obtain ⟨d, x0, hw0, hs0, hd⟩ := wceStar_sound n s
  rw [hw0] at h
  simp only at h
  split at h
  · simp at h
  · rename_i s1 h1
    split at h
    · simp at h
    · rename_i t1 s2 h2
      split at h
      · simp at h
      · rename_i nm' s3 h3
        obtain ⟨t2, x3, hw3, hs3, ht2⟩ := wceStar_sound n s3
        rw [hw3] at h
        simp only [Option.some.injEq, Prod.mk.injEq] at h
        obtain ⟨⟨rfl, rfl⟩, rfl⟩ := h
        obtain ⟨hp1, hp2, hp3⟩ := wcePlus_sound h2
        obtain ⟨hn1, hn2, _⟩ := name_sound h3
        exact ⟨d, t1, t2, by rw [hs0, lit_eq h1, hp1, hn1, hs3]; simp, hd, trimDoc_eq d, hp3, hp2, ht2, hn2⟩

/-- **soundness of rule `member`** -/
theorem member_sound {n : Nat} {s : Input} {m : Member} {r : Input} (hs : s.length ≤ n)
    (h : memberF n s = some (m, r)) : ∃ w, s = w ++ r ∧ MemberText m w := by
  simp only [memberF] at h
  split at h
  · rename_i x hx
    simp only [Option.some.injEq] at h; subst h
    simp only [methodF, Option.bind_eq_some_iff, Option.map_eq_some_iff] at hx
    obtain ⟨⟨⟨doc, nm⟩, s1⟩, hh, ⟨i, s2⟩, hi, s3, h3, ⟨o, r'⟩, ho, he⟩ := hx
    simp only [Prod.mk.injEq] at he
    obtain ⟨rfl, rfl⟩ := he
    dsimp only at hi h3 ho
    obtain ⟨d, t1, t2, hsd, hd, hdoc, ht1, hne, ht2, hnm⟩ := memberHead_sound hh
    have l1 := memberHeadF_shrinks n _ hh
    have l2 := vstructT_shrinks n _ _ _ hi
    obtain ⟨t3, x3, hw3, hs3, ht3⟩ := wceStar_sound n s2
    rw [hw3] at h3
    simp only at h3
    obtain ⟨t4, x4, hw4, hs4, ht4⟩ := wceStar_sound n s3
    rw [hw4] at ho
    simp only at ho
    have l3 : x3.length ≤ s2.length := by rw [hs3]; simp
    have l4 := lit_le h3
    have l5 : x4.length ≤ s3.length := by rw [hs4]; simp
    obtain ⟨b1, hb1, hst1⟩ := vstructT_sound (by omega) hi
    obtain ⟨b2, hb2, hst2⟩ := vstructT_sound (by omega) ho
    refine ⟨d ++ ['m', 'e', 't', 'h', 'o', 'd'] ++ t1 ++ nm ++ t2 ++ b1 ++ t3 ++ ['-', '>'] ++ t4 ++ b2, ?_,
      d, t1, t2, hd, hdoc, ht1, hne, ht2, hnm, b1, t3, t4, b2, rfl, hst1, ht3, ht4, hst2⟩
    rw [hsd, hb1, hs3, lit_eq h3, hs4, hb2]; simp
  · split at h
    · rename_i hm x hx
      simp only [Option.some.injEq] at h; subst h
      simp only [vtypedefF] at hx
      split at hx
      · rename_i y hy
        simp only [Option.some.injEq] at hx; subst hx
        simp only [Option.bind_eq_some_iff, Option.map_eq_some_iff] at hy
        obtain ⟨⟨⟨doc, nm⟩, s1⟩, hh, ⟨v, r'⟩, hv, he⟩ := hy
        simp only [Prod.mk.injEq] at he
        obtain ⟨rfl, rfl⟩ := he
        dsimp only at hv
        obtain ⟨d, t1, t2, hsd, hd, hdoc, ht1, hne, ht2, hnm⟩ := memberHead_sound hh
        have l1 := memberHeadF_shrinks n _ hh
        obtain ⟨b, hb, hst⟩ := vstructT_sound (by omega) hv
        exact ⟨d ++ ['t', 'y', 'p', 'e'] ++ t1 ++ nm ++ t2 ++ b, by rw [hsd, hb]; simp,
          d, t1, t2, hd, hdoc, ht1, hne, ht2, hnm, b, rfl, hst⟩
      · rename_i hnone
        simp only [Option.bind_eq_some_iff, Option.map_eq_some_iff] at hx
        obtain ⟨⟨⟨doc, nm⟩, s1⟩, hh, ⟨v, r'⟩, hv, he⟩ := hx
        simp only [Prod.mk.injEq] at he
        obtain ⟨rfl, rfl⟩ := he
        dsimp only at hv
        obtain ⟨d, t1, t2, hsd, hd, hdoc, ht1, hne, ht2, hnm⟩ := memberHead_sound hh
        have l1 := memberHeadF_shrinks n _ hh
        have hvs : vstructF n (typeF n) s1 = none := by
          rw [hh] at hnone
          simp only [Option.bind_some] at hnone
          cases hq : vstructF n (typeF n) s1 with
          | none => rfl
          | some q => rw [hq] at hnone; simp at hnone
        obtain ⟨b, hb, hst⟩ := venumF_sound hv (venum_nonempty (by omega) hvs hv)
        exact ⟨d ++ ['t', 'y', 'p', 'e'] ++ t1 ++ nm ++ t2 ++ b, by rw [hsd, hb]; simp,
          d, t1, t2, hd, hdoc, ht1, hne, ht2, hnm, b, rfl, hst⟩
    · simp only [errorF, Option.bind_eq_some_iff, Option.map_eq_some_iff] at h
      obtain ⟨⟨⟨doc, nm⟩, s1⟩, hh, ⟨v, r'⟩, hv, he⟩ := h
      simp only [Prod.mk.injEq] at he
      obtain ⟨rfl, rfl⟩ := he
      dsimp only at hv
      obtain ⟨d, t1, t2, hsd, hd, hdoc, ht1, hne, ht2, hnm⟩ := memberHead_sound hh
      have l1 := memberHeadF_shrinks n _ hh
      obtain ⟨b, hb, hst⟩ := vstructT_sound (by omega) hv
      exact ⟨d ++ ['e', 'r', 'r', 'o', 'r'] ++ t1 ++ nm ++ t2 ++ b, by rw [hsd, hb]; simp,
        d, t1, t2, hd, hdoc, ht1, hne, ht2, hnm, b, rfl, hst⟩

/-! ### member lists and the file -/

/-- `(eol member)*` -/
theorem members_sepTail_sound (n : Nat) : ∀ (k : Nat) (s : Input) (ms : List Member) (r : Input), s.length ≤ n →
    sepTailF (memberF n) eolSep k s = (ms, r) → (ms = [] ∧ r = s) ∨ ∃ w, s = w ++ r ∧ MembersText ms w := by
  intro k
  induction k with
  | zero =>
    intro s ms r _ h
    simp only [sepTailF, Prod.mk.injEq] at h
    exact Or.inl ⟨h.1.symm, h.2.symm⟩
  | succ k ih =>
    intro s ms r hs h
    simp only [sepTailF] at h
    split at h
    · simp only [Prod.mk.injEq] at h
      exact Or.inl ⟨h.1.symm, h.2.symm⟩
    · rename_i s1 h1
      split at h
      · simp only [Prod.mk.injEq] at h
        exact Or.inl ⟨h.1.symm, h.2.symm⟩
      · rename_i m s2 h2
        cases hq : sepTailF (memberF n) eolSep k s2 with
        | mk ms' s6 =>
        rw [hq] at h
        simp only [Prod.mk.injEq] at h
        obtain ⟨rfl, rfl⟩ := h
        simp only [eolSep, Option.map_eq_some_iff] at h1
        obtain ⟨⟨e, s1'⟩, he, rfl⟩ := h1
        dsimp only at h2
        obtain ⟨hse, heol⟩ := eol_sound he
        have l1 := good_eol.shrinks _ _ _ he
        have l2 := (memberF_shrinks n) _ _ _ h2
        obtain ⟨mw, hmw, hmt⟩ := member_sound (by omega) h2
        have hmne := memberText_ne_nil hmt
        right
        rcases ih s2 ms' s6 (by omega) hq with ⟨hnil, hrs⟩ | ⟨w', hw', hrest⟩
        · subst hnil
          refine ⟨e ++ mw, by rw [hse, hmw, hrs]; simp, ?_⟩
          simp only [MembersText]
          refine ⟨e, mw, rfl, ?_, hmt⟩
          rw [hmw] at heol
          exact isEol_of_append heol hmne
        · cases ms' with
          | nil => simp [MembersText] at hrest
          | cons m' rest =>
            refine ⟨e ++ mw ++ w', by rw [hse, hmw, hw']; simp, ?_⟩
            simp only [MembersText]
            refine ⟨e, mw, w', rfl, ?_, hmt, hrest⟩
            rw [hmw, hw'] at heol
            have : mw ++ (w' ++ s6) = (mw ++ w') ++ s6 := by simp
            rw [this] at heol
            exact isEol_of_append heol (by
              cases mw with
              | nil => exact absurd rfl hmne
              | cons c l => simp)

/-- **C11 soundness of the whole grammar**: whatever the PEG accepts is a text of the declarative
    grammar for exactly the definition it returns -/
theorem parse_sound {s : Input} {p : Parsed} (h : parse s = some p) : FileText p s := by
  simp only [parse] at h
  split at h
  · rename_i p' hp
    simp only [Option.some.injEq] at h; subst h
    simp only [parseInterfaceF] at hp
    obtain ⟨d, x0, hw0, hs0, hd⟩ := wceStar_sound (s.length + 1) s
    rw [hw0] at hp
    simp only at hp
    split at hp
    · simp at hp
    · rename_i s1 h1
      split at hp
      · simp at hp
      · rename_i t1 s2 h2
        split at hp
        · simp at hp
        · rename_i nm s3 h3
          split at hp
          · simp at hp
          · rename_i e s4 h4
            obtain ⟨hp1, hp2, hp3⟩ := wcePlus_sound h2
            obtain ⟨hn1, _⟩ := good_interfaceNameF _ _ _ _ h3
            obtain ⟨he1, heol⟩ := eol_sound h4
            have l0 : x0.length ≤ s.length := by rw [hs0]; simp
            have l1 := lit_le h1
            have l2 : s2.length ≤ s1.length := by rw [hp1]; simp
            have l3 := (good_interfaceNameF (s.length + 1)).shrinks _ _ _ h3
            have l4 := good_eol.shrinks _ _ _ h4
            simp only [sepByF] at hp
            cases hm : memberF (s.length + 1) s4 with
            | none => rw [hm] at hp; simp at hp
            | some q =>
              obtain ⟨m, s5⟩ := q
              rw [hm] at hp
              simp only at hp
              have l5 := (memberF_shrinks (s.length + 1)) _ _ _ hm
              obtain ⟨mw, hmw, hmt⟩ := member_sound (by omega) hm
              have hmne := memberText_ne_nil hmt
              cases hq : sepTailF (memberF (s.length + 1)) eolSep (s.length + 1) s5 with
              | mk ms s6 =>
                rw [hq] at hp
                simp only at hp
                obtain ⟨tend, x7, hw7, hs7, htend⟩ := wceStar_sound (s.length + 1) s6
                rw [hw7] at hp
                simp only [Option.some.injEq, Prod.mk.injEq] at hp
                obtain ⟨rfl, rfl⟩ := hp
                simp only [List.append_nil] at hs7
                rcases members_sepTail_sound (s.length + 1) (s.length + 1) s5 ms s6 (by omega) hq with
                  ⟨hnil, hrs⟩ | ⟨w', hw', hrest⟩
                · subst hnil
                  refine ⟨d, t1, e ++ mw, tend, ?_, hd, trimDoc_eq d, hp3, hp2, interfaceNameF_isInterfaceName h3, ?_, htend⟩
                  · rw [hs0, lit_eq h1, hp1, hn1, he1, hmw, ← hrs, hs7]; simp
                  · simp only [MembersText]
                    refine ⟨e, mw, rfl, ?_, hmt⟩
                    rw [hmw] at heol
                    exact isEol_of_append heol hmne
                · cases ms with
                  | nil => simp [MembersText] at hrest
                  | cons m' rest =>
                    refine ⟨d, t1, e ++ mw ++ w', tend, ?_, hd, trimDoc_eq d, hp3, hp2, interfaceNameF_isInterfaceName h3, ?_, htend⟩
                    · rw [hs0, lit_eq h1, hp1, hn1, he1, hmw, hw', hs7]; simp
                    · simp only [MembersText]
                      refine ⟨e, mw, w', rfl, ?_, hmt, hrest⟩
                      rw [hmw, hw'] at heol
                      have : mw ++ (w' ++ s6) = (mw ++ w') ++ s6 := by simp
                      rw [this] at heol
                      exact isEol_of_append heol (by
                        cases mw with
                        | nil => exact absurd rfl hmne
                        | cons c l => simp)
  · cases h

end VV.Idl
