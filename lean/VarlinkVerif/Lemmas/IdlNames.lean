/-
Lemmas.IdlNames — the lexical rules of the PEG against the word predicates of the
specification (`Spec.isTypeName`, `Spec.isFieldName`, `Spec.isInterfaceName`):
what a rule consumes is a word of the class (soundness), it cannot be extended
(the rule stops only where no further iteration matches), and every word of the class
followed by a non-word character is consumed entirely (completeness / maximal munch).
-/
import VarlinkVerif.Model.Idl.Spec
import VarlinkVerif.Lemmas.IdlFuel

namespace VV.Idl

/-! ### character classes of model and specification coincide -/

theorem char_eq_iff (c d : Char) : c = d ↔ c.toNat = d.toNat := by
  constructor
  · intro h; rw [h]
  · intro h
    apply Char.ext
    exact UInt32.toNat_inj.mp h

theorem beq_char (c d : Char) : (c == d) = (c.toNat == d.toNat) := by
  by_cases h : c = d
  · subst h; simp
  · have : c.toNat ≠ d.toNat := fun e => h ((char_eq_iff c d).mpr e)
    have h1 : (c == d) = false := by simpa using h
    have h2 : (c.toNat == d.toNat) = false := by simpa using this
    rw [h1, h2]

theorem isAlnum_eq (c : Char) : isAlnum c = Spec.isLetterOrDigit c := by
  simp only [isAlnum, isLower, isUpper, isDigit, Spec.isLetterOrDigit, Spec.isLetter, Spec.isUpperLetter]
  have e1 : 'a'.toNat = 97 := by decide
  have e2 : 'z'.toNat = 122 := by decide
  have e3 : 'A'.toNat = 65 := by decide
  have e4 : 'Z'.toNat = 90 := by decide
  have e5 : '0'.toNat = 48 := by decide
  have e6 : '9'.toNat = 57 := by decide
  rw [e1, e2, e3, e4, e5, e6]
  cases decide (97 ≤ c.toNat) && decide (c.toNat ≤ 122) <;> cases decide (65 ≤ c.toNat) && decide (c.toNat ≤ 90) <;> rfl

theorem isAlpha_eq (c : Char) : isAlpha c = Spec.isLetter c := by
  simp only [isAlpha, isLower, isUpper, Spec.isLetter, Spec.isUpperLetter]
  have e1 : 'a'.toNat = 97 := by decide
  have e2 : 'z'.toNat = 122 := by decide
  have e3 : 'A'.toNat = 65 := by decide
  have e4 : 'Z'.toNat = 90 := by decide
  rw [e1, e2, e3, e4, Bool.or_comm]

theorem isUpper_eq (c : Char) : isUpper c = Spec.isUpperLetter c := by
  simp only [isUpper, Spec.isUpperLetter]
  have e3 : 'A'.toNat = 65 := by decide
  have e4 : 'Z'.toNat = 90 := by decide
  rw [e3, e4]

theorem isWs_eq (c : Char) : isWs c = Spec.isSpace c := by
  simp only [isWs, Spec.isSpace, Spec.spaceCodes, beq_char, List.contains_cons, List.contains_nil, Bool.or_false]
  have h1 : ' '.toNat = 0x20 := by decide
  have h2 : '\t'.toNat = 0x09 := by decide
  have h3 : '\u00A0'.toNat = 0xA0 := by decide
  have h4 : '\uFEFF'.toNat = 0xFEFF := by decide
  have h5 : '\u1680'.toNat = 0x1680 := by decide
  have h6 : '\u180E'.toNat = 0x180E := by decide
  have h7 : '\u202F'.toNat = 0x202F := by decide
  have h8 : '\u205F'.toNat = 0x205F := by decide
  have h9 : '\u3000'.toNat = 0x3000 := by decide
  rw [h1, h2, h3, h4, h5, h6, h7, h8, h9]
  generalize c.toNat = n
  rw [Bool.eq_iff_iff]
  simp only [Bool.or_eq_true, Bool.and_eq_true, decide_eq_true_eq, beq_iff_eq]
  omega

theorem isEolChar_eq (c : Char) : isEolChar c = Spec.isNewline c := by
  simp only [isEolChar, Spec.isNewline, Spec.newlineCodes, beq_char, List.contains_cons, List.contains_nil, Bool.or_false]
  have h1 : '\n'.toNat = 0x0A := by decide
  have h2 : '\r'.toNat = 0x0D := by decide
  have h3 : '\u2028'.toNat = 0x2028 := by decide
  have h4 : '\u2029'.toNat = 0x2029 := by decide
  rw [h1, h2, h3, h4]
  simp only [Bool.or_assoc]

theorem isTrim_eq (c : Char) : isTrim c = Spec.isTrimmed c := by
  simp only [isTrim, Spec.isTrimmed, Spec.isSpace, Spec.isNewline, Spec.spaceCodes, Spec.newlineCodes, beq_char,
    List.contains_cons, List.contains_nil, Bool.or_false]
  have h1 : ' '.toNat = 0x20 := by decide
  have h2 : '\n'.toNat = 0x0A := by decide
  have h2' : '\r'.toNat = 0x0D := by decide
  have h3 : '\u00A0'.toNat = 0xA0 := by decide
  have h4 : '\uFEFF'.toNat = 0xFEFF := by decide
  have h5 : '\u1680'.toNat = 0x1680 := by decide
  have h6 : '\u180E'.toNat = 0x180E := by decide
  have h7 : '\u202F'.toNat = 0x202F := by decide
  have h8 : '\u205F'.toNat = 0x205F := by decide
  have h9 : '\u3000'.toNat = 0x3000 := by decide
  have h10 : '\u2028'.toNat = 0x2028 := by decide
  have h11 : '\u2029'.toNat = 0x2029 := by decide
  rw [h1, h2, h2', h3, h4, h5, h6, h7, h8, h9, h10, h11]
  generalize c.toNat = n
  rw [Bool.eq_iff_iff]
  simp only [Bool.or_eq_true, Bool.and_eq_true, decide_eq_true_eq, beq_iff_eq, bne_iff_ne, ne_eq]
  omega

/-- `trim_doc` of the model is the specification's trimming -/
theorem trimDoc_eq (d : Str) : trimDoc d = Spec.trim d := by
  have : isTrim = Spec.isTrimmed := funext isTrim_eq
  simp only [trimDoc, Spec.trim, this]

/-! ### takeWhile / dropWhile helpers -/

theorem takeWhile_append_all {α} (p : α → Bool) (a r : List α) (ha : ∀ x ∈ a, p x = true)
    (hr : ∀ c r', r = c :: r' → p c = false) :
    (a ++ r).takeWhile p = a ∧ (a ++ r).dropWhile p = r := by
  induction a with
  | nil =>
    cases r with
    | nil => simp
    | cons c r' => have := hr c r' rfl; simp [this]
  | cons x a ih =>
    have hx := ha x (by simp)
    have := ih (fun y hy => ha y (by simp [hy]))
    simp [hx, this.1, this.2]

theorem dropWhile_head_false {α} (p : α → Bool) (s : List α) (c : α) (r : List α)
    (h : s.dropWhile p = c :: r) : p c = false := by
  induction s with
  | nil => simp at h
  | cons x s ih =>
    simp only [List.dropWhile] at h
    cases hx : p x with
    | true => rw [hx] at h; exact ih h
    | false => rw [hx] at h; simp only [List.cons.injEq] at h; rw [← h.1]; exact hx

theorem mem_takeWhile_imp {α} (p : α → Bool) (s : List α) : ∀ x ∈ s.takeWhile p, p x = true := by
  induction s with
  | nil => simp
  | cons a s ih =>
    intro x hx
    simp only [List.takeWhile] at hx
    cases ha : p a with
    | true =>
      rw [ha] at hx
      simp only [List.mem_cons] at hx
      rcases hx with rfl | hx
      · exact ha
      · exact ih x hx
    | false => rw [ha] at hx; simp at hx

/-! ### `name` ⟷ `Spec.isTypeName` -/

/-- the next character cannot continue a name -/
def NoAlnumAhead (r : Input) : Prop := ∀ c r', r = c :: r' → isAlnum c = false

theorem name_sound {s w r} (h : name s = some (w, r)) :
    s = w ++ r ∧ Spec.isTypeName w = true ∧ NoAlnumAhead r := by
  refine ⟨(good_name _ _ _ h).1, ?_, ?_⟩
  · cases s with
    | nil => simp [name] at h
    | cons c s =>
      simp only [name] at h
      split at h
      · rename_i hc
        simp only [Option.some.injEq, Prod.mk.injEq] at h
        obtain ⟨rfl, _⟩ := h
        simp only [Spec.isTypeName, Bool.and_eq_true, List.all_eq_true]
        refine ⟨by rw [← isUpper_eq]; exact hc, ?_⟩
        intro x hx
        rw [← isAlnum_eq]
        exact mem_takeWhile_imp _ _ x hx
      · simp at h
  · cases s with
    | nil => simp [name] at h
    | cons c s =>
      simp only [name] at h
      split at h
      · simp only [Option.some.injEq, Prod.mk.injEq] at h
        obtain ⟨_, rfl⟩ := h
        intro c' r' hr
        exact dropWhile_head_false _ _ _ _ hr
      · simp at h

theorem name_complete {w r} (hw : Spec.isTypeName w = true) (hr : NoAlnumAhead r) :
    name (w ++ r) = some (w, r) := by
  cases w with
  | nil => simp [Spec.isTypeName] at hw
  | cons c w =>
    simp only [Spec.isTypeName, Bool.and_eq_true, List.all_eq_true] at hw
    have hc : isUpper c = true := by rw [isUpper_eq]; exact hw.1
    have := takeWhile_append_all isAlnum w r (fun x hx => by rw [isAlnum_eq]; exact hw.2 x hx) hr
    simp [name, hc, this.1, this.2]

/-! ### generic facts about possessive repetition -/

/-- with enough fuel the repetition stops only where the rule fails -/
theorem manyF_stops {p} (hp : Good p) : ∀ n s, s.length ≤ n → p (manyF p n s).2 = none := by
  intro n
  induction n with
  | zero =>
    intro s hs
    have : s = [] := List.eq_nil_of_length_eq_zero (by omega)
    subst this
    simp only [manyF]
    cases h : p [] with
    | none => rfl
    | some x =>
      obtain ⟨t, r⟩ := x
      have := hp.shrinks _ _ _ h
      simp at this
  | succ n ih =>
    intro s hs
    simp only [manyF]
    split
    · rename_i t r h
      have := hp.shrinks _ _ _ h
      exact ih r (by omega)
    · rename_i h; exact h

theorem manyF_none {p} {n s} (h : p s = none) : manyF p n s = ([], s) := by
  cases n with
  | zero => rfl
  | succ n => simp [manyF, h]

theorem manyF_step {p} {n s t r} (h : p s = some (t, r)) :
    manyF p (n + 1) s = (t ++ (manyF p n r).1, (manyF p n r).2) := by
  simp [manyF, h]


/-! ### `field_name` ⟷ `Spec.isFieldName` -/

theorem fieldNameStep_shape {s t r} (h : fieldNameStep s = some (t, r)) :
    (∃ d, t = ['_', d] ∧ isAlnum d = true) ∨ (∃ c, t = [c] ∧ c ≠ '_' ∧ isAlnum c = true) := by
  cases s with
  | nil => simp [fieldNameStep] at h
  | cons c s =>
    simp only [fieldNameStep] at h
    split at h
    · rename_i hc
      split at h
      · rename_i d r'
        split at h
        · rename_i hd
          simp only [Option.some.injEq, Prod.mk.injEq] at h
          exact Or.inl ⟨d, by rw [← h.1, hc], hd⟩
        · simp at h
      · simp at h
    · rename_i hc
      split at h
      · rename_i ha
        simp only [Option.some.injEq, Prod.mk.injEq] at h
        exact Or.inr ⟨c, h.1.symm, hc, ha⟩
      · simp at h

theorem fieldTail_step {s t r} (h : fieldNameStep s = some (t, r)) (t' : Str) :
    Spec.fieldTail (t ++ t') = Spec.fieldTail t' := by
  rcases fieldNameStep_shape h with ⟨d, rfl, hd⟩ | ⟨c, rfl, hc, ha⟩
  · rw [isAlnum_eq] at hd
    simp [Spec.fieldTail, hd]
  · rw [isAlnum_eq] at ha
    simp only [List.cons_append, List.nil_append]
    rw [Spec.fieldTail.eq_def]
    simp only [if_neg hc, ha, Bool.true_and]

theorem manyF_fieldTail : ∀ n s, Spec.fieldTail (manyF fieldNameStep n s).1 = true := by
  intro n
  induction n with
  | zero => intro s; simp [manyF, Spec.fieldTail]
  | succ n ih =>
    intro s
    simp only [manyF]
    split
    · rename_i t r h
      simp only
      rw [fieldTail_step h]; exact ih r
    · simp [Spec.fieldTail]

theorem manyF_fieldNameStep_complete : ∀ (t : Str) (r : Input) (n : Nat), Spec.fieldTail t = true →
    fieldNameStep r = none → (t ++ r).length ≤ n → manyF fieldNameStep n (t ++ r) = (t, r)
  | [], r, n, _, hr, _ => by simpa using manyF_none hr
  | [c], r, n, ht, hr, hn => by
    simp only [Spec.fieldTail] at ht
    split at ht
    · simp at ht
    · rename_i hc
      simp only [Bool.and_true] at ht
      cases n with
      | zero => simp at hn
      | succ n =>
        have hs : fieldNameStep ([c] ++ r) = some ([c], r) := by
          simp [fieldNameStep, hc, isAlnum_eq, ht]
        rw [manyF_step hs, manyF_none hr]
        rfl
  | c :: d :: t, r, n, ht, hr, hn => by
    simp only [Spec.fieldTail] at ht
    cases n with
    | zero => simp at hn
    | succ n =>
      simp only [List.cons_append, List.length_cons, List.length_append] at hn
      split at ht
      · rename_i hc
        simp only [Bool.and_eq_true] at ht
        have hs : fieldNameStep (c :: d :: t ++ r) = some ([c, d], t ++ r) := by
          simp [fieldNameStep, hc, isAlnum_eq, ht.1]
        have ih := manyF_fieldNameStep_complete t r n ht.2 hr (by simp only [List.length_append]; omega)
        rw [manyF_step hs, ih]
        rfl
      · rename_i hc
        simp only [Bool.and_eq_true] at ht
        have hs : fieldNameStep (c :: d :: t ++ r) = some ([c], d :: t ++ r) := by
          simp [fieldNameStep, hc, isAlnum_eq, ht.1]
        have ih := manyF_fieldNameStep_complete (d :: t) r n ht.2 hr (by simp; omega)
        rw [manyF_step hs]
        simp only [List.cons_append] at ih ⊢
        rw [ih]
        rfl

theorem fieldNameF_sound {n s w r} (hn : s.length ≤ n) (h : fieldNameF n s = some (w, r)) :
    s = w ++ r ∧ Spec.isFieldName w = true ∧ fieldNameStep r = none := by
  refine ⟨(good_fieldNameF n _ _ _ h).1, ?_⟩
  cases s with
  | nil => simp [fieldNameF] at h
  | cons c s =>
    simp only [fieldNameF] at h
    split at h
    · rename_i hc
      simp only [Option.some.injEq, Prod.mk.injEq] at h
      obtain ⟨rfl, rfl⟩ := h
      simp only [List.length_cons] at hn
      refine ⟨?_, manyF_stops good_fieldNameStep n s (by omega)⟩
      simp only [Spec.isFieldName, Bool.and_eq_true]
      exact ⟨by rw [← isAlpha_eq]; exact hc, manyF_fieldTail n s⟩
    · simp at h

theorem fieldNameF_complete {n w r} (hn : (w ++ r).length ≤ n) (hw : Spec.isFieldName w = true)
    (hr : fieldNameStep r = none) : fieldNameF n (w ++ r) = some (w, r) := by
  cases w with
  | nil => simp [Spec.isFieldName] at hw
  | cons c w =>
    simp only [Spec.isFieldName, Bool.and_eq_true] at hw
    have hc : isAlpha c = true := by rw [isAlpha_eq]; exact hw.1
    simp only [List.cons_append, List.length_cons] at hn
    simp only [List.cons_append, fieldNameF, hc, if_true]
    rw [manyF_fieldNameStep_complete w r n hw.2 hr (by omega)]

end VV.Idl
