/-
Lemmas.IdlWFNoEsc — the names of a well-formed definition contain no ESC character, so the
colored-vs-plain theorem applies to every definition the parser returns.
-/
import VarlinkVerif.Lemmas.IdlWF

namespace VV.Idl
open Gram Fmt

theorem ld_ne_esc {c : Char} (h : Spec.isLetterOrDigit c = true) : c ≠ ESC := by
  intro e; subst e; revert h; decide

theorem noEsc_of_all {w : Str} (h : ∀ c ∈ w, Spec.isLetterOrDigit c = true ∨ c = '_' ∨ c = '-' ∨ c = '.') : NoEsc w := by
  intro c hc
  rcases h c hc with h | h | h | h
  · exact ld_ne_esc h
  · subst h; decide
  · subst h; decide
  · subst h; decide

theorem noEsc_of_isTypeName {n : Str} (h : Spec.isTypeName n = true) : NoEsc n := by
  cases n with
  | nil => simp [Spec.isTypeName] at h
  | cons c r =>
    simp only [Spec.isTypeName, Bool.and_eq_true, List.all_eq_true] at h
    apply noEsc_of_all
    intro x hx
    simp only [List.mem_cons] at hx
    rcases hx with rfl | hx
    · exact Or.inl (by simp [Spec.isLetterOrDigit, Spec.isLetter, h.1])
    · exact Or.inl (h.2 x hx)

theorem fieldTail_chars : ∀ (r : Str), Spec.fieldTail r = true → ∀ x ∈ r, Spec.isLetterOrDigit x = true ∨ x = '_'
  | [], _ => by simp
  | [c], h => by
    intro x hx
    simp only [List.mem_singleton] at hx; subst hx
    rw [Spec.fieldTail.eq_def] at h
    simp only at h
    split at h
    · simp at h
    · simp only [Bool.and_eq_true] at h; exact Or.inl h.1
  | c :: d :: r, h => by
    intro x hx
    rw [Spec.fieldTail.eq_def] at h
    simp only at h
    split at h
    · rename_i hc
      simp only [Bool.and_eq_true] at h
      simp only [List.mem_cons] at hx
      rcases hx with rfl | rfl | hx
      · exact Or.inr hc
      · exact Or.inl h.1
      · exact fieldTail_chars r h.2 x hx
    · simp only [Bool.and_eq_true] at h
      simp only [List.mem_cons] at hx
      rcases hx with rfl | hx
      · exact Or.inl h.1
      · exact fieldTail_chars (d :: r) h.2 x (by simpa using hx)

theorem noEsc_of_isFieldName {n : Str} (h : Spec.isFieldName n = true) : NoEsc n := by
  cases n with
  | nil => simp [Spec.isFieldName] at h
  | cons c r =>
    simp only [Spec.isFieldName, Bool.and_eq_true] at h
    apply noEsc_of_all
    intro x hx
    simp only [List.mem_cons] at hx
    rcases hx with rfl | hx
    · exact Or.inl (by simp [Spec.isLetterOrDigit, h.1])
    · rcases fieldTail_chars r h.2 x hx with h' | h'
      · exact Or.inl h'
      · exact Or.inr (Or.inl h')

theorem mem_splitOn (sep : Char) : ∀ (w : Str) (c : Char), c ∈ w → c = sep ∨ ∃ e ∈ Spec.splitOn sep w, c ∈ e
  | [], _, h => by simp at h
  | x :: w, c, h => by
    simp only [List.mem_cons] at h
    by_cases hx : x = sep
    · rcases h with rfl | h
      · exact Or.inl hx
      · rcases mem_splitOn sep w c h with h' | ⟨e, he, hc⟩
        · exact Or.inl h'
        · exact Or.inr ⟨e, by simp [Spec.splitOn, hx, he], hc⟩
    · simp only [Spec.splitOn, if_neg hx]
      cases hs : Spec.splitOn sep w with
      | nil => exact absurd hs (splitOn_ne_nil sep w)
      | cons l ls =>
        rcases h with rfl | h
        · exact Or.inr ⟨c :: l, by simp, by simp⟩
        · rcases mem_splitOn sep w c h with h' | ⟨e, he, hc⟩
          · exact Or.inl h'
          · rw [hs] at he
            simp only [List.mem_cons] at he
            rcases he with rfl | he
            · exact Or.inr ⟨x :: e, by simp, by simp [hc]⟩
            · exact Or.inr ⟨e, by simp [he], hc⟩

theorem noEsc_of_isInterfaceName {w : Str} (h : Spec.isInterfaceName w = true) : NoEsc w := by
  simp only [Spec.isInterfaceName, Bool.and_eq_true, decide_eq_true_eq, List.all_eq_true] at h
  apply noEsc_of_all
  intro c hc
  rcases mem_splitOn '.' w c hc with h' | ⟨e, he, hce⟩
  · exact Or.inr (Or.inr (Or.inr h'))
  · have hok := h.1.2 e he
    simp only [Spec.okElement, Bool.and_eq_true, List.all_eq_true, Bool.or_eq_true, beq_iff_eq] at hok
    rcases hok.1.1.2 c hce with h1 | h1
    · exact Or.inl h1
    · exact Or.inr (Or.inr (Or.inl h1))

mutual
theorem tyNoEsc_of_wf : ∀ (t : Ty), WFTy t → TyNoEsc t
  | .bool, _ => by simp [TyNoEsc]
  | .int, _ => by simp [TyNoEsc]
  | .float, _ => by simp [TyNoEsc]
  | .string, _ => by simp [TyNoEsc]
  | .object, _ => by simp [TyNoEsc]
  | .typename n, h => by rw [WFTy] at h; rw [TyNoEsc]; exact noEsc_of_isTypeName h
  | .struct fs, h => by rw [WFTy] at h; rw [TyNoEsc]; exact fieldsNoEsc_of_wf fs h
  | .enum es, h => by rw [WFTy] at h; rw [TyNoEsc]; exact fun e he => noEsc_of_isFieldName (h.2 e he)
  | .array t, h => by rw [WFTy] at h; rw [TyNoEsc]; exact tyNoEsc_of_wf t h
  | .dict t, h => by rw [WFTy] at h; rw [TyNoEsc]; exact tyNoEsc_of_wf t h
  | .option t, h => by rw [WFTy] at h; rw [TyNoEsc]; exact tyNoEsc_of_wf t h.1
theorem fieldsNoEsc_of_wf : ∀ (fs : Fields), WFFields fs → FieldsNoEsc fs
  | .nil, _ => by simp [FieldsNoEsc]
  | .cons n t r, h => by
    rw [WFFields] at h
    rw [FieldsNoEsc]
    exact ⟨noEsc_of_isFieldName h.1, tyNoEsc_of_wf t h.2.1, fieldsNoEsc_of_wf r h.2.2⟩
end

theorem memberNoEsc_of_wf {m : Member} (h : WFMember m) : MemberNoEsc m := by
  obtain ⟨hn, _, hb⟩ := h
  refine ⟨noEsc_of_isTypeName hn, ?_⟩
  cases hbd : m.body with
  | typeStruct f => rw [hbd] at hb; exact fieldsNoEsc_of_wf f hb
  | typeEnum es => rw [hbd] at hb; exact fun e he => noEsc_of_isFieldName (hb.2 e he)
  | method i o => rw [hbd] at hb; exact ⟨fieldsNoEsc_of_wf i hb.1, fieldsNoEsc_of_wf o hb.2⟩
  | error f => rw [hbd] at hb; exact fieldsNoEsc_of_wf f hb

theorem idlNoEsc_of_wf {i : IDL} (h : WFIdl i) : IdlNoEsc i :=
  ⟨noEsc_of_isInterfaceName h.name, fun m hm => memberNoEsc_of_wf (h.tkind m hm).2,
    fun m hm => memberNoEsc_of_wf (h.mkind m hm).2, fun m hm => memberNoEsc_of_wf (h.ekind m hm).2⟩

end VV.Idl
