/-
Lemmas.UpgradedLoop — conservation of the byte stream through the worker's
upgraded-mode loop, and the closed form for the record-wise policy.
-/
import VarlinkVerif.Model.UpgradedLoop

namespace VV

/-- the tie to server.rs for the closure's bookkeeping: in upgraded mode the returned bytes are always kept -/
theorem keepUnread_upgraded (sw : Bool) : Extracted.keepUnread sw true = true := by
  cases sw <;> rfl

@[simp] theorem workerUnread_upgraded (sw : Bool) (u : Bytes) : workerUnread sw true u = u := by
  simp [workerUnread, keepUnread_upgraded]

/-- … the switch is recognised exactly once, and buffered bytes are handed over without waiting for more -/
theorem switchedNow_spec :
    Extracted.switchedNow false true = true ∧ Extracted.switchedNow true true = false ∧
    Extracted.switchedNow false false = false := by
  decide

theorem handOverAtOnce_spec (e : Bool) : Extracted.handOverAtOnce true e = !e := by
  cases e <;> rfl

theorem UpPolicy.pull_conserves (p : UpPolicy) (buf : Bytes) (segs : List Bytes) :
    (p.pull buf segs).1 ++ (p.pull buf segs).2.flatten = buf ++ segs.flatten := by
  induction segs generalizing buf with
  | nil => simp [UpPolicy.pull]
  | cons s segs ih =>
    unfold UpPolicy.pull
    split
    · rw [ih]; simp
    · simp

theorem UpPolicy.step_conserves (p : UpPolicy) (u : Bytes) (segs : List Bytes) :
    (p.step u segs).1 ++ (p.step u segs).2.1 ++ (p.step u segs).2.2.flatten = u ++ segs.flatten := by
  simp only [UpPolicy.step, List.take_append_drop]
  exact p.pull_conserves u segs

theorem UpPolicy.loop_conserves (p : UpPolicy) (n : Nat) (u : Bytes) (segs : List Bytes) :
    (p.loop n u segs).1.flatten ++ (p.loop n u segs).2.1 ++ (p.loop n u segs).2.2.flatten
      = u ++ segs.flatten := by
  induction n generalizing u segs with
  | zero => simp [UpPolicy.loop]
  | succ n ih =>
    have hs := p.step_conserves u segs
    simp only [UpPolicy.loop, workerUnread_upgraded]
    by_cases he : (p.step u segs).2.2.isEmpty = true
    · have h0 : (p.step u segs).2.2 = [] := by simpa using he
      simp only [he, if_true]
      simp [h0] at hs ⊢
      exact hs
    · have hf : (p.step u segs).2.2.isEmpty = false := by simpa using he
      simp only [hf, Bool.false_eq_true, if_false]
      have := ih (p.step u segs).2.1 (p.step u segs).2.2
      simp only [workerUnread_upgraded, List.flatten_cons, List.append_assoc] at this ⊢
      rw [this]
      simpa [List.append_assoc] using hs

/-! ### records -/

theorem hasNl_append (a b : Bytes) : hasNl (a ++ b) = (hasNl a || hasNl b) := by
  simp [hasNl, List.any_append]

theorem hasNl_cons (b : UInt8) (bs : Bytes) : hasNl (b :: bs) = (b == 10 || hasNl bs) := by
  simp [hasNl]

theorem through_of_no_nl (x : Bytes) (h : hasNl x = false) : throughLastNl x = [] := by
  cases x with
  | nil => rfl
  | cons b bs => simp [throughLastNl, h]

theorem after_of_no_nl (x : Bytes) (h : hasNl x = false) : afterLastNl x = x := by
  cases x with
  | nil => rfl
  | cons b bs => simp [afterLastNl, h]

theorem through_append_of_nl (a x : Bytes) (h : hasNl x = true) :
    throughLastNl (a ++ x) = a ++ throughLastNl x := by
  induction a with
  | nil => rfl
  | cons b a ih =>
    have : hasNl (b :: (a ++ x)) = true := by rw [hasNl_cons, hasNl_append, h]; simp
    simp [throughLastNl, this, ih]

theorem through_append_no_nl (a x : Bytes) (h : hasNl x = false) :
    throughLastNl (a ++ x) = throughLastNl a := by
  induction a with
  | nil => simpa [throughLastNl] using through_of_no_nl x h
  | cons b a ih =>
    have : hasNl (b :: (a ++ x)) = hasNl (b :: a) := by
      rw [hasNl_cons, hasNl_cons, hasNl_append, h]; simp
    simp only [List.cons_append, throughLastNl, this, ih]

theorem after_append_of_nl (a x : Bytes) (h : hasNl x = true) :
    afterLastNl (a ++ x) = afterLastNl x := by
  induction a with
  | nil => rfl
  | cons b a ih =>
    have : hasNl (b :: (a ++ x)) = true := by rw [hasNl_cons, hasNl_append, h]; simp
    simp [afterLastNl, this, ih]

theorem after_append_no_nl (a x : Bytes) (h : hasNl x = false) :
    afterLastNl (a ++ x) = afterLastNl a ++ x := by
  induction a with
  | nil => simpa [afterLastNl] using after_of_no_nl x h
  | cons b a ih =>
    have : hasNl (b :: (a ++ x)) = hasNl (b :: a) := by
      rw [hasNl_cons, hasNl_cons, hasNl_append, h]; simp
    simp only [List.cons_append, afterLastNl, this, ih]
    split <;> simp

theorem through_append_after (b : Bytes) : throughLastNl b ++ afterLastNl b = b := by
  induction b with
  | nil => rfl
  | cons x xs ih =>
    simp only [throughLastNl, afterLastNl]
    split
    · simp [ih]
    · simp

theorem hasNl_after (b : Bytes) : hasNl (afterLastNl b) = false := by
  induction b with
  | nil => rfl
  | cons x xs ih =>
    simp only [afterLastNl]
    split
    · exact ih
    · rename_i h; simpa using h

/-- splitting a stream after any prefix: the records of the whole are the records of the prefix followed by
    the records of (the prefix's unfinished record ++ the remainder) -/
theorem through_split (b x : Bytes) :
    throughLastNl (b ++ x) = throughLastNl b ++ throughLastNl (afterLastNl b ++ x) := by
  cases hx : hasNl x with
  | true =>
    rw [through_append_of_nl b x hx, through_append_of_nl (afterLastNl b) x hx, ← List.append_assoc,
      through_append_after]
  | false =>
    have : hasNl (afterLastNl b ++ x) = false := by rw [hasNl_append, hasNl_after, hx]; rfl
    rw [through_append_no_nl b x hx, through_of_no_nl _ this]; simp

theorem after_split (b x : Bytes) : afterLastNl (b ++ x) = afterLastNl (afterLastNl b ++ x) := by
  cases hx : hasNl x with
  | true => rw [after_append_of_nl b x hx, after_append_of_nl (afterLastNl b) x hx]
  | false =>
    rw [after_append_no_nl b x hx, after_append_no_nl (afterLastNl b) x hx,
      after_of_no_nl (afterLastNl b) (hasNl_after b)]

/-! ### the record-wise policy -/

theorem linePull_spec (buf : Bytes) (segs : List Bytes) :
    ((linePolicy.pull buf segs).2 = [] ∨ hasNl (linePolicy.pull buf segs).1 = true) ∧
    (linePolicy.pull buf segs).2.length ≤ segs.length ∧
    (hasNl buf = false → segs ≠ [] → (linePolicy.pull buf segs).2.length < segs.length) := by
  induction segs generalizing buf with
  | nil => simp [UpPolicy.pull]
  | cons s segs ih =>
    unfold UpPolicy.pull
    cases hb : hasNl buf with
    | true => simp [linePolicy, hb]
    | false =>
      have hm : linePolicy.more buf = true := by simp [linePolicy, hb]
      simp only [hm, if_true]
      obtain ⟨h1, h2, _⟩ := ih (buf ++ s)
      refine ⟨h1, by simp; omega, fun _ _ => by simp; omega⟩

theorem take_through (b : Bytes) :
    b.take (min (throughLastNl b).length b.length) = throughLastNl b ∧
    b.drop (min (throughLastNl b).length b.length) = afterLastNl b := by
  have hsplit := through_append_after b
  have hlen : (throughLastNl b).length ≤ b.length := by
    have := congrArg List.length hsplit; simp at this; omega
  rw [Nat.min_eq_left hlen]
  constructor
  · conv => lhs; arg 2; rw [← hsplit]
    simp
  · conv => lhs; arg 2; rw [← hsplit]
    simp

theorem lineStep_spec (u : Bytes) (segs : List Bytes) :
    (linePolicy.step u segs).1 = throughLastNl (linePolicy.pull u segs).1 ∧
    (linePolicy.step u segs).2.1 = afterLastNl (linePolicy.pull u segs).1 ∧
    (linePolicy.step u segs).2.2 = (linePolicy.pull u segs).2 := by
  have t := take_through (linePolicy.pull u segs).1
  exact ⟨t.1, t.2, rfl⟩

/-- **closed form**: whatever the segmentation, the record-wise handler processes exactly the complete
    records of the handed-over stream and is left with the unfinished one -/
theorem lineLoop_spec (n : Nat) (u : Bytes) (segs : List Bytes) (hu : hasNl u = false)
    (hn : segs.length < n) :
    (linePolicy.loop n u segs).1.flatten = throughLastNl (u ++ segs.flatten) ∧
    (linePolicy.loop n u segs).2.1 = afterLastNl (u ++ segs.flatten) ∧
    (linePolicy.loop n u segs).2.2 = [] := by
  induction n generalizing u segs with
  | zero => omega
  | succ n ih =>
    obtain ⟨s1, s2, s3⟩ := lineStep_spec u segs
    obtain ⟨p1, p2, p3⟩ := linePull_spec u segs
    have hc := linePolicy.pull_conserves u segs
    simp only [UpPolicy.loop, workerUnread_upgraded]
    by_cases he : (linePolicy.step u segs).2.2.isEmpty = true
    · have h0 : (linePolicy.pull u segs).2 = [] := by rw [← s3]; simpa using he
      simp only [he, if_true]
      rw [h0] at hc
      simp only [List.flatten_nil, List.append_nil] at hc
      refine ⟨?_, ?_, trivial⟩
      · simp [s1, hc]
      · simp [s2, hc]
    · have hf : (linePolicy.step u segs).2.2.isEmpty = false := by simpa using he
      simp only [hf, Bool.false_eq_true, if_false]
      have hne : (linePolicy.pull u segs).2 ≠ [] := by rw [← s3]; simpa using he
      have hsegs : segs ≠ [] := by
        intro h; subst h; simp [UpPolicy.pull] at hne
      have hlt := p3 hu hsegs
      have := ih (linePolicy.step u segs).2.1 (linePolicy.step u segs).2.2
        (by rw [s2]; exact hasNl_after _) (by rw [s3]; omega)
      obtain ⟨i1, i2, i3⟩ := this
      refine ⟨?_, ?_, i3⟩
      · simp only [List.flatten_cons, i1]
        rw [s1, s2, s3, ← hc]
        exact (through_split _ _).symm
      · rw [i2, s2, s3, ← hc]
        exact (after_split _ _).symm

theorem linePull_of_nl (u : Bytes) (segs : List Bytes) (h : hasNl u = true) :
    linePolicy.pull u segs = (u, segs) := by
  cases segs with
  | nil => rfl
  | cons s segs => simp [UpPolicy.pull, linePolicy, h]

/-- the same without an assumption on what `handle()` had buffered behind the upgrading request
    (it may already hold complete records): one more call suffices -/
theorem lineLoop_spec' (n : Nat) (u : Bytes) (segs : List Bytes) (hn : segs.length + 1 < n) :
    (linePolicy.loop n u segs).1.flatten = throughLastNl (u ++ segs.flatten) ∧
    (linePolicy.loop n u segs).2.1 = afterLastNl (u ++ segs.flatten) ∧
    (linePolicy.loop n u segs).2.2 = [] := by
  cases hu : hasNl u with
  | false => exact lineLoop_spec n u segs hu (by omega)
  | true =>
    obtain ⟨m, rfl⟩ : ∃ m, n = m + 1 := ⟨n - 1, by omega⟩
    obtain ⟨s1, s2, s3⟩ := lineStep_spec u segs
    rw [linePull_of_nl u segs hu] at s1 s2 s3
    simp only at s1 s2 s3
    simp only [UpPolicy.loop, workerUnread_upgraded]
    by_cases he : (linePolicy.step u segs).2.2.isEmpty = true
    · have h0 : segs = [] := by rw [s3] at he; simpa using he
      subst h0
      simp only [he, if_true]
      refine ⟨?_, ?_, trivial⟩
      · simp [s1]
      · simp [s2]
    · have hf : (linePolicy.step u segs).2.2.isEmpty = false := by simpa using he
      simp only [hf, Bool.false_eq_true, if_false]
      obtain ⟨i1, i2, i3⟩ := lineLoop_spec m (linePolicy.step u segs).2.1 (linePolicy.step u segs).2.2
        (by rw [s2]; exact hasNl_after _) (by rw [s3]; omega)
      refine ⟨?_, ?_, i3⟩
      · simp only [List.flatten_cons, i1]
        rw [s1, s2, s3]
        exact (through_split _ _).symm
      · rw [i2, s2, s3]
        exact (after_split _ _).symm

end VV
