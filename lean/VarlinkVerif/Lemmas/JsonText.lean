/-
Lemmas.JsonText — the printer of Model.JsonText never writes a control character,
and the parser reads back what the printer wrote (strings, integers, then whole
trees by mutual structural induction).
-/
import VarlinkVerif.Model.JsonText
import VarlinkVerif.Lemmas.Serde

namespace VV.JsonText
open VV

set_option linter.unusedSectionVars false

/-! ### characters -/

theorem digitChar_toNat : ∀ n, n < 10 → (digitChar n).toNat = 48 + n := by decide

theorem hexDigit_toNat_ge : ∀ n, n < 16 → 32 ≤ (hexDigit n).toNat := by decide

theorem isDig_digitChar : ∀ n, n < 10 → isDig (digitChar n) = true := by decide

theorem digitChar_val : ∀ n, n < 10 → (digitChar n).toNat - 48 = n := by decide

theorem digitChar_eq_zero : ∀ n, n < 10 → (digitChar n = '0' ↔ n = 0) := by decide

/-! ### no control characters -/

theorem escChar_ge (c : Char) : ∀ x ∈ escChar c, 32 ≤ x.toNat := by
  intro x hx
  unfold escChar at hx
  have h16 : c.toNat % 16 < 16 := Nat.mod_lt _ (by decide)
  split at hx
  · simp at hx; rcases hx with rfl | rfl <;> decide
  split at hx
  · simp at hx; rcases hx with rfl | rfl <;> decide
  split at hx
  · simp at hx; rcases hx with rfl | rfl <;> decide
  split at hx
  · simp at hx; rcases hx with rfl | rfl <;> decide
  split at hx
  · simp at hx; rcases hx with rfl | rfl <;> decide
  split at hx
  · simp at hx; rcases hx with rfl | rfl <;> decide
  split at hx
  · simp at hx; rcases hx with rfl | rfl <;> decide
  split at hx
  · rename_i h32
    have h1 : c.toNat / 16 < 16 := by omega
    simp at hx
    rcases hx with rfl | rfl | rfl | rfl | rfl
    · decide
    · decide
    · decide
    · exact hexDigit_toNat_ge _ h1
    · exact hexDigit_toNat_ge _ h16
  · simp at hx; subst hx; omega

theorem escChars_ge (cs : List Char) : ∀ x ∈ escChars cs, 32 ≤ x.toNat := by
  induction cs with
  | nil => simp [escChars]
  | cons c cs ih =>
    intro x hx
    simp only [escChars, List.mem_append] at hx
    rcases hx with hx | hx
    · exact escChar_ge c x hx
    · exact ih x hx

theorem printStr_ge (s : String) : ∀ x ∈ printStr s, 32 ≤ x.toNat := by
  intro x hx
  simp only [printStr, List.mem_cons, List.mem_append, List.not_mem_nil, or_false] at hx
  rcases hx with rfl | hx | rfl
  · decide
  · exact escChars_ge _ x hx
  · decide

theorem natDigitsAux_ge : ∀ (f n : Nat) (acc : List Char), (∀ x ∈ acc, 32 ≤ x.toNat) →
    ∀ x ∈ natDigitsAux f n acc, 32 ≤ x.toNat := by
  intro f
  induction f with
  | zero => intro n acc h; simpa [natDigitsAux] using h
  | succ f ih =>
    intro n acc h x hx
    unfold natDigitsAux at hx
    split at hx
    · rename_i hn
      simp only [List.mem_cons] at hx
      rcases hx with rfl | hx
      · rw [digitChar_toNat n hn]; omega
      · exact h x hx
    · refine ih (n / 10) _ ?_ x hx
      intro y hy
      simp only [List.mem_cons] at hy
      rcases hy with rfl | hy
      · rw [digitChar_toNat _ (Nat.mod_lt _ (by decide))]; omega
      · exact h y hy

theorem printInt_ge (i : Int) : ∀ x ∈ printInt i, 32 ≤ x.toNat := by
  intro x hx
  cases i with
  | ofNat n => exact natDigitsAux_ge _ _ [] (by simp) x hx
  | negSucc n =>
    simp only [printInt, List.mem_cons] at hx
    rcases hx with rfl | hx
    · decide
    · exact natDigitsAux_ge _ _ [] (by simp) x hx

section
variable (F : FloatLayer) (hF : ∀ b, ∀ x ∈ F.fprint b, 32 ≤ x.toNat)
include hF

mutual
  theorem print_ge : ∀ j : Json, ∀ x ∈ print F j, 32 ≤ x.toNat
    | .null => by intro x hx; simp [print] at hx; rcases hx with rfl | rfl | rfl <;> decide
    | .bool true => by intro x hx; simp [print] at hx; rcases hx with rfl | rfl | rfl | rfl <;> decide
    | .bool false => by intro x hx; simp [print] at hx; rcases hx with rfl | rfl | rfl | rfl | rfl <;> decide
    | .int i => by intro x hx; exact printInt_ge i x (by simpa [print] using hx)
    | .flt b => by intro x hx; exact hF b x (by simpa [print] using hx)
    | .str s => by intro x hx; exact printStr_ge s x (by simpa [print] using hx)
    | .arr [] => by intro x hx; simp [print] at hx; rcases hx with rfl | rfl <;> decide
    | .arr (y :: ys) => by
      intro x hx
      simp only [print, List.mem_cons, List.mem_append] at hx
      rcases hx with rfl | hx | hx
      · decide
      · exact print_ge y x hx
      · exact printTail_ge ys x hx
    | .obj [] => by intro x hx; simp [print] at hx; rcases hx with rfl | rfl <;> decide
    | .obj ((k, v) :: ys) => by
      intro x hx
      simp only [print, List.mem_cons, List.mem_append] at hx
      rcases hx with rfl | hx | rfl | hx | hx
      · decide
      · exact printStr_ge k x hx
      · decide
      · exact print_ge v x hx
      · exact printMTail_ge ys x hx
  theorem printTail_ge : ∀ l : List Json, ∀ x ∈ printTail F l, 32 ≤ x.toNat
    | [] => by intro x hx; simp [printTail] at hx; subst hx; decide
    | y :: ys => by
      intro x hx
      simp only [printTail, List.mem_cons, List.mem_append] at hx
      rcases hx with rfl | hx | hx
      · decide
      · exact print_ge y x hx
      · exact printTail_ge ys x hx
  theorem printMTail_ge : ∀ l : List (String × Json), ∀ x ∈ printMTail F l, 32 ≤ x.toNat
    | [] => by intro x hx; simp [printMTail] at hx; subst hx; decide
    | (k, v) :: ys => by
      intro x hx
      simp only [printMTail, List.mem_cons, List.mem_append] at hx
      rcases hx with rfl | hx | rfl | hx | hx
      · decide
      · exact printStr_ge k x hx
      · decide
      · exact print_ge v x hx
      · exact printMTail_ge ys x hx
end
end

/-! ### integers -/

theorem natDigitsAux_acc : ∀ (f n : Nat) (acc : List Char),
    natDigitsAux f n acc = natDigitsAux f n [] ++ acc := by
  intro f
  induction f with
  | zero => intro n acc; simp [natDigitsAux]
  | succ f ih =>
    intro n acc
    unfold natDigitsAux
    split
    · simp
    · rw [ih (n / 10) (digitChar (n % 10) :: acc), ih (n / 10) [digitChar (n % 10)]]
      simp

theorem natOfDigits_cons (a : Nat) (c : Char) (cs : List Char) :
    natOfDigits (c :: cs) a = natOfDigits cs (a * 10 + (c.toNat - 48)) := by rw [natOfDigits]

theorem natOfDigits_append (xs ys : List Char) : ∀ a, natOfDigits (xs ++ ys) a = natOfDigits ys (natOfDigits xs a) := by
  induction xs with
  | nil => intro a; simp only [List.nil_append, natOfDigits]
  | cons x xs ih => intro a; simp only [List.cons_append, natOfDigits_cons, ih]

theorem natDigitsAux_succ (f n : Nat) (acc : List Char) :
    natDigitsAux (f + 1) n acc =
      if n < 10 then digitChar n :: acc else natDigitsAux f (n / 10) (digitChar (n % 10) :: acc) := rfl

theorem natOfDigits_single (a : Nat) (c : Char) : natOfDigits [c] a = a * 10 + (c.toNat - 48) := by
  simp only [natOfDigits]

theorem natOfDigits_natDigitsAux : ∀ (f n : Nat), n < f → natOfDigits (natDigitsAux f n []) 0 = n := by
  intro f
  induction f with
  | zero => intro n h; omega
  | succ f ih =>
    intro n h
    rw [natDigitsAux_succ]
    by_cases hn : n < 10
    · rw [if_pos hn, natOfDigits_single, digitChar_val n hn]; omega
    · rw [if_neg hn, natDigitsAux_acc, natOfDigits_append, ih (n / 10) (by omega), natOfDigits_single,
        digitChar_val _ (Nat.mod_lt n (by omega))]
      omega

def allDig (l : List Char) : Prop := ∀ x ∈ l, isDig x = true

theorem natDigitsAux_shape : ∀ (f n : Nat), n < f →
    ∃ c cs, natDigitsAux f n [] = c :: cs ∧ isDig c = true ∧ allDig cs ∧ (c = '0' → n = 0 ∧ cs = []) := by
  intro f
  induction f with
  | zero => intro n h; omega
  | succ f ih =>
    intro n h
    unfold natDigitsAux
    split
    · rename_i hn
      refine ⟨digitChar n, [], rfl, isDig_digitChar n hn, by simp [allDig], ?_⟩
      intro h0
      exact ⟨(digitChar_eq_zero n hn).1 h0, rfl⟩
    · rename_i hn
      obtain ⟨c, cs, he, hc, hcs, h0⟩ := ih (n / 10) (by omega)
      refine ⟨c, cs ++ [digitChar (n % 10)], ?_, hc, ?_, ?_⟩
      · rw [natDigitsAux_acc, he]; rfl
      · intro x hx
        simp only [List.mem_append, List.mem_cons, List.not_mem_nil, or_false] at hx
        rcases hx with hx | rfl
        · exact hcs x hx
        · exact isDig_digitChar _ (Nat.mod_lt n (by decide))
      · intro hz
        have := (h0 hz).1
        omega

theorem dropDigits_allDig (l : List Char) (h : allDig l) : dropDigits l = [] := by
  induction l with
  | nil => rfl
  | cons x xs ih =>
    have hx : isDig x = true := h x (by simp)
    simp only [dropDigits, hx, if_true]
    exact ih (fun y hy => h y (by simp [hy]))

theorem isDig_ne_minus (c : Char) (h : isDig c = true) : c ≠ '-' := by
  intro e; subst e; revert h; decide

theorem unsignedShape_digits (c : Char) (cs : List Char) (hc : isDig c = true) (hcs : allDig cs)
    (h0 : c = '0' → cs = []) : unsignedShape (c :: cs) = some false := by
  simp only [unsignedShape]
  by_cases hz : c = '0'
  · rw [if_pos hz, h0 hz]; rfl
  · rw [if_neg hz, hc, if_pos rfl, dropDigits_allDig cs hcs]; rfl

theorem isNumChar_of_isDig (c : Char) (h : isDig c = true) : isNumChar c = true := by
  simp [isNumChar, h]

theorem natDigits_spec (n : Nat) :
    ∃ c cs, natDigits n = c :: cs ∧ isDig c = true ∧ allDig cs ∧ (c = '0' → cs = []) ∧
      natOfDigits (c :: cs) 0 = n := by
  obtain ⟨c, cs, he, hc, hcs, h0⟩ := natDigitsAux_shape (n + 1) n (by omega)
  refine ⟨c, cs, he, hc, hcs, fun h => (h0 h).2, ?_⟩
  rw [← he]
  exact natOfDigits_natDigitsAux (n + 1) n (by omega)

theorem printInt_numChars (i : Int) : ∀ x ∈ printInt i, isNumChar x = true := by
  intro x hx
  cases i with
  | ofNat n =>
    obtain ⟨c, cs, he, hc, hcs, _, _⟩ := natDigits_spec n
    simp only [printInt, he, List.mem_cons] at hx
    rcases hx with rfl | hx
    · exact isNumChar_of_isDig _ hc
    · exact isNumChar_of_isDig _ (hcs x hx)
  | negSucc n =>
    obtain ⟨c, cs, he, hc, hcs, _, _⟩ := natDigits_spec (n + 1)
    simp only [printInt, he, List.mem_cons] at hx
    rcases hx with rfl | rfl | hx
    · decide
    · exact isNumChar_of_isDig _ hc
    · exact isNumChar_of_isDig _ (hcs x hx)

theorem parseNumTok_printInt (F : FloatLayer) (i : Int) (hi : intInRange i = true) :
    parseNumTok F (printInt i) = some (.int i) := by
  simp only [intInRange, Bool.and_eq_true, decide_eq_true_eq] at hi
  cases i with
  | ofNat n =>
    obtain ⟨c, cs, he, hc, hcs, h0, hv⟩ := natDigits_spec n
    have hm := isDig_ne_minus c hc
    have hs : numShape (c :: cs) = some false := by
      simp only [numShape, hm, if_false]
      exact unsignedShape_digits c cs hc hcs h0
    have hn : n < 18446744073709551616 := by
      have := hi.2
      simp only [Int.ofNat_eq_natCast] at this
      omega
    simp only [printInt, he, parseNumTok, hs, hm, if_false, hv, hn, if_true]
  | negSucc n =>
    obtain ⟨c, cs, he, hc, hcs, h0, hv⟩ := natDigits_spec (n + 1)
    have hs : numShape ('-' :: c :: cs) = some false := by
      simp only [numShape, if_true]
      exact unsignedShape_digits c cs hc hcs h0
    have hn : n + 1 ≤ 9223372036854775808 := by
      have := hi.1
      omega
    simp only [printInt, he, parseNumTok, hs, if_true, hv]
    simp [hn]

/-! ### strings -/

theorem hexVal_hexDigit : ∀ n, n < 32 →
    hexVal (hexDigit (n / 16)) = some (n / 16) ∧ hexVal (hexDigit (n % 16)) = some (n % 16) := by decide

theorem char_eq_of_toNat (c : Char) (n : Nat) (h : c.toNat = n) : c = Char.ofNat n := by
  rw [← h]; exact (Char.ofNat_toNat c).symm

theorem readEscape_u00 (c : Char) (h : c.toNat < 32) (tail : List Char) :
    readEscape ('u' :: '0' :: '0' :: hexDigit (c.toNat / 16) :: hexDigit (c.toNat % 16) :: tail) = some (c, tail) := by
  obtain ⟨h1, h2⟩ := hexVal_hexDigit c.toNat h
  have hz : hexVal '0' = some 0 := by decide
  simp [readEscape, hex4, h1, h2, hz]
  have e' : c.toNat / 16 * 16 + c.toNat % 16 = c.toNat := Nat.div_add_mod' _ _
  rw [e']
  rw [if_neg (by omega), if_neg (by omega), Char.ofNat_toNat]

theorem parseStrBody_step (f : Nat) (c : Char) (tail : List Char) :
    parseStrBody (f + 1) (escChar c ++ tail) =
      (parseStrBody f tail).map (fun p => (c :: p.1, p.2)) := by
  unfold escChar
  by_cases h1 : c = '"'
  · subst h1; simp [parseStrBody, readEscape]; cases parseStrBody f tail <;> rfl
  rw [if_neg h1]
  by_cases h2 : c = '\\'
  · subst h2; simp [parseStrBody, readEscape]; cases parseStrBody f tail <;> rfl
  rw [if_neg h2]
  by_cases h3 : c.toNat = 8
  · rw [if_pos h3, char_eq_of_toNat c 8 h3]; simp [parseStrBody, readEscape]; cases parseStrBody f tail <;> rfl
  rw [if_neg h3]
  by_cases h4 : c.toNat = 12
  · rw [if_pos h4, char_eq_of_toNat c 12 h4]; simp [parseStrBody, readEscape]; cases parseStrBody f tail <;> rfl
  rw [if_neg h4]
  by_cases h5 : c.toNat = 10
  · rw [if_pos h5, char_eq_of_toNat c 10 h5]; simp [parseStrBody, readEscape]; cases parseStrBody f tail <;> rfl
  rw [if_neg h5]
  by_cases h6 : c.toNat = 13
  · rw [if_pos h6, char_eq_of_toNat c 13 h6]; simp [parseStrBody, readEscape]; cases parseStrBody f tail <;> rfl
  rw [if_neg h6]
  by_cases h7 : c.toNat = 9
  · rw [if_pos h7, char_eq_of_toNat c 9 h7]; simp [parseStrBody, readEscape]; cases parseStrBody f tail <;> rfl
  rw [if_neg h7]
  by_cases h8 : c.toNat < 32
  · rw [if_pos h8]
    simp only [List.cons_append, List.nil_append, parseStrBody]
    rw [readEscape_u00 c h8 tail]
    simp
    cases parseStrBody f tail <;> rfl
  · rw [if_neg h8]
    simp [parseStrBody, h1, h2, h8]
    cases parseStrBody f tail <;> rfl

theorem parseStrBody_escChars : ∀ (cs : List Char) (f : Nat) (rest : List Char), cs.length < f →
    parseStrBody f (escChars cs ++ '"' :: rest) = some (cs, rest) := by
  intro cs
  induction cs with
  | nil =>
    intro f rest h
    obtain ⟨f', rfl⟩ : ∃ f', f = f' + 1 := ⟨f - 1, by omega⟩
    simp [escChars, parseStrBody]
  | cons c cs ih =>
    intro f rest h
    obtain ⟨f', rfl⟩ : ∃ f', f = f' + 1 := ⟨f - 1, by omega⟩
    simp only [List.length_cons] at h
    rw [escChars, List.append_assoc, parseStrBody_step, ih f' rest (by omega)]
    rfl

theorem escChar_length_pos (c : Char) : 1 ≤ (escChar c).length := by
  unfold escChar
  repeat' split
  all_goals simp

theorem escChars_length (cs : List Char) : cs.length ≤ (escChars cs).length := by
  induction cs with
  | nil => simp [escChars]
  | cons c cs ih =>
    have := escChar_length_pos c
    simp only [escChars, List.length_cons, List.length_append]
    omega

theorem parseStr_printStr (s : String) (rest : List Char) :
    parseStr ('"' :: (escChars s.toList ++ '"' :: rest)) = some (s, rest) := by
  have hl := escChars_length s.toList
  simp only [parseStr, if_true]
  rw [parseStrBody_escChars s.toList _ rest (by simp only [List.length_append, List.length_cons]; omega)]
  simp

/-! ### number tokens in context -/

def okRest (rest : List Char) : Prop := ∀ c r, rest = c :: r → isNumChar c = false

theorem spanNum_append (tok rest : List Char) (h : ∀ x ∈ tok, isNumChar x = true) (hr : okRest rest) :
    spanNum (tok ++ rest) = (tok, rest) := by
  induction tok with
  | nil =>
    cases rest with
    | nil => rfl
    | cons c r => simp [spanNum, hr c r rfl]
  | cons x xs ih =>
    have hx : isNumChar x = true := h x (by simp)
    have := ih (fun y hy => h y (by simp [hy]))
    simp [spanNum, hx, this]

theorem numShape_head (tok : List Char) (k : Bool) (h : numShape tok = some k) :
    ∃ c cs, tok = c :: cs ∧ (c = '-' ∨ isDig c = true) := by
  cases tok with
  | nil => simp [numShape] at h
  | cons c cs =>
    refine ⟨c, cs, rfl, ?_⟩
    by_cases hm : c = '-'
    · exact Or.inl hm
    · right
      simp only [numShape, hm, if_false, unsignedShape] at h
      by_cases hz : c = '0'
      · subst hz; decide
      · rw [if_neg hz] at h
        by_cases hd : isDig c = true
        · exact hd
        · simp [hd] at h

theorem parseNumTok_head (F : FloatLayer) (tok : List Char) (j : Json) (h : parseNumTok F tok = some j) :
    ∃ c cs, tok = c :: cs ∧ (c = '-' ∨ isDig c = true) := by
  unfold parseNumTok at h
  cases hs : numShape tok with
  | none => simp [hs] at h
  | some k => exact numShape_head tok k hs

theorem isDig_facts (c : Char) (h : c = '-' ∨ isDig c = true) :
    isWs c = false ∧ c ≠ 'n' ∧ c ≠ 't' ∧ c ≠ 'f' ∧ c ≠ '"' ∧ c ≠ ']' ∧ c ≠ '}' := by
  rcases h with rfl | h
  · decide
  · have h1 : 48 ≤ c.toNat ∧ c.toNat ≤ 57 := by simpa [isDig] using h
    refine ⟨?_, ?_, ?_, ?_, ?_, ?_, ?_⟩
    · simp only [isWs, Bool.or_eq_false_iff, decide_eq_false_iff_not]
      refine ⟨⟨⟨?_, ?_⟩, ?_⟩, ?_⟩ <;> (intro e; subst e; revert h1; decide)
    all_goals (intro e; subst e; revert h1; decide)

theorem parseVal_numTok (F : FloatLayer) (f d : Nat) (tok rest : List Char) (j : Json)
    (hn : ∀ x ∈ tok, isNumChar x = true) (hp : parseNumTok F tok = some j) (hr : okRest rest) :
    parseVal F (f + 1) d (tok ++ rest) = some (j, rest) := by
  obtain ⟨c, cs, he, hc⟩ := parseNumTok_head F tok j hp
  obtain ⟨h1, h2, h3, h4, h5, _, _⟩ := isDig_facts c hc
  have hsp := spanNum_append tok rest hn hr
  have hcd : (c = '-' || isDig c) = true := by
    rcases hc with rfl | h
    · rfl
    · simp [h]
  rw [he] at hsp ⊢
  simp only [List.cons_append] at hsp ⊢
  simp only [parseVal, skipWs, h1, h2, h3, h4, h5, if_false, hcd, if_true, hsp, Bool.false_eq_true]
  rw [← he, hp]

/-! ### whole trees -/

section
variable (F : FloatLayer)

theorem okRest_cons (c : Char) (r : List Char) (h : isNumChar c = false) : okRest (c :: r) := by
  intro c' r' e
  cases e
  exact h

theorem okRest_nil : okRest [] := by intro c r e; cases e

theorem okRest_printTail (l : List Json) (rest : List Char) : okRest (printTail F l ++ rest) := by
  cases l with
  | nil => exact okRest_cons _ _ (by decide)
  | cons x xs => exact okRest_cons _ _ (by decide)

theorem okRest_printMTail (l : List (String × Json)) (rest : List Char) : okRest (printMTail F l ++ rest) := by
  cases l with
  | nil => exact okRest_cons _ _ (by decide)
  | cons x xs => obtain ⟨k, v⟩ := x; exact okRest_cons _ _ (by decide)

/-- the first character of a printed value is neither whitespace nor a closing bracket -/
theorem print_head (j : Json) (hf : faithful F j = true) :
    ∃ c cs, print F j = c :: cs ∧ isWs c = false ∧ c ≠ ']' := by
  cases j with
  | null => exact ⟨_, _, rfl, by decide, by decide⟩
  | bool b => cases b <;> exact ⟨_, _, rfl, by decide, by decide⟩
  | int i =>
    cases i with
    | ofNat n =>
      obtain ⟨c, cs, he, hc, _⟩ := natDigits_spec n
      obtain ⟨h1, _, _, _, _, h6, _⟩ := isDig_facts c (Or.inr hc)
      exact ⟨c, cs, by simp [print, printInt, he], h1, h6⟩
    | negSucc n => exact ⟨'-', _, rfl, by decide, by decide⟩
  | flt b =>
    simp only [faithful, floatTokOk, Bool.and_eq_true, decide_eq_true_eq] at hf
    obtain ⟨c, cs, he, hc⟩ := parseNumTok_head F _ _ hf.2
    obtain ⟨h1, _, _, _, _, h6, _⟩ := isDig_facts c hc
    exact ⟨c, cs, by simp [print, he], h1, h6⟩
  | str s => exact ⟨'"', _, rfl, by decide, by decide⟩
  | arr l => cases l <;> exact ⟨'[', _, rfl, by decide, by decide⟩
  | obj l =>
    cases l with
    | nil => exact ⟨'{', _, rfl, by decide, by decide⟩
    | cons x xs => obtain ⟨k, v⟩ := x; exact ⟨'{', _, rfl, by decide, by decide⟩

theorem isDig_lbracket : isDig '[' = false := by decide
theorem isDig_lbrace : isDig '{' = false := by decide

theorem succ_of_pos (f : Nat) (h : 0 < f) : ∃ f', f = f' + 1 := ⟨f - 1, by omega⟩

mutual
  theorem parseVal_print : ∀ (j : Json) (f d : Nat) (rest : List Char), fits d j = true →
      faithful F j = true → okRest rest → 2 * (print F j).length ≤ f →
      parseVal F f d (print F j ++ rest) = some (j, rest)
    | .null, f, d, rest, _, _, _, hf => by
      obtain ⟨f', rfl⟩ := succ_of_pos f (by simp [print] at hf; omega)
      simp [print, parseVal, skipWs, isWs, expectLit, List.isPrefixOf]
    | .bool true, f, d, rest, _, _, _, hf => by
      obtain ⟨f', rfl⟩ := succ_of_pos f (by simp [print] at hf; omega)
      simp [print, parseVal, skipWs, isWs, expectLit, List.isPrefixOf]
    | .bool false, f, d, rest, _, _, _, hf => by
      obtain ⟨f', rfl⟩ := succ_of_pos f (by simp [print] at hf; omega)
      simp [print, parseVal, skipWs, isWs, expectLit, List.isPrefixOf]
    | .int i, f, d, rest, hfit, _, hr, hf => by
      have hpos : 0 < (printInt i).length := by
        cases i with
        | ofNat n => obtain ⟨c, cs, he, _⟩ := natDigits_spec n; simp [printInt, he]
        | negSucc n => simp [printInt]
      obtain ⟨f', rfl⟩ := succ_of_pos f (by simp only [print] at hf; omega)
      simp only [print]
      exact parseVal_numTok F f' d _ rest _ (printInt_numChars i) (parseNumTok_printInt F i (by simpa [fits] using hfit)) hr
    | .flt b, f, d, rest, _, hfa, hr, hf => by
      simp only [faithful, floatTokOk, Bool.and_eq_true, decide_eq_true_eq, List.all_eq_true] at hfa
      obtain ⟨c, cs, he, _⟩ := parseNumTok_head F _ _ hfa.2
      obtain ⟨f', rfl⟩ := succ_of_pos f (by simp only [print, he, List.length_cons] at hf; omega)
      simp only [print]
      exact parseVal_numTok F f' d _ rest _ hfa.1 hfa.2 hr
    | .str s, f, d, rest, _, _, _, hf => by
      obtain ⟨f', rfl⟩ := succ_of_pos f (by simp [print, printStr] at hf; omega)
      simp only [print, printStr, List.cons_append, List.append_assoc, List.nil_append]
      simp only [parseVal, skipWs]
      simp [isWs, parseStr_printStr]
    | .arr [], f, d, rest, hfit, _, _, hf => by
      obtain ⟨f', rfl⟩ := succ_of_pos f (by simp [print] at hf; omega)
      have hd : ¬ d ≤ 1 := by simp [fits] at hfit; omega
      simp [print, parseVal, skipWs, isWs, hd, isDig_lbracket]
    | .arr (x :: xs), f, d, rest, hfit, hfa, _, hf => by
      simp only [print, List.length_cons, List.length_append] at hf
      obtain ⟨f', rfl⟩ := succ_of_pos f (by omega)
      simp only [fits, fitsList, Bool.and_eq_true, decide_eq_true_eq] at hfit
      simp only [faithful, faithfulList, Bool.and_eq_true] at hfa
      have hd : ¬ d ≤ 1 := by omega
      have hx := parseVal_print x f' (d - 1) (printTail F xs ++ rest) hfit.2.1 hfa.1
        (okRest_printTail F xs rest) (by omega)
      have ht := parseTail_print xs f' (d - 1) rest hfit.2.2 hfa.2 (by omega)
      obtain ⟨c, cs, he, hws, hne⟩ := print_head F x hfa.1
      simp only [print, List.cons_append, List.append_assoc]
      rw [he] at hx ⊢
      simp only [List.cons_append] at hx ⊢
      simp only [parseVal, skipWs, hws, hd, if_false, Bool.false_eq_true]
      simp [isWs, isDig_lbracket]
      have hsk : skipWs (c :: (cs ++ (printTail F xs ++ rest))) = c :: (cs ++ (printTail F xs ++ rest)) := by
        simp only [skipWs, hws, Bool.false_eq_true, if_false]
      rw [hsk]
      simp [hne, hx, ht]
    | .obj [], f, d, rest, hfit, _, _, hf => by
      obtain ⟨f', rfl⟩ := succ_of_pos f (by simp [print] at hf; omega)
      have hd : ¬ d ≤ 1 := by simp [fits] at hfit; omega
      simp [print, parseVal, skipWs, isWs, hd, isDig_lbrace]
    | .obj ((k, v) :: xs), f, d, rest, hfit, hfa, _, hf => by
      simp only [print, printStr, List.length_cons, List.length_append] at hf
      obtain ⟨f', rfl⟩ := succ_of_pos f (by omega)
      simp only [fits, fitsObj, Bool.and_eq_true, decide_eq_true_eq] at hfit
      simp only [faithful, faithfulObj, Bool.and_eq_true] at hfa
      have hd : ¬ d ≤ 1 := by omega
      have hx := parseVal_print v f' (d - 1) (printMTail F xs ++ rest) hfit.2.1 hfa.1
        (okRest_printMTail F xs rest) (by omega)
      have ht := parseMTail_print xs f' (d - 1) rest hfit.2.2 hfa.2 (by omega)
      simp only [print, printStr, List.cons_append, List.append_assoc, List.nil_append]
      simp only [parseVal, skipWs]
      simp [isWs, hd, parseStr_printStr, skipWs, hx, ht, isDig_lbrace]
  theorem parseTail_print : ∀ (l : List Json) (f d : Nat) (rest : List Char), fitsList d l = true →
      faithfulList F l = true → 2 * (printTail F l).length ≤ f →
      parseTail F f d (printTail F l ++ rest) = some (l, rest)
    | [], f, d, rest, _, _, hf => by
      obtain ⟨f', rfl⟩ := succ_of_pos f (by simp [printTail] at hf; omega)
      simp [printTail, parseTail, skipWs, isWs]
    | x :: xs, f, d, rest, hfit, hfa, hf => by
      simp only [printTail, List.length_cons, List.length_append] at hf
      obtain ⟨f', rfl⟩ := succ_of_pos f (by omega)
      simp only [fitsList, Bool.and_eq_true] at hfit
      simp only [faithfulList, Bool.and_eq_true] at hfa
      have hx := parseVal_print x f' d (printTail F xs ++ rest) hfit.1 hfa.1
        (okRest_printTail F xs rest) (by omega)
      have ht := parseTail_print xs f' d rest hfit.2 hfa.2 (by omega)
      simp only [printTail, List.cons_append, List.append_assoc]
      simp only [parseTail, skipWs]
      simp [isWs, hx, ht]
  theorem parseMTail_print : ∀ (l : List (String × Json)) (f d : Nat) (rest : List Char), fitsObj d l = true →
      faithfulObj F l = true → 2 * (printMTail F l).length ≤ f →
      parseMTail F f d (printMTail F l ++ rest) = some (l, rest)
    | [], f, d, rest, _, _, hf => by
      obtain ⟨f', rfl⟩ := succ_of_pos f (by simp [printMTail] at hf; omega)
      simp [printMTail, parseMTail, skipWs, isWs]
    | (k, v) :: xs, f, d, rest, hfit, hfa, hf => by
      simp only [printMTail, printStr, List.length_cons, List.length_append] at hf
      obtain ⟨f', rfl⟩ := succ_of_pos f (by omega)
      simp only [fitsObj, Bool.and_eq_true] at hfit
      simp only [faithfulObj, Bool.and_eq_true] at hfa
      have hx := parseVal_print v f' d (printMTail F xs ++ rest) hfit.1 hfa.1
        (okRest_printMTail F xs rest) (by omega)
      have ht := parseMTail_print xs f' d rest hfit.2 hfa.2 (by omega)
      simp only [printMTail, printStr, List.cons_append, List.append_assoc, List.nil_append]
      simp only [parseMTail, skipWs]
      simp [isWs, parseStr_printStr, skipWs, hx, ht]
end


theorem parseRawD_print (d : Nat) (j : Json) (hfit : fits d j = true) (hfa : faithful F j = true) :
    parseRawD F d (print F j) = some j := by
  have h := parseVal_print F j (fuelFor (print F j)) d [] hfit hfa okRest_nil (by simp [fuelFor])
  simp only [List.append_nil] at h
  simp [parseRawD, h, skipWs]

theorem parseD_print (d : Nat) (j : Json) (hfit : fits d j = true) (hn : j.isNormal = true)
    (hfa : faithful F j = true) : parseD F d (print F j) = some j := by
  simp [parseD, parseRawD_print F d j hfit hfa, norm_of_isNormal j hn]

end

end VV.JsonText
