/-
Lemmas.Serde — helper lemmas about Model.Serde used by Props/C17 and Props/C19.
-/
import VarlinkVerif.Model.Serde

namespace VV

/-! ### sorted association lists -/

theorem kvAdd_head {α : Type} (k : String) (v : α) (k' : String) (v' : α) (rest : List (String × α))
    (h : k < k') : kvAdd k v ((k', v') :: rest) = (k, v) :: (k', v') :: rest := by
  simp [kvAdd, h]

theorem setAdd_head (k k' : String) (rest : List String) (h : k < k') :
    setAdd k (k' :: rest) = k :: k' :: rest := by
  simp [setAdd, h]

theorem strictSorted_tail {a : String} {l : List String} (h : strictSorted (a :: l) = true) :
    strictSorted l = true := by
  cases l with
  | nil => rfl
  | cons b r => simp [strictSorted] at h; exact h.2

/-- adding a key below a sorted list puts it in front -/
theorem kvAdd_sorted_cons {α : Type} (k : String) (v : α) (m : List (String × α))
    (h : strictSorted (k :: m.map (·.1)) = true) : kvAdd k v m = (k, v) :: m := by
  cases m with
  | nil => rfl
  | cons e rest =>
    obtain ⟨k', v'⟩ := e
    simp [strictSorted] at h
    exact kvAdd_head k v k' v' rest h.1

theorem setAdd_sorted_cons (k : String) (m : List String)
    (h : strictSorted (k :: m) = true) : setAdd k m = k :: m := by
  cases m with
  | nil => rfl
  | cons k' rest =>
    simp [strictSorted] at h
    exact setAdd_head k k' rest h.1

/-! ### `Json.norm` is the identity on `Value`s -/

mutual
  theorem norm_of_isNormal : ∀ j : Json, j.isNormal = true → j.norm = j
    | .null, _ => rfl
    | .bool _, _ => rfl
    | .int _, _ => rfl
    | .flt _, _ => rfl
    | .str _, _ => rfl
    | .arr l, h => by
      simp only [Json.isNormal] at h
      simp only [Json.norm, normList_of_isNormal l h]
    | .obj l, h => by
      simp only [Json.isNormal, Bool.and_eq_true] at h
      simp only [Json.norm, normObj_of_isNormal l h.1 h.2]
  theorem normList_of_isNormal : ∀ l : List Json, Json.isNormalList l = true → Json.normList l = l
    | [], _ => rfl
    | x :: xs, h => by
      simp only [Json.isNormalList, Bool.and_eq_true] at h
      simp only [Json.normList, norm_of_isNormal x h.1, normList_of_isNormal xs h.2]
  theorem normObj_of_isNormal : ∀ l : List (String × Json),
      strictSorted (l.map (·.1)) = true → Json.isNormalObj l = true → Json.normObj l = l
    | [], _, _ => rfl
    | (k, v) :: rest, hs, h => by
      simp only [Json.isNormalObj, Bool.and_eq_true] at h
      have hs' : strictSorted (rest.map (·.1)) = true := strictSorted_tail (a := k) (by simpa using hs)
      simp only [Json.normObj, norm_of_isNormal v h.1, normObj_of_isNormal rest hs' h.2]
      exact kvAdd_sorted_cons k v rest (by simpa using hs)
end

/-! ### occurrences of a key -/

theorem occurrences_nil (n : String) : occurrences n [] = [] := rfl

theorem occurrences_cons_eq (n : String) (v : Json) (l : List (String × Json)) :
    occurrences n ((n, v) :: l) = (n, v) :: occurrences n l := by
  simp [occurrences]

theorem occurrences_cons_ne (n k : String) (v : Json) (l : List (String × Json)) (h : k ≠ n) :
    occurrences n ((k, v) :: l) = occurrences n l := by
  simp [occurrences, h]

theorem occurrences_append (n : String) (a b : List (String × Json)) :
    occurrences n (a ++ b) = occurrences n a ++ occurrences n b := by
  simp [occurrences]

theorem occurrences_eq_nil_of_not_mem (n : String) (l : List (String × Json))
    (h : n ∉ l.map (·.1)) : occurrences n l = [] := by
  induction l with
  | nil => rfl
  | cons e rest ih =>
    obtain ⟨k, v⟩ := e
    simp at h
    rw [occurrences_cons_ne n k v rest (fun e => h.1 e.symm)]
    exact ih (by simpa using h.2)

/-- inserting a fresh key: one more occurrence of that key, nothing else changes -/
theorem occurrences_kvAdd (n k : String) (v : Json) (m : List (String × Json))
    (hk : k ∉ m.map (·.1)) :
    occurrences n (kvAdd k v m) = if k = n then [(k, v)] else occurrences n m := by
  induction m with
  | nil =>
    by_cases h : k = n
    · subst h; simp [kvAdd, occurrences]
    · simp [kvAdd, occurrences, h]
  | cons e rest ih =>
    obtain ⟨k', v'⟩ := e
    simp at hk
    have ih' := ih (by simpa using hk.2)
    unfold kvAdd
    by_cases h1 : k < k'
    · simp only [h1, if_true]
      by_cases h : k = n
      · subst h
        rw [occurrences_cons_eq, occurrences_eq_nil_of_not_mem k ((k', v') :: rest) (by simp; exact ⟨hk.1, hk.2⟩)]
        simp
      · rw [occurrences_cons_ne n k v _ h]; simp [h]
    · simp only [h1, if_false, hk.1]
      by_cases h : k' = n
      · subst h
        rw [occurrences_cons_eq, occurrences_cons_eq, ih']
        simp [hk.1]
      · rw [occurrences_cons_ne n k' v' _ h, occurrences_cons_ne n k' v' _ h, ih']

theorem kvAdd_keys_subset {α : Type} (k : String) (v : α) (m : List (String × α)) (x : String)
    (h : x ∈ (kvAdd k v m).map (·.1)) : x = k ∨ x ∈ m.map (·.1) := by
  induction m with
  | nil => simp [kvAdd] at h; exact Or.inl h
  | cons e rest ih =>
    obtain ⟨k', v'⟩ := e
    unfold kvAdd at h
    by_cases h1 : k < k'
    · simp only [h1, if_true] at h; simp at h ⊢; exact h
    · simp only [h1, if_false] at h
      by_cases h2 : k = k'
      · simp only [h2, if_true] at h; exact Or.inr h
      · simp only [h2, if_false] at h
        simp at h ⊢
        cases h with
        | inl h => exact Or.inr (Or.inl h)
        | inr h =>
          have := ih (by simpa using h)
          cases this with
          | inl h => exact Or.inl h
          | inr h => exact Or.inr (Or.inr (by simpa using h))

theorem normObj_keys_subset (l : List (String × Json)) (x : String)
    (h : x ∈ (Json.normObj l).map (·.1)) : x ∈ l.map (·.1) := by
  induction l with
  | nil => simp [Json.normObj] at h
  | cons e rest ih =>
    obtain ⟨k, v⟩ := e
    simp only [Json.normObj] at h
    cases kvAdd_keys_subset k _ _ x h with
    | inl h => simp [h]
    | inr h => simp; exact Or.inr (by simpa using ih h)

/-- in the `Value` made from a document with distinct keys, each key occurs once
    and carries the normal form of its value -/
theorem occurrences_normObj (n : String) (l : List (String × Json))
    (hd : distinct (l.map (·.1)) = true) :
    occurrences n (Json.normObj l) = (occurrences n l).map fun e => (e.1, e.2.norm) := by
  induction l with
  | nil => rfl
  | cons e rest ih =>
    obtain ⟨k, v⟩ := e
    simp [distinct] at hd
    have hk : k ∉ (Json.normObj rest).map (·.1) := fun hmem => by
      have := normObj_keys_subset rest k hmem
      simp at this
      obtain ⟨a, ha⟩ := this
      exact hd.1 a ha
    simp only [Json.normObj]
    rw [occurrences_kvAdd n k v.norm _ hk]
    have ih' := ih (by simpa using hd.2)
    by_cases h : k = n
    · subst h
      rw [occurrences_cons_eq]
      have : occurrences k rest = [] := occurrences_eq_nil_of_not_mem k rest (by
        simp; intro a ha; exact hd.1 a ha)
      simp [this]
    · rw [occurrences_cons_ne n k v rest h]; simp [h, ih']

/-! ### decoding lemmas -/

theorem norm_eq_null_iff (j : Json) : j.norm = .null ↔ j = .null := by
  cases j <;> simp [Json.norm]

theorem decode_opt_of_ne_null (cvt : Int → Nat) (t : Ty) (j : Json) (h : j ≠ .null) :
    decode cvt (.opt t) j = (decode cvt t j).map .some := by
  cases j <;> simp_all [decode]

theorem mapOpt_map {α β γ : Type} (f : β → Option γ) (g : α → β) (h : α → γ) (l : List α)
    (hx : ∀ x ∈ l, f (g x) = some (h x)) : mapOpt f (l.map g) = some (l.map h) := by
  induction l with
  | nil => rfl
  | cons x xs ih =>
    simp only [List.map, mapOpt, hx x (by simp), ih (fun y hy => hx y (by simp [hy]))]

theorem decMapEntries_sorted (f : Json → Option TVal) (g : TVal → Json) (l : List (String × TVal))
    (hs : strictSorted (l.map (·.1)) = true) (hx : ∀ e ∈ l, f (g e.2) = some e.2) :
    decMapEntries f (l.map fun e => (e.1, g e.2)) = some l := by
  induction l with
  | nil => rfl
  | cons e rest ih =>
    obtain ⟨k, v⟩ := e
    have hs' : strictSorted (rest.map (·.1)) = true := strictSorted_tail (a := k) (by simpa using hs)
    simp only [List.map, decMapEntries, hx (k, v) (by simp), ih hs' (fun y hy => hx y (by simp [hy]))]
    rw [kvAdd_sorted_cons k v rest (by simpa using hs)]

theorem decSetEntries_sorted (l : List String) (hs : strictSorted l = true) :
    decSetEntries (l.map fun k => (k, Json.obj [])) = some l := by
  induction l with
  | nil => rfl
  | cons k rest ih =>
    simp only [List.map, decSetEntries, isEmptyStruct, ih (strictSorted_tail hs)]
    rw [setAdd_sorted_cons k rest hs]

/-- the `Value` of a map whose keys are already ascending: values normalised in place -/
theorem normObj_sorted (l : List (String × Json)) (hs : strictSorted (l.map (·.1)) = true) :
    Json.normObj l = l.map fun e => (e.1, e.2.norm) := by
  induction l with
  | nil => rfl
  | cons e rest ih =>
    obtain ⟨k, v⟩ := e
    have hs' : strictSorted (rest.map (·.1)) = true := strictSorted_tail (a := k) (by simpa using hs)
    simp only [Json.normObj, ih hs', List.map]
    exact kvAdd_sorted_cons k v.norm _ (by simpa [Function.comp_def] using hs)

theorem normList_eq_map (l : List Json) : Json.normList l = l.map Json.norm := by
  induction l with
  | nil => rfl
  | cons x xs ih => simp [Json.normList, ih]

/-! ### struct members: what `decodeFieldsObj` needs to find in the object -/

/-- every member of `fs` is either absent from `l` (and then optional, value `None`)
    or occurs exactly once with a value that decodes to the member's value -/
def FieldsPresent (cvt : Int → Nat) (l : List (String × Json)) : Fields → List TVal → Prop
  | [], [] => True
  | (n, _, t) :: fs, v :: vs =>
    ((occurrences n l = [] ∧ t.isOpt = true ∧ v = .none) ∨
     (∃ e, occurrences n l = [(n, e)] ∧ decode cvt t e = some v)) ∧ FieldsPresent cvt l fs vs
  | _, _ => False

theorem decodeFieldsObj_of_present (cvt : Int → Nat) (l : List (String × Json)) :
    ∀ (fs : Fields) (vs : List TVal), FieldsPresent cvt l fs vs → decodeFieldsObj cvt fs l = some vs
  | [], [], _ => by simp [decodeFieldsObj]
  | [], _ :: _, h => by simp [FieldsPresent] at h
  | _ :: _, [], h => by simp [FieldsPresent] at h
  | (n, s, t) :: fs, v :: vs, h => by
    simp only [FieldsPresent] at h
    have ih := decodeFieldsObj_of_present cvt l fs vs h.2
    cases h.1 with
    | inl h1 => simp [decodeFieldsObj, h1.1, h1.2.1, h1.2.2, ih]
    | inr h1 =>
      obtain ⟨e, he, hd⟩ := h1
      simp [decodeFieldsObj, he, hd, ih]

/-! ### the object written for a struct holds each member once -/

/-- in `l`, member `n` occurs exactly as `encodeFields` writes it (`g` = what
    happened to the written value afterwards: nothing, or `Json.norm`) -/
def OccEnc (g : Json → Json) (l : List (String × Json)) : Fields → List TVal → Prop
  | (n, s, t) :: fs, v :: vs =>
    occurrences n l = (if s && v.isNone then [] else [(n, g (encode t v))]) ∧ OccEnc g l fs vs
  | _, _ => True

theorem distinct_cons (x : String) (xs : List String) :
    distinct (x :: xs) = true ↔ x ∉ xs ∧ distinct xs = true := by
  simp [distinct]

theorem fieldNames_cons (n : String) (s : Bool) (t : Ty) (fs : Fields) :
    fieldNames ((n, s, t) :: fs) = n :: fieldNames fs := rfl

theorem encodeFields_keys (fs : Fields) (vs : List TVal) (x : String)
    (h : x ∈ (encodeFields fs vs).map (·.1)) : x ∈ fieldNames fs := by
  induction fs generalizing vs with
  | nil => simp [encodeFields] at h
  | cons f fs ih =>
    obtain ⟨n, s, t⟩ := f
    rw [fieldNames_cons]
    cases vs with
    | nil => simp [encodeFields] at h
    | cons v vs =>
      simp only [encodeFields] at h
      by_cases hc : (s && v.isNone) = true
      · simp only [hc, if_true] at h
        exact List.mem_cons_of_mem _ (ih vs h)
      · have hc' : (s && v.isNone) = false := by simpa using hc
        simp only [hc', Bool.false_eq_true, if_false] at h
        rw [List.map_cons, List.mem_cons] at h
        cases h with
        | inl h => rw [h]; exact List.mem_cons_self
        | inr h => exact List.mem_cons_of_mem _ (ih vs h)

theorem encodeFields_distinct (fs : Fields) (vs : List TVal) (hd : distinct (fieldNames fs) = true) :
    distinct ((encodeFields fs vs).map (·.1)) = true := by
  induction fs generalizing vs with
  | nil => simp [encodeFields, distinct]
  | cons f fs ih =>
    obtain ⟨n, s, t⟩ := f
    cases vs with
    | nil => simp [encodeFields, distinct]
    | cons v vs =>
      rw [fieldNames_cons, distinct_cons] at hd
      have ih' := ih vs hd.2
      simp only [encodeFields]
      by_cases hc : (s && v.isNone) = true
      · simpa only [hc, if_true] using ih'
      · have hc' : (s && v.isNone) = false := by simpa using hc
        simp only [hc', Bool.false_eq_true, if_false]
        rw [List.map_cons, distinct_cons]
        exact ⟨fun hmem => hd.1 (encodeFields_keys fs vs n hmem), ih'⟩

theorem occEnc_encodeFields_aux (pre : List (String × Json)) :
    ∀ (fs : Fields) (vs : List TVal), distinct (fieldNames fs) = true →
      (∀ n ∈ fieldNames fs, n ∉ pre.map (·.1)) →
      OccEnc id (pre ++ encodeFields fs vs) fs vs := by
  intro fs
  induction fs generalizing pre with
  | nil => intro vs _ _; cases vs <;> simp [OccEnc]
  | cons f fs ih =>
    obtain ⟨n, s, t⟩ := f
    intro vs hd hpre
    cases vs with
    | nil => simp [OccEnc]
    | cons v vs =>
      rw [fieldNames_cons, distinct_cons] at hd
      rw [fieldNames_cons] at hpre
      have hn_pre : occurrences n pre = [] :=
        occurrences_eq_nil_of_not_mem n pre (hpre n List.mem_cons_self)
      have hn_tail : occurrences n (encodeFields fs vs) = [] :=
        occurrences_eq_nil_of_not_mem n _ (fun hmem => hd.1 (encodeFields_keys fs vs n hmem))
      simp only [OccEnc, encodeFields]
      by_cases hc : (s && v.isNone) = true
      · simp only [hc, if_true]
        refine ⟨by rw [occurrences_append, hn_pre, hn_tail]; rfl, ?_⟩
        exact ih pre vs hd.2 (fun m hm => hpre m (List.mem_cons_of_mem _ hm))
      · have hc' : (s && v.isNone) = false := by simpa using hc
        simp only [hc', Bool.false_eq_true, if_false]
        refine ⟨by rw [occurrences_append, hn_pre, occurrences_cons_eq, hn_tail]; simp, ?_⟩
        have := ih (pre ++ [(n, encode t v)]) vs hd.2
          (fun m hm => by
            have h1 := hpre m (List.mem_cons_of_mem _ hm)
            rw [List.map_append, List.mem_append]
            intro h2
            cases h2 with
            | inl h2 => exact h1 h2
            | inr h2 =>
              simp at h2
              subst h2; exact hd.1 hm)
        simpa using this

theorem occEnc_encodeFields (fs : Fields) (vs : List TVal) (hd : distinct (fieldNames fs) = true) :
    OccEnc id (encodeFields fs vs) fs vs := by
  simpa using occEnc_encodeFields_aux [] fs vs hd (by simp)

theorem occEnc_norm_of_id (l : List (String × Json)) (hd : distinct (l.map (·.1)) = true) :
    ∀ (fs : Fields) (vs : List TVal), OccEnc id l fs vs → OccEnc Json.norm (Json.normObj l) fs vs
  | [], _, _ => by simp [OccEnc]
  | _ :: _, [], _ => by simp [OccEnc]
  | (n, s, t) :: fs, v :: vs, h => by
    simp only [OccEnc] at h ⊢
    refine ⟨?_, occEnc_norm_of_id l hd fs vs h.2⟩
    rw [occurrences_normObj n l hd, h.1]
    by_cases hc : (s && v.isNone) = true <;> simp [hc]

/-! ### the round trip, for every type shape -/

theorem hasTy_none_isOpt (t : Ty) (h : hasTy t .none = true) : t.isOpt = true := by
  cases t <;> simp_all [hasTy, Ty.isOpt]

theorem isNone_eq (v : TVal) (h : v.isNone = true) : v = .none := by
  cases v <;> simp_all [TVal.isNone]

theorem all_of_all {α : Type} {p : α → Bool} {l : List α} (h : l.all p = true) : ∀ x ∈ l, p x = true := by
  simpa using h

mutual
  /-- `decode ∘ encode = some`, on the tree as written and on its `Value` -/
  theorem roundtrip (cvt : Int → Nat) : ∀ (t : Ty) (v : TVal),
      t.wf = true → hasTy t v = true → clean t v = true →
      decode cvt t (encode t v) = some v ∧ decode cvt t (encode t v).norm = some v
    | .bool, v, _, ht, _ => by cases v <;> simp_all [hasTy, encode, decode, Json.norm]
    | .int, v, _, ht, _ => by cases v <;> simp_all [hasTy, encode, decode, Json.norm]
    | .float, v, _, ht, hc => by cases v <;> simp_all [hasTy, encode, decode, Json.norm, clean]
    | .str, v, _, ht, _ => by cases v <;> simp_all [hasTy, encode, decode, Json.norm]
    | .value, v, _, ht, _ => by
      cases v with
      | value j =>
        simp only [hasTy] at ht
        simp [encode, decode, norm_of_isNormal j ht]
      | _ => simp [hasTy] at ht
    | .enum vs, v, _, ht, _ => by
      cases v with
      | enum n =>
        simp only [hasTy] at ht
        have hm : n ∈ vs := by simpa using ht
        simp [encode, decode, Json.norm, hm]
      | _ => simp [hasTy] at ht
    | .set, v, _, ht, _ => by
      cases v with
      | set l =>
        simp only [hasTy] at ht
        have hs : strictSorted ((l.map fun k => (k, Json.obj [])).map (·.1)) = true := by
          simpa [Function.comp_def] using ht
        constructor
        · simp [encode, decode, decSetEntries_sorted l ht]
        · simp only [encode, Json.norm, normObj_sorted _ hs, List.map_map, decode]
          have : ((fun e : String × Json => (e.1, e.2.norm)) ∘ fun k => (k, Json.obj [])) =
              fun k => (k, Json.obj []) := by
            funext k; simp [Json.norm, Json.normObj]
          rw [this, decSetEntries_sorted l ht]; rfl
      | _ => simp [hasTy] at ht
    | .opt t, v, hw, ht, hc => by
      cases v with
      | none => simp [encode, decode, Json.norm]
      | some w =>
        simp only [hasTy] at ht
        simp only [clean, Bool.and_eq_true, Bool.not_eq_true'] at hc
        have hne : encode t w ≠ .null := by
          intro e; rw [e] at hc; simp [Json.isNull] at hc
        have ih := roundtrip cvt t w (by simpa [Ty.wf] using hw) ht hc.1
        show decode cvt (.opt t) (encode t w) = _ ∧ decode cvt (.opt t) (encode t w).norm = _
        rw [decode_opt_of_ne_null cvt t _ hne,
          decode_opt_of_ne_null cvt t _ (fun e => hne ((norm_eq_null_iff _).mp e)), ih.1, ih.2]
        simp
      | _ => simp [hasTy] at ht
    | .vec t, v, hw, ht, hc => by
      cases v with
      | vec l =>
        have hw' : t.wf = true := by simpa [Ty.wf] using hw
        have ht' : ∀ x ∈ l, hasTy t x = true := by simpa [hasTy] using ht
        have hc' : ∀ x ∈ l, clean t x = true := by simpa [clean] using hc
        have ih := fun x (hx : x ∈ l) => roundtrip cvt t x hw' (ht' x hx) (hc' x hx)
        constructor
        · simp only [encode, decode]
          rw [mapOpt_map (decode cvt t) (encode t) id l (fun x hx => (ih x hx).1)]; simp
        · simp only [encode, Json.norm, normList_eq_map, List.map_map, decode]
          rw [mapOpt_map (decode cvt t) (Json.norm ∘ encode t) id l (fun x hx => (ih x hx).2)]; simp
      | _ => simp [hasTy] at ht
    | .map t, v, hw, ht, hc => by
      cases v with
      | map l =>
        have hw' : t.wf = true := by simpa [Ty.wf] using hw
        simp only [hasTy, Bool.and_eq_true] at ht
        have ht' : ∀ e ∈ l, hasTy t e.2 = true := all_of_all ht.2
        have hc' : ∀ e ∈ l, clean t e.2 = true := by
          simp only [clean] at hc; exact all_of_all hc
        have ih := fun (e : String × TVal) (he : e ∈ l) =>
          roundtrip cvt t e.2 hw' (ht' e he) (hc' e he)
        have hs : strictSorted ((l.map fun e => (e.1, encode t e.2)).map (·.1)) = true := by
          simpa [Function.comp_def] using ht.1
        constructor
        · simp only [encode, decode]
          rw [decMapEntries_sorted (decode cvt t) (encode t) l ht.1 (fun e he => (ih e he).1)]; rfl
        · simp only [encode, Json.norm, normObj_sorted _ hs, List.map_map, decode]
          have : ((fun e : String × Json => (e.1, e.2.norm)) ∘ fun e : String × TVal => (e.1, encode t e.2)) =
              fun e => (e.1, (Json.norm ∘ encode t) e.2) := by
            funext e; rfl
          rw [this, decMapEntries_sorted (decode cvt t) (Json.norm ∘ encode t) l ht.1 (fun e he => (ih e he).2)]
          rfl
      | _ => simp [hasTy] at ht
    | .struct fs, v, hw, ht, hc => by
      cases v with
      | struct vs =>
        simp only [hasTy] at ht
        simp only [Ty.wf, Bool.and_eq_true] at hw
        have hcf : cleanFields fs vs = true := by simpa [clean] using hc
        have hocc := occEnc_encodeFields fs vs hw.1
        have hd := encodeFields_distinct fs vs hw.1
        have h1 := (roundtripFields cvt fs vs hw.2 ht hcf (encodeFields fs vs)).1 hocc
        have h2 := (roundtripFields cvt fs vs hw.2 ht hcf (Json.normObj (encodeFields fs vs))).2
          (occEnc_norm_of_id _ hd fs vs hocc)
        constructor
        · simp only [encode, decode, decodeFieldsObj_of_present cvt _ fs vs h1]; rfl
        · simp only [encode, Json.norm, decode, decodeFieldsObj_of_present cvt _ fs vs h2]; rfl
      | _ => simp [hasTy] at ht
  theorem roundtripFields (cvt : Int → Nat) : ∀ (fs : Fields) (vs : List TVal),
      wfFields fs = true → hasTyFields fs vs = true → cleanFields fs vs = true →
      ∀ l, (OccEnc id l fs vs → FieldsPresent cvt l fs vs) ∧
           (OccEnc Json.norm l fs vs → FieldsPresent cvt l fs vs)
    | [], [], _, _, _, _ => by simp [FieldsPresent]
    | [], _ :: _, _, ht, _, _ => by simp [hasTyFields] at ht
    | _ :: _, [], _, ht, _, _ => by simp [hasTyFields] at ht
    | (n, s, t) :: fs, v :: vs, hw, ht, hc, l => by
      simp only [wfFields, Bool.and_eq_true] at hw
      simp only [hasTyFields, Bool.and_eq_true] at ht
      simp only [cleanFields, Bool.and_eq_true] at hc
      have ih := roundtripFields cvt fs vs hw.2 ht.2 hc.2 l
      have ihv := roundtrip cvt t v hw.1 ht.1 hc.1
      constructor
      · intro h
        simp only [OccEnc] at h
        refine ⟨?_, ih.1 h.2⟩
        by_cases hcnd : (s && v.isNone) = true
        · left
          simp only [Bool.and_eq_true] at hcnd
          have hv := isNone_eq v hcnd.2
          subst hv
          exact ⟨by simpa [hcnd] using h.1, hasTy_none_isOpt t ht.1, rfl⟩
        · right
          have hc' : (s && v.isNone) = false := by simpa using hcnd
          exact ⟨encode t v, by simpa [hc'] using h.1, ihv.1⟩
      · intro h
        simp only [OccEnc] at h
        refine ⟨?_, ih.2 h.2⟩
        by_cases hcnd : (s && v.isNone) = true
        · left
          simp only [Bool.and_eq_true] at hcnd
          have hv := isNone_eq v hcnd.2
          subst hv
          exact ⟨by simpa [hcnd] using h.1, hasTy_none_isOpt t ht.1, rfl⟩
        · right
          have hc' : (s && v.isNone) = false := by simpa using hcnd
          exact ⟨(encode t v).norm, by simpa [hc'] using h.1, ihv.2⟩
end

/-! ### sortedness: `Json.norm` really produces a `Value` -/

/-- keys pairwise ascending -/
def SortedKV {α : Type} (m : List (String × α)) : Prop := List.Pairwise (fun a b => a.1 < b.1) m

theorem string_lt_of_not_lt_ne {a b : String} (h1 : ¬ a < b) (h2 : a ≠ b) : b < a := by
  apply Decidable.byContradiction
  intro h3
  exact h2 (String.le_antisymm (String.not_lt.mp h3) (String.not_lt.mp h1))

theorem kvAdd_mem {α : Type} (k : String) (v : α) (m : List (String × α)) (e : String × α)
    (h : e ∈ kvAdd k v m) : e = (k, v) ∨ e ∈ m := by
  induction m with
  | nil => simp [kvAdd] at h; exact Or.inl h
  | cons x rest ih =>
    obtain ⟨k', v'⟩ := x
    unfold kvAdd at h
    by_cases h1 : k < k'
    · simp only [h1, if_true] at h
      rw [List.mem_cons] at h
      exact h
    · simp only [h1, if_false] at h
      by_cases h2 : k = k'
      · simp only [h2, if_true] at h; exact Or.inr h
      · simp only [h2, if_false] at h
        rw [List.mem_cons] at h
        cases h with
        | inl h => exact Or.inr (by rw [h]; exact List.mem_cons_self)
        | inr h =>
          cases ih h with
          | inl h => exact Or.inl h
          | inr h => exact Or.inr (List.mem_cons_of_mem _ h)

theorem sorted_kvAdd {α : Type} (k : String) (v : α) (m : List (String × α)) (hm : SortedKV m) :
    SortedKV (kvAdd k v m) := by
  induction m with
  | nil => simp [kvAdd, SortedKV]
  | cons x rest ih =>
    obtain ⟨k', v'⟩ := x
    unfold SortedKV at hm
    rw [List.pairwise_cons] at hm
    unfold kvAdd
    by_cases h1 : k < k'
    · simp only [h1, if_true]
      unfold SortedKV
      rw [List.pairwise_cons]
      refine ⟨?_, List.pairwise_cons.mpr hm⟩
      intro e he
      rw [List.mem_cons] at he
      cases he with
      | inl he => rw [he]; exact h1
      | inr he => exact String.lt_trans h1 (hm.1 e he)
    · simp only [h1, if_false]
      by_cases h2 : k = k'
      · simp only [h2, if_true]
        exact List.pairwise_cons.mpr hm
      · simp only [h2, if_false]
        unfold SortedKV
        rw [List.pairwise_cons]
        refine ⟨?_, ih hm.2⟩
        intro e he
        cases kvAdd_mem k v rest e he with
        | inl he => rw [he]; exact string_lt_of_not_lt_ne h1 h2
        | inr he => exact hm.1 e he

theorem sorted_normObj (l : List (String × Json)) : SortedKV (Json.normObj l) := by
  induction l with
  | nil => simp [Json.normObj, SortedKV]
  | cons e rest ih =>
    obtain ⟨k, v⟩ := e
    simp only [Json.normObj]
    exact sorted_kvAdd k _ _ ih

theorem strictSorted_of_sorted {α : Type} (m : List (String × α)) (h : SortedKV m) :
    strictSorted (m.map (·.1)) = true := by
  induction m with
  | nil => rfl
  | cons e rest ih =>
    unfold SortedKV at h
    rw [List.pairwise_cons] at h
    cases rest with
    | nil => rfl
    | cons e2 rest2 =>
      simp only [List.map, strictSorted, Bool.and_eq_true, decide_eq_true_eq]
      exact ⟨h.1 e2 List.mem_cons_self, by simpa using ih h.2⟩

theorem isNormalObj_kvAdd (k : String) (v : Json) (m : List (String × Json))
    (hv : v.isNormal = true) (hm : Json.isNormalObj m = true) : Json.isNormalObj (kvAdd k v m) = true := by
  induction m with
  | nil => simp [kvAdd, Json.isNormalObj, hv]
  | cons x rest ih =>
    obtain ⟨k', v'⟩ := x
    simp only [Json.isNormalObj, Bool.and_eq_true] at hm
    unfold kvAdd
    by_cases h1 : k < k'
    · simp [h1, Json.isNormalObj, hv, hm.1, hm.2]
    · by_cases h2 : k = k'
      · simp [h2, Json.isNormalObj, hm.1, hm.2]
      · simp [h1, h2, Json.isNormalObj, hm.1, ih hm.2]

mutual
  /-- `Json.norm` produces a `Value` -/
  theorem isNormal_norm : ∀ j : Json, j.norm.isNormal = true
    | .null => rfl
    | .bool _ => rfl
    | .int _ => rfl
    | .flt _ => rfl
    | .str _ => rfl
    | .arr l => by simp only [Json.norm, Json.isNormal, isNormalList_normList l]
    | .obj l => by
      simp only [Json.norm, Json.isNormal, Bool.and_eq_true]
      exact ⟨strictSorted_of_sorted _ (sorted_normObj l), isNormalObj_normObj l⟩
  theorem isNormalList_normList : ∀ l : List Json, Json.isNormalList (Json.normList l) = true
    | [] => rfl
    | x :: xs => by simp [Json.normList, Json.isNormalList, isNormal_norm x, isNormalList_normList xs]
  theorem isNormalObj_normObj : ∀ l : List (String × Json), Json.isNormalObj (Json.normObj l) = true
    | [] => rfl
    | (k, v) :: rest => by
      simp only [Json.normObj]
      exact isNormalObj_kvAdd k v.norm _ (isNormal_norm v) (isNormalObj_normObj rest)
end

/-- parsing a `Value`'s own document gives the same `Value` -/
theorem norm_norm (j : Json) : j.norm.norm = j.norm := norm_of_isNormal _ (isNormal_norm j)

/-- two key-sorted association lists with the same occurrences of every key are equal -/
theorem sorted_ext : ∀ (a b : List (String × Json)), SortedKV a → SortedKV b →
    (∀ n, occurrences n a = occurrences n b) → a = b
  | [], [], _, _, _ => rfl
  | [], (k, v) :: _, _, _, h => by
    have := h k; rw [occurrences_nil, occurrences_cons_eq] at this; cases this
  | (k, v) :: _, [], _, _, h => by
    have := h k; rw [occurrences_nil, occurrences_cons_eq] at this; cases this
  | (ka, va) :: ra, (kb, vb) :: rb, ha, hb, h => by
    unfold SortedKV at ha hb
    rw [List.pairwise_cons] at ha hb
    have hra : ∀ n, n = ka → occurrences n ra = [] := fun n hn =>
      occurrences_eq_nil_of_not_mem n ra (fun hm => by
        simp at hm
        obtain ⟨x, hx⟩ := hm
        have := ha.1 (n, x) hx
        rw [hn] at this
        exact String.lt_irrefl _ this)
    have hrb : ∀ n, n = kb → occurrences n rb = [] := fun n hn =>
      occurrences_eq_nil_of_not_mem n rb (fun hm => by
        simp at hm
        obtain ⟨x, hx⟩ := hm
        have := hb.1 (n, x) hx
        rw [hn] at this
        exact String.lt_irrefl _ this)
    have hk : ka = kb := by
      apply Decidable.byContradiction
      intro hne
      by_cases hlt : ka < kb
      · -- `ka` occurs in `a` but nowhere in `b`
        have h1 := h ka
        rw [occurrences_cons_eq, occurrences_cons_ne ka kb vb rb (fun e => hne e.symm)] at h1
        have : occurrences ka rb = [] := occurrences_eq_nil_of_not_mem ka rb (fun hm => by
          simp at hm
          obtain ⟨x, hx⟩ := hm
          exact String.lt_asymm hlt (hb.1 (ka, x) hx))
        rw [this] at h1; cases h1
      · have hgt : kb < ka := string_lt_of_not_lt_ne hlt hne
        have h1 := h kb
        rw [occurrences_cons_eq, occurrences_cons_ne kb ka va ra hne] at h1
        have : occurrences kb ra = [] := occurrences_eq_nil_of_not_mem kb ra (fun hm => by
          simp at hm
          obtain ⟨x, hx⟩ := hm
          exact String.lt_asymm hgt (ha.1 (kb, x) hx))
        rw [this] at h1; cases h1
    subst hk
    have h1 := h ka
    rw [occurrences_cons_eq, occurrences_cons_eq, hra ka rfl, hrb ka rfl] at h1
    have hv : va = vb := by
      have := List.cons.inj h1
      exact (Prod.mk.inj this.1).2
    subst hv
    have ht : ra = rb := sorted_ext ra rb ha.2 hb.2 (fun n => by
      by_cases hn : n = ka
      · rw [hra n hn, hrb n hn]
      · have := h n
        rw [occurrences_cons_ne n ka va ra (fun e => hn e.symm),
          occurrences_cons_ne n ka va rb (fun e => hn e.symm)] at this
        exact this)
    rw [ht]

/-! ### from a decoded struct back to the document (C17, last clause) -/

/-- member types for which what was read determines what is written back, up to
    `Value` normalisation: scalars, `Value`, and `Option`s of those -/
def Ty.canon : Ty → Bool
  | .bool => true
  | .int => true
  | .str => true
  | .value => true
  | .opt t => t.canon
  | _ => false

theorem canon_encode (cvt : Int → Nat) : ∀ (t : Ty) (e : Json) (v : TVal), t.canon = true →
    decode cvt t e = some v → (encode t v).norm = e.norm
  | .bool, e, v, _, h => by cases e <;> simp_all [decode]; subst h; rfl
  | .int, e, v, _, h => by
    cases e <;> simp_all [decode]
    obtain ⟨_, h⟩ := h; subst h; rfl
  | .str, e, v, _, h => by cases e <;> simp_all [decode]; subst h; rfl
  | .value, e, v, _, h => by
    simp only [decode, Option.some.injEq] at h
    subst h
    simp [encode, norm_norm]
  | .opt t, e, v, hc, h => by
    by_cases he : e = .null
    · subst he
      simp only [decode, Option.some.injEq] at h
      subst h; rfl
    · rw [decode_opt_of_ne_null cvt t e he] at h
      cases hd : decode cvt t e with
      | none => simp [hd] at h
      | some w =>
        simp only [hd, Option.map_some, Option.some.injEq] at h
        subst h
        simp only [encode]
        exact canon_encode cvt t e w (by simpa [Ty.canon] using hc) hd
  | .float, _, _, hc, _ => by simp [Ty.canon] at hc
  | .vec _, _, _, hc, _ => by simp [Ty.canon] at hc
  | .map _, _, _, hc, _ => by simp [Ty.canon] at hc
  | .set, _, _, hc, _ => by simp [Ty.canon] at hc
  | .enum _, _, _, hc, _ => by simp [Ty.canon] at hc
  | .struct _, _, _, hc, _ => by simp [Ty.canon] at hc

theorem decode_opt_none (cvt : Int → Nat) (t : Ty) (e : Json) (h : decode cvt (.opt t) e = some .none) :
    e = .null := by
  apply Decidable.byContradiction
  intro he
  rw [decode_opt_of_ne_null cvt t e he] at h
  cases hd : decode cvt t e <;> simp [hd] at h

theorem isOpt_elim {t : Ty} (h : t.isOpt = true) : ∃ u, t = .opt u := by
  cases t <;> simp_all [Ty.isOpt]

/-- converse of `decodeFieldsObj_of_present` -/
theorem present_of_decodeFieldsObj (cvt : Int → Nat) (l : List (String × Json)) :
    ∀ (fs : Fields) (vs : List TVal), decodeFieldsObj cvt fs l = some vs → FieldsPresent cvt l fs vs
  | [], vs, h => by
    simp only [decodeFieldsObj, Option.some.injEq] at h
    subst h; simp [FieldsPresent]
  | (n, s, t) :: fs, vs, h => by
    simp only [decodeFieldsObj] at h
    cases ho : occurrences n l with
    | nil =>
      simp only [ho] at h
      by_cases hopt : t.isOpt = true
      · simp only [hopt, if_true] at h
        cases hr : decodeFieldsObj cvt fs l with
        | none => simp [hr] at h
        | some ws =>
          simp only [hr, Option.map_some, Option.some.injEq] at h
          subst h
          exact ⟨Or.inl ⟨ho, hopt, rfl⟩, present_of_decodeFieldsObj cvt l fs ws hr⟩
      · simp [hopt] at h
    | cons e rest =>
      cases rest with
      | nil =>
        simp only [ho] at h
        cases hd : decode cvt t e.2 with
        | none => simp [hd] at h
        | some v =>
          cases hr : decodeFieldsObj cvt fs l with
          | none => simp [hd, hr] at h
          | some ws =>
            simp only [hd, hr, Option.some.injEq] at h
            subst h
            have hk : e.1 = n := by
              have : e ∈ occurrences n l := by rw [ho]; exact List.mem_cons_self
              simp [occurrences] at this
              exact this.2
            refine ⟨Or.inr ⟨e.2, ?_, hd⟩, present_of_decodeFieldsObj cvt l fs ws hr⟩
            rw [ho, ← hk]
      | cons e2 rest2 => simp [ho] at h

/-- keys that pass `p` occur at most once in `l` ⇒ the `p`-part of `l` has distinct keys -/
theorem distinct_filter_keys (p : String → Bool) (l : List (String × Json))
    (h : ∀ n, p n = true → (occurrences n l).length ≤ 1) :
    distinct ((l.filter fun e => p e.1).map (·.1)) = true := by
  induction l with
  | nil => rfl
  | cons e rest ih =>
    obtain ⟨k, v⟩ := e
    have hrest : ∀ n, p n = true → (occurrences n rest).length ≤ 1 := fun n hn => by
      have := h n hn
      by_cases hk : k = n
      · subst hk; rw [occurrences_cons_eq] at this; simp at this; simp [this]
      · rw [occurrences_cons_ne n k v rest hk] at this; exact this
    by_cases hp : p k = true
    · simp only [List.filter, hp, List.map_cons]
      rw [distinct_cons]
      refine ⟨?_, ih hrest⟩
      intro hm
      have h1 := h k hp
      rw [occurrences_cons_eq] at h1
      simp at h1
      simp at hm
      obtain ⟨⟨x, hx⟩, _⟩ := hm
      have : (k, x) ∈ occurrences k rest := by simp [occurrences, hx]
      rw [h1] at this; exact absurd this List.not_mem_nil
    · have hp' : p k = false := by simpa using hp
      simp only [List.filter, hp']
      exact ih hrest

theorem occurrences_filter_key (p : String → Bool) (n : String) (l : List (String × Json)) :
    occurrences n (l.filter fun e => p e.1) = if p n then occurrences n l else [] := by
  induction l with
  | nil => simp [occurrences]
  | cons e rest ih =>
    obtain ⟨k, v⟩ := e
    by_cases hk : k = n
    · subst hk
      by_cases hp : p k = true
      · simp only [List.filter, hp, occurrences_cons_eq, ih, if_true]
      · have hp' : p k = false := by simpa using hp
        simp only [List.filter, hp', ih]; simp
    · by_cases hp : p k = true
      · simp only [List.filter, hp, occurrences_cons_ne n k v _ hk, ih]
      · have hp' : p k = false := by simpa using hp
        simp only [List.filter, hp', occurrences_cons_ne n k v _ hk, ih]

theorem occurrences_filter (q : String × Json → Bool) (n : String) (l : List (String × Json)) :
    occurrences n (l.filter q) = (occurrences n l).filter q := by
  simp only [occurrences, List.filter_filter]
  congr 1
  funext e
  exact Bool.and_comm _ _

theorem present_length_le (cvt : Int → Nat) (l : List (String × Json)) :
    ∀ (fs : Fields) (vs : List TVal), FieldsPresent cvt l fs vs →
      ∀ n ∈ fieldNames fs, (occurrences n l).length ≤ 1
  | [], _, _, n, hn => by simp [fieldNames] at hn
  | (m, s, t) :: fs, [], h, _, _ => by simp [FieldsPresent] at h
  | (m, s, t) :: fs, v :: vs, h, n, hn => by
    simp only [FieldsPresent] at h
    rw [fieldNames_cons, List.mem_cons] at hn
    cases hn with
    | inl hn =>
      subst hn
      cases h.1 with
      | inl h1 => simp [h1.1]
      | inr h1 => obtain ⟨e, he, _⟩ := h1; simp [he]
    | inr hn => exact present_length_le cvt l fs vs h.2 n hn

/-- names of the members that are `Option`s: the "optional members" of C17 -/
def optNames (fs : Fields) : List String := (fs.filter fun f => f.2.2.isOpt).map (·.1)

theorem mem_optNames {n : String} {s : Bool} {t : Ty} {fs : Fields}
    (hm : (n, s, t) ∈ fs) (ho : t.isOpt = true) : n ∈ optNames fs := by
  simp only [optNames, List.mem_map, List.mem_filter]
  exact ⟨(n, s, t), ⟨hm, ho⟩, rfl⟩

/-- what the filter of `objEquiv` keeps -/
def keepNonNullOpt (opt : List String) (e : String × Json) : Bool := !(opt.contains e.1 && e.2.isNull)

/-- per member: after dropping null optionals, the re-encoding and the document
    hold the same occurrences -/
theorem occ_equiv_member (cvt : Int → Nat) (opt : List String) (n : String) (s : Bool) (t : Ty) (v : TVal)
    (l : List (String × Json)) (hcanon : t.canon = true) (hskip : s = true → t.isOpt = true)
    (hopt : t.isOpt = true → n ∈ opt)
    (hpres : (occurrences n l = [] ∧ t.isOpt = true ∧ v = .none) ∨
             (∃ e, occurrences n l = [(n, e)] ∧ decode cvt t e = some v)) :
    (if s && v.isNone then [] else [(n, (encode t v).norm)]).filter (keepNonNullOpt opt) =
    ((occurrences n l).map fun e => (e.1, e.2.norm)).filter (keepNonNullOpt opt) := by
  cases hpres with
  | inl h =>
    obtain ⟨ho, hisopt, hv⟩ := h
    subst hv
    obtain ⟨u, hu⟩ := isOpt_elim hisopt
    subst hu
    have hin : n ∈ opt := hopt hisopt
    cases s <;> simp [ho, TVal.isNone, encode, Json.norm, keepNonNullOpt, hin, Json.isNull]
  | inr h =>
    obtain ⟨e, ho, hd⟩ := h
    have hce := canon_encode cvt t e v hcanon hd
    rw [ho]
    by_cases hc : (s && v.isNone) = true
    · simp only [Bool.and_eq_true] at hc
      have hv := isNone_eq v hc.2
      subst hv
      obtain ⟨u, hu⟩ := isOpt_elim (hskip hc.1)
      subst hu
      have hnull := decode_opt_none cvt u e hd
      subst hnull
      have hin : n ∈ opt := hopt (hskip hc.1)
      simp [hc.1, TVal.isNone, Json.norm, keepNonNullOpt, hin, Json.isNull]
    · have hc' : (s && v.isNone) = false := by simpa using hc
      simp [hc', hce]

theorem occ_equiv_fields (cvt : Int → Nat) (opt : List String) (E l : List (String × Json)) :
    ∀ (fs : Fields) (vs : List TVal),
      (∀ f ∈ fs, f.2.2.canon = true) → (∀ f ∈ fs, f.2.1 = true → f.2.2.isOpt = true) →
      (∀ f ∈ fs, f.2.2.isOpt = true → f.1 ∈ opt) →
      OccEnc id E fs vs → FieldsPresent cvt l fs vs → ∀ n ∈ fieldNames fs,
      ((occurrences n E).map fun e => (e.1, e.2.norm)).filter (keepNonNullOpt opt) =
      ((occurrences n l).map fun e => (e.1, e.2.norm)).filter (keepNonNullOpt opt)
  | [], _, _, _, _, _, _, n, hn => by simp [fieldNames] at hn
  | (m, s, t) :: fs, [], _, _, _, _, hp, _, _ => by simp [FieldsPresent] at hp
  | (m, s, t) :: fs, v :: vs, hcanon, hskip, hopt, hocc, hp, n, hn => by
    simp only [OccEnc] at hocc
    simp only [FieldsPresent] at hp
    by_cases hnm : n = m
    · subst hnm
      have hmem : (n, s, t) ∈ (n, s, t) :: fs := List.mem_cons_self
      have := occ_equiv_member cvt opt n s t v l (hcanon _ hmem) (hskip _ hmem) (hopt _ hmem) hp.1
      rw [← this, hocc.1]
      by_cases hc : (s && v.isNone) = true
      · simp [hc]
      · have hc' : (s && v.isNone) = false := by simpa using hc
        simp [hc']
    · rw [fieldNames_cons, List.mem_cons] at hn
      cases hn with
      | inl hn => exact absurd hn hnm
      | inr hn =>
        exact occ_equiv_fields cvt opt E l fs vs
          (fun f hf => hcanon f (List.mem_cons_of_mem _ hf))
          (fun f hf => hskip f (List.mem_cons_of_mem _ hf))
          (fun f hf => hopt f (List.mem_cons_of_mem _ hf)) hocc.2 hp.2 n hn

theorem mem_fieldNames_contains (fs : Fields) (n : String) :
    (fieldNames fs).contains n = true ↔ n ∈ fieldNames fs := by simp

/-- **what was read is what is written back**: if an object decodes as a struct
    whose members are scalars / `Value`s / `Option`s of those, then the encoding
    of the decoded value and the object restricted to the struct's members are
    equal as `Value`s after dropping `Option` members that are `null`. -/
theorem object_equiv_struct (cvt : Int → Nat) (fs : Fields) (hd : distinct (fieldNames fs) = true)
    (hcanon : ∀ f ∈ fs, f.2.2.canon = true) (hskip : ∀ f ∈ fs, f.2.1 = true → f.2.2.isOpt = true)
    (l : List (String × Json)) (vs : List TVal) (h : decodeFieldsObj cvt fs l = some vs) :
    objEquiv (optNames fs) (.obj (encodeFields fs vs)) (restrictTo (fieldNames fs) (.obj l)) := by
  have hp := present_of_decodeFieldsObj cvt l fs vs h
  have hocc := occEnc_encodeFields fs vs hd
  have hdE := encodeFields_distinct fs vs hd
  have hdL : distinct ((l.filter fun e => (fieldNames fs).contains e.1).map (·.1)) = true :=
    distinct_filter_keys (fun n => (fieldNames fs).contains n) l (fun n hn =>
      present_length_le cvt l fs vs hp n ((mem_fieldNames_contains fs n).mp hn))
  unfold objEquiv
  simp only [restrictTo, Json.norm, dropNullOpt]
  congr 1
  apply sorted_ext
  · exact List.Pairwise.filter _ (sorted_normObj _)
  · exact List.Pairwise.filter _ (sorted_normObj _)
  · intro n
    rw [occurrences_filter, occurrences_filter, occurrences_normObj n _ hdE, occurrences_normObj n _ hdL,
      occurrences_filter_key (fun n => (fieldNames fs).contains n) n l]
    by_cases hn : n ∈ fieldNames fs
    · have hc : (fieldNames fs).contains n = true := (mem_fieldNames_contains fs n).mpr hn
      simp only [hc, if_true]
      exact occ_equiv_fields cvt (optNames fs) _ l fs vs hcanon hskip
        (fun f hf ho => mem_optNames (n := f.1) (s := f.2.1) (t := f.2.2) hf ho) hocc hp n hn
    · have hc : (fieldNames fs).contains n = false := by
        cases hcc : (fieldNames fs).contains n with
        | false => rfl
        | true => exact absurd ((mem_fieldNames_contains fs n).mp hcc) hn
      have hE : occurrences n (encodeFields fs vs) = [] :=
        occurrences_eq_nil_of_not_mem n _ (fun hm => hn (encodeFields_keys fs vs n hm))
      simp only [hc, hE]
      simp

/-! ### the `MapAccess` walk of the `StringHashSet` visitor -/

theorem mem_setAdd (k x : String) (s : List String) : x ∈ setAdd k s ↔ x = k ∨ x ∈ s := by
  induction s with
  | nil => simp [setAdd]
  | cons k' rest ih =>
    unfold setAdd
    by_cases h1 : k < k'
    · simp [h1]
    · by_cases h2 : k = k'
      · subst h2; simp [h1]
      · simp only [h1, h2, if_false, List.mem_cons, ih]
        constructor
        · rintro (h | h | h)
          · exact Or.inr (Or.inl h)
          · exact Or.inl h
          · exact Or.inr (Or.inr h)
        · rintro (h | h | h)
          · exact Or.inr (Or.inl h)
          · exact Or.inl h
          · exact Or.inr (Or.inr h)

theorem sorted_setAdd (k : String) (s : List String) (hs : List.Pairwise (· < ·) s) :
    List.Pairwise (· < ·) (setAdd k s) := by
  induction s with
  | nil => simp [setAdd]
  | cons k' rest ih =>
    rw [List.pairwise_cons] at hs
    unfold setAdd
    by_cases h1 : k < k'
    · simp only [h1, if_true]
      rw [List.pairwise_cons]
      refine ⟨?_, List.pairwise_cons.mpr hs⟩
      intro e he
      rw [List.mem_cons] at he
      cases he with
      | inl he => rw [he]; exact h1
      | inr he => exact String.lt_trans h1 (hs.1 e he)
    · simp only [h1, if_false]
      by_cases h2 : k = k'
      · simp only [h2, if_true]; exact List.pairwise_cons.mpr hs
      · simp only [h2, if_false]
        rw [List.pairwise_cons]
        refine ⟨?_, ih hs.2⟩
        intro e he
        cases (mem_setAdd k e rest).mp he with
        | inl he => rw [he]; exact string_lt_of_not_lt_ne h1 h2
        | inr he => exact hs.1 e he

/-- ascending lists with the same members are equal -/
theorem sortedList_ext : ∀ (a b : List String), List.Pairwise (· < ·) a → List.Pairwise (· < ·) b →
    (∀ x, x ∈ a ↔ x ∈ b) → a = b
  | [], [], _, _, _ => rfl
  | [], y :: _, _, _, h => by have := (h y).mpr List.mem_cons_self; cases this
  | x :: _, [], _, _, h => by have := (h x).mp List.mem_cons_self; cases this
  | x :: xs, y :: ys, ha, hb, h => by
    rw [List.pairwise_cons] at ha hb
    have hxy : x = y := by
      have h1 := (h x).mp List.mem_cons_self
      have h2 := (h y).mpr List.mem_cons_self
      rw [List.mem_cons] at h1 h2
      cases h1 with
      | inl h1 => exact h1
      | inr h1 =>
        cases h2 with
        | inl h2 => exact h2.symm
        | inr h2 => exact absurd (hb.1 x h1) (String.lt_asymm (ha.1 y h2))
    subst hxy
    have : xs = ys := sortedList_ext xs ys ha.2 hb.2 (fun z => by
      constructor
      · intro hz
        have := (h z).mp (List.mem_cons_of_mem _ hz)
        rw [List.mem_cons] at this
        cases this with
        | inl e => rw [e] at hz; exact absurd (ha.1 x hz) (String.lt_irrefl _)
        | inr e => exact e
      · intro hz
        have := (h z).mpr (List.mem_cons_of_mem _ hz)
        rw [List.mem_cons] at this
        cases this with
        | inl e => rw [e] at hz; exact absurd (hb.1 x hz) (String.lt_irrefl _)
        | inr e => exact e)
    rw [this]

def allEmptyStruct (l : List (String × Json)) : Bool := l.all fun e => isEmptyStruct e.2

theorem decSetEntries_eq (l : List (String × Json)) :
    decSetEntries l =
      if allEmptyStruct l then some (l.foldr (fun e s => setAdd e.1 s) []) else none := by
  induction l with
  | nil => rfl
  | cons e rest ih =>
    obtain ⟨k, v⟩ := e
    have hall : allEmptyStruct ((k, v) :: rest) = (isEmptyStruct v && allEmptyStruct rest) := by
      simp [allEmptyStruct]
    rw [hall]
    simp only [decSetEntries, ih]
    cases hv : isEmptyStruct v <;> cases hr : allEmptyStruct rest <;> simp

/-- the visitor as it is (`next_entry::<String, Empty>`), on either `MapAccess`
    implementation: every key and every value is consumed; a member that is not
    an empty struct stops it with an error -/
theorem setVisitorEntries_eq (impl : MapImpl) : ∀ (l : List (String × Json)) (fuel : Nat) (acc : List String),
    l.length < fuel →
    setVisitorEntries impl fuel { rest := l, pending := none } acc =
      if allEmptyStruct l then some (l.foldl (fun a e => setAdd e.1 a) acc) else none
  | [], fuel, acc, hf => by
    cases fuel with
    | zero => simp at hf
    | succ f => cases impl <;> simp [setVisitorEntries, MapAcc.nextKey, allEmptyStruct]
  | (k, v) :: rest, fuel, acc, hf => by
    cases fuel with
    | zero => simp at hf
    | succ f =>
      have hf' : rest.length < f := by simpa using hf
      have ih := setVisitorEntries_eq impl rest f (setAdd k acc) hf'
      have hall : allEmptyStruct ((k, v) :: rest) = (isEmptyStruct v && allEmptyStruct rest) := by
        simp [allEmptyStruct]
      rw [hall]
      cases hv : isEmptyStruct v
      · cases impl <;> simp [setVisitorEntries, MapAcc.nextKey, MapAcc.nextValue, hv]
      · cases impl <;>
          simp [setVisitorEntries, MapAcc.nextKey, MapAcc.nextValue, hv, ih]

theorem foldl_setAdd_sorted (ks : List String) : ∀ (acc : List String), List.Pairwise (· < ·) acc →
    List.Pairwise (· < ·) (ks.foldl (fun a k => setAdd k a) acc) ∧
    ∀ x, x ∈ ks.foldl (fun a k => setAdd k a) acc ↔ x ∈ ks ∨ x ∈ acc := by
  induction ks with
  | nil => intro acc h; simp [h]
  | cons k rest ih =>
    intro acc h
    have := ih (setAdd k acc) (sorted_setAdd k acc h)
    refine ⟨this.1, fun x => ?_⟩
    rw [List.foldl_cons, this.2 x, mem_setAdd, List.mem_cons]
    constructor
    · rintro (h | h | h)
      · exact Or.inl (Or.inr h)
      · exact Or.inl (Or.inl h)
      · exact Or.inr h
    · rintro ((h | h) | h)
      · exact Or.inr (Or.inl h)
      · exact Or.inl h
      · exact Or.inr (Or.inr h)

theorem foldr_setAdd_sorted (ks : List String) :
    List.Pairwise (· < ·) (ks.foldr setAdd []) ∧ ∀ x, x ∈ ks.foldr setAdd [] ↔ x ∈ ks := by
  induction ks with
  | nil => simp
  | cons k rest ih =>
    refine ⟨sorted_setAdd k _ ih.1, fun x => ?_⟩
    rw [List.foldr_cons, mem_setAdd, ih.2 x, List.mem_cons]

/-- walking the map front to back and inserting, or back to front: the same set -/
theorem foldl_eq_foldr_setAdd (l : List (String × Json)) :
    l.foldl (fun a e => setAdd e.1 a) [] = l.foldr (fun e s => setAdd e.1 s) [] := by
  have h1 : l.foldl (fun a e => setAdd e.1 a) [] = (l.map (·.1)).foldl (fun a k => setAdd k a) [] := by
    rw [List.foldl_map]
  have h2 : l.foldr (fun e s => setAdd e.1 s) [] = (l.map (·.1)).foldr setAdd [] := by
    rw [List.foldr_map]
  rw [h1, h2]
  have a := foldl_setAdd_sorted (l.map (·.1)) [] List.Pairwise.nil
  have b := foldr_setAdd_sorted (l.map (·.1))
  exact sortedList_ext _ _ a.1 b.1 (fun x => by rw [a.2 x, b.2 x]; simp)

/-! ### the public types: conversions -/

theorem request_hasTy (r : Request) (hN : ∀ p, r.parameters = some p → p.isNormal = true) :
    hasTy tyRequest r.toT = true := by
  obtain ⟨m, o, u, meth, p⟩ := r
  cases m <;> cases o <;> cases u <;> cases p <;>
    simp_all [tyRequest, Request.toT, optT, hasTy, hasTyFields]

theorem request_clean (r : Request) (hnull : r.parameters ≠ some .null) :
    clean tyRequest r.toT = true := by
  obtain ⟨m, o, u, meth, p⟩ := r
  cases m <;> cases o <;> cases u <;> cases p <;>
    simp_all [tyRequest, Request.toT, optT, clean, cleanFields, encode, Json.isNull]
  all_goals (rename_i j; cases j <;> simp_all [Json.isNull])

theorem request_ofT_toT (r : Request) : Request.ofT r.toT = some r := by
  obtain ⟨m, o, u, meth, p⟩ := r
  cases m <;> cases o <;> cases u <;> cases p <;>
    simp [Request.toT, Request.ofT, optT, optBoolOf, optJsonOf]

theorem reply_hasTy (r : Reply) (hN : ∀ p, r.parameters = some p → p.isNormal = true) :
    hasTy tyReply r.toT = true := by
  obtain ⟨c, e, p⟩ := r
  cases c <;> cases e <;> cases p <;> simp_all [tyReply, Reply.toT, optT, hasTy, hasTyFields]

theorem reply_clean (r : Reply) (hnull : r.parameters ≠ some .null) :
    clean tyReply r.toT = true := by
  obtain ⟨c, e, p⟩ := r
  cases c <;> cases e <;> cases p <;>
    simp_all [tyReply, Reply.toT, optT, clean, cleanFields, encode, Json.isNull]
  all_goals (rename_i j; cases j <;> simp_all [Json.isNull])

theorem reply_ofT_toT (r : Reply) : Reply.ofT r.toT = some r := by
  obtain ⟨c, e, p⟩ := r
  cases c <;> cases e <;> cases p <;>
    simp [Reply.toT, Reply.ofT, optT, optBoolOf, optStrOf, optJsonOf]

theorem mapOpt_strOf (l : List String) : mapOpt strOf (l.map TVal.str) = some l := by
  induction l with
  | nil => rfl
  | cons x xs ih => simp [mapOpt, strOf, ih]

theorem lookup_eq_occurrences (n : String) (l : List (String × Json)) :
    Json.lookup n l = ((occurrences n l).head?).map (·.2) := by
  induction l with
  | nil => rfl
  | cons e rest ih =>
    obtain ⟨k, v⟩ := e
    by_cases h : k = n
    · subst h; simp [Json.lookup, occurrences]
    · simp [Json.lookup, h, occurrences_cons_ne n k v rest h, ih]

theorem optBoolOf_some {x : TVal} {y : Option Bool} (h : optBoolOf x = some y) : optT .bool y = x := by
  unfold optBoolOf at h
  split at h <;> simp_all [optT]
  · subst h; rfl
  · subst h; rfl

theorem optStrOf_some {x : TVal} {y : Option String} (h : optStrOf x = some y) : optT .str y = x := by
  unfold optStrOf at h
  split at h <;> simp_all [optT]
  · subst h; rfl
  · subst h; rfl

theorem optJsonOf_some {x : TVal} {y : Option Json} (h : optJsonOf x = some y) : optT .value y = x := by
  unfold optJsonOf at h
  split at h <;> simp_all [optT]
  · subst h; rfl
  · subst h; rfl

theorem request_toT_of_ofT {v : TVal} {r : Request} (h : Request.ofT v = some r) : r.toT = v := by
  unfold Request.ofT at h
  split at h
  · rename_i m o u meth p
    split at h
    · rename_i m' o' u' p' hm ho hu hp
      simp only [Option.some.injEq] at h
      subst h
      simp [Request.toT, optBoolOf_some hm, optBoolOf_some ho, optBoolOf_some hu, optJsonOf_some hp]
    · cases h
  · cases h

theorem reply_toT_of_ofT {v : TVal} {r : Reply} (h : Reply.ofT v = some r) : r.toT = v := by
  unfold Reply.ofT at h
  split at h
  · rename_i c e p
    split at h
    · rename_i c' e' p' hc he hp
      simp only [Option.some.injEq] at h
      subst h
      simp [Reply.toT, optBoolOf_some hc, optStrOf_some he, optJsonOf_some hp]
    · cases h
  · cases h

theorem restrictTo_of_known (known : List String) (l : List (String × Json))
    (hk : ∀ e ∈ l, e.1 ∈ known) : restrictTo known (.obj l) = .obj l := by
  simp only [restrictTo]
  congr 1
  rw [List.filter_eq_self]
  intro e he
  simpa using hk e he

end VV
