/-
Lemmas.IdlTrivia — `wce*` against the declarative `Gram.Trivia`: completeness (every
trivia string not followed by more trivia is consumed entirely) and soundness.
-/
import VarlinkVerif.Model.Idl.Gram
import VarlinkVerif.Lemmas.IdlNames

namespace VV.Idl
open Gram

/-- a character that cannot start trivia -/
def TokStart (c : Char) : Prop := Spec.isSpace c = false ∧ Spec.isNewline c = false ∧ c ≠ '#'

/-- no trivia can start here -/
def NoTriviaAhead (r : Input) : Prop := ∀ c r', r = c :: r' → TokStart c

theorem newline_not_space {c : Char} (h : Spec.isNewline c = true) : Spec.isSpace c = false := by
  simp only [Spec.isNewline, Spec.newlineCodes, List.contains_cons, List.contains_nil, Bool.or_false,
    Bool.or_eq_true, beq_iff_eq] at h
  simp only [Spec.isSpace, Spec.spaceCodes, List.contains_cons, List.contains_nil, Bool.or_false]
  generalize c.toNat = n at h ⊢
  rw [Bool.eq_false_iff]
  simp only [ne_eq, Bool.or_eq_true, beq_iff_eq, not_or]
  omega

theorem hash_not_space : Spec.isSpace '#' = false := by decide
theorem hash_not_newline : Spec.isNewline '#' = false := by decide

theorem wce_none_of_tokStart {c : Char} {r : Input} (h : TokStart c) : wce (c :: r) = none := by
  obtain ⟨h1, h2, h3⟩ := h
  have hw : isWs c = false := by rw [isWs_eq]; exact h1
  have he : isEolChar c = false := by rw [isEolChar_eq]; exact h2
  have e1 : c ≠ '\n' := by intro e; subst e; revert he; decide
  have e2 : c ≠ '\r' := by intro e; subst e; revert he; decide
  have e3 : c ≠ '\u2028' := by intro e; subst e; revert he; decide
  have e4 : c ≠ '\u2029' := by intro e; subst e; revert he; decide
  simp [wce, whitespace, hw, comment, h3, eolR, e1, e2, e3, e4]

theorem wce_none_of_noTriviaAhead {r : Input} (h : NoTriviaAhead r) : wce r = none := by
  cases r with
  | nil => simp [wce, whitespace, comment, eolR]
  | cons c r' => exact wce_none_of_tokStart (h c r' rfl)

theorem trivia_append {a b : Str} (ha : Trivia a) (hb : Trivia b) : Trivia (a ++ b) := by
  induction ha with
  | nil => simpa using hb
  | space h _ ih => exact Trivia.space h ih
  | newline h _ ih => exact Trivia.newline h ih
  | comment h1 h2 _ ih =>
    have := Trivia.comment h1 h2 ih
    simpa using this

/-- a line terminator in front of trivia can be peeled off -/
theorem trivia_tail_of_newline {c : Char} {t : Str} (hc : Spec.isNewline c = true) (h : Trivia (c :: t)) : Trivia t := by
  cases h with
  | space h' ht => rw [newline_not_space hc] at h'; cases h'
  | newline _ ht => exact ht
  | comment h1 h2 ht => rw [hash_not_newline] at hc; cases hc

theorem noTriviaAhead_newline_contra {c : Char} {r : Input} (hc : Spec.isNewline c = true)
    (h : NoTriviaAhead (c :: r)) : False := by
  have := (h c r rfl).2.1
  rw [hc] at this; cases this

/-- `eol_r` on a line terminator that heads trivia: it takes CR LF as one piece, and what remains
    is still trivia -/
theorem eolR_on_trivia {e : Char} {t : Str} {r : Input} (he : Spec.isNewline e = true) (ht : Trivia t)
    (hr : NoTriviaAhead r) :
    ∃ nl t', eolR (e :: (t ++ r)) = some (nl, t' ++ r) ∧ e :: t = nl ++ t' ∧ Trivia t' ∧ t'.length ≤ t.length := by
  have he' : isEolChar e = true := by rw [isEolChar_eq]; exact he
  by_cases h1 : e = '\n'
  · exact ⟨[e], t, by simp [eolR, h1], rfl, ht, Nat.le_refl _⟩
  · by_cases h2 : e = '\r'
    · subst h2
      cases t with
      | nil =>
        cases r with
        | nil => exact ⟨['\r'], [], by simp [eolR], rfl, Trivia.nil, Nat.le_refl _⟩
        | cons d r' =>
          have hd : d ≠ '\n' := by
            intro e; subst e
            exact noTriviaAhead_newline_contra (by decide) hr
          refine ⟨['\r'], [], ?_, rfl, Trivia.nil, Nat.le_refl _⟩
          simp [eolR, hd]
      | cons d t' =>
        by_cases hd : d = '\n'
        · subst hd
          refine ⟨['\r', '\n'], t', by simp [eolR], rfl, trivia_tail_of_newline (by decide) ht, by simp⟩
        · exact ⟨['\r'], d :: t', by simp [eolR, hd], rfl, ht, Nat.le_refl _⟩
    · have h3 : e = '\u2028' ∨ e = '\u2029' := by
        have : isEolChar e = true := he'
        simp only [isEolChar, Bool.or_eq_true, beq_iff_eq] at this
        rcases this with ((h | h) | h) | h
        · exact absurd h h1
        · exact absurd h h2
        · exact Or.inl h
        · exact Or.inr h
      rcases h3 with h3 | h3
      · subst h3; exact ⟨['\u2028'], t, by simp [eolR], rfl, ht, Nat.le_refl _⟩
      · subst h3; exact ⟨['\u2029'], t, by simp [eolR], rfl, ht, Nat.le_refl _⟩

/-- **completeness of `wce*`**: trivia that is not followed by more trivia is consumed entirely -/
theorem wceStar_complete : ∀ (k : Nat) (t : Str) (r : Input) (n : Nat), t.length ≤ k → Trivia t →
    NoTriviaAhead r → (t ++ r).length ≤ n → wceStarF n (t ++ r) = (t, r) := by
  intro k
  induction k with
  | zero =>
    intro t r n hk _ hr _
    have : t = [] := List.eq_nil_of_length_eq_zero (by omega)
    subst this
    simpa [wceStarF] using manyF_none (wce_none_of_noTriviaAhead hr)
  | succ k ih =>
    intro t r n hk ht hr hn
    cases ht with
    | nil => simpa [wceStarF] using manyF_none (wce_none_of_noTriviaAhead hr)
    | @space c t' hc ht' =>
      cases n with
      | zero => simp at hn
      | succ n =>
        have hw : isWs c = true := by rw [isWs_eq]; exact hc
        have hs : wce (c :: t' ++ r) = some ([c], t' ++ r) := by simp [wce, whitespace, hw]
        simp only [List.length_cons, List.length_append] at hk hn
        have := ih t' r n (by omega) ht' hr (by simp only [List.length_append]; omega)
        simp only [wceStarF] at this ⊢
        rw [manyF_step hs, this]
        rfl
    | @newline c t' hc ht' =>
      cases n with
      | zero => simp at hn
      | succ n =>
        obtain ⟨nl, t'', h1, h2, h3, h4⟩ := eolR_on_trivia hc ht' hr
        have hw : isWs c = false := by rw [isWs_eq]; exact newline_not_space hc
        have hh : c ≠ '#' := by intro e; subst e; rw [hash_not_newline] at hc; cases hc
        have hs : wce (c :: t' ++ r) = some (nl, t'' ++ r) := by
          simp only [List.cons_append]
          simp [wce, whitespace, hw, comment, hh, h1]
        simp only [List.length_cons, List.length_append] at hk hn
        have := ih t'' r n (by omega) h3 hr (by simp only [List.length_append]; omega)
        simp only [wceStarF] at this ⊢
        rw [manyF_step hs, this, h2]
    | @comment body e t' hb he ht' =>
      cases n with
      | zero => simp at hn
      | succ n =>
        obtain ⟨nl, t'', h1, h2, h3, h4⟩ := eolR_on_trivia he ht' hr
        have hbody : ∀ x ∈ body, (fun x => !isEolChar x) x = true := by
          intro x hx
          have := hb x hx
          simp [isEolChar_eq, this]
        have hstop : ∀ c r', e :: (t' ++ r) = c :: r' → (fun x => !isEolChar x) c = false := by
          intro c r' h
          simp only [List.cons.injEq] at h
          rw [← h.1]
          simp [isEolChar_eq, he]
        have hsplit := takeWhile_append_all (fun x => !isEolChar x) body (e :: (t' ++ r)) hbody hstop
        have hs : wce ('#' :: body ++ e :: t' ++ r) = some ('#' :: body ++ nl, t'' ++ r) := by
          have e1 : '#' :: body ++ e :: t' ++ r = '#' :: (body ++ e :: (t' ++ r)) := by simp
          rw [e1]
          simp only [wce, whitespace, isWs_eq, hash_not_space, comment, if_true, hsplit.1, hsplit.2, h1]
          simp
        simp only [List.length_cons, List.length_append] at hk hn
        have := ih t'' r n (by omega) h3 hr (by simp only [List.length_append]; omega)
        simp only [wceStarF] at this ⊢
        rw [manyF_step hs, this]
        have e2 : '#' :: body ++ e :: t' = '#' :: body ++ (e :: t') := by simp
        rw [e2, h2]
        simp

theorem wceStar_complete' {t : Str} {r : Input} {n : Nat} (ht : Trivia t) (hr : NoTriviaAhead r)
    (hn : (t ++ r).length ≤ n) : wceStarF n (t ++ r) = (t, r) :=
  wceStar_complete t.length t r n (Nat.le_refl _) ht hr hn

theorem wceStar_nil_of_noTriviaAhead {r : Input} {n : Nat} (hr : NoTriviaAhead r) : wceStarF n r = ([], r) := by
  simpa [wceStarF] using manyF_none (wce_none_of_noTriviaAhead hr)

/-- `wce+` -/
theorem wcePlus_complete {t : Str} {r : Input} {n : Nat} (ht : Trivia t) (hne : t ≠ []) (hr : NoTriviaAhead r)
    (hn : (t ++ r).length ≤ n) : wcePlusF n (t ++ r) = some (t, r) := by
  have hstar := wceStar_complete' (n := n + 1) ht hr (by omega)
  simp only [wceStarF] at hstar
  simp only [manyF] at hstar
  simp only [wcePlusF, wceStarF]
  split at hstar
  · rename_i t1 r1 h1
    exact congrArg some hstar
  · simp only [Prod.mk.injEq] at hstar
    exact absurd hstar.1.symm hne

end VV.Idl
