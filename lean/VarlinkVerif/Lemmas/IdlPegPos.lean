/-
Lemmas.IdlPegPos — the error position computed by the instrumented grammar never
leaves the input: `pos + remaining = length` is an invariant of every rule and the
furthest-failure mark is bounded by the length.
-/
import VarlinkVerif.Model.Idl.PegPos
import VarlinkVerif.Lemmas.IdlFuel

namespace VV.Idl.Pos
open VV.Idl

def Inv (N : Nat) (p : PE) : Prop :=
  ∀ st e, st.pos + st.s.length = N → e ≤ N →
    (p st e).2 ≤ N ∧ ∀ st', (p st e).1 = some st' → st'.pos + st'.s.length = N

theorem inv_tok {N p} (hp : Good p) : Inv N (tok p) := by
  intro st e hst he
  simp only [tok]
  split
  · rename_i t r h
    obtain ⟨hs, _⟩ := hp _ _ _ h
    refine ⟨he, ?_⟩
    intro st' h'
    simp only [Option.some.injEq] at h'
    subst h'
    simp only
    rw [hs, List.length_append] at hst
    omega
  · exact ⟨by simp only; omega, by simp⟩

theorem inv_litE {N} (l : Str) : Inv N (litE l) := by
  intro st e hst he
  simp only [litE]
  split
  · rename_i r h
    refine ⟨he, ?_⟩
    intro st' h'
    simp only [Option.some.injEq] at h'
    subst h'
    simp only
    rw [lit_eq h, List.length_append] at hst
    omega
  · exact ⟨by simp only; omega, by simp⟩

theorem inv_cls {N} (f : Char → Bool) : Inv N (cls f) := by
  intro st e hst he
  simp only [cls]
  split
  · rename_i c r h
    split
    · refine ⟨he, ?_⟩
      intro st' h'
      simp only [Option.some.injEq] at h'
      subst h'
      simp only
      rw [h, List.length_cons] at hst
      omega
    · exact ⟨by simp only; omega, by simp⟩
  · exact ⟨by simp only; omega, by simp⟩

theorem inv_seq {N p q} (hp : Inv N p) (hq : Inv N q) : Inv N (seq p q) := by
  intro st e hst he
  simp only [seq]
  have h1 := hp st e hst he
  split
  · rename_i st1 e1 h
    rw [h] at h1
    exact hq st1 e1 (h1.2 st1 rfl) h1.1
  · rename_i e1 h
    rw [h] at h1
    exact ⟨h1.1, by simp⟩

theorem inv_alt {N p q} (hp : Inv N p) (hq : Inv N q) : Inv N (alt p q) := by
  intro st e hst he
  simp only [alt]
  have h1 := hp st e hst he
  split
  · rename_i st1 e1 h
    rw [h] at h1
    exact ⟨h1.1, fun st' h' => by simp only [Option.some.injEq] at h'; subst h'; exact h1.2 _ rfl⟩
  · rename_i e1 h
    rw [h] at h1
    exact hq st e1 hst h1.1

theorem inv_opt {N p} (hp : Inv N p) : Inv N (opt p) := by
  intro st e hst he
  simp only [opt]
  have h1 := hp st e hst he
  split
  · rename_i st1 e1 h
    rw [h] at h1
    exact ⟨h1.1, fun st' h' => by simp only [Option.some.injEq] at h'; subst h'; exact h1.2 _ rfl⟩
  · rename_i e1 h
    rw [h] at h1
    exact ⟨h1.1, fun st' h' => by simp only [Option.some.injEq] at h'; subst h'; exact hst⟩

theorem inv_star {N p} (hp : Inv N p) : ∀ n, Inv N (star p n) := by
  intro n
  induction n with
  | zero =>
    intro st e hst he
    simp only [star]
    exact ⟨he, fun st' h' => by simp only [Option.some.injEq] at h'; subst h'; exact hst⟩
  | succ n ih =>
    intro st e hst he
    simp only [star]
    have h1 := hp st e hst he
    split
    · rename_i st1 e1 h
      rw [h] at h1
      exact ih st1 e1 (h1.2 _ rfl) h1.1
    · rename_i e1 h
      rw [h] at h1
      exact ⟨h1.1, fun st' h' => by simp only [Option.some.injEq] at h'; subst h'; exact hst⟩

theorem inv_sepTail {N p sep} (hp : Inv N p) (hs : Inv N sep) : ∀ n, Inv N (sepTail p sep n) := by
  intro n
  induction n with
  | zero =>
    intro st e hst he
    simp only [sepTail]
    exact ⟨he, fun st' h' => by simp only [Option.some.injEq] at h'; subst h'; exact hst⟩
  | succ n ih =>
    intro st e hst he
    simp only [sepTail]
    have h1 := hs st e hst he
    split
    · rename_i e1 h
      rw [h] at h1
      exact ⟨h1.1, fun st' h' => by simp only [Option.some.injEq] at h'; subst h'; exact hst⟩
    · rename_i st1 e1 h
      rw [h] at h1
      have h2 := hp st1 e1 (h1.2 _ rfl) h1.1
      split
      · rename_i e2 h'
        rw [h'] at h2
        exact ⟨h2.1, fun st' h'' => by simp only [Option.some.injEq] at h''; subst h''; exact hst⟩
      · rename_i st2 e2 h'
        rw [h'] at h2
        exact ih st2 e2 (h2.2 _ rfl) h2.1

theorem inv_sepBy {N p sep} (hp : Inv N p) (hs : Inv N sep) (n : Nat) (b : Bool) : Inv N (sepBy p sep n b) := by
  intro st e hst he
  simp only [sepBy]
  have h1 := hp st e hst he
  split
  · rename_i e1 h
    rw [h] at h1
    split
    · exact ⟨h1.1, by simp⟩
    · exact ⟨h1.1, fun st' h' => by simp only [Option.some.injEq] at h'; subst h'; exact hst⟩
  · rename_i st1 e1 h
    rw [h] at h1
    exact inv_sepTail hp hs n st1 e1 (h1.2 _ rfl) h1.1

theorem inv_wceStarE {N} (n : Nat) : Inv N (wceStarE n) := inv_star (inv_tok good_wce) n
theorem inv_wcePlusE {N} (n : Nat) : Inv N (wcePlusE n) := inv_seq (inv_tok good_wce) (inv_wceStarE n)
theorem inv_fieldNameE {N} (n : Nat) : Inv N (fieldNameE n) :=
  inv_seq (inv_cls _) (inv_star (inv_seq (inv_opt (inv_litE _)) (inv_cls _)) n)
theorem inv_nameE {N} (n : Nat) : Inv N (nameE n) := inv_seq (inv_cls _) (inv_star (inv_cls _) n)

theorem inv_venumE {N} (n : Nat) : Inv N (venumE n) :=
  inv_seq (inv_cls _) <| inv_seq (inv_wceStarE n) <|
    inv_seq (inv_sepBy (inv_fieldNameE n) (inv_seq (inv_cls _) (inv_wceStarE n)) n false) <|
      inv_seq (inv_wceStarE n) (inv_cls _)

theorem inv_objectFieldE {N} (n : Nat) {ty} (hty : Inv N ty) : Inv N (objectFieldE n ty) :=
  inv_seq (inv_wceStarE n) <| inv_seq (inv_fieldNameE n) <| inv_seq (inv_wceStarE n) <|
    inv_seq (inv_cls _) <| inv_seq (inv_wceStarE n) hty

theorem inv_vstructE {N} (n : Nat) {ty} (hty : Inv N ty) : Inv N (vstructE n ty) :=
  inv_seq (inv_cls _) <| inv_seq (inv_wceStarE n) <|
    inv_seq (inv_sepBy (inv_objectFieldE n hty) (inv_cls _) n false) <| inv_seq (inv_wceStarE n) (inv_cls _)

theorem inv_btypeE {N} (n : Nat) {ty} (hty : Inv N ty) : Inv N (btypeE n ty) :=
  inv_alt (inv_litE _) <| inv_alt (inv_litE _) <| inv_alt (inv_litE _) <| inv_alt (inv_litE _) <|
  inv_alt (inv_litE _) <| inv_alt (inv_nameE n) <| inv_alt (inv_vstructE n hty) (inv_venumE n)

theorem inv_typeE {N} : ∀ n, Inv N (typeE n) := by
  intro n
  induction n with
  | zero => intro st e _ he; exact ⟨he, by simp [typeE]⟩
  | succ n ih =>
    simp only [typeE]
    exact inv_alt (inv_btypeE n ih) <| inv_alt (inv_seq (inv_litE _) ih) <|
      inv_alt (inv_seq (inv_litE _) ih) <| inv_alt (inv_seq (inv_litE _) (inv_btypeE n ih)) <|
      inv_alt (inv_seq (inv_litE _) (inv_seq (inv_litE _) ih)) (inv_seq (inv_litE _) (inv_seq (inv_litE _) ih))

theorem inv_memberHeadE {N} (n : Nat) (kw : Str) : Inv N (memberHeadE n kw) :=
  inv_seq (inv_wceStarE n) <| inv_seq (inv_litE _) <| inv_seq (inv_wcePlusE n) <|
    inv_seq (inv_nameE n) (inv_wceStarE n)

theorem inv_memberE {N} (n : Nat) : Inv N (memberE n) :=
  inv_alt
    (inv_seq (inv_memberHeadE n _) <| inv_seq (inv_vstructE n (inv_typeE n)) <| inv_seq (inv_wceStarE n) <|
      inv_seq (inv_litE _) <| inv_seq (inv_wceStarE n) (inv_vstructE n (inv_typeE n)))
    (inv_alt
      (inv_alt (inv_seq (inv_memberHeadE n _) (inv_vstructE n (inv_typeE n)))
        (inv_seq (inv_memberHeadE n _) (inv_venumE n)))
      (inv_seq (inv_memberHeadE n _) (inv_vstructE n (inv_typeE n))))

theorem inv_parseInterfaceE {N} (n : Nat) : Inv N (parseInterfaceE n) :=
  inv_seq (inv_wceStarE n) <| inv_seq (inv_litE _) <| inv_seq (inv_wcePlusE n) <|
    inv_seq (inv_tok (good_interfaceNameF n)) <| inv_seq (inv_tok good_eol) <|
      inv_seq (inv_sepBy (inv_memberE n) (inv_tok good_eol) n true) (inv_wceStarE n)

/-- **the reported position lies inside the input (or at its end)** -/
theorem errPos_le (s : Input) (p : Nat) (h : errPos s = some p) : p ≤ s.length := by
  have hi := inv_parseInterfaceE (N := s.length) (s.length + 1) ⟨s, 0⟩ 0 (by simp) (Nat.zero_le _)
  simp only [errPos] at h
  split at h
  · rename_i st e he
    rw [he] at hi
    split at h
    · simp at h
    · simp only [Option.some.injEq] at h
      subst h
      have := hi.2 st rfl
      have := hi.1
      simp only at this
      omega
  · rename_i e he
    rw [he] at hi
    simp only [Option.some.injEq] at h
    subst h
    exact hi.1

end VV.Idl.Pos
