/-
Lemmas.IdlCompleteStruct — completeness of `type_` / `vstruct` for the declarative grammar,
by mutual structural recursion over the type tree.
-/
import VarlinkVerif.Lemmas.IdlCompleteTypes

namespace VV.Idl
open Gram

theorem noAlnumAhead_of_wordEnd_or_nil {s : Str} (h : s = [] ∨ HeadIs WordEnd s) : NoAlnumAhead s :=
  noAlnumAhead_of_head h

mutual
/-- `type_` (and `btype`, for the kinds it handles) parses a type text to its type -/
theorem type_complete : ∀ (t : Ty) (w : Str), TypeText t w → ∀ (r : Input) (m : Nat), NoAlnumAhead r →
    (w ++ r).length ≤ m →
    (BKind t → btypeF m (typeF m) (w ++ r) = some (t, r)) ∧ typeF (m + 1) (w ++ r) = some (t, r)
  | .bool, w, h => by
    intro r m _ _
    simp only [TypeText] at h; subst h
    have hb : btypeF m (typeF m) (['b', 'o', 'o', 'l'] ++ r) = some (.bool, r) := by simp [btypeF, lit]
    exact ⟨fun _ => hb, typeF_of_btype hb⟩
  | .int, w, h => by
    intro r m _ _
    simp only [TypeText] at h; subst h
    have hb : btypeF m (typeF m) (['i', 'n', 't'] ++ r) = some (.int, r) := by simp [btypeF, lit]
    exact ⟨fun _ => hb, typeF_of_btype hb⟩
  | .float, w, h => by
    intro r m _ _
    simp only [TypeText] at h; subst h
    have hb : btypeF m (typeF m) (['f', 'l', 'o', 'a', 't'] ++ r) = some (.float, r) := by simp [btypeF, lit]
    exact ⟨fun _ => hb, typeF_of_btype hb⟩
  | .string, w, h => by
    intro r m _ _
    simp only [TypeText] at h; subst h
    have hb : btypeF m (typeF m) (['s', 't', 'r', 'i', 'n', 'g'] ++ r) = some (.string, r) := by simp [btypeF, lit]
    exact ⟨fun _ => hb, typeF_of_btype hb⟩
  | .object, w, h => by
    intro r m _ _
    simp only [TypeText] at h; subst h
    have hb : btypeF m (typeF m) (['o', 'b', 'j', 'e', 'c', 't'] ++ r) = some (.object, r) := by simp [btypeF, lit]
    exact ⟨fun _ => hb, typeF_of_btype hb⟩
  | .typename n, w, h => by
    intro r m hr _
    simp only [TypeText] at h
    obtain ⟨rfl, hn⟩ := h
    have hb := btypeF_typename (n := m) (ty := typeF m) hn hr
    exact ⟨fun _ => hb, typeF_of_btype hb⟩
  | .struct fs, w, h => by
    intro r m _ hm
    simp only [TypeText] at h
    obtain ⟨body, t1, rfl, hf, ht1⟩ := h
    have hv := fields_complete fs body hf t1 r m ht1 (by simpa using hm)
    have e1 : ('(' :: body ++ t1 ++ [')']) ++ r = '(' :: (body ++ (t1 ++ ')' :: r)) := by simp
    rw [e1]
    have hb : btypeF m (typeF m) ('(' :: (body ++ (t1 ++ ')' :: r))) = some (.struct fs, r) := by
      rw [btypeF_paren, hv]
    exact ⟨fun _ => hb, typeF_of_btype hb⟩
  | .enum es, w, h => by
    intro r m _ hm
    simp only [TypeText] at h
    have hv := vstructF_none_of_enum h (typeF m) r m hm
    have he := venumF_complete h r m hm
    obtain ⟨t0, body, t1, rfl, _, _, _⟩ := h
    have e1 : ('(' :: t0 ++ body ++ t1 ++ [')']) ++ r = '(' :: (t0 ++ body ++ t1 ++ [')'] ++ r) := by simp
    rw [e1] at hv he ⊢
    have hb : btypeF m (typeF m) ('(' :: (t0 ++ body ++ t1 ++ [')'] ++ r)) = some (.enum es, r) := by
      rw [btypeF_paren, hv, he]
    exact ⟨fun _ => hb, typeF_of_btype hb⟩
  | .array t, w, h => by
    intro r m hr hm
    simp only [TypeText] at h
    obtain ⟨w', rfl, ht⟩ := h
    simp only [List.cons_append, List.length_cons] at hm
    cases m with
    | zero => omega
    | succ m =>
      have ih := (type_complete t w' ht r m hr (by omega)).2
      exact ⟨fun hk => absurd hk (by simp [BKind]), typeF_array ih⟩
  | .dict t, w, h => by
    intro r m hr hm
    simp only [TypeText] at h
    obtain ⟨w', rfl, ht⟩ := h
    simp only [List.append_assoc, List.length_append, List.length_cons, List.length_nil] at hm
    cases m with
    | zero => omega
    | succ m =>
      have ih := (type_complete t w' ht r m hr (by simp only [List.length_append]; omega)).2
      refine ⟨fun hk => absurd hk (by simp [BKind]), ?_⟩
      rw [List.append_assoc]
      exact typeF_dict ih
  | .option (.array t), w, h => by
    intro r m hr hm
    simp only [TypeText] at h
    obtain ⟨w', rfl, ⟨w'', rfl, ht⟩, _⟩ := h
    simp only [List.cons_append, List.length_cons] at hm
    cases m with
    | zero => omega
    | succ m =>
      have ih := (type_complete t w'' ht r m hr (by omega)).2
      exact ⟨fun hk => absurd hk (by simp [BKind]), typeF_option_array ih⟩
  | .option (.dict t), w, h => by
    intro r m hr hm
    simp only [TypeText] at h
    obtain ⟨w', rfl, ⟨w'', rfl, ht⟩, _⟩ := h
    simp only [List.cons_append, List.append_assoc, List.length_cons, List.length_append, List.length_nil] at hm
    cases m with
    | zero => omega
    | succ m =>
      have ih := (type_complete t w'' ht r m hr (by simp only [List.length_append]; omega)).2
      refine ⟨fun hk => absurd hk (by simp [BKind]), ?_⟩
      simp only [List.cons_append, List.append_assoc]
      exact typeF_option_dict ih
  | .option (.option t), w, h => by
    intro r m _ _
    simp only [TypeText] at h
    obtain ⟨w', _, _, hno⟩ := h
    exact absurd hno (by simp [NotOption])
  | .option .bool, w, h => by
    intro r m hr hm
    rw [TypeText] at h
    obtain ⟨w', rfl, ht, _⟩ := h
    simp only [List.cons_append, List.length_cons] at hm
    have ih := (type_complete .bool w' ht r m hr (by omega)).1 (by simp [BKind])
    exact ⟨fun hk => absurd hk (by simp [BKind]), typeF_option_btype ih⟩
  | .option .int, w, h => by
    intro r m hr hm
    rw [TypeText] at h
    obtain ⟨w', rfl, ht, _⟩ := h
    simp only [List.cons_append, List.length_cons] at hm
    have ih := (type_complete .int w' ht r m hr (by omega)).1 (by simp [BKind])
    exact ⟨fun hk => absurd hk (by simp [BKind]), typeF_option_btype ih⟩
  | .option .float, w, h => by
    intro r m hr hm
    rw [TypeText] at h
    obtain ⟨w', rfl, ht, _⟩ := h
    simp only [List.cons_append, List.length_cons] at hm
    have ih := (type_complete .float w' ht r m hr (by omega)).1 (by simp [BKind])
    exact ⟨fun hk => absurd hk (by simp [BKind]), typeF_option_btype ih⟩
  | .option .string, w, h => by
    intro r m hr hm
    rw [TypeText] at h
    obtain ⟨w', rfl, ht, _⟩ := h
    simp only [List.cons_append, List.length_cons] at hm
    have ih := (type_complete .string w' ht r m hr (by omega)).1 (by simp [BKind])
    exact ⟨fun hk => absurd hk (by simp [BKind]), typeF_option_btype ih⟩
  | .option .object, w, h => by
    intro r m hr hm
    rw [TypeText] at h
    obtain ⟨w', rfl, ht, _⟩ := h
    simp only [List.cons_append, List.length_cons] at hm
    have ih := (type_complete .object w' ht r m hr (by omega)).1 (by simp [BKind])
    exact ⟨fun hk => absurd hk (by simp [BKind]), typeF_option_btype ih⟩
  | .option (.typename n), w, h => by
    intro r m hr hm
    rw [TypeText] at h
    obtain ⟨w', rfl, ht, _⟩ := h
    simp only [List.cons_append, List.length_cons] at hm
    have ih := (type_complete (.typename n) w' ht r m hr (by omega)).1 (by simp [BKind])
    exact ⟨fun hk => absurd hk (by simp [BKind]), typeF_option_btype ih⟩
  | .option (.struct fs), w, h => by
    intro r m hr hm
    rw [TypeText] at h
    obtain ⟨w', rfl, ht, _⟩ := h
    simp only [List.cons_append, List.length_cons] at hm
    have ih := (type_complete (.struct fs) w' ht r m hr (by omega)).1 (by simp [BKind])
    exact ⟨fun hk => absurd hk (by simp [BKind]), typeF_option_btype ih⟩
  | .option (.enum es), w, h => by
    intro r m hr hm
    rw [TypeText] at h
    obtain ⟨w', rfl, ht, _⟩ := h
    simp only [List.cons_append, List.length_cons] at hm
    have ih := (type_complete (.enum es) w' ht r m hr (by omega)).1 (by simp [BKind])
    exact ⟨fun hk => absurd hk (by simp [BKind]), typeF_option_btype ih⟩
/-- `(',' object_field)*` -/
theorem rest_complete : ∀ (fs : Fields) (w : Str), RestText fs w → ∀ (r : Input) (m k : Nat),
    (r = [] ∨ HeadIs StopList r) → (w ++ r).length < m → (w ++ r).length ≤ k →
    sepTailF (objectFieldF m (typeF m)) (chr ',') k (w ++ r) = (fs.toList, r)
  | .nil, w, h => by
    intro r m k hr _ _
    simp only [RestText] at h; subst h
    cases k with
    | zero => rfl
    | succ k =>
      have : chr ',' r = none := by
        rcases hr with rfl | ⟨c, s', rfl, _, hc⟩
        · rfl
        · exact chr_none_of_head hc
      simp [sepTailF, this, Fields.toList]
  | .cons nm t rest, w, h => by
    intro r m k hr hm hk
    simp only [RestText, FieldText] at h
    obtain ⟨w1, w2, rfl, ⟨t0, t1, t2, wt, rfl, ht0, hnm, ht1, ht2, hty⟩, hrest⟩ := h
    cases k with
    | zero => simp at hk
    | succ k =>
      cases m with
      | zero => omega
      | succ m =>
        have hfollow : NoAlnumAhead (w2 ++ r) := noAlnumAhead_of_head (restText_head hrest hr)
        have e1 : ',' :: (t0 ++ nm ++ t1 ++ ':' :: t2 ++ wt) ++ w2 ++ r =
            ',' :: (t0 ++ nm ++ t1 ++ ':' :: t2 ++ wt ++ (w2 ++ r)) := by simp
        rw [e1] at hm hk ⊢
        simp only [List.length_cons, List.length_append] at hm hk
        have htype := (type_complete t wt hty (w2 ++ r) m hfollow (by simp only [List.length_append]; omega)).2
        have hobj := objectField_of (m := m + 1) (ty := typeF (m + 1)) ht0 hnm ht1 ht2 (typeText_head hty) htype
          (by simp only [List.length_append, List.length_cons]; omega)
        have ih := rest_complete rest w2 hrest r (m + 1) k hr (by simp only [List.length_append]; omega)
          (by simp only [List.length_append]; omega)
        simp only [sepTailF, chr_self, hobj, ih, Fields.toList]
/-- `vstruct` -/
theorem fields_complete : ∀ (fs : Fields) (body : Str), FieldsText fs body → ∀ (t1 : Str) (r : Input) (m : Nat),
    Trivia t1 → ('(' :: (body ++ (t1 ++ ')' :: r))).length ≤ m →
    vstructF m (typeF m) ('(' :: (body ++ (t1 ++ ')' :: r))) = some (fs, r)
  | .nil, body, h => by
    intro t1 r m ht1 hm
    simp only [FieldsText] at h; subst h
    simp only [List.nil_append, List.length_cons, List.length_append] at hm ⊢
    have hw := wceStar_complete' (n := m) ht1 (noTriviaAhead_cons (r := r) tokStart_rparen)
      (by simp only [List.length_append, List.length_cons]; omega)
    have hw' : wceStarF m (')' :: r) = ([], ')' :: r) := wceStar_nil_of_noTriviaAhead (noTriviaAhead_cons tokStart_rparen)
    have hobj : objectFieldF m (typeF m) (')' :: r) = none := by
      simp [objectFieldF, hw', fieldNameF, show isAlpha ')' = false by decide]
    simp only [vstructF, chr_self, hw, sepByF, hobj, hw', Fields.ofList]
  | .cons nm t rest, body, h => by
    intro t1' r m ht1' hm
    simp only [FieldsText, FieldText] at h
    obtain ⟨w1, w2, rfl, ⟨t0, t1, t2, wt, rfl, ht0, hnm, ht1, ht2, hty⟩, hrest⟩ := h
    cases m with
    | zero => simp at hm
    | succ m =>
      have hstop := stop_after_fields ht1' r
      have hfollow : NoAlnumAhead (w2 ++ (t1' ++ ')' :: r)) := noAlnumAhead_of_head (restText_head hrest hstop)
      have e1 : t0 ++ nm ++ t1 ++ ':' :: t2 ++ wt ++ w2 ++ (t1' ++ ')' :: r) =
          t0 ++ (([] : Str) ++ nm ++ t1 ++ ':' :: t2 ++ wt ++ (w2 ++ (t1' ++ ')' :: r))) := by simp
      rw [e1] at hm ⊢
      simp only [List.length_cons, List.length_append, List.length_nil] at hm
      have hX : HeadIs TokStart (([] : Str) ++ nm ++ t1 ++ ':' :: t2 ++ wt ++ (w2 ++ (t1' ++ ')' :: r))) := by
        have := (isFieldName_head hnm).append (t1 ++ ':' :: t2 ++ wt ++ (w2 ++ (t1' ++ ')' :: r)))
        obtain ⟨c, s', h1, h2⟩ := this
        exact ⟨c, s', by simpa using h1, tokStart_of_letter h2⟩
      have hw0 := wceStar_complete' (n := m + 1) ht0 (noTriviaAhead_of_head hX)
        (by simp only [List.length_append, List.length_cons, List.length_nil]; omega)
      have htype := (type_complete t wt hty (w2 ++ (t1' ++ ')' :: r)) m hfollow
        (by simp only [List.length_append, List.length_cons]; omega)).2
      have hobj := objectField_of (m := m + 1) (ty := typeF (m + 1)) Trivia.nil hnm ht1 ht2 (typeText_head hty) htype
        (by simp only [List.length_append, List.length_cons, List.length_nil]; omega)
      have htl := rest_complete rest w2 hrest (t1' ++ ')' :: r) (m + 1) (m + 1) hstop
        (by simp only [List.length_append, List.length_cons]; omega)
        (by simp only [List.length_append, List.length_cons]; omega)
      have hw1 := wceStar_complete' (n := m + 1) ht1' (noTriviaAhead_cons (r := r) tokStart_rparen)
        (by simp only [List.length_append, List.length_cons]; omega)
      simp only [vstructF, chr_self, hw0, sepByF, hobj, htl, hw1, Fields.ofList, Fields.ofList_toList]
end

end VV.Idl
