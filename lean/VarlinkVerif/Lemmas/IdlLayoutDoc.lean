/-
Lemmas.IdlLayoutDoc — the documentation lemma: a documentation string (trimmed trivia),
re-emitted between newlines, is trivia again and trims back to itself — including the cases
where trimming cut a comment's terminator and trailing blanks, and the TAB that `trim_doc`
does not strip.
-/
import VarlinkVerif.Model.Idl.Gram
import VarlinkVerif.Lemmas.IdlNames

namespace VV.Idl
open Gram

/-- a documentation string: what `trim_doc` makes of some trivia -/
def IsDoc (d : Str) : Prop := ∃ t, Trivia t ∧ d = Spec.trim t

/-- drop the longest suffix of characters satisfying `p` -/
def dropEnd (p : Char → Bool) (l : Str) : Str := (l.reverse.dropWhile p).reverse

theorem trim_def (t : Str) : Spec.trim t = dropEnd Spec.isTrimmed (t.dropWhile Spec.isTrimmed) := rfl

theorem dropWhile_append_all' {α} (p : α → Bool) : ∀ (a b : List α), (∀ x ∈ a, p x = true) →
    (a ++ b).dropWhile p = b.dropWhile p
  | [], _, _ => rfl
  | x :: a, b, h => by
    simp only [List.cons_append, List.dropWhile, h x (by simp)]
    exact dropWhile_append_all' p a b (fun y hy => h y (by simp [hy]))

theorem dropWhile_append_stop {α} (p : α → Bool) : ∀ (a b : List α), (∃ x ∈ a, p x = false) →
    (a ++ b).dropWhile p = a.dropWhile p ++ b
  | [], _, h => by obtain ⟨x, hx, _⟩ := h; simp at hx
  | x :: a, b, h => by
    simp only [List.cons_append, List.dropWhile]
    cases hx : p x with
    | false => rfl
    | true =>
      simp only
      apply dropWhile_append_stop p a b
      obtain ⟨y, hy, hpy⟩ := h
      simp only [List.mem_cons] at hy
      rcases hy with rfl | hy
      · rw [hx] at hpy; cases hpy
      · exact ⟨y, hy, hpy⟩

theorem dropEnd_append (p : Char → Bool) (a b : Str) :
    dropEnd p (a ++ b) = if b.all p then dropEnd p a else a ++ dropEnd p b := by
  simp only [dropEnd, List.reverse_append]
  split
  · rename_i h
    rw [dropWhile_append_all' p b.reverse a.reverse (by
      intro x hx
      simp only [List.all_eq_true] at h
      exact h x (by simpa using hx))]
  · rename_i h
    simp only [List.all_eq_true, Classical.not_forall] at h
    obtain ⟨x, hx, hpx⟩ := h
    rw [dropWhile_append_stop p b.reverse a.reverse ⟨x, by simpa using hx, by simpa using hpx⟩]
    simp

theorem dropEnd_nil (p : Char → Bool) : dropEnd p [] = [] := rfl

theorem dropEnd_single (p : Char → Bool) (c : Char) : dropEnd p [c] = if p c then [] else [c] := by
  simp only [dropEnd, List.reverse_singleton, List.dropWhile]
  cases p c <;> simp

theorem dropEnd_prefix (p : Char → Bool) (l : Str) : ∃ s, l = dropEnd p l ++ s ∧ ∀ x ∈ s, p x = true := by
  refine ⟨(l.reverse.takeWhile p).reverse, ?_, ?_⟩
  · have := List.takeWhile_append_dropWhile (p := p) (l := l.reverse)
    have h2 := congrArg List.reverse this
    simp only [List.reverse_append, List.reverse_reverse] at h2
    exact h2.symm
  · intro x hx
    have : x ∈ l.reverse.takeWhile p := by simpa using hx
    exact mem_takeWhile_imp p _ x this

theorem isTrimmed_newline {c : Char} (h : Spec.isNewline c = true) : Spec.isTrimmed c = true := by
  simp [Spec.isTrimmed, h]

theorem isTrimmed_hash : Spec.isTrimmed '#' = false := by decide

/-- removing leading trimmed characters from trivia leaves trivia -/
theorem trivia_dropWhile_trim {t : Str} (h : Trivia t) : Trivia (t.dropWhile Spec.isTrimmed) := by
  induction h with
  | nil => exact Trivia.nil
  | @space c t' hc ht' ih =>
    simp only [List.dropWhile]
    cases hp : Spec.isTrimmed c with
    | true => exact ih
    | false => exact Trivia.space hc ht'
  | @newline c t' hc _ ih =>
    simp only [List.dropWhile, isTrimmed_newline hc]
    exact ih
  | @comment body e t' hb he ht' _ =>
    have : ('#' :: body ++ e :: t').dropWhile Spec.isTrimmed = '#' :: body ++ e :: t' := by
      simp [List.dropWhile, isTrimmed_hash]
    rw [this]
    exact Trivia.comment hb he ht'

theorem sublist_no_newline {body body' s : Str} (h : body = body' ++ s) (hb : ∀ x ∈ body, Spec.isNewline x = false) :
    ∀ x ∈ body', Spec.isNewline x = false := fun x hx => hb x (by rw [h]; simp [hx])

/-- cutting the trailing trimmed characters off trivia and adding a newline gives trivia: a comment
    whose terminator (and trailing blanks) were cut is terminated by the new newline -/
theorem trivia_dropEnd_nl {t : Str} (h : Trivia t) : Trivia (dropEnd Spec.isTrimmed t ++ ['\n']) := by
  have hnl : Trivia ['\n'] := Trivia.newline (by decide) Trivia.nil
  induction h with
  | nil => simpa [dropEnd_nil] using hnl
  | @space c t' hc ht' ih =>
    have : c :: t' = [c] ++ t' := rfl
    rw [this, dropEnd_append]
    split
    · rw [dropEnd_single]
      split
      · simpa using hnl
      · exact Trivia.space hc hnl
    · exact Trivia.space hc ih
  | @newline c t' hc ht' ih =>
    have : c :: t' = [c] ++ t' := rfl
    rw [this, dropEnd_append]
    split
    · rw [dropEnd_single, isTrimmed_newline hc]
      simpa using hnl
    · exact Trivia.newline hc ih
  | @comment body e t' hb he ht' ih =>
    have e1 : '#' :: body ++ e :: t' = ('#' :: body) ++ ([e] ++ t') := by simp
    rw [e1, dropEnd_append]
    split
    · -- everything after the body is trimmed: the comment is re-terminated
      have e2 : '#' :: body = ['#'] ++ body := rfl
      rw [e2, dropEnd_append]
      split
      · rw [dropEnd_single, isTrimmed_hash]
        have := Trivia.comment (body := []) (e := '\n') (t := []) (by simp) (by decide) Trivia.nil
        simpa using this
      · obtain ⟨s, hs, _⟩ := dropEnd_prefix Spec.isTrimmed body
        have := Trivia.comment (body := dropEnd Spec.isTrimmed body) (e := '\n') (t := [])
          (sublist_no_newline hs hb) (by decide) Trivia.nil
        simpa using this
    · rw [dropEnd_append]
      split
      · rename_i h1 h2
        exfalso
        apply h1
        simp only [List.all_append, Bool.and_eq_true]
        exact ⟨by simp [isTrimmed_newline he], h2⟩
      · have := Trivia.comment hb he ih
        simpa using this

theorem dropWhile_head_not {p : Char → Bool} {l : Str} {c : Char} {r : Str} (h : l.dropWhile p = c :: r) : p c = false :=
  dropWhile_head_false p l c r h

/-- `trim` of a sandwich of trimmed characters around an already trimmed string -/
theorem trim_sandwich (t pre post : Str) (hpre : ∀ c ∈ pre, Spec.isTrimmed c = true)
    (hpost : ∀ c ∈ post, Spec.isTrimmed c = true) : Spec.trim (pre ++ Spec.trim t ++ post) = Spec.trim t := by
  -- name the trimmed string and its two boundary facts
  have hd : Spec.trim t = dropEnd Spec.isTrimmed (t.dropWhile Spec.isTrimmed) := rfl
  generalize hA : t.dropWhile Spec.isTrimmed = A at hd
  -- (i) the last character of d is not trimmed
  have hlast : ∀ c r, (dropEnd Spec.isTrimmed A).reverse = c :: r → Spec.isTrimmed c = false := by
    intro c r h
    simp only [dropEnd, List.reverse_reverse] at h
    exact dropWhile_head_not h
  -- (ii) the first character of d is not trimmed
  have hfirst : ∀ c r, dropEnd Spec.isTrimmed A = c :: r → Spec.isTrimmed c = false := by
    intro c r h
    obtain ⟨s, hs, _⟩ := dropEnd_prefix Spec.isTrimmed A
    rw [h] at hs
    have : A = c :: (r ++ s) := by simpa using hs
    rw [← hA] at this
    exact dropWhile_head_not this
  rw [hd]
  generalize dropEnd Spec.isTrimmed A = d at hlast hfirst
  show dropEnd Spec.isTrimmed ((pre ++ d ++ post).dropWhile Spec.isTrimmed) = d
  rw [List.append_assoc, dropWhile_append_all' _ pre _ hpre]
  cases d with
  | nil =>
    simp only [List.nil_append]
    have : post.dropWhile Spec.isTrimmed = [] := by
      have := dropWhile_append_all' Spec.isTrimmed post [] hpost
      simpa using this
    rw [this]; rfl
  | cons c r =>
    have hc := hfirst c r rfl
    have : (c :: r ++ post).dropWhile Spec.isTrimmed = c :: r ++ post := by simp [List.dropWhile, hc]
    rw [this, dropEnd_append]
    have hall : post.all Spec.isTrimmed = true := by simpa [List.all_eq_true] using hpost
    rw [if_pos hall]
    -- dropEnd of d is d because its last character is not trimmed
    simp only [dropEnd]
    cases hrev : (c :: r).reverse with
    | nil => simp at hrev
    | cons x xs =>
      have hx := hlast x xs hrev
      simp only [List.dropWhile, hx]
      rw [← hrev]; simp

/-- **the documentation lemma** -/
theorem doc_lemma {d : Str} (h : IsDoc d) (hne : d ≠ []) :
    Trivia (d ++ ['\n']) ∧ Trivia ('\n' :: d ++ ['\n']) ∧ Spec.trim (d ++ ['\n']) = d ∧ Spec.trim ('\n' :: d ++ ['\n']) = d := by
  obtain ⟨t, ht, rfl⟩ := h
  have h1 : Trivia (Spec.trim t ++ ['\n']) := trivia_dropEnd_nl (trivia_dropWhile_trim ht)
  refine ⟨h1, Trivia.newline (by decide) h1, ?_, ?_⟩
  · have := trim_sandwich t [] ['\n'] (by simp) (by intro c hc; simp at hc; subst hc; decide)
    simpa using this
  · have := trim_sandwich t ['\n'] ['\n'] (by intro c hc; simp at hc; subst hc; decide)
      (by intro c hc; simp at hc; subst hc; decide)
    simpa using this

theorem trim_nl : Spec.trim ['\n'] = [] := by decide

end VV.Idl
