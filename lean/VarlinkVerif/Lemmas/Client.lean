/-
Lemmas.Client — case analyses of `Client.send` / `Client.recv` used by
Props/C07.lean, Props/C20.lean.
-/
import VarlinkVerif.Model.Client

namespace VV
namespace Client

/-- the connection can start a call: both halves of the stream are in their slots -/
def Conn.idle (c : Conn) : Bool := c.reader && c.writer

/-- the call object has not been sent yet -/
def MCall.fresh (m : MCall) : Prop := ∃ meth params, m.method = some meth ∧ m.request = some params ∧ m.unser = false

def MCall.spent (m : MCall) : MCall := { m with method := none, request := none }

/-! ### `send` -/

/-- what `send` does when it does not get as far as writing -/
theorem send_not_idle (p : Peer) (ow mo up : Bool) (s : CS) (h : s.conn.idle = false) :
    (send p ow mo up s).2 = { s with call := s.call.spent } ∧
    ((send p ow mo up s).1 = some .connectionBusy ∨ (send p ow mo up s).1 = some .methodCalledAlready ∨
     (send p ow mo up s).1 = some .badJson) := by
  unfold send
  have h' : (!s.conn.reader || !s.conn.writer) = true := by
    simp [Conn.idle] at h
    cases hr : s.conn.reader <;> cases hw : s.conn.writer <;> simp_all
  cases hm : s.call.method <;> cases hq : s.call.request <;> cases hu : s.call.unser <;> simp [h', MCall.spent]

/-- the request does not serialize: refused before the connection is looked at -/
theorem send_unser (p : Peer) (ow mo up : Bool) (s : CS) (meth : String) (params : Json)
    (hm : s.call.method = some meth) (hq : s.call.request = some params) (hu : s.call.unser = true) :
    send p ow mo up s = (some .badJson, { s with call := s.call.spent }) := by
  unfold send
  simp [hm, hq, hu, MCall.spent]

theorem send_spent (p : Peer) (ow mo up : Bool) (s : CS) (h : s.call.method = none ∨ s.call.request = none) :
    send p ow mo up s = (some .methodCalledAlready, { s with call := s.call.spent }) := by
  unfold send
  rcases h with h | h
  · simp [h, MCall.spent]
  · cases hm : s.call.method <;> simp [h, MCall.spent]

/-- `send` on an idle connection with a fresh call object whose write succeeds -/
theorem send_ok (p : Peer) (ow mo up : Bool) (s : CS) (meth : String) (params : Json)
    (hm : s.call.method = some meth) (hq : s.call.request = some params) (hu : s.call.unser = false)
    (hi : s.conn.idle = true) (hw : s.wire.canWrite = true) :
    send p ow mo up s =
      (none,
       { conn := { reader := ow, writer := ow },
         call := if ow then s.call.spent else { s.call.spent with reader := true, writer := true },
         wire := s.wire.accept p (mkRequest meth params ow mo up) }) := by
  unfold send
  simp [Conn.idle] at hi
  obtain ⟨hr, hwr⟩ := hi
  cases ow <;> simp [hm, hq, hu, hr, hwr, hw, MCall.spent]

/-- … whose write fails -/
theorem send_wfail (p : Peer) (ow mo up : Bool) (s : CS) (meth : String) (params : Json)
    (hm : s.call.method = some meth) (hq : s.call.request = some params) (hu : s.call.unser = false)
    (hi : s.conn.idle = true) (hw : s.wire.canWrite = false) :
    send p ow mo up s =
      (some .io,
       { conn := { reader := ow, writer := false },
         call := if ow then s.call.spent else { s.call.spent with reader := true },
         wire := s.wire }) := by
  unfold send
  simp [Conn.idle] at hi
  obtain ⟨hr, hwr⟩ := hi
  cases ow <;> simp [hm, hq, hu, hr, hwr, hw, MCall.spent]

/-- after any `send` the call object is spent -/
theorem send_spends (p : Peer) (ow mo up : Bool) (s : CS) :
    (send p ow mo up s).2.call.method = none ∧ (send p ow mo up s).2.call.request = none := by
  unfold send
  cases hm : s.call.method <;> cases hq : s.call.request <;> simp
  split
  · simp
  · split
    · simp
    · split
      · cases ow <;> simp
      · cases ow <;> simp

/-! ### `recv` -/

def Msg.isFinal : Msg → Bool
  | .reply r => r.continues != some true
  | _ => false

theorem recv_no_stream (dec : Decoder) (s : CS) (h : (s.call.reader && s.call.writer) = false) :
    recv dec s = some (.err .iteratorOldReply, s) := by
  unfold recv
  have : (!s.call.reader || !s.call.writer) = true := by
    cases hr : s.call.reader <;> cases hw : s.call.writer <;> simp_all
  simp [this]

theorem recv_reply (dec : Decoder) (s : CS) (r : Reply) (q : List Msg)
    (hr : s.call.reader = true) (hw : s.call.writer = true) (hq : s.wire.queue = .reply r :: q) :
    recv dec s = some (replyRes dec r,
      if r.continues = some true then
        { s with call := { s.call with continues := true }, wire := { s.wire with queue := q } }
      else
        { conn := { reader := true, writer := true },
          call := { s.call with continues := false, reader := false, writer := false },
          wire := { s.wire with queue := q } }) := by
  unfold recv
  simp [hr, hw, hq]
  split <;> simp

/-- `recv` never gives method/request back -/
theorem recv_keeps_spent (dec : Decoder) (s : CS) (r : Res) (s' : CS) (h : recv dec s = some (r, s'))
    (hm : s.call.method = none) : s'.call.method = none := by
  unfold recv at h
  split at h
  · simp at h; rw [← h.2]; exact hm
  · split at h
    · split at h
      · simp at h; rw [← h.2]; exact hm
      · simp at h
    · simp at h; rw [← h.2]; exact hm
    · simp at h; rw [← h.2]; exact hm
    · split at h <;> (simp at h; rw [← h.2]; exact hm)

/-! ### iteration -/

/-- `n` successive calls of `Iterator::next` (the read never blocking) -/
def nexts (dec : Decoder) : Nat → CS → Option (List Res × CS)
  | 0, s => some ([], s)
  | n + 1, s =>
    match next dec s with
    | none => none
    | some (r, s') =>
      match nexts dec n s' with
      | none => none
      | some (rs, s'') => some (r :: rs, s'')

/-- once `continues` is false, `next` yields `None` for ever and changes nothing -/
theorem nexts_ended (dec : Decoder) (s : CS) (h : s.call.continues = false) :
    ∀ n, nexts dec n s = some (List.replicate n .none, s) := by
  intro n
  induction n with
  | zero => rfl
  | succ n ih => simp [nexts, next, h, ih, List.replicate_succ]

/-- a call that owns the stream and iterates over `continues` replies keeps owning it -/
theorem nexts_continues (dec : Decoder) (rs : List Reply) (rest : List Msg) :
    ∀ s : CS, s.call.reader = true → s.call.writer = true → s.call.continues = true →
      s.wire.queue = rs.map Msg.reply ++ rest → (∀ r ∈ rs, r.continues = some true) →
      nexts dec rs.length s = some (rs.map (replyRes dec),
        { s with call := { s.call with continues := true }, wire := { s.wire with queue := rest } }) := by
  induction rs with
  | nil =>
    intro s _ _ hc hq _
    have : s = { s with call := { s.call with continues := true }, wire := { s.wire with queue := rest } } := by
      cases s with
      | mk conn call wire =>
        cases call; cases wire
        simp at hc hq
        simp [hc, hq]
    simp [nexts]
    exact this
  | cons r rs ih =>
    intro s hr hw hc hq hall
    have hrc : r.continues = some true := hall r (by simp)
    have hq' : s.wire.queue = .reply r :: (rs.map Msg.reply ++ rest) := by simpa using hq
    rw [List.length_cons, nexts]
    simp only [next, hc, Bool.not_true, Bool.false_eq_true, if_false]
    rw [recv_reply dec s r _ hr hw hq']
    simp only [hrc, if_true]
    have e := ih { s with call := { s.call with continues := true },
                          wire := { s.wire with queue := rs.map Msg.reply ++ rest } }
      hr hw rfl rfl (fun x hx => hall x (by simp [hx]))
    rw [e]
    simp

/-- … and the final reply ends the iteration and returns the stream -/
theorem nexts_stream (dec : Decoder) (rs : List Reply) (f : Reply) (rest : List Msg) (s : CS)
    (hr : s.call.reader = true) (hw : s.call.writer = true) (hc : s.call.continues = true)
    (hq : s.wire.queue = rs.map Msg.reply ++ .reply f :: rest)
    (hall : ∀ r ∈ rs, r.continues = some true) (hf : f.continues ≠ some true) :
    nexts dec (rs.length + 1) s = some (rs.map (replyRes dec) ++ [replyRes dec f],
      { conn := { reader := true, writer := true },
        call := { s.call with continues := false, reader := false, writer := false },
        wire := { s.wire with queue := rest } }) := by
  induction rs generalizing s with
  | nil =>
    have hq' : s.wire.queue = .reply f :: rest := by simpa using hq
    simp only [List.length_nil, nexts, next, hc, Bool.not_true, Bool.false_eq_true, if_false]
    rw [recv_reply dec s f _ hr hw hq']
    simp [hf]
  | cons r rs ih =>
    have hrc : r.continues = some true := hall r (by simp)
    have hq' : s.wire.queue = .reply r :: (rs.map Msg.reply ++ .reply f :: rest) := by simpa using hq
    rw [List.length_cons, nexts]
    simp only [next, hc, Bool.not_true, Bool.false_eq_true, if_false]
    rw [recv_reply dec s r _ hr hw hq']
    simp only [hrc, if_true]
    have e := ih { s with call := { s.call with continues := true },
                          wire := { s.wire with queue := rs.map Msg.reply ++ .reply f :: rest } }
      hr hw rfl rfl (fun x hx => hall x (by simp [hx]))
    rw [e]
    simp

end Client
end VV
