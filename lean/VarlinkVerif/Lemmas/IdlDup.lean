/-
Lemmas.IdlDup — the fold of `IDL::from_token`: key lists mirror the source, the maps hold
the last member of each name, and the error set names exactly the duplicated names.
-/
import VarlinkVerif.Model.Idl.Dup

namespace VV.Idl

/-- names of the members of kind `k`, in source order -/
def namesOf (k : Kind) (ms : List Member) : List Str := (ms.filter (·.kind = k)).map (·.name)

/-- the last member of kind `k` called `n` -/
def lastOf (k : Kind) (n : Str) (ms : List Member) : Option Member :=
  (ms.filter fun m => m.kind = k ∧ m.name = n).getLast?

/-- `n` is defined more than once (across all kinds) -/
def IsDup (n : Str) (ms : List Member) : Prop := 2 ≤ (ms.map (·.name)).count n

/-- `msg` is one of the four message shapes for interface `iface` and name `n` -/
def Mentions (iface : Str) (msg n : Str) : Prop :=
  msg = msgAny iface n ∨ ∃ k : Kind, msg = msgKind (kindWord k) iface n

theorem insertMap_snd (k : Str) (v : Member) : ∀ m, (insertMap k v m).2 = lookupMap k m
  | [] => rfl
  | (k', v') :: r => by
    simp only [insertMap, lookupMap]
    split
    · rfl
    · exact insertMap_snd k v r

theorem lookup_insertMap (k : Str) (v : Member) (k' : Str) :
    ∀ m, lookupMap k' (insertMap k v m).1 = if k' = k then some v else lookupMap k' m
  | [] => by
    simp only [insertMap, lookupMap]
    by_cases h : k' = k
    · simp [h]
    · have : ¬ k = k' := fun e => h e.symm
      simp [h, this]
  | (k0, v0) :: r => by
    simp only [insertMap]
    by_cases h0 : k0 = k
    · subst h0
      simp only [if_true, lookupMap]
      by_cases h : k' = k0
      · subst h; simp
      · have : ¬ k0 = k' := fun e => h e.symm
        simp [h, this]
    · simp only [if_neg h0, lookupMap]
      by_cases h1 : k0 = k'
      · subst h1
        simp [h0]
      · simp only [if_neg h1]
        exact lookup_insertMap k v k' r

theorem namesOf_append (k : Kind) (a b : List Member) : namesOf k (a ++ b) = namesOf k a ++ namesOf k b := by
  simp [namesOf]

theorem namesOf_single (k : Kind) (m : Member) : namesOf k [m] = if m.kind = k then [m.name] else [] := by
  simp only [namesOf, List.filter]
  by_cases h : m.kind = k <;> simp [h]

theorem lastOf_append_single (k : Kind) (n : Str) (ms : List Member) (m : Member) :
    lastOf k n (ms ++ [m]) = if m.kind = k ∧ m.name = n then some m else lastOf k n ms := by
  simp only [lastOf, List.filter_append]
  by_cases h : m.kind = k ∧ m.name = n
  · simp [h, List.filter]
  · simp [h, List.filter]

theorem mem_namesOf {k : Kind} {n : Str} {ms : List Member} :
    n ∈ namesOf k ms ↔ ∃ m ∈ ms, m.kind = k ∧ m.name = n := by
  simp [namesOf, and_assoc]

theorem lastOf_isSome {k : Kind} {n : Str} {ms : List Member} :
    (lastOf k n ms).isSome ↔ ∃ m ∈ ms, m.kind = k ∧ m.name = n := by
  simp only [lastOf, List.getLast?_isSome]
  constructor
  · intro h
    obtain ⟨x, hx⟩ := List.exists_mem_of_ne_nil _ h
    simp only [List.mem_filter, decide_eq_true_eq] at hx
    exact ⟨x, hx.1, hx.2⟩
  · intro ⟨m, hm, hk⟩ he
    have : m ∈ ms.filter fun m => m.kind = k ∧ m.name = n := by
      simp only [List.mem_filter, decide_eq_true_eq]; exact ⟨hm, hk⟩
    rw [he] at this; simp at this

theorem lastOf_name {k : Kind} {n : Str} {ms : List Member} {d : Member} (h : lastOf k n ms = some d) :
    d.name = n ∧ d.kind = k ∧ d ∈ ms := by
  simp only [lastOf] at h
  have := List.mem_of_getLast? h
  simp only [List.mem_filter, decide_eq_true_eq] at this
  exact ⟨this.2.2, this.2.1, this.1⟩

/-- the invariant of the `for o in mt` loop after the members `done` -/
structure FoldInv (iface : Str) (done : List Member) (i : IDL) : Prop where
  name : i.name = iface
  mkeys : i.methodKeys = namesOf .method done
  tkeys : i.typedefKeys = namesOf .typedef done
  ekeys : i.errorKeys = namesOf .error done
  mmap : ∀ n, lookupMap n i.methods = lastOf .method n done
  tmap : ∀ n, lookupMap n i.typedefs = lastOf .typedef n done
  emap : ∀ n, lookupMap n i.errors = lastOf .error n done
  sound : ∀ msg ∈ i.error, ∃ n, IsDup n done ∧ Mentions iface msg n
  complete : ∀ n, IsDup n done → ∃ msg ∈ i.error, Mentions iface msg n

theorem isDup_append_single {n : Str} {ms : List Member} {m : Member} :
    IsDup n (ms ++ [m]) ↔ IsDup n ms ∨ (m.name = n ∧ n ∈ ms.map (·.name)) := by
  simp only [IsDup, List.map_append, List.map_cons, List.map_nil, List.count_append, List.count_cons,
    List.count_nil]
  by_cases h : m.name = n
  · subst h
    simp only [beq_self_eq_true, if_true, true_and]
    constructor
    · intro h2
      by_cases h3 : 2 ≤ (ms.map (·.name)).count m.name
      · exact Or.inl h3
      · right
        exact List.count_pos_iff.mp (by omega)
    · rintro (h2 | h2)
      · omega
      · have := List.count_pos_iff.mpr h2
        omega
  · have : (m.name == n) = false := by simpa using h
    simp [this, h]

theorem mem_names_iff {n : Str} {ms : List Member} :
    n ∈ ms.map (·.name) ↔ n ∈ namesOf .method ms ∨ n ∈ namesOf .typedef ms ∨ n ∈ namesOf .error ms := by
  simp only [List.mem_map, mem_namesOf]
  constructor
  · rintro ⟨m, hm, rfl⟩
    cases hk : m.kind
    · exact Or.inr (Or.inl ⟨m, hm, hk, rfl⟩)
    · exact Or.inl ⟨m, hm, hk, rfl⟩
    · exact Or.inr (Or.inr ⟨m, hm, hk, rfl⟩)
  · rintro (⟨m, hm, _, rfl⟩ | ⟨m, hm, _, rfl⟩ | ⟨m, hm, _, rfl⟩) <;> exact ⟨m, hm, rfl⟩

theorem foldInv_init (iface doc : Str) : FoldInv iface [] { name := iface, doc := doc } where
  name := rfl
  mkeys := rfl
  tkeys := rfl
  ekeys := rfl
  mmap := fun _ => rfl
  tmap := fun _ => rfl
  emap := fun _ => rfl
  sound := by intro msg h; simp at h
  complete := by intro n h; simp [IsDup] at h

theorem contains_iff {l : List Str} {x : Str} : l.contains x = true ↔ x ∈ l := by simp

/-- one iteration preserves the invariant -/
theorem foldInv_step {iface : Str} {done : List Member} {i : IDL} (h : FoldInv iface done i) (m : Member) :
    FoldInv iface (done ++ [m]) (step i m) := by
  have key : ∀ (k : Kind) (own o1 o2 : List Str) (mp : List (Str × Member)),
      own = namesOf k done →
      (∀ n, lookupMap n mp = lastOf k n done) →
      (∀ n, n ∈ done.map (·.name) ↔ n ∈ own ∨ n ∈ o1 ∨ n ∈ o2) →
      m.kind = k →
      let e1 := if o1.contains m.name || o2.contains m.name then [msgAny i.name m.name] else []
      let e2 := match (insertMap m.name m mp).2 with
        | some d => [msgKind (kindWord k) i.name d.name]
        | none => []
      (∀ msg ∈ i.error ++ e1 ++ e2, ∃ n, IsDup n (done ++ [m]) ∧ Mentions iface msg n) ∧
      (∀ n, IsDup n (done ++ [m]) → ∃ msg ∈ i.error ++ e1 ++ e2, Mentions iface msg n) := by
    intro k own o1 o2 mp hown hmp hnames hk
    simp only
    rw [insertMap_snd, hmp]
    constructor
    · intro msg hmsg
      simp only [List.mem_append] at hmsg
      rcases hmsg with (hmsg | hmsg) | hmsg
      · obtain ⟨n, hd, hm⟩ := h.sound msg hmsg
        exact ⟨n, isDup_append_single.mpr (Or.inl hd), hm⟩
      · split at hmsg
        · rename_i hc
          simp only [List.mem_singleton] at hmsg
          refine ⟨m.name, isDup_append_single.mpr (Or.inr ⟨rfl, ?_⟩), ?_⟩
          · rw [hnames]
            simp only [Bool.or_eq_true, contains_iff] at hc
            rcases hc with hc | hc
            · exact Or.inr (Or.inl hc)
            · exact Or.inr (Or.inr hc)
          · rw [hmsg, h.name]; exact Or.inl rfl
        · simp at hmsg
      · cases hl : lastOf k m.name done with
        | none => rw [hl] at hmsg; simp at hmsg
        | some d =>
          rw [hl] at hmsg
          simp only [List.mem_singleton] at hmsg
          obtain ⟨hdn, _, hdm⟩ := lastOf_name hl
          refine ⟨m.name, isDup_append_single.mpr (Or.inr ⟨rfl, ?_⟩), ?_⟩
          · exact List.mem_map.mpr ⟨d, hdm, hdn⟩
          · rw [hmsg, h.name, hdn]; exact Or.inr ⟨k, rfl⟩
    · intro n hd
      rcases isDup_append_single.mp hd with hd | ⟨rfl, hmem⟩
      · obtain ⟨msg, hmsg, hm⟩ := h.complete n hd
        exact ⟨msg, by simp [hmsg], hm⟩
      · rw [hnames] at hmem
        rcases hmem with hmem | hmem
        · -- an earlier member of the same kind: the map insert reports it
          have : (lastOf k m.name done).isSome := by
            rw [lastOf_isSome]
            rw [hown, mem_namesOf] at hmem
            exact hmem
          obtain ⟨d, hl⟩ := Option.isSome_iff_exists.mp this
          rw [hl]
          obtain ⟨hdn, _, _⟩ := lastOf_name hl
          refine ⟨msgKind (kindWord k) i.name d.name, by simp, ?_⟩
          rw [h.name, hdn]; exact Or.inr ⟨k, rfl⟩
        · have hc : (o1.contains m.name || o2.contains m.name) = true := by
            simp only [Bool.or_eq_true, contains_iff]; exact hmem
          refine ⟨msgAny i.name m.name, ?_, ?_⟩
          · simp only [List.mem_append]
            exact Or.inl (Or.inr (by rw [if_pos hc]; simp))
          · rw [h.name]; exact Or.inl rfl
  have hnm := @mem_names_iff
  cases hk : m.kind with
  | method =>
    have := key .method i.methodKeys i.errorKeys i.typedefKeys i.methods h.mkeys h.mmap
      (by intro n; rw [hnm, h.mkeys, h.ekeys, h.tkeys]; constructor <;> (rintro (a | a | a) <;> simp [a])) hk
    simp only [step, hk]
    exact {
      name := h.name
      mkeys := by simp [namesOf_append, namesOf_single, hk, h.mkeys]
      tkeys := by simp [namesOf_append, namesOf_single, hk, h.tkeys]
      ekeys := by simp [namesOf_append, namesOf_single, hk, h.ekeys]
      mmap := by
        intro n
        rw [lookup_insertMap, lastOf_append_single, h.mmap]
        by_cases hn : n = m.name
        · subst hn; simp [hk]
        · have : ¬ m.name = n := fun e => hn e.symm
          simp [hn, this]
      tmap := by intro n; rw [lastOf_append_single, h.tmap]; simp [hk]
      emap := by intro n; rw [lastOf_append_single, h.emap]; simp [hk]
      sound := this.1
      complete := this.2 }
  | typedef =>
    have := key .typedef i.typedefKeys i.errorKeys i.methodKeys i.typedefs h.tkeys h.tmap
      (by intro n; rw [hnm, h.mkeys, h.ekeys, h.tkeys]; constructor <;> (rintro (a | a | a) <;> simp [a])) hk
    simp only [step, hk]
    exact {
      name := h.name
      mkeys := by simp [namesOf_append, namesOf_single, hk, h.mkeys]
      tkeys := by simp [namesOf_append, namesOf_single, hk, h.tkeys]
      ekeys := by simp [namesOf_append, namesOf_single, hk, h.ekeys]
      tmap := by
        intro n
        rw [lookup_insertMap, lastOf_append_single, h.tmap]
        by_cases hn : n = m.name
        · subst hn; simp [hk]
        · have : ¬ m.name = n := fun e => hn e.symm
          simp [hn, this]
      mmap := by intro n; rw [lastOf_append_single, h.mmap]; simp [hk]
      emap := by intro n; rw [lastOf_append_single, h.emap]; simp [hk]
      sound := this.1
      complete := this.2 }
  | error =>
    have := key .error i.errorKeys i.typedefKeys i.methodKeys i.errors h.ekeys h.emap
      (by intro n; rw [hnm, h.mkeys, h.ekeys, h.tkeys]; constructor <;> (rintro (a | a | a) <;> simp [a])) hk
    simp only [step, hk]
    exact {
      name := h.name
      mkeys := by simp [namesOf_append, namesOf_single, hk, h.mkeys]
      tkeys := by simp [namesOf_append, namesOf_single, hk, h.tkeys]
      ekeys := by simp [namesOf_append, namesOf_single, hk, h.ekeys]
      emap := by
        intro n
        rw [lookup_insertMap, lastOf_append_single, h.emap]
        by_cases hn : n = m.name
        · subst hn; simp [hk]
        · have : ¬ m.name = n := fun e => hn e.symm
          simp [hn, this]
      mmap := by intro n; rw [lastOf_append_single, h.mmap]; simp [hk]
      tmap := by intro n; rw [lastOf_append_single, h.tmap]; simp [hk]
      sound := this.1
      complete := this.2 }

theorem foldInv_foldl {iface : Str} : ∀ (ms done : List Member) (i : IDL), FoldInv iface done i →
    FoldInv iface (done ++ ms) (ms.foldl step i)
  | [], done, i, h => by simpa using h
  | m :: ms, done, i, h => by
    have := foldInv_foldl ms (done ++ [m]) (step i m) (foldInv_step h m)
    simpa using this

/-- the invariant holds for `from_token` on the whole member list -/
theorem foldInv_fromToken (p : Parsed) : FoldInv p.name p.members (fromToken p) := by
  have := foldInv_foldl p.members [] { name := p.name, doc := p.doc } (foldInv_init p.name p.doc)
  simpa [fromToken] using this


theorem step_doc (i : IDL) (m : Member) : (step i m).doc = i.doc := by
  unfold step
  cases m.kind <;> rfl

theorem foldl_step_doc : ∀ (ms : List Member) (i : IDL), (ms.foldl step i).doc = i.doc
  | [], _ => rfl
  | m :: ms, i => by rw [List.foldl_cons, foldl_step_doc ms, step_doc]

theorem fromToken_doc (p : Parsed) : (fromToken p).doc = p.doc := foldl_step_doc _ _

/-! ### the error text -/

theorem mem_insertSorted {x y : Str} : ∀ {l : List Str}, y ∈ insertSorted x l ↔ y = x ∨ y ∈ l
  | [] => by simp [insertSorted]
  | z :: r => by
    simp only [insertSorted]
    split
    · rename_i h; subst h
      simp only [List.mem_cons]
      constructor
      · intro h; exact Or.inr h
      · rintro (h | h)
        · exact Or.inl h
        · exact h
    · split
      · simp [List.mem_cons]
      · simp only [List.mem_cons, mem_insertSorted (l := r)]
        constructor
        · rintro (h | h | h)
          · exact Or.inr (Or.inl h)
          · exact Or.inl h
          · exact Or.inr (Or.inr h)
        · rintro (h | h | h)
          · exact Or.inr (Or.inl h)
          · exact Or.inl h
          · exact Or.inr (Or.inr h)

theorem mem_sortMsgs {y : Str} : ∀ {l : List Str}, y ∈ sortMsgs l ↔ y ∈ l
  | [] => by simp [sortMsgs]
  | x :: r => by
    have ih := mem_sortMsgs (y := y) (l := r)
    simp only [sortMsgs, List.foldr_cons] at ih ⊢
    rw [mem_insertSorted, ih]
    simp [List.mem_cons]

theorem infix_joinLines {m : Str} : ∀ {l : List Str}, m ∈ l → m <:+: joinLines l
  | [], h => by simp at h
  | [x], h => by
    simp only [List.mem_singleton] at h; subst h
    simp only [joinLines]; exact List.infix_refl _
  | x :: y :: r, h => by
    simp only [joinLines]
    simp only [List.mem_cons] at h
    rcases h with rfl | h
    · exact ⟨[], '\n' :: joinLines (y :: r), by simp⟩
    · have ih := infix_joinLines (m := m) (l := y :: r) (by simpa using h)
      obtain ⟨a, b, hab⟩ := ih
      exact ⟨x ++ '\n' :: a, b, by simp [← hab]⟩

theorem quoted_infix_of_mentions {iface msg n : Str} (h : Mentions iface msg n) : quoted n <:+: msg := by
  rcases h with rfl | ⟨k, rfl⟩
  · exact ⟨msgHead ++ quoted iface ++ msgMid, ['!'], by simp only [msgAny, List.append_assoc]⟩
  · exact ⟨msgHead ++ quoted iface ++ msgMid ++ kindWord k ++ [' '], ['!'], by
      simp only [msgKind, List.append_assoc, List.cons_append, List.nil_append]⟩

theorem isDup_iff_not_nodup (ms : List Member) : (∃ n, IsDup n ms) ↔ ¬ (ms.map (·.name)).Nodup := by
  rw [List.nodup_iff_count]
  simp only [IsDup, Classical.not_forall, Nat.not_le]
  constructor
  · rintro ⟨n, h⟩; exact ⟨n, by omega⟩
  · rintro ⟨n, h⟩; exact ⟨n, by omega⟩

theorem lastOf_of_nodup {ms : List Member} (hnd : (ms.map (·.name)).Nodup) {m : Member} (hm : m ∈ ms) :
    lastOf m.kind m.name ms = some m := by
  induction ms with
  | nil => simp at hm
  | cons x r ih =>
    simp only [List.map_cons, List.nodup_cons] at hnd
    simp only [List.mem_cons] at hm
    simp only [lastOf, List.filter]
    rcases hm with rfl | hm
    · have : r.filter (fun y => decide (y.kind = m.kind ∧ y.name = m.name)) = [] := by
        rw [List.filter_eq_nil_iff]
        intro y hy
        simp only [decide_eq_true_eq, not_and]
        intro _ hn
        exact hnd.1 (List.mem_map.mpr ⟨y, hy, hn⟩)
      have e : r.filter (fun y => decide (y.kind = m.kind) && decide (y.name = m.name)) = [] := by
        rw [← this]; congr 1; funext y; simp
      simp [e]
    · have hne : ¬ (x.kind = m.kind ∧ x.name = m.name) := by
        intro ⟨_, hn⟩
        exact hnd.1 (List.mem_map.mpr ⟨m, hm, hn.symm⟩)
      simp only [hne, decide_false]
      exact ih hnd.2 hm

end VV.Idl
