/-
Lemmas.IdlPos — line/column arithmetic of peg's `position_repr` against `split('\n')`.
-/
import VarlinkVerif.Model.Idl.Pos

namespace VV.Idl

/-- length of the last (possibly unfinished) line of `t` -/
def lastSeg (t : Str) : Nat := (t.reverse.takeWhile (· != '\n')).length

theorem splitLines_ne_nil (s : Input) : splitLines s ≠ [] := by
  cases s with
  | nil => simp [splitLines]
  | cons c r =>
    simp only [splitLines]
    split
    · simp
    · split <;> simp

theorem takeWhile_all {α} (f : α → Bool) (l : List α) (h : ∀ x ∈ l, f x = true) : l.takeWhile f = l := by
  induction l with
  | nil => rfl
  | cons a r ih =>
    simp only [List.takeWhile, h a (by simp)]
    rw [ih (fun x hx => h x (by simp [hx]))]

theorem lastSeg_no_nl (t : Str) (h : '\n' ∉ t) : lastSeg t = t.length := by
  unfold lastSeg
  rw [takeWhile_all]
  · simp
  · intro x hx
    have : x ∈ t := by simpa using hx
    have : x ≠ '\n' := fun e => h (e ▸ this)
    simpa using this

theorem takeWhile_append_stop {α} (f : α → Bool) (l₁ l₂ : List α) (h : ∃ x ∈ l₁, f x = false) :
    (l₁ ++ l₂).takeWhile f = l₁.takeWhile f := by
  induction l₁ with
  | nil => simp at h
  | cons a r ih =>
    simp only [List.cons_append, List.takeWhile]
    cases hf : f a with
    | false => rfl
    | true =>
      simp only
      congr 1
      apply ih
      obtain ⟨x, hx, hfx⟩ := h
      simp only [List.mem_cons] at hx
      rcases hx with rfl | hx
      · rw [hf] at hfx; cases hfx
      · exact ⟨x, hx, hfx⟩

theorem lastSeg_cons_of_mem (c : Char) (t : Str) (h : '\n' ∈ t) : lastSeg (c :: t) = lastSeg t := by
  unfold lastSeg
  rw [List.reverse_cons, takeWhile_append_stop]
  exact ⟨'\n', by simpa using h, by decide⟩

theorem lastSeg_cons_nl (t : Str) : lastSeg ('\n' :: t) = lastSeg t := by
  by_cases h : '\n' ∈ t
  · exact lastSeg_cons_of_mem _ _ h
  · rw [lastSeg_no_nl t h]
    unfold lastSeg
    rw [List.reverse_cons, List.takeWhile_append, takeWhile_all]
    · simp
    · intro x hx
      have : x ∈ t := by simpa using hx
      have : x ≠ '\n' := fun e => h (e ▸ this)
      simpa using this

theorem lastSeg_cons_other (c : Char) (t : Str) (hc : c ≠ '\n') (h : '\n' ∉ t) :
    lastSeg (c :: t) = t.length + 1 := by
  rw [lastSeg_no_nl]
  · simp
  · intro hm
    simp only [List.mem_cons] at hm
    rcases hm with e | e
    · exact hc e.symm
    · exact h e

/-- the key invariant: the `count '\n' + 1`-th piece of `split('\n')` exists and is at least as
    long as the column part -/
theorem pos_in_lines (s : Input) : ∀ p, p ≤ s.length →
    ∃ l, (splitLines s)[(s.take p).count '\n']? = some l ∧ lastSeg (s.take p) ≤ l.length := by
  induction s with
  | nil =>
    intro p _
    exact ⟨[], by simp [splitLines], by simp [lastSeg]⟩
  | cons c r ih =>
    intro p hp
    cases p with
    | zero =>
      cases hs : splitLines (c :: r) with
      | nil => exact absurd hs (splitLines_ne_nil _)
      | cons l ls => exact ⟨l, by simp, by simp [lastSeg]⟩
    | succ q =>
      have hq : q ≤ r.length := by simpa using hp
      obtain ⟨l, hl, hseg⟩ := ih q hq
      simp only [List.take_succ_cons]
      by_cases hc : c = '\n'
      · subst hc
        refine ⟨l, ?_, ?_⟩
        · simp [splitLines, hl]
        · rw [lastSeg_cons_nl]; exact hseg
      · have hcount : (c :: r.take q).count '\n' = (r.take q).count '\n' := by
          rw [List.count_cons_of_ne]; exact fun e => hc e
        rw [hcount]
        simp only [splitLines, if_neg hc]
        cases hs : splitLines r with
        | nil => exact absurd hs (splitLines_ne_nil _)
        | cons l0 ls =>
          rw [hs] at hl
          by_cases hm : '\n' ∈ r.take q
          · have hpos : 0 < (r.take q).count '\n' := List.count_pos_iff.mpr hm
            obtain ⟨k, hk⟩ : ∃ k, (r.take q).count '\n' = k + 1 := ⟨_, (Nat.succ_pred_eq_of_pos hpos).symm⟩
            rw [hk] at hl ⊢
            refine ⟨l, by simpa using hl, ?_⟩
            rw [lastSeg_cons_of_mem _ _ hm]; exact hseg
          · have h0 : (r.take q).count '\n' = 0 := List.count_eq_zero.mpr hm
            rw [h0] at hl ⊢
            simp only [List.getElem?_cons_zero, Option.some.injEq] at hl
            subst hl
            refine ⟨c :: l0, by simp, ?_⟩
            rw [lastSeg_cons_other _ _ hc hm]
            rw [lastSeg_no_nl _ hm] at hseg
            simp only [List.length_cons]
            omega

end VV.Idl
