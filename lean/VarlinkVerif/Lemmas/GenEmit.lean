/-
Lemmas.GenEmit — helper lemmas for C09 (the emission skeleton).
-/
import VarlinkVerif.Model.GenEmit

namespace VV
namespace Gen

/-! ### `hasDup` is `¬ Nodup` -/

theorem hasDup_false_iff : ∀ (l : List String), hasDup l = false ↔ l.Nodup
  | [] => by simp [hasDup]
  | x :: xs => by
    simp only [hasDup, Bool.or_eq_false_iff, List.nodup_cons, hasDup_false_iff xs]
    constructor
    · rintro ⟨h1, h2⟩; exact ⟨by simpa using h1, h2⟩
    · rintro ⟨h1, h2⟩; exact ⟨by simpa using h1, h2⟩

theorem hasDup_append_left {l r : List String} (h : hasDup (l ++ r) = false) : hasDup l = false := by
  rw [hasDup_false_iff] at h ⊢
  exact (List.nodup_append.mp h).1

/-! ### names with an underscore -/

/-- the name contains `_` -/
def hasUS (s : String) : Prop := '_' ∈ s.toList

instance (s : String) : Decidable (hasUS s) := inferInstanceAs (Decidable ('_' ∈ s.toList))

theorem hasUS_sub (a b : String) : hasUS (sub a b) := by
  simp [hasUS, sub, String.toList_append]

theorem hasUS_args (n : String) : hasUS (argsName n) := by
  simp [hasUS, argsName, String.toList_append]

theorem hasUS_reply (n : String) : hasUS (replyName n) := by
  simp [hasUS, replyName, String.toList_append]

theorem hasUS_call (n : String) : hasUS (callName n) := by
  simp [hasUS, callName, String.toList_append]

theorem hasUS_replyFn (n : String) : hasUS (replyFn n) := by
  simp [hasUS, replyFn, String.toList_append]

theorem noUS_fixed : ∀ s ∈ fixedItems ++ importedNames ++ shadowSensitive ++ notRawable ++ rustKeywords, ¬ hasUS s := by
  decide

end Gen
end VV

namespace VV
namespace Gen

/-! ### names of the emitted structs/enums -/

mutual
  /-- an emitted name is the root name or contains `_` -/
  theorem tyItems_names : ∀ (t : Ty) (name : String) (p : String × String),
      p ∈ tyItems name t → p.2 = name ∨ hasUS p.2
    | .struct fs, name, p, h => by
      simp only [tyItems, List.mem_append, List.mem_singleton] at h
      rcases h with h | h
      · exact Or.inr (fieldsItems_names fs name p h)
      · exact Or.inl (by rw [h])
    | .enum _, name, p, h => by
      simp only [tyItems, List.mem_singleton] at h
      exact Or.inl (by rw [h])
    | .arr t, name, p, h => by
      simp only [tyItems] at h; exact tyItems_names t name p h
    | .opt t, name, p, h => by
      simp only [tyItems] at h; exact tyItems_names t name p h
    | .map t, name, p, h => by
      simp only [tyItems] at h
      split at h
      · simp at h
      · exact tyItems_names t name p h
    | .bool, _, _, h => by simp [tyItems] at h
    | .int, _, _, h => by simp [tyItems] at h
    | .float, _, _, h => by simp [tyItems] at h
    | .string, _, _, h => by simp [tyItems] at h
    | .object, _, _, h => by simp [tyItems] at h
    | .ref _, _, _, h => by simp [tyItems] at h
  theorem fieldsItems_names : ∀ (fs : List (String × Ty)) (name : String) (p : String × String),
      p ∈ fieldsItems name fs → hasUS p.2
    | [], _, _, h => by simp [fieldsItems] at h
    | (f, t) :: rest, name, p, h => by
      simp only [fieldsItems, List.mem_append] at h
      rcases h with h | h
      · rcases tyItems_names t (sub name f) p h with h' | h'
        · rw [h']; exact hasUS_sub name f
        · exact h'
      · exact fieldsItems_names rest name p h
end

/-! ### identifiers built with `r#` -/

mutual
  theorem tyIdents_ok : ∀ (t : Ty) (name : String), name ∉ notRawable →
      (∀ l ∈ tySiblings t, ∀ s ∈ l, s ∉ notRawable) →
      ∀ c ∈ tyIdents name t, c.2 ∉ notRawable
    | .struct fs, name, hn, hs, c, h => by
      simp only [tyIdents, List.mem_cons] at h
      rcases h with h | h
      · rw [h]; exact hn
      · refine fieldsIdents_ok fs name ?_ ?_ c h
        · exact hs (fs.map (·.1)) (by simp [tySiblings])
        · intro l hl; exact hs l (by simp [tySiblings, hl])
    | .enum vs, name, hn, hs, c, h => by
      simp only [tyIdents, List.mem_cons, List.mem_map] at h
      rcases h with h | ⟨v, hv, h⟩
      · rw [h]; exact hn
      · rw [← h]; exact hs vs (by simp [tySiblings]) v hv
    | .arr t, name, hn, hs, c, h => by
      simp only [tyIdents] at h
      exact tyIdents_ok t name hn (fun l hl => hs l (by simpa [tySiblings] using hl)) c h
    | .opt t, name, hn, hs, c, h => by
      simp only [tyIdents] at h
      exact tyIdents_ok t name hn (fun l hl => hs l (by simpa [tySiblings] using hl)) c h
    | .map t, name, hn, hs, c, h => by
      simp only [tyIdents] at h
      split at h
      · simp at h
      · exact tyIdents_ok t name hn (fun l hl => hs l (by simpa [tySiblings] using hl)) c h
    | .bool, _, _, _, _, h => by simp [tyIdents] at h
    | .int, _, _, _, _, h => by simp [tyIdents] at h
    | .float, _, _, _, _, h => by simp [tyIdents] at h
    | .string, _, _, _, _, h => by simp [tyIdents] at h
    | .object, _, _, _, _, h => by simp [tyIdents] at h
    | .ref _, _, _, _, _, h => by simp [tyIdents] at h
  theorem fieldsIdents_ok : ∀ (fs : List (String × Ty)) (name : String),
      (∀ s ∈ fs.map (·.1), s ∉ notRawable) →
      (∀ l ∈ fieldsSiblings fs, ∀ s ∈ l, s ∉ notRawable) →
      ∀ c ∈ fieldsIdents name fs, c.2 ∉ notRawable
    | [], _, _, _, _, h => by simp [fieldsIdents] at h
    | (f, t) :: rest, name, hf, hs, c, h => by
      simp only [fieldsIdents, List.mem_cons, List.mem_append] at h
      rcases h with h | h | h
      · rw [h]; exact hf f (by simp)
      · refine tyIdents_ok t (sub name f) ?_ ?_ c h
        · intro hm; exact noUS_fixed _ (by simp [hm]) (hasUS_sub name f)
        · intro l hl; exact hs l (by simp [fieldsSiblings, hl])
      · refine fieldsIdents_ok rest name ?_ ?_ c h
        · intro s hsm; exact hf s (by simp at hsm ⊢; exact Or.inr hsm)
        · intro l hl; exact hs l (by simp [fieldsSiblings, hl])
end

end Gen
end VV

namespace VV
namespace Gen

/-! ### sibling lists of an interface definition -/

theorem sib_of_type {i : IDL} {n : String} {d : Ty} (h : (n, d) ∈ i.types) :
    ∀ l ∈ tySiblings d, l ∈ i.allSiblings := by
  intro l hl
  simp only [IDL.allSiblings, List.mem_append, List.mem_flatMap]
  exact Or.inl ⟨(n, d), h, hl⟩

theorem sib_of_struct {i : IDL} {fs : List (String × Ty)} (h : fs ∈ i.allStructs) :
    ∀ l ∈ tySiblings (.struct fs), l ∈ i.allSiblings := by
  intro l hl
  simp only [IDL.allSiblings, List.mem_append, List.mem_flatMap]
  exact Or.inr ⟨fs, h, hl⟩

theorem struct_of_error {i : IDL} {e : ErrorDef} (h : e ∈ i.errors) : e.parm ∈ i.allStructs := by
  simp only [IDL.allStructs, List.mem_append, List.mem_map]
  exact Or.inl ⟨e, h, rfl⟩

theorem struct_of_input {i : IDL} {m : Method} (h : m ∈ i.methods) : m.input ∈ i.allStructs := by
  simp only [IDL.allStructs, List.mem_append, List.mem_flatMap]
  exact Or.inr ⟨m, h, by simp⟩

theorem struct_of_output {i : IDL} {m : Method} (h : m ∈ i.methods) : m.output ∈ i.allStructs := by
  simp only [IDL.allStructs, List.mem_append, List.mem_flatMap]
  exact Or.inr ⟨m, h, by simp⟩

theorem mem_fieldNames {i : IDL} {l : List String} {s : String} (hl : l ∈ i.allSiblings) (hs : s ∈ l) :
    s ∈ i.fieldNames := by
  simp only [IDL.fieldNames, List.mem_flatten]
  exact ⟨l, hl, hs⟩

theorem safeRawIdent_spec {i : IDL} (h : safeRawIdent i = true) :
    (∀ n ∈ i.types.map (·.1), n ∉ notRawable) ∧ (∀ n ∈ i.fieldNames, n ∉ notRawable) := by
  simp only [safeRawIdent, Bool.not_eq_true', List.any_eq_false, List.mem_append] at h
  constructor
  · intro n hn hm; exact h n (Or.inl hn) (by simpa using hm)
  · intro n hn hm; exact h n (Or.inr hn) (by simpa using hm)

/-- the fields of a top-level struct of the definition only build rawable identifiers -/
theorem fieldsIdents_struct_ok {i : IDL} (h : safeRawIdent i = true) {fs : List (String × Ty)}
    (hfs : fs ∈ i.allStructs) (name : String) : ∀ c ∈ fieldsIdents name fs, c.2 ∉ notRawable := by
  have hf := (safeRawIdent_spec h).2
  apply fieldsIdents_ok fs name
  · intro s hs
    exact hf s (mem_fieldNames (sib_of_struct hfs (fs.map (·.1)) (by simp [tySiblings])) hs)
  · intro l hl s hs
    exact hf s (mem_fieldNames (sib_of_struct hfs l (by simp [tySiblings, hl])) hs)

theorem panics_false_of_new (n : String) : panics (IdentCtor.new, n) = false := by
  simp [panics]

theorem panics_false_of_ok {c : IdentCtor × String} (h : c.2 ∉ notRawable) : panics c = false := by
  simp only [panics, Bool.and_eq_false_iff]
  exact Or.inr (by simpa using h)

/-- S1 ⇒ no identifier construction panics -/
theorem emit_noPanic (i : IDL) (h : safeRawIdent i = true) : (emit i).noPanic = true := by
  simp only [Emission.noPanic, Bool.not_eq_true', List.any_eq_false]
  intro c hc
  have hT := (safeRawIdent_spec h).1
  have hF := (safeRawIdent_spec h).2
  have key : panics c = false := by
    simp only [emit, List.mem_append, List.mem_flatMap, List.mem_cons, List.not_mem_nil, or_false] at hc
    rcases hc with ((⟨e, he, hc⟩ | ⟨⟨n, d⟩, hnd, hc⟩) | ⟨e, he, hc⟩) | ⟨m, hm, hc⟩
    · rcases hc with hc | hc | hc
      · rw [hc]; exact panics_false_of_new _
      · exact panics_false_of_ok (fieldsIdents_struct_ok h (struct_of_error he) _ c hc)
      · rw [hc]; exact panics_false_of_new _
    · apply panics_false_of_ok
      apply tyIdents_ok d n (hT n (List.mem_map.mpr ⟨(n, d), hnd, rfl⟩)) _ c hc
      intro l hl s hs
      exact hF s (mem_fieldNames (sib_of_type hnd l hl) hs)
    · rcases hc with hc | hc
      · rw [hc]; exact panics_false_of_new _
      · exact panics_false_of_ok (fieldsIdents_struct_ok h (struct_of_error he) _ c hc)
    · rcases hc with ((hc | hc | hc | hc) | hc) | hc
      · rw [hc]; exact panics_false_of_new _
      · rw [hc]; exact panics_false_of_new _
      · rw [hc]; exact panics_false_of_new _
      · rw [hc]; exact panics_false_of_new _
      · exact panics_false_of_ok (fieldsIdents_struct_ok h (struct_of_input hm) _ c hc)
      · exact panics_false_of_ok (fieldsIdents_struct_ok h (struct_of_output hm) _ c hc)
  simpa using key

end Gen
end VV

namespace VV
namespace Gen

/-! ### reserved words -/

theorem not_kw_of_hasUS {s : String} (h : hasUS s) : rustKeywords.contains s = false := by
  have : s ∉ rustKeywords := fun hm => noUS_fixed s (by simp [hm]) h
  simpa using this

/-- S2 ⇒ no `fn` name and no `ErrorKind` variant is a reserved word -/
theorem emit_noKeyword (i : IDL) (h : safeKwFn i = true) : (emit i).noKeyword = true := by
  simp only [safeKwFn, Bool.and_eq_true, Bool.not_eq_true', List.any_eq_false] at h
  obtain ⟨hm, he⟩ := h
  simp only [Emission.noKeyword, Emission.allFns, Bool.and_eq_true, Bool.not_eq_true', List.any_eq_false]
  constructor
  · intro f hf
    obtain ⟨p, hp, hfp⟩ := List.mem_flatMap.mp hf
    simp only [emit, List.mem_append, List.mem_cons, List.not_mem_nil, or_false, List.mem_map] at hp
    rcases hp with (hp | ⟨m, _, hp⟩) | (hp | hp)
    · rw [hp] at hfp
      obtain ⟨e, _, hfe⟩ := List.mem_map.mp hfp
      rw [← hfe]
      intro hc
      have hmem : replyFn e.name ∈ rustKeywords := by simpa using hc
      exact noUS_fixed _ (by simp [hmem]) (hasUS_replyFn e.name)
    · rw [← hp] at hfp
      simp only [List.mem_cons, List.not_mem_nil, or_false] at hfp
      rw [hfp]; decide
    · rw [hp] at hfp
      simp only [List.mem_append, List.mem_map, List.mem_cons, List.not_mem_nil, or_false] at hfp
      rcases hfp with ⟨m, hmm, hfm⟩ | hfp
      · rw [← hfm]; exact hm m hmm
      · rw [hfp]; decide
    · rw [hp] at hfp
      obtain ⟨m, hmm, hfm⟩ := List.mem_map.mp hfp
      rw [← hfm]; exact hm m hmm
  · intro v hv
    simp only [emit, List.mem_append, List.mem_cons, List.not_mem_nil, or_false, List.mem_map] at hv
    rcases hv with (hv | hv) | ⟨e, hee, hv⟩
    · rw [hv]; decide
    · rw [hv]; decide
    · rw [← hv]; exact he e hee

/-! ### fns of one trait -/

/-- S3 ⇒ no trait gets two fns of one name -/
theorem emit_fnsDistinct (i : IDL) (h : safeSnake i = true) : (emit i).fnsDistinct = true := by
  simp only [safeSnake, Bool.and_eq_true, Bool.not_eq_true'] at h
  obtain ⟨hm, he⟩ := h
  simp only [Emission.fnsDistinct, List.all_eq_true, Bool.not_eq_true']
  intro p hp
  simp only [emit, List.mem_append, List.mem_cons, List.not_mem_nil, or_false, List.mem_map] at hp
  rcases hp with (hp | ⟨m, _, hp⟩) | (hp | hp)
  · rw [hp]; exact he
  · rw [← hp]; rfl
  · rw [hp]; exact hm
  · rw [hp]; exact hasDup_append_left hm

/-! ### ambiguity with `CallTrait`, parameters as patterns, the lint -/

theorem emit_noAmbiguity (i : IDL) (h : safeErrFn i = true) : (emit i).noAmbiguity = true := by
  simp only [Emission.noAmbiguity, emit, List.cons_append, List.nil_append, List.find?, beq_self_eq_true]
  exact h

theorem emit_noShadow_params (i : IDL) (h : safeParams i = true) :
    (emit i).params.any valuePatterns.contains = false := by
  simpa [safeParams, emit] using h

theorem emit_noLint (i : IDL) (h : safeParamVariant i = true) : (emit i).noLint = true := by
  simpa [Emission.noLint, safeParamVariant, emit] using h

/-- S7 is the acyclicity of the emitted struct graph itself -/
theorem emit_noCycle (i : IDL) (h : safeOptCycle i = true) : (emit i).noCycle = true := by
  simpa [Emission.noCycle, safeOptCycle, emit, IDL.graph] using h

end Gen
end VV

namespace VV
namespace Gen

/-! ### module items -/

def fixedHead : List String := ["ErrorKind", "Error", "Result", "VarlinkCallError"]
def fixedTail : List String :=
  ["VarlinkInterface", "VarlinkClientInterface", "VarlinkClient", "VarlinkInterfaceProxy", "new"]

theorem safeErrAnon_spec {i : IDL} (h : safeErrAnon i = true) :
    ∀ e ∈ i.errors, fieldsItems (argsName e.name) e.parm = [] := by
  intro e he
  simp only [safeErrAnon, List.all_eq_true, List.isEmpty_iff] at h
  exact h e he

theorem flatMap_nil_of {α β} (l : List α) (f : α → List β) (h : ∀ a ∈ l, f a = []) : l.flatMap f = [] := by
  induction l with
  | nil => rfl
  | cons a l ih =>
    simp only [List.flatMap_cons, h a (List.mem_cons_self ..), List.nil_append]
    exact ih (fun b hb => h b (List.mem_cons_of_mem _ hb))

theorem flatMap_single_of {α β} (l : List α) (f : α → List β) (g : α → β) (h : ∀ a ∈ l, f a = [g a]) :
    l.flatMap f = l.map g := by
  induction l with
  | nil => rfl
  | cons a l ih =>
    simp only [List.flatMap_cons, List.map_cons, h a (List.mem_cons_self ..), List.singleton_append]
    rw [ih (fun b hb => h b (List.mem_cons_of_mem _ hb))]

/-- with S4 the emitted item names are the fixed items around the names derived from the definition -/
theorem emit_itemNames (i : IDL) (h : safeErrAnon i = true) :
    (emit i).itemNames = fixedHead ++ i.moduleNames ++ fixedTail := by
  have hE := safeErrAnon_spec h
  have h1 : (i.errors.flatMap fun e => fieldsItems (argsName e.name) e.parm) = [] :=
    flatMap_nil_of _ _ hE
  have h2 : (i.errors.flatMap fun e => fieldsItems (argsName e.name) e.parm ++ [("struct", argsName e.name)]) =
      i.errors.map fun e => ("struct", argsName e.name) :=
    flatMap_single_of _ _ _ (fun e he => by rw [hE e he]; rfl)
  simp only [Emission.itemNames, emit, h1, h2, IDL.moduleNames, fixedHead, fixedTail, List.map_append,
    List.map_flatMap, List.map_map, List.map_cons, List.map_nil, List.append_nil, List.nil_append,
    List.cons_append, List.append_assoc]
  rfl

/-- a derived name is a typedef name or contains `_` -/
theorem moduleNames_shape (i : IDL) : ∀ n ∈ i.moduleNames, n ∈ i.types.map (·.1) ∨ hasUS n := by
  intro n hn
  simp only [IDL.moduleNames, List.mem_append, List.mem_flatMap, List.mem_map, List.mem_cons,
    List.not_mem_nil, or_false] at hn
  rcases hn with (⟨⟨tn, d⟩, htd, p, hp, hpn⟩ | ⟨e, _, hen⟩) | ⟨m, _, hn⟩
  · rcases tyItems_names d tn p hp with h' | h'
    · left; rw [← hpn, h']; exact List.mem_map.mpr ⟨(tn, d), htd, rfl⟩
    · right; rw [← hpn]; exact h'
  · right; rw [← hen]; exact hasUS_args _
  · right
    rcases hn with ⟨p, hp, hpn⟩ | hn | hn | hn
    · rw [← hpn]
      rcases hp with hp | hp
      · exact fieldsItems_names _ _ p hp
      · exact fieldsItems_names _ _ p hp
    · rw [hn]; exact hasUS_reply _
    · rw [hn]; exact hasUS_args _
    · rw [hn]; exact hasUS_call _

theorem safeReserved_spec {i : IDL} (h : safeReserved i = true) :
    ∀ n ∈ i.types.map (·.1), n ∉ fixedItems ∧ n ∉ importedNames ∧ n ∉ shadowSensitive := by
  intro n hn
  simp only [safeReserved, Bool.not_eq_true', List.any_eq_false, Bool.or_eq_true, not_or, Bool.not_eq_true] at h
  have := h n hn
  simpa [and_assoc] using this

/-- a derived name is none of the fixed, imported or shadow-sensitive names -/
theorem moduleNames_fresh (i : IDL) (h : safeReserved i = true) :
    ∀ n ∈ i.moduleNames, n ∉ fixedItems ∧ n ∉ importedNames ∧ n ∉ shadowSensitive := by
  intro n hn
  rcases moduleNames_shape i n hn with h' | h'
  · exact safeReserved_spec h n h'
  · exact ⟨fun hm => noUS_fixed n (by simp [hm]) h', fun hm => noUS_fixed n (by simp [hm]) h',
           fun hm => noUS_fixed n (by simp [hm]) h'⟩

theorem fixedHead_sub : ∀ x ∈ fixedHead, x ∈ fixedItems := by decide
theorem fixedTail_sub : ∀ x ∈ fixedTail, x ∈ fixedItems := by decide

theorem nodup_sandwich {A B M : List String} (hAB : (A ++ B).Nodup) (hM : M.Nodup)
    (hdis : ∀ n ∈ M, n ∉ A ∧ n ∉ B) : (A ++ M ++ B).Nodup := by
  rw [List.nodup_append] at hAB
  obtain ⟨hA, hB, hABd⟩ := hAB
  rw [List.nodup_append, List.nodup_append]
  refine ⟨⟨hA, hM, ?_⟩, hB, ?_⟩
  · intro a ha b hb e; exact (hdis b hb).1 (e ▸ ha)
  · intro a ha b hb e
    rcases List.mem_append.mp ha with ha | ha
    · exact hABd a ha b hb e
    · exact (hdis a ha).2 (e ▸ hb)

/-- S4, S5, S6 ⇒ no item is emitted twice and none collides with an import -/
theorem emit_itemsDistinct (i : IDL) (h4 : safeErrAnon i = true) (h5 : safeReserved i = true)
    (h6 : safePaths i = true) : (emit i).itemsDistinct = true := by
  have hfresh := moduleNames_fresh i h5
  have hM : i.moduleNames.Nodup := by
    simp only [safePaths, Bool.not_eq_true'] at h6
    exact (hasDup_false_iff _).mp h6
  simp only [Emission.itemsDistinct, Bool.and_eq_true, Bool.not_eq_true', List.any_eq_false]
  rw [emit_itemNames i h4]
  constructor
  · rw [hasDup_false_iff]
    apply nodup_sandwich (by decide) hM
    intro n hn
    have hf := (hfresh n hn).1
    constructor
    · intro hm; exact hf (fixedHead_sub n hm)
    · intro hm; exact hf (fixedTail_sub n hm)
  · intro n hn
    simp only [List.mem_append] at hn
    rcases hn with (hn | hn) | hn
    · have : n ∉ importedNames := by revert hn; simp only [fixedHead]; intro hn; simp at hn; rcases hn with rfl | rfl | rfl | rfl <;> decide
      simpa using this
    · simpa using (hfresh n hn).2.1
    · have : n ∉ importedNames := by revert hn; simp only [fixedTail]; intro hn; simp at hn; rcases hn with rfl | rfl | rfl | rfl | rfl <;> decide
      simpa using this

end Gen
end VV

namespace VV
namespace Gen

theorem fixed_not_shadow : ∀ x ∈ fixedHead ++ fixedTail, x ∉ shadowSensitive := by decide

/-- S4, S5, S9 ⇒ no prelude name the emitted code relies on is shadowed, no parameter is a value pattern -/
theorem emit_noShadow (i : IDL) (h4 : safeErrAnon i = true) (h5 : safeReserved i = true)
    (h9 : safeParams i = true) : (emit i).noShadow = true := by
  simp only [Emission.noShadow, Bool.and_eq_true, Bool.not_eq_true']
  refine ⟨?_, emit_noShadow_params i h9⟩
  rw [emit_itemNames i h4]
  simp only [List.any_eq_false]
  intro n hn
  have : n ∉ shadowSensitive := by
    simp only [List.mem_append] at hn
    rcases hn with (hn | hn) | hn
    · exact fixed_not_shadow n (List.mem_append_left _ hn)
    · exact (moduleNames_fresh i h5 n hn).2.2
    · exact fixed_not_shadow n (List.mem_append_right _ hn)
  simpa using this

theorem safeB_spec {i : IDL} (h : safeB i = true) :
    safeRawIdent i = true ∧ safeKwFn i = true ∧ safeSnake i = true ∧ safeErrAnon i = true ∧
    safeReserved i = true ∧ safePaths i = true ∧ safeOptCycle i = true ∧ safeErrFn i = true ∧
    safeParams i = true ∧ safeParamVariant i = true := by
  simp only [safeB, failedClasses, List.isEmpty_iff, List.append_eq_nil_iff] at h
  obtain ⟨⟨⟨⟨⟨⟨⟨⟨⟨h1, h2⟩, h3⟩, h4⟩, h5⟩, h6⟩, h7⟩, h8⟩, h9⟩, h10⟩ := h
  refine ⟨?_, ?_, ?_, ?_, ?_, ?_, ?_, ?_, ?_, ?_⟩ <;>
    first
      | (cases hh : safeRawIdent i <;> simp_all; done)
      | (cases hh : safeKwFn i <;> simp_all; done)
      | (cases hh : safeSnake i <;> simp_all; done)
      | (cases hh : safeErrAnon i <;> simp_all; done)
      | (cases hh : safeReserved i <;> simp_all; done)
      | (cases hh : safePaths i <;> simp_all; done)
      | (cases hh : safeOptCycle i <;> simp_all; done)
      | (cases hh : safeErrFn i <;> simp_all; done)
      | (cases hh : safeParams i <;> simp_all; done)
      | (cases hh : safeParamVariant i <;> simp_all; done)

end Gen
end VV

namespace VV
namespace Gen

/-! ### `Finite` (the IDL's notion) is implied by S7 (no cycle through `?` either) -/

theorem direct_sub_unboxed (nm : String) (t : Ty) : ∀ x ∈ directTargets nm t, x ∈ unboxedTargets nm t := by
  cases t <;> simp [directTargets, unboxedTargets]

theorem fieldsTargets_sub (name : String) : ∀ (fs : List (String × Ty)),
    ∀ x ∈ fieldsTargets directTargets name fs, x ∈ fieldsTargets unboxedTargets name fs
  | [], x, h => by simp [fieldsTargets] at h
  | (f, t) :: rest, x, h => by
    simp only [fieldsTargets, List.mem_append] at h ⊢
    rcases h with h | h
    · exact Or.inl (direct_sub_unboxed _ t x h)
    · exact Or.inr (fieldsTargets_sub name rest x h)

/-- entry-wise: same node, fewer edges -/
def EntryLe (p q : String × List String) : Prop := q.1 = p.1 ∧ ∀ x ∈ p.2, x ∈ q.2

mutual
  theorem tyGraph_le : ∀ (t : Ty) (name : String), ∀ p ∈ tyGraph directTargets name t,
      ∃ q ∈ tyGraph unboxedTargets name t, EntryLe p q
    | .struct fs, name, p, h => by
      simp only [tyGraph, List.mem_cons] at h ⊢
      rcases h with h | h
      · exact ⟨(name, fieldsTargets unboxedTargets name fs), Or.inl rfl, by rw [h]; exact ⟨rfl, fieldsTargets_sub name fs⟩⟩
      · obtain ⟨q, hq, hle⟩ := fieldsGraph_le fs name p h
        exact ⟨q, Or.inr hq, hle⟩
    | .arr t, name, p, h => by simp only [tyGraph] at h ⊢; exact tyGraph_le t name p h
    | .opt t, name, p, h => by simp only [tyGraph] at h ⊢; exact tyGraph_le t name p h
    | .map t, name, p, h => by
      simp only [tyGraph] at h ⊢
      split at h
      · simp at h
      · exact tyGraph_le t name p h
    | .enum _, _, _, h => by simp [tyGraph] at h
    | .bool, _, _, h => by simp [tyGraph] at h
    | .int, _, _, h => by simp [tyGraph] at h
    | .float, _, _, h => by simp [tyGraph] at h
    | .string, _, _, h => by simp [tyGraph] at h
    | .object, _, _, h => by simp [tyGraph] at h
    | .ref _, _, _, h => by simp [tyGraph] at h
  theorem fieldsGraph_le : ∀ (fs : List (String × Ty)) (name : String), ∀ p ∈ fieldsGraph directTargets name fs,
      ∃ q ∈ fieldsGraph unboxedTargets name fs, EntryLe p q
    | [], _, _, h => by simp [fieldsGraph] at h
    | (f, t) :: rest, name, p, h => by
      simp only [fieldsGraph, List.mem_append] at h ⊢
      rcases h with h | h
      · obtain ⟨q, hq, hle⟩ := tyGraph_le t (sub name f) p h
        exact ⟨q, Or.inl hq, hle⟩
      · obtain ⟨q, hq, hle⟩ := fieldsGraph_le rest name p h
        exact ⟨q, Or.inr hq, hle⟩
end

mutual
  theorem tyGraph_nodes : ∀ (t : Ty) (name : String),
      (tyGraph directTargets name t).map (·.1) = (tyGraph unboxedTargets name t).map (·.1)
    | .struct fs, name => by simp [tyGraph, fieldsGraph_nodes fs name]
    | .arr t, name => by simp only [tyGraph]; exact tyGraph_nodes t name
    | .opt t, name => by simp only [tyGraph]; exact tyGraph_nodes t name
    | .map t, name => by
      simp only [tyGraph]
      split
      · rfl
      · exact tyGraph_nodes t name
    | .enum _, _ => rfl
    | .bool, _ => rfl
    | .int, _ => rfl
    | .float, _ => rfl
    | .string, _ => rfl
    | .object, _ => rfl
    | .ref _, _ => rfl
  theorem fieldsGraph_nodes : ∀ (fs : List (String × Ty)) (name : String),
      (fieldsGraph directTargets name fs).map (·.1) = (fieldsGraph unboxedTargets name fs).map (·.1)
    | [], _ => rfl
    | (f, t) :: rest, name => by
      simp [fieldsGraph, tyGraph_nodes t (sub name f), fieldsGraph_nodes rest name]
end

theorem idlGraph_le (i : IDL) : ∀ p ∈ i.graph directTargets, ∃ q ∈ i.graph unboxedTargets, EntryLe p q := by
  intro p hp
  simp only [IDL.graph, List.mem_append, List.mem_flatMap] at hp ⊢
  rcases hp with (⟨⟨n, d⟩, hnd, hp⟩ | ⟨e, he, hp⟩) | ⟨m, hm, hp⟩
  · obtain ⟨q, hq, hle⟩ := tyGraph_le d n p hp
    exact ⟨q, Or.inl (Or.inl ⟨(n, d), hnd, hq⟩), hle⟩
  · obtain ⟨q, hq, hle⟩ := tyGraph_le _ _ p hp
    exact ⟨q, Or.inl (Or.inr ⟨e, he, hq⟩), hle⟩
  · rcases hp with hp | hp
    · obtain ⟨q, hq, hle⟩ := tyGraph_le _ _ p hp
      exact ⟨q, Or.inr ⟨m, hm, Or.inl hq⟩, hle⟩
    · obtain ⟨q, hq, hle⟩ := tyGraph_le _ _ p hp
      exact ⟨q, Or.inr ⟨m, hm, Or.inr hq⟩, hle⟩

theorem idlGraph_nodes (i : IDL) : (i.graph directTargets).map (·.1) = (i.graph unboxedTargets).map (·.1) := by
  simp only [IDL.graph, List.map_append, List.map_flatMap]
  congr 1
  · congr 1
    · congr 1; funext ⟨n, d⟩; exact tyGraph_nodes d n
    · congr 1; funext e; exact tyGraph_nodes _ _
  · congr 1; funext m
    simp [tyGraph_nodes]

theorem mem_peel {g : List (String × List String)} {alive : List String} {n : String} :
    n ∈ peel g alive ↔ n ∈ alive ∧ ∃ p ∈ g, p.1 = n ∧ ∃ x ∈ p.2, x ∈ alive := by
  simp only [peel, List.mem_filter, List.any_eq_true, Bool.and_eq_true, beq_iff_eq, List.contains_iff_mem]

theorem peel_mono {g g' : List (String × List String)} (hle : ∀ p ∈ g, ∃ q ∈ g', EntryLe p q)
    {a a' : List String} (ha : ∀ n ∈ a, n ∈ a') : ∀ n ∈ peel g a, n ∈ peel g' a' := by
  intro n hn
  rw [mem_peel] at hn ⊢
  obtain ⟨h1, p, hp, hpn, x, hx, hxa⟩ := hn
  obtain ⟨q, hq, hq1, hq2⟩ := hle p hp
  exact ⟨ha n h1, q, hq, by rw [hq1, hpn], x, hq2 x hx, ha x hxa⟩

theorem peelN_mono {g g' : List (String × List String)} (hle : ∀ p ∈ g, ∃ q ∈ g', EntryLe p q) :
    ∀ (k : Nat) {a a' : List String}, (∀ n ∈ a, n ∈ a') → ∀ n ∈ peelN g k a, n ∈ peelN g' k a'
  | 0, _, _, ha => ha
  | k + 1, _, _, ha => peelN_mono hle k (peel_mono hle ha)

/-- an interface definition without a cycle through plain and optional members has none through
    plain members alone: S7 implies the property's own `Finite` -/
theorem finite_of_safeOptCycle (i : IDL) (h : safeOptCycle i = true) : finiteB i = true := by
  simp only [safeOptCycle, finiteB, acyclic, List.isEmpty_iff] at h ⊢
  have hlen : (i.graph directTargets).length = (i.graph unboxedTargets).length := by
    have := congrArg List.length (idlGraph_nodes i)
    simpa using this
  have hsub := peelN_mono (idlGraph_le i) (i.graph directTargets).length
    (a := (i.graph directTargets).map (·.1)) (a' := (i.graph unboxedTargets).map (·.1))
    (by rw [idlGraph_nodes]; exact fun n hn => hn)
  rw [hlen, h] at hsub
  exact List.eq_nil_iff_forall_not_mem.mpr (fun n hn => by simpa using hsub n (hlen ▸ hn))

end Gen
end VV

namespace VV
namespace Gen

/-! ### the converse: every component of `Safe` is necessary for a clean skeleton -/

mutual
  /-- every sibling name below a type is wrapped in `r#…` -/
  theorem tyIdents_complete : ∀ (t : Ty) (name : String), ∀ l ∈ tySiblings t, ∀ s ∈ l,
      (IdentCtor.rawParse, s) ∈ tyIdents name t
    | .struct fs, name, l, hl, s, hs => by
      simp only [tySiblings, List.mem_cons] at hl
      simp only [tyIdents, List.mem_cons]
      right
      rcases hl with hl | hl
      · rw [hl] at hs; exact fieldsIdents_names fs name s hs
      · exact fieldsIdents_complete fs name l hl s hs
    | .enum vs, name, l, hl, s, hs => by
      simp only [tySiblings, List.mem_cons, List.not_mem_nil, or_false] at hl
      rw [hl] at hs
      simp only [tyIdents, List.mem_cons, List.mem_map]
      exact Or.inr ⟨s, hs, rfl⟩
    | .arr t, name, l, hl, s, hs => by
      simp only [tySiblings] at hl; simp only [tyIdents]; exact tyIdents_complete t name l hl s hs
    | .opt t, name, l, hl, s, hs => by
      simp only [tySiblings] at hl; simp only [tyIdents]; exact tyIdents_complete t name l hl s hs
    | .map t, name, l, hl, s, hs => by
      simp only [tySiblings] at hl
      simp only [tyIdents]
      split
      · simp [tySiblings, fieldsSiblings] at hl; rw [hl] at hs; simp at hs
      · exact tyIdents_complete t name l hl s hs
    | .bool, _, _, hl, _, _ => by simp [tySiblings] at hl
    | .int, _, _, hl, _, _ => by simp [tySiblings] at hl
    | .float, _, _, hl, _, _ => by simp [tySiblings] at hl
    | .string, _, _, hl, _, _ => by simp [tySiblings] at hl
    | .object, _, _, hl, _, _ => by simp [tySiblings] at hl
    | .ref _, _, _, hl, _, _ => by simp [tySiblings] at hl
  theorem fieldsIdents_names : ∀ (fs : List (String × Ty)) (name : String), ∀ s ∈ fs.map (·.1),
      (IdentCtor.rawParse, s) ∈ fieldsIdents name fs
    | [], _, s, hs => by simp at hs
    | (f, t) :: rest, name, s, hs => by
      simp only [List.map_cons, List.mem_cons] at hs
      simp only [fieldsIdents, List.mem_cons, List.mem_append]
      rcases hs with hs | hs
      · left; rw [hs]
      · right; right; exact fieldsIdents_names rest name s hs
  theorem fieldsIdents_complete : ∀ (fs : List (String × Ty)) (name : String), ∀ l ∈ fieldsSiblings fs, ∀ s ∈ l,
      (IdentCtor.rawParse, s) ∈ fieldsIdents name fs
    | [], _, l, hl, _, _ => by simp [fieldsSiblings] at hl
    | (f, t) :: rest, name, l, hl, s, hs => by
      simp only [fieldsSiblings, List.mem_append] at hl
      simp only [fieldsIdents, List.mem_cons, List.mem_append]
      rcases hl with hl | hl
      · right; left; exact tyIdents_complete t (sub name f) l hl s hs
      · right; right; exact fieldsIdents_complete rest name l hl s hs
end

theorem tyIdents_root {n : String} {d : Ty} (h : isDef d = true) :
    ∃ c, c ≠ IdentCtor.new ∧ (c, n) ∈ tyIdents n d := by
  cases d <;> simp [isDef] at h
  · exact ⟨IdentCtor.rawFormat, by decide, by simp [tyIdents]⟩
  · exact ⟨IdentCtor.rawParse, by decide, by simp [tyIdents]⟩

theorem panics_of_raw {c : IdentCtor} {n : String} (hc : c ≠ IdentCtor.new) (hn : n ∈ notRawable) :
    panics (c, n) = true := by
  simp only [panics, Bool.and_eq_true, bne_iff_ne, ne_eq]
  exact ⟨hc, by simpa using hn⟩

/-- no panic ⇒ S1 (typedefs being structs or enums, as the grammar has it) -/
theorem safeRawIdent_of_noPanic (i : IDL) (hdefs : typedefsAreDefs i = true) (h : (emit i).noPanic = true) :
    safeRawIdent i = true := by
  simp only [Emission.noPanic, Bool.not_eq_true', List.any_eq_false] at h
  simp only [safeRawIdent, Bool.not_eq_true', List.any_eq_false, List.mem_append]
  intro n hn hbad
  have hbad' : n ∈ notRawable := by simpa using hbad
  have key : ∃ c, c ≠ IdentCtor.new ∧ (c, n) ∈ (emit i).idents := by
    rcases hn with hn | hn
    · obtain ⟨⟨tn, d⟩, htd, rfl⟩ := List.mem_map.mp hn
      have hd : isDef d = true := by
        simp only [typedefsAreDefs, List.all_eq_true] at hdefs
        exact hdefs (tn, d) htd
      obtain ⟨c, hc, hmem⟩ := tyIdents_root (n := tn) hd
      refine ⟨c, hc, ?_⟩
      simp only [emit, List.mem_append, List.mem_flatMap]
      exact Or.inl (Or.inl (Or.inr ⟨(tn, d), htd, hmem⟩))
    · refine ⟨IdentCtor.rawParse, by decide, ?_⟩
      simp only [IDL.fieldNames, List.mem_flatten, IDL.allSiblings, List.mem_append, List.mem_flatMap] at hn
      obtain ⟨l, hl, hs⟩ := hn
      simp only [emit, List.mem_append, List.mem_flatMap]
      rcases hl with ⟨⟨tn, d⟩, htd, hl⟩ | ⟨fs, hfs, hl⟩
      · exact Or.inl (Or.inl (Or.inr ⟨(tn, d), htd, tyIdents_complete d tn l hl n hs⟩))
      · have hmem : ∀ name, (IdentCtor.rawParse, n) ∈ fieldsIdents name fs := by
          intro name
          simp only [tySiblings, List.mem_cons] at hl
          rcases hl with hl | hl
          · rw [hl] at hs; exact fieldsIdents_names fs name n hs
          · exact fieldsIdents_complete fs name l hl n hs
        simp only [IDL.allStructs, List.mem_append, List.mem_map, List.mem_flatMap] at hfs
        rcases hfs with ⟨e, he, rfl⟩ | ⟨m, hm, hfs⟩
        · exact Or.inl (Or.inr ⟨e, he, by simp [hmem]⟩)
        · simp only [List.mem_cons, List.not_mem_nil, or_false] at hfs
          rcases hfs with rfl | rfl
          · exact Or.inr ⟨m, hm, by simp [hmem]⟩
          · exact Or.inr ⟨m, hm, by simp [hmem]⟩
  obtain ⟨c, hc, hmem⟩ := key
  have := h (c, n) hmem
  rw [panics_of_raw hc hbad'] at this
  exact absurd this (by simp)

end Gen
end VV

namespace VV
namespace Gen

theorem emit_traitFns (i : IDL) : (emit i).traitFns =
    [("VarlinkCallError", i.errors.map fun e => replyFn e.name)] ++
    (i.methods.map fun m => (callName m.name, ["reply"])) ++
    [("VarlinkInterface", (i.methods.map fun m => toSnakeCase m.name) ++ ["call_upgraded"]),
     ("VarlinkClientInterface", i.methods.map fun m => toSnakeCase m.name)] := rfl

theorem emit_variants (i : IDL) : (emit i).variants = ["Varlink_Error", "VarlinkReply_Error"] ++ i.errors.map (·.name) := rfl

/-- no reserved word among fns and variants ⇒ S2 -/
theorem safeKwFn_of_noKeyword (i : IDL) (h : (emit i).noKeyword = true) : safeKwFn i = true := by
  simp only [Emission.noKeyword, Emission.allFns, Bool.and_eq_true, Bool.not_eq_true', List.any_eq_false] at h
  obtain ⟨hf, hv⟩ := h
  simp only [safeKwFn, Bool.and_eq_true, Bool.not_eq_true', List.any_eq_false]
  constructor
  · intro m hm
    apply hf
    rw [emit_traitFns]
    refine List.mem_flatMap.mpr ⟨("VarlinkClientInterface", i.methods.map fun m => toSnakeCase m.name), ?_, ?_⟩
    · apply List.mem_append_right; simp
    · exact List.mem_map.mpr ⟨m, hm, rfl⟩
  · intro e he
    apply hv
    rw [emit_variants]
    exact List.mem_append_right _ (List.mem_map.mpr ⟨e, he, rfl⟩)

/-- no trait with two fns of one name ⇒ S3 -/
theorem safeSnake_of_fnsDistinct (i : IDL) (h : (emit i).fnsDistinct = true) : safeSnake i = true := by
  have hall : ∀ p ∈ (emit i).traitFns, hasDup p.2 = false := by
    intro p hp
    have := (List.all_eq_true.mp h) p hp
    simpa using this
  rw [emit_traitFns] at hall
  simp only [safeSnake, Bool.and_eq_true, Bool.not_eq_true']
  constructor
  · have := hall ("VarlinkInterface", (i.methods.map fun m => toSnakeCase m.name) ++ ["call_upgraded"])
      (by apply List.mem_append_right; simp)
    exact this
  · have := hall ("VarlinkCallError", i.errors.map fun e => replyFn e.name)
      (by apply List.mem_append_left; apply List.mem_append_left; simp)
    exact this

theorem safeErrFn_of_noAmbiguity (i : IDL) (h : (emit i).noAmbiguity = true) : safeErrFn i = true := by
  simpa [Emission.noAmbiguity, emit, List.find?, safeErrFn] using h

theorem safeParams_of_noShadow (i : IDL) (h : (emit i).noShadow = true) : safeParams i = true := by
  simp only [Emission.noShadow, Bool.and_eq_true, Bool.not_eq_true'] at h
  simpa [safeParams, emit] using h.2

theorem safeParamVariant_of_noLint (i : IDL) (h : (emit i).noLint = true) : safeParamVariant i = true := by
  simpa [Emission.noLint, safeParamVariant, emit] using h

theorem safeOptCycle_of_noCycle (i : IDL) (h : (emit i).noCycle = true) : safeOptCycle i = true := by
  simpa [Emission.noCycle, safeOptCycle, emit, IDL.graph] using h

/-- the unconditioned shape of the emitted item names -/
theorem emit_itemNames_raw (i : IDL) :
    (emit i).itemNames =
      ["ErrorKind", "Error", "Result"] ++
      (i.errors.flatMap fun e => (fieldsItems (argsName e.name) e.parm).map (·.2)) ++
      (["VarlinkCallError"] ++
       (i.types.flatMap fun (n, d) => (tyItems n d).map (·.2)) ++
       (i.errors.flatMap fun e => (fieldsItems (argsName e.name) e.parm).map (·.2) ++ [argsName e.name]) ++
       (i.methods.flatMap fun m =>
          ((fieldsItems (argsName m.name) m.input) ++ (fieldsItems (replyName m.name) m.output)).map (·.2) ++
          [replyName m.name, argsName m.name, callName m.name]) ++
       fixedTail) := by
  simp only [Emission.itemNames, emit, fixedTail, List.map_append, List.map_flatMap, List.map_cons, List.map_nil,
    List.append_assoc, List.cons_append, List.nil_append]

theorem nodup_of_hasDup_false {l : List String} (h : hasDup l = false) : l.Nodup := (hasDup_false_iff l).mp h

/-- items pairwise distinct ⇒ S4: an anonymous type below an error's parameters is emitted by
    `generate_error_code` and again by `VError::to_tokenstream` -/
theorem safeErrAnon_of_itemsDistinct (i : IDL) (h : (emit i).itemsDistinct = true) : safeErrAnon i = true := by
  simp only [Emission.itemsDistinct, Bool.and_eq_true, Bool.not_eq_true'] at h
  have hnd := nodup_of_hasDup_false h.1
  rw [emit_itemNames_raw] at hnd
  simp only [safeErrAnon, List.all_eq_true, List.isEmpty_iff]
  intro e he
  cases hfi : fieldsItems (argsName e.name) e.parm with
  | nil => rfl
  | cons p ps =>
    exfalso
    have hdis := (List.nodup_append.mp hnd).2.2
    have h1 : p.2 ∈ ["ErrorKind", "Error", "Result"] ++
        (i.errors.flatMap fun e => (fieldsItems (argsName e.name) e.parm).map (·.2)) := by
      apply List.mem_append_right
      exact List.mem_flatMap.mpr ⟨e, he, by simp [hfi]⟩
    have h2 : p.2 ∈ (["VarlinkCallError"] ++
       (i.types.flatMap fun (n, d) => (tyItems n d).map (·.2)) ++
       (i.errors.flatMap fun e => (fieldsItems (argsName e.name) e.parm).map (·.2) ++ [argsName e.name]) ++
       (i.methods.flatMap fun m =>
          ((fieldsItems (argsName m.name) m.input) ++ (fieldsItems (replyName m.name) m.output)).map (·.2) ++
          [replyName m.name, argsName m.name, callName m.name]) ++
       fixedTail) := by
      apply List.mem_append_left
      apply List.mem_append_left
      apply List.mem_append_right
      exact List.mem_flatMap.mpr ⟨e, he, by simp [hfi]⟩
    exact hdis _ h1 _ h2 rfl

end Gen
end VV

namespace VV
namespace Gen

theorem tyItems_root {n : String} {d : Ty} (h : isDef d = true) : n ∈ (tyItems n d).map (·.2) := by
  cases d <;> simp [isDef] at h <;> simp [tyItems]

theorem not_nodup_of_mem_both {p q : List String} {x : String} (hp : x ∈ p) (hq : x ∈ q) : ¬ (p ++ q).Nodup := by
  intro h
  exact (List.nodup_append.mp h).2.2 x hp x hq rfl

theorem fixed_cases : ∀ x ∈ fixedItems,
    x ∈ ["ErrorKind", "Error", "Result"] ∨ x = "VarlinkCallError" ∨ x ∈ fixedTail := by decide

theorem typeName_mem_items (i : IDL) {n : String} {d : Ty} (hnd : (n, d) ∈ i.types) (hd : isDef d = true) :
    n ∈ (i.types.flatMap fun (n, d) => (tyItems n d).map (·.2)) :=
  List.mem_flatMap.mpr ⟨(n, d), hnd, tyItems_root hd⟩

/-- items distinct, nothing shadowed ⇒ S5 -/
theorem safeReserved_of_clean (i : IDL) (hdefs : typedefsAreDefs i = true)
    (h1 : (emit i).itemsDistinct = true) (h2 : (emit i).noShadow = true) : safeReserved i = true := by
  simp only [Emission.itemsDistinct, Bool.and_eq_true, Bool.not_eq_true', List.any_eq_false] at h1
  simp only [Emission.noShadow, Bool.and_eq_true, Bool.not_eq_true', List.any_eq_false] at h2
  have hnd := nodup_of_hasDup_false h1.1
  simp only [safeReserved, Bool.not_eq_true', List.any_eq_false, Bool.or_eq_false_iff]
  intro n hn
  obtain ⟨⟨tn, d⟩, htd, rfl⟩ := List.mem_map.mp hn
  have hd : isDef d = true := by
    simp only [typedefsAreDefs, List.all_eq_true] at hdefs
    exact hdefs (tn, d) htd
  have hTY := typeName_mem_items i htd hd
  have hitem : tn ∈ (emit i).itemNames := by
    rw [emit_itemNames_raw]
    apply List.mem_append_right
    apply List.mem_append_left
    apply List.mem_append_left
    apply List.mem_append_left
    exact List.mem_append_right _ hTY
  have hA : tn ∉ fixedItems := by
    -- a fixed item of the same name is emitted as well
    have : tn ∉ fixedItems := by
      intro hfx
      rw [emit_itemNames_raw] at hnd
      have hcases := fixed_cases tn hfx
      rcases hcases with hc | hc | hc
      · refine not_nodup_of_mem_both (x := tn) (List.mem_append_left _ hc) ?_ hnd
        apply List.mem_append_left
        apply List.mem_append_left
        apply List.mem_append_left
        exact List.mem_append_right _ hTY
      · have hnd2 := (List.nodup_append.mp hnd).2.1
        simp only [List.append_assoc] at hnd2
        refine not_nodup_of_mem_both (x := tn) (by simp [hc]) ?_ hnd2
        exact List.mem_append_left _ hTY
      · have hnd2 := (List.nodup_append.mp hnd).2.1
        refine not_nodup_of_mem_both (x := tn) ?_ hc hnd2
        apply List.mem_append_left
        apply List.mem_append_left
        exact List.mem_append_right _ hTY
    exact this
  have hB : tn ∉ importedNames := by simpa using h1.2 tn hitem
  have hC : tn ∉ shadowSensitive := by simpa using h2.1 tn hitem
  intro hor
  simp only [Bool.or_eq_true, List.contains_iff_mem] at hor
  rcases hor with (hor | hor) | hor
  · exact hA hor
  · exact hB hor
  · exact hC hor

theorem sublist_errArgs (i : IDL) :
    (i.errors.map fun e => argsName e.name).Sublist
      (i.errors.flatMap fun e => (fieldsItems (argsName e.name) e.parm).map (·.2) ++ [argsName e.name]) := by
  induction i.errors with
  | nil => exact List.Sublist.refl _
  | cons e es ih =>
    simp only [List.map_cons, List.flatMap_cons]
    have : [argsName e.name].Sublist ((fieldsItems (argsName e.name) e.parm).map (·.2) ++ [argsName e.name]) :=
      List.sublist_append_right _ _
    exact (this.append ih)

/-- items distinct ⇒ S6 -/
theorem safePaths_of_itemsDistinct (i : IDL) (h : (emit i).itemsDistinct = true) : safePaths i = true := by
  simp only [Emission.itemsDistinct, Bool.and_eq_true, Bool.not_eq_true'] at h
  have hnd := nodup_of_hasDup_false h.1
  rw [emit_itemNames_raw] at hnd
  simp only [safePaths, Bool.not_eq_true']
  rw [hasDup_false_iff]
  refine List.Nodup.sublist ?_ hnd
  simp only [IDL.moduleNames]
  refine List.Sublist.trans ?_ (List.sublist_append_right _ _)
  refine List.Sublist.trans ?_ (List.sublist_append_left _ _)
  have h1 := sublist_errArgs i
  have h2 := ((List.Sublist.refl (i.types.flatMap fun (n, d) => (tyItems n d).map (·.2))).append h1).append
    (List.Sublist.refl (i.methods.flatMap fun m =>
          ((fieldsItems (argsName m.name) m.input) ++ (fieldsItems (replyName m.name) m.output)).map (·.2) ++
          [replyName m.name, argsName m.name, callName m.name]))
  refine List.Sublist.trans h2 ?_
  simp only [List.append_assoc]
  exact List.sublist_append_right _ _

/-- `Safe` is exactly "the skeleton is clean" -/
theorem safeB_iff_clean (i : IDL) (hdefs : typedefsAreDefs i = true) : safeB i = true ↔ (emit i).clean = true := by
  constructor
  · intro h
    obtain ⟨s1, s2, s3, s4, s5, s6, s7, s8, s9, s10⟩ := safeB_spec h
    simp [Emission.clean, emit_noPanic i s1, emit_noKeyword i s2, emit_itemsDistinct i s4 s5 s6, emit_fnsDistinct i s3,
      emit_noCycle i s7, emit_noAmbiguity i s8, emit_noShadow i s4 s5 s9, emit_noLint i s10]
  · intro h
    simp only [Emission.clean, Bool.and_eq_true] at h
    obtain ⟨⟨⟨⟨⟨⟨⟨c1, c2⟩, c3⟩, c4⟩, c5⟩, c6⟩, c7⟩, c8⟩ := h
    simp [safeB, failedClasses, safeRawIdent_of_noPanic i hdefs c1, safeKwFn_of_noKeyword i c2,
      safeSnake_of_fnsDistinct i c4, safeErrAnon_of_itemsDistinct i c3, safeReserved_of_clean i hdefs c3 c7,
      safePaths_of_itemsDistinct i c3, safeOptCycle_of_noCycle i c5, safeErrFn_of_noAmbiguity i c6,
      safeParams_of_noShadow i c7, safeParamVariant_of_noLint i c8]

end Gen
end VV
