/-
Lemmas.PoolDrain — invariants of Model.Pool about `ThreadPool::drop`:
every job ever enqueued is in the queue, in a worker's hands, or finished;
Terminate messages sit behind all jobs; a worker terminates only when no job is
left in the queue.
-/
import VarlinkVerif.Lemmas.Pool

namespace VV

def jobsBeforeTerms : List Msg → Bool
  | [] => true
  | .job _ :: q => jobsBeforeTerms q
  | .terminate :: q => q.all (· == .terminate)

theorem mem_replaceFirst_new (p : WPc → Bool) (new : WPc) :
    ∀ ws : List WPc, ws.any p = true → new ∈ replaceFirst p new ws := by
  intro ws
  induction ws with
  | nil => intro h; simp at h
  | cons w ws ih =>
    intro h
    simp only [replaceFirst]
    by_cases hw : p w = true
    · simp [hw]
    · have hw' : p w = false := by simpa using hw
      simp only [List.any_cons, hw', Bool.false_or] at h
      simp [hw', ih h]

theorem mem_replaceFirst_keep (p : WPc → Bool) (new x : WPc) (hx : p x = false) :
    ∀ ws : List WPc, x ∈ ws → x ∈ replaceFirst p new ws := by
  intro ws
  induction ws with
  | nil => intro h; simp at h
  | cons w ws ih =>
    intro h
    simp only [replaceFirst]
    by_cases hw : p w = true
    · simp only [hw, if_true]
      simp at h
      rcases h with rfl | h
      · rw [hx] at hw; simp at hw
      · simp [h]
    · have hw' : p w = false := by simpa using hw
      simp only [hw', Bool.false_eq_true, if_false]
      simp at h ⊢
      rcases h with rfl | h
      · left; rfl
      · right; exact ih h

theorem mem_of_mem_replaceFirst (p : WPc → Bool) (new x : WPc) :
    ∀ ws : List WPc, x ∈ replaceFirst p new ws → x = new ∨ x ∈ ws := by
  intro ws
  induction ws with
  | nil => intro h; simp [replaceFirst] at h
  | cons w ws ih =>
    intro h
    simp only [replaceFirst] at h
    split at h
    · simp at h; rcases h with rfl | h
      · left; rfl
      · right; simp [h]
    · simp at h; rcases h with rfl | h
      · right; simp
      · rcases ih h with e | e
        · left; exact e
        · right; simp [e]

structure DrainInv (s : PoolSt) : Prop where
  /-- every enqueued job is queued, held (not yet returned) or finished -/
  accounted : ∀ j, j < s.nextJob →
    Msg.job j ∈ s.queue ∨ (WPc.holding j ∈ s.workers ∨ WPc.running j ∈ s.workers) ∨ j ∈ s.finished
  /-- before the drop there is no Terminate and no terminated worker -/
  clean : s.acc ≠ .dropped → Msg.terminate ∉ s.queue ∧ WPc.terminated ∉ s.workers
  sorted : jobsBeforeTerms s.queue = true
  /-- a worker has terminated only if no job is left in the queue -/
  term_after_jobs : WPc.terminated ∈ s.workers → Pool.queuedJobs s = 0

theorem jobsBeforeTerms_append_job (q : List Msg) (j : Nat) (h : Msg.terminate ∉ q) :
    jobsBeforeTerms (q ++ [Msg.job j]) = true := by
  induction q with
  | nil => simp [jobsBeforeTerms]
  | cons m q ih =>
    cases m with
    | job k => simp [jobsBeforeTerms]; exact ih (by simpa using h)
    | terminate => simp at h

theorem jobsBeforeTerms_append_terms (q : List Msg) (n : Nat) (h : Msg.terminate ∉ q) :
    jobsBeforeTerms (q ++ List.replicate n Msg.terminate) = true := by
  induction q with
  | nil =>
    cases n with
    | zero => simp [jobsBeforeTerms]
    | succ n => simp [List.replicate_succ, jobsBeforeTerms]
  | cons m q ih =>
    cases m with
    | job k => simp [jobsBeforeTerms]; exact ih (by simpa using h)
    | terminate => simp at h

theorem filter_isJob_of_all_terminate (q : List Msg) (h : q.all (· == Msg.terminate) = true) :
    (q.filter Msg.isJob).length = 0 := by
  induction q with
  | nil => simp
  | cons m q ih =>
    simp at h
    obtain ⟨rfl, h2⟩ := h
    have := ih (by simpa using h2)
    simpa [List.filter_cons, Msg.isJob] using this

theorem not_mem_job_of_queued_zero (q : List Msg) (j : Nat) (h : (q.filter Msg.isJob).length = 0) :
    Msg.job j ∉ q := by
  intro hm
  have : Msg.job j ∈ q.filter Msg.isJob := by simp [List.mem_filter, hm, Msg.isJob]
  have hl : 0 < (q.filter Msg.isJob).length := List.length_pos_of_mem this
  omega

theorem drain_init (initial max : Nat) : DrainInv (Pool.init initial max) := by
  refine ⟨?_, ?_, ?_, ?_⟩
  · intro j hj; simp [Pool.init] at hj
  · intro _; simp [Pool.init]
  · simp [Pool.init, jobsBeforeTerms]
  · intro h; simp [Pool.init] at h

theorem drain_step (s : PoolSt) (st : PStep) (h : DrainInv s) : DrainInv (Pool.step s st) := by
  unfold Pool.step
  by_cases hen : Pool.enabled s st = true
  case neg => simp [hen]; exact h
  simp only [hen, Bool.not_true, Bool.false_eq_true, if_false]
  obtain ⟨hacct, hclean, hsorted, hterm⟩ := h
  cases st with
  | enq =>
    have hacc : s.acc = .accepting := by simpa [Pool.enabled] using hen
    have hc := hclean (by rw [hacc]; simp)
    refine ⟨?_, ?_, ?_, ?_⟩
    · intro j hj
      dsimp only at hj ⊢
      by_cases hjn : j = s.nextJob
      · left; simp [hjn]
      · rcases hacct j (by omega) with h | h | h
        · left; simp [h]
        · right; left; exact h
        · right; right; exact h
    · intro _; dsimp only; simp [hc.1, hc.2]
    · dsimp only; exact jobsBeforeTerms_append_job _ _ hc.1
    · intro ht; exact absurd ht hc.2
  | grow =>
    have hacc : s.acc = .sent := by simpa [Pool.enabled] using hen
    have hc := hclean (by rw [hacc]; simp)
    by_cases hg : Extracted.growCond s.busy s.workers.length s.max = true
    · simp only [hg, if_true]
      refine ⟨?_, ?_, hsorted, ?_⟩
      · intro j hj
        rcases hacct j hj with h | h | h
        · left; exact h
        · right; left
          rcases h with h | h
          · left; simp [h]
          · right; simp [h]
        · right; right; exact h
      · intro _; simp [hc.1, hc.2]
      · intro ht; simp at ht; exact absurd ht hc.2
    · have hg' : Extracted.growCond s.busy s.workers.length s.max = false := by simpa using hg
      simp only [hg', Bool.false_eq_true, if_false]
      refine ⟨hacct, ?_, hsorted, ?_⟩
      · intro _; exact hc
      · intro ht; exact absurd ht hc.2
  | deq =>
    simp only [Pool.enabled, Bool.and_eq_true] at hen
    obtain ⟨hidle, hq⟩ := hen
    have hidle_h : ∀ j, WPc.isIdle (WPc.holding j) = false := fun _ => rfl
    have hidle_r : ∀ j, WPc.isIdle (WPc.running j) = false := fun _ => rfl
    have hidle_t : WPc.isIdle WPc.terminated = false := rfl
    cases hqq : s.queue with
    | nil => simp [hqq] at hq
    | cons m q =>
      rw [hqq] at hsorted
      cases m with
      | job j0 =>
        simp only
        refine ⟨?_, ?_, ?_, ?_⟩
        · intro j hj
          rcases hacct j hj with h | h | h
          · rw [hqq] at h
            simp at h
            rcases h with rfl | h
            · right; left; left; exact mem_replaceFirst_new _ _ _ hidle
            · left; exact h
          · right; left
            rcases h with h | h
            · left; exact mem_replaceFirst_keep _ _ _ (hidle_h j) _ h
            · right; exact mem_replaceFirst_keep _ _ _ (hidle_r j) _ h
          · right; right; exact h
        · intro hd
          have hc := hclean hd
          rw [hqq] at hc
          refine ⟨by simpa using hc.1, ?_⟩
          intro hm
          rcases mem_of_mem_replaceFirst _ _ _ _ hm with e | e
          · simp at e
          · exact hc.2 e
        · simpa [jobsBeforeTerms] using hsorted
        · intro hm
          rcases mem_of_mem_replaceFirst _ _ _ _ hm with e | e
          · simp at e
          · have := hterm e
            simp only [Pool.queuedJobs, hqq] at this
            simp [List.filter_cons, Msg.isJob] at this
      | terminate =>
        simp only
        have hall : q.all (· == Msg.terminate) = true := by simpa [jobsBeforeTerms] using hsorted
        refine ⟨?_, ?_, ?_, ?_⟩
        · intro j hj
          rcases hacct j hj with h | h | h
          · rw [hqq] at h
            simp at h
            left; exact h
          · right; left
            rcases h with h | h
            · left; exact mem_replaceFirst_keep _ _ _ (hidle_h j) _ h
            · right; exact mem_replaceFirst_keep _ _ _ (hidle_r j) _ h
          · right; right; exact h
        · intro hd
          have hc := hclean hd
          rw [hqq] at hc
          simp at hc
        · cases q with
          | nil => simp [jobsBeforeTerms]
          | cons m2 q2 =>
            simp at hall
            obtain ⟨rfl, h2⟩ := hall
            simp [jobsBeforeTerms]
            simpa using h2
        · intro _
          simp only [Pool.queuedJobs]
          exact filter_isJob_of_all_terminate q hall
  | start j0 =>
    have hany : s.workers.any (· == .holding j0) = true := by simpa [Pool.enabled] using hen
    refine ⟨?_, ?_, hsorted, ?_⟩
    · intro j hj
      rcases hacct j hj with h | h | h
      · left; exact h
      · right; left
        rcases h with h | h
        · by_cases e : j = j0
          · subst e; right; exact mem_replaceFirst_new _ _ _ hany
          · left; exact mem_replaceFirst_keep _ _ _ (by simp [e]) _ h
        · right; exact mem_replaceFirst_keep _ _ _ (by simp) _ h
      · right; right; exact h
    · intro hd
      have hc := hclean hd
      refine ⟨hc.1, ?_⟩
      intro hm
      rcases mem_of_mem_replaceFirst _ _ _ _ hm with e | e
      · simp at e
      · exact hc.2 e
    · intro hm
      rcases mem_of_mem_replaceFirst _ _ _ _ hm with e | e
      · simp at e
      · exact hterm e
  | finish j0 =>
    have hany : s.workers.any (· == .running j0) = true := by simpa [Pool.enabled] using hen
    refine ⟨?_, ?_, hsorted, ?_⟩
    · intro j hj
      rcases hacct j hj with h | h | h
      · left; exact h
      · by_cases e : j = j0
        · right; right; simp [e]
        · right; left
          rcases h with h | h
          · left; exact mem_replaceFirst_keep _ _ _ (by simp) _ h
          · right; exact mem_replaceFirst_keep _ _ _ (by simp [e]) _ h
      · right; right; simp [h]
    · intro hd
      have hc := hclean hd
      refine ⟨hc.1, ?_⟩
      intro hm
      rcases mem_of_mem_replaceFirst _ _ _ _ hm with e | e
      · simp at e
      · exact hc.2 e
    · intro hm
      rcases mem_of_mem_replaceFirst _ _ _ _ hm with e | e
      · simp at e
      · exact hterm e
  | dec j0 =>
    refine ⟨?_, ?_, hsorted, ?_⟩
    · intro j hj
      rcases hacct j hj with h | h | h
      · left; exact h
      · right; left
        rcases h with h | h
        · left; exact mem_replaceFirst_keep _ _ _ (by simp) _ h
        · right; exact mem_replaceFirst_keep _ _ _ (by simp) _ h
      · right; right; exact h
    · intro hd
      have hc := hclean hd
      refine ⟨hc.1, ?_⟩
      intro hm
      rcases mem_of_mem_replaceFirst _ _ _ _ hm with e | e
      · simp at e
      · exact hc.2 e
    · intro hm
      rcases mem_of_mem_replaceFirst _ _ _ _ hm with e | e
      · simp at e
      · exact hterm e
  | idleGap => exact ⟨hacct, hclean, hsorted, hterm⟩
  | drop =>
    have hacc : s.acc = .accepting := by simpa [Pool.enabled] using hen
    have hc := hclean (by rw [hacc]; simp)
    refine ⟨?_, ?_, ?_, ?_⟩
    · intro j hj
      rcases hacct j hj with h | h | h
      · left; simp [h]
      · right; left; exact h
      · right; right; exact h
    · intro hd; simp at hd
    · exact jobsBeforeTerms_append_terms _ _ hc.1
    · intro ht; exact absurd ht hc.2

theorem drain_run (steps : List PStep) : ∀ s, DrainInv s → DrainInv (Pool.run s steps) := by
  induction steps with
  | nil => intro s h; exact h
  | cons st rest ih => intro s h; exact ih _ (drain_step s st h)

end VV
