/-
Lemmas.IdlCompleteTypes — completeness of the PEG for type expressions, structs and enums:
every text the declarative grammar derives for a type (followed by something that cannot
continue a name) is parsed by `type_` to exactly that type.
-/
import VarlinkVerif.Lemmas.IdlTrivia

namespace VV.Idl
open Gram

/-! ### first characters -/

theorem tokStart_of_letter {c : Char} (h : Spec.isLetter c = true) : TokStart c := by
  have h' : (65 ≤ c.toNat ∧ c.toNat ≤ 90) ∨ (97 ≤ c.toNat ∧ c.toNat ≤ 122) := by
    simpa [Spec.isLetter, Spec.isUpperLetter] using h
  refine ⟨?_, ?_, ?_⟩
  · simp only [Spec.isSpace, Spec.spaceCodes, List.contains_cons, List.contains_nil, Bool.or_false]
    generalize c.toNat = n at h' ⊢
    rw [Bool.eq_false_iff]
    simp only [ne_eq, Bool.or_eq_true, beq_iff_eq, not_or]
    omega
  · simp only [Spec.isNewline, Spec.newlineCodes, List.contains_cons, List.contains_nil, Bool.or_false]
    generalize c.toNat = n at h' ⊢
    rw [Bool.eq_false_iff]
    simp only [ne_eq, Bool.or_eq_true, beq_iff_eq, not_or]
    omega
  · intro e; subst e; revert h; decide

theorem tokStart_lparen : TokStart '(' := ⟨by decide, by decide, by decide⟩
theorem tokStart_rparen : TokStart ')' := ⟨by decide, by decide, by decide⟩
theorem tokStart_lbracket : TokStart '[' := ⟨by decide, by decide, by decide⟩
theorem tokStart_quest : TokStart '?' := ⟨by decide, by decide, by decide⟩
theorem tokStart_colon : TokStart ':' := ⟨by decide, by decide, by decide⟩
theorem tokStart_comma : TokStart ',' := ⟨by decide, by decide, by decide⟩
theorem tokStart_dash : TokStart '-' := ⟨by decide, by decide, by decide⟩

theorem noTriviaAhead_cons {c : Char} {r : Input} (h : TokStart c) : NoTriviaAhead (c :: r) := by
  intro c' r' e; simp only [List.cons.injEq] at e; rw [← e.1]; exact h

/-- the head of a string is a character with property `P` -/
def HeadIs (P : Char → Prop) (s : Str) : Prop := ∃ c s', s = c :: s' ∧ P c

theorem HeadIs.append {P : Char → Prop} {s : Str} (h : HeadIs P s) (r : Str) : HeadIs P (s ++ r) := by
  obtain ⟨c, s', rfl, hc⟩ := h; exact ⟨c, s' ++ r, rfl, hc⟩

theorem noTriviaAhead_of_head {s : Str} (h : HeadIs TokStart s) : NoTriviaAhead s := by
  obtain ⟨c, s', rfl, hc⟩ := h; exact noTriviaAhead_cons hc

theorem isFieldName_head {n : Str} (h : Spec.isFieldName n = true) : HeadIs (fun c => Spec.isLetter c = true) n := by
  cases n with
  | nil => simp [Spec.isFieldName] at h
  | cons c r => simp only [Spec.isFieldName, Bool.and_eq_true] at h; exact ⟨c, r, rfl, h.1⟩

theorem isTypeName_head {n : Str} (h : Spec.isTypeName n = true) : HeadIs (fun c => Spec.isUpperLetter c = true) n := by
  cases n with
  | nil => simp [Spec.isTypeName] at h
  | cons c r => simp only [Spec.isTypeName, Bool.and_eq_true] at h; exact ⟨c, r, rfl, h.1⟩

theorem letter_of_upper {c : Char} (h : Spec.isUpperLetter c = true) : Spec.isLetter c = true := by
  simp [Spec.isLetter, h]

/-- after a trivia string comes either a trivia character or the head of what follows -/
theorem head_trivia_append {P : Char → Prop} {t : Str} (ht : Trivia t) {s : Str} (hs : HeadIs P s)
    (hP : ∀ c, (Spec.isSpace c = true ∨ Spec.isNewline c = true ∨ c = '#') → P c) : HeadIs P (t ++ s) := by
  cases ht with
  | nil => simpa using hs
  | @space c t' hc _ => exact ⟨c, t' ++ s, rfl, hP c (Or.inl hc)⟩
  | @newline c t' hc _ => exact ⟨c, t' ++ s, rfl, hP c (Or.inr (Or.inl hc))⟩
  | @comment b e t' _ _ _ => exact ⟨'#', b ++ e :: t' ++ s, by simp, hP '#' (Or.inr (Or.inr rfl))⟩

/-- a character that ends a word: not a letter, digit or underscore -/
def WordEnd (c : Char) : Prop := isAlnum c = false ∧ c ≠ '_'

theorem wordEnd_of_trivia_char {c : Char} (h : Spec.isSpace c = true ∨ Spec.isNewline c = true ∨ c = '#') : WordEnd c := by
  have key : ∀ n : Nat, (n = 0x20 ∨ n = 0x09 ∨ n = 0xA0 ∨ n = 0xFEFF ∨ n = 0x1680 ∨ n = 0x180E ∨ (0x2000 ≤ n ∧ n ≤ 0x200A) ∨
      n = 0x202F ∨ n = 0x205F ∨ n = 0x3000 ∨ n = 10 ∨ n = 13 ∨ n = 0x2028 ∨ n = 0x2029 ∨ n = 35) →
      ¬ ((97 ≤ n ∧ n ≤ 122) ∨ (65 ≤ n ∧ n ≤ 90) ∨ (48 ≤ n ∧ n ≤ 57)) ∧ n ≠ 95 := by
    intro n h; omega
  have hn : c.toNat = 0x20 ∨ c.toNat = 0x09 ∨ c.toNat = 0xA0 ∨ c.toNat = 0xFEFF ∨ c.toNat = 0x1680 ∨ c.toNat = 0x180E ∨
      (0x2000 ≤ c.toNat ∧ c.toNat ≤ 0x200A) ∨ c.toNat = 0x202F ∨ c.toNat = 0x205F ∨ c.toNat = 0x3000 ∨ c.toNat = 10 ∨
      c.toNat = 13 ∨ c.toNat = 0x2028 ∨ c.toNat = 0x2029 ∨ c.toNat = 35 := by
    rcases h with h | h | h
    · simp only [Spec.isSpace, Spec.spaceCodes, List.contains_cons, List.contains_nil, Bool.or_false, Bool.or_eq_true,
        beq_iff_eq] at h
      omega
    · simp only [Spec.isNewline, Spec.newlineCodes, List.contains_cons, List.contains_nil, Bool.or_false, Bool.or_eq_true,
        beq_iff_eq] at h
      omega
    · subst h; decide
  obtain ⟨k1, k2⟩ := key c.toNat hn
  refine ⟨?_, ?_⟩
  · rw [isAlnum_eq]
    simp only [Spec.isLetterOrDigit, Spec.isLetter, Spec.isUpperLetter]
    rw [Bool.eq_false_iff]
    simp only [ne_eq, Bool.or_eq_true, Bool.and_eq_true, decide_eq_true_eq]
    omega
  · intro e; subst e; exact k2 (by decide)

theorem wordEnd_colon : WordEnd ':' := ⟨by decide, by decide⟩
theorem wordEnd_comma : WordEnd ',' := ⟨by decide, by decide⟩
theorem wordEnd_rparen : WordEnd ')' := ⟨by decide, by decide⟩
theorem wordEnd_lparen : WordEnd '(' := ⟨by decide, by decide⟩

theorem fieldNameStep_none_of_head {s : Str} (h : s = [] ∨ HeadIs WordEnd s) : fieldNameStep s = none := by
  rcases h with rfl | ⟨c, s', rfl, h1, h2⟩
  · rfl
  · simp [fieldNameStep, h2, h1]

theorem noAlnumAhead_of_head {s : Str} (h : s = [] ∨ HeadIs WordEnd s) : NoAlnumAhead s := by
  intro c r' e
  rcases h with rfl | ⟨c', s', rfl, h1, _⟩
  · cases e
  · simp only [List.cons.injEq] at e; rw [← e.1]; exact h1


/-! ### enums -/

/-- `(',' trivia field)*` -/
def EnumRest : List Str → Str → Prop
  | [], w => w = []
  | e :: r, w => ∃ t w', w = ',' :: t ++ e ++ w' ∧ Trivia t ∧ Spec.isFieldName e = true ∧ EnumRest r w'

theorem enumItems_split : ∀ (e : Str) (es : List Str) (w : Str), EnumItems (e :: es) w →
    ∃ w', w = e ++ w' ∧ Spec.isFieldName e = true ∧ EnumRest es w'
  | e, [], w, h => by
    simp only [EnumItems] at h
    exact ⟨[], by simp [h.1], h.2, rfl⟩
  | e, e' :: r, w, h => by
    simp only [EnumItems] at h
    obtain ⟨t, w', rfl, he, ht, hrest⟩ := h
    obtain ⟨w'', rfl, he', hr⟩ := enumItems_split e' r w' hrest
    exact ⟨',' :: t ++ e' ++ w'', by simp, he, t, w'', rfl, ht, he', hr⟩

/-- what may follow the last item of an enum: not a word character, not a comma -/
def StopList (c : Char) : Prop := WordEnd c ∧ c ≠ ','

theorem enumSep_none_of_stop {n : Nat} {s : Str} (h : s = [] ∨ HeadIs StopList s) : enumSep n s = none := by
  rcases h with rfl | ⟨c, s', rfl, _, hc⟩
  · rfl
  · simp [enumSep, chr, hc]

theorem enumRest_head_wordEnd : ∀ {es : List Str} {w : Str}, EnumRest es w → ∀ {tail : Str},
    (tail = [] ∨ HeadIs StopList tail) → (w ++ tail = [] ∨ HeadIs WordEnd (w ++ tail))
  | [], w, h, tail, ht => by
    simp only [EnumRest] at h; subst h
    rcases ht with rfl | ⟨c, s', rfl, hc, _⟩
    · exact Or.inl rfl
    · exact Or.inr ⟨c, s', rfl, hc⟩
  | e :: r, w, h, tail, _ => by
    obtain ⟨t, w', rfl, _, _, _⟩ := h
    exact Or.inr ⟨',', t ++ e ++ w' ++ tail, by simp, wordEnd_comma⟩

theorem enum_sepTail_complete : ∀ (es : List Str) (w : Str), EnumRest es w → ∀ (tail : Input) (n k : Nat),
    (tail = [] ∨ HeadIs StopList tail) → (w ++ tail).length ≤ n → (w ++ tail).length ≤ k →
    sepTailF (fieldNameF n) (enumSep n) k (w ++ tail) = (es, tail)
  | [], w, h, tail, n, k, ht, _, _ => by
    simp only [EnumRest] at h; subst h
    cases k with
    | zero => rfl
    | succ k => simp [sepTailF, enumSep_none_of_stop ht]
  | e :: r, w, h, tail, n, k, ht, hn, hk => by
    obtain ⟨t, w', rfl, htr, he, hrest⟩ := h
    cases k with
    | zero => simp at hk
    | succ k =>
      simp only [List.cons_append, List.append_assoc, List.length_cons, List.length_append] at hn hk
      have hhead : HeadIs TokStart (e ++ (w' ++ tail)) :=
        (isFieldName_head he).append _ |> fun ⟨c, s', h1, h2⟩ => ⟨c, s', h1, tokStart_of_letter h2⟩
      have hw := wceStar_complete' (n := n) htr (noTriviaAhead_of_head hhead)
        (by simp only [List.length_append]; omega)
      have hsep : enumSep n (',' :: t ++ e ++ w' ++ tail) = some (e ++ (w' ++ tail)) := by
        have e1 : ',' :: t ++ e ++ w' ++ tail = ',' :: (t ++ (e ++ (w' ++ tail))) := by simp
        rw [e1]
        simp [enumSep, chr, hw]
      have hf : fieldNameF n (e ++ (w' ++ tail)) = some (e, w' ++ tail) :=
        fieldNameF_complete (by simp only [List.length_append]; omega) he
          (fieldNameStep_none_of_head (enumRest_head_wordEnd hrest ht))
      have ih := enum_sepTail_complete r w' hrest tail n k ht (by simp only [List.length_append]; omega)
        (by simp only [List.length_append]; omega)
      simp only [sepTailF, hsep, hf, ih]

theorem venumF_complete {es : List Str} {w : Str} (h : EnumText es w) (r : Input) (n : Nat)
    (hn : (w ++ r).length ≤ n) : venumF n (w ++ r) = some (es, r) := by
  obtain ⟨t0, body, t1, rfl, ht0, hitems, ht1⟩ := h
  cases es with
  | nil => simp [EnumItems] at hitems
  | cons e es =>
    obtain ⟨w', rfl, he, hrest⟩ := enumItems_split e es body hitems
    simp only [List.cons_append, List.append_assoc, List.length_cons, List.length_append] at hn
    have tailStop : (t1 ++ (')' :: r) = [] ∨ HeadIs StopList (t1 ++ (')' :: r))) := by
      right
      apply head_trivia_append ht1 ⟨')', r, rfl, wordEnd_rparen, by decide⟩
      intro c hc
      refine ⟨wordEnd_of_trivia_char hc, ?_⟩
      intro e; subst e
      rcases hc with h | h | h
      · revert h; decide
      · revert h; decide
      · revert h; decide
    have hhead : HeadIs TokStart (e ++ (w' ++ (t1 ++ ')' :: r))) :=
      (isFieldName_head he).append _ |> fun ⟨c, s', h1, h2⟩ => ⟨c, s', h1, tokStart_of_letter h2⟩
    have hw0 := wceStar_complete' (n := n) ht0 (noTriviaAhead_of_head hhead)
      (by simp only [List.length_append, List.length_cons]; omega)
    have hf : fieldNameF n (e ++ (w' ++ (t1 ++ ')' :: r))) = some (e, w' ++ (t1 ++ ')' :: r)) :=
      fieldNameF_complete (by simp only [List.length_append, List.length_cons]; omega) he
        (fieldNameStep_none_of_head (enumRest_head_wordEnd hrest tailStop))
    have htl := enum_sepTail_complete es w' hrest (t1 ++ ')' :: r) n n tailStop
      (by simp only [List.length_append, List.length_cons]; omega)
      (by simp only [List.length_append, List.length_cons]; omega)
    have hw1 := wceStar_complete' (n := n) ht1 (noTriviaAhead_cons (r := r) tokStart_rparen)
      (by simp only [List.length_append, List.length_cons]; omega)
    have e1 : ('(' :: t0 ++ (e ++ w') ++ t1 ++ [')']) ++ r = '(' :: (t0 ++ (e ++ (w' ++ (t1 ++ ')' :: r)))) := by simp
    rw [e1]
    simp only [venumF, chr, if_true, hw0, sepByF, hf, htl, hw1]


/-! ### `btype` dispatches on the first character -/

theorem lit_cons_ne {c d : Char} (h : c ≠ d) (l : Str) (s : Input) : lit (c :: l) (d :: s) = none := by
  simp [lit, h]

theorem btypeF_paren (n : Nat) (ty : Input → Option (Ty × Input)) (s' : Input) :
    btypeF n ty ('(' :: s') =
      match vstructF n ty ('(' :: s') with
      | some (f, r) => some (.struct f, r)
      | none =>
        match venumF n ('(' :: s') with
        | some (e, r) => some (.enum e, r)
        | none => none := by
  have hn : name ('(' :: s') = none := by simp [name, show isUpper '(' = false by decide]
  simp only [btypeF, lit_cons_ne (show 'b' ≠ '(' by decide), lit_cons_ne (show 'i' ≠ '(' by decide),
    lit_cons_ne (show 'f' ≠ '(' by decide), lit_cons_ne (show 's' ≠ '(' by decide),
    lit_cons_ne (show 'o' ≠ '(' by decide), hn]
  rfl

theorem chr_self (c : Char) (s : Input) : chr c (c :: s) = some s := by simp [chr]

theorem btypeF_none_of_head {n : Nat} {ty : Input → Option (Ty × Input)} {c : Char} (s' : Input)
    (hc : c = '[' ∨ c = '?') : btypeF n ty (c :: s') = none := by
  rcases hc with rfl | rfl
  · simp [btypeF, lit, name, vstructF, venumF, chr, show isUpper '[' = false by decide]
  · simp [btypeF, lit, name, vstructF, venumF, chr, show isUpper '?' = false by decide]

theorem upper_ne_lower {c d : Char} (hc : Spec.isUpperLetter c = true) (hd : isLower d = true) : d ≠ c := by
  intro e; subst e
  simp only [Spec.isUpperLetter, Bool.and_eq_true, decide_eq_true_eq] at hc
  simp only [isLower, Bool.and_eq_true, decide_eq_true_eq] at hd
  have e1 : 'a'.toNat = 97 := by decide
  rw [e1] at hd
  omega

theorem btypeF_typename {n : Nat} {ty : Input → Option (Ty × Input)} {w : Str} {r : Input}
    (hw : Spec.isTypeName w = true) (hr : NoAlnumAhead r) : btypeF n ty (w ++ r) = some (.typename w, r) := by
  have hname := name_complete hw hr
  obtain ⟨c, w', rfl, hc⟩ := isTypeName_head hw
  simp only [List.cons_append] at hname ⊢
  simp only [btypeF, lit_cons_ne (upper_ne_lower hc (show isLower 'b' = true by decide)),
    lit_cons_ne (upper_ne_lower hc (show isLower 'i' = true by decide)),
    lit_cons_ne (upper_ne_lower hc (show isLower 'f' = true by decide)),
    lit_cons_ne (upper_ne_lower hc (show isLower 's' = true by decide)),
    lit_cons_ne (upper_ne_lower hc (show isLower 'o' = true by decide)), hname]

/-! ### a struct text is not an enum text, for the parser -/

theorem chr_none_of_head {x c : Char} {s : Input} (h : c ≠ x) : chr x (c :: s) = none := by simp [chr, h]

theorem enumRest_after {es : List Str} {w' : Str} (h : EnumRest es w') {t1 : Str} (ht1 : Trivia t1) (r : Input) (n : Nat)
    (hn : (w' ++ (t1 ++ ')' :: r)).length ≤ n) :
    chr ':' (wceStarF n (w' ++ (t1 ++ ')' :: r))).2 = none := by
  cases es with
  | nil =>
    simp only [EnumRest] at h; subst h
    simp only [List.nil_append] at hn ⊢
    rw [wceStar_complete' ht1 (noTriviaAhead_cons tokStart_rparen) hn]
    exact chr_none_of_head (by decide)
  | cons e es =>
    obtain ⟨t, w'', rfl, _, _, _⟩ := h
    have e1 : ',' :: t ++ e ++ w'' ++ (t1 ++ ')' :: r) = ',' :: (t ++ e ++ w'' ++ (t1 ++ ')' :: r)) := by simp
    rw [e1, wceStar_nil_of_noTriviaAhead (noTriviaAhead_cons tokStart_comma)]
    exact chr_none_of_head (by decide)

theorem vstructF_none_of_enum {es : List Str} {w : Str} (h : EnumText es w) (ty : Input → Option (Ty × Input))
    (r : Input) (n : Nat) (hn : (w ++ r).length ≤ n) : vstructF n ty (w ++ r) = none := by
  obtain ⟨t0, body, t1, rfl, ht0, hitems, ht1⟩ := h
  cases es with
  | nil => simp [EnumItems] at hitems
  | cons e es =>
    obtain ⟨w', rfl, he, hrest⟩ := enumItems_split e es body hitems
    simp only [List.cons_append, List.append_assoc, List.length_cons, List.length_append] at hn
    have hheadL : HeadIs (fun c => Spec.isLetter c = true) (e ++ (w' ++ (t1 ++ ')' :: r))) := (isFieldName_head he).append _
    have hhead : HeadIs TokStart (e ++ (w' ++ (t1 ++ ')' :: r))) :=
      hheadL |> fun ⟨c, s', h1, h2⟩ => ⟨c, s', h1, tokStart_of_letter h2⟩
    have hw0 := wceStar_complete' (n := n) ht0 (noTriviaAhead_of_head hhead)
      (by simp only [List.length_append, List.length_cons]; omega)
    have hw00 : wceStarF n (e ++ (w' ++ (t1 ++ ')' :: r))) = ([], e ++ (w' ++ (t1 ++ ')' :: r))) :=
      wceStar_nil_of_noTriviaAhead (noTriviaAhead_of_head hhead)
    have tailStop : (t1 ++ (')' :: r) = [] ∨ HeadIs StopList (t1 ++ (')' :: r))) := by
      right
      apply head_trivia_append ht1 ⟨')', r, rfl, wordEnd_rparen, by decide⟩
      intro c hc
      refine ⟨wordEnd_of_trivia_char hc, ?_⟩
      intro e; subst e
      rcases hc with h | h | h
      · revert h; decide
      · revert h; decide
      · revert h; decide
    have hf : fieldNameF n (e ++ (w' ++ (t1 ++ ')' :: r))) = some (e, w' ++ (t1 ++ ')' :: r)) :=
      fieldNameF_complete (by simp only [List.length_append, List.length_cons]; omega) he
        (fieldNameStep_none_of_head (enumRest_head_wordEnd hrest tailStop))
    have hcolon := enumRest_after hrest ht1 r n (by simp only [List.length_append, List.length_cons]; omega)
    have hobj : objectFieldF n ty (e ++ (w' ++ (t1 ++ ')' :: r))) = none := by
      simp only [objectFieldF, hw00, hf, hcolon]
    have hclose : chr ')' (e ++ (w' ++ (t1 ++ ')' :: r))) = none := by
      obtain ⟨c, s', h1, h2⟩ := hheadL
      rw [h1]
      apply chr_none_of_head
      intro e; subst e; revert h2; decide
    have e1 : ('(' :: t0 ++ (e ++ w') ++ t1 ++ [')']) ++ r = '(' :: (t0 ++ (e ++ (w' ++ (t1 ++ ')' :: r)))) := by simp
    rw [e1]
    simp only [vstructF, chr_self, hw0, sepByF, hobj, hw00, hclose]

/-! ### fields -/

theorem typeText_head : ∀ {t : Ty} {w : Str}, TypeText t w → HeadIs TokStart w
  | .bool, w, h => by simp only [TypeText] at h; subst h; exact ⟨'b', _, rfl, tokStart_of_letter (by decide)⟩
  | .int, w, h => by simp only [TypeText] at h; subst h; exact ⟨'i', _, rfl, tokStart_of_letter (by decide)⟩
  | .float, w, h => by simp only [TypeText] at h; subst h; exact ⟨'f', _, rfl, tokStart_of_letter (by decide)⟩
  | .string, w, h => by simp only [TypeText] at h; subst h; exact ⟨'s', _, rfl, tokStart_of_letter (by decide)⟩
  | .object, w, h => by simp only [TypeText] at h; subst h; exact ⟨'o', _, rfl, tokStart_of_letter (by decide)⟩
  | .typename n, w, h => by
    simp only [TypeText] at h
    obtain ⟨rfl, hn⟩ := h
    obtain ⟨c, s', h1, h2⟩ := isTypeName_head hn
    exact ⟨c, s', h1, tokStart_of_letter (letter_of_upper h2)⟩
  | .struct fs, w, h => by
    simp only [TypeText] at h
    obtain ⟨body, t1, rfl, _, _⟩ := h
    exact ⟨'(', body ++ t1 ++ [')'], rfl, tokStart_lparen⟩
  | .enum es, w, h => by
    simp only [TypeText] at h
    obtain ⟨t0, body, t1, rfl, _, _, _⟩ := h
    exact ⟨'(', t0 ++ body ++ t1 ++ [')'], rfl, tokStart_lparen⟩
  | .array t, w, h => by
    simp only [TypeText] at h
    obtain ⟨w', rfl, _⟩ := h
    exact ⟨'[', _, rfl, tokStart_lbracket⟩
  | .dict t, w, h => by
    simp only [TypeText] at h
    obtain ⟨w', rfl, _⟩ := h
    exact ⟨'[', ['s', 't', 'r', 'i', 'n', 'g', ']'] ++ w', rfl, tokStart_lbracket⟩
  | .option t, w, h => by
    simp only [TypeText] at h
    obtain ⟨w', rfl, _⟩ := h
    exact ⟨'?', _, rfl, tokStart_quest⟩

/-- rule `object_field` on a field text, given that `type_` parses the field's type text -/
theorem objectField_of {m : Nat} {ty : Input → Option (Ty × Input)} {t0 nm t1 t2 wt : Str} {t : Ty} {r : Input}
    (ht0 : Trivia t0) (hnm : Spec.isFieldName nm = true) (ht1 : Trivia t1) (ht2 : Trivia t2)
    (hhead : HeadIs TokStart wt) (hty : ty (wt ++ r) = some (t, r))
    (hm : (t0 ++ nm ++ t1 ++ ':' :: t2 ++ wt ++ r).length ≤ m) :
    objectFieldF m ty (t0 ++ nm ++ t1 ++ ':' :: t2 ++ wt ++ r) = some ((nm, t), r) := by
  have e1 : t0 ++ nm ++ t1 ++ ':' :: t2 ++ wt ++ r = t0 ++ (nm ++ (t1 ++ (':' :: (t2 ++ (wt ++ r))))) := by simp
  rw [e1] at hm ⊢
  simp only [List.length_append, List.length_cons] at hm
  have hX : HeadIs TokStart (nm ++ (t1 ++ (':' :: (t2 ++ (wt ++ r))))) :=
    (isFieldName_head hnm).append _ |> fun ⟨c, s', h1, h2⟩ => ⟨c, s', h1, tokStart_of_letter h2⟩
  have hw0 := wceStar_complete' (n := m) ht0 (noTriviaAhead_of_head hX)
    (by simp only [List.length_append, List.length_cons]; omega)
  have hafter : HeadIs WordEnd (t1 ++ (':' :: (t2 ++ (wt ++ r)))) :=
    head_trivia_append ht1 ⟨':', _, rfl, wordEnd_colon⟩ (fun c hc => wordEnd_of_trivia_char hc)
  have hf : fieldNameF m (nm ++ (t1 ++ (':' :: (t2 ++ (wt ++ r))))) = some (nm, t1 ++ (':' :: (t2 ++ (wt ++ r)))) :=
    fieldNameF_complete (by simp only [List.length_append, List.length_cons]; omega) hnm
      (fieldNameStep_none_of_head (Or.inr hafter))
  have hw1 := wceStar_complete' (n := m) ht1 (noTriviaAhead_cons (r := t2 ++ (wt ++ r)) tokStart_colon)
    (by simp only [List.length_append, List.length_cons]; omega)
  have hw2 := wceStar_complete' (n := m) ht2 (noTriviaAhead_of_head (hhead.append r))
    (by simp only [List.length_append]; omega)
  simp only [objectFieldF, hw0, hf, hw1, chr, if_true, hw2, hty]


/-! ### the alternatives of `type_` -/

theorem typeF_of_btype {m : Nat} {s : Input} {x : Ty × Input} (hb : btypeF m (typeF m) s = some x) :
    typeF (m + 1) s = some x := by
  simp only [typeF, hb]

theorem typeF_array {m : Nat} {s' : Input} {t : Ty} {r : Input} (h : typeF m s' = some (t, r)) :
    typeF (m + 1) ('[' :: ']' :: s') = some (.array t, r) := by
  have hb : btypeF m (typeF m) ('[' :: ']' :: s') = none := btypeF_none_of_head _ (Or.inl rfl)
  have hl : lit ['[', ']'] ('[' :: ']' :: s') = some s' := by simp [lit]
  simp only [typeF, hb, hl, Option.bind_some, h]

theorem typeF_dict {m : Nat} {s' : Input} {t : Ty} {r : Input} (h : typeF m s' = some (t, r)) :
    typeF (m + 1) (['[', 's', 't', 'r', 'i', 'n', 'g', ']'] ++ s') = some (.dict t, r) := by
  have hb : btypeF m (typeF m) (['[', 's', 't', 'r', 'i', 'n', 'g', ']'] ++ s') = none :=
    btypeF_none_of_head _ (Or.inl rfl)
  have hl1 : lit ['[', ']'] (['[', 's', 't', 'r', 'i', 'n', 'g', ']'] ++ s') = none := by simp [lit]
  have hl2 : lit ['[', 's', 't', 'r', 'i', 'n', 'g', ']'] (['[', 's', 't', 'r', 'i', 'n', 'g', ']'] ++ s') = some s' :=
    lit_append _ _
  simp only [typeF, hb, hl1, hl2, Option.bind_some, Option.bind_none, h]

theorem typeF_option_btype {m : Nat} {s' : Input} {t : Ty} {r : Input} (h : btypeF m (typeF m) s' = some (t, r)) :
    typeF (m + 1) ('?' :: s') = some (.option t, r) := by
  have hb : btypeF m (typeF m) ('?' :: s') = none := btypeF_none_of_head _ (Or.inr rfl)
  have hl1 : lit ['[', ']'] ('?' :: s') = none := by simp [lit]
  have hl2 : lit ['[', 's', 't', 'r', 'i', 'n', 'g', ']'] ('?' :: s') = none := by simp [lit]
  have hl3 : lit ['?'] ('?' :: s') = some s' := by simp [lit]
  simp only [typeF, hb, hl1, hl2, hl3, Option.bind_some, Option.bind_none, h]

theorem typeF_option_array {m : Nat} {s' : Input} {t : Ty} {r : Input} (h : typeF m s' = some (t, r)) :
    typeF (m + 1) ('?' :: '[' :: ']' :: s') = some (.option (.array t), r) := by
  have hb : btypeF m (typeF m) ('?' :: '[' :: ']' :: s') = none := btypeF_none_of_head _ (Or.inr rfl)
  have hb2 : btypeF m (typeF m) ('[' :: ']' :: s') = none := btypeF_none_of_head _ (Or.inl rfl)
  have hl1 : lit ['[', ']'] ('?' :: '[' :: ']' :: s') = none := by simp [lit]
  have hl2 : lit ['[', 's', 't', 'r', 'i', 'n', 'g', ']'] ('?' :: '[' :: ']' :: s') = none := by simp [lit]
  have hl3 : lit ['?'] ('?' :: '[' :: ']' :: s') = some ('[' :: ']' :: s') := by simp [lit]
  have hl4 : lit ['[', ']'] ('[' :: ']' :: s') = some s' := by simp [lit]
  simp only [typeF, hb, hl1, hl2, hl3, Option.bind_some, Option.bind_none, hb2, hl4, h]

theorem typeF_option_dict {m : Nat} {s' : Input} {t : Ty} {r : Input} (h : typeF m s' = some (t, r)) :
    typeF (m + 1) ('?' :: (['[', 's', 't', 'r', 'i', 'n', 'g', ']'] ++ s')) = some (.option (.dict t), r) := by
  have hb : btypeF m (typeF m) ('?' :: (['[', 's', 't', 'r', 'i', 'n', 'g', ']'] ++ s')) = none :=
    btypeF_none_of_head _ (Or.inr rfl)
  have hb2 : btypeF m (typeF m) (['[', 's', 't', 'r', 'i', 'n', 'g', ']'] ++ s') = none :=
    btypeF_none_of_head _ (Or.inl rfl)
  have hl1 : lit ['[', ']'] ('?' :: (['[', 's', 't', 'r', 'i', 'n', 'g', ']'] ++ s')) = none := by simp [lit]
  have hl2 : lit ['[', 's', 't', 'r', 'i', 'n', 'g', ']'] ('?' :: (['[', 's', 't', 'r', 'i', 'n', 'g', ']'] ++ s')) = none := by
    simp [lit]
  have hl3 : lit ['?'] ('?' :: (['[', 's', 't', 'r', 'i', 'n', 'g', ']'] ++ s')) =
      some (['[', 's', 't', 'r', 'i', 'n', 'g', ']'] ++ s') := by simp [lit]
  have hl4 : lit ['[', ']'] (['[', 's', 't', 'r', 'i', 'n', 'g', ']'] ++ s') = none := by simp [lit]
  have hl5 : lit ['[', 's', 't', 'r', 'i', 'n', 'g', ']'] (['[', 's', 't', 'r', 'i', 'n', 'g', ']'] ++ s') = some s' :=
    lit_append _ _
  simp only [typeF, hb, hl1, hl2, hl3, Option.bind_some, Option.bind_none, hb2, hl4, hl5, h]

/-- the kinds parsed by `btype` -/
def BKind : Ty → Prop
  | .array _ => False
  | .dict _ => False
  | .option _ => False
  | _ => True

theorem restText_head : ∀ {fs : Fields} {w : Str}, RestText fs w → ∀ {tail : Str},
    (tail = [] ∨ HeadIs StopList tail) → (w ++ tail = [] ∨ HeadIs WordEnd (w ++ tail))
  | .nil, w, h, tail, ht => by
    simp only [RestText] at h; subst h
    rcases ht with rfl | ⟨c, s', rfl, hc, _⟩
    · exact Or.inl rfl
    · exact Or.inr ⟨c, s', rfl, hc⟩
  | .cons n t rest, w, h, tail, _ => by
    simp only [RestText] at h
    obtain ⟨w1, w2, rfl, _, _⟩ := h
    exact Or.inr ⟨',', w1 ++ w2 ++ tail, by simp, wordEnd_comma⟩

theorem stop_after_fields {t1 : Str} (ht1 : Trivia t1) (r : Input) :
    (t1 ++ (')' :: r) = [] ∨ HeadIs StopList (t1 ++ (')' :: r))) := by
  right
  apply head_trivia_append ht1 ⟨')', r, rfl, wordEnd_rparen, by decide⟩
  intro c hc
  refine ⟨wordEnd_of_trivia_char hc, ?_⟩
  intro e; subst e
  rcases hc with h | h | h
  · revert h; decide
  · revert h; decide
  · revert h; decide

end VV.Idl
