/-
Lemmas.IdlLayoutTypes — what the formatter prints for a well-formed type is a text the
declarative grammar derives for that type (one-line and multi-line layouts, all widths).
-/
import VarlinkVerif.Model.Idl.Gram
import VarlinkVerif.Model.IdlFormat

namespace VV.Idl
open Gram Fmt

mutual
/-- what the parser can return: valid names, no empty enum, no option of an option -/
def WFTy : Ty → Prop
  | .typename n => Spec.isTypeName n = true
  | .struct fs => WFFields fs
  | .enum es => es ≠ [] ∧ ∀ e ∈ es, Spec.isFieldName e = true
  | .array t => WFTy t
  | .dict t => WFTy t
  | .option t => WFTy t ∧ NotOption t
  | _ => True
def WFFields : Fields → Prop
  | .nil => True
  | .cons n t r => Spec.isFieldName n = true ∧ WFTy t ∧ WFFields r
end

theorem trivia_pad (n : Nat) : Trivia (pad n) := by
  induction n with
  | zero => exact Trivia.nil
  | succ n ih =>
    have : pad (n + 1) = ' ' :: pad n := by simp [pad, List.replicate_succ]
    rw [this]
    exact Trivia.space (by decide) ih

theorem trivia_nl_pad (n : Nat) : Trivia ('\n' :: pad n) := Trivia.newline (by decide) (trivia_pad n)

theorem trivia_space : Trivia [' '] := Trivia.space (by decide) Trivia.nil

/-! ### enums -/

/-- items separated by `',' sep` -/
def joinItems (sep : Str) : List Str → Str
  | [] => []
  | [x] => x
  | x :: y :: r => x ++ ',' :: sep ++ joinItems sep (y :: r)

theorem enumItems_join {sep : Str} (hsep : Trivia sep) : ∀ (es : List Str), es ≠ [] →
    (∀ e ∈ es, Spec.isFieldName e = true) → EnumItems es (joinItems sep es)
  | [], h, _ => absurd rfl h
  | [x], _, h => by simp only [EnumItems, joinItems]; exact ⟨trivial, h x (by simp)⟩
  | x :: y :: r, _, h => by
    simp only [EnumItems, joinItems]
    exact ⟨sep, joinItems sep (y :: r), rfl, h x (by simp), hsep,
      enumItems_join hsep (y :: r) (by simp) (fun e he => h e (by simp [he]))⟩

theorem commaSep_eq_join : ∀ (es : List Str), commaSep es = joinItems [' '] es
  | [] => rfl
  | [x] => rfl
  | x :: y :: r => by simp only [commaSep, joinItems, commaSep_eq_join (y :: r)]; simp

theorem commaNl_pad_eq_join (k : Nat) : ∀ (es : List Str), es ≠ [] →
    commaNl (es.map fun e => pad k ++ e) = pad k ++ joinItems ('\n' :: pad k) es
  | [], h => absurd rfl h
  | [x], _ => by simp [commaNl, joinItems]
  | x :: y :: r, _ => by
    have := commaNl_pad_eq_join k (y :: r) (by simp)
    simp only [List.map_cons] at this
    simp only [List.map_cons, commaNl, joinItems, this]
    simp

theorem enumText_oneline {es : List Str} (hne : es ≠ []) (h : ∀ e ∈ es, Spec.isFieldName e = true) :
    EnumText es (enumOneline es) := by
  refine ⟨[], commaSep es, [], ?_, Trivia.nil, ?_, Trivia.nil⟩
  · simp [enumOneline]
  · rw [commaSep_eq_join]; exact enumItems_join trivia_space es hne h

theorem enumText_multiline {es : List Str} (hne : es ≠ []) (h : ∀ e ∈ es, Spec.isFieldName e = true) (ind : Nat) :
    EnumText es (enumMultiline es ind) := by
  refine ⟨'\n' :: pad (ind + 2), joinItems ('\n' :: pad (ind + 2)) es, '\n' :: pad ind, ?_, trivia_nl_pad _, ?_, trivia_nl_pad _⟩
  · simp only [enumMultiline, commaNl_pad_eq_join _ es hne]
    simp
  · exact enumItems_join (trivia_nl_pad _) es hne h

/-! ### structs and types -/

/-- the text of one field without leading trivia: `name ": " type-text` -/
def fieldCore (n wt : Str) : Str := n ++ ':' :: ' ' :: wt

theorem fieldText_core {n : Str} {t : Ty} {wt lead : Str} (hn : Spec.isFieldName n = true) (hl : Trivia lead)
    (ht : TypeText t wt) : FieldText n t (lead ++ fieldCore n wt) := by
  rw [FieldText]
  exact ⟨lead, [], [' '], wt, by simp [fieldCore], hl, hn, Trivia.nil, trivia_space, ht⟩

/-- `(',' sep core)*` -/
def restCores (sep : Str) : List Str → Str
  | [] => []
  | x :: r => ',' :: sep ++ x ++ restCores sep r

theorem commaSep_cons_rest (x : Str) (xs : List Str) : commaSep (x :: xs) = x ++ restCores [' '] xs := by
  induction xs generalizing x with
  | nil => simp [commaSep, restCores]
  | cons y r ih => simp only [commaSep, restCores, ih y]; simp

theorem commaNl_cons_rest (k : Nat) (x : Str) (xs : List Str) :
    commaNl ((pad k ++ x) :: xs.map fun e => pad k ++ e) = pad k ++ x ++ restCores ('\n' :: pad k) xs := by
  induction xs generalizing x with
  | nil => simp [commaNl, restCores]
  | cons y r ih =>
    simp only [List.map_cons, commaNl, restCores, ih y]
    simp

/-- the cores of the fields of a struct in some layout: every core is `name ": " text` with a
    text the grammar derives for the field's type -/
inductive Cores : Fields → List Str → Prop
  | nil : Cores .nil []
  | cons {n : Str} {t : Ty} {wt : Str} {r : Fields} {cs : List Str} : Spec.isFieldName n = true → TypeText t wt →
      Cores r cs → Cores (.cons n t r) (fieldCore n wt :: cs)

theorem restText_cores {sep : Str} (hsep : Trivia sep) : ∀ {fs : Fields} {cs : List Str}, Cores fs cs →
    RestText fs (restCores sep cs) := by
  intro fs cs h
  induction h with
  | nil => simp [RestText, restCores]
  | @cons n t wt r cs hn ht _ ih =>
    rw [RestText]
    exact ⟨sep ++ fieldCore n wt, restCores sep cs, by simp [restCores], fieldText_core hn hsep ht, ih⟩

/-- a struct text from cores: `'(' lead core (',' sep core)* trail ')'`; without fields `'(' trail ')'` -/
theorem structText_cores {lead sep trail : Str} (hl : Trivia lead) (hsep : Trivia sep) (htr : Trivia trail) :
    ∀ {fs : Fields} {cs : List Str}, Cores fs cs →
    TypeText (.struct fs) ('(' :: (match cs with | [] => [] | c :: r => lead ++ c ++ restCores sep r) ++ trail ++ [')']) := by
  intro fs cs h
  cases h with
  | nil =>
    rw [TypeText]
    exact ⟨[], trail, by simp, by simp [FieldsText], htr⟩
  | @cons n t wt r cs hn ht hr =>
    rw [TypeText]
    refine ⟨lead ++ fieldCore n wt ++ restCores sep cs, trail, by simp, ?_, htr⟩
    rw [FieldsText]
    exact ⟨lead ++ fieldCore n wt, restCores sep cs, rfl, fieldText_core hn hl ht, restText_cores hsep hr⟩


theorem structText_oneline_of_cores {fs : Fields} {cs : List Str} (h : Cores fs cs) :
    TypeText (.struct fs) ('(' :: commaSep cs ++ [')']) := by
  have := structText_cores (lead := []) (sep := [' ']) (trail := []) Trivia.nil trivia_space Trivia.nil h
  cases cs with
  | nil => simpa [commaSep] using this
  | cons c r => rw [commaSep_cons_rest]; simpa using this

mutual
theorem typeText_oneline : ∀ (t : Ty), WFTy t → TypeText t (tyOneline t)
  | .bool, _ => by simp [TypeText, tyOneline]
  | .int, _ => by simp [TypeText, tyOneline]
  | .float, _ => by simp [TypeText, tyOneline]
  | .string, _ => by simp [TypeText, tyOneline]
  | .object, _ => by simp [TypeText, tyOneline]
  | .typename n, h => by rw [WFTy] at h; simp [TypeText, tyOneline, h]
  | .struct fs, h => by
    rw [WFTy] at h
    rw [tyOneline]
    exact structText_oneline_of_cores (cores_oneline fs h)
  | .enum es, h => by
    rw [WFTy] at h
    rw [TypeText, tyOneline]
    exact enumText_oneline h.1 h.2
  | .array t, h => by
    rw [WFTy] at h
    rw [TypeText, tyOneline]
    exact ⟨tyOneline t, rfl, typeText_oneline t h⟩
  | .dict t, h => by
    rw [WFTy] at h
    rw [TypeText, tyOneline]
    exact ⟨tyOneline t, rfl, typeText_oneline t h⟩
  | .option t, h => by
    rw [WFTy] at h
    rw [TypeText, tyOneline]
    exact ⟨tyOneline t, rfl, typeText_oneline t h.1, h.2⟩
theorem cores_oneline : ∀ (fs : Fields), WFFields fs → Cores fs (fieldsOneline fs)
  | .nil, _ => by rw [fieldsOneline]; exact Cores.nil
  | .cons n t r, h => by
    rw [WFFields] at h
    rw [fieldsOneline]
    exact Cores.cons h.1 (typeText_oneline t h.2.1) (cores_oneline r h.2.2)
end

/-- the cores of `VStruct::get_multiline`'s elements -/
def coresMulti : Fields → Nat → Nat → List Str
  | .nil, _, _ => []
  | .cons n t r, k, max =>
    (if (n ++ ':' :: ' ' :: tyOneline t).length + k < max then fieldCore n (tyOneline t)
      else fieldCore n (tyMultiline t k max)) :: coresMulti r k max

theorem fieldsMultiline_eq : ∀ (fs : Fields) (k max : Nat),
    fieldsMultiline fs k max = (coresMulti fs k max).map fun c => pad k ++ c
  | .nil, _, _ => by simp [fieldsMultiline, coresMulti]
  | .cons n t r, k, max => by
    rw [fieldsMultiline, coresMulti, List.map_cons, fieldsMultiline_eq r k max]
    congr 1
    split <;> rfl

theorem structText_multiline_of_cores {fs : Fields} {cs : List Str} (h : Cores fs cs) (ind : Nat) :
    TypeText (.struct fs)
      ('(' :: '\n' :: commaNl (cs.map fun c => pad (ind + 2) ++ c) ++ '\n' :: pad ind ++ [')']) := by
  cases cs with
  | nil =>
    have := structText_cores (lead := []) (sep := []) (trail := '\n' :: '\n' :: pad ind) Trivia.nil Trivia.nil
      (Trivia.newline (by decide) (trivia_nl_pad ind)) h
    simpa [commaNl] using this
  | cons c r =>
    have := structText_cores (lead := '\n' :: pad (ind + 2)) (sep := '\n' :: pad (ind + 2)) (trail := '\n' :: pad ind)
      (trivia_nl_pad _) (trivia_nl_pad _) (trivia_nl_pad _) h
    rw [List.map_cons, commaNl_cons_rest]
    simpa using this

mutual
theorem typeText_multiline : ∀ (t : Ty), WFTy t → ∀ (ind max : Nat), TypeText t (tyMultiline t ind max)
  | .bool, _, _, _ => by simp [TypeText, tyMultiline]
  | .int, _, _, _ => by simp [TypeText, tyMultiline]
  | .float, _, _, _ => by simp [TypeText, tyMultiline]
  | .string, _, _, _ => by simp [TypeText, tyMultiline]
  | .object, _, _, _ => by simp [TypeText, tyMultiline]
  | .typename n, h, _, _ => by rw [WFTy] at h; simp [TypeText, tyMultiline, h]
  | .struct fs, h, ind, max => by
    rw [WFTy] at h
    rw [tyMultiline, fieldsMultiline_eq]
    exact structText_multiline_of_cores (cores_multi fs h (ind + 2) max) ind
  | .enum es, h, ind, _ => by
    rw [WFTy] at h
    rw [TypeText, tyMultiline]
    exact enumText_multiline h.1 h.2 ind
  | .array t, h, ind, max => by
    rw [WFTy] at h
    rw [TypeText, tyMultiline]
    exact ⟨tyMultiline t ind max, rfl, typeText_multiline t h ind max⟩
  | .dict t, h, ind, max => by
    rw [WFTy] at h
    rw [TypeText, tyMultiline]
    exact ⟨tyMultiline t ind max, rfl, typeText_multiline t h ind max⟩
  | .option t, h, ind, max => by
    rw [WFTy] at h
    rw [TypeText, tyMultiline]
    exact ⟨tyMultiline t ind max, rfl, typeText_multiline t h.1 ind max, h.2⟩
theorem cores_multi : ∀ (fs : Fields), WFFields fs → ∀ (k max : Nat), Cores fs (coresMulti fs k max)
  | .nil, _, _, _ => by rw [coresMulti]; exact Cores.nil
  | .cons n t r, h, k, max => by
    rw [WFFields] at h
    rw [coresMulti]
    split
    · exact Cores.cons h.1 (typeText_oneline t h.2.1) (cores_multi r h.2.2 k max)
    · exact Cores.cons h.1 (typeText_multiline t h.2.1 k max) (cores_multi r h.2.2 k max)
end

theorem structText_oneline {fs : Fields} (h : WFFields fs) : StructText fs (structOneline fs) := by
  have := typeText_oneline (.struct fs) (by rw [WFTy]; exact h)
  simpa [StructText, tyOneline, structOneline] using this

theorem structText_multiline {fs : Fields} (h : WFFields fs) (ind max : Nat) :
    StructText fs (structMultiline fs ind max) := by
  have := typeText_multiline (.struct fs) (by rw [WFTy]; exact h) ind max
  simpa [StructText, tyMultiline, structMultiline] using this

end VV.Idl
