/-
Lemmas.GenLoop — the client/server loop of the generated bindings in the model: the top-level
round trip, what the dispatch hands to the implementation, what the client makes of replies and
errors, and the end-to-end statement that the model's prediction of a whole call satisfies the
property predicate P_C08.
-/
import VarlinkVerif.Lemmas.Gen
import VarlinkVerif.Lemmas.GenPred

namespace VV
namespace Gen

theorem roundtrip_top (env : Env) (fs : List (String × Ty)) (kvs : List (String × Val))
    (h : wellTyped env (.struct fs) (.record kvs) = true) :
    decodeStruct env fs (encodeTop (.record kvs)) = some (.record kvs) := by
  have hc : wtCore env (.struct fs) (.record kvs) = true := by simpa [wellTyped, wtElem] using h
  obtain ⟨fs', hr, hn, hf⟩ := wtCore_record hc
  have hfs : fs' = fs := by simpa [resolve] using hr.symm
  subst hfs
  have hmem : ∀ k v, (k, v) ∈ dropNone kvs → ∃ ft, lookupTy k fs' = some ft ∧ wtElem env ft v = true :=
    fun k v hm => lookupTy_of_wtFields hf hn k v (List.mem_filter.mp hm).1
  have e1 := rt_members env (dropNone kvs) fs' hmem
  have e2 := assemble_of_ok (asmOk_top hf hn)
  unfold decodeStruct decodeCore
  simp [encodeTop, encodeTopKV_eq, resolve, e1, e2]

theorem server_sees_sent (i : IDL) (m : Method) (mode : Mode) (kvs : List (String × Val))
    (hm : m ∈ i.methods) (hd : (i.methods.map (·.name)).Nodup)
    (h : wellTyped i.env (.struct m.input) (.record kvs) = true) :
    dispatch i (methodName i.name m.name)
      (nonNull ((requestOf i.name m.name (.record kvs) mode).get? "parameters")) = .invoke m (.record kvs) := by
  rw [request_parameters, encodeTop_nonNull]
  unfold dispatch
  rw [findMethod_of_mem i m hm hd]
  by_cases he : m.input.isEmpty = true
  · have hin : m.input = [] := List.isEmpty_iff.mp he
    have hc : wtCore i.env (.struct m.input) (.record kvs) = true := by simpa [wellTyped, wtElem] using h
    obtain ⟨fs', hr, _, hf⟩ := wtCore_record hc
    have hfs : fs' = [] := by rw [hin] at hr; simpa [resolve] using hr.symm
    subst hfs
    cases kvs <;> simp_all [wtFields]
  · simp only [Bool.not_eq_true] at he
    simp [he, roundtrip_top i.env m.input kvs h]

theorem reply_arrives (i : IDL) (m : Method) (c : Bool) (kvs : List (String × Val))
    (h : wellTyped i.env (.struct m.output) (.record kvs) = true) :
    ∃ v, clientOutcome i m (replyOf m c (.record kvs)) = .ok v ∧ v = .record kvs := by
  refine ⟨.record kvs, ?_, rfl⟩
  by_cases he : m.output.isEmpty = true
  · have hout : m.output = [] := List.isEmpty_iff.mp he
    have hc : wtCore i.env (.struct m.output) (.record kvs) = true := by simpa [wellTyped, wtElem] using h
    obtain ⟨fs', hr, _, hf⟩ := wtCore_record hc
    have hfs : fs' = [] := by rw [hout] at hr; simpa [resolve] using hr.symm
    subst hfs
    have hk : kvs = [] := by cases kvs <;> simp_all [wtFields]
    subst hk
    cases c <;>
      simp [clientOutcome, replyOf, he, hout, Json.get?, Json.lookup, nonNull, decodeStruct, decodeCore, resolve,
            decodeMembers, assemble]
  · simp only [Bool.not_eq_true] at he
    have rt : decodeStruct i.env m.output (.obj (encodeTopKV kvs)) = some (.record kvs) :=
      roundtrip_top i.env m.output kvs h
    cases c <;> simp [clientOutcome, replyOf, he, Json.get?, Json.lookup, nonNull, encodeTop, rt]

theorem error_arrives (i : IDL) (m : Method) (e : ErrorDef) (kvs : List (String × Val))
    (hfind : i.errors.find? (fun e' => methodName i.name e'.name == methodName i.name e.name) = some e)
    (hsvc : isServiceError (methodName i.name e.name) = false)
    (h : wellTyped i.env (.struct e.parm) (.record kvs) = true) :
    clientOutcome i m (errorReplyOf i.name e false (.record kvs)) =
      .err e.name (if e.parm.isEmpty then none else some (.record kvs)) := by
  simp only [isServiceError, Bool.or_eq_false_iff] at hsvc
  obtain ⟨⟨⟨h1, h2⟩, h3⟩, h4⟩ := hsvc
  by_cases he : e.parm.isEmpty = true
  · simp [clientOutcome, errorReplyOf, he, Json.get?, Json.lookup, nonNull, h1, h2, h3, h4, hfind]
  · simp only [Bool.not_eq_true] at he
    have rt : decodeStruct i.env e.parm (.obj (encodeTopKV kvs)) = some (.record kvs) :=
      roundtrip_top i.env e.parm kvs h
    simp [clientOutcome, errorReplyOf, he, Json.get?, Json.lookup, nonNull, encodeTop, h1, h2, h3, h4, hfind, rt]

/-! ### the whole call, end to end -/

theorem val_beq_self (v : Val) : (v == v) = true := Val.beq_refl v

theorem json_beq_self (j : Json) : (j == j) = true := Json.beq_refl j

theorem opt_json_bne_self (j : Json) : (some j != some j) = false := by
  simp [bne, json_beq_self]

theorem record_of_wellTyped {env : Env} {fs : List (String × Ty)} {v : Val}
    (h : wellTyped env (.struct fs) v = true) : ∃ kvs, v = .record kvs := by
  have hc : wtCore env (.struct fs) v = true := by simpa [wellTyped, wtElem] using h
  cases v with
  | record kvs => exact ⟨kvs, rfl⟩
  | none => exact (wtCore_none hc).elim
  | some y => exact (wtCore_some hc).elim
  | bool b => have := wtCore_bool hc; simp [resolve] at this
  | int n => have := (wtCore_int hc).1; simp [resolve] at this
  | flt b => have := (wtCore_flt hc).1; simp [resolve] at this
  | str s => have := wtCore_str hc; simp [resolve] at this
  | json j => have := wtCore_json hc; simp [resolve] at this
  | enum s => obtain ⟨vs, h', _⟩ := wtCore_enum hc; simp [resolve] at h'
  | arr l => obtain ⟨te, h', _⟩ := wtCore_arr hc; simp [resolve] at h'
  | map l => obtain ⟨te, h', _⟩ := wtCore_map hc; simp [resolve] at h'
  | set l => have := (wtCore_set hc).1; simp [resolve] at this

/-- error names are distinct and none of them is one of the four `org.varlink.service` errors -/
def ErrorsOk (i : IDL) : Prop :=
  (i.errors.map (·.name)).Nodup ∧ ∀ e ∈ i.errors, isServiceError (methodName i.name e.name) = false

theorem find_error_aux (iface : String) : ∀ (es : List ErrorDef) (e : ErrorDef), e ∈ es →
    (es.map (·.name)).Nodup →
    es.find? (fun x => methodName iface x.name == methodName iface e.name) = some e
  | [], _, hm, _ => by simp at hm
  | x :: xs, e, hm, hd => by
    simp only [List.map_cons, List.nodup_cons] at hd
    by_cases hx : x = e
    · subst hx; simp [List.find?]
    · have hmx : e ∈ xs := by
        rcases List.mem_cons.mp hm with h | h
        · exact absurd h.symm hx
        · exact h
      have hne : (methodName iface x.name == methodName iface e.name) = false := by
        have : x.name ≠ e.name := fun eq => hd.1 (by rw [eq]; exact List.mem_map.mpr ⟨e, hmx, rfl⟩)
        simp only [methodName, beq_eq_false_iff_ne, ne_eq]
        intro eq
        exact this ((String.append_right_inj _).mp eq)
      simp [List.find?, hne, find_error_aux iface xs e hmx hd.2]

theorem frame_ok (i : IDL) (m : Method) (a : Action) (hw : actionWellTyped i m a = true) :
    checkReplyFrame i m a (actionReply i m a) = none := by
  cases a with
  | reply c v =>
    obtain ⟨kvs, rfl⟩ := record_of_wellTyped (by simpa [actionWellTyped] using hw)
    have hw' : wellTyped i.env (.struct m.output) (.record kvs) = true := by simpa [actionWellTyped] using hw
    have hc : wtCore i.env (.struct m.output) (.record kvs) = true := by simpa [wellTyped, wtElem] using hw'
    obtain ⟨fs', _, hn, hf⟩ := wtCore_record hc
    have hs := shape_top i.env fs' kvs hn hf
    by_cases he : m.output.isEmpty = true
    · cases c <;>
        simp [checkReplyFrame, actionReply, replyOf, he, jBoolIs, Json.get?, Json.lookup, jlookup]
    · simp only [Bool.not_eq_true] at he
      cases c <;>
        simp [checkReplyFrame, actionReply, replyOf, he, jBoolIs, Json.get?, Json.lookup, jlookup, encodeTop, hs]
  | error en v =>
    simp only [actionWellTyped] at hw
    cases hfind : i.errors.find? (·.name == en) with
    | none => simp [hfind] at hw
    | some e =>
      simp only [hfind] at hw
      have hen : e.name = en := by
        have := List.find?_some hfind
        simpa using this
      obtain ⟨kvs, rfl⟩ := record_of_wellTyped hw
      have hc : wtCore i.env (.struct e.parm) (.record kvs) = true := by simpa [wellTyped, wtElem] using hw
      obtain ⟨fs', _, hn, hf⟩ := wtCore_record hc
      have hs := shape_top i.env fs' kvs hn hf
      by_cases he : e.parm.isEmpty = true
      · simp [checkReplyFrame, actionReply, errorReplyOf, hfind, he, hen, Json.lookup, jlookup, opt_json_bne_self]
      · simp only [Bool.not_eq_true] at he
        simp [checkReplyFrame, actionReply, errorReplyOf, hfind, he, hen, Json.lookup, jlookup, encodeTop, hs, opt_json_bne_self]

theorem frames_ok (i : IDL) (m : Method) : ∀ (script : List Action),
    script.all (actionWellTyped i m) = true → checkFrames i m script (script.map (actionReply i m)) = none
  | [], _ => rfl
  | a :: as, h => by
    simp only [List.all_cons, Bool.and_eq_true] at h
    simp [checkFrames, frame_ok i m a h.1, frames_ok i m as h.2]

theorem client_ok (i : IDL) (m : Method) (herr : ErrorsOk i) : ∀ (script : List Action),
    script.all (actionWellTyped i m) = true → checkClient script (script.map (clientObsOf i m)) = none
  | [], _ => rfl
  | a :: as, h => by
    simp only [List.all_cons, Bool.and_eq_true] at h
    have ih := client_ok i m herr as h.2
    cases a with
    | reply c v =>
      obtain ⟨kvs, rfl⟩ := record_of_wellTyped (by simpa [actionWellTyped] using h.1)
      have hw : wellTyped i.env (.struct m.output) (.record kvs) = true := by simpa [actionWellTyped] using h.1
      obtain ⟨v', hv', rfl⟩ := reply_arrives i m c kvs hw
      simp [checkClient, clientObsOf, actionReply, hv', val_beq_self, ih]
    | error en v =>
      have hw := h.1
      simp only [actionWellTyped] at hw
      cases hfind : i.errors.find? (·.name == en) with
      | none => simp [hfind] at hw
      | some e =>
        simp only [hfind] at hw
        have hen : e.name = en := by
          have := List.find?_some hfind
          simpa using this
        have hmem : e ∈ i.errors := List.mem_of_find?_eq_some hfind
        obtain ⟨kvs, rfl⟩ := record_of_wellTyped hw
        have hf2 := find_error_aux i.name i.errors e hmem herr.1
        have harr := error_arrives i m e kvs hf2 (herr.2 e hmem) hw
        by_cases he : e.parm.isEmpty = true
        · simp [checkClient, clientObsOf, actionReply, hfind, harr, he, hen, ih]
        · simp only [Bool.not_eq_true] at he
          simp [checkClient, clientObsOf, actionReply, hfind, harr, he, hen, val_beq_self, ih]

/-- **End to end.**  For every interface definition with distinct method and error names, every method
    of it, every call mode, every well-typed argument record and every script of well-typed replies /
    declared errors: what the model predicts for the whole exchange (request bytes, what the
    implementation saw, reply frames, what the client returned) satisfies the property predicate. -/
theorem loop_satisfies_P (i : IDL) (m : Method) (mode : Mode) (kvs : List (String × Val)) (script : List Action)
    (hm : m ∈ i.methods) (hd : (i.methods.map (·.name)).Nodup) (herr : ErrorsOk i)
    (hargs : wellTyped i.env (.struct m.input) (.record kvs) = true)
    (hscript : script.all (actionWellTyped i m) = true) :
    P_C08_call i m mode (.record kvs) script (predictCall i m mode (.record kvs) script) = none := by
  have hdisp := server_sees_sent i m mode kvs hm hd hargs
  have hc : wtCore i.env (.struct m.input) (.record kvs) = true := by simpa [wellTyped, wtElem] using hargs
  obtain ⟨fs', _, hn, hf⟩ := wtCore_record hc
  have hs := shape_top i.env fs' kvs hn hf
  have hfr := frames_ok i m script hscript
  have hcl := client_ok i m herr script hscript
  unfold predictCall
  simp only [hdisp]
  cases mode <;>
    simp [P_C08_call, requestOf, jlookup, Json.lookup, jBoolIs, Json.get?, encodeTop, hargs, hs, hscript,
      val_beq_self, hfr, hcl, opt_json_bne_self]

end Gen
end VV
