/-
Model.Client — the client side of /repo/varlink/src/lib.rs:

* `From<Reply> for ErrorKind`                          (lib.rs 299-353)  → `kindOf`
* `Connection { reader, writer }` slots                 (lib.rs 834-842)  → `Conn`
* `MethodCall { method, request, reader, writer, continues }` (1007-1021) → `MCall`
* `MethodCall::{send, call, upgrade, oneway, more, recv}` and
  `Iterator::next`                                      (1023-1174)

The stream is one object that moves between the connection and a call: the
model keeps *presence flags* for the two halves and one global `Wire`
(request log seen by the peer + frames travelling back).  That at most one
place holds the reader at any time is a theorem (Props/C07), not built in.

The peer is a parameter (`Peer`): given the requests it has seen and the new
one it says which frames it sends back and whether it then closes.  What the
JSON decoder says about a frame is part of the frame (`reply r` / `garbage`),
delivered per case by the real serde_json in the correspondence run.

Threads: `GState` holds the shared connection, the wire, a table of call
objects and one operation list per thread; `stepThread` lets thread `t`
perform its next atomic step.  `send` is one step (it runs entirely under the
connection's write lock), `call`/`upgrade` are `send` followed — as a separate
step — by `recv`, and `recv` is a blocking read on the call's own reader
followed by the restore of the slots (enabled only when a frame or EOF is
available).
-/
import VarlinkVerif.Model.Wire

namespace VV
namespace Client

/-! ### error kinds and the reply → kind mapping -/

inductive EKind where
  | io                                   -- `ErrorKind::Io(_)`
  | connectionClosed
  | badJson                              -- `SerdeJsonSer(_)`: a reply that is not JSON / does not decode, or a request that does not serialize
  | interfaceNotFound (s : String)
  | invalidParameter (s : String)
  | methodNotFound (s : String)
  | methodNotImplemented (s : String)
  | errorReply (r : Reply)               -- `VarlinkErrorReply(reply)`
  | methodCalledAlready
  | connectionBusy
  | iteratorOldReply
deriving Repr, DecidableEq, Inhabited

/-- serde's derived `Deserialize` for `struct { <member>: Option<String> }`
    applied to a `Value`, followed by `unwrap_or_default()`; every decoding
    error becomes the empty string (lib.rs 308-311).  An object is searched for
    the member (absent / null → `None` → ""), an array is accepted when it has
    exactly one element. -/
def paramString (member : String) : Option Json → String
  | some (.obj l) =>
    match Json.lookup member l with
    | some (.str s) => s
    | _ => ""
  | some (.arr [.str s]) => s
  | _ => ""

/-- `impl From<Reply> for ErrorKind` -/
def kindOf (r : Reply) : EKind :=
  if r.error = some sInterfaceNotFound then .interfaceNotFound (paramString "interface" r.parameters)
  else if r.error = some sInvalidParameter then .invalidParameter (paramString "parameter" r.parameters)
  else if r.error = some sMethodNotFound then .methodNotFound (paramString "method" r.parameters)
  else if r.error = some sMethodNotImplemented then .methodNotImplemented (paramString "method" r.parameters)
  else .errorReply r

/-! ### connection, call object, wire -/

structure Conn where
  reader : Bool := true
  writer : Bool := true
deriving Repr, DecidableEq, Inhabited

structure MCall where
  method : Option String
  request : Option Json
  reader : Bool := false
  writer : Bool := false
  continues : Bool := false
  /-- `serde_json::to_value(request)` fails (the request type's `Serialize` returns an error,
      e.g. a map with non-string keys): a parameter of the call object -/
  unser : Bool := false
deriving Repr, DecidableEq, Inhabited

/-- `MethodCall::new` -/
def MCall.new (method : String) (params : Json) : MCall :=
  { method := some method, request := some params }

/-- what one `read_until(0)` + `from_slice::<Reply>` on the stream produces -/
inductive Msg where
  | reply (r : Reply)
  | garbage                       -- a message serde_json rejects
  | ioerr (asClosed : Bool)       -- the read fails; BrokenPipe/ConnectionReset/-Aborted map to ConnectionClosed
deriving Repr, DecidableEq, Inhabited

structure Wire where
  log : List Request := []        -- requests the peer has received, in order
  queue : List Msg := []        -- frames on their way back, oldest first
  closed : Bool := false          -- the peer has shut down its sending side: an empty queue reads as EOF
  wbudget : Option Nat := none    -- number of writes that still succeed (`none`: all)
deriving Repr, DecidableEq, Inhabited

/-- the peer: requests seen so far → new request → frames sent back, closes afterwards? -/
abbrev Peer := List Request → Request → List Msg × Bool

def Wire.canWrite (w : Wire) : Bool :=
  match w.wbudget with
  | none => true
  | some n => n != 0

/-- the peer receives a request -/
def Wire.accept (p : Peer) (w : Wire) (rq : Request) : Wire :=
  let fs := if w.closed then [] else (p w.log rq).1
  { log := w.log ++ [rq],
    queue := w.queue ++ fs,
    closed := w.closed || (p w.log rq).2,
    wbudget := w.wbudget.map (· - 1) }

/-- outcome of one operation as the caller sees it -/
inductive Res where
  | ok (p : Json)         -- `Ok(value)` (also `Some(Ok(value))` of `next`)
  | unit                  -- `Ok(())` of `oneway`, `Ok(self)` of `more`
  | err (k : EKind)
  | none                  -- `Iterator::next` returned `None`
  | noobj                 -- the operation named a call object that does not exist
deriving Repr, DecidableEq, Inhabited

/-- connection + one call object + wire: everything a `MethodCall` method touches -/
structure CS where
  conn : Conn
  call : MCall
  wire : Wire
deriving Repr, DecidableEq, Inhabited

/-- the request `send` puts on the wire -/
def mkRequest (method : String) (params : Json) (oneway more upgrade : Bool) : Request :=
  { method := method, parameters := some params,
    oneway := if oneway then some true else none,
    more := if more then some true else none,
    upgrade := if upgrade then some true else none }

/-- `MethodCall::send` (lib.rs 1062-1106), step by step:
    take method and request; refuse when they are gone; serialize the request
    (`to_value(request)?`: on failure return `SerdeJsonSer` — the call object is
    spent, the connection has not been looked at yet); refuse when the
    connection's slots are not both present (the call object stays spent);
    move the reader unless oneway; take the writer; write; put the writer back
    into the connection (oneway) or into the call.  `none` = `Ok(())`. -/
def send (p : Peer) (oneway more upgrade : Bool) (s : CS) : Option EKind × CS :=
  let spent : MCall := { s.call with method := none, request := none }
  match s.call.method, s.call.request with
  | some meth, some params =>
    if s.call.unser then (some .badJson, { s with call := spent })
    else if !s.conn.reader || !s.conn.writer then
      (some .connectionBusy, { s with call := spent })
    else
      let rq := mkRequest meth params oneway more upgrade
      -- `self.reader = conn.reader.take()` unless oneway
      let conn1 : Conn := if oneway then s.conn else { s.conn with reader := false }
      let call1 : MCall := if oneway then spent else { spent with reader := s.conn.reader }
      -- `conn.writer.take().unwrap()`
      let conn2 : Conn := { conn1 with writer := false }
      if s.wire.canWrite then
        let wire' := s.wire.accept p rq
        if oneway then (none, { conn := { conn2 with writer := true }, call := call1, wire := wire' })
        else (none, { conn := conn2, call := { call1 with writer := true }, wire := wire' })
      else
        -- `write_all` / `flush` failed: the writer is dropped
        (some .io, { conn := conn2, call := call1, wire := s.wire })
  | _, _ => (some .methodCalledAlready, { s with call := spent })

/-- the typed decode `serde_json::from_value::<MReply>(parameters)` of the
    call's reply type: a parameter of the model (`none`: the value does not
    decode into `MReply`); the result is the typed value rendered as JSON.
    For `MReply = Value` it is `some`. -/
abbrev Decoder := Json → Option Json

def decValue : Decoder := some

/-- what `recv` hands to the caller for a decoded reply envelope
    (lib.rs 1152-1172): an `error` member wins; otherwise the parameters
    (absent: `{}`) go through the typed decode, whose failure is an error of
    its own (`SerdeJsonSer(Data)`).  This is computed *after* `continues` and
    the slots have been settled (see `recv`). -/
def replyRes (dec : Decoder) (r : Reply) : Res :=
  if r.error.isSome then .err (kindOf r)
  else match dec (r.parameters.getD (.obj [])) with
    | some v => .ok v
    | none => .err .badJson

/-- `MethodCall::recv` (lib.rs 1128-1173).  `none`: the read blocks. -/
def recv (dec : Decoder) (s : CS) : Option (Res × CS) :=
  if !s.call.reader || !s.call.writer then some (.err .iteratorOldReply, s)
  else match s.wire.queue with
    | [] => if s.wire.closed then some (.err .connectionClosed, s) else none
    | .ioerr asClosed :: q =>
      -- `read_until(..)?` returns before the reader is put back
      some (.err (if asClosed then .connectionClosed else .io),
            { s with call := { s.call with reader := false }, wire := { s.wire with queue := q } })
    | .garbage :: q =>
      some (.err .badJson, { s with wire := { s.wire with queue := q } })
    | .reply r :: q =>
      -- `continues` and the slots are settled right after the envelope is parsed,
      -- before the payload is looked at: the typed decode cannot keep the stream
      let wire' := { s.wire with queue := q }
      if r.continues = some true then
        some (replyRes dec r, { s with call := { s.call with continues := true }, wire := wire' })
      else
        some (replyRes dec r,
              { conn := { reader := s.call.reader, writer := s.call.writer },
                call := { s.call with continues := false, reader := false, writer := false },
                wire := wire' })

/-- `MethodCall::call` -/
def call (p : Peer) (dec : Decoder) (s : CS) : Option (Res × CS) :=
  match send p false false false s with
  | (some e, s') => some (.err e, s')
  | (none, s') => recv dec s'

/-- `MethodCall::upgrade` -/
def upgrade (p : Peer) (dec : Decoder) (s : CS) : Option (Res × CS) :=
  match send p false false true s with
  | (some e, s') => some (.err e, s')
  | (none, s') => recv dec s'

/-- `MethodCall::oneway` -/
def oneway (p : Peer) (s : CS) : Res × CS :=
  match send p true false false s with
  | (some e, s') => (.err e, s')
  | (none, s') => (.unit, s')

/-- `MethodCall::more`: `continues = true` first, then `send` -/
def more (p : Peer) (s : CS) : Res × CS :=
  match send p false true false { s with call := { s.call with continues := true } } with
  | (some e, s') => (.err e, s')
  | (none, s') => (.unit, s')

/-- `Iterator::next` -/
def next (dec : Decoder) (s : CS) : Option (Res × CS) :=
  if !s.call.continues then some (.none, s) else recv dec s

/-! ### several call objects, several threads -/

inductive Op where
  | call (i : Nat)
  | upgrade (i : Nat)
  | oneway (i : Nat)
  | more (i : Nat)
  | next (i : Nat)
  | recv (i : Nat)
deriving Repr, DecidableEq, Inhabited

def Op.obj : Op → Nat
  | .call i | .upgrade i | .oneway i | .more i | .next i | .recv i => i

structure GState where
  conn : Conn := {}
  wire : Wire := {}
  objs : List MCall := []
  progs : List (List Op) := []          -- remaining operations of each thread
  trace : List (Nat × Res) := []        -- completed operations (thread, result) in completion order
  -- ghost bookkeeping (never read by the transitions above the line):
  qown : List Nat := []                 -- for each queued frame: the call object whose request it answers
  deliv : List (Nat × Nat) := []        -- (receiving object, object the frame was meant for)
deriving Repr, DecidableEq, Inhabited

def GState.cs (g : GState) (m : MCall) : CS := { conn := g.conn, call := m, wire := g.wire }

/-- write back the pieces an operation on object `i` changed -/
def GState.put (g : GState) (i : Nat) (s : CS) : GState :=
  { g with conn := s.conn, wire := s.wire, objs := g.objs.set i s.call }

def GState.setProg (g : GState) (t : Nat) (prog : List Op) : GState :=
  { g with progs := g.progs.set t prog }

def GState.done (g : GState) (t : Nat) (r : Res) : GState :=
  { g with trace := g.trace ++ [(t, r)] }

/-- ghost: frames appended by a `send` of object `i` belong to `i` -/
def GState.tagNew (g : GState) (before : Nat) (i : Nat) : GState :=
  { g with qown := g.qown ++ List.replicate (g.wire.queue.length - before) i }

/-- ghost: a `recv` of object `i` consumed the head of the queue (if the queue got shorter) -/
def GState.tagRecv (g : GState) (before : Nat) (i : Nat) : GState :=
  if g.wire.queue.length < before then
    match g.qown with
    | o :: rest => { g with qown := rest, deliv := g.deliv ++ [(i, o)] }
    | [] => g
  else g

/-- the `send` part of an operation on object `i` by thread `t`; `cont` is what
    remains of the thread's program when the send succeeded -/
def GState.doSend (p : Peer) (g : GState) (t i : Nat) (m : MCall) (oneway more upgrade : Bool)
    (okProg : List Op) (okDone : Bool) (rest : List Op) : GState :=
  let before := g.wire.queue.length
  match send p oneway more upgrade (g.cs m) with
  | (some e, s') => (((g.put i s').tagNew before i).setProg t rest).done t (.err e)
  | (none, s') =>
    let g' := ((g.put i s').tagNew before i).setProg t okProg
    if okDone then g'.done t .unit else g'

def GState.doRecv (dec : Decoder) (g : GState) (t i : Nat) (m : MCall) (rest : List Op) : Option GState :=
  let before := g.wire.queue.length
  match recv dec (g.cs m) with
  | none => none
  | some (r, s') => some ((((g.put i s').tagRecv before i).setProg t rest).done t r)

/-- thread `t` performs its next atomic step; `none`: it has finished or it blocks -/
def stepThread (p : Peer) (dec : Decoder) (g : GState) (t : Nat) : Option GState :=
  match g.progs[t]? with
  | none => none
  | some [] => none
  | some (op :: rest) =>
    match g.objs[op.obj]? with
    | none => some ((g.setProg t rest).done t .noobj)
    | some m =>
      match op with
      | .call i => some (g.doSend p t i m false false false (.recv i :: rest) false rest)
      | .upgrade i => some (g.doSend p t i m false false true (.recv i :: rest) false rest)
      | .oneway i => some (g.doSend p t i m true false false rest true rest)
      | .more i => some (g.doSend p t i { m with continues := true } false true false rest true rest)
      | .next i =>
        if !m.continues then some ((g.setProg t rest).done t .none)
        else g.doRecv dec t i m rest
      | .recv i => g.doRecv dec t i m rest

/-- run a schedule (list of thread numbers); a step that is not enabled is skipped -/
def runSched (p : Peer) (dec : Decoder) (g : GState) : List Nat → GState
  | [] => g
  | t :: ts =>
    match stepThread p dec g t with
    | some g' => runSched p dec g' ts
    | none => runSched p dec g ts

/-- one thread runs to the end or until it blocks (`fuel` ≥ 2 × number of operations suffices) -/
def runSeq (p : Peer) (dec : Decoder) : Nat → GState → GState
  | 0, g => g
  | fuel + 1, g =>
    match stepThread p dec g 0 with
    | some g' => runSeq p dec fuel g'
    | none => g

def reachable (p : Peer) (dec : Decoder) (g0 g : GState) : Prop := ∃ sched : List Nat, runSched p dec g0 sched = g

end Client
end VV
