/-
Model.Serde — what `serde` + `serde_json` do with exactly the type shapes that
occur in /repo:

* `#[derive(Serialize, Deserialize)]` structs (optional members with and without
  `skip_serializing_if = "Option::is_none"`), unit-only enums, `Option<T>`,
  `Vec<T>`, `HashMap<String, T>` (`StringHashMap<T>`), `serde_json::Value`,
  `bool`, `i64`, `f64`, `String` / `Cow<str>`
* the hand-written `Serialize` / `Deserialize` of `StringHashSet`
  (varlink/src/lib.rs 435-490, after b3d9722: every entry is read as
  `(String, Empty {})`)
* `Request`, `Reply`, `ServiceInfo`, `GetInterfaceDescriptionReply`
  (varlink/src/lib.rs 381-392, 502-510, 1162-1185)

Layers.  serde_json's *text* layer (printing a tree, parsing bytes into a tree)
is NOT modelled here: it is a parameter (`TextLayer`).  What is modelled is
everything above it, on JSON *trees*:

  raw tree   = `Json` whose objects are association lists in document order,
               duplicate keys possible (what the streaming deserializer of
               `from_str` / `from_slice` walks through)
  `Value`    = a raw tree that is `Json.isNormal`: every object has strictly
               ascending keys (serde_json's `BTreeMap`, no `preserve_order`).
               Parsing text into a `Value` is `Json.norm` (later duplicate wins).

  `decode cvt t j`   = `T::deserialize` driven over the tree `j` (streaming
                       semantics: duplicate *known* struct members are an error,
                       duplicate map keys: the later one wins, but every value is
                       deserialized)
  `fromValue t j`    = `serde_json::from_value::<T>(j)` = `decode` on a `Value`
  `encode t v`       = `T::serialize` as the text serializer sees it (struct
                       members in declaration order)
  `toValue t v`      = `serde_json::to_value(v)` = `Json.norm (encode t v)`

`cvt : Int → Nat` is `i64/u64 as f64` (bits), a parameter: no theorem computes
with floats.  Imports only Model files (core only) so that the driver links.
-/
import VarlinkVerif.Model.Json
import VarlinkVerif.Model.Wire

namespace VV

/-! ### sorted association lists (`BTreeMap<String, _>`, canonical `HashMap`/`HashSet`) -/

/-- insert unless the key is present; the list stays strictly ascending.
    Folding this from the right over a document is `BTreeMap::insert` folded from
    the left (the last occurrence of a key wins). -/
def kvAdd {α : Type} (k : String) (v : α) : List (String × α) → List (String × α)
  | [] => [(k, v)]
  | (k', v') :: rest =>
    if k < k' then (k, v) :: (k', v') :: rest
    else if k = k' then (k', v') :: rest
    else (k', v') :: kvAdd k v rest

def setAdd (k : String) : List String → List String
  | [] => [k]
  | k' :: rest =>
    if k < k' then k :: k' :: rest
    else if k = k' then k' :: rest
    else k' :: setAdd k rest

/-- strictly ascending (hence duplicate free) -/
def strictSorted : List String → Bool
  | [] => true
  | [_] => true
  | a :: b :: rest => decide (a < b) && strictSorted (b :: rest)

/-! ### `serde_json::Value` as a normal form of raw trees -/

namespace Json

mutual
  /-- parsing a document into a `Value`: objects become sorted maps, the later
      duplicate wins -/
  def norm : Json → Json
    | .arr l => .arr (normList l)
    | .obj l => .obj (normObj l)
    | j => j
  def normList : List Json → List Json
    | [] => []
    | x :: xs => norm x :: normList xs
  def normObj : List (String × Json) → List (String × Json)
    | [] => []
    | (k, v) :: rest => kvAdd k (norm v) (normObj rest)
end

mutual
  /-- the representation invariant of `Value`: keys strictly ascending, everywhere -/
  def isNormal : Json → Bool
    | .arr l => isNormalList l
    | .obj l => strictSorted (l.map (·.1)) && isNormalObj l
    | _ => true
  def isNormalList : List Json → Bool
    | [] => true
    | x :: xs => isNormal x && isNormalList xs
  def isNormalObj : List (String × Json) → Bool
    | [] => true
    | (_, v) :: rest => isNormal v && isNormalObj rest
end

end Json

/-! ### `f64` by bit pattern -/

def f64Exp (bits : Nat) : Nat := (bits / 4503599627370496) % 2048
def f64Mant (bits : Nat) : Nat := bits % 4503599627370496
/-- neither NaN nor ±∞ (serde_json writes those as `null`) -/
def f64Finite (bits : Nat) : Bool := f64Exp bits != 2047
def f64NaN (bits : Nat) : Bool := f64Exp bits == 2047 && f64Mant bits != 0
def f64Zero (bits : Nat) : Bool := bits % 9223372036854775808 == 0
/-- `f64 == f64` -/
def feq (a b : Nat) : Bool :=
  !f64NaN a && !f64NaN b && (a == b || (f64Zero a && f64Zero b))

/-! ### types and typed values -/

/-- the Rust type shapes; a struct member is (wire name, `skip_serializing_if =
    "Option::is_none"`, type) -/
inductive Ty where
  | bool | int | float | str
  | value                         -- serde_json::Value
  | opt (t : Ty)                  -- Option<T>
  | vec (t : Ty)                  -- Vec<T>
  | map (t : Ty)                  -- HashMap<String, T>
  | set                           -- varlink::StringHashSet
  | enum (vs : List String)       -- enum of unit variants
  | struct (fs : List (String × Bool × Ty))
deriving Repr, Inhabited

/-- Rust values.  `map` and `set` are kept canonical: strictly ascending keys. -/
inductive TVal where
  | bool (b : Bool) | int (i : Int) | float (bits : Nat) | str (s : String)
  | value (j : Json)
  | none | some (v : TVal)
  | vec (l : List TVal)
  | map (l : List (String × TVal))
  | set (l : List String)
  | enum (name : String)
  | struct (l : List TVal)
deriving Repr, Inhabited

namespace TVal

def isNone : TVal → Bool
  | .none => true
  | _ => false

mutual
  def beq : TVal → TVal → Bool
    | .bool a, .bool b => a == b
    | .int a, .int b => a == b
    | .float a, .float b => a == b
    | .str a, .str b => a == b
    | .value a, .value b => decide (a = b)
    | .none, .none => true
    | .some a, .some b => beq a b
    | .vec a, .vec b => beqList a b
    | .map a, .map b => beqMap a b
    | .set a, .set b => a == b
    | .enum a, .enum b => a == b
    | .struct a, .struct b => beqList a b
    | _, _ => false
  def beqList : List TVal → List TVal → Bool
    | [], [] => true
    | x :: xs, y :: ys => beq x y && beqList xs ys
    | _, _ => false
  def beqMap : List (String × TVal) → List (String × TVal) → Bool
    | [], [] => true
    | (k, x) :: xs, (l, y) :: ys => k == l && beq x y && beqMap xs ys
    | _, _ => false
end

instance : BEq TVal := ⟨beq⟩

mutual
  theorem beq_refl : ∀ v : TVal, beq v v = true
    | .bool _ => by simp [beq]
    | .int _ => by simp [beq]
    | .float _ => by simp [beq]
    | .str _ => by simp [beq]
    | .value j => by simp [beq]
    | .none => rfl
    | .some v => by simp [beq, beq_refl v]
    | .vec l => by simp [beq, beqList_refl l]
    | .map l => by simp [beq, beqMap_refl l]
    | .set _ => by simp [beq]
    | .enum _ => by simp [beq]
    | .struct l => by simp [beq, beqList_refl l]
  theorem beqList_refl : ∀ l : List TVal, beqList l l = true
    | [] => rfl
    | x :: xs => by simp [beqList, beq_refl x, beqList_refl xs]
  theorem beqMap_refl : ∀ l : List (String × TVal), beqMap l l = true
    | [] => rfl
    | (k, x) :: xs => by simp [beqMap, beq_refl x, beqMap_refl xs]
end

mutual
  theorem eq_of_beq : ∀ a b : TVal, beq a b = true → a = b
    | .bool x, b => by cases b <;> simp [beq]
    | .int x, b => by cases b <;> simp [beq]
    | .float x, b => by cases b <;> simp [beq]
    | .str x, b => by cases b <;> simp [beq]
    | .value x, b => by cases b <;> simp [beq]
    | .none, b => by cases b <;> simp [beq]
    | .set x, b => by cases b <;> simp [beq]
    | .enum x, b => by cases b <;> simp [beq]
    | .some x, b => by
        cases b <;> simp [beq]
        exact eq_of_beq x _
    | .vec x, b => by
        cases b <;> simp [beq]
        exact eq_of_beqList x _
    | .struct x, b => by
        cases b <;> simp [beq]
        exact eq_of_beqList x _
    | .map x, b => by
        cases b <;> simp [beq]
        exact eq_of_beqMap x _
  theorem eq_of_beqList : ∀ a b : List TVal, beqList a b = true → a = b
    | [], b => by cases b <;> simp [beqList]
    | x :: xs, b => by
        cases b with
        | nil => simp [beqList]
        | cons y ys =>
          simp [beqList]
          intro h1 h2
          exact ⟨eq_of_beq x y h1, eq_of_beqList xs ys h2⟩
  theorem eq_of_beqMap : ∀ a b : List (String × TVal), beqMap a b = true → a = b
    | [], b => by cases b <;> simp [beqMap]
    | (k, x) :: xs, b => by
        cases b with
        | nil => simp [beqMap]
        | cons y ys =>
          obtain ⟨l, y⟩ := y
          simp [beqMap]
          intro h0 h1 h2
          exact ⟨⟨h0, eq_of_beq x y h1⟩, eq_of_beqMap xs ys h2⟩
end

instance : DecidableEq TVal := fun a b =>
  if h : beq a b = true then isTrue (eq_of_beq a b h)
  else isFalse (fun e => h (e ▸ beq_refl a))

end TVal

abbrev Fields := List (String × Bool × Ty)

def Ty.isOpt : Ty → Bool
  | .opt _ => true
  | _ => false

/-! ### Serialize -/

mutual
  /-- `T::serialize` into the JSON tree the text serializer writes -/
  def encode : Ty → TVal → Json
    | .bool, .bool b => .bool b
    | .int, .int i => .int i
    | .float, .float b => if f64Finite b then .flt b else .null
    | .str, .str s => .str s
    | .value, .value j => j
    | .opt _, .none => .null
    | .opt t, .some v => encode t v
    | .vec t, .vec l => .arr (l.map (encode t))
    | .map t, .map l => .obj (l.map fun e => (e.1, encode t e.2))
    | .set, .set l => .obj (l.map fun k => (k, .obj []))
    | .enum _, .enum n => .str n
    | .struct fs, .struct vs => .obj (encodeFields fs vs)
    | _, _ => .null
  /-- `SerializeStruct`: members in declaration order; a member marked
      `skip_serializing_if = "Option::is_none"` is left out when it is `None` -/
  def encodeFields : Fields → List TVal → List (String × Json)
    | (n, skip, t) :: fs, v :: vs =>
      if skip && v.isNone then encodeFields fs vs else (n, encode t v) :: encodeFields fs vs
    | _, _ => []
end

/-- `serde_json::to_value` -/
def toValue (t : Ty) (v : TVal) : Json := (encode t v).norm

/-! ### Deserialize -/

/-- `Empty {}` (derive, no members): any object (members ignored) or `[]` -/
def isEmptyStruct : Json → Bool
  | .obj _ => true
  | .arr [] => true
  | _ => false

def i64Range (i : Int) : Bool := decide (-9223372036854775808 ≤ i) && decide (i ≤ 9223372036854775807)

/-- `HashMap<String, T>`'s visitor: `while let Some((k, v)) = next_entry()? { insert }` -/
def decMapEntries (f : Json → Option TVal) : List (String × Json) → Option (List (String × TVal))
  | [] => some []
  | (k, j) :: rest =>
    match f j, decMapEntries f rest with
    | some v, some m => some (kvAdd k v m)
    | _, _ => none

/-- `StringHashSet`'s visitor: `while let Some((key, _)) = next_entry::<String, Empty>()? { insert }` -/
def decSetEntries : List (String × Json) → Option (List String)
  | [] => some []
  | (k, j) :: rest =>
    match isEmptyStruct j, decSetEntries rest with
    | true, some s => some (setAdd k s)
    | _, _ => none

/-- `Vec<T>`'s visitor: every element, first error wins -/
def mapOpt {α β : Type} (f : α → Option β) : List α → Option (List β)
  | [] => some []
  | x :: xs =>
    match f x, mapOpt f xs with
    | some y, some ys => some (y :: ys)
    | _, _ => none

def occurrences (n : String) (l : List (String × Json)) : List (String × Json) :=
  l.filter fun e => e.1 == n

variable (cvt : Int → Nat)

mutual
  /-- `T::deserialize` over a JSON tree -/
  def decode : Ty → Json → Option TVal
    | .bool, .bool b => some (.bool b)
    | .int, .int i => if i64Range i then some (.int i) else none
    | .float, .flt b => some (.float b)
    | .float, .int i => some (.float (cvt i))
    | .str, .str s => some (.str s)
    | .value, j => some (.value j.norm)
    | .opt _, .null => some .none
    | .opt t, j => (decode t j).map .some
    | .vec t, .arr l => (mapOpt (decode t) l).map .vec
    | .map t, .obj l => (decMapEntries (decode t) l).map .map
    | .set, .obj l => (decSetEntries l).map .set
    | .enum vs, .str s => if vs.contains s then some (.enum s) else none
    | .enum vs, .obj [(k, .null)] => if vs.contains k then some (.enum k) else none
    | .struct fs, .obj l => (decodeFieldsObj fs l).map .struct
    | .struct fs, .arr l => (decodeFieldsArr fs l).map .struct
    | _, _ => none
  /-- derive's `visit_map`: a member that occurs twice is `duplicate field`, an
      unknown member is skipped, a missing member is `None` for `Option` and
      `missing field` otherwise -/
  def decodeFieldsObj : Fields → List (String × Json) → Option (List TVal)
    | [], _ => some []
    | (n, _, t) :: fs, l =>
      match occurrences n l with
      | [] =>
        if t.isOpt then (decodeFieldsObj fs l).map (TVal.none :: ·) else none
      | [e] =>
        match decode t e.2, decodeFieldsObj fs l with
        | some v, some vs => some (v :: vs)
        | _, _ => none
      | _ => none
  /-- derive's `visit_seq` + serde_json's end-of-array check: exactly one element
      per member -/
  def decodeFieldsArr : Fields → List Json → Option (List TVal)
    | [], [] => some []
    | (_, _, t) :: fs, j :: js =>
      match decode t j, decodeFieldsArr fs js with
      | some v, some vs => some (v :: vs)
      | _, _ => none
    | _, _ => none
end

/-- `serde_json::from_value::<T>` (the argument is a `Value`, i.e. normal) -/
def fromValue (t : Ty) (j : Json) : Option TVal := decode cvt t j

/-! ### the text layer as a parameter -/

/-- serde_json's printer and parser between trees and some text type.
    `to_string`/`to_vec` and `from_str`/`from_slice` differ by UTF-8 validation only. -/
structure TextLayer (Text : Type) where
  print : Json → Text
  parse : Text → Option Json

/-- the layer gives this tree back -/
def TextLayer.ExactOn {Text : Type} (L : TextLayer Text) (j : Json) : Prop :=
  L.parse (L.print j) = some j

def toText {Text : Type} (L : TextLayer Text) (t : Ty) (v : TVal) : Text := L.print (encode t v)
def fromText {Text : Type} (L : TextLayer Text) (t : Ty) (s : Text) : Option TVal :=
  (L.parse s).bind (decode cvt t)
/-- `from_value(from_str::<Value>(s))` -/
def fromTextViaValue {Text : Type} (L : TextLayer Text) (t : Ty) (s : Text) : Option TVal :=
  (L.parse s).bind fun j => decode cvt t j.norm

namespace Json
mutual
  /-- apply `f` to the bit pattern of every float -/
  def mapFlt (f : Nat → Nat) : Json → Json
    | .flt b => .flt (f b)
    | .arr l => .arr (mapFltList f l)
    | .obj l => .obj (mapFltObj f l)
    | j => j
  def mapFltList (f : Nat → Nat) : List Json → List Json
    | [] => []
    | x :: xs => mapFlt f x :: mapFltList f xs
  def mapFltObj (f : Nat → Nat) : List (String × Json) → List (String × Json)
    | [] => []
    | (k, v) :: rest => (k, mapFlt f v) :: mapFltObj f rest
end
end Json

def tblFn (tbl : List (Nat × Nat)) (b : Nat) : Nat :=
  match tbl.find? (fun e => e.1 == b) with
  | some e => e.2
  | none => b

/-- the idealised text layer: text = tree -/
def idLayer : TextLayer Json := { print := id, parse := some }

/-- serde_json as built in /repo (feature `float_roundtrip` off): printing an
    `f64` in shortest form and parsing it back can be one unit in the last place
    off.  `tbl` lists the floats for which that happens (measured per case by the
    harness with the real serde_json); everything else is exact. -/
def tblLayer (tbl : List (Nat × Nat)) : TextLayer Json :=
  { print := id, parse := fun j => some (j.mapFlt (tblFn tbl)) }

/-! ### which values are Rust values, which of them come back -/

def fieldNames (fs : Fields) : List String := fs.map (·.1)

def distinct : List String → Bool
  | [] => true
  | x :: xs => !xs.contains x && distinct xs

mutual
  /-- struct member names are pairwise distinct (rustc guarantees it) -/
  def Ty.wf : Ty → Bool
    | .opt t => t.wf
    | .vec t => t.wf
    | .map t => t.wf
    | .struct fs => distinct (fieldNames fs) && wfFields fs
    | _ => true
  def wfFields : Fields → Bool
    | [] => true
    | (_, _, t) :: fs => t.wf && wfFields fs
end

mutual
  /-- `v` is a value of the Rust type `t` (representation invariants included:
      `i64` range, canonical maps and sets, normal `Value`s, known variant) -/
  def hasTy : Ty → TVal → Bool
    | .bool, .bool _ => true
    | .int, .int i => i64Range i
    | .float, .float _ => true
    | .str, .str _ => true
    | .value, .value j => j.isNormal
    | .opt _, .none => true
    | .opt t, .some v => hasTy t v
    | .vec t, .vec l => l.all (hasTy t)
    | .map t, .map l => strictSorted (l.map (·.1)) && l.all fun e => hasTy t e.2
    | .set, .set l => strictSorted l
    | .enum vs, .enum n => vs.contains n
    | .struct fs, .struct vs => hasTyFields fs vs
    | _, _ => false
  def hasTyFields : Fields → List TVal → Bool
    | [], [] => true
    | (_, _, t) :: fs, v :: vs => hasTy t v && hasTyFields fs vs
    | _, _ => false
end

mutual
  /-- nothing in `v` is written as `null` except `None`: no `Some(x)` whose `x`
      serializes to `null` (`Some(Value::Null)`, `Some(None)`, a non-finite
      float) and no non-finite `f64` -/
  def clean : Ty → TVal → Bool
    | .float, .float b => f64Finite b
    | .opt t, .some v => clean t v && !(encode t v).isNull
    | .vec t, .vec l => l.all (clean t)
    | .map t, .map l => l.all fun e => clean t e.2
    | .struct fs, .struct vs => cleanFields fs vs
    | _, _ => true
  def cleanFields : Fields → List TVal → Bool
    | (_, _, t) :: fs, v :: vs => clean t v && cleanFields fs vs
    | _, _ => true
end

/-! ### `PartialEq` -/

namespace Json
mutual
  /-- `serde_json::Value == Value` -/
  def veq : Json → Json → Bool
    | .null, .null => true
    | .bool a, .bool b => a == b
    | .int a, .int b => a == b
    | .flt a, .flt b => feq a b
    | .str a, .str b => a == b
    | .arr a, .arr b => veqList a b
    | .obj a, .obj b => veqObj a b
    | _, _ => false
  def veqList : List Json → List Json → Bool
    | [], [] => true
    | x :: xs, y :: ys => veq x y && veqList xs ys
    | _, _ => false
  def veqObj : List (String × Json) → List (String × Json) → Bool
    | [], [] => true
    | (k, x) :: xs, (l, y) :: ys => k == l && veq x y && veqObj xs ys
    | _, _ => false
end
end Json

namespace TVal
mutual
  /-- derived `PartialEq` (on canonical maps/sets: `HashMap`/`HashSet` equality) -/
  def teq : TVal → TVal → Bool
    | .bool a, .bool b => a == b
    | .int a, .int b => a == b
    | .float a, .float b => feq a b
    | .str a, .str b => a == b
    | .value a, .value b => Json.veq a b
    | .none, .none => true
    | .some a, .some b => teq a b
    | .vec a, .vec b => teqList a b
    | .map a, .map b => teqMap a b
    | .set a, .set b => a == b
    | .enum a, .enum b => a == b
    | .struct a, .struct b => teqList a b
    | _, _ => false
  def teqList : List TVal → List TVal → Bool
    | [], [] => true
    | x :: xs, y :: ys => teq x y && teqList xs ys
    | _, _ => false
  def teqMap : List (String × TVal) → List (String × TVal) → Bool
    | [], [] => true
    | (k, x) :: xs, (l, y) :: ys => k == l && teq x y && teqMap xs ys
    | _, _ => false
end
end TVal

/-! ### the public types of the `varlink` crate -/

def tyRequest : Ty := .struct
  [("more", true, .opt .bool), ("oneway", true, .opt .bool), ("upgrade", true, .opt .bool),
   ("method", false, .str), ("parameters", true, .opt .value)]

def tyReply : Ty := .struct
  [("continues", true, .opt .bool), ("error", true, .opt .str), ("parameters", true, .opt .value)]

def tyServiceInfo : Ty := .struct
  [("vendor", false, .str), ("product", false, .str), ("version", false, .str), ("url", false, .str),
   ("interfaces", false, .vec .str)]

def tyDescReply : Ty := .struct [("description", true, .opt .str)]

def tyDescArgs : Ty := .struct [("interface", false, .str)]

def optT {α : Type} (f : α → TVal) : Option α → TVal
  | none => .none
  | some a => .some (f a)

def Request.toT (r : Request) : TVal :=
  .struct [optT .bool r.more, optT .bool r.oneway, optT .bool r.upgrade, .str r.method,
           optT .value r.parameters]

def Reply.toT (r : Reply) : TVal :=
  .struct [optT .bool r.continues, optT .str r.error, optT .value r.parameters]

def optBoolOf : TVal → Option (Option Bool)
  | .none => some none
  | .some (.bool b) => some (some b)
  | _ => none

def optStrOf : TVal → Option (Option String)
  | .none => some none
  | .some (.str s) => some (some s)
  | _ => none

def optJsonOf : TVal → Option (Option Json)
  | .none => some none
  | .some (.value j) => some (some j)
  | _ => none

def Request.ofT : TVal → Option Request
  | .struct [m, o, u, .str meth, p] =>
    match optBoolOf m, optBoolOf o, optBoolOf u, optJsonOf p with
    | some m, some o, some u, some p =>
      some { more := m, oneway := o, upgrade := u, method := meth, parameters := p }
    | _, _, _, _ => none
  | _ => none

def Reply.ofT : TVal → Option Reply
  | .struct [c, e, p] =>
    match optBoolOf c, optStrOf e, optJsonOf p with
    | some c, some e, some p => some { continues := c, error := e, parameters := p }
    | _, _, _ => none
  | _ => none

structure ServiceInfo where
  vendor : String
  product : String
  version : String
  url : String
  interfaces : List String
deriving Repr, DecidableEq, Inhabited

def ServiceInfo.toT (s : ServiceInfo) : TVal :=
  .struct [.str s.vendor, .str s.product, .str s.version, .str s.url, .vec (s.interfaces.map .str)]

def strOf : TVal → Option String
  | .str s => some s
  | _ => none

def ServiceInfo.ofT : TVal → Option ServiceInfo
  | .struct [.str v, .str p, .str ver, .str u, .vec l] =>
    (mapOpt strOf l).map fun is => { vendor := v, product := p, version := ver, url := u, interfaces := is }
  | _ => none

structure DescReply where
  description : Option String
deriving Repr, DecidableEq, Inhabited

def DescReply.toT (d : DescReply) : TVal := .struct [optT .str d.description]

def DescReply.ofT : TVal → Option DescReply
  | .struct [d] => (optStrOf d).map fun d => { description := d }
  | _ => none

def encodeRequest (r : Request) : Json := encode tyRequest r.toT
def decodeRequest (j : Json) : Option Request := (decode cvt tyRequest j).bind Request.ofT
def encodeReply (r : Reply) : Json := encode tyReply r.toT
def decodeReply (j : Json) : Option Reply := (decode cvt tyReply j).bind Reply.ofT
def encodeServiceInfo (s : ServiceInfo) : Json := encode tyServiceInfo s.toT
def decodeServiceInfo (j : Json) : Option ServiceInfo := (decode cvt tyServiceInfo j).bind ServiceInfo.ofT
def encodeDescReply (d : DescReply) : Json := encode tyDescReply d.toT
def decodeDescReply (j : Json) : Option DescReply := (decode cvt tyDescReply j).bind DescReply.ofT

/-! ### equivalence of objects modulo null optional members (C17, last clause) -/

/-- drop the members named in `opt` whose value is `null` -/
def dropNullOpt (opt : List String) : Json → Json
  | .obj l => .obj (l.filter fun e => !(opt.contains e.1 && e.2.isNull))
  | j => j

/-- keep only the members named in `known` -/
def restrictTo (known : List String) : Json → Json
  | .obj l => .obj (l.filter fun e => known.contains e.1)
  | j => j

/-- "equal as JSON values after dropping optional members whose value is null" -/
def objEquiv (opt : List String) (a b : Json) : Prop :=
  dropNullOpt opt a.norm = dropNullOpt opt b.norm

instance (opt : List String) (a b : Json) : Decidable (objEquiv opt a b) := by
  unfold objEquiv; exact inferInstance

def requestOptional : List String := ["more", "oneway", "upgrade", "parameters"]
def replyOptional : List String := ["continues", "error", "parameters"]

/-! ### the `MapAccess` protocol and the two visitors of `StringHashSet`

A `MapAccess` is walked with `next_key` / `next_value`.  serde_json has two
implementations: the *streaming* one over text (`next_key` while a value is
pending is a syntax error: it expects `,` or `}` and finds `:`), and the *value*
one over a `Value` map (`next_key` silently drops a pending value).  `Value`s of
type `V` are whatever the deserializer of the value type makes of the member. -/

inductive MapImpl where
  | streaming
  | valueMap
deriving Repr, DecidableEq

structure MapAcc where
  rest : List (String × Json)
  pending : Option Json := none
deriving Repr

/-- `next_key::<String>()`: `none` = error, `some (none, _)` = end of map -/
def MapAcc.nextKey (impl : MapImpl) (m : MapAcc) : Option (Option String × MapAcc) :=
  match m.pending, impl with
  | some _, .streaming => none
  | _, _ =>
    match m.rest with
    | [] => some (none, { rest := [], pending := none })
    | (k, v) :: rest => some (some k, { rest := rest, pending := some v })

/-- `next_value::<V>()` with `V`'s deserializer `f` -/
def MapAcc.nextValue {α : Type} (f : Json → Option α) (m : MapAcc) : Option (α × MapAcc) :=
  match m.pending with
  | none => none
  | some v => (f v).map fun a => (a, { m with pending := none })

/-- the visitor before b3d9722: `while let Some(key) = visitor.next_key()? { insert }` -/
def setVisitorKeysOnly (impl : MapImpl) : Nat → MapAcc → List String → Option (List String)
  | 0, _, _ => none
  | fuel + 1, m, acc =>
    match m.nextKey impl with
    | none => none
    | some (none, _) => some acc
    | some (some k, m') => setVisitorKeysOnly impl fuel m' (setAdd k acc)

/-- the visitor as it is: `while let Some((key, _)) = visitor.next_entry::<String, Empty>()?` -/
def setVisitorEntries (impl : MapImpl) : Nat → MapAcc → List String → Option (List String)
  | 0, _, _ => none
  | fuel + 1, m, acc =>
    match m.nextKey impl with
    | none => none
    | some (none, _) => some acc
    | some (some k, m') =>
      match m'.nextValue (fun j => if isEmptyStruct j then some () else none) with
      | none => none
      | some (_, m'') => setVisitorEntries impl fuel m'' (setAdd k acc)

end VV
