/-
Model.UpgradedLoop — the part of the per-connection closure of `listen`
(server.rs, `pool.execute(move || …)`) that runs AFTER a call has upgraded the
connection: `handler.handle(chain(unread, br), w, Some(iface))` is called again
and again; each call routes to the interface's `call_upgraded`, which pulls what
it wants from the chained reader, processes a prefix of what it has pulled and
returns the rest ("unread"); the worker keeps exactly that rest and chains it in
front of the socket reader for the next call.  The loop ends when the socket
reader is at end of stream.

An upgraded handler is, for the worker, a *policy*: having pulled `buf`, does it
pull another segment (`more`), and how many bytes of `buf` does it process
(`take`).  Nothing else about it is assumed.
-/
import VarlinkVerif.Model.Framing
import VarlinkVerif.Model.Extracted

namespace VV

structure UpPolicy where
  more : Bytes → Bool
  take : Bytes → Nat

/-- the handler pulls from `chain(unread, reader)`: `buf` starts as `unread` -/
def UpPolicy.pull (p : UpPolicy) : Bytes → List Bytes → Bytes × List Bytes
  | buf, [] => (buf, [])
  | buf, s :: segs => if p.more buf then p.pull (buf ++ s) segs else (buf, s :: segs)

/-- one `handle()` call in upgraded mode: (processed, returned unread, what the socket still holds) -/
def UpPolicy.step (p : UpPolicy) (unread : Bytes) (segs : List Bytes) : Bytes × Bytes × List Bytes :=
  let r := p.pull unread segs
  let k := min (p.take r.1) r.1.length
  (r.1.take k, r.1.drop k, r.2)

/-- what the worker keeps of the bytes a `handle()` call returned
    (server.rs: `unread = if <Extracted.keepUnread> { u } else { Vec::new() }`, extracted on every run) -/
def workerUnread (switched nowUpgraded : Bool) (u : Bytes) : Bytes :=
  if Extracted.keepUnread switched nowUpgraded then u else []

/-- the worker loop after the switch; `fuel` bounds the number of `handle()` calls
    (a handler that neither pulls nor processes makes the real loop spin) -/
def UpPolicy.loop (p : UpPolicy) : Nat → Bytes → List Bytes → List Bytes × Bytes × List Bytes
  | 0, u, segs => ([], u, segs)
  | n + 1, u, segs =>
    let r := p.step u segs
    if r.2.2.isEmpty then ([r.1], r.2.1, [])          -- `br.fill_buf()` = [] : break
    else
      let rest := p.loop n (workerUnread false true r.2.1) r.2.2
      (r.1 :: rest.1, rest.2.1, rest.2.2)

/-! ### the record-wise handler used by the correspondence suite (`up.segline`) -/

def hasNl (b : Bytes) : Bool := b.any (· == 10)

/-- everything up to and including the last newline -/
def throughLastNl : Bytes → Bytes
  | [] => []
  | b :: bs => if hasNl (b :: bs) then b :: throughLastNl bs else []

/-- what follows the last newline -/
def afterLastNl : Bytes → Bytes
  | [] => []
  | b :: bs => if hasNl (b :: bs) then afterLastNl bs else b :: bs

/-- one pass from the right: (throughLastNl, hasNl) -/
def nlScan (bs : Bytes) : Bytes × Bool :=
  bs.foldr (fun b r => if r.2 || b == 10 then (b :: r.1, true) else ([], false)) ([], false)

theorem nlScan_eq (bs : Bytes) : nlScan bs = (throughLastNl bs, hasNl bs) := by
  induction bs with
  | nil => rfl
  | cons b bs ih =>
    have h : nlScan (b :: bs) = (if (nlScan bs).2 || b == 10 then (b :: (nlScan bs).1, true) else ([], false)) := rfl
    rw [h, ih]
    simp only [throughLastNl, hasNl, List.any_cons]
    rcases Bool.eq_false_or_eq_true (b == 10) with h1 | h1 <;>
      rcases Bool.eq_false_or_eq_true (bs.any (· == 10)) with h2 | h2 <;> simp [h1, h2]

def throughLastNlFast (bs : Bytes) : Bytes := (nlScan bs).1

@[csimp] theorem throughLastNl_eq_scan : @throughLastNl = @throughLastNlFast := by
  funext bs; simp [throughLastNlFast, nlScan_eq]

/-- pull until a record is complete, process the complete records, hand the unfinished one back -/
def linePolicy : UpPolicy :=
  { more := fun buf => !hasNl buf, take := fun buf => (throughLastNl buf).length }

end VV
