/-
Model.Wire — server side of the varlink wire protocol as implemented in
/repo/varlink/src/lib.rs:

* `Request`, `Reply`                          (lib.rs 381-392, 502-528)
* the `Call` reply gate `reply_struct`, `reply_parameters`, `set_continues`,
  `to_upgraded`                               (lib.rs 721-816)
* routing at the last '.' and the hash-map lookup (lib.rs 1381-1392, 1495-1508)
* the built-in `org.varlink.service` interface  (lib.rs 1278-1314)
* the shape of a generated dispatch arm        (varlink_generator/src/lib.rs 447-474, 533-541)
* the `handle` loop, at frame level (`serve`) and at byte level over a
  buffered reader fed by an arbitrary read schedule (`handle`) (lib.rs 1455-1517)

User method implementations are *scripts*: `Request → List Act`.  Theorems
quantify over all scripts; the driver instantiates them with the scripted test
interface of the harness.
-/
import VarlinkVerif.Model.Json
import VarlinkVerif.Model.Framing

namespace VV

structure Request where
  more : Option Bool := none
  oneway : Option Bool := none
  upgrade : Option Bool := none
  method : String
  parameters : Option Json := none
deriving Repr, DecidableEq, Inhabited

structure Reply where
  continues : Option Bool := none
  error : Option String := none
  parameters : Option Json := none
deriving Repr, DecidableEq, Inhabited

namespace Reply
/-- `Reply::parameters` -/
def params (p : Option Json) : Reply := { parameters := p }
/-- `Reply::error` -/
def err (name : String) (p : Option Json) : Reply := { error := some name, parameters := p }
end Reply

/-- `Call::wants_more` -/
def wantsMore (r : Request) : Bool := r.more == some true
/-- `Call::is_oneway` -/
def isOneway (r : Request) : Bool := r.oneway == some true

/-- the mutable part of `Call` plus everything it has written so far -/
structure CallSt where
  continues : Bool := false
  upgraded : Bool := false
  out : List Reply := []
deriving Repr, DecidableEq, Inhabited

/-- `reply_struct`: `none` = `Err(CallContinuesMismatch)`, nothing written. -/
def replyStruct (req : Request) (st : CallSt) (r : Reply) : Option CallSt :=
  if st.continues && !wantsMore req then none
  else if isOneway req then some st
  else some { st with out := st.out ++ [if st.continues then { r with continues := some true } else r] }

/-- `reply_parameters` (used only by the built-in GetInfo / GetInterfaceDescription) -/
def replyParameters (req : Request) (st : CallSt) (p : Json) : CallSt :=
  if isOneway req then st else { st with out := st.out ++ [Reply.params (some p)] }

/-- What a method implementation can do with its `Call`. -/
inductive Act where
  | setContinues (b : Bool)
  | reply (r : Reply)       -- `call.reply_struct(r)?`   (error propagated)
  | replyTry (r : Reply)    -- `let _ = call.reply_struct(r);`
  | toUpgraded
  | fail                    -- `return Err(..)`
deriving Repr, DecidableEq, Inhabited

/-- run a script; the `Bool` is `true` for `Ok(())`, `false` for `Err(..)` -/
def runActs (req : Request) : List Act → CallSt → CallSt × Bool
  | [], st => (st, true)
  | .setContinues b :: as, st => runActs req as { st with continues := b }
  | .toUpgraded :: as, st => runActs req as { st with upgraded := true }
  | .fail :: _, st => (st, false)
  | .reply r :: as, st =>
    match replyStruct req st r with
    | none => (st, false)
    | some st' => runActs req as st'
  | .replyTry r :: as, st =>
    match replyStruct req st r with
    | none => runActs req as st
    | some st' => runActs req as st'

/-! ### standard error replies -/

def sInterfaceNotFound := "org.varlink.service.InterfaceNotFound"
def sMethodNotFound := "org.varlink.service.MethodNotFound"
def sMethodNotImplemented := "org.varlink.service.MethodNotImplemented"
def sInvalidParameter := "org.varlink.service.InvalidParameter"

def errInterfaceNotFound (i : String) : Reply :=
  Reply.err sInterfaceNotFound (some (.obj [("interface", .str i)]))
def errMethodNotFound (m : String) : Reply :=
  Reply.err sMethodNotFound (some (.obj [("method", .str m)]))
def errMethodNotImplemented (m : String) : Reply :=
  Reply.err sMethodNotImplemented (some (.obj [("method", .str m)]))
def errInvalidParameter (p : String) : Reply :=
  Reply.err sInvalidParameter (some (.obj [("parameter", .str p)]))

/-! ### interfaces and the service -/

structure Iface where
  name : String
  desc : String
  script : Request → List Act

/-- A generated `VarlinkInterfaceProxy`: dispatch on the full method string,
    `MethodNotFound` otherwise (generator lib.rs 533-541). -/
def genIface (name desc : String) (methods : List (String × (Request → List Act))) : Iface :=
  { name, desc,
    script := fun r =>
      match methods.find? (fun m => m.1 == r.method) with
      | some m => m.2 r
      | none => [.reply (errMethodNotFound r.method)] }

structure Service where
  vendor : String
  product : String
  version : String
  url : String
  ifaces : List Iface

def svcName := "org.varlink.service"

/-- `HashMap` semantics of `VarlinkService::new`: a later registration under
    the same name replaces the earlier one. -/
def Service.lookup (svc : Service) (key : String) : Option Iface :=
  svc.ifaces.reverse.find? (fun i => i.name == key)

/-- registered names, each once (first occurrence order; the real order is the
    hash map's and is canonicalised away in the correspondence) -/
def dedup : List String → List String
  | [] => []
  | x :: xs => x :: (dedup xs).filter (fun y => y != x)

def Service.keys (svc : Service) : List String :=
  dedup (svc.ifaces.map (·.name))

def Service.infoJson (svc : Service) : Json :=
  .obj [("interfaces", .arr ((svcName :: svc.keys).map .str)),
        ("product", .str svc.product),
        ("url", .str svc.url),
        ("vendor", .str svc.vendor),
        ("version", .str svc.version)]

/-- the text returned by `VarlinkService::get_description` is a constant of the
    implementation; the model keeps it abstract -/
structure Consts where
  serviceDesc : String

/-- serde's derive for `GetInterfaceDescriptionArgs { interface: Cow<str> }`
    from a `Value`: an object with a string member `interface` (other members
    ignored) or an array of exactly one string. -/
def decodeDescArgs : Json → Option String
  | .obj l => match Json.lookup "interface" l with
    | some (.str s) => some s
    | _ => none
  | .arr [.str s] => some s
  | _ => none

/-- `impl Interface for VarlinkService`: `call` (lib.rs 1278-1314) -/
def builtinCall (c : Consts) (svc : Service) (req : Request) (st : CallSt) : CallSt × Bool :=
  if req.method == "org.varlink.service.GetInfo" then
    (replyParameters req st svc.infoJson, true)
  else if req.method == "org.varlink.service.GetInterfaceDescription" then
    match req.parameters with
    | some p =>
      match decodeDescArgs p with
      | none => (st, false)
      | some i =>
        if i == svcName then
          (replyParameters req st (.obj [("description", .str c.serviceDesc)]), true)
        else match svc.lookup i with
          | some ifc => (replyParameters req st (.obj [("description", .str ifc.desc)]), true)
          | none => runActs req [.reply (errInvalidParameter "interface")] st
    | none => runActs req [.reply (errInvalidParameter "parameters")] st
  else
    runActs req [.reply (errMethodNotFound req.method)] st

/-- position of the last '.' (`str::rfind('.')`), as the prefix before it -/
def ifaceOfChars : List Char → Option (List Char)
  | [] => none
  | c :: cs =>
    match ifaceOfChars cs with
    | some p => some (c :: p)
    | none => if c = '.' then some [] else none

def ifaceOf (method : String) : Option String :=
  (ifaceOfChars method.toList).map String.ofList

/-- `VarlinkService::call` (lib.rs 1381-1392) -/
def routeCall (c : Consts) (svc : Service) (iface : String) (req : Request) (st : CallSt) :
    CallSt × Bool :=
  if iface == svcName then builtinCall c svc req st
  else match svc.lookup iface with
    | some ifc => runActs req (ifc.script req) st
    | none => runActs req [.reply (errInterfaceNotFound iface)] st

/-- one iteration of the `handle` loop for a decoded request:
    the replies written, whether the call returned `Ok`, whether it upgraded
    (and to which interface) -/
structure CallResult where
  out : List Reply
  ok : Bool
  upgraded : Option String
deriving Repr, DecidableEq

def callOne (c : Consts) (svc : Service) (req : Request) : CallResult :=
  match ifaceOf req.method with
  | none =>
    -- method name without a dot: InterfaceNotFound naming the whole method,
    -- then the loop goes on with the next message
    let (st, ok) := runActs req [.reply (errInterfaceNotFound req.method)] {}
    { out := st.out, ok := ok, upgraded := none }
  | some iface =>
    let (st, ok) := routeCall c svc iface req {}
    { out := st.out, ok := ok, upgraded := if ok && st.upgraded then some iface else none }

/-! ### frame level -/

inductive Frame where
  | bad                      -- serde_json::from_slice::<Request> failed
  | req (r : Request)
deriving Repr, DecidableEq

inductive Status where
  | eof                      -- `Ok((tail, None))`
  | err                      -- `Err(..)`: the caller closes the connection
  | upgraded (iface : String) -- `Ok((buffer, Some(iface)))`
deriving Repr, DecidableEq

structure Outcome where
  groups : List (List Reply)   -- replies per consumed frame, in order
  status : Status
  consumed : Nat               -- number of frames consumed (including a bad / failing one)
deriving Repr, DecidableEq

def serve (c : Consts) (svc : Service) : List Frame → Outcome
  | [] => { groups := [], status := .eof, consumed := 0 }
  | .bad :: _ => { groups := [], status := .err, consumed := 1 }
  | .req r :: fs =>
    let res := callOne c svc r
    if !res.ok then { groups := [res.out], status := .err, consumed := 1 }
    else match res.upgraded with
      | some i => { groups := [res.out], status := .upgraded i, consumed := 1 }
      | none =>
        let o := serve c svc fs
        { groups := res.out :: o.groups, status := o.status, consumed := o.consumed + 1 }

/-! ### byte level: NUL framing over a buffered reader -/

/-- The inner `BufReader` of `handle`: `buf` is what it holds unconsumed,
    `reads` is the sequence of results of the successive `read` calls the
    underlying reader will deliver (an empty result, or no more results, is
    EOF).  The capacity of the buffer only limits how large one result can be;
    theorems hold for every schedule. -/
structure Rd where
  buf : Bytes
  reads : List Bytes
deriving Repr, DecidableEq

/-- `read_until(0)`: the message (without the NUL), whether the NUL was found,
    and the reader afterwards -/
def readUntil (buf : Bytes) (reads : List Bytes) (acc : Bytes) : Bytes × Bool × Rd :=
  match splitNul buf with
  | some (pre, post) => (acc ++ pre, true, { buf := post, reads := reads })
  | none =>
    match reads with
    | [] => (acc ++ buf, false, { buf := [], reads := [] })
    | c :: cs =>
      if c = [] then (acc ++ buf, false, { buf := [], reads := cs })
      else readUntil c cs (acc ++ buf)

structure HandleResult where
  groups : List (List Reply)
  status : Status
  tail : Bytes            -- first component of the `Ok` value (`[]` on `Err`)
  rest : List Bytes       -- what the underlying reader has not delivered yet
deriving Repr, DecidableEq

/-- the `handle` loop (not yet upgraded), `dec` = `serde_json::from_slice` -/
def handleLoop (c : Consts) (svc : Service) (dec : Bytes → Frame) :
    Nat → Rd → HandleResult
  | 0, rd => { groups := [], status := .err, tail := [], rest := rd.reads }  -- unreachable, see `handle`
  | fuel + 1, rd =>
    match readUntil rd.buf rd.reads [] with
    | (msg, false, rd') =>
      -- EOF or incomplete message: hand the partial bytes back
      { groups := [], status := .eof, tail := msg, rest := rd'.reads }
    | (msg, true, rd') =>
      match dec msg with
      | .bad => { groups := [], status := .err, tail := [], rest := rd'.reads }
      | .req r =>
        let res := callOne c svc r
        if !res.ok then { groups := [res.out], status := .err, tail := [], rest := rd'.reads }
        else match res.upgraded with
          | some i => { groups := [res.out], status := .upgraded i, tail := rd'.buf, rest := rd'.reads }
          | none =>
            let h := handleLoop c svc dec fuel rd'
            { h with groups := res.out :: h.groups }

def totalLen (reads : List Bytes) : Nat := reads.flatten.length

/-- `handle(bufreader, writer, None)` for a reader that will deliver `reads` -/
def handle (c : Consts) (svc : Service) (dec : Bytes → Frame) (reads : List Bytes) : HandleResult :=
  handleLoop c svc dec (totalLen reads + 1) { buf := [], reads := reads }

end VV

namespace VV

/-! ### the documented re-feeding loop (varlink/src/test.rs 166-190, examples/ping) -/

/-- cut a byte string into pieces of at most `cap` bytes: what successive
    `read` calls with a `cap`-sized buffer return for an in-memory reader -/
def chopFuel (cap : Nat) : Nat → Bytes → List Bytes
  | 0, _ => []
  | f + 1, l =>
    if l = [] then [] else
    if cap = 0 then [l] else l.take cap :: chopFuel cap f (l.drop cap)

def chop (cap : Nat) (l : Bytes) : List Bytes := chopFuel cap l.length l

structure FeedSt where
  tail : Bytes := []
  iface : Option String := none
  out : List Reply := []
  seen : Bytes := []          -- bytes handed to the upgraded handler
  status : Status := .eof
  stopped : Bool := false
  /-- bytes `handle` left unread in the caller's per-step reader when it returned after an
      upgrade; the documented loop feeds only the returned tail again, so these are lost -/
  dropped : Bytes := []
deriving Repr, DecidableEq

/-- one round: prepend the unprocessed tail, call `handle`.  The upgraded
    handler of the test fixture reads everything it is given. -/
def feedStep (c : Consts) (svc : Service) (dec : Bytes → Frame) (cap : Nat)
    (st : FeedSt) (chunk : Bytes) : FeedSt :=
  if st.stopped then st else
  let inp := st.tail ++ chunk
  match st.iface with
  | some i => { st with tail := [], seen := st.seen ++ inp, status := .upgraded i }
  | none =>
    let h := handle c svc dec (chop cap inp)
    let out := st.out ++ h.groups.flatten
    match h.status with
    | .err => { st with out := out, tail := [], status := .err, stopped := true }
    | .eof => { st with out := out, tail := h.tail, status := .eof }
    | .upgraded i =>
      { st with out := out, tail := h.tail, dropped := st.dropped ++ h.rest.flatten,
                iface := some i, status := .upgraded i }

def feed (c : Consts) (svc : Service) (dec : Bytes → Frame) (cap : Nat) (chunks : List Bytes) : FeedSt :=
  chunks.foldl (feedStep c svc dec cap) {}

end VV
