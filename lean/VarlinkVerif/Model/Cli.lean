/-
Model.Cli — `varlink call` of /repo/varlink-cli/src/main.rs:

* the split of the `[ADDRESS/]INTERFACE.METHOD` argument (main.rs 208-238):
  at the last '/', the method must contain a '.'; without a slash the
  interface (everything before the last '.') is looked up through the resolver
  and the whole argument is the method;
* the call itself: a `MethodCall<Value, Value, Error>` on a fresh connection,
  `call()` once, or `more()` and then the iterator until it ends or the first
  `Err` (main.rs 246-291), over Model.Client;
* `print_call_ret` (main.rs 293-351): a successful value is printed on stdout,
  an error becomes the message on stderr and exit status 1.

Not modelled (outside the property's reach): clap, the pretty printer / colours
of `colored_json` (the correspondence run parses stdout back to values), the
text of the "Failed to …" messages.
-/
import VarlinkVerif.Model.Client

namespace VV
namespace Cli
open Client

/-- `s.rfind(c)`: the text before and after the last occurrence of `c` -/
def splitAtLast (c : Char) : List Char → Option (List Char × List Char)
  | [] => none
  | x :: xs =>
    match splitAtLast c xs with
    | some (a, b) => some (x :: a, b)
    | none => if x = c then some ([], xs) else none

inductive Target where
  | direct (address method : String)      -- connect to `address`, call `method`
  | resolve (interface method : String)   -- ask the resolver for `interface`, call `method`
  | invalid                               -- "Invalid address …", exit 1
deriving Repr, DecidableEq

/-- main.rs 208-238 (no `--activate`, no `--bridge`) -/
def split (url : String) : Target :=
  match splitAtLast '/' url.toList with
  | some (a, m) => if m.contains '.' then .direct (String.ofList a) (String.ofList m) else .invalid
  | none =>
    match splitAtLast '.' url.toList with
    | some (i, _) => .resolve (String.ofList i) url
    | none => .invalid

/-- what ends up on stderr after "Error: " -/
inductive Report where
  | std (short : String) (param : String)          -- "Call failed with error: <short>: <param>"
  | named (name : String) (params : Option Json)   -- "Call failed with error: <name>[\n<params>]"
  | failed                                         -- "Failed to call method '…'"
deriving Repr, DecidableEq

/-- the `map_err` closure of `print_call_ret` -/
def reportOf : EKind → Report
  | .interfaceNotFound s => .std "InterfaceNotFound" s
  | .methodNotFound s => .std "MethodNotFound" s
  | .methodNotImplemented s => .std "MethodNotImplemented" s
  | .invalidParameter s => .std "InvalidParameter" s
  | .errorReply r =>
    match r.error with
    | some name => .named name r.parameters
    | none => .failed
  | _ => .failed

structure Out where
  stdout : List Json := []        -- the documents printed, in order
  exit : Nat := 0
  report : Option Report := none
  hang : Bool := false            -- the tool waits for a reply that never comes
  wire : Wire := {}
deriving Repr, DecidableEq

/-- the `for ret in call.more()? { print_call_ret(ret)? }` loop; `fuel` bounds
    the number of iterations (`run` passes enough, see `Props/C20`) -/
def iterate : Nat → CS → List Json → Out
  | 0, s, acc => { stdout := acc, hang := true, wire := s.wire }
  | fuel + 1, s, acc =>
    match next decValue s with
    | none => { stdout := acc, hang := true, wire := s.wire }
    | some (.none, s') => { stdout := acc, exit := 0, wire := s'.wire }
    | some (.ok v, s') => iterate fuel s' (acc ++ [v])
    | some (.err k, s') => { stdout := acc, exit := 1, report := some (reportOf k), wire := s'.wire }
    | some (_, s') => { stdout := acc, exit := 1, report := some .failed, wire := s'.wire }

/-- `varlink_call` once the connection stands: `args` absent reads as `null` -/
def runCall (p : Peer) (w : Wire) (method : String) (args : Option Json) (more : Bool) : Out :=
  let s : CS := { conn := {}, call := MCall.new method (args.getD .null), wire := w }
  if !more then
    match Client.call p decValue s with
    | none => { hang := true, wire := (send p false false false s).2.wire }
    | some (.ok v, s') => { stdout := [v], exit := 0, wire := s'.wire }
    | some (.err k, s') => { exit := 1, report := some (reportOf k), wire := s'.wire }
    | some (_, s') => { exit := 1, report := some .failed, wire := s'.wire }
  else
    match Client.more p s with
    | (.unit, s') => iterate (s'.wire.queue.length + 2) s' []
    | (_, s') => { exit := 1, report := some .failed, wire := s'.wire }

end Cli
end VV
