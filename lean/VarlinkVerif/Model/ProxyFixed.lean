/-
Model.ProxyFixed — `proxy::handle` with three of the proposed patches applied
(work/proposed/c18-continue-after-interface-not-found.diff,
 c18-getdesc-without-parameters.diff, c18-getinfo-configured-resolver.diff).

This is NOT the code as it is: it is a model of the *patched* router, kept apart
from Model.Proxy, used only by `C18_transparent_after_patches` to state what the
patches achieve.  It is not part of the correspondence run of ./check; the patched
binary was run through the proxy suite by hand (VERIF_VARLINK_CLI, see the diffs).
-/
import VarlinkVerif.Model.Proxy

namespace VV
namespace Proxy

/-- patched: the redirected GetInfo goes to the configured resolver address `ra`;
    a failed lookup still counts as a `Resolve` call -/
def routeFixed (w : World) (ra : String) (st : St) (i : String) : Option String × St :=
  if i == st.lastIface then (some st.address, st)
  else if i == resolverIfaceName then (some ra, { st with lastIface := i, address := ra })
  else match w.resolve st.nResolve i with
    | some a => (some a, { lastIface := i, address := a, nResolve := st.nResolve + 1 })
    | none => (none, { st with nResolve := st.nResolve + 1 })

/-- patched loop body: `continue` after every locally written reply -/
def stepFixed (w : World) (ra : String) (st : St) (r0 : Request) : Step :=
  let r := rewrite r0
  match selectIface r with
  | .noDot => .next (localReply r (errInterfaceNotFound r.method)) st []
  | .badArgs =>
    if r.parameters.isNone then .next (localReply r (errInvalidParameter "parameters")) st []
    else .stop [] .error []
  | .iface i =>
    match routeFixed w ra st i with
    | (none, st') => .next (localReply r (errInterfaceNotFound i)) st' []
    | (some addr, st') =>
      match w.svcAt addr with
      | none => .next (localReply r (errInterfaceNotFound i)) st' []
      | some svc =>
        let res := callOne w.consts svc r
        let sent := [(addr, r)]
        if isOneway r then .next [] st' sent
        else if !res.ok && res.out != [] && w.hupWins r then .stop [] .error sent
        else if r.upgrade == some true then
          match res.out with
          | rep :: _ => .stop [rep] (.upgraded addr res.upgraded) sent
          | [] => .stop [] (if res.ok then .hang else .error) sent
        else
          let (fwd, fin) := forwardReplies res.out
          if fin then .next fwd st' sent
          else .stop fwd (if res.ok then .hang else .error) sent

def runFixed (w : World) (ra : String) : St → List Frame → Out
  | _, [] => { groups := [], sent := [], status := .eof, consumed := 0 }
  | _, .bad :: _ => { groups := [], sent := [], status := .error, consumed := 1 }
  | st, .req r :: fs =>
    match stepFixed w ra st r with
    | .stop out status sent => { groups := [out], sent := sent, status := status, consumed := 1 }
    | .next out st' sent =>
      let o := runFixed w ra st' fs
      { groups := out :: o.groups, sent := sent ++ o.sent, status := o.status, consumed := o.consumed + 1 }

end Proxy
end VV
