/-
Model.Proxy — `varlink bridge` (varlink-cli/src/proxy.rs, main.rs 354-410).

* `run`        the request router `proxy::handle` (resolver mode), frame level:
               GetInfo rewritten to the configured resolver, interface selection (from
               the parameters for GetInterfaceDescription), resolve-on-change with the
               `last_iface` cache, a fresh connection per request, forwarding until
               a reply without `continues`, oneway skip, `continue` after every
               locally written error reply, hand-over to the byte pump after a
               request with the `upgrade` flag
* `bridge`     the same at byte level: `read_until` over a `BufReader`
* `upgradedPump`  the upgraded hand-over: the bytes the client's buffered reader
               already holds are written to the service, then two copy loops
* `directMode` `proxy::handle_connect` (`--connect`, `--activate`, `--bridge`): two
               copy loops

This is the code after the fix commits 723e399, 78c09f9, 86882c4, 5599eab, 035a260,
84fe826, ac1225d, aebf686, 847b000.  The world outside the bridge is a parameter: the configured
resolver address, the resolver's answers (indexed by the number of `Resolve` calls
made so far, so that a changing registry can be expressed), and what
`varlink_connect` reaches under an address (a `Service` of Model.Wire, or nothing).
Import: Model.Wire only.
-/
import VarlinkVerif.Model.Wire

namespace VV
namespace Proxy

def mGetInfo := "org.varlink.service.GetInfo"
def mResolverGetInfo := "org.varlink.resolver.GetInfo"
def mGetDesc := "org.varlink.service.GetInterfaceDescription"
def resolverIfaceName := "org.varlink.resolver"
structure World where
  consts : Consts
  /-- the `--resolver` argument -/
  resolverAddr : String
  /-- answer of the bridge's resolver connection to its k-th `Resolve(interface)` call -/
  resolve : Nat → String → Option String
  /-- what `varlink_connect(address)` reaches; `none`: the connect (or the address) fails -/
  svcAt : String → Option Service

/-- the routing state kept between requests (proxy.rs 31-34) -/
structure St where
  lastIface : String := ""
  address : String := ""
  nResolve : Nat := 0
deriving Repr, DecidableEq

inductive End where
  | eof                -- the client closed: `Ok(false)`, exit status 0
  | error              -- `Err(..)`: exit status 1
  | hang               -- blocked reading from a service that neither answers nor closes
  | upgraded (address : String) (svcUpgraded : Option String)
                       -- byte pump from now on; `svcUpgraded`: the interface the *service* upgraded to, if it did
deriving Repr, DecidableEq

structure Out where
  groups : List (List Reply)       -- replies written to the client, one group per consumed request
  sent : List (String × Request)   -- (address, request as forwarded), in order
  status : End
  consumed : Nat
deriving Repr, DecidableEq

/-- proxy.rs 51-53 -/
def rewrite (r : Request) : Request :=
  if r.method == mGetInfo then { r with method := mResolverGetInfo } else r

inductive Sel where
  | noDot
  | badArgs
  | iface (i : String)
deriving Repr, DecidableEq

/-- proxy.rs 55-74 (on the rewritten request) -/
def selectIface (r : Request) : Sel :=
  match ifaceOf r.method with
  | none => .noDot
  | some i =>
    if r.method == mGetDesc then
      match decodeDescArgs (r.parameters.getD .null) with
      | some i' => .iface i'
      | none => .badArgs
    else .iface i

/-- `Call::new(writer, &req).reply_interface_not_found(..)`: suppressed for oneway -/
def localReply (r : Request) (rep : Reply) : List Reply :=
  if isOneway r then [] else [rep]

/-- proxy.rs 85-100: the address to connect to (`none`: the resolver has no answer) and
    the routing state afterwards; a failed lookup still was a `Resolve` call -/
def route (w : World) (st : St) (i : String) : Option String × St :=
  if i == st.lastIface then (some st.address, st)
  else if i == resolverIfaceName then (some w.resolverAddr, { st with lastIface := i, address := w.resolverAddr })
  else match w.resolve st.nResolve i with
    | some a => (some a, { lastIface := i, address := a, nResolve := st.nResolve + 1 })
    | none => (none, { st with nResolve := st.nResolve + 1 })

/-- forward until a reply without `continues`: what was forwarded, and whether the final one was seen -/
def forwardReplies : List Reply → List Reply × Bool
  | [] => ([], false)
  | r :: rs =>
    if r.continues == some true then
      let (f, fin) := forwardReplies rs
      (r :: f, fin)
    else ([r], true)

inductive Step where
  | next (out : List Reply) (st : St) (sent : List (String × Request))
  | stop (out : List Reply) (status : End) (sent : List (String × Request))

/-- one iteration of the loop for a decoded request (proxy.rs 52-150).  A service that
    closes its connection ends the inner reply loop (`read_until` returns 0 once the
    pending data has been delivered) and the outer loop goes on. -/
def step (w : World) (st : St) (r0 : Request) : Step :=
  let r := rewrite r0
  match selectIface r with
  | .noDot => .next (localReply r (errInterfaceNotFound r.method)) st []
  | .badArgs =>
    if r.parameters.isNone then .next (localReply r (errInvalidParameter "parameters")) st []
    else .stop [] .error []          -- `from_value(val)?`
  | .iface i =>
    match route w st i with
    | (none, st') => .next (localReply r (errInterfaceNotFound i)) st' []
    | (some addr, st') =>
      match w.svcAt addr with
      | none => .next (localReply r (errInterfaceNotFound i)) st' []
      | some svc =>
        let res := callOne w.consts svc r
        let sent := [(addr, r)]
        if isOneway r then .next [] st' sent
        else if r.upgrade == some true then
          match res.out with
          | rep :: _ => .stop [rep] (.upgraded addr res.upgraded) sent
          | [] => if res.ok then .stop [] .hang sent else .stop [] (.upgraded addr res.upgraded) sent
        else
          let (fwd, fin) := forwardReplies res.out
          if fin || !res.ok then .next fwd st' sent
          else .stop fwd .hang sent

/-- `proxy::handle` over the decoded frames the client sends (it keeps its side open
    until everything is answered; `eof` = it then closes) -/
def run (w : World) : St → List Frame → Out
  | _, [] => { groups := [], sent := [], status := .eof, consumed := 0 }
  | _, .bad :: _ => { groups := [], sent := [], status := .error, consumed := 1 }
  | st, .req r :: fs =>
    match step w st r with
    | .stop out status sent => { groups := [out], sent := sent, status := status, consumed := 1 }
    | .next out st' sent =>
      let o := run w st' fs
      { groups := out :: o.groups, sent := sent ++ o.sent, status := o.status, consumed := o.consumed + 1 }

/-! ### the byte pumps -/

/-- `proxy::copy`: every chunk read is written out completely, in order -/
def copyLoop : List Bytes → Bytes
  | [] => []
  | c :: cs => c ++ copyLoop cs

/-- the upgraded hand-over (proxy.rs): `buffered` is what the client's `BufReader`
    still holds after the upgrading request, `later` what the client sends
    afterwards (as a read schedule); `svcOut` maps the bytes the upgraded service
    receives to the bytes it sends — including what it sends before it has
    received anything (a service that speaks first).  What the bridge had already
    read of that, together with the reply to the upgrading call, is written to the
    client before the pump starts (847b000), so nothing of `svcOut` is lost. -/
structure Pumped where
  toService : Bytes
  toClient : Bytes
deriving Repr, DecidableEq

def upgradedPump (svcOut : Bytes → Bytes) (buffered : Bytes) (later : List Bytes) : Pumped :=
  let ts := buffered ++ copyLoop later      -- `service_writer.write_all(client_bufreader.buffer())`, then the copy loop
  { toService := ts, toClient := svcOut ts }

/-- `proxy::handle_connect`: `clientReads` / `svcSched` are the read schedules of the
    two copy loops over the complete streams (whether the connection has a child process
    no longer matters; when the client's stream ends the service connection is half-closed
    and the second loop runs until the service closes) -/
def directMode (svcOut : Bytes → Bytes) (clientReads : List Bytes) (svcSched : Bytes → List Bytes) : Pumped :=
  let ts := copyLoop clientReads
  { toService := ts, toClient := copyLoop (svcSched (svcOut ts)) }

/-! ### what a transparent bridge would do (the specification side) -/

/-- the address an interface has at "time" `k` when nothing is cached -/
def resolveAddr (w : World) (k : Nat) (i : String) : Option String :=
  if i == resolverIfaceName then some w.resolverAddr else w.resolve k i

/-- per request: the service the client would talk to directly, and the request it would
    send (`GetInfo` goes to the configured resolver) -/
def target (w : World) (k : Nat) (r0 : Request) : Option (String × Service) :=
  match selectIface (rewrite r0) with
  | .iface i => (resolveAddr w k i).bind fun a => (w.svcAt a).map fun s => (a, s)
  | _ => none

end Proxy
end VV

/-! ### byte level: the client side of `proxy::handle` over a buffered reader -/

namespace VV
namespace Proxy

structure BOut where
  groups : List (List Reply)
  sent : List (String × Request)
  status : End
  buffered : Bytes      -- `client_bufreader.buffer()` when the loop was left
  rest : List Bytes     -- what the client's descriptor has not delivered yet
deriving Repr, DecidableEq

/-- proxy.rs 36-50 around `step`: `read_until(0)` on a `BufReader` over the client's
    descriptor (`reads` = the results of the successive `read` calls), `buf.pop()`,
    `from_slice`.  At EOF a last message without its NUL loses its last byte to the
    unconditional `pop()` before it is parsed. -/
def bridgeLoop (w : World) (dec : Bytes → Frame) : Nat → St → Rd → BOut
  | 0, _, rd => { groups := [], sent := [], status := .error, buffered := [], rest := rd.reads }  -- unreachable, see `bridge`
  | fuel + 1, st, rd =>
    match readUntil rd.buf rd.reads [] with
    | (msg, false, rd') =>
      if msg = [] then { groups := [], sent := [], status := .eof, buffered := [], rest := rd'.reads }
      else match dec msg.dropLast with
        | .bad => { groups := [], sent := [], status := .error, buffered := [], rest := rd'.reads }
        | .req r =>
          match step w st r with
          | .stop out status sent => { groups := [out], sent := sent, status := status, buffered := [], rest := rd'.reads }
          | .next out _ sent => { groups := [out], sent := sent, status := .eof, buffered := [], rest := rd'.reads }
    | (msg, true, rd') =>
      match dec msg with
      | .bad => { groups := [], sent := [], status := .error, buffered := rd'.buf, rest := rd'.reads }
      | .req r =>
        match step w st r with
        | .stop out status sent =>
          { groups := [out], sent := sent, status := status, buffered := rd'.buf, rest := rd'.reads }
        | .next out st' sent =>
          let o := bridgeLoop w dec fuel st' rd'
          { o with groups := out :: o.groups, sent := sent ++ o.sent }

def bridge (w : World) (dec : Bytes → Frame) (reads : List Bytes) : BOut :=
  bridgeLoop w dec (totalLen reads + 1) {} { buf := [], reads := reads }

/-- the decoded frames the bridge sees in a byte stream: the NUL-terminated
    messages, and a trailing unterminated one minus its last byte -/
def clientFrames (dec : Bytes → Frame) (total : Bytes) : List Frame :=
  (frames total).1.map dec ++ (if (frames total).2 = [] then [] else [dec (frames total).2.dropLast])

end Proxy
end VV
