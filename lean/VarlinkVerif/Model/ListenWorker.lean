/-
Model.ListenWorker — the per-connection closure that `listen` hands to the pool
(server.rs, the `pool.execute(move || …)` block), and the independence of
connections.

The closure owns its stream, reader, writer and upgraded-interface state; the
only thing shared between connections is the immutable handler.  A connection's
observable behaviour is therefore a function of its own input.
-/
import VarlinkVerif.Model.Wire
import VarlinkVerif.Model.UpgradedLoop

namespace VV

structure ConnResult where
  out : List Reply          -- replies written in varlink mode
  upgraded : Option String  -- interface the connection was upgraded to
  handedOver : Bytes        -- bytes given to the upgraded handler (buffered tail first, then the rest)
  closedByError : Bool      -- `stream.shutdown()` after a handler error
deriving Repr, DecidableEq

/-- The worker loop on a connection whose peer eventually half-closes:
    `reads` is everything the socket will deliver.  After `handle` returns in
    varlink mode the reader is at EOF and the loop ends; after an upgrade the
    bytes `handle` had buffered are chained in front of the reader for the next
    call, which routes to `call_upgraded`. -/
def ListenWorker.run (c : Consts) (svc : Service) (dec : Bytes → Frame) (reads : List Bytes) : ConnResult :=
  let h := handle c svc dec reads
  match h.status with
  | .eof => { out := h.groups.flatten, upgraded := none, handedOver := [], closedByError := false }
  | .err => { out := h.groups.flatten, upgraded := none, handedOver := [], closedByError := true }
  | .upgraded i =>
    { out := h.groups.flatten, upgraded := some i, handedOver := workerUnread true true h.tail ++ h.rest.flatten, closedByError := false }

/-- The same worker after the switch, with the upgraded handler's behaviour made explicit: `handle()` is called
    again and again on `chain(unread, reader)`; `tail` is what `handle` had buffered behind the upgrading
    request, `rest` the segments the socket still delivers.  Returns what the handler processed, call by call,
    and what it was left with when the peer was done. -/
def ListenWorker.upgradedPhase (p : UpPolicy) (tail : Bytes) (rest : List Bytes) : List Bytes × Bytes :=
  let u := workerUnread true true tail        -- `switched` is true exactly for the call that upgraded
  -- server.rs: `if <Extracted.handOverAtOnce> { continue; }`, otherwise `br.fill_buf()` decides
  if Extracted.handOverAtOnce true u.isEmpty || !rest.isEmpty then
    let r := p.loop (rest.length + 2) u rest
    (r.1, r.2.1)
  else ([], u)

/-! ### many connections -/

/-- an event of the whole server: connection `conn` receives one more segment -/
structure NetEvent where
  conn : Nat
  segment : Bytes
deriving Repr, DecidableEq

/-- what each connection has received so far (in arrival order) -/
def received (evs : List NetEvent) (conn : Nat) : List Bytes :=
  (evs.filter (fun e => e.conn == conn)).map (·.segment)

/-- the server as a whole: every connection is served by its own worker on what
    it has received; the handler value is shared and immutable -/
def serveAll (c : Consts) (svc : Service) (dec : Bytes → Frame) (evs : List NetEvent) (conn : Nat) : ConnResult :=
  ListenWorker.run c svc dec (received evs conn)

end VV
