/-
Model.Pool — the thread pool of /repo/varlink/src/server.rs (`ThreadPool::{new,
execute}`, the worker loop, `Drop`) as a transition system over interleavings.

Threads: the acceptor (the `listen` loop calling `execute`) and the workers.
Atomic steps (each is one lock-protected operation or one channel operation in
the code):

  acceptor   enq     `*num_busy += 1; sender.send(NewJob(job))`  (both by the acceptor, nothing
                      else reads the counter in between)
             grow    read `num_busy`, evaluate the growth condition, maybe push a worker
             drop    `ThreadPool::drop`: one `Terminate` per worker behind the queued jobs
  worker i   deq     `receiver.lock().recv()` takes the head of the FIFO channel
             start   the job's closure begins to run (the connection is being served)
             finish  the closure returns (the peer closed the connection: environment's choice)
             dec     `*num_busy -= 1`, back to `recv`

The growth condition and the number of initial workers are NOT written here:
they come from `Model.Extracted`, regenerated from the Rust source on every run.
Workers are interchangeable, so `deq` is performed by the first idle worker and
the later steps name the job, not the worker.
-/
import VarlinkVerif.Model.Extracted

namespace VV

inductive WPc where
  | idle
  | holding (j : Nat)     -- dequeued, closure not yet running
  | running (j : Nat)     -- the connection is being served
  | done (j : Nat)        -- closure returned, counter not yet decremented
  | terminated
deriving Repr, DecidableEq

inductive Msg where
  | job (j : Nat)
  | terminate
deriving Repr, DecidableEq

inductive AccPc where
  | accepting            -- not inside `execute`
  | sent                 -- inside `execute`, after `send`, before the growth check
  | dropped              -- `ThreadPool::drop` has queued the Terminate messages
deriving Repr, DecidableEq

structure PoolSt where
  max : Nat
  workers : List WPc
  queue : List Msg
  busy : Nat
  acc : AccPc
  nextJob : Nat
  finished : List Nat     -- jobs whose closure has returned (ghost)
deriving Repr, DecidableEq

inductive PStep where
  | enq
  | grow
  | deq
  | start (j : Nat)
  | finish (j : Nat)
  | dec (j : Nat)
  | drop
  | idleGap            -- time passes and nothing happens: the pool has no timers
deriving Repr, DecidableEq

def WPc.hasJob : WPc → Bool
  | .holding _ => true
  | .running _ => true
  | .done _ => true
  | _ => false

def WPc.isRunning : WPc → Bool
  | .running _ => true
  | _ => false

def WPc.isIdle : WPc → Bool
  | .idle => true
  | _ => false

def replaceFirst (p : WPc → Bool) (new : WPc) : List WPc → List WPc
  | [] => []
  | w :: ws => if p w then new :: ws else w :: replaceFirst p new ws

def Pool.init (initial max : Nat) : PoolSt :=
  { max := max, workers := List.replicate (Extracted.initialWorkers initial max) .idle,
    queue := [], busy := 0, acc := .accepting, nextJob := 0, finished := [] }

def heldCount (ws : List WPc) : Nat := (ws.filter WPc.hasJob).length
def runningCount (ws : List WPc) : Nat := (ws.filter WPc.isRunning).length
def liveCount (ws : List WPc) : Nat := (ws.filter (fun w => w != .terminated)).length

/-- is the step enabled? -/
def Pool.enabled (s : PoolSt) : PStep → Bool
  | .enq => s.acc == .accepting
  | .grow => s.acc == .sent
  | .deq => s.workers.any WPc.isIdle && !s.queue.isEmpty
  | .start j => s.workers.any (· == .holding j)
  | .finish j => s.workers.any (· == .running j)
  | .dec j => s.workers.any (· == .done j)
  | .drop => s.acc == .accepting
  | .idleGap => true

/-- one atomic step; a step that is not enabled leaves the state unchanged -/
def Pool.step (s : PoolSt) (st : PStep) : PoolSt :=
  if !Pool.enabled s st then s else
  match st with
  | .enq => { s with busy := s.busy + 1, queue := s.queue ++ [.job s.nextJob],
                     nextJob := s.nextJob + 1, acc := .sent }
  | .grow =>
    if Extracted.growCond s.busy s.workers.length s.max then
      { s with workers := s.workers ++ [.idle], acc := .accepting }
    else { s with acc := .accepting }
  | .deq =>
    match s.queue with
    | [] => s
    | .job j :: q => { s with workers := replaceFirst WPc.isIdle (.holding j) s.workers, queue := q }
    | .terminate :: q => { s with workers := replaceFirst WPc.isIdle .terminated s.workers, queue := q }
  | .start j => { s with workers := replaceFirst (· == .holding j) (.running j) s.workers }
  | .finish j => { s with workers := replaceFirst (· == .running j) (.done j) s.workers,
                          finished := s.finished ++ [j] }
  | .dec j => { s with workers := replaceFirst (· == .done j) .idle s.workers, busy := s.busy - 1 }
  | .drop => { s with queue := s.queue ++ List.replicate (liveCount s.workers) .terminate, acc := .dropped }
  | .idleGap => s

def Pool.run (s : PoolSt) (steps : List PStep) : PoolSt := steps.foldl Pool.step s

/-- connections being served right now -/
def Pool.serving (s : PoolSt) : Nat := runningCount s.workers

def Msg.isJob : Msg → Bool
  | .job _ => true
  | .terminate => false

def Pool.queuedJobs (s : PoolSt) : Nat := (s.queue.filter Msg.isJob).length

/-- An accepted connection is *stranded*: the acceptor is back in `accept`, a
    job waits in the queue, every worker is occupied by a connection that only
    its peer can end, and fewer than `max` connections are in service. -/
def Pool.Stranded (s : PoolSt) : Prop :=
  s.acc = .accepting ∧ Pool.queuedJobs s > 0 ∧ (∀ w ∈ s.workers, w.isRunning = true) ∧
    Pool.serving s < s.max

end VV
