/-
Model.GenEmit — the compile-relevant skeleton of what `varlink_to_rust` emits
(`varlink_generator/src/lib.rs` 170-799): which identifiers it constructs and with which
constructor, which items it puts into the one module namespace, which `fn` names every
trait gets (through `to_snake_case`), which names become `fn` parameters, and the
unboxed type-reference graph of the emitted structs.

`emit : IDL → Emission` mirrors the generator's traversal (including the double emission of
the anonymous types of error parameters).  `verdict` is what the skeleton predicts for
"generator panics / rustc rejects (first phase that fails) / compiles"; it is compared with
the real generator + rustc on every definition of the correspondence run.  That the skeleton
conditions are *sufficient* for rustc to accept is validated by rustc on samples, not proved.
-/
import VarlinkVerif.Model.Gen

namespace VV
namespace Gen

/-! ### `to_snake_case` (lib.rs 140-168), on the ASCII names the grammar admits -/

def splitOnU : List Char → List Char → List (List Char)
  | [], cur => [cur]
  | c :: cs, cur => if c == '_' then cur :: splitOnU cs [] else splitOnU cs (cur ++ [c])

/-- words of one `_`-free segment: a new word starts at an upper-case letter that follows a
    non-upper-case one -/
def segWords : List Char → List Char → Bool → List (List Char)
  | [], buf, _ => [buf]
  | c :: cs, buf, lastUpper =>
    if !buf.isEmpty && buf != ['\''] && c.isUpper && !lastUpper then
      buf :: segWords cs [c.toLower] true
    else segWords cs (buf ++ [c.toLower]) c.isUpper

def toSnakeChars (cs : List Char) : List Char :=
  let lead := cs.takeWhile (· == '_')
  let rest := cs.dropWhile (· == '_')
  let segs := (splitOnU rest []).filter (fun s => !s.isEmpty)
  let words := lead.map (fun _ => ([] : List Char)) ++ segs.flatMap (fun s => segWords s [] false)
  List.intercalate ['_'] words

def toSnakeCase (s : String) : String := String.ofList (toSnakeChars s.toList)

/-- reserved words of the 2018 edition (strict + reserved; the weak keywords `union`, `auto`,
    `default`, `raw`, `safe` and 2024's `gen` are accepted as `fn` names) -/
def rustKeywords : List String :=
  ["as", "break", "const", "continue", "crate", "else", "enum", "extern", "false", "fn", "for", "if", "impl",
   "in", "let", "loop", "match", "mod", "move", "mut", "pub", "ref", "return", "self", "Self", "static", "struct",
   "super", "trait", "true", "type", "un" ++ "safe", "use", "where", "while", "async", "await", "dyn", "abstract",
   "become", "box", "do", "final", "macro", "override", "priv", "typeof", "unsized", "virtual", "yield", "try"]

/-- `syn::parse_str("r#" + n)` / `format_ident!("r#{}", n)` panic for exactly these -/
def notRawable : List String := ["self", "Self", "super", "crate"]

/-! ### emitted names -/

def sub (name f : String) : String := name ++ "_" ++ f

mutual
  /-- structs/enums emitted for a type expression whose anonymous parts are named `name` -/
  def tyItems (name : String) : Ty → List (String × String)
    | .struct fs => fieldsItems name fs ++ [("struct", name)]
    | .enum _ => [("enum", name)]
    | .arr t => tyItems name t
    | .opt t => tyItems name t
    | .map t => match t with
      | .struct [] => []          -- `[string]()` is `varlink::StringHashSet`, nothing emitted
      | _ => tyItems name t
    | _ => []
  def fieldsItems (name : String) : List (String × Ty) → List (String × String)
    | [] => []
    | (f, t) :: rest => tyItems (sub name f) t ++ fieldsItems name rest
end

inductive IdentCtor where
  | new        -- `Ident::new(s, span)`
  | rawParse   -- `syn::parse_str("r#" + s).unwrap()`
  | rawFormat  -- `format_ident!("r#{}", s)`
deriving Repr, DecidableEq, Inhabited

mutual
  def tyIdents (name : String) : Ty → List (IdentCtor × String)
    | .struct fs => (IdentCtor.rawFormat, name) :: fieldsIdents name fs
    | .enum vs => (IdentCtor.rawParse, name) :: vs.map (fun v => (IdentCtor.rawParse, v))
    | .arr t => tyIdents name t
    | .opt t => tyIdents name t
    | .map t => match t with
      | .struct [] => []
      | _ => tyIdents name t
    | _ => []
  def fieldsIdents (name : String) : List (String × Ty) → List (IdentCtor × String)
    | [] => []
    | (f, t) :: rest => (IdentCtor.rawParse, f) :: (tyIdents (sub name f) t ++ fieldsIdents name rest)
end

/-- the names a field of type `t` references without a heap indirection (`Vec`, `HashMap` box) -/
def unboxedTargets (nm : String) : Ty → List String
  | .ref n => [n]
  | .struct _ => [nm]
  | .opt t => unboxedTargets nm t
  | _ => []

/-- the same without looking through `?` (the IDL's own notion of a finitely sized type) -/
def directTargets (nm : String) : Ty → List String
  | .ref n => [n]
  | .struct _ => [nm]
  | _ => []

def fieldsTargets (tg : String → Ty → List String) (name : String) : List (String × Ty) → List String
  | [] => []
  | (f, t) :: rest => tg (sub name f) t ++ fieldsTargets tg name rest

mutual
  /-- one node per emitted struct, with its unboxed references -/
  def tyGraph (tg : String → Ty → List String) (name : String) : Ty → List (String × List String)
    | .struct fs => (name, fieldsTargets tg name fs) :: fieldsGraph tg name fs
    | .arr t => tyGraph tg name t
    | .opt t => tyGraph tg name t
    | .map t => match t with
      | .struct [] => []
      | _ => tyGraph tg name t
    | _ => []
  def fieldsGraph (tg : String → Ty → List String) (name : String) : List (String × Ty) → List (String × List String)
    | [] => []
    | (f, t) :: rest => tyGraph tg (sub name f) t ++ fieldsGraph tg name rest
end

structure Emission where
  /-- every identifier construction, in order -/
  idents : List (IdentCtor × String)
  /-- module-level items `(kind, name)`, in emission order, duplicates included -/
  items : List (String × String)
  /-- trait ↦ its `fn` names -/
  traitFns : List (String × List String)
  /-- variants of the emitted `ErrorKind` -/
  variants : List String
  /-- identifiers bound as parameters of `fn`s that have a body -/
  params : List String
  /-- parameters whose type is an enum that has a variant of the parameter's name
      (deny-by-default lint `bindings_with_variant_name`, E0170) -/
  variantParams : List String
  /-- unboxed references between emitted structs -/
  typeRefs : List (String × List String)
  /-- `CallTrait` methods the emitted code invokes with method syntax on a `Call` -/
  callSyntax : List String
deriving Repr, Inhabited

def argsName (n : String) : String := n ++ "_Args"
def replyName (n : String) : String := n ++ "_Reply"
def callName (n : String) : String := "Call_" ++ n
def replyFn (e : String) : String := "reply_" ++ toSnakeCase e

def structItems (name : String) (fs : List (String × Ty)) : List (String × String) :=
  fieldsItems name fs

/-- fields that become `fn` parameters of an enum type with a variant named like the field -/
def variantClash (env : Env) (fs : List (String × Ty)) : List String :=
  (fs.filter fun (f, t) => match resolve env t with
    | .enum vs => vs.contains f
    | _ => false).map (·.1)

def emit (i : IDL) : Emission :=
  let errAnon := i.errors.flatMap fun e => fieldsItems (argsName e.name) e.parm
  { idents :=
      -- generate_error_code
      (i.errors.flatMap fun e =>
        (IdentCtor.new, argsName e.name) :: (fieldsIdents (argsName e.name) e.parm ++ [(IdentCtor.new, replyFn e.name)])) ++
      -- typedefs
      (i.types.flatMap fun (n, d) => tyIdents n d) ++
      -- VError::to_tokenstream
      (i.errors.flatMap fun e => (IdentCtor.new, argsName e.name) :: fieldsIdents (argsName e.name) e.parm) ++
      -- methods
      (i.methods.flatMap fun m =>
        [(IdentCtor.new, argsName m.name), (IdentCtor.new, replyName m.name), (IdentCtor.new, callName m.name),
         (IdentCtor.new, toSnakeCase m.name)] ++
        fieldsIdents (argsName m.name) m.input ++ fieldsIdents (replyName m.name) m.output)
    items :=
      [("enum", "ErrorKind"), ("struct", "Error"), ("type", "Result")] ++ errAnon ++ [("trait", "VarlinkCallError")] ++
      (i.types.flatMap fun (n, d) => tyItems n d) ++
      (i.errors.flatMap fun e => fieldsItems (argsName e.name) e.parm ++ [("struct", argsName e.name)]) ++
      (i.methods.flatMap fun m =>
        fieldsItems (argsName m.name) m.input ++ fieldsItems (replyName m.name) m.output ++
        [("struct", replyName m.name), ("struct", argsName m.name), ("trait", callName m.name)]) ++
      [("trait", "VarlinkInterface"), ("trait", "VarlinkClientInterface"), ("struct", "VarlinkClient"),
       ("struct", "VarlinkInterfaceProxy"), ("fn", "new")]
    traitFns :=
      [("VarlinkCallError", i.errors.map fun e => replyFn e.name)] ++
      (i.methods.map fun m => (callName m.name, ["reply"])) ++
      [("VarlinkInterface", (i.methods.map fun m => toSnakeCase m.name) ++ ["call_upgraded"]),
       ("VarlinkClientInterface", i.methods.map fun m => toSnakeCase m.name)]
    variants := ["Varlink_Error", "VarlinkReply_Error"] ++ i.errors.map (·.name)
    params :=
      (i.errors.flatMap fun e => e.parm.map (·.1)) ++
      (i.methods.flatMap fun m => m.input.map (·.1) ++ m.output.map (·.1))
    variantParams :=
      (i.errors.flatMap fun e => variantClash i.env e.parm) ++
      (i.methods.flatMap fun m => variantClash i.env m.input ++ variantClash i.env m.output)
    typeRefs :=
      (i.types.flatMap fun (n, d) => tyGraph unboxedTargets n d) ++
      (i.errors.flatMap fun e => tyGraph unboxedTargets (argsName e.name) (.struct e.parm)) ++
      (i.methods.flatMap fun m =>
        tyGraph unboxedTargets (argsName m.name) (.struct m.input) ++ tyGraph unboxedTargets (replyName m.name) (.struct m.output))
    callSyntax :=
      ["reply_struct", "reply_method_not_found"] ++
      (if i.methods.any (fun m => !m.input.isEmpty) then ["reply_invalid_parameter"] else []) }

/-! ### conditions on the skeleton -/

def panics (c : IdentCtor × String) : Bool :=
  c.1 != IdentCtor.new && notRawable.contains c.2

/-- names imported into the module (`use std::io::BufRead; use std::sync::{Arc, RwLock};
    use varlink::{self, CallTrait};`): a second definition is E0255 -/
def importedNames : List String := ["BufRead", "Arc", "RwLock", "CallTrait", "varlink"]

/-- prelude names the emitted code uses unqualified; a user item of that name shadows them -/
def shadowSensitive : List String := ["Box", "From", "Option", "Send", "Sync", "Vec", "String"]

/-- tuple/unit items in the value namespace of the module: a `fn` parameter of that name is a
    pattern that refers to them (E0530 / E0308) -/
def valuePatterns : List String := ["Some", "None", "Ok", "Err", "Error"]

def hasDup : List String → Bool
  | [] => false
  | x :: xs => xs.contains x || hasDup xs

/-- remove every node none of whose edges leads to a still-alive node -/
def peel (g : List (String × List String)) (alive : List String) : List String :=
  alive.filter fun n => g.any fun (m, es) => m == n && es.any (alive.contains ·)

def peelN (g : List (String × List String)) : Nat → List String → List String
  | 0, alive => alive
  | k + 1, alive => peelN g k (peel g alive)

/-- no cycle: peeling sinks `|nodes|` times leaves nothing -/
def acyclic (g : List (String × List String)) : Bool :=
  (peelN g g.length (g.map (·.1))).isEmpty

def Emission.noPanic (e : Emission) : Bool := !(e.idents.any panics)
def Emission.allFns (e : Emission) : List String := e.traitFns.flatMap (·.2)
def Emission.noKeyword (e : Emission) : Bool :=
  !(e.allFns.any rustKeywords.contains) && !(e.variants.any rustKeywords.contains)
def Emission.itemNames (e : Emission) : List String := e.items.map (·.2)
def Emission.itemsDistinct (e : Emission) : Bool :=
  !(hasDup e.itemNames) && !(e.itemNames.any importedNames.contains)
def Emission.fnsDistinct (e : Emission) : Bool := e.traitFns.all fun (_, fs) => !(hasDup fs)
def Emission.noCycle (e : Emission) : Bool := acyclic e.typeRefs
def Emission.noAmbiguity (e : Emission) : Bool :=
  match e.traitFns.find? (·.1 == "VarlinkCallError") with
  | some (_, fs) => !(fs.any e.callSyntax.contains)
  | none => true
def Emission.noShadow (e : Emission) : Bool :=
  !(e.itemNames.any shadowSensitive.contains) && !(e.params.any valuePatterns.contains)

def Emission.noLint (e : Emission) : Bool := e.variantParams.isEmpty

/-! ### the well-formedness hypotheses of C09 (decidable) -/

mutual
  def tyRefs : Ty → List String
    | .ref n => [n]
    | .struct fs => fieldsRefs fs
    | .arr t => tyRefs t
    | .map t => tyRefs t
    | .opt t => tyRefs t
    | _ => []
  def fieldsRefs : List (String × Ty) → List String
    | [] => []
    | (_, t) :: rest => tyRefs t ++ fieldsRefs rest
end

mutual
  /-- every list of sibling names (struct fields, enum variants) below a type -/
  def tySiblings : Ty → List (List String)
    | .struct fs => fs.map (·.1) :: fieldsSiblings fs
    | .enum vs => [vs]
    | .arr t => tySiblings t
    | .map t => tySiblings t
    | .opt t => tySiblings t
    | _ => []
  def fieldsSiblings : List (String × Ty) → List (List String)
    | [] => []
    | (_, t) :: rest => tySiblings t ++ fieldsSiblings rest
end

def IDL.allStructs (i : IDL) : List (List (String × Ty)) :=
  (i.errors.map (·.parm)) ++ (i.methods.flatMap fun m => [m.input, m.output])

def IDL.allRefs (i : IDL) : List String :=
  (i.types.flatMap fun (_, d) => tyRefs d) ++ (i.allStructs.flatMap fieldsRefs)

/-- every type reference names a typedef -/
def resolvedB (i : IDL) : Bool := i.allRefs.all fun n => (lookupTy n i.types).isSome

def IDL.memberNames (i : IDL) : List String :=
  i.types.map (·.1) ++ i.methods.map (·.name) ++ i.errors.map (·.name)

def IDL.allSiblings (i : IDL) : List (List String) :=
  (i.types.flatMap fun (_, d) => tySiblings d) ++ (i.allStructs.flatMap fun fs => tySiblings (.struct fs))

/-- sibling names are distinct: members of the interface (the parser enforces this one), fields of
    every struct, variants of every enum -/
def siblingDistinctB (i : IDL) : Bool :=
  !(hasDup i.memberNames) && i.allSiblings.all fun l => !(hasDup l)

def IDL.graph (tg : String → Ty → List String) (i : IDL) : List (String × List String) :=
  (i.types.flatMap fun (n, d) => tyGraph tg n d) ++
  (i.errors.flatMap fun e => tyGraph tg (argsName e.name) (.struct e.parm)) ++
  (i.methods.flatMap fun m => tyGraph tg (argsName m.name) (.struct m.input) ++ tyGraph tg (replyName m.name) (.struct m.output))

/-- finitely sized in the IDL's sense: no type contains itself other than through `?`, `[]`, `[string]` -/
def finiteB (i : IDL) : Bool := acyclic (i.graph directTargets)

def isAlnum (c : Char) : Bool := c.isAlphanum
/-- grammar rule `name`: `[A-Z][A-Za-z0-9]*` -/
def nameOk (s : String) : Bool :=
  match s.toList with
  | c :: cs => c.isUpper && cs.all isAlnum
  | [] => false
/-- grammar rule `field_name`: `[A-Za-z](_?[A-Za-z0-9])*` (here: letters, digits, `_`; first a letter;
    never ending in `_`) -/
def fieldOk (s : String) : Bool :=
  match s.toList with
  | c :: cs => c.isAlpha && cs.all (fun x => isAlnum x || x == '_') && (c :: cs).getLast? != some '_'
  | [] => false

def IDL.fieldNames (i : IDL) : List String := i.allSiblings.flatten

/-- names as the grammar admits them -/
def wfNamesB (i : IDL) : Bool := i.memberNames.all nameOk && i.fieldNames.all fieldOk

/-! ### `Safe`: the guard the current generator forces (one component per known class) -/

/-- S1 `raw-ident`: no field, variant or typedef name the generator wraps in `r#…` is one of
    `self`, `Self`, `super`, `crate` -/
def safeRawIdent (i : IDL) : Bool :=
  !((i.types.map (·.1) ++ i.fieldNames).any notRawable.contains)

/-- S2 `kw-fn`: no method whose snake-case name is a reserved word; no error named `Self` -/
def safeKwFn (i : IDL) : Bool :=
  !(i.methods.any fun m => rustKeywords.contains (toSnakeCase m.name)) &&
  !(i.errors.any fun e => rustKeywords.contains e.name)

/-- S3 `snake-dup`: snake-case names of the methods pairwise distinct and not `call_upgraded`;
    those of the errors pairwise distinct -/
def safeSnake (i : IDL) : Bool :=
  !(hasDup ((i.methods.map fun m => toSnakeCase m.name) ++ ["call_upgraded"])) &&
  !(hasDup (i.errors.map fun e => replyFn e.name))

/-- S4 `err-anon-dup`: no error parameter whose type makes the generator emit a struct/enum -/
def safeErrAnon (i : IDL) : Bool :=
  i.errors.all fun e => (fieldsItems (argsName e.name) e.parm).isEmpty

/-- names of the fixed items of every generated module -/
def fixedItems : List String :=
  ["ErrorKind", "Error", "Result", "VarlinkCallError", "VarlinkInterface", "VarlinkClientInterface",
   "VarlinkClient", "VarlinkInterfaceProxy", "new"]

/-- S5 `reserved-type`: no typedef named like a fixed item, an import or a shadow-sensitive prelude name -/
def safeReserved (i : IDL) : Bool :=
  !((i.types.map (·.1)).any fun n => fixedItems.contains n || importedNames.contains n || shadowSensitive.contains n)

/-- the names of the items the generator derives from the definition itself, in emission order:
    typedefs with their anonymous types (`T_a_b`), `<E>_Args`, and per method the anonymous types
    (`Foo_Args_x`), `<M>_Reply`, `<M>_Args` and the trait `Call_<M>` -/
def IDL.moduleNames (i : IDL) : List String :=
  (i.types.flatMap fun (n, d) => (tyItems n d).map (·.2)) ++
  (i.errors.map fun e => argsName e.name) ++
  (i.methods.flatMap fun m =>
    ((fieldsItems (argsName m.name) m.input) ++ (fieldsItems (replyName m.name) m.output)).map (·.2) ++
    [replyName m.name, argsName m.name, callName m.name])

/-- S6 `path-dup`: the derived names are pairwise distinct (fails for fields `a_b` and `a`→`b`, for a
    typedef `Call` with an anonymous field named like a method, for a method `Call` beside a method
    `Args` or `Reply`, for an error `Call` beside a method `Args`, …) -/
def safePaths (i : IDL) : Bool := !(hasDup i.moduleNames)

/-- S7 `opt-cycle`: no type contains itself through `?` (the generator emits `Option<T>`, not `Option<Box<T>>`) -/
def safeOptCycle (i : IDL) : Bool := acyclic (i.graph unboxedTargets)

/-- S8 `err-fn-shadow`: no `reply_<error>` helper named like a `CallTrait` method the emitted code calls -/
def safeErrFn (i : IDL) : Bool :=
  !((i.errors.map fun e => replyFn e.name).any
      (["reply_struct", "reply_method_not_found"] ++
       (if i.methods.any (fun m => !m.input.isEmpty) then ["reply_invalid_parameter"] else [])).contains)

/-- S9 `param-shadow`: no method parameter / reply member / error parameter named
    `Some`, `None`, `Ok`, `Err` or `Error` -/
def safeParams (i : IDL) : Bool :=
  !(((i.errors.flatMap fun e => e.parm.map (·.1)) ++
     (i.methods.flatMap fun m => m.input.map (·.1) ++ m.output.map (·.1))).any valuePatterns.contains)

/-- S10 `param-variant`: no method parameter / reply member / error parameter of an enum type that has a
    variant of the same name -/
def safeParamVariant (i : IDL) : Bool :=
  ((i.errors.flatMap fun e => variantClash i.env e.parm) ++
   (i.methods.flatMap fun m => variantClash i.env m.input ++ variantClash i.env m.output)).isEmpty

/-- the classes (tags) whose guard fails -/
def failedClasses (i : IDL) : List String :=
  (if safeRawIdent i then [] else ["raw-ident"]) ++
  (if safeKwFn i then [] else ["kw-fn"]) ++
  (if safeSnake i then [] else ["snake-dup"]) ++
  (if safeErrAnon i then [] else ["err-anon-dup"]) ++
  (if safeReserved i then [] else ["reserved-type"]) ++
  (if safePaths i then [] else ["path-dup"]) ++
  (if safeOptCycle i then [] else ["opt-cycle"]) ++
  (if safeErrFn i then [] else ["err-fn-shadow"]) ++
  (if safeParams i then [] else ["param-shadow"]) ++
  (if safeParamVariant i then [] else ["param-variant"])

def safeB (i : IDL) : Bool := (failedClasses i).isEmpty

/-! ### predicted outcome of generator + rustc -/

inductive Verdict where
  | panic
  | rustcFail (cat : String)
  | ok
deriving Repr, DecidableEq, Inhabited

/-- the failure rustc reports that ranks first in: syntax, duplicate definitions, unresolved names,
    shadowed prelude names / value patterns, infinitely sized types, ambiguous method calls, the
    deny-by-default lint.  rustc reports the failures of most classes side by side; the order only
    matters where one hides another (a shadowed `Option` hides the size cycle, a shadowed `From`
    hides the ambiguity, a type error hides the lint), and there the hiding class ranks first. -/
def verdict (i : IDL) : Verdict :=
  let e := emit i
  if !e.noPanic then .panic
  else if !e.noKeyword then .rustcFail "syntax"
  else if !e.itemsDistinct || !e.fnsDistinct || !(i.allSiblings.all fun l => !(hasDup l)) then .rustcFail "dup"
  else if !(resolvedB i) then .rustcFail "unresolved"
  else if !e.noShadow then .rustcFail "shadow"
  else if !e.noCycle then .rustcFail "infinite"
  else if !e.noAmbiguity then .rustcFail "ambiguous"
  else if !e.noLint then .rustcFail "lint"
  else .ok

end Gen
end VV

namespace VV
namespace Gen

/-- every skeleton condition at once -/
def Emission.clean (e : Emission) : Bool :=
  e.noPanic && e.noKeyword && e.itemsDistinct && e.fnsDistinct && e.noCycle && e.noAmbiguity && e.noShadow && e.noLint

/-- a `type` definition is a struct or an enum (the grammar has nothing else) -/
def isDef : Ty → Bool
  | .struct _ => true
  | .enum _ => true
  | _ => false

def typedefsAreDefs (i : IDL) : Bool := i.types.all fun p => isDef p.2

end Gen
end VV
