/-
Model.CertTime — the lifetime of client ids in the certification service
(`ClientIds::check_lifetime_timeout`, main.rs 713-733; called at the start of
`check_client_id`): `lifetimes` is a queue of (time of `Start`, id) in the order
the ids were handed out; as long as the FRONT entry is older than `max_lifetime`
it is popped and its id removed from `contexts`.

The comparison and the constant are EXTRACTED from the Rust source on every run
(Model.ExtractedCert); time is in milliseconds.  Model.Cert itself is untimed:
`C19_lifetime_sweep_is_noop_within_12h` shows that this is exact as long as no
live id is older than 12 h.
-/
import VarlinkVerif.Model.Cert
import VarlinkVerif.Model.ExtractedCert

namespace VV

/-- `contexts.remove(id)` -/
def CertState.remove (st : CertState) (id : String) : CertState := st.filter fun e => e.1 != id

/-- the loop of `check_lifetime_timeout` at time `now` (ms): pop expired ids off the front -/
def sweep (now : Nat) : List (Nat × String) → CertState → List (Nat × String) × CertState
  | [], st => ([], st)
  | (born, id) :: rest, st =>
    if ExtractedCert.expired (now - born) ExtractedCert.maxLifetime then sweep now rest (st.remove id)
    else ((born, id) :: rest, st)

/-- the service's table with the registration times -/
structure TimedState where
  st : CertState := []
  born : List (Nat × String) := []

/-- does this request get as far as `check_client_id` (a step method with well-typed parameters)? -/
def reachesCheck (cvt : Int → Nat) (req : Request) : Bool :=
  match stepOfMethod req.method, req.parameters with
  | some k, some p =>
    (match decode cvt k.argsTy p with
     | some args => (clientIdOf args).isSome
     | none => false)
  | _, _ => false

/-- one call at time `now` -/
def certHandleTimed (cvt : Int → Nat) (now : Nat) (ts : TimedState) (fresh : String) (req : Request) :
    TimedState × List Act :=
  let (born1, st1) := if reachesCheck cvt req && req.method != startMethod then sweep now ts.born ts.st
                      else (ts.born, ts.st)
  let (st2, acts) := certHandle cvt st1 fresh req
  let started := req.method == startMethod && startOk req
  ({ st := st2, born := if started then born1 ++ [(now, fresh)] else born1 }, acts)

/-- 12 hours in milliseconds -/
def twelveHoursMs : Nat := 12 * 60 * 60 * 1000

end VV
