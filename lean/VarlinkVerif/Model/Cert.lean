/-
Model.Cert — the certification service `org.varlink.certification` as
implemented in /repo/varlink-certification/src/main.rs (server half):

* per-client state `ClientIds.contexts : client id ↦ expected test` (686-749);
  `check_client_id` looks the id up, compares the expected test and — if it
  matches — ADVANCES it to the next test, all before any parameter check.  A
  failed parameter check does not undo that.
* `new_client_id` inserts the fresh id at `Test01` (overwriting an equal id).
  The id itself (a hash of `Instant::now()`) is a parameter `fresh` of a step.
* the generated dispatcher (org_varlink_certification.rs `VarlinkInterfaceProxy::call`):
  full method string → `from_value::<TestNN_Args>(parameters)`; absent parameters
  → InvalidParameter("parameters"); decode error → InvalidParameter(<serde text>)
  and `Err` (the connection is closed)
* `check_call_{normal,more,oneway}` (206-358): the call-mode flags and
  `wants == from_value::<Args>(parameters)` on TYPED values (derived `PartialEq`)
* canonical values per step (360-684), `new_mytype` (163-204)
* one step holds the `RwLock` write guard for the whole of `check_client_id` /
  `new_client_id`: a step is atomic with respect to the state, so concurrent
  connections are interleavings of steps.

Not modelled: `check_lifetime_timeout` (ids expire after 12 h).
Replies go through `Call::reply_struct` of Model.Wire (`Act`), so `oneway`
suppresses them and `continues` is set as the library does.
-/
import VarlinkVerif.Model.Serde

namespace VV

inductive Step where
  | t01 | t02 | t03 | t04 | t05 | t06 | t07 | t08 | t09 | t10 | t11 | fin
deriving Repr, DecidableEq, Inhabited

namespace Step

def next : Step → Step
  | t01 => t02 | t02 => t03 | t03 => t04 | t04 => t05 | t05 => t06 | t06 => t07
  | t07 => t08 | t08 => t09 | t09 => t10 | t10 => t11 | t11 => fin | fin => fin

def name : Step → String
  | t01 => "Test01" | t02 => "Test02" | t03 => "Test03" | t04 => "Test04" | t05 => "Test05"
  | t06 => "Test06" | t07 => "Test07" | t08 => "Test08" | t09 => "Test09" | t10 => "Test10"
  | t11 => "Test11" | fin => "End"

def method : Step → String
  | t01 => "org.varlink.certification.Test01" | t02 => "org.varlink.certification.Test02"
  | t03 => "org.varlink.certification.Test03" | t04 => "org.varlink.certification.Test04"
  | t05 => "org.varlink.certification.Test05" | t06 => "org.varlink.certification.Test06"
  | t07 => "org.varlink.certification.Test07" | t08 => "org.varlink.certification.Test08"
  | t09 => "org.varlink.certification.Test09" | t10 => "org.varlink.certification.Test10"
  | t11 => "org.varlink.certification.Test11" | fin => "org.varlink.certification.End"

def all : List Step := [t01, t02, t03, t04, t05, t06, t07, t08, t09, t10, t11, fin]

end Step

def certName := "org.varlink.certification"
def startMethod := "org.varlink.certification.Start"

/-- the dispatcher's `match req.method.as_ref()` (without `Start`) -/
def stepOfMethod (m : String) : Option Step :=
  Step.all.find? fun k => k.method == m

/-! ### per-client state -/

/-- `ClientIds.contexts` (a `HashMap`): an association list, newest binding first -/
abbrev CertState := List (String × Step)

def CertState.empty : CertState := []

/-- `contexts.get(id)` -/
def CertState.get : CertState → String → Option Step
  | [], _ => none
  | (k, s) :: rest, id => if k = id then some s else CertState.get rest id

/-- `contexts.insert(id, k)` / `context.test = k` -/
def CertState.set (st : CertState) (id : String) (k : Step) : CertState := (id, k) :: st

/-- `check_client_id(client_id, test, next_test)` -/
def checkClientId (st : CertState) (id : String) (k : Step) : Option CertState :=
  match st.get id with
  | some s => if s = k then some (st.set id k.next) else none
  | none => none

/-! ### call modes -/

inductive Mode where
  | normal | more | oneway
deriving Repr, DecidableEq

def flagTrue (o : Option Bool) : Bool := o == some true

/-- the flag patterns of `check_call_normal` / `_more` / `_oneway` -/
def modeOk : Mode → Request → Bool
  | .normal, r => !flagTrue r.more && !flagTrue r.oneway && !flagTrue r.upgrade
  | .more, r => flagTrue r.more && !flagTrue r.oneway && !flagTrue r.upgrade
  | .oneway, r => flagTrue r.oneway && !flagTrue r.more && !flagTrue r.upgrade

def Step.mode : Step → Mode
  | .t10 => .more
  | .t11 => .oneway
  | _ => .normal

/-! ### the types of the interface (generated bindings: no `skip_serializing_if`) -/

def fld (n : String) (t : Ty) : String × Bool × Ty := (n, false, t)

def tyFourStruct : Ty := .struct [fld "bool" .bool, fld "int" .int, fld "float" .float, fld "string" .str]
def tyFirstSecond : Ty := .struct [fld "first" .int, fld "second" .str]
def tyInterfaceFoo : Ty := .enum ["foo", "bar", "baz"]
def tyInterface : Ty := .struct
  [fld "foo" (.opt (.vec (.opt (.map tyInterfaceFoo)))),
   fld "anon" (.struct [fld "foo" .bool, fld "bar" .bool])]
def tyMyType : Ty := .struct
  [fld "object" .value, fld "enum" (.enum ["one", "two", "three"]), fld "struct" tyFirstSecond,
   fld "array" (.vec .str), fld "dictionary" (.map .str), fld "stringset" .set,
   fld "nullable" (.opt .str), fld "nullable_array_struct" (.opt (.vec tyFirstSecond)),
   fld "interface" tyInterface]

/-- `TestNN_Args` / `End_Args` -/
def Step.argsTy : Step → Ty
  | .t01 => .struct [fld "client_id" .str]
  | .t02 => .struct [fld "client_id" .str, fld "bool" .bool]
  | .t03 => .struct [fld "client_id" .str, fld "int" .int]
  | .t04 => .struct [fld "client_id" .str, fld "float" .float]
  | .t05 => .struct [fld "client_id" .str, fld "string" .str]
  | .t06 => .struct [fld "client_id" .str, fld "bool" .bool, fld "int" .int, fld "float" .float, fld "string" .str]
  | .t07 => .struct [fld "client_id" .str, fld "struct" tyFourStruct]
  | .t08 => .struct [fld "client_id" .str, fld "map" (.map .str)]
  | .t09 => .struct [fld "client_id" .str, fld "set" .set]
  | .t10 => .struct [fld "client_id" .str, fld "mytype" tyMyType]
  | .t11 => .struct [fld "client_id" .str, fld "last_more_replies" (.vec .str)]
  | .fin => .struct [fld "client_id" .str]

/-- `TestNN_Reply` / `End_Reply` -/
def Step.replyTy : Step → Ty
  | .t01 => .struct [fld "bool" .bool]
  | .t02 => .struct [fld "int" .int]
  | .t03 => .struct [fld "float" .float]
  | .t04 => .struct [fld "string" .str]
  | .t05 => tyFourStruct
  | .t06 => .struct [fld "struct" tyFourStruct]
  | .t07 => .struct [fld "map" (.map .str)]
  | .t08 => .struct [fld "set" .set]
  | .t09 => .struct [fld "mytype" tyMyType]
  | .t10 => .struct [fld "string" .str]
  | .t11 => .struct []
  | .fin => .struct [fld "all_ok" .bool]

/-! ### canonical values -/

def f64One : Nat := 4607182418800017408      -- 1.0
def f64Pi : Nat := 4614256656552045848       -- std::f64::consts::PI

def fourVal : TVal := .struct [.bool false, .int 2, .float f64Pi, .str "a lot of string"]
def mapVal : TVal := .map [("bar", .str "Bar"), ("foo", .str "Foo")]
def setVal : TVal := .set ["one", "three", "two"]

/-- `new_mytype()` -/
def myTypeVal : TVal := .struct
  [.value (.obj [("method", .str "org.varlink.certification.Test09"),
                 ("parameters", .obj [("map", .obj [("bar", .str "Bar"), ("foo", .str "Foo")])])]),
   .enum "two",
   .struct [.int 1, .str "2"],
   .vec [.str "one", .str "two", .str "three"],
   mapVal,
   setVal,
   .none,
   .none,
   .struct [.some (.vec [.none, .some (.map [("bar", .enum "bar"), ("foo", .enum "foo")]),
                         .none, .some (.map [("one", .enum "foo"), ("two", .enum "bar")])]),
            .struct [.bool true, .bool false]]]

def replyNumber (i : Nat) : String := "Reply number " ++ toString i

/-- the last ten `Test10` replies: `"Reply number 1" … "Reply number 10"` -/
def lastMoreReplies : List String := (List.range 10).map fun i => replyNumber (i + 1)

/-- the value a step's parameters are compared with (`wants`), for client `cid` -/
def Step.wants (k : Step) (cid : String) : TVal :=
  match k with
  | .t01 => .struct [.str cid]
  | .t02 => .struct [.str cid, .bool true]
  | .t03 => .struct [.str cid, .int 1]
  | .t04 => .struct [.str cid, .float f64One]
  | .t05 => .struct [.str cid, .str "ping"]
  | .t06 => .struct [.str cid, .bool false, .int 2, .float f64Pi, .str "a lot of string"]
  | .t07 => .struct [.str cid, fourVal]
  | .t08 => .struct [.str cid, mapVal]
  | .t09 => .struct [.str cid, setVal]
  | .t10 => .struct [.str cid, myTypeVal]
  | .t11 => .struct [.str cid, .vec (lastMoreReplies.map .str)]
  | .fin => .struct [.str cid]

/-- what a successful step replies (typed) -/
def Step.replyVal : Step → TVal
  | .t01 => .struct [.bool true]
  | .t02 => .struct [.int 1]
  | .t03 => .struct [.float f64One]
  | .t04 => .struct [.str "ping"]
  | .t05 => fourVal
  | .t06 => .struct [fourVal]
  | .t07 => .struct [mapVal]
  | .t08 => .struct [setVal]
  | .t09 => .struct [myTypeVal]
  | .t10 => .struct [.str ""]
  | .t11 => .struct []
  | .fin => .struct [.bool true]

def paramsReply (t : Ty) (v : TVal) : Reply := Reply.params (some (toValue t v))

/-- what the method implementation does with its `Call` after all checks passed -/
def Step.successActs : Step → List Act
  | .t10 =>
    [.setContinues true] ++
    ((List.range 9).map fun i => Act.reply (paramsReply (Step.replyTy .t10) (.struct [.str (replyNumber (i + 1))]))) ++
    [.setContinues false, .reply (paramsReply (Step.replyTy .t10) (.struct [.str (replyNumber 10)]))]
  | .t11 => []
  | k => [.reply (paramsReply k.replyTy k.replyVal)]

def startReply (fresh : String) : Reply :=
  paramsReply (.struct [fld "client_id" .str]) (.struct [.str fresh])

/-! ### error replies -/

def sClientIdError := "org.varlink.certification.ClientIdError"
def sCertificationError := "org.varlink.certification.CertificationError"

def clientIdError : Reply := Reply.err sClientIdError none

/-- `serde_json::to_value(call.get_request())` -/
def gotOf (req : Request) : Json := toValue tyRequest req.toT

def certError (wants got : Json) : Reply :=
  Reply.err sCertificationError (some (.obj [("got", got), ("wants", wants)]))

/-- the `wants` member for a test step: the canonical request as JSON -/
def Step.wantsJson (k : Step) (cid : String) : Json :=
  gotOf { method := k.method, parameters := some (toValue k.argsTy (k.wants cid)) }

def startWantsJson : Json := gotOf { oneway := some false, method := startMethod }

/-! ### the interface -/

def clientIdOf : TVal → Option String
  | .struct (.str cid :: _) => some cid
  | _ => none

/-- `start`'s `check_call_expr!` pattern -/
def startOk (req : Request) : Bool :=
  modeOk .normal req &&
    match req.parameters with
    | none => true
    | some (.obj []) => true
    | _ => false

variable (cvt : Int → Nat)

/-- one call to the interface: dispatcher + method implementation.  Returns the
    new state and what is done with the `Call`.  `fresh` is the id
    `new_client_id` would hand out now. -/
def certHandle (st : CertState) (fresh : String) (req : Request) : CertState × List Act :=
  if req.method = startMethod then
    if startOk req then (st.set fresh .t01, [.reply (startReply fresh)])
    else (st, [.reply (certError startWantsJson (gotOf req))])
  else
    match stepOfMethod req.method with
    | none => (st, [.reply (errMethodNotFound req.method)])
    | some k =>
      match req.parameters with
      | none => (st, [.reply (errInvalidParameter "parameters")])
      | some p =>
        match decode cvt k.argsTy p with
        | none => (st, [.replyTry (errInvalidParameter "*"), .fail])
        | some args =>
          match clientIdOf args with
          | none => (st, [.fail])
          | some cid =>
            match checkClientId st cid k with
            | none => (st, [.reply clientIdError])
            | some st' =>
              if modeOk k.mode req && TVal.teq (k.wants cid) args then (st', k.successActs)
              else (st', [.reply (certError (k.wantsJson cid) (gotOf req))])

/-- the interface as one registration of a `VarlinkService`, at a given state -/
def certIface (desc : String) (st : CertState) (fresh : String) : Iface :=
  { name := certName, desc := desc, script := fun req => (certHandle cvt st fresh req).2 }

def certService (desc : String) (st : CertState) (fresh : String) : Service :=
  { vendor := "org.varlink", product := "Varlink Certification Suite", version := "0.1",
    url := "http://varlink.org", ifaces := [certIface cvt desc st fresh] }

/-- the replies the interface writes for a request dispatched to it -/
def certReplies (st : CertState) (fresh : String) (req : Request) : List Reply :=
  (runActs req (certHandle cvt st fresh req).2 {}).1.out

/-- one request on some connection of the server process: replies, whether the
    connection stays open, new state.  Requests that are not routed to the
    interface leave the state alone. -/
def certServe (c : Consts) (desc : String) (st : CertState) (fresh : String) (req : Request) :
    CertState × CallResult :=
  let res := callOne c (certService cvt desc st fresh) req
  let st' := if ifaceOf req.method = some certName then (certHandle cvt st fresh req).1 else st
  (st', res)

/-! ### the canonical client (`run_client`) -/

/-- position 0 = `Start`, 1..12 = `Test01` … `End` -/
def stepAt : Nat → Option Step
  | 1 => some .t01 | 2 => some .t02 | 3 => some .t03 | 4 => some .t04 | 5 => some .t05
  | 6 => some .t06 | 7 => some .t07 | 8 => some .t08 | 9 => some .t09 | 10 => some .t10
  | 11 => some .t11 | 12 => some .fin
  | _ => none

def modeFlags (k : Step) (r : Request) : Request :=
  match k.mode with
  | .normal => r
  | .more => { r with more := some true }
  | .oneway => { r with oneway := some true }

/-- the canonical request of step `k` by client `cid` -/
def canonStepReq (k : Step) (cid : String) : Request :=
  modeFlags k { method := k.method, parameters := some (toValue k.argsTy (k.wants cid)) }

def canonStartReq : Request := { method := startMethod }

def canonReq (pos : Nat) (cid : String) : Request :=
  match stepAt pos with
  | some k => canonStepReq k cid
  | none => canonStartReq

/-- what the canonical client expects back at a position -/
def successRepliesAt (pos : Nat) (cid : String) : List Reply :=
  match stepAt pos with
  | some k => (runActs (canonStepReq k cid) k.successActs {}).1.out
  | none => [startReply cid]

/-- progress of a canonical client -/
inductive Prog where
  | start                 -- about to call `Start`
  | at (k : Step)         -- about to call step `k`
  | done
deriving Repr, DecidableEq, Inhabited

def Prog.adv : Prog → Prog
  | .start => .at .t01
  | .at .fin => .done
  | .at k => .at k.next
  | .done => .done

def Prog.req : Prog → String → Request
  | .at k, cid => canonStepReq k cid
  | _, _ => canonStartReq

/-- what the canonical client expects back -/
def Prog.successReplies : Prog → String → List Reply
  | .at k, cid => (runActs (canonStepReq k cid) k.successActs {}).1.out
  | _, cid => [startReply cid]

def bump (pos : Nat → Prog) (c : Nat) : Nat → Prog := fun x => if x = c then (pos x).adv else pos x

/-- any number of canonical clients (client `c` is handed the id `idOf c` by its
    `Start`), scheduled by `sched` (which client sends its next request); a client
    that is through is skipped.  Result: per event (client, progress, replies). -/
def runSched (idOf : Nat → String) : CertState → (Nat → Prog) → List Nat → List (Nat × Prog × List Reply)
  | _, _, [] => []
  | st, pos, c :: rest =>
    if pos c = .done then runSched idOf st pos rest
    else
      let req := (pos c).req (idOf c)
      let st' := (certHandle cvt st (idOf c) req).1
      (c, pos c, certReplies cvt st (idOf c) req) :: runSched idOf st' (bump pos c) rest

end VV
