/-
Model.Addr — how a varlink address string and the process environment decide
which socket a client connects to and a server listens on.

* `clientParse`           varlink/src/client.rs 22-44  (`varlink_connect`)
* `serverParse`, `serverListen`
                          varlink/src/server.rs 81-145 (`Listener::new`)
* `activationListener`    varlink/src/server.rs 34-63
* `execRecipe`            varlink/src/client.rs 68-109 (`varlink_exec`: the socket
                          activation spawn) as *data*, together with the small piece of
                          POSIX semantics (`runRecipe`) the recipe relies on
* `bridgeRecipe`          varlink/src/client.rs 139-157 (`varlink_bridge`)

Text is `List Char` (Rust `char` = Unicode scalar value = Lean `Char`); every
prefix test in the code is on ASCII prefixes, so byte and character positions
coincide there.  Import-free (core only).
-/
namespace VV
namespace Addr

abbrev Str := List Char

/-! ### string helpers that mirror the `str` methods used by the code -/

/-- `str::strip_prefix(p)` -/
def stripPrefix : Str → Str → Option Str
  | [], s => some s
  | _ :: _, [] => none
  | p :: ps, c :: cs => if p = c then stripPrefix ps cs else none

/-- `str::starts_with(p)` -/
def startsWith (p s : Str) : Bool := (stripPrefix p s).isSome

/-- `addr.split(';').next().unwrap_or(addr)`: the part before the first `;`
    (`split` always yields a first piece, so the `unwrap_or` arm is dead) -/
def beforeSemi : Str → Str
  | [] => []
  | c :: cs => if c = ';' then [] else c :: beforeSemi cs

/-- `str::split(':')` (at least one piece, empty pieces kept) -/
def splitColon : Str → List Str
  | [] => [[]]
  | c :: cs =>
    if c = ':' then [] :: splitColon cs
    else match splitColon cs with
      | h :: t => (c :: h) :: t
      | [] => [[c]]

/-- position of the first piece equal to `x` (`enumerate()` + `==`) -/
def indexOf (x : Str) : List Str → Option Nat
  | [] => none
  | y :: ys => if y = x then some 0 else (indexOf x ys).map (· + 1)

def pTcp : Str := ['t', 'c', 'p', ':']
def pUnixAt : Str := ['u', 'n', 'i', 'x', ':', '@']
def pUnix : Str := ['u', 'n', 'i', 'x', ':']

/-! ### what an accepted address denotes -/

inductive Target where
  | tcp (hostport : Str)      -- handed to `TcpStream::connect` / `TcpListener::bind` unchanged
  | abstract (name : Str)     -- Linux abstract namespace, name = part before the first `;`
  | path (p : Str)            -- filesystem socket, path = part before the first `;`
deriving Repr, DecidableEq

/-- `varlink_connect`: prefix tests in the order of the code; `none` = `InvalidAddress` -/
def clientParse (s : Str) : Option Target :=
  match stripPrefix pTcp s with
  | some a => some (.tcp a)
  | none =>
    match stripPrefix pUnixAt s with
    | some a => some (.abstract (beforeSemi a))
    | none =>
      match stripPrefix pUnix s with
      | some a => some (.path (beforeSemi a))
      | none => none

/-- the non-activated half of `Listener::new` -/
def serverParse (s : Str) : Option Target :=
  if let some a := stripPrefix pTcp s then some (.tcp a)
  else if let some a := stripPrefix pUnixAt s then some (.abstract (beforeSemi a))
  else if let some a := stripPrefix pUnix s then some (.path (beforeSemi a))
  else none

def clientAccepts (s : Str) : Bool := (clientParse s).isSome
def serverAccepts (s : Str) : Bool := (serverParse s).isSome

/-! ### the environment -/

abbrev Env := List (Str × Str)

/-- `env::var(k)`: first entry with that key (`getenv`) -/
def envGet (k : Str) : Env → Option Str
  | [] => none
  | (k', v) :: rest => if k' = k then some v else envGet k rest

def kListenFds : Str := ['L', 'I', 'S', 'T', 'E', 'N', '_', 'F', 'D', 'S']
def kListenPid : Str := ['L', 'I', 'S', 'T', 'E', 'N', '_', 'P', 'I', 'D']
def kListenFdnames : Str := ['L', 'I', 'S', 'T', 'E', 'N', '_', 'F', 'D', 'N', 'A', 'M', 'E', 'S']
def kVarlinkAddress : Str := ['V', 'A', 'R', 'L', 'I', 'N', 'K', '_', 'A', 'D', 'D', 'R', 'E', 'S', 'S']
def sVarlink : Str := ['v', 'a', 'r', 'l', 'i', 'n', 'k']

def digitVal (c : Char) : Option Nat :=
  if 48 ≤ c.toNat ∧ c.toNat ≤ 57 then some (c.toNat - 48) else none

/-- decimal digits, most significant first, accumulated into `acc` -/
def parseDigits : Str → Nat → Option Nat
  | [], acc => some acc
  | c :: cs, acc =>
    match digitVal c with
    | some d => parseDigits cs (acc * 10 + d)
    | none => none

def usizeBound : Nat := 18446744073709551616  -- 2^64

/-- `str::parse::<usize>()` on a 64-bit target: optional single leading `+`, at
    least one ASCII digit, nothing else, value below 2^64 -/
def stripPlus : Str → Str
  | '+' :: r => r
  | s => s

def parseUsize (s : Str) : Option Nat :=
  let body := stripPlus s
  if body = [] then none
  else match parseDigits body 0 with
    | some n => if n < usizeBound then some n else none
    | none => none

/-- `activation_listener()` for a process with id `pid` and environment `env` -/
def activationListener (env : Env) (pid : Nat) : Option Nat :=
  match envGet kListenFds env with
  | none => none
  | some n =>
    match parseUsize n with
    | none => none
    | some nfds =>
      if nfds < 1 then none
      else match envGet kListenPid env with
        | none => none
        | some p =>
          if parseUsize p = some pid then
            if nfds = 1 then some 3
            else match envGet kListenFdnames env with
              | none => none
              | some names => (indexOf sVarlink (splitColon names)).map (3 + ·)
          else none

inductive ListenOutcome where
  | adoptTcp (fd : Nat)       -- `Listener::TCP(from_raw_fd(fd), true)`
  | adoptUnix (fd : Nat)      -- `Listener::UNIX(from_raw_fd(fd), true)`
  | bind (t : Target)         -- a fresh socket, `(…, false)`; the bind itself may still fail
  | invalid                   -- `Err(InvalidAddress)`
deriving Repr, DecidableEq

/-- `Listener::new(address)` -/
def serverListen (env : Env) (pid : Nat) (s : Str) : ListenOutcome :=
  match activationListener env pid with
  | some l =>
    if startsWith pTcp s then .adoptTcp l
    else if startsWith pUnix s then .adoptUnix l
    else .invalid
  | none =>
    match serverParse s with
    | some t => .bind t
    | none => .invalid

/-! ### the spawn recipes as data -/

/-- what `pre_exec` does between fork and exec -/
inductive FdAct where
  | dup2 (src dst : Nat)
  | close (fd : Nat)
  | clearCloexec (fd : Nat)
  /-- `let f = fcntl(src, F_GETFD); if f >= 0 && f & FD_CLOEXEC == 0 { dup2(src, dst); }` -/
  | dup2IfInheritable (src dst : Nat)
deriving Repr, DecidableEq

structure Recipe where
  program : Str
  args : List Str
  envAdd : List (Str × Str)    -- `Command::env`
  preExec : List FdAct
deriving Repr, DecidableEq

def shLinePrefix : Str := ['L', 'I', 'S', 'T', 'E', 'N', '_', 'P', 'I', 'D', '=', '$', '$', ' ', 'e', 'x', 'e', 'c', ' ']

/-- `varlink_exec(cmd)`: `sockPath` is `<tempdir>/varlink-socket`, `fd` the raw
    descriptor of the freshly bound listener -/
def execRecipe (cmd sockPath : Str) (fd : Nat) : Recipe :=
  { program := ['s', 'h'],
    args := [['-', 'c'], shLinePrefix ++ cmd],
    envAdd := [(kVarlinkAddress, pUnix ++ sockPath),
               (kListenFds, ['1']),
               (kListenFdnames, sVarlink)],
    -- 2afad3a: the listener is moved first (it may be descriptor 1); the service's stdout goes to
    -- the caller's stderr only if descriptor 2 is not close-on-exec (a close-on-exec descriptor 2 is
    -- a reused number, e.g. the status pipe of `spawn` itself)
    preExec := (if fd ≠ 3 then [.dup2 fd 3, .close fd] else [.clearCloexec 3]) ++ [.dup2IfInheritable 2 1] }

/-- `varlink_bridge(cmd)`: `sh -c cmd` with one end of a socket pair as stdin and
    (a duplicate of it as) stdout; no environment, no `pre_exec` -/
def bridgeRecipe (cmd : Str) : Recipe :=
  { program := ['s', 'h'], args := [['-', 'c'], cmd], envAdd := [], preExec := [] }

/-! ### the piece of POSIX the activation recipe relies on

Observed, not proved: the `addr` suite dumps the environment and descriptor
table of the real child. -/

/-- an open descriptor: what it refers to and its close-on-exec flag -/
structure FdEntry where
  obj : Nat
  cloexec : Bool
deriving Repr, DecidableEq

abbrev FdTable := List (Nat × FdEntry)

def fdGet (fd : Nat) : FdTable → Option FdEntry
  | [] => none
  | (k, e) :: rest => if k = fd then some e else fdGet fd rest

def fdRemove (fd : Nat) (t : FdTable) : FdTable := t.filter (fun e => e.1 != fd)

def fdSet (fd : Nat) (e : FdEntry) (t : FdTable) : FdTable := (fd, e) :: fdRemove fd t

def applyFdAct (t : FdTable) : FdAct → FdTable
  | .dup2 s d =>
    match fdGet s t with
    | none => t                                            -- EBADF, ignored by the code
    | some e => if s = d then t else fdSet d { e with cloexec := false } t
  | .close fd => fdRemove fd t
  | .clearCloexec fd =>
    match fdGet fd t with
    | none => t
    | some e => fdSet fd { e with cloexec := false } t
  | .dup2IfInheritable s d =>
    match fdGet s t with
    | none => t
    | some e => if e.cloexec || s = d then t else fdSet d { e with cloexec := false } t

/-- `execve`: descriptors with the close-on-exec flag are closed -/
def execFds (t : FdTable) : FdTable := t.filter (fun e => !e.2.cloexec)

/-- `Command::env`: the child gets the parent's environment with the added
    variables replacing entries of the same name -/
def envOverride (add : List (Str × Str)) (parent : Env) : Env :=
  add ++ parent.filter (fun e => !add.any (fun a => a.1 = e.1))

def digitChar (d : Nat) : Char := Char.ofNat (48 + d)

/-- decimal text of a natural number (the shell's expansion of `$$`) -/
def decimal (n : Nat) : Str :=
  if _h : n < 10 then [digitChar n] else decimal (n / 10) ++ [digitChar (n % 10)]
termination_by n
decreasing_by omega

structure Proc where
  pid : Nat
  cmd : Str          -- the command line handed to the shell's `exec`
  env : Env
  fds : FdTable
deriving Repr, DecidableEq

/-- fork (`pid` is the new process id), `pre_exec`, exec of `sh -c LINE` where
    LINE is `LISTEN_PID=$$ exec CMD`: the shell expands `$$` to its own pid,
    exports the assignment to the command and `exec` keeps the process (and so
    the pid).  `none` when the recipe is not of that shape. -/
def runRecipe (r : Recipe) (parentEnv : Env) (parentFds : FdTable) (pid : Nat) : Option Proc :=
  match r.args with
  | [_, line] =>
    match stripPrefix shLinePrefix line with
    | none => none
    | some cmd =>
      some { pid := pid,
             cmd := cmd,
             env := (kListenPid, decimal pid) :: envOverride r.envAdd parentEnv,
             fds := execFds (r.preExec.foldl applyFdAct parentFds) }
  | _ => none

end Addr
end VV
