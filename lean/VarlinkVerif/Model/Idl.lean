/-
Model.Idl — `IDL::try_from` (lib.rs 231-254) on top of the grammar model.
-/
import VarlinkVerif.Model.Idl.Ast
import VarlinkVerif.Model.Idl.Peg
import VarlinkVerif.Model.Idl.PegPos
import VarlinkVerif.Model.Idl.Dup
import VarlinkVerif.Model.Idl.Pos

namespace VV.Idl

inductive Outcome where
  | ok (i : IDL)
  /-- `Error::Parse { line, column }`; `line = none` is the failed `unwrap` -/
  | parseError (line : Option Str) (column : Nat)
  | idlError (msg : Str)
deriving DecidableEq, Repr

/-- `IDL::try_from` -/
def tryFrom (s : Input) : Outcome :=
  match parse s with
  | some p =>
    let i := fromToken p
    if i.error.isEmpty then .ok i else .idlError (idlErrorText i)
  | none =>
    let p := (Pos.errPos s).getD 0
    .parseError (lineText s (lineOf s p)) (colOf s p)

end VV.Idl
