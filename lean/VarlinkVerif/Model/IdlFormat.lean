/-
Model.IdlFormat — `varlink_parser/src/format.rs`: `get_oneline`, `get_multiline` and
their colored twins, and the `colored` 2.2.0 paint function.

* `String::len()` is a byte length; every measured string (`get_oneline` of structs,
  `"method " + name`, …) consists of ASCII characters for definitions that come out of
  the parser, so the model measures `List.length`.
* `self.typedefs[k]` for `k` in `typedef_keys` is `membersOf`: the members under the
  keys, in key order (for a definition returned by `try_from` each key is present once).
* `format!("{:indent$}{}", "", x)` is `pad indent ++ x`.
* `x.blue()` etc. with colour forced on: `ESC[<code>m` + `x` with the style re-inserted
  after every inner `ESC[0m` + `ESC[0m` (colored 2.2.0, `Display for ColoredString`).
-/
import VarlinkVerif.Model.Idl.Dup

namespace VV.Idl.Fmt
open VV.Idl

def pad (n : Nat) : Str := List.replicate n ' '

/-- elements joined by ", " -/
def commaSep : List Str → Str
  | [] => []
  | [x] => x
  | x :: y :: r => x ++ ',' :: ' ' :: commaSep (y :: r)

/-- elements joined by ",\n" -/
def commaNl : List Str → Str
  | [] => []
  | [x] => x
  | x :: y :: r => x ++ ',' :: '\n' :: commaNl (y :: r)

/-- `split('\n')` -/
def splitNl : Str → List Str
  | [] => [[]]
  | c :: r =>
    if c = '\n' then [] :: splitNl r
    else match splitNl r with
      | l :: ls => (c :: l) :: ls
      | [] => [[c]]

/-- `join("\n")` -/
def joinNl : List Str → Str
  | [] => []
  | [x] => x
  | x :: y :: r => x ++ '\n' :: joinNl (y :: r)

/-! ### colored 2.2.0 -/

def ESC : Char := Char.ofNat 27

/-- "\x1B[0m" -/
def reset : Str := [ESC, '[', '0', 'm']

/-- `compute_style` for a plain foreground colour -/
def style (code : Str) : Str := ESC :: '[' :: code ++ ['m']

/-- `escape_inner_reset_sequences`: the style is re-inserted after every (non-overlapping,
    left-to-right) occurrence of the reset sequence -/
def escapeResets (st : Str) : Str → Str
  | a :: b :: c :: d :: r =>
    if a = ESC ∧ b = '[' ∧ c = '0' ∧ d = 'm' then reset ++ st ++ escapeResets st r
    else a :: escapeResets st (b :: c :: d :: r)
  | l => l

/-- `Display for ColoredString` with colours on -/
def paint (code : Str) (s : Str) : Str := style code ++ escapeResets (style code) s ++ reset

def blue : Str → Str := paint ['3', '4']
def purple : Str → Str := paint ['3', '5']
def cyan : Str → Str := paint ['3', '6']
def green : Str → Str := paint ['3', '2']

/-! ### one-line forms -/

mutual
/-- `VTypeExt::get_oneline` -/
def tyOneline : Ty → Str
  | .bool => ['b', 'o', 'o', 'l']
  | .int => ['i', 'n', 't']
  | .float => ['f', 'l', 'o', 'a', 't']
  | .string => ['s', 't', 'r', 'i', 'n', 'g']
  | .object => ['o', 'b', 'j', 'e', 'c', 't']
  | .typename n => n
  | .struct fs => '(' :: commaSep (fieldsOneline fs) ++ [')']
  | .enum es => '(' :: commaSep es ++ [')']
  | .array t => '[' :: ']' :: tyOneline t
  | .dict t => ['[', 's', 't', 'r', 'i', 'n', 'g', ']'] ++ tyOneline t
  | .option t => '?' :: tyOneline t
/-- `Argument::get_oneline` for every element: "name: type" -/
def fieldsOneline : Fields → List Str
  | .nil => []
  | .cons n t r => (n ++ ':' :: ' ' :: tyOneline t) :: fieldsOneline r
end

/-- `VStruct::get_oneline` -/
def structOneline (fs : Fields) : Str := '(' :: commaSep (fieldsOneline fs) ++ [')']
/-- `VEnum::get_oneline` -/
def enumOneline (es : List Str) : Str := '(' :: commaSep es ++ [')']

mutual
/-- `VTypeExt::get_oneline_colored` -/
def tyOnelineC : Ty → Str
  | .bool => cyan ['b', 'o', 'o', 'l']
  | .int => cyan ['i', 'n', 't']
  | .float => cyan ['f', 'l', 'o', 'a', 't']
  | .string => cyan ['s', 't', 'r', 'i', 'n', 'g']
  | .object => cyan ['o', 'b', 'j', 'e', 'c', 't']
  | .typename n => cyan n
  | .struct fs => '(' :: commaSep (fieldsOnelineC fs) ++ [')']
  | .enum es => '(' :: commaSep es ++ [')']
  | .array t => '[' :: ']' :: tyOnelineC t
  | .dict t => '[' :: cyan ['s', 't', 'r', 'i', 'n', 'g'] ++ ']' :: tyOnelineC t
  | .option t => '?' :: tyOnelineC t
def fieldsOnelineC : Fields → List Str
  | .nil => []
  | .cons n t r => (n ++ ':' :: ' ' :: tyOnelineC t) :: fieldsOnelineC r
end

def structOnelineC (fs : Fields) : Str := '(' :: commaSep (fieldsOnelineC fs) ++ [')']

/-! ### multi-line forms -/

/-- `VEnum::get_multiline` (the width is not used) -/
def enumMultiline (es : List Str) (indent : Nat) : Str :=
  '(' :: '\n' :: commaNl (es.map fun e => pad (indent + 2) ++ e) ++ '\n' :: pad indent ++ [')']

mutual
/-- `VTypeExt::get_multiline` -/
def tyMultiline : Ty → Nat → Nat → Str
  | .bool, _, _ => ['b', 'o', 'o', 'l']
  | .int, _, _ => ['i', 'n', 't']
  | .float, _, _ => ['f', 'l', 'o', 'a', 't']
  | .string, _, _ => ['s', 't', 'r', 'i', 'n', 'g']
  | .object, _, _ => ['o', 'b', 'j', 'e', 'c', 't']
  | .typename n, _, _ => n
  | .struct fs, indent, max =>
    '(' :: '\n' :: commaNl (fieldsMultiline fs (indent + 2) max) ++ '\n' :: pad indent ++ [')']
  | .enum es, indent, _ => enumMultiline es indent
  | .array t, indent, max => '[' :: ']' :: tyMultiline t indent max
  | .dict t, indent, max => ['[', 's', 't', 'r', 'i', 'n', 'g', ']'] ++ tyMultiline t indent max
  | .option t, indent, max => '?' :: tyMultiline t indent max
/-- the elements of `VStruct::get_multiline`, `ind = indent + 2` being the element indentation:
    the one-line form if `line.len() + indent + 2 < max`, else `Argument::get_multiline(indent + 2, max)` -/
def fieldsMultiline : Fields → Nat → Nat → List Str
  | .nil, _, _ => []
  | .cons n t r, ind, max =>
    (if (n ++ ':' :: ' ' :: tyOneline t).length + ind < max
      then pad ind ++ (n ++ ':' :: ' ' :: tyOneline t)
      else pad ind ++ (n ++ ':' :: ' ' :: tyMultiline t ind max)) :: fieldsMultiline r ind max
end

/-- `VStruct::get_multiline` -/
def structMultiline (fs : Fields) (indent max : Nat) : Str :=
  '(' :: '\n' :: commaNl (fieldsMultiline fs (indent + 2) max) ++ '\n' :: pad indent ++ [')']

mutual
/-- `VTypeExt::get_multiline_colored` -/
def tyMultilineC : Ty → Nat → Nat → Str
  | .bool, _, _ => cyan ['b', 'o', 'o', 'l']
  | .int, _, _ => cyan ['i', 'n', 't']
  | .float, _, _ => cyan ['f', 'l', 'o', 'a', 't']
  | .string, _, _ => cyan ['s', 't', 'r', 'i', 'n', 'g']
  | .object, _, _ => cyan ['o', 'b', 'j', 'e', 'c', 't']
  | .typename n, _, _ => cyan n
  | .struct fs, indent, max =>
    '(' :: '\n' :: commaNl (fieldsMultilineC fs (indent + 2) max) ++ '\n' :: pad indent ++ [')']
  | .enum es, indent, _ => enumMultiline es indent
  | .array t, indent, max => '[' :: ']' :: tyMultilineC t indent max
  | .dict t, indent, max => '[' :: cyan ['s', 't', 'r', 'i', 'n', 'g'] ++ ']' :: tyMultilineC t indent max
  | .option t, indent, max => '?' :: tyMultilineC t indent max
def fieldsMultilineC : Fields → Nat → Nat → List Str
  | .nil, _, _ => []
  | .cons n t r, ind, max =>
    (if (n ++ ':' :: ' ' :: tyOneline t).length + ind < max
      then pad ind ++ (n ++ ':' :: ' ' :: tyOnelineC t)
      else pad ind ++ (n ++ ':' :: ' ' :: tyMultilineC t ind max)) :: fieldsMultilineC r ind max
end

def structMultilineC (fs : Fields) (indent max : Nat) : Str :=
  '(' :: '\n' :: commaNl (fieldsMultilineC fs (indent + 2) max) ++ '\n' :: pad indent ++ [')']

/-! ### the interface -/

/-- `keys.iter().map(|k| &map[k])` -/
def membersOf (keys : List Str) (m : List (Str × Member)) : List Member :=
  keys.filterMap fun k => lookupMap k m

/-- a documentation block, every line indented: `doc.split('\n').map(pad + s).join("\n") + "\n"` -/
def docLines (indent : Nat) (doc : Str) : Str :=
  if doc.isEmpty then [] else joinNl ((splitNl doc).map fun s => pad indent ++ s) ++ ['\n']

/-- a documentation block, only the first line indented (typedefs in `get_multiline`) -/
def docPlain (indent : Nat) (doc : Str) : Str :=
  if doc.isEmpty then [] else pad indent ++ doc ++ ['\n']

def docLinesC (indent : Nat) (doc : Str) : Str :=
  if doc.isEmpty then [] else joinNl ((splitNl doc).map fun s => pad indent ++ blue s) ++ ['\n']

def bodyStruct : Body → Fields
  | .typeStruct f => f
  | .error f => f
  | .method i _ => i
  | .typeEnum _ => .nil

def eltOneline : Body → Str
  | .typeEnum es => enumOneline es
  | b => structOneline (bodyStruct b)

def eltOnelineC : Body → Str
  | .typeEnum es => enumOneline es
  | b => structOnelineC (bodyStruct b)

def eltMultiline (b : Body) (indent max : Nat) : Str :=
  match b with
  | .typeEnum es => enumMultiline es indent
  | b => structMultiline (bodyStruct b) indent max

def eltMultilineC (b : Body) (indent max : Nat) : Str :=
  match b with
  | .typeEnum es => enumMultiline es indent
  | b => structMultilineC (bodyStruct b) indent max

def methodIO : Body → Fields × Fields
  | .method i o => (i, o)
  | b => (bodyStruct b, .nil)

/-- one typedef of `IDL::get_multiline` -/
def typedefMultiline (t : Member) (indent max : Nat) : Str :=
  '\n' :: docPlain indent t.doc ++
    (if (pad indent ++ ['t', 'y', 'p', 'e', ' '] ++ t.name ++ [' ']).length + (eltOneline t.body).length ≤ max
      then pad indent ++ ['t', 'y', 'p', 'e', ' '] ++ t.name ++ ' ' :: eltOneline t.body ++ ['\n']
      else pad indent ++ ['t', 'y', 'p', 'e', ' '] ++ t.name ++ ' ' :: eltMultiline t.body indent max ++ ['\n'])

/-- one method of `IDL::get_multiline` (four layouts) -/
def methodMultiline (m : Member) (indent max : Nat) : Str :=
  let io := methodIO m.body
  let mLine := ['m', 'e', 't', 'h', 'o', 'd', ' '] ++ m.name
  let mIn := structOneline io.1
  let mOut := structOneline io.2
  let head := pad indent ++ ['m', 'e', 't', 'h', 'o', 'd', ' '] ++ m.name
  '\n' :: docLines indent m.doc ++
    (if mLine.length + mIn.length + mOut.length + 4 ≤ max ∨ mIn.length + mOut.length = 4 then
      head ++ mIn ++ [' ', '-', '>', ' '] ++ mOut ++ ['\n']
    else if mLine.length + mIn.length + 6 ≤ max ∨ mIn.length = 2 then
      head ++ mIn ++ [' ', '-', '>', ' '] ++ structMultiline io.2 indent max ++ ['\n']
    else if mOut.length + 7 ≤ max then
      head ++ structMultiline io.1 indent max ++ [' ', '-', '>', ' '] ++ mOut ++ ['\n']
    else
      head ++ structMultiline io.1 indent max ++ [' ', '-', '>', ' '] ++ structMultiline io.2 indent max ++ ['\n'])

/-- one error of `IDL::get_multiline` -/
def errorMultiline (t : Member) (indent max : Nat) : Str :=
  '\n' :: docLines indent t.doc ++
    (if (pad indent ++ ['e', 'r', 'r', 'o', 'r', ' '] ++ t.name ++ [' ']).length + (eltOneline t.body).length ≤ max
      then pad indent ++ ['e', 'r', 'r', 'o', 'r', ' '] ++ t.name ++ ' ' :: eltOneline t.body ++ ['\n']
      else pad indent ++ ['e', 'r', 'r', 'o', 'r', ' '] ++ t.name ++ ' ' :: eltMultiline t.body indent max ++ ['\n'])

/-- `IDL::get_multiline(indent, max)`: header, typedefs, methods, errors (in that order) -/
def multiline (i : IDL) (indent max : Nat) : Str :=
  docLines indent i.doc ++ pad indent ++ ['i', 'n', 't', 'e', 'r', 'f', 'a', 'c', 'e', ' '] ++ i.name ++ ['\n'] ++
  ((membersOf i.typedefKeys i.typedefs).map fun t => typedefMultiline t indent max).flatten ++
  ((membersOf i.methodKeys i.methods).map fun m => methodMultiline m indent max).flatten ++
  ((membersOf i.errorKeys i.errors).map fun t => errorMultiline t indent max).flatten

def typedefMultilineC (t : Member) (indent max : Nat) : Str :=
  '\n' :: docLinesC indent t.doc ++
    (if (pad indent ++ ['t', 'y', 'p', 'e', ' '] ++ t.name ++ [' ']).length + (eltOneline t.body).length ≤ max
      then pad indent ++ purple ['t', 'y', 'p', 'e'] ++ ' ' :: cyan t.name ++ ' ' :: eltOnelineC t.body ++ ['\n']
      else pad indent ++ purple ['t', 'y', 'p', 'e'] ++ ' ' :: cyan t.name ++ ' ' :: eltMultilineC t.body indent max ++ ['\n'])

def methodMultilineC (m : Member) (indent max : Nat) : Str :=
  let io := methodIO m.body
  let mLine := ['m', 'e', 't', 'h', 'o', 'd', ' '] ++ m.name
  let mIn := structOneline io.1
  let mOut := structOneline io.2
  let head := pad indent ++ purple ['m', 'e', 't', 'h', 'o', 'd'] ++ ' ' :: green m.name
  let arrow := ' ' :: purple ['-', '>'] ++ [' ']
  '\n' :: docLinesC indent m.doc ++
    (if mLine.length + mIn.length + mOut.length + 4 ≤ max ∨ mIn.length + mOut.length = 4 then
      head ++ structOnelineC io.1 ++ arrow ++ structOnelineC io.2 ++ ['\n']
    else if mLine.length + mIn.length + 6 ≤ max ∨ mIn.length = 2 then
      head ++ structOnelineC io.1 ++ arrow ++ structMultilineC io.2 indent max ++ ['\n']
    else if mOut.length + 7 ≤ max then
      head ++ structMultilineC io.1 indent max ++ arrow ++ structOnelineC io.2 ++ ['\n']
    else
      head ++ structMultilineC io.1 indent max ++ arrow ++ structMultilineC io.2 indent max ++ ['\n'])

/-- the colored error entry measures `"error {} "` without the indentation -/
def errorMultilineC (t : Member) (indent max : Nat) : Str :=
  '\n' :: docLinesC indent t.doc ++
    (if (['e', 'r', 'r', 'o', 'r', ' '] ++ t.name ++ [' ']).length + (eltOneline t.body).length ≤ max
      then pad indent ++ purple ['e', 'r', 'r', 'o', 'r'] ++ ' ' :: cyan t.name ++ ' ' :: eltOnelineC t.body ++ ['\n']
      else pad indent ++ purple ['e', 'r', 'r', 'o', 'r'] ++ ' ' :: cyan t.name ++ ' ' :: eltMultilineC t.body indent max ++ ['\n'])

/-- `IDL::get_multiline_colored(indent, max)` -/
def multilineC (i : IDL) (indent max : Nat) : Str :=
  docLinesC indent i.doc ++ pad indent ++ purple ['i', 'n', 't', 'e', 'r', 'f', 'a', 'c', 'e'] ++ ' ' :: i.name ++ ['\n'] ++
  ((membersOf i.typedefKeys i.typedefs).map fun t => typedefMultilineC t indent max).flatten ++
  ((membersOf i.methodKeys i.methods).map fun m => methodMultilineC m indent max).flatten ++
  ((membersOf i.errorKeys i.errors).map fun t => errorMultilineC t indent max).flatten

/-- `Display for IDL`: `get_multiline(0, 80)` -/
def display (i : IDL) : Str := multiline i 0 80

/-- `IDL::get_oneline` -/
def oneline (i : IDL) : Str :=
  (if i.doc.isEmpty then [] else i.doc ++ ['\n']) ++ ['i', 'n', 't', 'e', 'r', 'f', 'a', 'c', 'e', ' '] ++ i.name ++ ['\n'] ++
  ((membersOf i.typedefKeys i.typedefs).map fun t =>
    '\n' :: (if t.doc.isEmpty then [] else t.doc ++ ['\n']) ++ ['t', 'y', 'p', 'e', ' '] ++ t.name ++ ' ' :: eltOneline t.body ++ ['\n']).flatten ++
  ((membersOf i.methodKeys i.methods).map fun m =>
    '\n' :: (if m.doc.isEmpty then [] else m.doc ++ ['\n']) ++ ['m', 'e', 't', 'h', 'o', 'd', ' '] ++ m.name ++
      structOneline (methodIO m.body).1 ++ [' ', '-', '>', ' '] ++ structOneline (methodIO m.body).2 ++ ['\n']).flatten ++
  ((membersOf i.errorKeys i.errors).map fun t =>
    '\n' :: (if t.doc.isEmpty then [] else t.doc ++ ['\n']) ++ ['e', 'r', 'r', 'o', 'r', ' '] ++ t.name ++ ' ' :: eltOneline t.body ++ ['\n']).flatten

/-- `IDL::get_oneline_colored`: `f += &self.doc.blue()` appends the *uncolored* text
    (`&ColoredString` derefs to its input) -/
def onelineC (i : IDL) : Str :=
  (if i.doc.isEmpty then [] else i.doc ++ ['\n']) ++ ['i', 'n', 't', 'e', 'r', 'f', 'a', 'c', 'e', ' '] ++ purple i.name ++ ['\n'] ++
  ((membersOf i.typedefKeys i.typedefs).map fun t =>
    '\n' :: (if t.doc.isEmpty then [] else t.doc ++ ['\n']) ++ purple ['t', 'y', 'p', 'e'] ++ ' ' :: cyan t.name ++
      ' ' :: eltOnelineC t.body ++ ['\n']).flatten ++
  ((membersOf i.methodKeys i.methods).map fun m =>
    '\n' :: (if m.doc.isEmpty then [] else m.doc ++ ['\n']) ++ purple ['m', 'e', 't', 'h', 'o', 'd'] ++ ' ' :: green m.name ++
      structOnelineC (methodIO m.body).1 ++ ' ' :: purple ['-', '>'] ++ ' ' :: structOnelineC (methodIO m.body).2 ++ ['\n']).flatten ++
  ((membersOf i.errorKeys i.errors).map fun t =>
    '\n' :: (if t.doc.isEmpty then [] else t.doc ++ ['\n']) ++ purple ['e', 'r', 'r', 'o', 'r'] ++ ' ' :: cyan t.name ++
      ' ' :: eltOnelineC t.body ++ ['\n']).flatten

/-! ### stripping SGR sequences -/

def isParam (c : Char) : Bool := isDigit c || c == ';'

/-- one character of the scan that removes every `ESC [ (digit | ';')* m`:
    `held` is the unfinished candidate sequence; the result is (text emitted, new `held`) -/
def sgrStep : Str → Char → Str × Str
  | [], c => if c = ESC then ([], [c]) else ([c], [])
  | [e], c =>
    if c = '[' then ([], [e, c])
    else if c = ESC then ([e], [c])
    else ([e, c], [])
  | e :: f :: h, c =>
    if c = 'm' then ([], [])
    else if isParam c then ([], e :: f :: h ++ [c])
    else if c = ESC then (e :: f :: h, [c])
    else (e :: f :: h ++ [c], [])

def stripAux : Str → Str → Str
  | held, [] => held
  | held, c :: r => (sgrStep held c).1 ++ stripAux (sgrStep held c).2 r

def stripSGR (s : Str) : Str := stripAux [] s

end VV.Idl.Fmt
