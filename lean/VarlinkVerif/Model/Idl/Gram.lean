/-
Model.Idl.Gram — the varlink interface grammar as a *declarative* relation between a
text and the definition it denotes (no parsing strategy, no ordered choice, no
repetition operators): `FileText p s` says that `s` is a rendering of the definition `p`.

It is written over the syntax tree (structural recursion on `Ty`/`Fields`/member lists),
uses the word predicates of `Spec.lean`, and nothing of the PEG model.  The PEG model is
proved complete for it in `Lemmas/IdlComplete.lean` (`FileText p s → parse s = some p`)
and the formatter is proved to produce it in `Lemmas/IdlLayout.lean`.

Layout facts fixed by the grammar: no trivia before a comma and none inside a type
expression; a keyword is followed by at least one trivia element; the interface name and
every member are followed by `eol` = `whitespace* line-terminator` (CR LF counting as one)
or, immediately, a comment; the documentation of a member is the trimmed trivia between
that `eol` and its keyword.
-/
import VarlinkVerif.Model.Idl.Spec

namespace VV.Idl.Gram
open VV.Idl VV.Idl.Spec

/-- white space, line terminators and terminated `#` comments, in any order -/
inductive Trivia : Str → Prop
  | nil : Trivia []
  | space {c : Char} {t : Str} : isSpace c = true → Trivia t → Trivia (c :: t)
  | newline {c : Char} {t : Str} : isNewline c = true → Trivia t → Trivia (c :: t)
  | comment {body : Str} {e : Char} {t : Str} : (∀ x ∈ body, isNewline x = false) → isNewline e = true →
      Trivia t → Trivia ('#' :: body ++ e :: t)

/-- one line terminator in front of `rest` (CR LF is one terminator, so a lone CR must not be
    followed by LF) -/
def IsLineTerm (nl rest : Str) : Prop :=
  nl = ['\n'] ∨ nl = ['\r', '\n'] ∨ (nl = ['\r'] ∧ rest.head? ≠ some '\n') ∨ nl = ['\u2028'] ∨ nl = ['\u2029']

/-- rule `eol` in front of `rest` -/
def IsEol (e rest : Str) : Prop :=
  (∃ ws nl, e = ws ++ nl ∧ (∀ c ∈ ws, isSpace c = true) ∧ IsLineTerm nl rest) ∨
  (∃ body nl, e = '#' :: body ++ nl ∧ (∀ x ∈ body, isNewline x = false) ∧ IsLineTerm nl rest)

/-- `field (',' trivia field)*` of an enum -/
def EnumItems : List Str → Str → Prop
  | [], _ => False
  | [e], w => w = e ∧ isFieldName e = true
  | e :: e' :: r, w => ∃ t w', w = e ++ ',' :: t ++ w' ∧ isFieldName e = true ∧ Trivia t ∧ EnumItems (e' :: r) w'

/-- `'(' trivia field (',' trivia field)* trivia ')'` -/
def EnumText (es : List Str) (w : Str) : Prop :=
  ∃ t0 body t1, w = '(' :: t0 ++ body ++ t1 ++ [')'] ∧ Trivia t0 ∧ EnumItems es body ∧ Trivia t1

def NotOption : Ty → Prop
  | .option _ => False
  | _ => True

mutual
/-- a type expression -/
def TypeText : Ty → Str → Prop
  | .bool, w => w = ['b', 'o', 'o', 'l']
  | .int, w => w = ['i', 'n', 't']
  | .float, w => w = ['f', 'l', 'o', 'a', 't']
  | .string, w => w = ['s', 't', 'r', 'i', 'n', 'g']
  | .object, w => w = ['o', 'b', 'j', 'e', 'c', 't']
  | .typename n, w => w = n ∧ isTypeName n = true
  | .struct fs, w => ∃ body t1, w = '(' :: body ++ t1 ++ [')'] ∧ FieldsText fs body ∧ Trivia t1
  | .enum es, w => EnumText es w
  | .array t, w => ∃ w', w = '[' :: ']' :: w' ∧ TypeText t w'
  | .dict t, w => ∃ w', w = ['[', 's', 't', 'r', 'i', 'n', 'g', ']'] ++ w' ∧ TypeText t w'
  | .option t, w => ∃ w', w = '?' :: w' ∧ TypeText t w' ∧ NotOption t
/-- `trivia name trivia ':' trivia type` -/
def FieldText : Str → Ty → Str → Prop
  | n, t, w => ∃ t0 t1 t2 wt, w = t0 ++ n ++ t1 ++ ':' :: t2 ++ wt ∧ Trivia t0 ∧ isFieldName n = true ∧
      Trivia t1 ∧ Trivia t2 ∧ TypeText t wt
/-- `[ field (',' field)* ]` -/
def FieldsText : Fields → Str → Prop
  | .nil, w => w = []
  | .cons n t rest, w => ∃ w1 w2, w = w1 ++ w2 ∧ FieldText n t w1 ∧ RestText rest w2
/-- `(',' field)*` -/
def RestText : Fields → Str → Prop
  | .nil, w => w = []
  | .cons n t rest, w => ∃ w1 w2, w = ',' :: w1 ++ w2 ∧ FieldText n t w1 ∧ RestText rest w2
end

/-- `'(' fields trivia ')'` -/
def StructText (fs : Fields) (w : Str) : Prop := TypeText (.struct fs) w

/-- one member: `doc-trivia KEYWORD trivia+ Name trivia body` -/
def MemberText (m : Member) (w : Str) : Prop :=
  ∃ d t1 t2, Trivia d ∧ m.doc = trim d ∧ Trivia t1 ∧ t1 ≠ [] ∧ Trivia t2 ∧ isTypeName m.name = true ∧
    match m.body with
    | .typeStruct f => ∃ b, w = d ++ ['t', 'y', 'p', 'e'] ++ t1 ++ m.name ++ t2 ++ b ∧ StructText f b
    | .typeEnum es => ∃ b, w = d ++ ['t', 'y', 'p', 'e'] ++ t1 ++ m.name ++ t2 ++ b ∧ EnumText es b
    | .error f => ∃ b, w = d ++ ['e', 'r', 'r', 'o', 'r'] ++ t1 ++ m.name ++ t2 ++ b ∧ StructText f b
    | .method i o => ∃ b1 t3 t4 b2, w = d ++ ['m', 'e', 't', 'h', 'o', 'd'] ++ t1 ++ m.name ++ t2 ++ b1 ++ t3 ++
        ['-', '>'] ++ t4 ++ b2 ∧ StructText i b1 ∧ Trivia t3 ∧ Trivia t4 ∧ StructText o b2

/-- `(eol member)+` -/
def MembersText : List Member → Str → Prop
  | [], _ => False
  | [m], w => ∃ e mw, w = e ++ mw ∧ IsEol e mw ∧ MemberText m mw
  | m :: m' :: r, w => ∃ e mw w', w = e ++ mw ++ w' ∧ IsEol e (mw ++ w') ∧ MemberText m mw ∧
      MembersText (m' :: r) w'

/-- the whole text: `doc-trivia "interface" trivia+ name (eol member)+ trivia` -/
def FileText (p : Parsed) (s : Str) : Prop :=
  ∃ d t1 ms tend, s = d ++ ['i', 'n', 't', 'e', 'r', 'f', 'a', 'c', 'e'] ++ t1 ++ p.name ++ ms ++ tend ∧
    Trivia d ∧ p.doc = trim d ∧ Trivia t1 ∧ t1 ≠ [] ∧ isInterfaceName p.name = true ∧
    MembersText p.members ms ∧ Trivia tend

end VV.Idl.Gram
