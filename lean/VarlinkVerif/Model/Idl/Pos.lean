/-
Model.Idl.Pos — peg's `position_repr` for `str` (peg-runtime str.rs), the line
lookup of `try_from` (lib.rs 234-241) and the `Display` of `Error` (lib.rs 61-67).
A position is a number of characters from the start (peg uses byte offsets that
always lie on character boundaries; line and column are counted in '\n' and chars).
-/
import VarlinkVerif.Model.Idl.Ast

namespace VV.Idl

/-- `before.bytes().filter(|c| c == b'\n').count() + 1` -/
def lineOf (s : Input) (p : Nat) : Nat := (s.take p).count '\n' + 1

/-- `before.chars().rev().take_while(|c| c != '\n').count() + 1` -/
def colOf (s : Input) (p : Nat) : Nat := ((s.take p).reverse.takeWhile (· != '\n')).length + 1

/-- `str::split('\n')` collected: always at least one piece -/
def splitLines : Input → List Str
  | [] => [[]]
  | c :: r =>
    if c = '\n' then [] :: splitLines r
    else match splitLines r with
      | l :: ls => (c :: l) :: ls
      | [] => [[c]]

/-- `value.split('\n').nth(line - 1)` (the code unwraps it) -/
def lineText (s : Input) (line : Nat) : Option Str := (splitLines s)[line - 1]?

/-- `Display` of `Error::Parse`: "Varlink parse error\n{line}\n{marker:>column$}" with marker "^" -/
def displayParse (line : Str) (column : Nat) : Str :=
  ['V', 'a', 'r', 'l', 'i', 'n', 'k', ' ', 'p', 'a', 'r', 's', 'e', ' ', 'e', 'r', 'r', 'o', 'r', '\n'] ++ line ++ '\n' :: List.replicate (column - 1) ' ' ++ ['^']

/-- `Display` of `Error::Idl` -/
def displayIdl (msg : Str) : Str := ['I', 'n', 't', 'e', 'r', 'f', 'a', 'c', 'e', ' ', 'd', 'e', 'f', 'i', 'n', 'i', 't', 'i', 'o', 'n', ' ', 'e', 'r', 'r', 'o', 'r', ':', ' '] ++ msg

end VV.Idl
