/-
Model.Idl.Ast — the syntax tree of a varlink interface definition, as exposed by
`varlink_parser` (lib.rs 69-141).

`VTypeExt::Plain(t)` carries no information of its own, so `VTypeExt`/`VType` are
one inductive `Ty` here (`Plain(Bool)` ↦ `bool`, `Array(x)` ↦ `array x`, ...).
`VStruct.elts : Vec<Argument>` is `Fields` (a mutual inductive instead of a nested
`List`, so that functions over types are plain structural recursion).
Strings are `List Char` (Rust `char` = Lean `Char` = Unicode scalar value).
-/
namespace VV.Idl

abbrev Str := List Char
abbrev Input := List Char

mutual
inductive Ty where
  | bool | int | float | string | object
  | typename (n : Str)
  | struct (fs : Fields)
  | enum (es : List Str)
  | array (t : Ty)
  | dict (t : Ty)
  | option (t : Ty)
deriving DecidableEq, Repr
inductive Fields where
  | nil
  | cons (n : Str) (t : Ty) (rest : Fields)
deriving DecidableEq, Repr
end

instance : Inhabited Ty := ⟨.bool⟩
instance : Inhabited Fields := ⟨.nil⟩

def Fields.ofList : List (Str × Ty) → Fields
  | [] => .nil
  | (n, t) :: r => .cons n t (Fields.ofList r)

def Fields.toList : Fields → List (Str × Ty)
  | .nil => []
  | .cons n t r => (n, t) :: r.toList

theorem Fields.toList_ofList (l : List (Str × Ty)) : (Fields.ofList l).toList = l := by
  induction l with
  | nil => rfl
  | cons a r ih => cases a; simp [Fields.ofList, Fields.toList, ih]

theorem Fields.ofList_toList : ∀ f : Fields, Fields.ofList f.toList = f
  | .nil => rfl
  | .cons n t r => by simp [Fields.ofList, Fields.toList, Fields.ofList_toList r]

/-- `VStructOrEnum` / the payload of the three member kinds -/
inductive Body where
  | typeStruct (f : Fields)
  | typeEnum (es : List Str)
  | method (i o : Fields)
  | error (f : Fields)
deriving DecidableEq, Repr

inductive Kind where
  | typedef | method | error
deriving DecidableEq, Repr

/-- `MethodOrTypedefOrError` -/
structure Member where
  name : Str
  doc : Str
  body : Body
deriving DecidableEq, Repr

def Member.kind (m : Member) : Kind :=
  match m.body with
  | .typeStruct _ => .typedef
  | .typeEnum _ => .typedef
  | .method _ _ => .method
  | .error _ => .error

/-- what the grammar hands to `IDL::from_token` -/
structure Parsed where
  name : Str
  doc : Str
  members : List Member
deriving DecidableEq, Repr

end VV.Idl
