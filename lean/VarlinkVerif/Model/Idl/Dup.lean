/-
Model.Idl.Dup — `IDL::from_token` (lib.rs 151-223) and the error branch of
`try_from` (lib.rs 243-253).

The three `BTreeMap`s are association lists with replace-on-insert (`insertMap`
returns the previous value like `BTreeMap::insert`), the `HashSet<String>` of error
messages is a list; `try_from` sorts it (String order = code point order), which
also makes the set/list difference invisible once duplicates are removed.
-/
import VarlinkVerif.Model.Idl.Peg

namespace VV.Idl

structure IDL where
  name : Str
  doc : Str
  methodKeys : List Str := []
  typedefKeys : List Str := []
  errorKeys : List Str := []
  methods : List (Str × Member) := []
  typedefs : List (Str × Member) := []
  errors : List (Str × Member) := []
  /-- the `error: HashSet<String>` field, in insertion order -/
  error : List Str := []
deriving Repr, DecidableEq

/-- `BTreeMap::insert`: the new map and the value that was there before -/
def insertMap (k : Str) (v : Member) : List (Str × Member) → List (Str × Member) × Option Member
  | [] => ([(k, v)], none)
  | (k', v') :: r =>
    if k' = k then ((k, v) :: r, some v')
    else let q := insertMap k v r; ((k', v') :: q.1, q.2)

def lookupMap (k : Str) : List (Str × Member) → Option Member
  | [] => none
  | (k', v) :: r => if k' = k then some v else lookupMap k r

/-- a name between back quotes -/
def quoted (n : Str) : Str := '`' :: n ++ ['`']

def msgHead : Str := ['I', 'n', 't', 'e', 'r', 'f', 'a', 'c', 'e', ' ']
def msgMid : Str := [':', ' ', 'm', 'u', 'l', 't', 'i', 'p', 'l', 'e', ' ', 'd', 'e', 'f', 'i', 'n', 'i', 't', 'i', 'o', 'n', 's', ' ', 'o', 'f', ' ']

/-- "Interface `I`: multiple definitions of `N`!" -/
def msgAny (iface nm : Str) : Str :=
  msgHead ++ quoted iface ++ msgMid ++ quoted nm ++ ['!']

/-- "Interface `I`: multiple definitions of <kind> `N`!" -/
def msgKind (kind : Str) (iface nm : Str) : Str :=
  msgHead ++ quoted iface ++ msgMid ++ kind ++ ' ' :: quoted nm ++ ['!']

def kindWord : Kind → Str
  | .method => ['m', 'e', 't', 'h', 'o', 'd']
  | .typedef => ['t', 'y', 'p', 'e']
  | .error => ['e', 'r', 'r', 'o', 'r']

/-- one iteration of the `for o in mt` loop -/
def step (i : IDL) (m : Member) : IDL :=
  match m.kind with
  | .method =>
    let e1 := if i.errorKeys.contains m.name || i.typedefKeys.contains m.name then [msgAny i.name m.name] else []
    let q := insertMap m.name m i.methods
    let e2 := match q.2 with
      | some d => [msgKind ['m', 'e', 't', 'h', 'o', 'd'] i.name d.name]
      | none => []
    { i with methodKeys := i.methodKeys ++ [m.name], methods := q.1, error := i.error ++ e1 ++ e2 }
  | .typedef =>
    let e1 := if i.errorKeys.contains m.name || i.methodKeys.contains m.name then [msgAny i.name m.name] else []
    let q := insertMap m.name m i.typedefs
    let e2 := match q.2 with
      | some d => [msgKind ['t', 'y', 'p', 'e'] i.name d.name]
      | none => []
    { i with typedefKeys := i.typedefKeys ++ [m.name], typedefs := q.1, error := i.error ++ e1 ++ e2 }
  | .error =>
    let e1 := if i.typedefKeys.contains m.name || i.methodKeys.contains m.name then [msgAny i.name m.name] else []
    let q := insertMap m.name m i.errors
    let e2 := match q.2 with
      | some d => [msgKind ['e', 'r', 'r', 'o', 'r'] i.name d.name]
      | none => []
    { i with errorKeys := i.errorKeys ++ [m.name], errors := q.1, error := i.error ++ e1 ++ e2 }

/-- `IDL::from_token(description, name, mt, doc)` -/
def fromToken (p : Parsed) : IDL :=
  p.members.foldl step { name := p.name, doc := p.doc }

/-- `String`'s `Ord` (bytewise on UTF-8 = lexicographic on scalar values) -/
def strLt : Str → Str → Bool
  | [], [] => false
  | [], _ :: _ => true
  | _ :: _, [] => false
  | a :: x, b :: y => if a.toNat < b.toNat then true else if b.toNat < a.toNat then false else strLt x y

/-- insertion into a strictly sorted list (a second copy is dropped: the messages form a set) -/
def insertSorted (x : Str) : List Str → List Str
  | [] => [x]
  | y :: r => if x = y then y :: r else if strLt x y then x :: y :: r else y :: insertSorted x r

def sortMsgs (l : List Str) : List Str := l.foldr insertSorted []

def joinLines : List Str → Str
  | [] => []
  | [x] => x
  | x :: y :: r => x ++ '\n' :: joinLines (y :: r)

/-- the `Error::Idl` text of `try_from`: sorted messages joined by '\n', then one more '\n' -/
def idlErrorText (i : IDL) : Str := joinLines (sortMsgs i.error) ++ ['\n']

end VV.Idl
